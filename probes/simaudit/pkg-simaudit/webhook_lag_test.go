// Package directory: pkg/simaudit (scratch; any new directory under pkg/ works, no other file needed).
package simaudit

import (
	"context"
	"encoding/json"
	"fmt"
	"testing"
	"time"

	"github.com/stretchr/testify/assert"
	admissionv1 "k8s.io/api/admission/v1"
	corev1 "k8s.io/api/core/v1"
	kerrors "k8s.io/apimachinery/pkg/api/errors"
	metav1 "k8s.io/apimachinery/pkg/apis/meta/v1"
	"k8s.io/apimachinery/pkg/runtime"
	ktesting "k8s.io/client-go/testing"
	fakeclock "k8s.io/utils/clock/testing"
	"k8s.io/utils/pointer"

	configv1alpha1 "github.com/furiko-io/furiko/apis/config/v1alpha1"
	execution "github.com/furiko-io/furiko/apis/execution/v1alpha1"
	"github.com/furiko-io/furiko/pkg/execution/controllers/croncontroller"
	"github.com/furiko-io/furiko/pkg/execution/mutation"
	"github.com/furiko-io/furiko/pkg/execution/stores/activejobstore"
	"github.com/furiko-io/furiko/pkg/execution/webhooks/jobmutatingwebhook"
	"github.com/furiko-io/furiko/pkg/runtime/controllercontext/mock"
	"github.com/furiko-io/furiko/pkg/utils/ktime"
)

type logRecorder struct{ t *testing.T }

func (r logRecorder) CreatedJob(_ context.Context, _ *execution.JobConfig, j *execution.Job) {
	r.t.Logf("recorder: created job %s", j.Name)
}
func (r logRecorder) CreateJobFailed(_ context.Context, _ *execution.JobConfig, j *execution.Job, msg string) {
	r.t.Logf("recorder: CreateJobFailed %s: %s", j.Name, msg)
}
func (r logRecorder) SkippedJobSchedule(_ context.Context, _ *execution.JobConfig, ts time.Time, msg string) {
	r.t.Logf("recorder: skipped %v: %s", ts, msg)
}

// The admission webhooks run in their own process (cmd/execution-webhook) with their own JobConfig
// informer.  MutateCreateJob looks the owner JobConfig up in THAT cache and answers 422 Invalid
// when it is not there (mutation.go:155 -> ValidateLookupJobOwner).  croncontroller's CreateJob
// treats every Invalid as final (control.go: IsInvalid -> event, return nil), so the schedule time
// is dropped for good when the webhook's cache is merely a moment behind the controller's.
// In the harness the webhooks share the controller's fake informer, so they can never lag it.
func TestCronScheduleDroppedWhenWebhookCacheLags(t *testing.T) {
	ctx, cancel := context.WithCancel(context.Background())
	defer cancel()
	now := time.Unix(1700000040, 0)
	clk := fakeclock.NewFakeClock(now)
	ktime.Clock, croncontroller.Clock, mutation.Clock = clk, clk, clk

	ctrl := mock.NewContext() // execution-controller process (its clientset doubles as the API server)
	hook := mock.NewContext() // execution-webhook process: its JobConfig cache has not seen jc yet
	rjc := &execution.JobConfig{
		ObjectMeta: metav1.ObjectMeta{Namespace: "ns", Name: "jc", UID: "jc-uid"},
		Spec: execution.JobConfigSpec{
			Concurrency: execution.ConcurrencySpec{Policy: execution.ConcurrencyPolicyAllow},
			Schedule:    &execution.ScheduleSpec{Cron: &execution.CronSchedule{Expression: "* * * * *"}},
			Template: execution.JobTemplateSpec{Spec: execution.JobTemplate{MaxAttempts: pointer.Int64(1),
				TaskTemplate: execution.TaskTemplate{Pod: &execution.PodTemplateSpec{Spec: corev1.PodSpec{
					RestartPolicy: corev1.RestartPolicyNever,
					Containers:    []corev1.Container{{Name: "c", Image: "hello-world"}}}}}}},
		},
	}
	client := ctrl.MockClientsets().FurikoMock()
	_, err := client.ExecutionV1alpha1().JobConfigs("ns").Create(ctx, rjc, metav1.CreateOptions{})
	assert.NoError(t, err)

	wh, err := jobmutatingwebhook.NewWebhook(hook)
	assert.NoError(t, err)
	assert.NoError(t, hook.Start(ctx))
	assert.NoError(t, wh.Start(ctx))

	// API server: call the mutating webhook on CREATE jobs; a denial is returned to the client the way
	// k8s.io/apiserver/pkg/admission/plugin/webhook/errors.ToStatusErr does (code and reason kept).
	client.PrependReactor("create", "jobs", func(action ktesting.Action) (bool, runtime.Object, error) {
		raw, _ := json.Marshal(action.(ktesting.CreateAction).GetObject())
		resp, err := wh.Handle(ctx, &admissionv1.AdmissionRequest{
			Kind:      metav1.GroupVersionKind{Group: "execution.furiko.io", Version: "v1alpha1", Kind: "Job"},
			Operation: admissionv1.Create, Object: runtime.RawExtension{Raw: raw}})
		if err != nil {
			return true, nil, kerrors.NewInternalError(err)
		}
		if !resp.Allowed {
			st := *resp.Result
			st.Message = fmt.Sprintf("admission webhook %q denied the request: %s", "mutating.webhook.jobs.execution.furiko.io", st.Message)
			return true, nil, &kerrors.StatusError{ErrStatus: st}
		}
		return false, nil, nil
	})

	store, err := activejobstore.NewStore(ctrl)
	assert.NoError(t, err)
	ctrl.Stores().Register(store)
	cctx := croncontroller.NewContext(ctrl)
	rec := logRecorder{t}
	recon := croncontroller.NewReconciler(cctx, croncontroller.NewExecutionControl("cron", client.ExecutionV1alpha1(), rec), rec, store,
		&configv1alpha1.Concurrency{Workers: 1})
	assert.NoError(t, ctrl.Start(ctx))
	assert.NoError(t, store.Recover(ctx))
	time.Sleep(50 * time.Millisecond)

	key, err := croncontroller.JobConfigKeyFunc(rjc, now)
	assert.NoError(t, err)
	_, name, _ := splitKey(key)
	err = recon.SyncOne(ctx, "ns", name, 0)
	jobs, _ := client.ExecutionV1alpha1().Jobs("ns").List(ctx, metav1.ListOptions{})
	t.Logf("SyncOne(%s) = %v; Jobs on the server: %d", key, err, len(jobs.Items))
	assert.NoError(t, err, "nil => reconciler.Controller.work calls Forget: the key is never retried")
	assert.Len(t, jobs.Items, 0)

	// 50 ms later the webhook's cache has the JobConfig: the same create would now be admitted, but
	// nobody asks again.
	_, err = hook.MockClientsets().FurikoMock().ExecutionV1alpha1().JobConfigs("ns").Create(ctx, rjc, metav1.CreateOptions{})
	assert.NoError(t, err)
	time.Sleep(50 * time.Millisecond)
	err = recon.SyncOne(ctx, "ns", name, 0)
	jobs, _ = client.ExecutionV1alpha1().Jobs("ns").List(ctx, metav1.ListOptions{})
	t.Logf("(control) the same key synced again after the webhook caught up: err=%v, Jobs on the server: %d", err, len(jobs.Items))
	assert.Len(t, jobs.Items, 1)
}

func splitKey(key string) (string, string, bool) {
	for i := 0; i < len(key); i++ {
		if key[i] == '/' {
			return key[:i], key[i+1:], true
		}
	}
	return "", key, false
}
