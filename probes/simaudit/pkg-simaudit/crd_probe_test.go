// Package directory: pkg/simaudit (scratch). Needs crd_test.go (crdGate) and the govalidator stub replace, see README.txt.
package simaudit

import (
	"testing"
	"time"

	metav1 "k8s.io/apimachinery/pkg/apis/meta/v1"

	execution "github.com/furiko-io/furiko/apis/execution/v1alpha1"
)

func TestProbeRunningZeroTimestamp(t *testing.T) {
	g := loadGate(t, "execution.furiko.io_jobs.yaml")
	now := metav1.NewTime(time.Unix(1700000000, 0))
	rj := &execution.Job{
		TypeMeta:   metav1.TypeMeta{APIVersion: "execution.furiko.io/v1alpha1", Kind: "Job"},
		ObjectMeta: metav1.ObjectMeta{Namespace: "ns", Name: "j"},
		Status: execution.JobStatus{
			Phase: execution.JobTerminating, State: execution.JobStateRunning, StartTime: &now,
			Condition: execution.JobCondition{Running: &execution.JobConditionRunning{LatestCreationTimestamp: now, TerminatingTasks: 1}},
		},
	}
	stored, errs := g.admit(rj)
	t.Logf("stored status: %v", stored["status"])
	t.Logf("errors: %v", errs)
	rj.Status.Condition.Running.LatestRunningTimestamp = now
	_, errs = g.admit(rj)
	t.Logf("with timestamp set: errors: %v", errs)
}
