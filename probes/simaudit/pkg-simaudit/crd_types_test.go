// Package directory: pkg/simaudit (scratch). Needs crd_test.go (crdGate) and the govalidator stub replace, see README.txt.
package simaudit

import (
	"reflect"
	"strings"
	"testing"

	structuralschema "k8s.io/apiextensions-apiserver/pkg/apiserver/schema"
	metav1 "k8s.io/apimachinery/pkg/apis/meta/v1"

	execution "github.com/furiko-io/furiko/apis/execution/v1alpha1"
)

// walks the Go API types against the CRD schema: (a) Go fields the schema does not know (the API
// server would silently prune them from every write), (b) schema-required properties whose Go
// field can serialise as absent or null (omitempty, pointer, slice, map, metav1.Time).
func walkType(t *testing.T, path string, typ reflect.Type, s *structuralschema.Structural, seen map[reflect.Type]bool) {
	for typ.Kind() == reflect.Ptr {
		typ = typ.Elem()
	}
	if s == nil || s.XPreserveUnknownFields || s.XEmbeddedResource {
		return
	}
	switch typ.Kind() {
	case reflect.Slice, reflect.Array:
		if s.Items != nil {
			walkType(t, path+"[]", typ.Elem(), s.Items, seen)
		}
		return
	case reflect.Map:
		if s.AdditionalProperties != nil && s.AdditionalProperties.Structural != nil {
			walkType(t, path+"{}", typ.Elem(), s.AdditionalProperties.Structural, seen)
		}
		return
	case reflect.Struct:
	default:
		return
	}
	if typ == reflect.TypeOf(metav1.Time{}) || typ == reflect.TypeOf(metav1.ObjectMeta{}) || strings.HasPrefix(typ.PkgPath(), "k8s.io/api/core") {
		return
	}
	if seen[typ] {
		return
	}
	seen[typ] = true
	defer delete(seen, typ)
	required := map[string]bool{}
	for _, r := range s.ValueValidation.Required {
		required[r] = true
	}
	var fields func(typ reflect.Type)
	fields = func(typ reflect.Type) {
		for i := 0; i < typ.NumField(); i++ {
			f := typ.Field(i)
			tag := f.Tag.Get("json")
			name, opts, _ := strings.Cut(tag, ",")
			if name == "-" {
				continue
			}
			if name == "" && strings.Contains(opts, "inline") {
				ft := f.Type
				for ft.Kind() == reflect.Ptr {
					ft = ft.Elem()
				}
				if ft != reflect.TypeOf(metav1.TypeMeta{}) {
					fields(ft)
				}
				continue
			}
			if name == "" {
				name = f.Name
			}
			sub, ok := s.Properties[name]
			if !ok {
				t.Logf("PRUNED   %s.%s: Go field not in CRD schema", path, name)
				continue
			}
			if required[name] {
				nullable := false
				ft := f.Type
				switch {
				case strings.Contains(opts, "omitempty"):
					nullable = true
				case ft.Kind() == reflect.Ptr, ft.Kind() == reflect.Slice, ft.Kind() == reflect.Map:
					nullable = true
				case ft == reflect.TypeOf(metav1.Time{}):
					nullable = true
				}
				if nullable && !sub.Generic.Nullable {
					t.Logf("REQUIRED %s.%s (%s, tag %q): can serialise as null/absent, schema requires it", path, name, ft, tag)
				}
			}
			walkType(t, path+"."+name, f.Type, &sub, seen)
		}
	}
	fields(typ)
}

func TestTypesAgainstCRD(t *testing.T) {
	walkType(t, "Job", reflect.TypeOf(execution.Job{}), loadGate(t, "execution.furiko.io_jobs.yaml").ss, map[reflect.Type]bool{})
	walkType(t, "JobConfig", reflect.TypeOf(execution.JobConfig{}), loadGate(t, "execution.furiko.io_jobconfigs.yaml").ss, map[reflect.Type]bool{})
}
