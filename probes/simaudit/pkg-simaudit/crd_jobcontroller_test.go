// Package directory: pkg/simaudit (scratch).  Needs crd_test.go (crdGate) and the go.mod replace
//   github.com/asaskevich/govalidator => /tmp/scratch/govalidator-stub   (stub, offline cache lacks it)
package simaudit

import (
	"context"
	"testing"
	"time"

	"github.com/stretchr/testify/assert"
	corev1 "k8s.io/api/core/v1"
	kerrors "k8s.io/apimachinery/pkg/api/errors"
	metav1 "k8s.io/apimachinery/pkg/apis/meta/v1"
	"k8s.io/apimachinery/pkg/runtime"
	"k8s.io/apimachinery/pkg/runtime/schema"
	"k8s.io/apimachinery/pkg/types"
	ktesting "k8s.io/client-go/testing"
	"k8s.io/client-go/tools/cache"
	"k8s.io/client-go/tools/record"
	fakeclock "k8s.io/utils/clock/testing"
	"k8s.io/utils/pointer"

	configv1alpha1 "github.com/furiko-io/furiko/apis/config/v1alpha1"
	executiongroup "github.com/furiko-io/furiko/apis/execution"
	execution "github.com/furiko-io/furiko/apis/execution/v1alpha1"
	"github.com/furiko-io/furiko/pkg/execution/controllers/jobcontroller"
	"github.com/furiko-io/furiko/pkg/runtime/controllercontext/mock"
	"github.com/furiko-io/furiko/pkg/utils/ktime"
)

// A parallel Job (2 indexes, maxAttempts 1, AllSuccessful).  The pod of index 0 is rejected by the
// kubelet (phase Failed, no container ever started); the pod of index 1 is still Pending.  The real
// jobcontroller then computes condition.running{terminatingTasks:1} with a ZERO
// latestRunningTimestamp, which serialises as null.  The apiextensions-apiserver prunes the null
// and answers 422 "status.condition.running.latestRunningTimestamp: Required value".  The real
// Reconciler.SyncOne therefore fails on every pass for as long as the other pod is terminating,
// and the failure of index 0 is never recorded.  SimAPI applies no CRD schema, so the harness
// accepts the write.
func TestJobControllerStatusRejectedByCRDSchema(t *testing.T) {
	ctx, cancel := context.WithCancel(context.Background())
	defer cancel()
	gate := loadGate(t, "execution.furiko.io_jobs.yaml")
	t0 := time.Unix(1700000000, 0)
	clk := fakeclock.NewFakeClock(t0)
	ktime.Clock = clk

	c := mock.NewContext()
	furiko := c.MockClientsets().FurikoMock()
	kube := c.MockClientsets().KubernetesMock()

	// API-server side: CRD schema on every Job write (before the object tracker applies it).
	var rejected []string
	furiko.PrependReactor("update", "jobs", func(action ktesting.Action) (bool, runtime.Object, error) {
		obj := action.(ktesting.UpdateAction).GetObject().(*execution.Job).DeepCopy()
		obj.APIVersion, obj.Kind = "execution.furiko.io/v1alpha1", "Job"
		if _, errs := gate.admit(obj); len(errs) > 0 {
			rejected = append(rejected, errs.ToAggregate().Error())
			return true, nil, kerrors.NewInvalid(schema.GroupKind{Group: "execution.furiko.io", Kind: "Job"}, obj.Name, errs)
		}
		return false, nil, nil
	})
	// the API server stamps creationTimestamp and uid on create (the fake object tracker does not).
	kube.PrependReactor("create", "pods", func(action ktesting.Action) (bool, runtime.Object, error) {
		pod := action.(ktesting.CreateAction).GetObject().(*corev1.Pod)
		pod.CreationTimestamp = metav1.NewTime(clk.Now())
		pod.UID = types.UID("uid-" + pod.Name)
		return false, nil, nil
	})
	// graceful pod deletion: the pod gets a deletion timestamp and stays until the kubelet confirms.
	kube.PrependReactor("delete", "pods", func(action ktesting.Action) (bool, runtime.Object, error) {
		name := action.(ktesting.DeleteAction).GetName()
		obj, err := kube.Tracker().Get(action.GetResource(), action.GetNamespace(), name)
		if err != nil {
			return true, nil, err
		}
		pod := obj.(*corev1.Pod).DeepCopy()
		if pod.DeletionTimestamp == nil {
			now := metav1.NewTime(clk.Now())
			pod.DeletionTimestamp = &now
			_ = kube.Tracker().Update(action.GetResource(), pod, action.GetNamespace())
		}
		return true, nil, nil
	})

	jctx := jobcontroller.NewContextWithRecorder(c, record.NewFakeRecorder(1000))
	recon := jobcontroller.NewReconciler(jctx, &configv1alpha1.Concurrency{Workers: 1})

	start := metav1.NewTime(t0)
	rj := &execution.Job{
		ObjectMeta: metav1.ObjectMeta{Namespace: "ns", Name: "job", UID: "job-uid", CreationTimestamp: start,
			Finalizers: []string{executiongroup.DeleteDependentsFinalizer}},
		Spec: execution.JobSpec{
			Type: execution.JobTypeAdhoc,
			Template: &execution.JobTemplate{
				MaxAttempts: pointer.Int64(1),
				Parallelism: &execution.ParallelismSpec{WithCount: pointer.Int64(2)},
				TaskTemplate: execution.TaskTemplate{Pod: &execution.PodTemplateSpec{Spec: corev1.PodSpec{
					Containers: []corev1.Container{{Name: "c", Image: "hello-world"}}}}},
			},
		},
		Status: execution.JobStatus{StartTime: &start},
	}
	_, err := furiko.ExecutionV1alpha1().Jobs("ns").Create(ctx, rj, metav1.CreateOptions{})
	assert.NoError(t, err)
	assert.NoError(t, c.Start(ctx))
	if !cache.WaitForCacheSync(ctx.Done(), jctx.GetHasSynced()...) {
		t.Fatal("no sync")
	}
	settle := func() { time.Sleep(50 * time.Millisecond) } // let the real informers observe the writes
	sync := func() error { settle(); err := recon.SyncOne(ctx, "ns", "job", 0); settle(); return err }
	serverJob := func() *execution.Job {
		j, err := furiko.ExecutionV1alpha1().Jobs("ns").Get(ctx, "job", metav1.GetOptions{})
		assert.NoError(t, err)
		return j
	}

	// pass 1: both pods are created and recorded.
	assert.NoError(t, sync())
	pods, _ := kube.CoreV1().Pods("ns").List(ctx, metav1.ListOptions{})
	if !assert.Len(t, pods.Items, 2) {
		return
	}
	assert.Len(t, serverJob().Status.Tasks, 2)
	t.Logf("after pass 1: phase=%s tasks=%d rejected=%d", serverJob().Status.Phase, len(serverJob().Status.Tasks), len(rejected))

	// kubelet: pod of index 0 is rejected at admission (OutOfcpu): Failed, no container statuses.
	clk.Step(5 * time.Second)
	p0 := pods.Items[0].DeepCopy()
	p0.Status = corev1.PodStatus{Phase: corev1.PodFailed, Reason: "OutOfcpu", Message: "Node didn't have enough resource: cpu",
		StartTime: &metav1.Time{Time: clk.Now()}}
	_, err = kube.CoreV1().Pods("ns").UpdateStatus(ctx, p0, metav1.UpdateOptions{})
	assert.NoError(t, err)
	p1 := pods.Items[1].DeepCopy()
	p1.Status = corev1.PodStatus{Phase: corev1.PodPending}
	_, err = kube.CoreV1().Pods("ns").UpdateStatus(ctx, p1, metav1.UpdateOptions{})
	assert.NoError(t, err)

	// passes 2..6: the controller stops the other pod and tries to record the outcome.
	var errs []error
	for i := 0; i < 5; i++ {
		clk.Step(time.Second)
		errs = append(errs, sync())
	}
	sj := serverJob()
	t.Logf("after 5 more passes: sync errors=%v", errs)
	t.Logf("server-side Job: phase=%q condition=%+v tasks[0].status=%+v", sj.Status.Phase, sj.Status.Condition, sj.Status.Tasks[0].Status)
	t.Logf("rejected writes: %d, first: %s", len(rejected), first(rejected))
	pl, _ := kube.CoreV1().Pods("ns").List(ctx, metav1.ListOptions{})
	for _, p := range pl.Items {
		t.Logf("pod %s phase=%s deleting=%v", p.Name, p.Status.Phase, p.DeletionTimestamp != nil)
	}
	assert.NotEmpty(t, rejected, "expected the CRD schema to reject the controller's status write")
	for _, e := range errs {
		assert.Error(t, e)
	}
	// the recorded status never learned that index 0 failed
	assert.NotEqual(t, execution.TaskTerminated, sj.Status.Tasks[0].Status.State)

	// the kubelet finally confirms the deletion of pod 1: only now does a write get through.
	n := len(rejected)
	assert.NoError(t, kube.Tracker().Delete(schema.GroupVersionResource{Version: "v1", Resource: "pods"}, "ns", pl.Items[1].Name))
	assert.NoError(t, sync())
	t.Logf("after pod 1 is gone: phase=%q result=%v rejected since=%d", serverJob().Status.Phase, serverJob().Status.Condition.Finished, len(rejected)-n)
}

func first(s []string) string {
	if len(s) == 0 {
		return ""
	}
	return s[0]
}
