// Package directory: pkg/simaudit (scratch; any new directory under pkg/ works, no other file needed).
package simaudit

import (
	"context"
	"testing"
	"time"

	"github.com/stretchr/testify/assert"
	metav1 "k8s.io/apimachinery/pkg/apis/meta/v1"
	"k8s.io/apimachinery/pkg/runtime"
	"k8s.io/apimachinery/pkg/types"
	ktesting "k8s.io/client-go/testing"
	"k8s.io/client-go/tools/record"
	fakeclock "k8s.io/utils/clock/testing"
	"k8s.io/utils/pointer"

	configv1alpha1 "github.com/furiko-io/furiko/apis/config/v1alpha1"
	execution "github.com/furiko-io/furiko/apis/execution/v1alpha1"
	"github.com/furiko-io/furiko/pkg/execution/controllers/jobqueuecontroller"
	"github.com/furiko-io/furiko/pkg/execution/stores/activejobstore"
	jobutil "github.com/furiko-io/furiko/pkg/execution/util/job"
	"github.com/furiko-io/furiko/pkg/execution/util/jobconfig"
	"github.com/furiko-io/furiko/pkg/runtime/controllercontext/mock"
	"github.com/furiko-io/furiko/pkg/utils/ktime"
)

// client-go's reflector performs its INITIAL list with resourceVersion="0" (reflector.go:569-573),
// which the API server may answer from its watch cache, i.e. with a snapshot that is older than the
// last write of the previous controller process; the watch then replays what is missing.  The
// harness restarts with cache := authoritative state.
//
// History: the old process started Job j1 (status.startTime written) and died.  The new process
// lists a snapshot in which j1 is still unstarted, Recover counts 0 active Jobs, and the catch-up
// event (unstarted -> started) is ignored by Store.OnUpdate because "starts are accounted for by
// CheckAndAdd" - but that CheckAndAdd happened in the dead process.  The counter stays 0 while j1
// is active; the next Enqueue Job is started: 2 active Jobs, maxConcurrency 1.
//
// The fake clientset has no resourceVersion semantics, so the stale snapshot is produced by a list
// reactor and the watch catch-up by re-sending the current object as a MODIFIED event.
func TestStaleInitialListUndercountsStartedJob(t *testing.T) {
	ctx, cancel := context.WithCancel(context.Background())
	defer cancel()
	now := time.Unix(1700000000, 0)
	ktime.Clock = fakeclock.NewFakeClock(now)

	c := mock.NewContext()
	client := c.MockClientsets().FurikoMock()
	rjc := &execution.JobConfig{
		ObjectMeta: metav1.ObjectMeta{Namespace: "ns", Name: "jc", UID: "jc-uid"},
		Spec: execution.JobConfigSpec{Concurrency: execution.ConcurrencySpec{
			Policy: execution.ConcurrencyPolicyEnqueue, MaxConcurrency: pointer.Int64(1)}},
	}
	mkJob := func(name string, sec int64) *execution.Job {
		return &execution.Job{
			ObjectMeta: metav1.ObjectMeta{Namespace: "ns", Name: name, UID: types.UID("uid-" + name), ResourceVersion: "1",
				CreationTimestamp: metav1.NewTime(now.Add(time.Duration(sec) * time.Second)),
				Labels:            map[string]string{jobconfig.LabelKeyJobConfigUID: string(rjc.UID)},
				OwnerReferences:   []metav1.OwnerReference{*metav1.NewControllerRef(rjc, execution.GVKJobConfig)}},
			Spec: execution.JobSpec{StartPolicy: &execution.StartPolicySpec{ConcurrencyPolicy: execution.ConcurrencyPolicyEnqueue}},
		}
	}
	_, err := client.ExecutionV1alpha1().JobConfigs("ns").Create(ctx, rjc, metav1.CreateOptions{})
	assert.NoError(t, err)
	// server truth: j1 was started by the previous process.
	j1 := mkJob("j1", 0)
	st := metav1.NewTime(now)
	j1.Status.StartTime, j1.Status.Phase, j1.ResourceVersion = &st, execution.JobPending, "2"
	_, err = client.ExecutionV1alpha1().Jobs("ns").Create(ctx, j1, metav1.CreateOptions{})
	assert.NoError(t, err)
	// the initial LIST is served from a watch cache that has not seen that write yet.
	client.PrependReactor("list", "jobs", func(ktesting.Action) (bool, runtime.Object, error) {
		return true, &execution.JobList{ListMeta: metav1.ListMeta{ResourceVersion: "1"}, Items: []execution.Job{*mkJob("j1", 0)}}, nil
	})

	store, err := activejobstore.NewStore(c)
	assert.NoError(t, err)
	c.Stores().Register(store)
	qctx := jobqueuecontroller.NewContextWithRecorder(c, record.NewFakeRecorder(1000))
	assert.NoError(t, c.Start(ctx))
	assert.NoError(t, store.Recover(ctx))
	t.Logf("after Recover: counter=%d (server: j1 active)", store.CountActiveJobsForConfig(rjc))
	time.Sleep(50 * time.Millisecond)

	// the watch catches up: MODIFIED j1 (started).
	_, err = client.ExecutionV1alpha1().Jobs("ns").UpdateStatus(ctx, j1, metav1.UpdateOptions{})
	assert.NoError(t, err)
	time.Sleep(50 * time.Millisecond)
	cached, err := qctx.Informers().Furiko().Execution().V1alpha1().Jobs().Lister().Jobs("ns").Get("j1")
	assert.NoError(t, err)
	t.Logf("after the watch caught up: cache sees j1 started=%v, counter=%d", jobutil.IsStarted(cached), store.CountActiveJobsForConfig(rjc))

	// a second Enqueue Job arrives.
	_, err = client.ExecutionV1alpha1().Jobs("ns").Create(ctx, mkJob("j2", 10), metav1.CreateOptions{})
	assert.NoError(t, err)
	time.Sleep(50 * time.Millisecond)
	recon := jobqueuecontroller.NewPerConfigReconciler(qctx, &configv1alpha1.Concurrency{Workers: 1},
		jobqueuecontroller.NewJobControl(client.ExecutionV1alpha1(), record.NewFakeRecorder(1000)))
	assert.NoError(t, recon.SyncOne(ctx, "ns", "jc", 0))
	time.Sleep(50 * time.Millisecond)

	var active []string
	for _, n := range []string{"j1", "j2"} {
		j, err := client.ExecutionV1alpha1().Jobs("ns").Get(ctx, n, metav1.GetOptions{})
		assert.NoError(t, err)
		if jobutil.IsActive(j) {
			active = append(active, n)
		}
	}
	t.Logf("after one pass of the queue controller: active on the server = %v, maxConcurrency = 1, counter=%d", active, store.CountActiveJobsForConfig(rjc))
	assert.Len(t, active, 2, "expected the C05 violation")
}
