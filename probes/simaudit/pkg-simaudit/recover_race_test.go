// Package directory: pkg/simaudit (scratch; any new directory under pkg/ works, no other file needed).
package simaudit

import (
	"context"
	"fmt"
	"testing"
	"time"

	"github.com/stretchr/testify/assert"
	metav1 "k8s.io/apimachinery/pkg/apis/meta/v1"
	"k8s.io/apimachinery/pkg/runtime"
	"k8s.io/apimachinery/pkg/types"
	ktesting "k8s.io/client-go/testing"
	"k8s.io/client-go/tools/record"
	fakeclock "k8s.io/utils/clock/testing"
	"k8s.io/utils/pointer"

	configv1alpha1 "github.com/furiko-io/furiko/apis/config/v1alpha1"
	execution "github.com/furiko-io/furiko/apis/execution/v1alpha1"
	"github.com/furiko-io/furiko/pkg/execution/controllers/jobqueuecontroller"
	"github.com/furiko-io/furiko/pkg/execution/stores/activejobstore"
	jobutil "github.com/furiko-io/furiko/pkg/execution/util/job"
	"github.com/furiko-io/furiko/pkg/execution/util/jobconfig"
	"github.com/furiko-io/furiko/pkg/runtime/controllercontext/mock"
	"github.com/furiko-io/furiko/pkg/utils/ktime"
)

// activejobstore.Recover registers its event handler FIRST (informer.Start -> AddEventHandler),
// then waits for the cache (cache.WaitForCacheSync polls HasSynced every 100 ms), then counts the
// active Jobs from the lister.  A Job that stops being active (or is removed) after the handler was
// registered and before the lister is read is accounted for twice: it is not counted by the list,
// and its update/delete notification decrements the counter anyway (the handler does not wait for
// Recover: it takes no lock).  The counter of the JobConfig ends at -1, and the queue controller
// then starts maxConcurrency+1 Jobs.
//
// The window is [handler registered, lister read]; with a cold cache it lasts until the next
// 100 ms poll tick after the initial LIST was processed.  The test holds the LIST back so that
// Recover is already polling, lets the LIST through, and finishes the Job ~30 ms later.
func recoverRaceOnce(t *testing.T, verbose bool) (counter int64, started int) {
	ctx, cancel := context.WithCancel(context.Background())
	defer cancel()
	now := time.Unix(1700000000, 0)
	ktime.Clock = fakeclock.NewFakeClock(now)

	c := mock.NewContext()
	client := c.MockClientsets().FurikoMock()

	rjc := &execution.JobConfig{
		ObjectMeta: metav1.ObjectMeta{Namespace: "ns", Name: "jc", UID: "jc-uid"},
		Spec: execution.JobConfigSpec{Concurrency: execution.ConcurrencySpec{
			Policy: execution.ConcurrencyPolicyEnqueue, MaxConcurrency: pointer.Int64(1)}},
	}
	mkJob := func(name string, sec int64, started bool) *execution.Job {
		j := &execution.Job{
			ObjectMeta: metav1.ObjectMeta{Namespace: "ns", Name: name, UID: types.UID("uid-" + name),
				CreationTimestamp: metav1.NewTime(now.Add(time.Duration(sec) * time.Second)),
				Labels:            map[string]string{jobconfig.LabelKeyJobConfigUID: string(rjc.UID)},
				OwnerReferences:   []metav1.OwnerReference{*metav1.NewControllerRef(rjc, execution.GVKJobConfig)}},
			Spec: execution.JobSpec{StartPolicy: &execution.StartPolicySpec{ConcurrencyPolicy: execution.ConcurrencyPolicyEnqueue}},
		}
		if started {
			st := metav1.NewTime(now)
			j.Status.StartTime = &st
			j.Status.Phase = execution.JobRunning
		}
		return j
	}
	_, err := client.ExecutionV1alpha1().JobConfigs("ns").Create(ctx, rjc, metav1.CreateOptions{})
	assert.NoError(t, err)
	j1, err := client.ExecutionV1alpha1().Jobs("ns").Create(ctx, mkJob("j1", 0, true), metav1.CreateOptions{})
	assert.NoError(t, err)

	// LIST jobs is slow (an apiserver with many Jobs): held until released.
	release := make(chan struct{})
	client.PrependReactor("list", "jobs", func(ktesting.Action) (bool, runtime.Object, error) {
		<-release
		return false, nil, nil
	})

	store, err := activejobstore.NewStore(c)
	assert.NoError(t, err)
	c.Stores().Register(store)
	qctx := jobqueuecontroller.NewContextWithRecorder(c, record.NewFakeRecorder(1000)) // requests both informers
	assert.NoError(t, c.Start(ctx))                                                      // as controllermanager.BaseManager.Start does

	done := make(chan error, 1)
	go func() { done <- store.Recover(ctx) }() // as ControllerManager.Start -> RecoverStores does
	time.Sleep(20 * time.Millisecond)          // Recover polled once (cache not synced) and sleeps 100 ms
	close(release)
	jobsInf := c.Informers().Furiko().Execution().V1alpha1().Jobs().Informer()
	for !jobsInf.HasSynced() {
		time.Sleep(time.Millisecond)
	}
	time.Sleep(20 * time.Millisecond) // the reflector has opened its watch
	// somebody other than this (not yet running) controller finishes j1: the previous leader's last
	// write arriving late, a user forcing the Job away, ...
	fin := j1.DeepCopy()
	fin.Status.Phase = execution.JobSucceeded
	fin.Status.Condition.Finished = &execution.JobConditionFinished{FinishTimestamp: metav1.NewTime(now), Result: execution.JobResultSuccess}
	_, err = client.ExecutionV1alpha1().Jobs("ns").UpdateStatus(ctx, fin, metav1.UpdateOptions{})
	assert.NoError(t, err)
	assert.NoError(t, <-done)
	time.Sleep(50 * time.Millisecond)
	counter = store.CountActiveJobsForConfig(rjc)
	if verbose {
		t.Logf("after Recover: no Job of %s is active on the server, store counter = %d", rjc.Name, counter)
	}

	// Two Enqueue Jobs arrive; maxConcurrency is 1.  Real PerConfigReconciler, real JobControl.
	for i, n := range []string{"j2", "j3"} {
		_, err := client.ExecutionV1alpha1().Jobs("ns").Create(ctx, mkJob(n, int64(10+i), false), metav1.CreateOptions{})
		assert.NoError(t, err)
	}
	time.Sleep(50 * time.Millisecond)
	recon := jobqueuecontroller.NewPerConfigReconciler(qctx, &configv1alpha1.Concurrency{Workers: 1},
		jobqueuecontroller.NewJobControl(client.ExecutionV1alpha1(), record.NewFakeRecorder(1000)))
	assert.NoError(t, recon.SyncOne(ctx, "ns", "jc", 0))
	time.Sleep(50 * time.Millisecond)
	list, err := client.ExecutionV1alpha1().Jobs("ns").List(ctx, metav1.ListOptions{})
	assert.NoError(t, err)
	var active []string
	for i := range list.Items {
		if jobutil.IsActive(&list.Items[i]) {
			active = append(active, list.Items[i].Name)
		}
	}
	if verbose {
		t.Logf("after one pass of the queue controller: active Jobs on the server = %v (maxConcurrency 1), store counter = %d",
			active, store.CountActiveJobsForConfig(rjc))
	}
	return counter, len(active)
}

func TestRecoverDoubleCountsTransitionInSyncWindow(t *testing.T) {
	const rounds = 20
	hits, over := 0, 0
	for i := 0; i < rounds; i++ {
		counter, active := recoverRaceOnce(t, i == 0)
		if counter < 0 {
			hits++
		}
		if active > 1 {
			over++
		}
	}
	fmt.Printf("rounds=%d counter-negative=%d more-than-maxConcurrency-active=%d\n", rounds, hits, over)
	assert.Greater(t, hits, 0, "the race did not hit in any round")
	assert.Equal(t, hits, over, "every negative counter must lead to 2 concurrently active Jobs")
}
