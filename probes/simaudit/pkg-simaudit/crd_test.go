// Package directory: pkg/simaudit (new, scratch only). Requires config/crd/bases of the repo.
package simaudit

import (
	"encoding/json"
	"os"
	"path/filepath"
	"testing"

	apiextensions "k8s.io/apiextensions-apiserver/pkg/apis/apiextensions"
	apiextensionsv1 "k8s.io/apiextensions-apiserver/pkg/apis/apiextensions/v1"
	structuralschema "k8s.io/apiextensions-apiserver/pkg/apiserver/schema"
	structuralpruning "k8s.io/apiextensions-apiserver/pkg/apiserver/schema/pruning"
	apiservervalidation "k8s.io/apiextensions-apiserver/pkg/apiserver/validation"
	"k8s.io/apimachinery/pkg/util/validation/field"
	"k8s.io/kube-openapi/pkg/validation/validate"
	"sigs.k8s.io/yaml"
)

// crdGate reproduces what the apiextensions-apiserver does to the body of a create/update of a
// custom resource before it is stored: prune unknown fields, prune non-nullable nulls, apply
// schema defaults, validate against the openAPIV3Schema (customresource_handler.go:1338-1343,
// 1130; registry/customresource/validator.go).
type crdGate struct {
	ss        *structuralschema.Structural
	validator *validate.SchemaValidator
}

func loadGate(t testing.TB, file string) *crdGate {
	b, err := os.ReadFile(filepath.Join("..", "..", "config", "crd", "bases", file))
	if err != nil {
		t.Fatal(err)
	}
	var crd apiextensionsv1.CustomResourceDefinition
	if err := yaml.Unmarshal(b, &crd); err != nil {
		t.Fatal(err)
	}
	var internal apiextensions.JSONSchemaProps
	if err := apiextensionsv1.Convert_v1_JSONSchemaProps_To_apiextensions_JSONSchemaProps(crd.Spec.Versions[0].Schema.OpenAPIV3Schema, &internal, nil); err != nil {
		t.Fatal(err)
	}
	ss, err := structuralschema.NewStructural(&internal)
	if err != nil {
		t.Fatal(err)
	}
	v, _, err := apiservervalidation.NewSchemaValidator(&apiextensions.CustomResourceValidation{OpenAPIV3Schema: &internal})
	if err != nil {
		t.Fatal(err)
	}
	return &crdGate{ss: ss, validator: v}
}

// admit returns the stored form and the validation errors the API server would answer with (422).
func (g *crdGate) admit(obj interface{}) (map[string]interface{}, field.ErrorList) {
	b, err := json.Marshal(obj)
	if err != nil {
		panic(err)
	}
	var u map[string]interface{}
	if err := json.Unmarshal(b, &u); err != nil {
		panic(err)
	}
	structuralpruning.Prune(u, g.ss, true)
	pruneNonNullableNullsWithoutDefaults(u, g.ss) // the furiko CRDs declare no schema defaults
	return u, apiservervalidation.ValidateCustomResource(nil, u, g.validator)
}

func TestGateLoads(t *testing.T) {
	loadGate(t, "execution.furiko.io_jobs.yaml")
	loadGate(t, "execution.furiko.io_jobconfigs.yaml")
}

// copied from k8s.io/apiextensions-apiserver@v0.23.0/pkg/apiserver/schema/defaulting/prunenulls.go
// (that package cannot be imported here: it drags in cel-go, which is not in the module cache).
func isNonNullableNonDefaultableNull(x interface{}, s *structuralschema.Structural) bool {
	return x == nil && s != nil && s.Generic.Nullable == false && s.Default.Object == nil
}

func getSchemaForField(field string, s *structuralschema.Structural) *structuralschema.Structural {
	if s == nil {
		return nil
	}
	schema, ok := s.Properties[field]
	if ok {
		return &schema
	}
	if s.AdditionalProperties != nil {
		return s.AdditionalProperties.Structural
	}
	return nil
}

func pruneNonNullableNullsWithoutDefaults(x interface{}, s *structuralschema.Structural) {
	switch x := x.(type) {
	case map[string]interface{}:
		for k, v := range x {
			schema := getSchemaForField(k, s)
			if isNonNullableNonDefaultableNull(v, schema) {
				delete(x, k)
			} else {
				pruneNonNullableNullsWithoutDefaults(v, schema)
			}
		}
	case []interface{}:
		var schema *structuralschema.Structural
		if s != nil {
			schema = s.Items
		}
		for i := range x {
			pruneNonNullableNullsWithoutDefaults(x[i], schema)
		}
	}
}
