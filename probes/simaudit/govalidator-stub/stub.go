// Package govalidator is a STUB for the scratch audit only: the real module is not in the
// offline module cache and kube-openapi's strfmt registers these format checkers at init.
// None of the formats below occurs in the furiko CRDs (they use date-time, int32, int64 only).
package govalidator

func IsRequestURI(string) bool { return true }
func IsIPv6(string) bool       { return true }
func IsMAC(string) bool        { return true }
func IsISBN10(string) bool     { return true }
func IsISBN13(string) bool     { return true }
func IsCreditCard(string) bool { return true }
func IsSSN(string) bool        { return true }
func IsHexcolor(string) bool   { return true }
func IsRGBcolor(string) bool   { return true }
func IsBase64(string) bool     { return true }
