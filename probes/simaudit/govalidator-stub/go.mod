module github.com/asaskevich/govalidator

go 1.17
