package eng

import (
	"fmt"
	"strings"
	"sync"
	"time"

	metav1 "k8s.io/apimachinery/pkg/apis/meta/v1"
	"k8s.io/apimachinery/pkg/runtime"
	"k8s.io/apimachinery/pkg/types"
	"k8s.io/utils/clock"
	fakeclock "k8s.io/utils/clock/testing"

	configv1alpha1 "github.com/furiko-io/furiko/apis/config/v1alpha1"
	execution "github.com/furiko-io/furiko/apis/execution/v1alpha1"
	"github.com/furiko-io/furiko/pkg/execution/controllers/croncontroller"

	"verifharness/sim"
)

// Hand-written corpus scenarios of the cron engine: minimal replays of the defects that were
// found with this machinery and repaired (KNOWN_FINDINGS.jsonl, status "fixed").  They run
// before the generated cases on every check, through the same op-line protocol, and their
// monitors raise ordinary violations if a defect returns.

type cronSc struct {
	deferEmit *[]func()
	pending   []*sync.WaitGroup
	c         *Ctx
	w         *cronWorld
	ctx       *sim.Context
	clk       *fakeclock.FakeClock
	worker    *croncontroller.CronWorker
	h         *captureHandler
	cur       map[string]*jcVersion
}

func newCronSc(c *Ctx, now0 int64, jcs ...*execution.JobConfig) *cronSc {
	return newCronScHook(c, now0, nil, jcs...)
}

func newCronScHook(c *Ctx, now0 int64, duringInit func(s *cronSc), jcs ...*execution.JobConfig) *cronSc {
	return newCronScBoot(c, now0, duringInit, "after-init", jcs...)
}

// newCronScBoot: duringInit (if any) runs once in the middle of CronWorker.Init (at the
// first load of the cron config inside cronschedule.New, i.e. after the cache was listed).
// initialAdds says when the cron handler runs the informer's add notifications for the
// JobConfigs that exist at boot: "before-init", "after-init" (right after CronWorker.Init: the
// typical production order, the default of the scenarios) or "hold" (the scenario delivers them
// itself with initialAdd).
func newCronScBoot(c *Ctx, now0 int64, duringInit func(s *cronSc), initialAdds string, jcs ...*execution.JobConfig) *cronSc {
	s := &cronSc{c: c, cur: map[string]*jcVersion{}}
	s.w = &cronWorld{c: c, rng: c.Rng, specIDs: map[string]int{}, maxList: 6000, scale: 1}
	s.ctx = sim.NewContext()
	s.ctx.MockConfigs().SetConfigs(map[configv1alpha1.ConfigName]runtime.Object{configv1alpha1.CronExecutionConfigName: &configv1alpha1.CronExecutionConfig{}})
	merged, _ := s.ctx.Configs().Cron()
	s.w.cfg = merged
	s.w.w0, s.w.w1 = now0-400, now0+4000
	c.Emit(fmt.Sprintf("cron.reset %d %s", merged.MaxDowntimeThresholdSeconds, OptI(merged.MaxMissedSchedules)), "ok")
	var ids []string
	for _, jc := range jcs {
		v := s.w.describe(jc, tzChoice{"", nil})
		s.cur[v.key] = v
		s.ctx.Sim().JobConfigs().CacheSet(jc)
	}
	for _, k := range SortedKeys(s.cur) {
		ids = append(ids, fmt.Sprint(s.cur[k].id))
	}
	s.clk = fakeclock.NewFakeClock(time.Unix(now0, 0))
	croncontroller.Clock = s.clk
	cctx := croncontroller.NewContext(s.ctx)
	s.h = &captureHandler{}
	s.worker = croncontroller.NewCronWorker(cctx, s.h)
	infw := croncontroller.NewInformerWorker(cctx, croncontroller.NewUpdateHandler(cctx))
	s.ctx.Sim().JobConfigs().ReplayOnRegister = true
	infw.Init()
	if initialAdds == "before-init" {
		for _, k := range SortedKeys(s.cur) {
			s.initialAdd(strings.TrimPrefix(k, "ns/"))
		}
	}
	var lateAdds []func()
	if duringInit != nil {
		fired := false
		s.ctx.OnCronConfigLoad = func() {
			if !fired {
				fired = true
				s.deferEmit = &lateAdds
				duringInit(s)
				s.deferEmit = nil
			}
		}
	}
	err := s.worker.Init()
	s.ctx.OnCronConfigLoad = nil
	for _, wg := range s.pending {
		wg.Wait() // handlers that had to wait for Init
	}
	s.pending = nil
	c.Emit(fmt.Sprintf("cron.init %d %s", now0*1e9, strings.Join(ids, ",")), map[bool]string{true: "ok", false: "err"}[err == nil])
	for _, f := range lateAdds {
		f() // the op lines of events that happened during Init follow the init line
	}
	if initialAdds == "after-init" {
		for _, k := range SortedKeys(s.cur) {
			if s.ctx.Sim().JobConfigs().PendingFor(0) > 0 {
				s.initialAdd(strings.TrimPrefix(k, "ns/"))
			}
		}
	}
	return s
}

// initialAdd lets the cron handler run the informer's add notification for a JobConfig that
// existed at boot (no-op if it ran already).
func (s *cronSc) initialAdd(name string) {
	v := s.cur["ns/"+name]
	if v == nil || !s.ctx.Sim().JobConfigs().NotifyNextFor(0, "ns/"+name) {
		return
	}
	s.c.Emit(fmt.Sprintf("cron.initial-add %d", v.id), "ok")
	s.c.Count("cron.initial-add")
	s.c.Count("cron.initial-add.scenario")
}

func scJC(name string, expr string, mod func(*execution.JobConfig)) *execution.JobConfig {
	jc := &execution.JobConfig{ObjectMeta: metav1.ObjectMeta{Namespace: "ns", Name: name, UID: types.UID("uid-" + name)}}
	jc.Spec.Schedule = &execution.ScheduleSpec{Cron: &execution.CronSchedule{Expression: expr}}
	if mod != nil {
		mod(jc)
	}
	return jc
}

func (s *cronSc) add(jc *execution.JobConfig) {
	if s.deferEmit != nil {
		// inside Init: the cache applies the event now; the handler runs on the informer's own
		// goroutine, not on Init's (since the repair of F24 it may have to wait for a mutex that
		// Init holds).  It is given the time to run DURING Init — a handler that does not wait
		// (the tree before that repair, or one that tests scheduleInitialized too late) takes
		// its decision now — and is otherwise awaited after Init.  The op lines are emitted after
		// the init line.
		inf := s.ctx.Sim().JobConfigs()
		inf.CacheSet(jc)
		wg := &sync.WaitGroup{}
		wg.Add(1)
		done := make(chan struct{})
		go func() { defer wg.Done(); defer close(done); inf.NotifyAdd(-1, jc) }()
		select {
		case <-done:
			s.c.Count("cron.sc.add-during-init.ran-during-init")
		case <-time.After(300 * time.Millisecond):
			s.c.Count("cron.sc.add-during-init.waited-for-init")
		}
		s.pending = append(s.pending, wg)
		*s.deferEmit = append(*s.deferEmit, func() {
			v := s.w.describe(jc, tzChoice{"", nil})
			s.cur[v.key] = v
			s.c.Emit(fmt.Sprintf("cron.add %d", v.id), "ok")
		})
		return
	}
	v := s.w.describe(jc, tzChoice{"", nil})
	s.cur[v.key] = v
	s.ctx.Sim().JobConfigs().Apply("add", jc)
	s.c.Emit(fmt.Sprintf("cron.add %d", v.id), "ok")
}

func (s *cronSc) update(jc *execution.JobConfig) {
	old := s.cur["ns/"+jc.Name]
	v := s.w.describe(jc, tzChoice{"", nil})
	s.cur[v.key] = v
	s.ctx.Sim().JobConfigs().Apply("update", jc)
	s.c.Emit(fmt.Sprintf("cron.update %d %d", old.id, v.id), "ok")
}

func (s *cronSc) del(name string) {
	old := s.cur["ns/"+name]
	s.ctx.Sim().JobConfigs().Apply("delete", old.obj)
	s.c.Emit(fmt.Sprintf("cron.delete %d", old.id), "ok")
	delete(s.cur, "ns/"+name)
}

func (s *cronSc) tick(at int64) []fired {
	s.clk.SetTime(time.Unix(at, 0))
	s.h.got = nil
	out := Guard(func() string { s.worker.Work(); return firedStr(s.h.got) })
	s.c.Emit(fmt.Sprintf("cron.tick %d", at*1e9), out)
	return s.h.got
}

// driftClock advances by step on every reading.
type driftClock struct {
	clock.Clock
	mu   sync.Mutex
	t    time.Time
	step time.Duration
	n    int
}

func (d *driftClock) Now() time.Time {
	d.mu.Lock()
	defer d.mu.Unlock()
	t := d.t
	d.t = d.t.Add(d.step)
	d.n++
	return t
}

func runCronScenarios(c *Ctx) {
	base := time.Date(2031, 5, 5, 10, 0, 30, 0, time.UTC).Unix() // hh:00:30

	// F1: a JobConfig created while the controller runs is scheduled without a restart.
	c.RunScenario("f1-create-after-start", func() {
		s := newCronSc(c, base)
		s.tick(base + 1)
		s.add(scJC("new", "* * * * *", nil))
		var got []fired
		for t := base + 2; t < base+200; t += 7 {
			got = append(got, s.tick(t)...)
		}
		if len(got) == 0 {
			c.Violate("C03", "change-takes-effect", "JobConfig created after start fired nothing in 200s of ticks (every-minute schedule)")
		}
		c.Nontrivial()
	})

	// A JobConfig created while Init is running (after the cache was listed) is still scheduled.
	c.RunScenario("create-during-init", func() {
		s := newCronScHook(c, base, func(s *cronSc) { s.add(scJC("late", "* * * * *", nil)) }, scJC("a", "0 0 1 1 *", nil))
		var got []fired
		for t := base + 1; t < base+200; t += 7 {
			got = append(got, s.tick(t)...)
		}
		if len(got) == 0 {
			c.Violate("C03", "change-takes-effect", "JobConfig created while the schedule was being initialised fired nothing in 200s of ticks (every-minute schedule)")
		}
		c.Nontrivial()
	})

	// F12: delete + recreate with another schedule must follow the new schedule only.
	c.RunScenario("f12-delete-recreate", func() {
		s := newCronSc(c, base, scJC("a", "* * * * *", nil))
		s.tick(base + 1)
		s.del("a")
		s.tick(base + 5)
		s.add(scJC("a", "0 * * * *", nil)) // hourly: next match is far away
		for t := base + 6; t < base+300; t += 9 {
			for _, f := range s.tick(t) {
				c.Violate("C03", "new-schedule-only", "recreated JobConfig fired %d from the deleted object's every-minute schedule", f.ts)
			}
		}
		c.Nontrivial()
	})

	// F14: notBefore set at run time is honoured.
	c.RunScenario("f14-notbefore-runtime", func() {
		jc := scJC("a", "* * * * *", nil)
		s := newCronSc(c, base, jc)
		s.tick(base + 1)
		nj := jc.DeepCopy()
		nbf := base + 150
		nj.Spec.Schedule.Constraints = &execution.ScheduleContraints{NotBefore: mt(nbf)}
		s.update(nj)
		fired := 0
		for t := base + 2; t < base+400; t += 11 {
			for _, f := range s.tick(t) {
				fired++
				if f.ts < nbf {
					c.Violate("C03", "window-after-change", "fired %d before notBefore %d set at run time", f.ts, nbf)
				}
			}
		}
		if fired == 0 {
			c.Violate("C03", "change-takes-effect", "nothing fired after notBefore passed")
		}
		c.Nontrivial()
	})

	// F24: the informer notifies the cron handler of the JobConfigs that exist at boot with add
	// events too, typically after CronWorker.Init loaded them with their catch-up schedule.  Such
	// an add must not flush the JobConfig: the schedules missed during the downtime would be lost.
	f24 := func(initialAdds string, deliverLate bool) {
		// every minute; base is hh:00:30; last scheduled at hh-1:57:00: missed :58, :59, :00
		jc := scJC("a", "* * * * *", func(jc *execution.JobConfig) { jc.Status.LastScheduled = mt(base - 30 - 180) })
		s := newCronScBoot(c, base, nil, initialAdds, jc)
		if deliverLate {
			s.initialAdd("a")
		}
		want := []int64{base - 30 - 120, base - 30 - 60, base - 30}
		var got []int64
		for _, f := range s.tick(base + 1) {
			got = append(got, f.ts)
		}
		if fmt.Sprint(got) != fmt.Sprint(want) {
			c.Violate("C01", "requests-exact", "ns/a at the first tick after a restart (lastScheduled %d, three periods missed, initial add handled %s): requested %v, the schedule implies %v (cap 5)",
				base-30-180, map[bool]string{true: "after Init", false: initialAdds}[deliverLate], got, want)
		}
		for _, f := range s.tick(base + 31) { // hh:01:01
			got = append(got, f.ts)
		}
		if len(got) == 0 || got[len(got)-1] != base+30 {
			c.Violate("C01", "requests-exact", "ns/a did not continue normally after the catch-up: requested %v in total, the last must be %d", got, base+30)
		}
		c.Nontrivial()
	}
	c.RunScenario("f24-initial-adds-after-init", func() { f24("hold", true) })
	c.RunScenario("f24-initial-adds-before-init", func() { f24("before-init", false) })
	c.RunScenario("f24-initial-adds-after-first-tick", func() {
		jc := scJC("a", "* * * * *", func(jc *execution.JobConfig) { jc.Status.LastScheduled = mt(base - 30 - 180) })
		s := newCronScBoot(c, base, nil, "hold", jc)
		if got := s.tick(base + 1); len(got) != 3 {
			c.Violate("C01", "requests-exact", "ns/a at the first tick after a restart: requested %v, three missed times expected", got)
		}
		s.initialAdd("a")
		got := s.tick(base + 31)
		if len(got) != 1 || got[0].ts != base+30 {
			c.Violate("C01", "requests-exact", "ns/a after a late initial add: requested %v at hh:01:01, the schedule implies [%d]", got, base+30)
		}
		c.Nontrivial()
	})

	// The record of what Init loaded must not swallow a genuine creation (F1 stays repaired): the
	// add of "a" is handled before Init (so its record is never consumed by an add), then "a" is
	// deleted and created again under the SAME UID with an every-minute schedule.
	c.RunScenario("f24-recreate-after-unconsumed-load", func() {
		s := newCronScBoot(c, base, nil, "before-init", scJC("a", "0 0 1 1 *", nil))
		s.tick(base + 1)
		s.del("a")
		s.tick(base + 5)
		s.add(scJC("a", "* * * * *", nil)) // scJC derives the UID from the name: same UID
		var got []fired
		for t := base + 6; t < base+200; t += 9 {
			got = append(got, s.tick(t)...)
		}
		if len(got) == 0 {
			c.Violate("C03", "change-takes-effect", "JobConfig deleted and created again under the same UID fired nothing in 200s of ticks (every-minute schedule)")
		}
		c.Nontrivial()
	})

	// F7: the tick terminates even if the clock advances across matches while it runs.
	c.RunScenario("f7-clock-advances-during-tick", func() {
		one := int64(1)
		jc := scJC("a", "* * * * * * *", nil)
		s := newCronSc(c, base, jc)
		_ = one
		s.tick(base + 1)
		// long stall, then a tick during which every clock reading is one second later
		at := base + 60
		dc := &driftClock{Clock: s.clk, t: time.Unix(at, 0), step: time.Second}
		croncontroller.Clock = dc
		s.h.got = nil
		done := make(chan string, 1)
		go func() { done <- Guard(func() string { s.worker.Work(); return firedStr(s.h.got) }) }()
		select {
		case out := <-done:
			c.Emit(fmt.Sprintf("cron.tick %d", at*1e9), out)
		case <-time.After(3 * time.Second):
			c.Violate("C01", "tick-terminates", "Work() still spinning after 3s of wall time with a clock that advances during the tick (%d clock readings)", dc.n)
			c.Emit(fmt.Sprintf("cron.tick %d", at*1e9), "livelock")
		}
		croncontroller.Clock = s.clk
		c.Nontrivial()
	})
}
