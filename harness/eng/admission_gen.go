package eng

// Generators and corpus scenarios of the "admission" engine (see admission.go).

import (
	"encoding/json"
	"fmt"
	"math/rand"
	"strings"
	"time"

	admissionv1 "k8s.io/api/admission/v1"
	corev1 "k8s.io/api/core/v1"
	metav1 "k8s.io/apimachinery/pkg/apis/meta/v1"
	"k8s.io/apimachinery/pkg/types"
	sigsyaml "sigs.k8s.io/yaml"

	configv1alpha1 "github.com/furiko-io/furiko/apis/config/v1alpha1"
	executiongroup "github.com/furiko-io/furiko/apis/execution"
	execution "github.com/furiko-io/furiko/apis/execution/v1alpha1"
	"github.com/furiko-io/furiko/pkg/execution/util/jobconfig"
)

const admBaseSec = 1700000000

func admI64(v int64) *int64 { return &v }
func admBool(b bool) *bool  { return &b }

func admTime(sec int64) *metav1.Time {
	t := metav1.NewTime(time.Unix(sec, 0))
	return &t
}

var (
	admNamespaces = []string{"ns", "other"}
	admLabelKeys  = []string{"app", "team", "tier", jobconfig.LabelKeyJobConfigUID, "a/b"}
	admAnnKeys    = []string{"note", "owner", jobconfig.AnnotationKeyScheduleTime, jobconfig.AnnotationKeyOptionSpecHash, "x.y/z"}
	admFinalizers = []string{"example.com/a", "example.com/b", executiongroup.DeleteDependentsFinalizer}
)

func admGenMap(rng *rand.Rand, keys []string, marker string, max int) map[string]string {
	n := rng.Intn(max + 1)
	if n == 0 {
		if rng.Intn(3) == 0 {
			return map[string]string{}
		}
		return nil
	}
	m := map[string]string{}
	for i := 0; i < n; i++ {
		k := keys[rng.Intn(len(keys))]
		m[k] = marker + optPick(rng, []string{"1", "2", "x", ""})
	}
	return m
}

func admGenTemplate(rng *rand.Rand) execution.JobTemplate {
	var t execution.JobTemplate
	if rng.Intn(8) > 0 {
		p := &execution.PodTemplateSpec{}
		if rng.Intn(6) > 0 {
			p.Spec.Containers = []corev1.Container{{Name: "c", Image: optPick(rng, []string{"alpine", "busybox:${option.tag}", "i"})}}
			if rng.Intn(3) == 0 {
				p.Spec.Containers[0].Args = []string{"echo", "${option.a}"}
			}
		}
		p.Spec.RestartPolicy = corev1.RestartPolicy(optPick(rng, []string{"", "", "Never", "OnFailure", "Always"}))
		if rng.Intn(4) == 0 {
			p.Labels = map[string]string{"pod": "label"}
		}
		if rng.Intn(6) == 0 {
			p.Spec.ServiceAccountName = "sa"
		}
		t.TaskTemplate.Pod = p
	}
	if rng.Intn(3) == 0 {
		par := &execution.ParallelismSpec{CompletionStrategy: execution.ParallelCompletionStrategy(optPick(rng, []string{"", "", "AllSuccessful", "AnySuccessful"}))}
		switch rng.Intn(3) {
		case 0:
			par.WithCount = admI64(int64(1 + rng.Intn(4)))
		case 1:
			par.WithKeys = []string{"a", "b"}
		default:
			par.WithMatrix = map[string][]string{"os": {"linux", "mac"}}
		}
		t.Parallelism = par
	}
	pick := func(vals ...int64) *int64 {
		if rng.Intn(2) == 0 {
			return nil
		}
		return admI64(vals[rng.Intn(len(vals))])
	}
	t.MaxAttempts = pick(0, 1, 3, 50)
	t.RetryDelaySeconds = pick(0, 10)
	t.TaskPendingTimeoutSeconds = pick(0, 60, 900)
	t.ForbidTaskForceDeletion = rng.Intn(5) == 0
	return t
}

func admGenSchedule(rng *rand.Rand, nowSec int64) *execution.ScheduleSpec {
	if rng.Intn(4) == 0 {
		return nil
	}
	s := &execution.ScheduleSpec{Disabled: rng.Intn(4) == 0}
	switch rng.Intn(6) {
	case 0:
	case 1:
		s.Cron = &execution.CronSchedule{}
	case 2:
		s.Cron = &execution.CronSchedule{Expressions: []string{"0 * * * *", "30 * * * *"}, Timezone: "Asia/Singapore"}
	default:
		s.Cron = &execution.CronSchedule{Expression: optPick(rng, []string{"* * * * *", "H/5 * * * *", "0 0 * * *"}), Timezone: optPick(rng, []string{"", "UTC", "America/New_York"})}
	}
	switch rng.Intn(5) {
	case 0:
		s.Constraints = &execution.ScheduleContraints{}
	case 1:
		s.Constraints = &execution.ScheduleContraints{NotBefore: admTime(nowSec - 100), NotAfter: admTime(nowSec + 1000)}
	case 2:
		s.Constraints = &execution.ScheduleContraints{NotAfter: admTime(nowSec + int64(rng.Intn(3)))}
	}
	s.LastUpdated = admGenLastUpdated(rng, nowSec)
	return s
}

func admGenLastUpdated(rng *rand.Rand, nowSec int64) *metav1.Time {
	switch rng.Intn(9) {
	case 0, 1, 2:
		return nil
	case 3:
		return admTime(nowSec)
	case 4:
		return admTime(nowSec + 1)
	case 5:
		return admTime(nowSec - 1)
	case 6:
		return admTime(nowSec + 3600)
	case 7:
		return &metav1.Time{} // the zero time behind a non-nil pointer
	}
	return admTime(nowSec - int64(rng.Intn(100000)))
}

func (w *admWorld) genJobConfig(rng *rand.Rand, ns, name string, nowSec int64) *execution.JobConfig {
	w.seq++
	jc := &execution.JobConfig{
		TypeMeta:   metav1.TypeMeta{APIVersion: execution.GroupVersion.String(), Kind: execution.KindJobConfig},
		ObjectMeta: metav1.ObjectMeta{Namespace: ns, Name: name, UID: types.UID(fmt.Sprintf("uid-%d", w.seq))},
	}
	if rng.Intn(3) == 0 {
		jc.Labels = map[string]string{"own": "label"}
	}
	jc.Spec.Template.Labels = admGenMap(rng, admLabelKeys, "<tmpl>", 3)
	jc.Spec.Template.Annotations = admGenMap(rng, admAnnKeys, "<tmpl>", 3)
	jc.Spec.Template.Spec = admGenTemplate(rng)
	jc.Spec.Concurrency.Policy = execution.ConcurrencyPolicy(optPick(rng, []string{"Allow", "Forbid", "Enqueue", "Forbid", ""}))
	if rng.Intn(4) == 0 {
		jc.Spec.Concurrency.MaxConcurrency = admI64(int64(1 + rng.Intn(3)))
	}
	jc.Spec.Schedule = admGenSchedule(rng, nowSec)
	if rng.Intn(4) > 0 {
		jc.Spec.Option = &execution.OptionSpec{}
		names := append([]string(nil), optNamesGood...)
		rng.Shuffle(len(names), func(i, j int) { names[i], names[j] = names[j], names[i] })
		for k := rng.Intn(5); k > 0; k-- {
			var o execution.Option
			if rng.Intn(12) == 0 {
				o = genBadOption(rng, names[k])
			} else {
				o = genGoodOption(rng, names[k])
				if o.Type == execution.OptionTypeBool && rng.Intn(3) == 0 {
					// what defaulting is for: no format yet / no config at all
					if rng.Intn(2) == 0 {
						o.Bool.Format = ""
					} else {
						o.Bool = nil
					}
				}
			}
			jc.Spec.Option.Options = append(jc.Spec.Option.Options, o)
		}
	}
	return jc
}

// genOptionValues builds spec.optionValues for the option spec (JSON, YAML, or malformed).
func admGenOptionValues(rng *rand.Rand, spec *execution.OptionSpec) (string, string) {
	switch rng.Intn(12) {
	case 0:
		return optPick(rng, []string{"{", "[]", "[1,2]", "\"str\"", "a: b: c", "12", "- a\n- b", "\t"}), "malformed"
	case 1:
		return optPick(rng, []string{"{}", "null", "~", "---", " "}), "empty-ish"
	case 2:
		return optPick(rng, []string{`{"unknown": "x"}`, `{"a": 1.5, "b": {"c": 1}}`, "a: 1\nb: [x, 2]\n", `{"a": 12345678901234567890}`}), "foreign"
	}
	vals := map[string]interface{}{}
	if spec != nil {
		for _, o := range spec.Options {
			if rng.Intn(3) > 0 {
				v, _ := jsonable(rng, o)
				vals[o.Name] = v
			}
		}
	}
	if len(vals) == 0 && rng.Intn(2) == 0 {
		return "", "none"
	}
	js, err := json.Marshal(vals)
	if err != nil {
		return "", "none"
	}
	switch rng.Intn(4) {
	case 0:
		if y, err := sigsyaml.JSONToYAML(js); err == nil {
			return string(y), "yaml"
		}
	case 1:
		var buf strings.Builder
		buf.WriteString(" ")
		buf.Write(js)
		buf.WriteString("\n")
		return buf.String(), "json-spaced"
	}
	return string(js), "json"
}

func (w *admWorld) genJob(rng *rand.Rand, nowSec int64) (*execution.Job, string) {
	w.seq++
	rj := &execution.Job{
		TypeMeta:   metav1.TypeMeta{APIVersion: execution.GroupVersion.String(), Kind: execution.KindJob},
		ObjectMeta: metav1.ObjectMeta{Namespace: "ns", Name: fmt.Sprintf("job-%d", w.seq)},
	}
	if rng.Intn(6) == 0 {
		rj.Namespace = "other"
	}
	if rng.Intn(2) == 0 {
		rj.CreationTimestamp = metav1.NewTime(time.Unix(nowSec-int64(rng.Intn(100)), 0))
	}
	if rng.Intn(4) == 0 {
		rj.UID = types.UID(fmt.Sprintf("job-uid-%d", w.seq))
	}
	label := "plain"
	var ref *execution.JobConfig
	if len(w.store) > 0 {
		ref = w.store[rng.Intn(len(w.store))]
	}
	switch k := rng.Intn(10); {
	case k < 4 && ref != nil:
		rj.Spec.ConfigName = ref.Name
		label = "configname"
		if ref.Namespace != rj.Namespace {
			label = "configname-other-ns"
		}
	case k == 4:
		rj.Spec.ConfigName = "missing"
		label = "configname-missing"
	case k < 8 && ref != nil:
		// owner reference route
		uid := ref.UID
		if rng.Intn(8) == 0 {
			uid = "stale-uid"
			label = "ownerref-stale-uid"
		} else {
			label = "ownerref"
		}
		name := ref.Name
		if rng.Intn(10) == 0 {
			name = "missing"
			label = "ownerref-missing"
		}
		rj.OwnerReferences = []metav1.OwnerReference{{APIVersion: execution.GroupVersion.String(), Kind: execution.KindJobConfig,
			Name: name, UID: uid, Controller: admBool(true), BlockOwnerDeletion: admBool(true)}}
		if rng.Intn(6) > 0 {
			rj.Labels = map[string]string{jobconfig.LabelKeyJobConfigUID: string(ref.UID)}
		} else {
			label += "-nolabel"
		}
	}
	if rng.Intn(8) == 0 {
		// foreign / non-controller references
		other := metav1.OwnerReference{APIVersion: "v1", Kind: optPick(rng, []string{"ConfigMap", "JobConfig"}), Name: "x", UID: "u"}
		switch rng.Intn(3) {
		case 0:
			other.Controller = admBool(false)
		case 1:
			other.Controller = admBool(true)
		}
		if rng.Intn(2) == 0 {
			rj.OwnerReferences = append([]metav1.OwnerReference{other}, rj.OwnerReferences...)
		} else {
			rj.OwnerReferences = append(rj.OwnerReferences, other)
		}
	}
	rj.Spec.Type = execution.JobType(optPick(rng, []string{"", "", "Adhoc", "Scheduled"}))
	for k := rng.Intn(4); k > 0; k-- {
		rj.Finalizers = append(rj.Finalizers, admFinalizers[rng.Intn(len(admFinalizers))])
	}
	extra := admGenMap(rng, admLabelKeys, "<explicit>", 3)
	for k, v := range extra {
		if rj.Labels == nil {
			rj.Labels = map[string]string{}
		}
		if k == jobconfig.LabelKeyJobConfigUID && strings.HasPrefix(label, "ownerref") && rng.Intn(4) > 0 {
			continue
		}
		rj.Labels[k] = v
	}
	rj.Annotations = admGenMap(rng, admAnnKeys, "<explicit>", 3)
	switch rng.Intn(5) {
	case 0:
		rj.Spec.StartPolicy = &execution.StartPolicySpec{}
	case 1:
		rj.Spec.StartPolicy = &execution.StartPolicySpec{ConcurrencyPolicy: execution.ConcurrencyPolicy(optPick(rng, []string{"Allow", "Forbid", "Enqueue"}))}
	case 2:
		rj.Spec.StartPolicy = &execution.StartPolicySpec{ConcurrencyPolicy: execution.ConcurrencyPolicy(optPick(rng, []string{"", "Enqueue"})), StartAfter: admTime(nowSec + 60)}
	}
	switch rng.Intn(4) {
	case 0:
	case 1:
		rj.Spec.Template = &execution.JobTemplate{}
	default:
		t := admGenTemplate(rng)
		rj.Spec.Template = &t
	}
	var spec *execution.OptionSpec
	if ref != nil {
		spec = ref.Spec.Option
	}
	if rng.Intn(3) > 0 {
		ov, cls := admGenOptionValues(rng, spec)
		rj.Spec.OptionValues = ov
		w.c.Count("optionvalues." + cls)
	}
	for k := rng.Intn(4); k > 0; k-- {
		key := optPick(rng, []string{"jobconfig.name", "jobconfig.uid", "jobconfig.namespace", "x", "job.name", "custom"})
		if spec != nil && len(spec.Options) > 0 && rng.Intn(2) == 0 {
			key = "option." + spec.Options[rng.Intn(len(spec.Options))].Name
		}
		if rj.Spec.Substitutions == nil {
			rj.Spec.Substitutions = map[string]string{}
		}
		rj.Spec.Substitutions[key] = "<explicit>" + optPick(rng, []string{"1", "2", ""})
	}
	if rj.Spec.Substitutions == nil && rng.Intn(6) == 0 {
		rj.Spec.Substitutions = map[string]string{}
	}
	if rng.Intn(3) == 0 {
		rj.Spec.TTLSecondsAfterFinished = admI64(int64(rng.Intn(3) * 100))
	}
	if rng.Intn(6) == 0 {
		rj.Spec.KillTimestamp = admTime(nowSec + 500)
	}
	return rj, label
}

// ---------------------------------------------------------------- raw JSON variants

type admPath struct {
	path []string
	kind string // obj | arr | str | bool
}

var admJobPaths = []admPath{
	{[]string{"metadata", "labels"}, "obj"}, {[]string{"metadata", "annotations"}, "obj"},
	{[]string{"metadata", "finalizers"}, "arr"}, {[]string{"metadata", "ownerReferences"}, "arr"},
	{[]string{"metadata", "creationTimestamp"}, "null"},
	{[]string{"spec"}, "obj"}, {[]string{"spec", "startPolicy"}, "obj"}, {[]string{"spec", "template"}, "obj"},
	{[]string{"spec", "template", "taskTemplate"}, "obj"}, {[]string{"spec", "template", "taskTemplate", "pod"}, "obj"},
	{[]string{"spec", "template", "taskTemplate", "pod", "spec"}, "obj"}, {[]string{"spec", "template", "taskTemplate", "pod", "metadata"}, "obj"},
	{[]string{"spec", "template", "parallelism"}, "obj"}, {[]string{"spec", "substitutions"}, "obj"},
	{[]string{"spec", "type"}, "str"}, {[]string{"spec", "optionValues"}, "str"}, {[]string{"spec", "configName"}, "str"},
	{[]string{"status"}, "obj"}, {[]string{"spec", "template", "forbidTaskForceDeletion"}, "bool"},
}

var admJCPaths = []admPath{
	{[]string{"metadata", "labels"}, "obj"}, {[]string{"metadata", "creationTimestamp"}, "null"},
	{[]string{"spec"}, "obj"}, {[]string{"spec", "template"}, "obj"}, {[]string{"spec", "template", "metadata"}, "obj"},
	{[]string{"spec", "template", "metadata", "labels"}, "obj"}, {[]string{"spec", "template", "metadata", "annotations"}, "obj"},
	{[]string{"spec", "template", "spec"}, "obj"}, {[]string{"spec", "template", "spec", "taskTemplate"}, "obj"},
	{[]string{"spec", "template", "spec", "taskTemplate", "pod"}, "obj"}, {[]string{"spec", "template", "spec", "parallelism"}, "obj"},
	{[]string{"spec", "concurrency"}, "obj"}, {[]string{"spec", "schedule"}, "obj"}, {[]string{"spec", "schedule", "cron"}, "obj"},
	{[]string{"spec", "schedule", "constraints"}, "obj"}, {[]string{"spec", "schedule", "cron", "expressions"}, "arr"},
	{[]string{"spec", "schedule", "disabled"}, "bool"}, {[]string{"spec", "schedule", "lastUpdated"}, "null"},
	{[]string{"spec", "option"}, "obj"}, {[]string{"spec", "option", "options"}, "arr"}, {[]string{"status"}, "obj"},
}

func admIsEmptyJSON(v interface{}) bool {
	switch x := v.(type) {
	case nil:
		return true
	case string:
		return x == ""
	case bool:
		return !x
	case map[string]interface{}:
		for _, e := range x {
			if !admIsEmptyJSON(e) {
				return false
			}
		}
		return true
	case []interface{}:
		return len(x) == 0
	}
	return false
}

// admRawVariant rewrites optional parts of the document without changing what a reader of the
// fields' values would understand: an absent or empty optional field becomes missing / `null` /
// `{}` / `[]` / "" / false.  Returns the new document and a class label.
func admRawVariant(rng *rand.Rand, raw []byte, paths []admPath, edits int, allowNull bool) ([]byte, string) {
	var m map[string]interface{}
	if json.Unmarshal(raw, &m) != nil {
		return raw, "asis"
	}
	label := "asis"
	for ; edits > 0; edits-- {
		p := paths[rng.Intn(len(paths))]
		parent := m
		ok := true
		for _, k := range p.path[:len(p.path)-1] {
			next, isObj := parent[k].(map[string]interface{})
			if !isObj {
				ok = false
				break
			}
			parent = next
		}
		if !ok {
			continue
		}
		key := p.path[len(p.path)-1]
		cur, present := parent[key]
		if present && !admIsEmptyJSON(cur) {
			continue
		}
		choice := rng.Intn(3)
		if choice == 1 && !allowNull {
			choice = 0
		}
		switch choice {
		case 0:
			delete(parent, key)
			label = "missing"
		case 1:
			parent[key] = nil
			label = "null"
		default:
			switch p.kind {
			case "obj":
				parent[key] = map[string]interface{}{}
			case "arr":
				parent[key] = []interface{}{}
			case "str":
				parent[key] = ""
			case "bool":
				parent[key] = false
			default:
				delete(parent, key)
			}
			label = "empty"
		}
	}
	out, err := json.Marshal(m)
	if err != nil {
		return raw, "asis"
	}
	return out, label
}

// ---------------------------------------------------------------- cases

func (w *admWorld) genConfig(rng *rand.Rand) {
	over := &configv1alpha1.JobExecutionConfig{}
	opt := func(vals ...int64) *int64 {
		if rng.Intn(3) == 0 {
			return nil
		}
		return admI64(vals[rng.Intn(len(vals))])
	}
	over.DefaultPendingTimeoutSeconds = opt(0, 30, 1800)
	over.DefaultTTLSecondsAfterFinished = opt(0, 10, 7200)
	withDefaults := rng.Intn(3) > 0
	fail := rng.Intn(25) == 0
	w.setConfig(withDefaults, over, fail)
	switch {
	case fail:
		w.c.Count("config.load-error")
	case withDefaults:
		w.c.Count("config.defaults+override")
	default:
		w.c.Count("config.override-only")
	}
	if cfg, err := w.ctx.Configs().Jobs(); err == nil {
		if cfg.DefaultPendingTimeoutSeconds == nil {
			w.c.Count("config.pending-timeout-unset")
		}
		if cfg.DefaultTTLSecondsAfterFinished == nil {
			w.c.Count("config.ttl-unset")
		}
	}
}

func (w *admWorld) genClock(rng *rand.Rand) int64 {
	sec := int64(admBaseSec + rng.Intn(1000000))
	ns := int64(0)
	switch rng.Intn(4) {
	case 0:
	case 1:
		ns = 1
	case 2:
		ns = 999999999
	default:
		ns = int64(rng.Intn(1000000000))
	}
	w.setNow(sec*1000000000 + ns)
	return sec
}

func (w *admWorld) genStore(rng *rand.Rand, nowSec int64) {
	var jcs []*execution.JobConfig
	names := []string{"jc-a", "jc-b", "jc-c"}
	for i := 0; i < 1+rng.Intn(3); i++ {
		ns := "ns"
		if rng.Intn(5) == 0 {
			ns = "other"
		}
		jcs = append(jcs, w.genJobConfig(rng, ns, names[i], nowSec))
	}
	if rng.Intn(6) == 0 {
		// the same name in both namespaces
		ns := "other"
		if jcs[0].Namespace == "other" {
			ns = "ns"
		}
		jcs = append(jcs, w.genJobConfig(rng, ns, jcs[0].Name, nowSec))
	}
	w.setStore(jcs)
}

func (w *admWorld) marshalVariant(rng *rand.Rand, obj interface{}, paths []admPath) ([]byte, string) {
	raw, _ := json.Marshal(obj)
	switch rng.Intn(4) {
	case 0:
		return raw, "asis"
	case 1:
		return admRawVariant(rng, raw, paths, 1+rng.Intn(4), true)
	default:
		return admRawVariant(rng, raw, paths, 1+rng.Intn(6), false)
	}
}

func (w *admWorld) jobCase(rng *rand.Rand) {
	nowSec := w.genClock(rng)
	w.genConfig(rng)
	w.genStore(rng, nowSec)
	n := 1 + rng.Intn(3)
	for i := 0; i < n; i++ {
		if i > 0 && rng.Intn(2) == 0 {
			// the dynamic configuration changes between two admissions against the same cached JobConfigs:
			// a later Job must be defaulted under the configuration in force at ITS admission
			w.genConfig(rng)
			w.c.Count("config.changed-between-admissions")
		}
		rj, label := w.genJob(rng, nowSec)
		raw, variant := w.marshalVariant(rng, rj, admJobPaths)
		w.c.Count("raw." + variant)
		if rng.Intn(4) == 0 {
			// update: the old object is whatever; the patcher ignores it
			old, _ := json.Marshal(rj)
			w.submit(&admReq{kind: "job", op: admissionv1.Update, raw: raw, oldRaw: old, label: "update-" + label})
		} else {
			w.submit(&admReq{kind: "job", op: admissionv1.Create, raw: raw, label: "create-" + label})
		}
		if rng.Intn(20) == 0 {
			w.otherOps("job", raw)
		}
		w.cacheDrift()
	}
}

// mutateJC derives the new version of an update from the old one.
func (w *admWorld) mutateJC(rng *rand.Rand, old *execution.JobConfig, nowSec int64) (*execution.JobConfig, string) {
	jc := old.DeepCopy()
	s := jc.Spec.Schedule
	switch k := rng.Intn(14); {
	case k == 0:
		return jc, "same"
	case k == 1:
		jc.Spec.Schedule = admGenSchedule(rng, nowSec)
		return jc, "schedule-regenerated"
	case k == 2:
		jc.Spec.Schedule = nil
		return jc, "schedule-removed"
	case s == nil:
		jc.Spec.Schedule = admGenSchedule(rng, nowSec)
		return jc, "schedule-added"
	case k == 3:
		s.LastUpdated = admGenLastUpdated(rng, nowSec)
		return jc, "lastupdated-only"
	case k == 4:
		s.Disabled = !s.Disabled
		return jc, "disabled-flipped"
	case k == 5:
		if s.Cron == nil {
			s.Cron = &execution.CronSchedule{}
		} else {
			s.Cron = nil
		}
		return jc, "cron-nil-flipped"
	case k == 6:
		if s.Cron == nil {
			s.Cron = &execution.CronSchedule{}
		}
		s.Cron.Expression += " "
		return jc, "expression-changed"
	case k == 7:
		if s.Cron == nil {
			s.Cron = &execution.CronSchedule{}
		}
		s.Cron.Timezone = optPick(rng, []string{"", "UTC", "Europe/Paris"})
		return jc, "timezone-set"
	case k == 8:
		if s.Constraints == nil {
			s.Constraints = &execution.ScheduleContraints{}
		} else {
			s.Constraints = nil
		}
		return jc, "constraints-nil-flipped"
	case k == 9:
		if s.Constraints == nil {
			s.Constraints = &execution.ScheduleContraints{}
		}
		s.Constraints.NotBefore = admTime(nowSec + int64(rng.Intn(3)))
		return jc, "notbefore-set"
	case k == 10:
		if s.Cron != nil {
			if len(s.Cron.Expressions) == 0 {
				s.Cron.Expressions = []string{}
			} else {
				s.Cron.Expressions = append(s.Cron.Expressions, "1 1 * * *")
			}
		}
		s.LastUpdated = admGenLastUpdated(rng, nowSec)
		return jc, "expressions-touched"
	case k == 11:
		jc.Spec.Template.Spec = admGenTemplate(rng)
		return jc, "template-changed"
	case k == 12:
		jc.Spec.Concurrency.Policy = "Allow"
		jc.Labels = map[string]string{"new": "label"}
		return jc, "other-fields"
	}
	s.LastUpdated = old.Spec.Schedule.LastUpdated
	return jc, "same"
}

func (w *admWorld) jcCase(rng *rand.Rand) {
	nowSec := w.genClock(rng)
	w.genConfig(rng)
	w.setStore(nil)
	jc := w.genJobConfig(rng, "ns", "jc", nowSec)
	if rng.Intn(2) == 0 {
		raw, variant := w.marshalVariant(rng, jc, admJCPaths)
		w.c.Count("raw." + variant)
		w.submit(&admReq{kind: "jc", op: admissionv1.Create, raw: raw, label: "jc-create"})
		if rng.Intn(20) == 0 {
			w.otherOps("jc", raw)
		}
		return
	}
	// update: the old object is a stored (already defaulted or not) version
	old := jc
	if rng.Intn(3) > 0 && old.Spec.Schedule != nil && old.Spec.Schedule.LastUpdated == nil {
		old.Spec.Schedule.LastUpdated = admTime(nowSec - int64(rng.Intn(5000)))
	}
	next, what := w.mutateJC(rng, old, nowSec)
	oldRaw, _ := json.Marshal(old)
	raw, variant := w.marshalVariant(rng, next, admJCPaths)
	w.c.Count("raw." + variant)
	w.submit(&admReq{kind: "jc", op: admissionv1.Update, raw: raw, oldRaw: oldRaw, label: "jc-update-" + what})
}

// ---------------------------------------------------------------- corpus scenarios

func admPod() *execution.PodTemplateSpec {
	return &execution.PodTemplateSpec{Spec: corev1.PodSpec{Containers: []corev1.Container{{Name: "c", Image: "alpine"}}}}
}

func (w *admWorld) scenarioJC(name, uid string) *execution.JobConfig {
	jc := &execution.JobConfig{
		TypeMeta:   metav1.TypeMeta{APIVersion: execution.GroupVersion.String(), Kind: execution.KindJobConfig},
		ObjectMeta: metav1.ObjectMeta{Namespace: "ns", Name: name, UID: types.UID(uid)},
	}
	jc.Spec.Template.Labels = map[string]string{"app": "<tmpl>app", "team": "<tmpl>team", jobconfig.LabelKeyJobConfigUID: "<tmpl>bogus"}
	jc.Spec.Template.Annotations = map[string]string{"note": "<tmpl>note", "owner": "<tmpl>owner"}
	jc.Spec.Template.Spec.TaskTemplate.Pod = admPod()
	jc.Spec.Template.Spec.RetryDelaySeconds = admI64(10)
	jc.Spec.Concurrency.Policy = execution.ConcurrencyPolicyForbid
	jc.Spec.Option = &execution.OptionSpec{Options: []execution.Option{
		{Type: execution.OptionTypeString, Name: "s", String: &execution.StringOptionConfig{Default: "<default>s"}},
		{Type: execution.OptionTypeBool, Name: "b", Bool: &execution.BoolOptionConfig{Default: true, Format: execution.BoolOptionFormatYesNo}},
		{Type: execution.OptionTypeSelect, Name: "e", Select: &execution.SelectOptionConfig{Default: "x", Values: []string{"x", "y"}}},
		{Type: execution.OptionTypeMulti, Name: "m", Multi: &execution.MultiOptionConfig{Default: []string{"p"}, Delimiter: ",", Values: []string{"p", "q"}}},
		{Type: execution.OptionTypeDate, Name: "d", Date: &execution.DateOptionConfig{Format: "YYYY-MM-DD"}},
		{Type: execution.OptionTypeString, Name: "k", String: &execution.StringOptionConfig{Default: "<default>k"}},
	}}
	return jc
}

func (w *admWorld) reset() {
	w.setNow(admBaseSec*1000000000 + 500000000)
	w.setConfig(true, nil, false)
	w.setStore(nil)
}

func (w *admWorld) scenarios() {
	c := w.c
	job := func(mod func(rj *execution.Job)) *execution.Job {
		rj := &execution.Job{
			TypeMeta:   metav1.TypeMeta{APIVersion: execution.GroupVersion.String(), Kind: execution.KindJob},
			ObjectMeta: metav1.ObjectMeta{Namespace: "ns", Name: "job"},
		}
		mod(rj)
		return rj
	}
	sub := func(kind string, op admissionv1.Operation, obj, old interface{}) *admResult {
		raw, _ := json.Marshal(obj)
		r := &admReq{kind: kind, op: op, raw: raw, label: "scenario"}
		if old != nil {
			r.oldRaw, _ = json.Marshal(old)
		}
		return w.submit(r)
	}
	subRaw := func(kind string, op admissionv1.Operation, raw string) *admResult {
		return w.submit(&admReq{kind: kind, op: op, raw: []byte(raw), label: "scenario-raw"})
	}

	c.RunScenario("job-create-plain", func() {
		w.reset()
		sub("job", admissionv1.Create, job(func(rj *execution.Job) {
			rj.Spec.Template = &execution.JobTemplate{TaskTemplate: execution.TaskTemplate{Pod: admPod()}}
		}), nil)
		sub("job", admissionv1.Create, job(func(rj *execution.Job) {
			rj.Finalizers = []string{"example.com/a"}
			rj.Spec.Type = execution.JobTypeScheduled
			rj.Spec.TTLSecondsAfterFinished = admI64(5)
			rj.Spec.Template = &execution.JobTemplate{TaskTemplate: execution.TaskTemplate{Pod: admPod()}, MaxAttempts: admI64(3), TaskPendingTimeoutSeconds: admI64(0),
				Parallelism: &execution.ParallelismSpec{WithCount: admI64(2)}}
			rj.Spec.Template.TaskTemplate.Pod.Spec.RestartPolicy = corev1.RestartPolicyOnFailure
			rj.Spec.OptionValues = `{"ignored": true}`
			rj.Spec.Substitutions = map[string]string{"x": "<explicit>x"}
		}), nil)
		sub("job", admissionv1.Create, job(func(rj *execution.Job) {}), nil)
	})

	c.RunScenario("job-create-configname", func() {
		w.reset()
		jc := w.scenarioJC("jc", "uid-jc")
		w.setStore([]*execution.JobConfig{jc})
		// explicit substitution vs evaluated option vs option default vs jobconfig context: disjoint markers
		res := sub("job", admissionv1.Create, job(func(rj *execution.Job) {
			rj.Spec.ConfigName = "jc"
			rj.Labels = map[string]string{"app": "<explicit>app", jobconfig.LabelKeyJobConfigUID: "<explicit>bogus"}
			rj.Annotations = map[string]string{"note": "<explicit>note"}
			rj.Finalizers = []string{"example.com/a"}
			rj.Spec.Template = &execution.JobTemplate{MaxAttempts: admI64(7)}
			rj.Spec.OptionValues = `{"s": "<value>s", "b": false, "m": ["q", "p"], "d": "2021-02-09T04:06:09Z", "k": "<value>k"}`
			rj.Spec.Substitutions = map[string]string{"option.k": "<explicit>k", "jobconfig.name": "<explicit>name", "custom": "<explicit>custom"}
		}), nil)
		if res.ok {
			got := res.outJob.Spec.Substitutions
			for k, want := range map[string]string{"option.s": "<value>s", "option.b": "no", "option.e": "x", "option.m": "q,p", "option.d": "2021-02-09",
				"option.k": "<explicit>k", "jobconfig.name": "<explicit>name", "jobconfig.uid": "uid-jc", "jobconfig.namespace": "ns", "custom": "<explicit>custom"} {
				if got[k] != want {
					c.Violate("C16", "substitution-precedence", "scenario: %s = %q, want %q", k, got[k], want)
				}
			}
			if len(res.warnings) != 1 || res.warnings[0] != "tmpl" {
				c.Violate("C16", "configname-expansion", "scenario: warnings %v, want the template-overwritten warning", res.warnings)
			}
		} else {
			c.Violate("C16", "configname-expansion", "scenario: Job with configName not accepted: %v", res.kinds)
		}
		// policy given; Scheduled type (schedule-time annotation); no option values
		sub("job", admissionv1.Create, job(func(rj *execution.Job) {
			rj.Spec.ConfigName = "jc"
			rj.Spec.Type = execution.JobTypeScheduled
			rj.CreationTimestamp = metav1.NewTime(time.Unix(admBaseSec-30, 0))
			rj.Spec.StartPolicy = &execution.StartPolicySpec{ConcurrencyPolicy: execution.ConcurrencyPolicyEnqueue, StartAfter: admTime(admBaseSec + 60)}
		}), nil)
		// unknown name, other namespace
		sub("job", admissionv1.Create, job(func(rj *execution.Job) { rj.Spec.ConfigName = "nope" }), nil)
		sub("job", admissionv1.Create, job(func(rj *execution.Job) { rj.Namespace = "other"; rj.Spec.ConfigName = "jc" }), nil)
		// invalid option value, malformed optionValues
		sub("job", admissionv1.Create, job(func(rj *execution.Job) { rj.Spec.ConfigName = "jc"; rj.Spec.OptionValues = `{"e": "zzz"}` }), nil)
		sub("job", admissionv1.Create, job(func(rj *execution.Job) { rj.Spec.ConfigName = "jc"; rj.Spec.OptionValues = `[1]` }), nil)
	})

	c.RunScenario("job-create-ownerref", func() {
		w.reset()
		jc := w.scenarioJC("jc", "uid-jc")
		w.setStore([]*execution.JobConfig{jc})
		ref := metav1.OwnerReference{APIVersion: execution.GroupVersion.String(), Kind: execution.KindJobConfig, Name: "jc", UID: "uid-jc", Controller: admBool(true)}
		sub("job", admissionv1.Create, job(func(rj *execution.Job) {
			rj.OwnerReferences = []metav1.OwnerReference{ref}
			rj.Labels = map[string]string{jobconfig.LabelKeyJobConfigUID: "uid-jc"}
			rj.Spec.OptionValues = "s: yaml-value\n"
			rj.Spec.Template = &execution.JobTemplate{TaskTemplate: execution.TaskTemplate{Pod: admPod()}}
		}), nil)
		sub("job", admissionv1.Create, job(func(rj *execution.Job) { rj.OwnerReferences = []metav1.OwnerReference{ref} }), nil) // label missing
		stale := ref
		stale.UID = "old-uid"
		sub("job", admissionv1.Create, job(func(rj *execution.Job) {
			rj.OwnerReferences = []metav1.OwnerReference{stale}
			rj.Labels = map[string]string{jobconfig.LabelKeyJobConfigUID: "uid-jc"}
		}), nil)
		gone := ref
		gone.Name = "gone"
		sub("job", admissionv1.Create, job(func(rj *execution.Job) { rj.OwnerReferences = []metav1.OwnerReference{gone} }), nil)
	})

	c.RunScenario("job-update", func() {
		w.reset()
		rj := job(func(rj *execution.Job) {
			rj.Spec.ConfigName = "left-alone"
			rj.Spec.Template = &execution.JobTemplate{TaskTemplate: execution.TaskTemplate{Pod: admPod()}}
		})
		sub("job", admissionv1.Update, rj, rj)
		w.otherOps("job", []byte(`{}`))
	})

	c.RunScenario("config-variants", func() {
		w.reset()
		rj := job(func(rj *execution.Job) {
			rj.Spec.Template = &execution.JobTemplate{TaskTemplate: execution.TaskTemplate{Pod: admPod()}}
		})
		w.setConfig(false, nil, false) // no defaults at all: pending timeout and ttl stay unset
		sub("job", admissionv1.Create, rj, nil)
		w.setConfig(false, &configv1alpha1.JobExecutionConfig{DefaultPendingTimeoutSeconds: admI64(0)}, false)
		sub("job", admissionv1.Create, rj, nil)
		w.setConfig(true, nil, true) // load error
		sub("job", admissionv1.Create, rj, nil)
		sub("job", admissionv1.Update, rj, rj)
		jc := w.scenarioJC("jc", "u")
		sub("jc", admissionv1.Create, jc, nil)
		jc.Spec.Template.Spec.TaskPendingTimeoutSeconds = admI64(5)
		sub("jc", admissionv1.Create, jc, nil) // nothing needs the configuration
	})

	c.RunScenario("jc-create", func() {
		w.reset()
		jc := w.scenarioJC("jc", "")
		jc.Spec.Option.Options = append(jc.Spec.Option.Options,
			execution.Option{Type: execution.OptionTypeBool, Name: "nofmt", Bool: &execution.BoolOptionConfig{Default: true}},
			execution.Option{Type: execution.OptionTypeBool, Name: "nocfg"})
		sub("jc", admissionv1.Create, jc, nil) // no schedule
		jc.Spec.Schedule = &execution.ScheduleSpec{Cron: &execution.CronSchedule{Expression: "* * * * *"}}
		sub("jc", admissionv1.Create, jc, nil) // stamped
		jc.Spec.Schedule.LastUpdated = admTime(admBaseSec - 1000)
		sub("jc", admissionv1.Create, jc, nil) // re-stamped
		jc.Spec.Schedule.LastUpdated = admTime(admBaseSec + 1)
		sub("jc", admissionv1.Create, jc, nil) // half a second in the future: kept
		jc.Spec.Schedule.LastUpdated = admTime(admBaseSec)
		sub("jc", admissionv1.Create, jc, nil) // same second, not after now
		w.otherOps("jc", []byte(`{}`))
	})

	c.RunScenario("jc-update", func() {
		w.reset()
		old := w.scenarioJC("jc", "u")
		old.Spec.Schedule = &execution.ScheduleSpec{Cron: &execution.CronSchedule{Expression: "* * * * *"}, LastUpdated: admTime(admBaseSec - 500)}
		same := old.DeepCopy()
		sub("jc", admissionv1.Update, same, old) // unchanged: untouched
		lu := old.DeepCopy()
		lu.Spec.Schedule.LastUpdated = admTime(admBaseSec - 100)
		sub("jc", admissionv1.Update, lu, old) // only lastUpdated differs: untouched
		ch := old.DeepCopy()
		ch.Spec.Schedule.Cron.Expression = "0 * * * *"
		sub("jc", admissionv1.Update, ch, old) // changed: stamped
		fut := ch.DeepCopy()
		fut.Spec.Schedule.LastUpdated = admTime(admBaseSec + 100)
		sub("jc", admissionv1.Update, fut, old) // changed, future value kept
		add := old.DeepCopy()
		noSched := old.DeepCopy()
		noSched.Spec.Schedule = nil
		sub("jc", admissionv1.Update, add, noSched) // schedule created by the update: stamped
		sub("jc", admissionv1.Update, noSched, old) // schedule removed
		dis := old.DeepCopy()
		dis.Spec.Schedule.Disabled = true
		sub("jc", admissionv1.Update, dis, old)
	})

	// Known finding F20: the patch is computed against the typed re-encoding of the request,
	// not against the submitted document.  The re-encoding always contains `spec` (and, for a
	// pod template, `metadata` and `spec`), so when the submitted document lacks such an object
	// the patch addresses a child of a parent that does not exist there and the API server
	// cannot apply it.
	c.RunScenario("f20-job-without-spec", func() {
		w.reset()
		subRaw("job", admissionv1.Create, `{"apiVersion":"execution.furiko.io/v1alpha1","kind":"Job","metadata":{"name":"j","namespace":"ns"}}`)
	})
	c.RunScenario("f20-job-pod-without-spec", func() {
		w.reset()
		subRaw("job", admissionv1.Create, `{"apiVersion":"execution.furiko.io/v1alpha1","kind":"Job","metadata":{"name":"j","namespace":"ns"},"spec":{"type":"Adhoc","template":{"taskTemplate":{"pod":{"metadata":{"labels":{"a":"b"}}}}}}}`)
	})
	c.RunScenario("f20-job-configname-own-pod", func() {
		w.reset()
		jc := w.scenarioJC("jc", "uid-jc")
		jc.Spec.Template.Spec.TaskTemplate.Pod.Labels = map[string]string{"from": "jobconfig"}
		w.setStore([]*execution.JobConfig{jc})
		subRaw("job", admissionv1.Create, `{"apiVersion":"execution.furiko.io/v1alpha1","kind":"Job","metadata":{"name":"j","namespace":"ns"},"spec":{"configName":"jc","template":{"taskTemplate":{"pod":{"spec":{"containers":[{"name":"c","image":"alpine"}]}}}}}}`)
	})
	c.RunScenario("f20-jobconfig-without-spec", func() {
		w.reset()
		subRaw("jc", admissionv1.Create, `{"apiVersion":"execution.furiko.io/v1alpha1","kind":"JobConfig","metadata":{"name":"jc","namespace":"ns"}}`)
	})
}

// probeF20 reports whether the F20 witness still fails on the code under test.
func (w *admWorld) probeF20() bool {
	w.reset()
	raw := []byte(`{"apiVersion":"execution.furiko.io/v1alpha1","kind":"Job","metadata":{"name":"j","namespace":"ns"}}`)
	out := w.handle(&admReq{kind: "job", op: admissionv1.Create, raw: raw})
	if out.panicked || out.handleErr || out.rejected != nil {
		return false
	}
	_, err := admApply(out.patch, raw)
	return err != nil
}

func runAdmission(c *Ctx) {
	w := newAdmWorld(c)
	w.f16open = w.probeF20()
	if w.f16open {
		c.Count("f16.open")
	} else {
		c.Count("f16.closed")
	}
	w.scenarios()
	c.ForCases(func(i int, rng *rand.Rand) {
		if i%3 == 2 {
			w.jcCase(rng)
		} else {
			w.jobCase(rng)
		}
	})
}
