package eng

import (
	"fmt"
	"strings"
	"time"

	corev1 "k8s.io/api/core/v1"
	metav1 "k8s.io/apimachinery/pkg/apis/meta/v1"
	"k8s.io/apimachinery/pkg/runtime"
	"k8s.io/apimachinery/pkg/types"
	fakeclock "k8s.io/utils/clock/testing"

	configv1alpha1 "github.com/furiko-io/furiko/apis/config/v1alpha1"
	executiongroup "github.com/furiko-io/furiko/apis/execution"
	execution "github.com/furiko-io/furiko/apis/execution/v1alpha1"
	"github.com/furiko-io/furiko/pkg/execution/util/parallel"
	"github.com/furiko-io/furiko/pkg/utils/ktime"

	"verifharness/sim"
)

// Corpus scenarios of the jobctl engine: minimal replays of defects found with this machinery
// (KNOWN_FINDINGS.jsonl). They run before the generated cases on every check.

func newJobctlSc(c *Ctx, mod func(j *execution.Job)) *jobctlWorld {
	w := newJobctlWorld(c, c.Rng)
	w.ctx = sim.NewContext()
	w.clk = fakeclock.NewFakeClock(sim.VirtualBase.Add(5000 * time.Second))
	ktime.Clock = w.clk
	w.api = sim.NewSimAPI(w.clk)
	w.api.Install(w.ctx)
	w.api.Observe = w.monitorCall
	raw := &configv1alpha1.JobExecutionConfig{DefaultTTLSecondsAfterFinished: i64p(3600), DefaultPendingTimeoutSeconds: i64p(900), ForceDeleteTaskTimeoutSeconds: i64p(900)}
	w.ctx.MockConfigs().SetConfigs(map[configv1alpha1.ConfigName]runtime.Object{configv1alpha1.JobExecutionConfigName: raw})
	w.cfg, _ = w.ctx.Configs().Jobs()
	w.boot()
	c.Emit(fmt.Sprintf("jc.reset %d %s %s %s", w.now(), OptI(w.cfg.DefaultPendingTimeoutSeconds), OptI(w.cfg.ForceDeleteTaskTimeoutSeconds), OptI(w.cfg.DefaultTTLSecondsAfterFinished)), "ok")
	j := &execution.Job{ObjectMeta: metav1.ObjectMeta{Namespace: "ns", Name: "job", UID: types.UID("job-uid"), Finalizers: []string{executiongroup.DeleteDependentsFinalizer}}}
	w.jobKey, w.uid = "ns/job", "job-uid"
	tmpl := &execution.JobTemplate{}
	tmpl.TaskTemplate.Pod = &execution.PodTemplateSpec{Spec: corev1.PodSpec{Containers: []corev1.Container{{Name: "c", Image: "i"}}}}
	j.Spec.Template = tmpl
	j.Status.StartTime = ktime.Now()
	if mod != nil {
		mod(j)
	}
	var idx []string
	for _, ix := range parallel.GenerateIndexes(tmpl.Parallelism) {
		h, _ := parallel.HashIndex(ix)
		w.indexHashes = append(w.indexHashes, h)
		idx = append(idx, h)
	}
	par, strategy := "-", "-"
	if tmpl.Parallelism != nil {
		par = strings.Join(idx, ",")
		strategy = orDash(string(tmpl.Parallelism.CompletionStrategy))
	}
	_, _ = w.api.Create("jobs", j, false)
	defHash, _ := parallel.HashIndex(parallel.GetDefaultIndex())
	c.Emit(fmt.Sprintf("jc.job job job-uid %s %s %s %s %s %s %s %s %s %s %s", B(true), OptI(tmpl.MaxAttempts), OptI(tmpl.RetryDelaySeconds),
		OptI(tmpl.TaskPendingTimeoutSeconds), OptI(j.Spec.TTLSecondsAfterFinished), B(tmpl.ForbidTaskForceDeletion), strategy, par, defHash,
		tsec(j.Spec.KillTimestamp), B(true)), w.state())
	w.monitorJobVersion()
	return w
}

func (w *jobctlWorld) deliver(res string) {
	inf := w.ctx.Sim().Jobs()
	if res == "pods" {
		inf = w.ctx.Sim().Pods()
	}
	if w.api.DeliverOne(res, inf) {
		inf.Flush()
	}
	w.c.Emit("jc.deliver "+res, w.state())
}

func (w *jobctlWorld) adv(sec int64) {
	w.clk.Step(time.Duration(sec) * time.Second)
	w.c.Emit(fmt.Sprintf("jc.adv %d", sec*1e9), w.state())
}

func (w *jobctlWorld) addForeign(name string) {
	fp := &corev1.Pod{ObjectMeta: metav1.ObjectMeta{Namespace: "ns", Name: name}}
	_, _ = w.api.Create("pods", fp, false)
	w.foreign[name] = true
	w.c.Emit(fmt.Sprintf("jc.foreign %s 0", name), w.state())
}

func (w *jobctlWorld) setKill(at int64) {
	t := metav1.NewTime(time.Unix(at, 0))
	fin := w.apiJob() != nil && w.apiJob().Status.Condition.Finished != nil
	w.api.Mutate("jobs", w.jobKey, func(o runtime.Object) { o.(*execution.Job).Spec.KillTimestamp = &t })
	w.userEdited = true
	if fin {
		w.resultEdited = true
	}
	w.c.Emit(fmt.Sprintf("jc.kill %d", at), w.state())
	w.monitorJobVersion()
}

// setPodStatus: an external writer (the kubelet) replaces the pod's status; emits the jc.pod op.
func (w *jobctlWorld) setPodStatus(name string, fn func(pp *corev1.Pod)) {
	w.api.Mutate("pods", "ns/"+name, func(o runtime.Object) { fn(o.(*corev1.Pod)) })
	w.c.Emit(fmt.Sprintf("jc.pod %s %s", name, podDigest(w.apiPod(name))), w.state())
}

// kubeletLeaveTerminal (scenarios only; OUTSIDE E-PodTerminalImmutable): the pod status flaps — a
// pod that was reported Succeeded / Failed is reported Running again (C11's quantifier names
// "flapping pod status"; the code's own comment in GetTaskRef blames the PodStatus the kubelet
// generates).  The generated histories never do this.
func (w *jobctlWorld) kubeletLeaveTerminal(name string) {
	now := metav1.NewTime(time.Unix(w.clk.Now().Unix(), 0))
	w.setPodStatus(name, func(pp *corev1.Pod) {
		pp.Status.Phase = corev1.PodRunning
		pp.Status.ContainerStatuses = []corev1.ContainerStatus{{Name: "c", State: corev1.ContainerState{Running: &corev1.ContainerStateRunning{StartedAt: now}}}}
	})
	w.c.Count("jc.envelope.pod-left-terminal-phase")
	w.c.Count("jc.kubelet.flap-running")
}

// kubeletCrashLoop (scenarios only): restartPolicy OnFailure — the container of a Running pod exits
// with an error and waits to be restarted (CrashLoopBackOff).  The pod phase stays Running; the
// container's CURRENT state is Waiting, its start and exit times are only under
// LastTerminationState.  Inside the kubelet contract (the phase does not move back).
func (w *jobctlWorld) kubeletCrashLoop(name string) {
	now := metav1.NewTime(time.Unix(w.clk.Now().Unix(), 0))
	w.setPodStatus(name, func(pp *corev1.Pod) {
		started := now
		for _, cs := range pp.Status.ContainerStatuses {
			if cs.State.Running != nil {
				started = cs.State.Running.StartedAt
			}
		}
		pp.Status.ContainerStatuses = []corev1.ContainerStatus{{Name: "c", RestartCount: 1,
			State:                corev1.ContainerState{Waiting: &corev1.ContainerStateWaiting{Reason: "CrashLoopBackOff", Message: "back-off restarting failed container"}},
			LastTerminationState: corev1.ContainerState{Terminated: &corev1.ContainerStateTerminated{StartedAt: started, FinishedAt: now, ExitCode: 1, Reason: "Error"}}}}
	})
	w.c.Count("jc.envelope.container-waiting-for-restart")
	w.c.Count("jc.kubelet.crashloop")
}

func (w *jobctlWorld) onlyPodName() string {
	ps := w.ownedPods()
	if len(ps) != 1 {
		return ""
	}
	return ps[0].Name
}

func runJobctlScenarios(c *Ctx) {
	defHash, _ := parallel.HashIndex(parallel.GetDefaultIndex())

	// F2: a foreign object on the task's name ends the Job in AdmissionError, not a create loop.
	c.RunScenario("f2-foreign-pod-admission-error", func() {
		w := newJobctlSc(c, nil)
		w.addForeign("job-" + defHash + "-0")
		w.flush()
		creates := 0
		for i := 0; i < 6; i++ {
			w.work()
			for _, cl := range w.api.Calls {
				if cl.Verb == "create" && cl.Resource == "pods" {
					creates++
				}
			}
			w.flush()
		}
		if j := w.apiJob(); j == nil || j.Status.Phase != execution.JobAdmissionError {
			ph := execution.JobPhase("gone")
			if j != nil {
				ph = j.Status.Phase
			}
			c.Violate("C09", "foreign-ends-admission-error", "task name occupied by a foreign pod: Job is %s after 6 syncs (%d create calls), expected AdmissionError", ph, creates)
		}
		c.Nontrivial()
	})

	// F13: a deleting, unfinished Job is written with state Finished together with its finished condition.
	c.RunScenario("f13-deleting-state", func() {
		w := newJobctlSc(c, nil)
		w.flush()
		w.work()
		w.flush()
		w.work()
		_ = w.api.Delete("jobs", w.jobKey, false, false)
		w.userEdited, w.resultEdited = true, true
		c.Emit("jc.delete", w.state())
		w.monitorJobVersion()
		w.flush()
		w.work() // monitorJobVersion judges state-matches-condition on what was written
		c.Nontrivial()
	})

	// F8: the Job's own status update is observed before the Pod's creation event.
	c.RunScenario("f8-pod-cache-lag", func() {
		w := newJobctlSc(c, nil)
		w.flush()
		w.work()          // creates the pod, records it
		w.deliver("jobs") // only the Job's update arrives
		w.work()          // the pod is not in the pod cache
		if j := w.apiJob(); j != nil && j.Status.Condition.Finished != nil {
			c.Violate("C09", "never-lost-while-existing", "Job reported %s while its only task exists and is alive (pod cache lag)", j.Status.Condition.Finished.Result)
		}
		w.flush()
		for _, p := range w.ownedPods() {
			w.kubelet(p, 1)
		}
		w.flush()
		w.work()
		c.Nontrivial()
	})

	// F16: the live GET (F8's repair) can observe a newer version of the Pod than the pod cache
	// serves later; a finished (succeeded) task must not fall back to the stale cached status.
	c.RunScenario("f16-stale-cache-after-live-get", func() {
		w := newJobctlSc(c, func(j *execution.Job) { j.Spec.Template.MaxAttempts = i64p(2) })
		w.flush()
		w.work()          // creates the pod, records it
		w.deliver("jobs") // only the Job's own update arrives; the pod's creation event lags
		k := 0
		for _, p := range w.ownedPods() {
			w.forceKind = &k
			w.kubelet(p, 3) // the pod succeeds
		}
		w.work() // pod not in the cache -> live GET sees Succeeded -> Job Finished/Success
		fin := w.apiJob() != nil && w.apiJob().Status.Condition.Finished != nil
		w.deliver("jobs")
		w.deliver("pods") // the OLD creation event: the cache now holds the pod with an empty phase
		w.work()
		w.deliver("jobs")
		w.work()
		if j := w.apiJob(); fin && j != nil && j.Status.Condition.Finished == nil {
			c.Violate("C11", "finished-stays-finished", "Job was Finished/Success, became %s after the pod cache delivered the pod's stale creation event", j.Status.Phase)
		}
		if n := len(w.ownedPods()); n > 1 {
			c.Violate("C08", "no-create-for-succeeded-index", "%d pods exist for an index whose first task succeeded", n)
		}
		w.flush()
		w.settle(3)
		c.Nontrivial()
	})

	// F17: a task recorded lost (confirmed gone) is not resurrected by the vanished Pod's old events.
	c.RunScenario("f17-lost-task-resurrected", func() {
		w := newJobctlSc(c, nil) // maxAttempts 1
		w.flush()
		w.work()          // creates the pod, records it
		w.deliver("jobs") // the pod's creation event lags
		k := 0
		for _, p := range w.ownedPods() {
			w.forceKind = &k
			w.kubelet(p, 3) // the pod succeeds ...
		}
		for _, p := range w.ownedPods() {
			w.kubelet(p, 6) // ... and its object vanishes; all three events are still undelivered
		}
		w.work() // not in the cache, not on the server: recorded lost, Job Finished/Failed
		var res0 execution.JobResult
		if j := w.apiJob(); j != nil && j.Status.Condition.Finished != nil {
			res0 = j.Status.Condition.Finished.Result
		}
		w.deliver("jobs")
		w.deliver("pods") // add
		w.deliver("pods") // update: Succeeded (the delete event is still queued)
		w.work()
		if j := w.apiJob(); j != nil && res0 != "" && (j.Status.Condition.Finished == nil || j.Status.Condition.Finished.Result != res0) {
			c.Violate("C11", "result-stable", "Job was finished with %s, then rewritten as phase %s after the vanished pod's old events reached the cache", res0, j.Status.Phase)
		}
		w.flush()
		w.settle(3)
		c.Nontrivial()
	})

	// F18: the finalizer is not dropped while a task the pod cache never observed still exists.
	c.RunScenario("f18-finalizer-uncached-finished-task", func() {
		w := newJobctlSc(c, nil)
		w.flush()
		w.work()          // creates the pod, records it
		w.deliver("jobs") // pod events lag from here on
		k := 0
		for _, p := range w.ownedPods() {
			w.forceKind = &k
			w.kubelet(p, 3)
		}
		w.work() // live GET: Succeeded; Job Finished/Success; ref recorded finished
		w.deliver("jobs")
		_ = w.api.Delete("jobs", w.jobKey, false, false)
		w.userEdited, w.resultEdited = true, true
		c.Emit("jc.delete", w.state())
		w.monitorJobVersion()
		w.deliver("jobs")
		w.work() // finalizer pass: the pod is not in the cache
		w.deliver("jobs")
		w.work()
		if w.apiJob() == nil && len(w.ownedPods()) > 0 {
			c.Violate("C13", "job-gone-implies-tasks-gone", "Job removed while %d of its tasks still exist (never seen by the pod cache)", len(w.ownedPods()))
		}
		w.flush()
		w.settle(4)
		c.Nontrivial()
	})

	// F19 (known finding): a sync that reads a STALE Job (its own status update not yet in the
	// Job cache) re-creates a task name that the authoritative status already records, after the
	// first Pod vanished; refs are keyed by name, so the two incarnations are mixed up.
	c.RunScenario("f19-stale-job-cache-recreates-task", func() {
		w := newJobctlSc(c, nil) // maxAttempts 1
		w.flush()
		w.work() // creates job-<h>-0, status v2 written; the Job cache stays at v1 (no refs)
		w.deliver("pods")
		k := 0
		for _, p := range w.ownedPods() {
			w.forceKind = &k
			w.kubelet(p, 3) // Succeeded
		}
		w.deliver("pods")
		for _, p := range w.ownedPods() {
			w.kubelet(p, 6) // the Pod object vanishes (node lost / manual delete)
		}
		w.work() // stale Job v1: the index looks missing -> the same name is created again; status write conflicts
		w.deliver("jobs")
		w.work() // pod cache still holds the first incarnation (Succeeded) -> Job Finished/Success
		w.deliver("pods")
		w.deliver("pods")
		w.deliver("jobs")
		w.work()
		w.flush()
		w.settle(3)
		c.Nontrivial()
	})

	// F19, through a stale POD cache instead of a stale Job cache (known finding; found by a
	// thorough-tier sweep, generated case 5344 at seed 1; outside E-NoStaleCopyOnCreate: generated
	// histories that walk into it are tagged at pass start and counted): a task NAME identifies
	// different pod incarnations and the refs carry no UID.  The first pass creates job-<h>-0
	// (incarnation 1), its status write conflicts: unrecorded.  Incarnation 1 ends Failed/OOMKilled,
	// the pod cache catches up with it, then the object vanishes (delete event undelivered).  A
	// later pass — status.tasks still empty, the name free on the server — creates job-<h>-0 again
	// (incarnation 2) and records it.  The pod cache still serves incarnation 1: the next pass records
	// the ref Terminated/Failed/OOMKilled with incarnation 1's timestamps while incarnation 2 is
	// Running, and keeps that outcome (fix 6ab84c2) when incarnation 2 succeeds: a retry job-<h>-1 is
	// created for an index whose live task has succeeded.
	c.RunScenario("f19-stale-pod-cache-serves-previous-incarnation", func() {
		w := newJobctlSc(c, func(j *execution.Job) {
			j.Spec.Template.MaxAttempts = i64p(3)
			j.Spec.Template.RetryDelaySeconds = i64p(60)
		})
		w.flush()
		w.faults = []string{"", sim.FaultConflict} // pod create ok, status update conflicts
		c.Emit("jc.fault -", w.state())
		c.Emit("jc.fault "+sim.FaultConflict, w.state())
		w.work() // incarnation 1 of job-<h>-0: created, unrecorded
		name := w.onlyPodName()
		if name == "" {
			return
		}
		three, zero := 3, 0
		w.forceKind = &three
		w.kubelet(w.apiPod(name), 3) // incarnation 1: Failed / OOMKilled
		w.flush()                    // the pod cache holds incarnation 1, finished
		w.kubelet(w.apiPod(name), 6) // the object vanishes; its delete event stays undelivered
		w.adv(100)
		w.work() // status.tasks is empty and the name is free: incarnation 2 is created and recorded
		w.deliver("jobs")
		if p := w.apiPod(name); p != nil {
			w.kubelet(p, 1) // incarnation 2 runs (event undelivered)
		}
		w.work() // the pod cache serves incarnation 1: the ref is recorded Terminated/Failed/OOMKilled
		w.flush()
		if p := w.apiPod(name); p != nil {
			w.forceKind = &zero
			w.kubelet(p, 3) // incarnation 2 succeeds
		}
		w.flush()
		w.work() // the recorded outcome is kept: a retry is created for the succeeded index
		w.flush()
		w.settle(3)
		c.Nontrivial()
	})

	// F25 (known finding, same root cause as F19: the controller keeps no record of a create whose
	// status write failed and whose pod event has not arrived).  Lean witness
	// C12Hist.killed_reopened_witness, same history: the user's kill races a pass that still works
	// from a PRE-KILL copy of the Job.  That pass creates the retry, its status write conflicts with
	// the kill; the next pass (kill seen, creation disabled) finds every RECORDED task finished and
	// writes Finished/Killed while the unrecorded retry is alive and invisible to the pod cache; when
	// its creation event arrives the pass adopts it and the Job is unfinished again (Killing).
	// Outside E-OrphanVisible: the monitors are kept on for this replay.
	c.RunScenario("f25-killed-job-reopened-by-unrecorded-task", func() {
		w := newJobctlSc(c, func(j *execution.Job) { j.Spec.Template.MaxAttempts = i64p(2) })
		w.keepMonitors = true
		w.deliver("jobs")
		w.work() // creates job-<h>-0, records it
		w.deliver("jobs")
		w.deliver("pods")
		two := 2
		for _, p := range w.ownedPods() {
			w.forceKind = &two
			w.kubelet(p, 3) // the first attempt fails
		}
		w.deliver("pods")
		w.work()                      // the failure is recorded; the Job cache lags one version behind
		w.setKill(w.clk.Now().Unix()) // the user kills the Job: the kill timestamp has passed
		w.deliver("jobs")             // the cache catches up with the recorded failure only: no kill timestamp in it
		w.work()                      // pre-kill copy: the retry job-<h>-1 is created; the status write conflicts with the kill
		w.deliver("jobs")             // the kill reaches the cache
		w.work()                      // creation disabled, every recorded ref finished: Finished/Killed; job-<h>-1 alive, unrecorded, not in the pod cache
		fin := w.apiJob() != nil && w.apiJob().Status.Condition.Finished != nil
		alive := 0
		for _, p := range w.ownedPods() {
			if podAlive(p) && p.DeletionTimestamp == nil {
				alive++
			}
		}
		if !fin || alive == 0 {
			c.Violate("C11", "scenario-f25-shape", "the replay did not reach Finished with a live unrecorded task (finished=%v, live tasks=%d)", fin, alive)
		}
		w.deliver("pods") // the retry's creation event
		w.deliver("jobs")
		w.work() // the unrecorded task is adopted and swept: the Job is un-finished (Killing)
		w.flush()
		w.settle(4)
		w.judgeFinishedNoLiveTask() // every event delivered, passes run, 4 minutes gone: the re-opened Job has stopped the task
		w.runTimersOut()
		w.finalMonitors()
		c.Nontrivial()
	})

	// F25, second history (Lean witness C10Hist.finished_with_unrecorded_live_task_witness; inside the
	// envelope of the stability theorems: one write fault and pod-informer lag, no user action):
	// AnySuccessful over two indexes.  The retry of the failed index is created while its status write
	// conflicts; the other index's Succeeded event reaches the pod cache before the retry's creation
	// event: the pass finds the strategy satisfied and nothing RECORDED alive, and writes
	// Finished/Success while the retry runs.  (f23 is the same history with every event delivered
	// before that pass: the retry is then adopted and stopped first.)
	c.RunScenario("f25-finished-with-unrecorded-live-task", func() {
		w := newJobctlSc(c, func(j *execution.Job) {
			j.Spec.Template.MaxAttempts = i64p(2)
			j.Spec.Template.Parallelism = &execution.ParallelismSpec{WithCount: i64p(2), CompletionStrategy: execution.AnySuccessful}
		})
		w.keepMonitors = true
		w.deliver("jobs")
		w.work() // creates index 0 and index 1, records both
		w.deliver("jobs")
		w.deliver("pods")
		w.deliver("pods")
		pods := w.ownedPods()
		if len(pods) != 2 {
			return
		}
		two, zero := 2, 0
		w.forceKind = &two
		w.kubelet(pods[0], 3) // the first index fails
		w.deliver("pods")
		w.work() // records the failure
		w.deliver("jobs")
		w.forceKind = &zero
		w.kubelet(pods[1], 3)                      // the other index succeeds; the event is not delivered yet
		w.faults = []string{"", sim.FaultConflict} // retry pod create ok, status update conflicts
		c.Emit("jc.fault -", w.state())
		c.Emit("jc.fault "+sim.FaultConflict, w.state())
		w.work()          // creates the retry of the first index; it stays unrecorded, its event undelivered
		w.deliver("pods") // the Succeeded event of the other index (queued before the retry's creation event)
		w.work()          // AnySuccessful satisfied, no recorded task alive: Finished/Success while the retry runs
		w.flush()
		w.settle(4)
		w.judgeFinishedNoLiveTask() // every event delivered, passes run, 4 minutes gone: the re-opened Job has stopped the task
		w.runTimersOut()
		w.finalMonitors()
		c.Nontrivial()
	})

	// F29 (known finding).  C11: "unless the user edits or deletes it its recorded result and finish
	// time never change", over histories that include "flapping pod status".  maxAttempts 1.  The pod
	// is reported Failed at t1: the Job is Finished/Failed(t1).  The pod status flaps: Running again —
	// GetTaskRef keeps the finish time t1 but takes Status from the pod (state Running; this is pinned
	// by the upstream test "existing task transitioned from finished back to running").  Then the pod
	// is reported Succeeded at t2: the guard "keep the final status that was recorded" (repair of F17)
	// looks at existing.Status.State, which the flap overwrote with Running, so it does not apply: the
	// ref becomes Terminated/Succeeded(t2) and the finished Job is rewritten Finished/Success(t2).
	// Outside E-PodTerminalImmutable (the generated histories never leave a terminal phase).
	c.RunScenario("f29-flap-after-finish-changes-result", func() {
		w := newJobctlSc(c, nil) // maxAttempts 1
		w.keepMonitors = true
		w.flush()
		w.work() // creates the pod, records it
		w.flush()
		name := w.onlyPodName()
		if name == "" {
			return
		}
		w.kubelet(w.apiPod(name), 1) // running
		w.flush()
		w.work()
		w.flush()
		w.adv(10)
		two, zero := 2, 0
		w.forceKind = &two
		w.kubelet(w.apiPod(name), 3) // Failed at t1
		w.flush()
		w.work() // Finished / Failed (t1)
		w.flush()
		j := w.apiJob()
		if j == nil || j.Status.Condition.Finished == nil || j.Status.Condition.Finished.Result != execution.JobResultFailed {
			c.Violate("C11", "scenario-f29-shape", "the replay did not reach Finished/Failed")
			return
		}
		w.adv(5)
		w.kubeletLeaveTerminal(name) // the pod status flaps: Running again
		w.flush()
		w.work() // the ref keeps finish t1 and takes state Running from the pod; the Job stays Finished/Failed(t1)
		w.flush()
		w.adv(5)
		w.forceKind = &zero
		w.kubelet(w.apiPod(name), 3) // Succeeded at t2
		w.flush()
		w.work() // Finished / Success (t2): result and finish time of a finished Job changed
		w.flush()
		w.settle(2)
		w.finalMonitors()
		c.Nontrivial()
	})

	// F29, second history (the other direction; NOT removed by a guard in GetTaskRef): the pod is
	// reported Succeeded, the Job is Finished/Success; the pod status flaps to Running: the ref keeps
	// its finish time but takes Status (state Running, no result) from the pod — exactly what the
	// upstream test "existing task transitioned from finished back to running" pins — and the
	// aggregation (getIndexStatus: finished refs counted by FinishTimestamp, success read from
	// Status.Result) now sees a finished attempt without success: with maxAttempts 1 the finished Job is
	// rewritten Finished/Failed at the flap itself.
	c.RunScenario("f29b-flap-after-success-fails-job", func() {
		w := newJobctlSc(c, nil) // maxAttempts 1
		w.keepMonitors = true
		w.flush()
		w.work() // creates the pod, records it
		w.flush()
		name := w.onlyPodName()
		if name == "" {
			return
		}
		w.kubelet(w.apiPod(name), 1) // running
		w.flush()
		w.work()
		w.flush()
		w.adv(10)
		zero := 0
		w.forceKind = &zero
		w.kubelet(w.apiPod(name), 3) // Succeeded at t1
		w.flush()
		w.work() // Finished / Success (t1)
		w.flush()
		j := w.apiJob()
		if j == nil || j.Status.Condition.Finished == nil || j.Status.Condition.Finished.Result != execution.JobResultSuccess {
			c.Violate("C11", "scenario-f29b-shape", "the replay did not reach Finished/Success")
			return
		}
		w.adv(5)
		w.kubeletLeaveTerminal(name) // the pod status flaps: Running again
		w.flush()
		w.work() // Finished / Failed: the result of a finished Job changed
		w.flush()
		w.settle(2)
		w.finalMonitors()
		c.Nontrivial()
	})

	// F30 (REPAIRED; regression replay — fails on the tree before the repair).  C08: "a retry is never
	// created before retryDelaySeconds have elapsed since the previous attempt finished".  A pod that
	// fails WITHOUT container termination info (kubelet eviction, node lost, DeadlineExceeded without
	// activeDeadlineSeconds): PodTask.GetFinishTimestamp falls back to status.startTime (else the
	// creation time); before the repair that was recorded as the finish time of the attempt — the instant
	// it STARTED — and with retryDelaySeconds 600 the retry of a pod that had run for an hour was created
	// 2 s after it was evicted.  Now PodTask.GetTaskRef records ktime.Now() for such a pod, and
	// jobutil.GetTaskRef keeps the first recorded value: the recorded finish time is the clock of the pass
	// that saw the eviction, the retry waits for the delay from there.  Inside the kubelet contract; the
	// ground truth is the instant at which the simulated kubelet ended the pod (monitor
	// C08:retry-delay-true-finish, at full strength on every history).  Lean:
	// C08Side.evicted_retry_respects_delay.
	c.RunScenario("f30-evicted-task-retry-respects-delay", func() {
		w := newJobctlSc(c, func(j *execution.Job) {
			j.Spec.Template.MaxAttempts = i64p(2)
			j.Spec.Template.RetryDelaySeconds = i64p(600)
		})
		w.flush()
		w.work() // creates job-<h>-0, records it
		w.flush()
		name := w.onlyPodName()
		if name == "" {
			return
		}
		w.kubelet(w.apiPod(name), 1) // running: status.startTime = now
		w.flush()
		w.work()
		w.flush()
		w.adv(3600)
		four := 4
		w.forceKind = &four
		w.kubelet(w.apiPod(name), 3) // evicted: phase Failed, no container status; the attempt ends NOW
		evicted := w.now()
		w.flush()
		w.work() // the failure is recorded, with the finish time = the clock of this pass
		w.flush()
		recorded := func() int64 {
			if cur := w.apiJob(); cur != nil {
				for _, r := range cur.Status.Tasks {
					if r.Name == name && !r.FinishTimestamp.IsZero() {
						return r.FinishTimestamp.UnixNano()
					}
				}
			}
			return -1
		}
		first := recorded()
		if first < evicted {
			c.Violate("C08", "scenario-f30-recorded-finish", "the finish time recorded for the evicted attempt %s is %d s, before the eviction at %d s", name, first/1e9, evicted/1e9)
		}
		w.adv(2)
		w.work() // 2 s after the eviction: the pod is read again, at a later clock; no retry yet
		w.flush()
		if n := len(w.ownedPods()); n != 1 {
			c.Violate("C08", "scenario-f30-retry-too-early", "%d pods 2 s after the eviction of %s (retryDelaySeconds 600)", n, name)
		}
		if again := recorded(); again != first {
			c.Violate("C08", "scenario-f30-recorded-finish", "the finish time recorded for %s moved from %d s to %d s when the pod was read again", name, first/1e9, again/1e9)
		}
		w.adv(596) // 598 s after the eviction
		w.drain()
		if n := len(w.ownedPods()); n != 1 {
			c.Violate("C08", "scenario-f30-retry-too-early", "%d pods 598 s after the eviction of %s (retryDelaySeconds 600)", n, name)
		}
		w.adv(4) // the retry delay, counted from the eviction, has passed now
		w.drain()
		if n := len(w.ownedPods()); n != 2 {
			c.Violate("C08", "scenario-f30-shape", "the retry was not created even 602 s after the eviction (%d pods)", n)
		} else {
			c.Count("jc.observed.retry-created-after-delay-from-eviction")
		}
		w.settle(2)
		c.Nontrivial()
	})

	// F31 (REPAIRED; regression replay — fails on the tree before the repair).  C09: "every task the
	// Job ever created stays listed in its status".
	// Parallel Job over two indexes; the task name of index 1 is taken by a foreign pod.  Pass 1 creates
	// the pod of index 0; index 1 answers AlreadyExists, the admission-error annotation is set in
	// memory; handleKillJob runs in the same pass (shouldKillJob: the annotation) and deletes the pod
	// of index 0 — no kubelet has acknowledged it, so the API server removes it at once; Update
	// (annotation) succeeds.  Before the repair UpdateStatus was sent with the SAME resourceVersion the
	// pass had read, which Update had just made stale: Conflict, with no fault injected (SyncOne
	// discarded what Update returned; whenever a pass changed both metadata and status the status
	// write conflicted); the later passes saw status.tasks == [] and no pod: Finished/AdmissionError
	// with 0 tasks — a task was created, deleted and never listed.  Now
	// (ExecutionControl.UpdateJobAndStatus) the status write is submitted on top of the object Update
	// returned: ok, and the task is listed with its Killed marker from pass 1 on
	// (Lean: C09Side.created_task_listed_regression, C09Hist.created_stays_listed).  (f11 is the same
	// history with the deleted pod lingering.)
	c.RunScenario("f31-created-task-deleted-and-never-listed", func() {
		w := newJobctlSc(c, func(j *execution.Job) { j.Spec.Template.Parallelism = &execution.ParallelismSpec{WithCount: i64p(2)} })
		w.keepMonitors = true
		w.promptUnscheduled = true
		if len(w.indexHashes) != 2 {
			return
		}
		name := "job-" + w.indexHashes[0] + "-0"
		w.addForeign("job-" + w.indexHashes[1] + "-0")
		w.flush()
		w.work() // create index 0: ok; create index 1: exists; delete index 0; Update ok; UpdateStatus ok (was: conflict)
		created, both, conflict := 0, 0, false
		for _, cl := range w.api.Calls {
			if cl.Verb == "create" && cl.Resource == "pods" && cl.Result == "ok" {
				created++
			}
			if cl.Verb == "update" && cl.Resource == "jobs" && cl.Result == "ok" {
				both++
			}
			if cl.Verb == "update" && cl.Subresource == "status" && cl.Result == "conflict" {
				conflict = true
			}
		}
		if created != 1 || len(w.ownedPods()) != 0 {
			c.Violate("C09", "scenario-f31-shape", "pass 1: %d pods created, %d pods of the Job left", created, len(w.ownedPods()))
		}
		if conflict {
			c.Count("jc.observed.status-write-conflicts-with-own-update")
		}
		listedKilled := func() bool {
			j := w.apiJob()
			if j == nil {
				return false
			}
			for _, r := range j.Status.Tasks {
				if r.Name == name && r.DeletedStatus != nil && r.DeletedStatus.Result == execution.TaskKilled {
					return true
				}
			}
			return false
		}
		// the regression proper: no fault was injected, so the pass that wrote the annotation also wrote
		// its status — the task it created and swept is listed right away
		if both != 2 || conflict || !listedKilled() {
			c.Violate("C09", "scenario-f31-regression", "pass 1 (no fault injected) created and deleted %s and wrote the admission-error annotation, but its status write did not go through (%d job writes ok, conflict=%v): the task is not listed with its Killed marker", name, both, conflict)
		}
		w.flush()
		for i := 0; i < 4; i++ {
			w.work()
			w.flush()
		}
		w.settle(2)
		if !listedKilled() {
			c.Violate("C09", "scenario-f31-regression", "at quiescence the task %s, created and deleted by the controller, is not listed with its Killed marker", name)
		}
		w.finalMonitors() // (before the TTL timer of the finished Job is run out: the Job is judged while it exists)
		c.Nontrivial()
	})

	// F32 (REPAIRED; regression replay — fails on the tree before the repair).  C12: the pending
	// timeout applies to "a task that has not begun running".
	// restartPolicy OnFailure (admitted by validation: only Always is refused).  The task runs, the
	// running timestamp is recorded in status.tasks; the container exits with an error and waits to
	// be restarted (CrashLoopBackOff): its current state is Waiting, the start time is only under
	// LastTerminationState.  Before the repair handlePendingTasks read the running timestamp from the
	// LIVE pod (task.GetTaskRef(), not the recorded ref) and GetContainerStartTime only looked at
	// State.Running / State.Terminated: the task looked as if it had never started, and any pass
	// after creation + pendingTimeout deleted it as "PendingTimeout".  Now the recorded ref decides
	// and LastTerminationState counts as a start: the pass at 1005 s issues no call
	// (Lean: C12Side.running_task_not_reaped_as_pending).
	c.RunScenario("f32-crashloop-task-reaped-as-pending", func() {
		w := newJobctlSc(c, func(j *execution.Job) {
			j.Spec.Template.TaskTemplate.Pod.Spec.RestartPolicy = corev1.RestartPolicyOnFailure
		})
		w.keepMonitors = true
		w.flush()
		w.work() // creates the pod, records it
		w.flush()
		name := w.onlyPodName()
		if name == "" {
			return
		}
		w.adv(5)
		w.kubelet(w.apiPod(name), 1) // the task begins running
		w.flush()
		w.work() // runningTimestamp recorded
		w.flush()
		if j := w.apiJob(); j == nil || len(j.Status.Tasks) != 1 || j.Status.Tasks[0].RunningTimestamp.IsZero() {
			c.Violate("C12", "scenario-f32-shape", "the running timestamp was not recorded")
			return
		}
		w.adv(1000)              // beyond creation + pending timeout (900 s, controller default)
		w.kubeletCrashLoop(name) // the container failed and waits for its restart
		w.flush()
		w.work() // before the repair: reaped (delete + DeletedStatus Killed/PendingTimeout); now: nothing
		w.flush()
		if p := w.apiPod(name); p == nil || p.DeletionTimestamp != nil {
			c.Violate("C12", "scenario-f32-regression", "the task that had begun running was deleted by the pending-timeout pass")
		}
		w.settle(4)
		w.runTimersOut()
		w.finalMonitors()
		c.Nontrivial()
	})

	// F32, second history (REPAIRED; regression replay): the container starts and fails BETWEEN two
	// passes, so no pass ever saw it Running; the only trace of the start is
	// LastTerminationState.Terminated.StartedAt, which GetContainerStartTime now reads: the first pass
	// after the failure records the running timestamp, the pass after creation + pendingTimeout reaps
	// nothing (Lean: C12Side.crashed_before_observed_not_reaped).  The first hunk of the repair alone
	// (recorded ref) does not cover this history.
	c.RunScenario("f32b-crashloop-before-first-observation", func() {
		w := newJobctlSc(c, func(j *execution.Job) {
			j.Spec.Template.TaskTemplate.Pod.Spec.RestartPolicy = corev1.RestartPolicyOnFailure
		})
		w.keepMonitors = true
		w.flush()
		w.work() // creates the pod, records it
		w.flush()
		name := w.onlyPodName()
		if name == "" {
			return
		}
		w.adv(5)
		w.kubelet(w.apiPod(name), 1) // the task begins running ...
		w.adv(3)
		w.kubeletCrashLoop(name) // ... and fails 3 s later; no pass in between
		w.flush()
		w.work()
		w.flush()
		w.adv(1000) // beyond creation + pending timeout
		w.work()    // the pending-timeout timer: before the repair reaped; now nothing
		w.flush()
		if p := w.apiPod(name); p == nil || p.DeletionTimestamp != nil {
			c.Violate("C12", "scenario-f32-regression", "the task whose container had started and failed was deleted by the pending-timeout pass")
		}
		if j := w.apiJob(); j == nil || len(j.Status.Tasks) != 1 || j.Status.Tasks[0].RunningTimestamp.IsZero() {
			c.Violate("C12", "scenario-f32-regression", "the container start under LastTerminationState was not recorded as running timestamp")
		}
		w.settle(4)
		w.runTimersOut()
		w.finalMonitors()
		c.Nontrivial()
	})

	// Observed, not claimed (C09 / C12): the kill marker is lost when the status write fails after the
	// delete.  handleKillJob sets DeletedStatus = Killed only in memory, deletes the pod, and the
	// status is persisted at the end of SyncOne; that write is answered Conflict.  The retry sees the
	// pod with a deletion timestamp and skips it (no marker); when the pod goes away the ref ends
	// DeletedFinalStateUnknown with no Killed marker, the Job Finished/Killed.  No theorem is
	// contradicted: C12Hist.deletion_marker_kept / marked_task_lost_is_killed are about markers that
	// WERE persisted, and no monitor states that a task stopped by the kill sweep is recorded Killed.
	c.RunScenario("kill-marker-lost-on-conflict", func() {
		w := newJobctlSc(c, nil)
		w.flush()
		w.work() // creates the pod, records it
		w.flush()
		name := w.onlyPodName()
		if name == "" {
			return
		}
		w.kubelet(w.apiPod(name), 1) // running
		w.flush()
		w.work()
		w.flush()
		w.setKill(w.clk.Now().Unix())
		w.flush()
		w.faults = []string{"", sim.FaultConflict} // pod delete ok, status update conflicts
		c.Emit("jc.fault -", w.state())
		c.Emit("jc.fault "+sim.FaultConflict, w.state())
		w.work() // kill sweep: the pod is deleted, the marker stays in memory
		w.flush()
		w.adv(1)
		w.work() // the pod carries a deletion timestamp: skipped by the sweep, ref Killing, no marker
		w.flush()
		if p := w.apiPod(name); p != nil {
			w.kubelet(p, 0) // the kubelet finishes terminating it
		}
		w.flush()
		w.work()
		w.flush()
		w.settle(2)
		w.finalMonitors()
		if j := w.apiJob(); j != nil && len(j.Status.Tasks) == 1 {
			r := j.Status.Tasks[0]
			if r.Status.State == execution.TaskDeletedFinalStateUnknown && r.DeletedStatus == nil && j.Status.Phase == execution.JobKilled {
				c.Count("jc.observed.kill-marker-lost")
			} else {
				c.Violate("C12", "scenario-kill-marker-shape", "expected the ref lost without marker and the Job Killed; got state %s deletedStatus %v phase %s", r.Status.State, r.DeletedStatus, j.Status.Phase)
			}
		}
		c.Nontrivial()
	})

	// F21: once creation is disabled (kill timestamp), unrecorded tasks are adopted from the pod
	// cache; a stale cached copy of a RECORDED task that is gone (force-deleted) must not be.
	c.RunScenario("f21-stale-copy-adopted-after-kill", func() {
		w := newJobctlSc(c, nil)
		w.kubeletDead = true
		w.flush()
		w.work()          // creates the pod, records it
		w.deliver("jobs") // pod events lag from here on
		w.setKill(w.clk.Now().Unix() + 2)
		w.deliver("jobs")
		w.adv(5)
		w.work() // kill sweep: graceful delete (the pod is found by the live GET), marked Killed
		w.deliver("jobs")
		w.adv(901)
		w.work() // force delete: the pod is gone, ref finished Killed/ForceDeleted
		w.deliver("jobs")
		w.work()
		w.deliver("pods") // the pod's creation event arrives only now: a stale, unfinished copy
		w.work()
		w.deliver("jobs")
		w.work()
		w.flush()
		w.settle(3)
		c.Nontrivial()
	})

	// F22: task refs are keyed by name; a foreign Pod that takes the name of a recorded task after
	// that task's Pod vanished must not be read as the task (the lookups check the controller owner
	// reference): the task is lost, the Job does not succeed through the foreign Pod, and the foreign
	// Pod is never deleted by the Job.
	c.RunScenario("f22-foreign-pod-takes-recorded-name", func() {
		w := newJobctlSc(c, nil)
		w.flush()
		w.work() // creates and records job-<h>-0
		w.flush()
		name := ""
		for _, p := range w.ownedPods() {
			name = p.Name
			w.kubelet(p, 6) // the Pod object vanishes
		}
		fp := &corev1.Pod{ObjectMeta: metav1.ObjectMeta{Namespace: "ns", Name: name}}
		_, _ = w.api.Create("pods", fp, false)
		w.foreign[name], w.foreignRec[name] = true, true
		c.Emit(fmt.Sprintf("jc.foreign %s 0", name), w.state())
		w.api.Mutate("pods", "ns/"+name, func(o runtime.Object) { o.(*corev1.Pod).Status.Phase = corev1.PodSucceeded })
		c.Emit(fmt.Sprintf("jc.pod %s %s", name, podDigest(w.apiPod(name))), w.state())
		w.flush()
		w.work()
		w.flush()
		w.settle(2)
		w.finalMonitors()
		c.Nontrivial()
	})

	// F22b (regression guard of the repair of F22): a cached object of the ref's name that is not
	// controlled by the Job must be treated as a cache MISS (live GET for an unfinished ref), not as
	// "task absent".  A foreign Pod that has already been removed from the server, but whose deletion
	// has not reached the pod cache yet, must not hide the Job's own live task of that name (a first
	// form of the repair recorded that task lost while its Pod existed).
	c.RunScenario("f22b-stale-foreign-cache-hides-own-task", func() {
		w := newJobctlSc(c, nil) // maxAttempts 1
		name := "job-" + defHash + "-0"
		w.addForeign(name)
		w.deliver("pods") // the pod cache holds the foreign pod
		w.api.Remove("pods", "ns/"+name)
		c.Emit(fmt.Sprintf("jc.pod %s gone", name), w.state()) // gone from the server; the delete event lags
		w.deliver("jobs")
		w.work() // the name is free: the Job's own pod is created and recorded
		w.deliver("jobs")
		w.work() // stale foreign object in the pod cache: a cache miss, the live GET finds the own pod
		w.flush()
		w.settle(3)
		c.Nontrivial()
	})

	// F23: a retry task that was created but not recorded must still be found (and stopped) when
	// the Job becomes complete through another index.
	c.RunScenario("f23-unrecorded-task-when-complete", func() {
		w := newJobctlSc(c, func(j *execution.Job) {
			j.Spec.Template.MaxAttempts = i64p(2)
			j.Spec.Template.Parallelism = &execution.ParallelismSpec{WithCount: i64p(2), CompletionStrategy: execution.AnySuccessful}
		})
		w.flush()
		w.work() // creates index 0 and index 1, records both
		w.flush()
		pods := w.ownedPods()
		if len(pods) != 2 {
			return
		}
		two, zero := 2, 0
		w.forceKind = &two
		w.kubelet(pods[0], 3) // first index fails
		w.flush()
		w.work() // records the failure
		w.flush()
		w.faults = []string{"", sim.FaultConflict} // retry pod create ok, status update conflicts
		c.Emit("jc.fault -", w.state())
		c.Emit("jc.fault "+sim.FaultConflict, w.state())
		w.work() // creates the retry of the first index; it stays unrecorded
		w.forceKind = &zero
		w.kubelet(pods[1], 3) // the other index succeeds: AnySuccessful is decided
		w.flush()
		for i := 0; i < 4; i++ {
			w.work()
			w.flush()
		}
		w.settle(4)
		w.runTimersOut()
		w.finalMonitors()
		c.Nontrivial()
	})

	// F15: a task created but not recorded (status update conflict) is still killed with the Job.
	c.RunScenario("f15-orphan-after-kill", func() {
		w := newJobctlSc(c, nil)
		w.flush()
		w.faults = []string{"", sim.FaultConflict} // pod create ok, status update conflicts
		c.Emit("jc.fault -", w.state())
		c.Emit("jc.fault "+sim.FaultConflict, w.state())
		w.work()
		w.setKill(w.clk.Now().Unix() + 2)
		w.flush()
		w.adv(5)
		for i := 0; i < 4; i++ {
			w.work()
			w.flush()
		}
		for _, p := range w.ownedPods() {
			if podAlive(p) && p.DeletionTimestamp == nil {
				c.Violate("C12", "kill-sweeps-all", "kill timestamp passed but task %s (created, never recorded) was not deleted; Job is %s", p.Name, w.apiJob().Status.Phase)
			}
		}
		c.Nontrivial()
	})

	// F11: an admission error on one index stops the tasks of the other indexes.
	c.RunScenario("f11-admission-error-stops-others", func() {
		w := newJobctlSc(c, func(j *execution.Job) { j.Spec.Template.Parallelism = &execution.ParallelismSpec{WithCount: i64p(2)} })
		w.addForeign("job-" + w.indexHashes[1] + "-0")
		w.flush()
		for i := 0; i < 4; i++ {
			w.work()
			w.flush()
		}
		for _, p := range w.ownedPods() {
			if podAlive(p) && p.DeletionTimestamp == nil {
				c.Violate("C10", "decided-then-stopped", "Job ended with %s but its task %s was left running", w.apiJob().Status.Phase, p.Name)
			}
		}
		c.Nontrivial()
	})

	// F5: a kill timestamp in the future arms a timer for it: the tasks are killed when it passes,
	// without waiting for an unrelated event or the informers' periodic resync.
	c.RunScenario("f5-future-kill-timer", func() {
		w := newJobctlSc(c, nil)
		w.flush()
		w.work() // creates the pod, records it
		w.flush()
		for _, p := range w.ownedPods() {
			w.kubelet(p, 1) // the task runs
		}
		w.flush()
		w.work()
		w.setKill(w.clk.Now().Unix() + 100)
		w.drain() // the sync that sees the future kill timestamp; then nothing is left to do
		if w.q.Len() != 0 {
			c.Violate("C12", "scenario-queue-drained", "the queue still holds %d ready keys", w.q.Len())
		}
		w.adv(101) // past the kill timestamp, far before any other deadline (pending timeout 900 s)
		for i := 0; i < 3; i++ {
			w.work() // due timers fire; NO resync
			w.flush()
		}
		for _, p := range w.ownedPods() {
			if podAlive(p) && p.DeletionTimestamp == nil {
				c.Violate("C12", "kill-eventually", "the kill timestamp passed 1 s ago, every event is delivered and the queue is idle, but task %s was not deleted (no re-sync was scheduled for the kill timestamp); Job is %s",
					p.Name, w.apiJob().Status.Phase)
			}
		}
		w.flush()
		w.settle(4)
		w.finalMonitors()
		c.Nontrivial()
	})

	// F6: the TTL after finish that comes from the dynamic config's default also arms a timer: the
	// finished Job is removed when it expires, without waiting for the periodic resync.
	c.RunScenario("f6-config-default-ttl-timer", func() {
		// no job-level TTL (config default: 3600 s); pending timeout off, so that no other timer is armed
		w := newJobctlSc(c, func(j *execution.Job) { j.Spec.Template.TaskPendingTimeoutSeconds = i64p(0) })
		w.flush()
		w.work() // creates the pod, records it
		w.flush()
		k := 0
		for _, p := range w.ownedPods() {
			w.forceKind = &k
			w.kubelet(p, 3) // the task succeeds
		}
		w.drain() // Job Finished/Success; then nothing is left to do
		if j := w.apiJob(); j == nil || j.Status.Condition.Finished == nil || w.q.Len() != 0 {
			c.Violate("C13", "scenario-job-finished", "the Job did not finish or the queue is not drained")
		}
		w.adv(3601)
		for i := 0; i < 3; i++ {
			w.work() // due timers fire; NO resync
			w.flush()
		}
		if j := w.apiJob(); j != nil && j.DeletionTimestamp == nil {
			c.Violate("C13", "ttl-eventually", "the Job finished 3601 s ago, the effective TTL (config default) is 3600 s, every event is delivered and the queue is idle, but the Job was not deleted (no re-sync was scheduled for the expiry)")
		}
		w.flush()
		w.settle(4)
		c.Nontrivial()
	})

	// F-C20-1: a task that was created but not recorded (the status update after the create
	// failed) is deleted by the finalizer too when the Job is deleted before the retry, and the
	// finalizer stays until that task is gone.
	c.RunScenario("f-c20-1-unrecorded-task-on-delete", func() {
		w := newJobctlSc(c, nil)
		w.flush()
		w.faults = []string{"", sim.FaultConflict} // pod create ok, status update conflicts
		c.Emit("jc.fault -", w.state())
		c.Emit("jc.fault "+sim.FaultConflict, w.state())
		w.work()
		w.deliver("pods") // the pod cache sees the created pod; the status does not list it
		_ = w.api.Delete("jobs", w.jobKey, false, false)
		w.userEdited, w.resultEdited = true, true
		c.Emit("jc.delete", w.state())
		w.monitorJobVersion()
		w.flush()
		judge := func(when string) {
			if w.apiJob() == nil && len(w.ownedPods()) > 0 {
				c.Violate("C13", "job-gone-implies-tasks-gone", "%s: Job removed (finalizer dropped) while %d of its tasks, created but never recorded, still exist", when, len(w.ownedPods()))
			}
		}
		w.work() // finalizer pass
		judge("finalizer pass")
		for _, p := range w.ownedPods() {
			if w.apiJob() != nil && p.DeletionTimestamp == nil {
				c.Violate("C13", "job-gone-implies-tasks-gone", "finalizer pass left the unrecorded task %s undeleted", p.Name)
			}
		}
		w.flush()
		w.work() // the pod is terminating: the finalizer must stay
		judge("second pass")
		w.flush()
		for _, p := range w.ownedPods() {
			w.kubelet(p, 0) // the kubelet finishes terminating it
		}
		w.flush()
		w.work()
		w.flush()
		w.settle(4)
		judge("at quiescence")
		if w.apiJob() != nil {
			c.Violate("C13", "delete-completes", "all tasks are gone but the Job still exists at quiescence")
		}
		c.Nontrivial()
	})

	// Correspondence regression (no defect of the code): the delete batches of one sync
	// (pending-timeout, kill sweep, force delete) are SEQUENTIAL; only the deletes inside one
	// batch race.  The watch events of the kill batch therefore precede those of the
	// force-delete batch, whatever the names are.
	c.RunScenario("delete-batches-sequential", func() {
		w := newJobctlSc(c, func(j *execution.Job) { j.Spec.Template.Parallelism = &execution.ParallelismSpec{WithCount: i64p(2)} })
		w.kubeletDead = true
		w.flush()
		w.work() // creates both pods
		w.flush()
		ps := w.ownedPods() // sorted by key: ps[0] < ps[1]
		if len(ps) != 2 {
			return
		}
		w.kubelet(ps[1], 1) // the LATER name runs; the earlier one stays pending
		w.flush()
		w.work()
		w.flush()
		w.adv(901)
		w.work() // pending timeout: graceful delete of ps[0] (dead kubelet: it stays Terminating)
		w.flush()
		w.adv(901)
		w.setKill(w.clk.Now().Unix())
		w.flush()
		w.work()          // kill batch: graceful delete of ps[1]; THEN force batch: ps[0]
		w.deliver("pods") // the first of the two events: ps[1] (update), not ps[0] (delete)
		w.work()
		w.flush()
		w.settle(3)
		c.Nontrivial()
	})
}
