package eng

import (
	"fmt"
	"strings"
	"time"

	corev1 "k8s.io/api/core/v1"
	metav1 "k8s.io/apimachinery/pkg/apis/meta/v1"
	"k8s.io/apimachinery/pkg/runtime"
	"k8s.io/apimachinery/pkg/types"
	fakeclock "k8s.io/utils/clock/testing"

	configv1alpha1 "github.com/furiko-io/furiko/apis/config/v1alpha1"
	executiongroup "github.com/furiko-io/furiko/apis/execution"
	execution "github.com/furiko-io/furiko/apis/execution/v1alpha1"
	"github.com/furiko-io/furiko/pkg/execution/util/parallel"
	"github.com/furiko-io/furiko/pkg/utils/ktime"

	"verifharness/sim"
)

// Corpus scenarios of the jobctl engine: minimal replays of defects found with this machinery
// (KNOWN_FINDINGS.jsonl). They run before the generated cases on every check.

func newJobctlSc(c *Ctx, mod func(j *execution.Job)) *jobctlWorld {
	w := &jobctlWorld{c: c, rng: c.Rng, podsCreated: map[string]int64{}, foreign: map[string]bool{}}
	w.ctx = sim.NewContext()
	w.clk = fakeclock.NewFakeClock(sim.VirtualBase.Add(5000 * time.Second))
	ktime.Clock = w.clk
	w.api = sim.NewSimAPI(w.clk)
	w.api.Install(w.ctx)
	w.api.Observe = w.monitorCall
	raw := &configv1alpha1.JobExecutionConfig{DefaultTTLSecondsAfterFinished: i64p(3600), DefaultPendingTimeoutSeconds: i64p(900), ForceDeleteTaskTimeoutSeconds: i64p(900)}
	w.ctx.MockConfigs().SetConfigs(map[configv1alpha1.ConfigName]runtime.Object{configv1alpha1.JobExecutionConfigName: raw})
	w.cfg, _ = w.ctx.Configs().Jobs()
	w.boot()
	c.Emit(fmt.Sprintf("jc.reset %d %s %s %s", w.now(), OptI(w.cfg.DefaultPendingTimeoutSeconds), OptI(w.cfg.ForceDeleteTaskTimeoutSeconds), OptI(w.cfg.DefaultTTLSecondsAfterFinished)), "ok")
	j := &execution.Job{ObjectMeta: metav1.ObjectMeta{Namespace: "ns", Name: "job", UID: types.UID("job-uid"), Finalizers: []string{executiongroup.DeleteDependentsFinalizer}}}
	w.jobKey, w.uid = "ns/job", "job-uid"
	tmpl := &execution.JobTemplate{}
	tmpl.TaskTemplate.Pod = &execution.PodTemplateSpec{Spec: corev1.PodSpec{Containers: []corev1.Container{{Name: "c", Image: "i"}}}}
	j.Spec.Template = tmpl
	j.Status.StartTime = ktime.Now()
	if mod != nil {
		mod(j)
	}
	var idx []string
	for _, ix := range parallel.GenerateIndexes(tmpl.Parallelism) {
		h, _ := parallel.HashIndex(ix)
		w.indexHashes = append(w.indexHashes, h)
		idx = append(idx, h)
	}
	par, strategy := "-", "-"
	if tmpl.Parallelism != nil {
		par = strings.Join(idx, ",")
		strategy = orDash(string(tmpl.Parallelism.CompletionStrategy))
	}
	_, _ = w.api.Create("jobs", j, false)
	defHash, _ := parallel.HashIndex(parallel.GetDefaultIndex())
	c.Emit(fmt.Sprintf("jc.job job job-uid %s %s %s %s %s %s %s %s %s %s %s", B(true), OptI(tmpl.MaxAttempts), OptI(tmpl.RetryDelaySeconds),
		OptI(tmpl.TaskPendingTimeoutSeconds), OptI(j.Spec.TTLSecondsAfterFinished), B(tmpl.ForbidTaskForceDeletion), strategy, par, defHash,
		tsec(j.Spec.KillTimestamp), B(true)), w.state())
	w.monitorJobVersion()
	return w
}

func (w *jobctlWorld) deliver(res string) {
	inf := w.ctx.Sim().Jobs()
	if res == "pods" {
		inf = w.ctx.Sim().Pods()
	}
	if w.api.DeliverOne(res, inf) {
		inf.Flush()
	}
	w.c.Emit("jc.deliver "+res, w.state())
}

func (w *jobctlWorld) adv(sec int64) {
	w.clk.Step(time.Duration(sec) * time.Second)
	w.c.Emit(fmt.Sprintf("jc.adv %d", sec*1e9), w.state())
}

func (w *jobctlWorld) addForeign(name string) {
	fp := &corev1.Pod{ObjectMeta: metav1.ObjectMeta{Namespace: "ns", Name: name}}
	_, _ = w.api.Create("pods", fp, false)
	w.foreign[name] = true
	w.c.Emit(fmt.Sprintf("jc.foreign %s 0", name), w.state())
}

func (w *jobctlWorld) setKill(at int64) {
	t := metav1.NewTime(time.Unix(at, 0))
	w.api.Mutate("jobs", w.jobKey, func(o runtime.Object) { o.(*execution.Job).Spec.KillTimestamp = &t })
	w.userEdited, w.resultEdited = true, true
	w.c.Emit(fmt.Sprintf("jc.kill %d", at), w.state())
	w.monitorJobVersion()
}

func runJobctlScenarios(c *Ctx) {
	defHash, _ := parallel.HashIndex(parallel.GetDefaultIndex())

	// F2: a foreign object on the task's name ends the Job in AdmissionError, not a create loop.
	c.RunScenario("f2-foreign-pod-admission-error", func() {
		w := newJobctlSc(c, nil)
		w.addForeign("job-" + defHash + "-0")
		w.flush()
		creates := 0
		for i := 0; i < 6; i++ {
			w.work()
			for _, cl := range w.api.Calls {
				if cl.Verb == "create" && cl.Resource == "pods" {
					creates++
				}
			}
			w.flush()
		}
		if j := w.apiJob(); j == nil || j.Status.Phase != execution.JobAdmissionError {
			ph := execution.JobPhase("gone")
			if j != nil {
				ph = j.Status.Phase
			}
			c.Violate("C09", "foreign-ends-admission-error", "task name occupied by a foreign pod: Job is %s after 6 syncs (%d create calls), expected AdmissionError", ph, creates)
		}
		c.Nontrivial()
	})

	// F13: a deleting, unfinished Job is written with state Finished together with its finished condition.
	c.RunScenario("f13-deleting-state", func() {
		w := newJobctlSc(c, nil)
		w.flush()
		w.work()
		w.flush()
		w.work()
		_ = w.api.Delete("jobs", w.jobKey, false, false)
		w.userEdited, w.resultEdited = true, true
		c.Emit("jc.delete", w.state())
		w.monitorJobVersion()
		w.flush()
		w.work() // monitorJobVersion judges state-matches-condition on what was written
		c.Nontrivial()
	})

	// F8: the Job's own status update is observed before the Pod's creation event.
	c.RunScenario("f8-pod-cache-lag", func() {
		w := newJobctlSc(c, nil)
		w.flush()
		w.work()          // creates the pod, records it
		w.deliver("jobs") // only the Job's update arrives
		w.work()          // the pod is not in the pod cache
		if j := w.apiJob(); j != nil && j.Status.Condition.Finished != nil {
			c.Violate("C09", "never-lost-while-existing", "Job reported %s while its only task exists and is alive (pod cache lag)", j.Status.Condition.Finished.Result)
		}
		w.flush()
		for _, p := range w.ownedPods() {
			w.kubelet(p, 1)
		}
		w.flush()
		w.work()
		c.Nontrivial()
	})

	// F15: a task created but not recorded (status update conflict) is still killed with the Job.
	c.RunScenario("f15-orphan-after-kill", func() {
		w := newJobctlSc(c, nil)
		w.flush()
		w.faults = []string{"", sim.FaultConflict} // pod create ok, status update conflicts
		c.Emit("jc.fault -", w.state())
		c.Emit("jc.fault "+sim.FaultConflict, w.state())
		w.work()
		w.setKill(w.clk.Now().Unix() + 2)
		w.flush()
		w.adv(5)
		for i := 0; i < 4; i++ {
			w.work()
			w.flush()
		}
		for _, p := range w.ownedPods() {
			if podAlive(p) && p.DeletionTimestamp == nil {
				c.Violate("C12", "kill-sweeps-all", "kill timestamp passed but task %s (created, never recorded) was not deleted; Job is %s", p.Name, w.apiJob().Status.Phase)
			}
		}
		c.Nontrivial()
	})

	// F11: an admission error on one index stops the tasks of the other indexes.
	c.RunScenario("f11-admission-error-stops-others", func() {
		w := newJobctlSc(c, func(j *execution.Job) { j.Spec.Template.Parallelism = &execution.ParallelismSpec{WithCount: i64p(2)} })
		w.addForeign("job-" + w.indexHashes[1] + "-0")
		w.flush()
		for i := 0; i < 4; i++ {
			w.work()
			w.flush()
		}
		for _, p := range w.ownedPods() {
			if podAlive(p) && p.DeletionTimestamp == nil {
				c.Violate("C10", "decided-then-stopped", "Job ended with %s but its task %s was left running", w.apiJob().Status.Phase, p.Name)
			}
		}
		c.Nontrivial()
	})
}
