package eng

import (
	"fmt"
	"strings"
	"time"

	corev1 "k8s.io/api/core/v1"
	metav1 "k8s.io/apimachinery/pkg/apis/meta/v1"
	"k8s.io/apimachinery/pkg/runtime"
	"k8s.io/apimachinery/pkg/types"
	fakeclock "k8s.io/utils/clock/testing"

	configv1alpha1 "github.com/furiko-io/furiko/apis/config/v1alpha1"
	executiongroup "github.com/furiko-io/furiko/apis/execution"
	execution "github.com/furiko-io/furiko/apis/execution/v1alpha1"
	"github.com/furiko-io/furiko/pkg/execution/util/parallel"
	"github.com/furiko-io/furiko/pkg/utils/ktime"

	"verifharness/sim"
)

// Corpus scenarios of the jobctl engine: minimal replays of defects found with this machinery
// (KNOWN_FINDINGS.jsonl). They run before the generated cases on every check.

func newJobctlSc(c *Ctx, mod func(j *execution.Job)) *jobctlWorld {
	w := &jobctlWorld{c: c, rng: c.Rng, podsCreated: map[string]int64{}, foreign: map[string]bool{}, foreignRec: map[string]bool{}, ownSucceeded: map[string]bool{}}
	w.ctx = sim.NewContext()
	w.clk = fakeclock.NewFakeClock(sim.VirtualBase.Add(5000 * time.Second))
	ktime.Clock = w.clk
	w.api = sim.NewSimAPI(w.clk)
	w.api.Install(w.ctx)
	w.api.Observe = w.monitorCall
	raw := &configv1alpha1.JobExecutionConfig{DefaultTTLSecondsAfterFinished: i64p(3600), DefaultPendingTimeoutSeconds: i64p(900), ForceDeleteTaskTimeoutSeconds: i64p(900)}
	w.ctx.MockConfigs().SetConfigs(map[configv1alpha1.ConfigName]runtime.Object{configv1alpha1.JobExecutionConfigName: raw})
	w.cfg, _ = w.ctx.Configs().Jobs()
	w.boot()
	c.Emit(fmt.Sprintf("jc.reset %d %s %s %s", w.now(), OptI(w.cfg.DefaultPendingTimeoutSeconds), OptI(w.cfg.ForceDeleteTaskTimeoutSeconds), OptI(w.cfg.DefaultTTLSecondsAfterFinished)), "ok")
	j := &execution.Job{ObjectMeta: metav1.ObjectMeta{Namespace: "ns", Name: "job", UID: types.UID("job-uid"), Finalizers: []string{executiongroup.DeleteDependentsFinalizer}}}
	w.jobKey, w.uid = "ns/job", "job-uid"
	tmpl := &execution.JobTemplate{}
	tmpl.TaskTemplate.Pod = &execution.PodTemplateSpec{Spec: corev1.PodSpec{Containers: []corev1.Container{{Name: "c", Image: "i"}}}}
	j.Spec.Template = tmpl
	j.Status.StartTime = ktime.Now()
	if mod != nil {
		mod(j)
	}
	var idx []string
	for _, ix := range parallel.GenerateIndexes(tmpl.Parallelism) {
		h, _ := parallel.HashIndex(ix)
		w.indexHashes = append(w.indexHashes, h)
		idx = append(idx, h)
	}
	par, strategy := "-", "-"
	if tmpl.Parallelism != nil {
		par = strings.Join(idx, ",")
		strategy = orDash(string(tmpl.Parallelism.CompletionStrategy))
	}
	_, _ = w.api.Create("jobs", j, false)
	defHash, _ := parallel.HashIndex(parallel.GetDefaultIndex())
	c.Emit(fmt.Sprintf("jc.job job job-uid %s %s %s %s %s %s %s %s %s %s %s", B(true), OptI(tmpl.MaxAttempts), OptI(tmpl.RetryDelaySeconds),
		OptI(tmpl.TaskPendingTimeoutSeconds), OptI(j.Spec.TTLSecondsAfterFinished), B(tmpl.ForbidTaskForceDeletion), strategy, par, defHash,
		tsec(j.Spec.KillTimestamp), B(true)), w.state())
	w.monitorJobVersion()
	return w
}

func (w *jobctlWorld) deliver(res string) {
	inf := w.ctx.Sim().Jobs()
	if res == "pods" {
		inf = w.ctx.Sim().Pods()
	}
	if w.api.DeliverOne(res, inf) {
		inf.Flush()
	}
	w.c.Emit("jc.deliver "+res, w.state())
}

func (w *jobctlWorld) adv(sec int64) {
	w.clk.Step(time.Duration(sec) * time.Second)
	w.c.Emit(fmt.Sprintf("jc.adv %d", sec*1e9), w.state())
}

func (w *jobctlWorld) addForeign(name string) {
	fp := &corev1.Pod{ObjectMeta: metav1.ObjectMeta{Namespace: "ns", Name: name}}
	_, _ = w.api.Create("pods", fp, false)
	w.foreign[name] = true
	w.c.Emit(fmt.Sprintf("jc.foreign %s 0", name), w.state())
}

func (w *jobctlWorld) setKill(at int64) {
	t := metav1.NewTime(time.Unix(at, 0))
	fin := w.apiJob() != nil && w.apiJob().Status.Condition.Finished != nil
	w.api.Mutate("jobs", w.jobKey, func(o runtime.Object) { o.(*execution.Job).Spec.KillTimestamp = &t })
	w.userEdited = true
	if fin {
		w.resultEdited = true
	}
	w.c.Emit(fmt.Sprintf("jc.kill %d", at), w.state())
	w.monitorJobVersion()
}

func runJobctlScenarios(c *Ctx) {
	defHash, _ := parallel.HashIndex(parallel.GetDefaultIndex())

	// F2: a foreign object on the task's name ends the Job in AdmissionError, not a create loop.
	c.RunScenario("f2-foreign-pod-admission-error", func() {
		w := newJobctlSc(c, nil)
		w.addForeign("job-" + defHash + "-0")
		w.flush()
		creates := 0
		for i := 0; i < 6; i++ {
			w.work()
			for _, cl := range w.api.Calls {
				if cl.Verb == "create" && cl.Resource == "pods" {
					creates++
				}
			}
			w.flush()
		}
		if j := w.apiJob(); j == nil || j.Status.Phase != execution.JobAdmissionError {
			ph := execution.JobPhase("gone")
			if j != nil {
				ph = j.Status.Phase
			}
			c.Violate("C09", "foreign-ends-admission-error", "task name occupied by a foreign pod: Job is %s after 6 syncs (%d create calls), expected AdmissionError", ph, creates)
		}
		c.Nontrivial()
	})

	// F13: a deleting, unfinished Job is written with state Finished together with its finished condition.
	c.RunScenario("f13-deleting-state", func() {
		w := newJobctlSc(c, nil)
		w.flush()
		w.work()
		w.flush()
		w.work()
		_ = w.api.Delete("jobs", w.jobKey, false, false)
		w.userEdited, w.resultEdited = true, true
		c.Emit("jc.delete", w.state())
		w.monitorJobVersion()
		w.flush()
		w.work() // monitorJobVersion judges state-matches-condition on what was written
		c.Nontrivial()
	})

	// F8: the Job's own status update is observed before the Pod's creation event.
	c.RunScenario("f8-pod-cache-lag", func() {
		w := newJobctlSc(c, nil)
		w.flush()
		w.work()          // creates the pod, records it
		w.deliver("jobs") // only the Job's update arrives
		w.work()          // the pod is not in the pod cache
		if j := w.apiJob(); j != nil && j.Status.Condition.Finished != nil {
			c.Violate("C09", "never-lost-while-existing", "Job reported %s while its only task exists and is alive (pod cache lag)", j.Status.Condition.Finished.Result)
		}
		w.flush()
		for _, p := range w.ownedPods() {
			w.kubelet(p, 1)
		}
		w.flush()
		w.work()
		c.Nontrivial()
	})

	// F16: the live GET (F8's repair) can observe a newer version of the Pod than the pod cache
	// serves later; a finished (succeeded) task must not fall back to the stale cached status.
	c.RunScenario("f16-stale-cache-after-live-get", func() {
		w := newJobctlSc(c, func(j *execution.Job) { j.Spec.Template.MaxAttempts = i64p(2) })
		w.flush()
		w.work()          // creates the pod, records it
		w.deliver("jobs") // only the Job's own update arrives; the pod's creation event lags
		k := 0
		for _, p := range w.ownedPods() {
			w.forceKind = &k
			w.kubelet(p, 3) // the pod succeeds
		}
		w.work() // pod not in the cache -> live GET sees Succeeded -> Job Finished/Success
		fin := w.apiJob() != nil && w.apiJob().Status.Condition.Finished != nil
		w.deliver("jobs")
		w.deliver("pods") // the OLD creation event: the cache now holds the pod with an empty phase
		w.work()
		w.deliver("jobs")
		w.work()
		if j := w.apiJob(); fin && j != nil && j.Status.Condition.Finished == nil {
			c.Violate("C11", "finished-stays-finished", "Job was Finished/Success, became %s after the pod cache delivered the pod's stale creation event", j.Status.Phase)
		}
		if n := len(w.ownedPods()); n > 1 {
			c.Violate("C08", "no-create-for-succeeded-index", "%d pods exist for an index whose first task succeeded", n)
		}
		w.flush()
		w.settle(3)
		c.Nontrivial()
	})

	// F17: a task recorded lost (confirmed gone) is not resurrected by the vanished Pod's old events.
	c.RunScenario("f17-lost-task-resurrected", func() {
		w := newJobctlSc(c, nil) // maxAttempts 1
		w.flush()
		w.work()          // creates the pod, records it
		w.deliver("jobs") // the pod's creation event lags
		k := 0
		for _, p := range w.ownedPods() {
			w.forceKind = &k
			w.kubelet(p, 3) // the pod succeeds ...
		}
		for _, p := range w.ownedPods() {
			w.kubelet(p, 6) // ... and its object vanishes; all three events are still undelivered
		}
		w.work() // not in the cache, not on the server: recorded lost, Job Finished/Failed
		var res0 execution.JobResult
		if j := w.apiJob(); j != nil && j.Status.Condition.Finished != nil {
			res0 = j.Status.Condition.Finished.Result
		}
		w.deliver("jobs")
		w.deliver("pods") // add
		w.deliver("pods") // update: Succeeded (the delete event is still queued)
		w.work()
		if j := w.apiJob(); j != nil && res0 != "" && (j.Status.Condition.Finished == nil || j.Status.Condition.Finished.Result != res0) {
			c.Violate("C11", "result-stable", "Job was finished with %s, then rewritten as phase %s after the vanished pod's old events reached the cache", res0, j.Status.Phase)
		}
		w.flush()
		w.settle(3)
		c.Nontrivial()
	})

	// F18: the finalizer is not dropped while a task the pod cache never observed still exists.
	c.RunScenario("f18-finalizer-uncached-finished-task", func() {
		w := newJobctlSc(c, nil)
		w.flush()
		w.work()          // creates the pod, records it
		w.deliver("jobs") // pod events lag from here on
		k := 0
		for _, p := range w.ownedPods() {
			w.forceKind = &k
			w.kubelet(p, 3)
		}
		w.work() // live GET: Succeeded; Job Finished/Success; ref recorded finished
		w.deliver("jobs")
		_ = w.api.Delete("jobs", w.jobKey, false, false)
		w.userEdited, w.resultEdited = true, true
		c.Emit("jc.delete", w.state())
		w.monitorJobVersion()
		w.deliver("jobs")
		w.work() // finalizer pass: the pod is not in the cache
		w.deliver("jobs")
		w.work()
		if w.apiJob() == nil && len(w.ownedPods()) > 0 {
			c.Violate("C13", "job-gone-implies-tasks-gone", "Job removed while %d of its tasks still exist (never seen by the pod cache)", len(w.ownedPods()))
		}
		w.flush()
		w.settle(4)
		c.Nontrivial()
	})

	// F19 (known finding): a sync that reads a STALE Job (its own status update not yet in the
	// Job cache) re-creates a task name that the authoritative status already records, after the
	// first Pod vanished; refs are keyed by name, so the two incarnations are mixed up.
	c.RunScenario("f19-stale-job-cache-recreates-task", func() {
		w := newJobctlSc(c, nil) // maxAttempts 1
		w.flush()
		w.work() // creates job-<h>-0, status v2 written; the Job cache stays at v1 (no refs)
		w.deliver("pods")
		k := 0
		for _, p := range w.ownedPods() {
			w.forceKind = &k
			w.kubelet(p, 3) // Succeeded
		}
		w.deliver("pods")
		for _, p := range w.ownedPods() {
			w.kubelet(p, 6) // the Pod object vanishes (node lost / manual delete)
		}
		w.work() // stale Job v1: the index looks missing -> the same name is created again; status write conflicts
		w.deliver("jobs")
		w.work() // pod cache still holds the first incarnation (Succeeded) -> Job Finished/Success
		w.deliver("pods")
		w.deliver("pods")
		w.deliver("jobs")
		w.work()
		w.flush()
		w.settle(3)
		c.Nontrivial()
	})

	// F25 (known finding, same root cause as F19: the controller keeps no record of a create whose
	// status write failed and whose pod event has not arrived).  Lean witness
	// C12Hist.killed_reopened_witness, same history: the user's kill races a pass that still works
	// from a PRE-KILL copy of the Job.  That pass creates the retry, its status write conflicts with
	// the kill; the next pass (kill seen, creation disabled) finds every RECORDED task finished and
	// writes Finished/Killed while the unrecorded retry is alive and invisible to the pod cache; when
	// its creation event arrives the pass adopts it and the Job is unfinished again (Killing).
	// Outside E-OrphanVisible: the monitors are kept on for this replay.
	c.RunScenario("f25-killed-job-reopened-by-unrecorded-task", func() {
		w := newJobctlSc(c, func(j *execution.Job) { j.Spec.Template.MaxAttempts = i64p(2) })
		w.keepMonitors = true
		w.deliver("jobs")
		w.work() // creates job-<h>-0, records it
		w.deliver("jobs")
		w.deliver("pods")
		two := 2
		for _, p := range w.ownedPods() {
			w.forceKind = &two
			w.kubelet(p, 3) // the first attempt fails
		}
		w.deliver("pods")
		w.work()                      // the failure is recorded; the Job cache lags one version behind
		w.setKill(w.clk.Now().Unix()) // the user kills the Job: the kill timestamp has passed
		w.deliver("jobs")             // the cache catches up with the recorded failure only: no kill timestamp in it
		w.work()                      // pre-kill copy: the retry job-<h>-1 is created; the status write conflicts with the kill
		w.deliver("jobs")             // the kill reaches the cache
		w.work()                      // creation disabled, every recorded ref finished: Finished/Killed; job-<h>-1 alive, unrecorded, not in the pod cache
		fin := w.apiJob() != nil && w.apiJob().Status.Condition.Finished != nil
		alive := 0
		for _, p := range w.ownedPods() {
			if podAlive(p) && p.DeletionTimestamp == nil {
				alive++
			}
		}
		if !fin || alive == 0 {
			c.Violate("C11", "scenario-f25-shape", "the replay did not reach Finished with a live unrecorded task (finished=%v, live tasks=%d)", fin, alive)
		}
		w.deliver("pods") // the retry's creation event
		w.deliver("jobs")
		w.work() // the unrecorded task is adopted and swept: the Job is un-finished (Killing)
		w.flush()
		w.settle(4)
		w.runTimersOut()
		w.finalMonitors()
		c.Nontrivial()
	})

	// F25, second history (Lean witness C10Hist.finished_with_unrecorded_live_task_witness; inside the
	// envelope of the stability theorems: one write fault and pod-informer lag, no user action):
	// AnySuccessful over two indexes.  The retry of the failed index is created while its status write
	// conflicts; the other index's Succeeded event reaches the pod cache before the retry's creation
	// event: the pass finds the strategy satisfied and nothing RECORDED alive, and writes
	// Finished/Success while the retry runs.  (f23 is the same history with every event delivered
	// before that pass: the retry is then adopted and stopped first.)
	c.RunScenario("f25-finished-with-unrecorded-live-task", func() {
		w := newJobctlSc(c, func(j *execution.Job) {
			j.Spec.Template.MaxAttempts = i64p(2)
			j.Spec.Template.Parallelism = &execution.ParallelismSpec{WithCount: i64p(2), CompletionStrategy: execution.AnySuccessful}
		})
		w.keepMonitors = true
		w.deliver("jobs")
		w.work() // creates index 0 and index 1, records both
		w.deliver("jobs")
		w.deliver("pods")
		w.deliver("pods")
		pods := w.ownedPods()
		if len(pods) != 2 {
			return
		}
		two, zero := 2, 0
		w.forceKind = &two
		w.kubelet(pods[0], 3) // the first index fails
		w.deliver("pods")
		w.work() // records the failure
		w.deliver("jobs")
		w.forceKind = &zero
		w.kubelet(pods[1], 3)                      // the other index succeeds; the event is not delivered yet
		w.faults = []string{"", sim.FaultConflict} // retry pod create ok, status update conflicts
		c.Emit("jc.fault -", w.state())
		c.Emit("jc.fault "+sim.FaultConflict, w.state())
		w.work()          // creates the retry of the first index; it stays unrecorded, its event undelivered
		w.deliver("pods") // the Succeeded event of the other index (queued before the retry's creation event)
		w.work()          // AnySuccessful satisfied, no recorded task alive: Finished/Success while the retry runs
		w.flush()
		w.settle(4)
		w.runTimersOut()
		w.finalMonitors()
		c.Nontrivial()
	})

	// F21: once creation is disabled (kill timestamp), unrecorded tasks are adopted from the pod
	// cache; a stale cached copy of a RECORDED task that is gone (force-deleted) must not be.
	c.RunScenario("f21-stale-copy-adopted-after-kill", func() {
		w := newJobctlSc(c, nil)
		w.kubeletDead = true
		w.flush()
		w.work()          // creates the pod, records it
		w.deliver("jobs") // pod events lag from here on
		w.setKill(w.clk.Now().Unix() + 2)
		w.deliver("jobs")
		w.adv(5)
		w.work() // kill sweep: graceful delete (the pod is found by the live GET), marked Killed
		w.deliver("jobs")
		w.adv(901)
		w.work() // force delete: the pod is gone, ref finished Killed/ForceDeleted
		w.deliver("jobs")
		w.work()
		w.deliver("pods") // the pod's creation event arrives only now: a stale, unfinished copy
		w.work()
		w.deliver("jobs")
		w.work()
		w.flush()
		w.settle(3)
		c.Nontrivial()
	})

	// F22: task refs are keyed by name; a foreign Pod that takes the name of a recorded task after
	// that task's Pod vanished must not be read as the task (the lookups check the controller owner
	// reference): the task is lost, the Job does not succeed through the foreign Pod, and the foreign
	// Pod is never deleted by the Job.
	c.RunScenario("f22-foreign-pod-takes-recorded-name", func() {
		w := newJobctlSc(c, nil)
		w.flush()
		w.work() // creates and records job-<h>-0
		w.flush()
		name := ""
		for _, p := range w.ownedPods() {
			name = p.Name
			w.kubelet(p, 6) // the Pod object vanishes
		}
		fp := &corev1.Pod{ObjectMeta: metav1.ObjectMeta{Namespace: "ns", Name: name}}
		_, _ = w.api.Create("pods", fp, false)
		w.foreign[name], w.foreignRec[name] = true, true
		c.Emit(fmt.Sprintf("jc.foreign %s 0", name), w.state())
		w.api.Mutate("pods", "ns/"+name, func(o runtime.Object) { o.(*corev1.Pod).Status.Phase = corev1.PodSucceeded })
		c.Emit(fmt.Sprintf("jc.pod %s %s", name, podDigest(w.apiPod(name))), w.state())
		w.flush()
		w.work()
		w.flush()
		w.settle(2)
		w.finalMonitors()
		c.Nontrivial()
	})

	// F22b (regression guard of the repair of F22): a cached object of the ref's name that is not
	// controlled by the Job must be treated as a cache MISS (live GET for an unfinished ref), not as
	// "task absent".  A foreign Pod that has already been removed from the server, but whose deletion
	// has not reached the pod cache yet, must not hide the Job's own live task of that name (a first
	// form of the repair recorded that task lost while its Pod existed).
	c.RunScenario("f22b-stale-foreign-cache-hides-own-task", func() {
		w := newJobctlSc(c, nil) // maxAttempts 1
		name := "job-" + defHash + "-0"
		w.addForeign(name)
		w.deliver("pods") // the pod cache holds the foreign pod
		w.api.Remove("pods", "ns/"+name)
		c.Emit(fmt.Sprintf("jc.pod %s gone", name), w.state()) // gone from the server; the delete event lags
		w.deliver("jobs")
		w.work() // the name is free: the Job's own pod is created and recorded
		w.deliver("jobs")
		w.work() // stale foreign object in the pod cache: a cache miss, the live GET finds the own pod
		w.flush()
		w.settle(3)
		c.Nontrivial()
	})

	// F23: a retry task that was created but not recorded must still be found (and stopped) when
	// the Job becomes complete through another index.
	c.RunScenario("f23-unrecorded-task-when-complete", func() {
		w := newJobctlSc(c, func(j *execution.Job) {
			j.Spec.Template.MaxAttempts = i64p(2)
			j.Spec.Template.Parallelism = &execution.ParallelismSpec{WithCount: i64p(2), CompletionStrategy: execution.AnySuccessful}
		})
		w.flush()
		w.work() // creates index 0 and index 1, records both
		w.flush()
		pods := w.ownedPods()
		if len(pods) != 2 {
			return
		}
		two, zero := 2, 0
		w.forceKind = &two
		w.kubelet(pods[0], 3) // first index fails
		w.flush()
		w.work() // records the failure
		w.flush()
		w.faults = []string{"", sim.FaultConflict} // retry pod create ok, status update conflicts
		c.Emit("jc.fault -", w.state())
		c.Emit("jc.fault "+sim.FaultConflict, w.state())
		w.work() // creates the retry of the first index; it stays unrecorded
		w.forceKind = &zero
		w.kubelet(pods[1], 3) // the other index succeeds: AnySuccessful is decided
		w.flush()
		for i := 0; i < 4; i++ {
			w.work()
			w.flush()
		}
		w.settle(4)
		w.runTimersOut()
		w.finalMonitors()
		c.Nontrivial()
	})

	// F15: a task created but not recorded (status update conflict) is still killed with the Job.
	c.RunScenario("f15-orphan-after-kill", func() {
		w := newJobctlSc(c, nil)
		w.flush()
		w.faults = []string{"", sim.FaultConflict} // pod create ok, status update conflicts
		c.Emit("jc.fault -", w.state())
		c.Emit("jc.fault "+sim.FaultConflict, w.state())
		w.work()
		w.setKill(w.clk.Now().Unix() + 2)
		w.flush()
		w.adv(5)
		for i := 0; i < 4; i++ {
			w.work()
			w.flush()
		}
		for _, p := range w.ownedPods() {
			if podAlive(p) && p.DeletionTimestamp == nil {
				c.Violate("C12", "kill-sweeps-all", "kill timestamp passed but task %s (created, never recorded) was not deleted; Job is %s", p.Name, w.apiJob().Status.Phase)
			}
		}
		c.Nontrivial()
	})

	// F11: an admission error on one index stops the tasks of the other indexes.
	c.RunScenario("f11-admission-error-stops-others", func() {
		w := newJobctlSc(c, func(j *execution.Job) { j.Spec.Template.Parallelism = &execution.ParallelismSpec{WithCount: i64p(2)} })
		w.addForeign("job-" + w.indexHashes[1] + "-0")
		w.flush()
		for i := 0; i < 4; i++ {
			w.work()
			w.flush()
		}
		for _, p := range w.ownedPods() {
			if podAlive(p) && p.DeletionTimestamp == nil {
				c.Violate("C10", "decided-then-stopped", "Job ended with %s but its task %s was left running", w.apiJob().Status.Phase, p.Name)
			}
		}
		c.Nontrivial()
	})

	// F5: a kill timestamp in the future arms a timer for it: the tasks are killed when it passes,
	// without waiting for an unrelated event or the informers' periodic resync.
	c.RunScenario("f5-future-kill-timer", func() {
		w := newJobctlSc(c, nil)
		w.flush()
		w.work() // creates the pod, records it
		w.flush()
		for _, p := range w.ownedPods() {
			w.kubelet(p, 1) // the task runs
		}
		w.flush()
		w.work()
		w.setKill(w.clk.Now().Unix() + 100)
		w.drain() // the sync that sees the future kill timestamp; then nothing is left to do
		if w.q.Len() != 0 {
			c.Violate("C12", "scenario-queue-drained", "the queue still holds %d ready keys", w.q.Len())
		}
		w.adv(101) // past the kill timestamp, far before any other deadline (pending timeout 900 s)
		for i := 0; i < 3; i++ {
			w.work() // due timers fire; NO resync
			w.flush()
		}
		for _, p := range w.ownedPods() {
			if podAlive(p) && p.DeletionTimestamp == nil {
				c.Violate("C12", "kill-eventually", "the kill timestamp passed 1 s ago, every event is delivered and the queue is idle, but task %s was not deleted (no re-sync was scheduled for the kill timestamp); Job is %s",
					p.Name, w.apiJob().Status.Phase)
			}
		}
		w.flush()
		w.settle(4)
		w.finalMonitors()
		c.Nontrivial()
	})

	// F6: the TTL after finish that comes from the dynamic config's default also arms a timer: the
	// finished Job is removed when it expires, without waiting for the periodic resync.
	c.RunScenario("f6-config-default-ttl-timer", func() {
		// no job-level TTL (config default: 3600 s); pending timeout off, so that no other timer is armed
		w := newJobctlSc(c, func(j *execution.Job) { j.Spec.Template.TaskPendingTimeoutSeconds = i64p(0) })
		w.flush()
		w.work() // creates the pod, records it
		w.flush()
		k := 0
		for _, p := range w.ownedPods() {
			w.forceKind = &k
			w.kubelet(p, 3) // the task succeeds
		}
		w.drain() // Job Finished/Success; then nothing is left to do
		if j := w.apiJob(); j == nil || j.Status.Condition.Finished == nil || w.q.Len() != 0 {
			c.Violate("C13", "scenario-job-finished", "the Job did not finish or the queue is not drained")
		}
		w.adv(3601)
		for i := 0; i < 3; i++ {
			w.work() // due timers fire; NO resync
			w.flush()
		}
		if j := w.apiJob(); j != nil && j.DeletionTimestamp == nil {
			c.Violate("C13", "ttl-eventually", "the Job finished 3601 s ago, the effective TTL (config default) is 3600 s, every event is delivered and the queue is idle, but the Job was not deleted (no re-sync was scheduled for the expiry)")
		}
		w.flush()
		w.settle(4)
		c.Nontrivial()
	})

	// F-C20-1: a task that was created but not recorded (the status update after the create
	// failed) is deleted by the finalizer too when the Job is deleted before the retry, and the
	// finalizer stays until that task is gone.
	c.RunScenario("f-c20-1-unrecorded-task-on-delete", func() {
		w := newJobctlSc(c, nil)
		w.flush()
		w.faults = []string{"", sim.FaultConflict} // pod create ok, status update conflicts
		c.Emit("jc.fault -", w.state())
		c.Emit("jc.fault "+sim.FaultConflict, w.state())
		w.work()
		w.deliver("pods") // the pod cache sees the created pod; the status does not list it
		_ = w.api.Delete("jobs", w.jobKey, false, false)
		w.userEdited, w.resultEdited = true, true
		c.Emit("jc.delete", w.state())
		w.monitorJobVersion()
		w.flush()
		judge := func(when string) {
			if w.apiJob() == nil && len(w.ownedPods()) > 0 {
				c.Violate("C13", "job-gone-implies-tasks-gone", "%s: Job removed (finalizer dropped) while %d of its tasks, created but never recorded, still exist", when, len(w.ownedPods()))
			}
		}
		w.work() // finalizer pass
		judge("finalizer pass")
		for _, p := range w.ownedPods() {
			if w.apiJob() != nil && p.DeletionTimestamp == nil {
				c.Violate("C13", "job-gone-implies-tasks-gone", "finalizer pass left the unrecorded task %s undeleted", p.Name)
			}
		}
		w.flush()
		w.work() // the pod is terminating: the finalizer must stay
		judge("second pass")
		w.flush()
		for _, p := range w.ownedPods() {
			w.kubelet(p, 0) // the kubelet finishes terminating it
		}
		w.flush()
		w.work()
		w.flush()
		w.settle(4)
		judge("at quiescence")
		if w.apiJob() != nil {
			c.Violate("C13", "delete-completes", "all tasks are gone but the Job still exists at quiescence")
		}
		c.Nontrivial()
	})

	// Correspondence regression (no defect of the code): the delete batches of one sync
	// (pending-timeout, kill sweep, force delete) are SEQUENTIAL; only the deletes inside one
	// batch race.  The watch events of the kill batch therefore precede those of the
	// force-delete batch, whatever the names are.
	c.RunScenario("delete-batches-sequential", func() {
		w := newJobctlSc(c, func(j *execution.Job) { j.Spec.Template.Parallelism = &execution.ParallelismSpec{WithCount: i64p(2)} })
		w.kubeletDead = true
		w.flush()
		w.work() // creates both pods
		w.flush()
		ps := w.ownedPods() // sorted by key: ps[0] < ps[1]
		if len(ps) != 2 {
			return
		}
		w.kubelet(ps[1], 1) // the LATER name runs; the earlier one stays pending
		w.flush()
		w.work()
		w.flush()
		w.adv(901)
		w.work() // pending timeout: graceful delete of ps[0] (dead kubelet: it stays Terminating)
		w.flush()
		w.adv(901)
		w.setKill(w.clk.Now().Unix())
		w.flush()
		w.work()          // kill batch: graceful delete of ps[1]; THEN force batch: ps[0]
		w.deliver("pods") // the first of the two events: ps[1] (update), not ps[0] (delete)
		w.work()
		w.flush()
		w.settle(3)
		c.Nontrivial()
	})
}
