package eng

import (
	"context"
	"fmt"
	"os"
	"os/exec"
	"strings"
	"time"

	"github.com/furiko-io/cronexpr"
	corev1 "k8s.io/api/core/v1"
	metav1 "k8s.io/apimachinery/pkg/apis/meta/v1"
	"k8s.io/apimachinery/pkg/types"

	configv1alpha1 "github.com/furiko-io/furiko/apis/config/v1alpha1"
	execution "github.com/furiko-io/furiko/apis/execution/v1alpha1"
	"github.com/furiko-io/furiko/pkg/execution/util/jobconfig"
)

// Hand-written corpus scenarios of the validate engine (C17).  They run before the generated cases
// on every check, through the same op-line protocol (so the Lean model must predict every output),
// and carry expectations owned by the harness (monitor `scenario-expectation`).
//
//   f-c17-1-hash-dependent-parse   FIXED finding F-C17-1 (commit d9dad79), regression replay: the validator
//                                  parsed with hash id "" only, the scheduler parses with the namespaced
//                                  name, and cronexpr's verdict on `H/n` (fields whose minimum is 1) and
//                                  `H(a-b)/n` depends on the id; the validator now re-parses with the name.
//                                  What remains: an object admitted with generateName (empty name)
//   f-c17-2-default-timezone       KNOWN FINDING F-C17-2: a JobConfig without timezone is accepted while
//                                  the dynamic configuration's defaultTimezone does not parse
//   f-c17-3-hash-range-wraparound  KNOWN FINDING F-C17-3: `H(a-b)` with a > b parses, materialises a value
//                                  outside the field's range, and for a month <= 0 cronexpr's Next never
//                                  returns: the real cronschedule.New hangs on an accepted JobConfig (run in
//                                  a child process that is killed after a few seconds)

func valDefaultConfigs() (*configv1alpha1.CronExecutionConfig, *configv1alpha1.JobExecutionConfig, *configv1alpha1.JobConfigExecutionConfig) {
	t, f := true, false
	tz := "UTC"
	return &configv1alpha1.CronExecutionConfig{CronFormat: "standard", CronHashNames: &t, CronHashSecondsByDefault: &f, CronHashFields: &t, DefaultTimezone: &tz},
		&configv1alpha1.JobExecutionConfig{DefaultTTLSecondsAfterFinished: i64(3600), DefaultPendingTimeoutSeconds: i64(900)},
		&configv1alpha1.JobConfigExecutionConfig{MaxEnqueuedJobs: i64(20)}
}

var valScenarioNow = time.Date(2024, 5, 6, 7, 8, 9, 0, time.UTC)

func scWorld(c *Ctx, now time.Time, edit func(cr *configv1alpha1.CronExecutionConfig)) *valWorld {
	cr, jobs, jcs := valDefaultConfigs()
	tzOK := true
	if edit != nil {
		edit(cr)
	}
	if cr.DefaultTimezone != nil {
		for _, z := range valDefaultTZs {
			if z.s == *cr.DefaultTimezone {
				tzOK = z.ok
			}
		}
	}
	return newValWorld(c, c.Rng, cr, jobs, jcs, tzOK, now)
}

func baseJC(ns, name string) *execution.JobConfig {
	return &execution.JobConfig{
		TypeMeta:   metav1.TypeMeta{APIVersion: execution.GroupVersion.String(), Kind: execution.KindJobConfig},
		ObjectMeta: metav1.ObjectMeta{Namespace: ns, Name: name, UID: types.UID("uid-" + name)},
		Spec: execution.JobConfigSpec{
			Template: execution.JobTemplateSpec{Spec: execution.JobTemplate{
				TaskTemplate: execution.TaskTemplate{Pod: podVariants[0].build()},
			}},
			Concurrency: execution.ConcurrencySpec{Policy: execution.ConcurrencyPolicyForbid},
			Schedule:    &execution.ScheduleSpec{Cron: &execution.CronSchedule{Expression: "0 * * * *"}},
		},
	}
}

func baseJob(name string) *execution.Job {
	return &execution.Job{
		TypeMeta:   metav1.TypeMeta{APIVersion: execution.GroupVersion.String(), Kind: execution.KindJob},
		ObjectMeta: metav1.ObjectMeta{Namespace: "default", Name: name, UID: types.UID("juid-" + name)},
		Spec: execution.JobSpec{
			Type: execution.JobTypeAdhoc,
			Template: &execution.JobTemplate{
				TaskTemplate: execution.TaskTemplate{Pod: podVariants[1].build()},
				MaxAttempts:  i64(2),
			},
			StartPolicy: &execution.StartPolicySpec{ConcurrencyPolicy: execution.ConcurrencyPolicyEnqueue},
		},
	}
}

const f3Inner = "f-c17-3-inner-does-not-return"

func f3JobConfig() *execution.JobConfig {
	jc := baseJC("default", "a")
	jc.Spec.Schedule.Cron.Expression = "0 0 1 H(11-2) *"
	return jc
}

func (w *valWorld) expect(what, got, want string) {
	if want != "" && got != want {
		w.c.Violate("C17", "scenario-expectation", "%s: implementation answered %q, expected %q", what, got, want)
	}
}

func runValidateScenarios(c *Ctx) {
	c.RunScenario("basic-accept", func() {
		w := scWorld(c, valScenarioNow, nil)
		_, out := w.admitJC(baseJC("default", "hourly"), false)
		w.expect("create", out, "ok")
		_, out = w.admitJC(baseJC("default", "hourly"), true)
		w.expect("update", out, "ok")
		jc := baseJC("prod", "multi")
		jc.Spec.Schedule.Cron = &execution.CronSchedule{Expressions: []string{"H H * * *", "*/5 * * * * * *", "@daily"}, Timezone: "Asia/Singapore"}
		jc.Spec.Template.Spec.Parallelism = &execution.ParallelismSpec{WithCount: i64(3), CompletionStrategy: execution.AllSuccessful}
		jc.Spec.Option = &execution.OptionSpec{Options: []execution.Option{
			{Type: execution.OptionTypeString, Name: "who", Required: true},
			{Type: execution.OptionTypeBool, Name: "flag", Bool: &execution.BoolOptionConfig{Format: execution.BoolOptionFormatTrueFalse}},
			{Type: execution.OptionTypeSelect, Name: "env", Required: true, Select: &execution.SelectOptionConfig{Values: []string{"a", "b"}}},
		}}
		_, out = w.admitJC(jc, false)
		w.expect("multi", out, "ok")
		w.monitorLoadable(w.accepted)
		c.Nontrivial()
	})

	c.RunScenario("cron-and-timezone-shapes", func() {
		for _, format := range []string{"standard", "quartz"} {
			w := scWorld(c, valScenarioNow, func(cr *configv1alpha1.CronExecutionConfig) { cr.CronFormat = format })
			type row struct{ expr, tz, want string }
			const exprPath, tzPath = "rej spec.schedule.cron.expression:I", "rej spec.schedule.cron.timezone:I"
			rows := []row{
				{"0 * * * *", "", "ok"}, {"H H * * *", "Asia/Singapore", "ok"}, {"* * * * * * *", "UTC+8", "ok"},
				{"H/10 H(0-5) * * * *", "UTC-7:30", "ok"}, {"@daily", "GMT", "ok"}, {"0 0 L * *", "GMT+5", "ok"},
				{"0 0 15W * *", "UTC+08:00", "ok"}, {"0 0 * * *", "UTC+0800", "ok"}, {"0 0 * * *", "Local", "ok"},
				{"bad", "", exprPath}, {"* * * *", "", exprPath}, {"61 * * * *", "", exprPath}, {"0 0 0 * *", "", exprPath},
				{"0 * * * *", "Mars/Olympus", tzPath}, {"0 * * * *", "UTC+", tzPath}, {"0 * * * *", "utc+8", tzPath},
				{"0 * * * *", "UTC+25", ""}, {"0 * * * *", "EST", ""}, {"0 0 ? * 1", "", ""}, {"0 0 * * 7", "", ""}, {"0 0 * * 0", "", ""},
				{"0 0 12 ? * 2", "", ""}, {"* * * * * * * *", "", ""}, {"H H H H H H H", "", ""}, {"bad", "Mars/Olympus", "rej spec.schedule.cron.expression:I,spec.schedule.cron.timezone:I"},
			}
			for i, r := range rows {
				jc := baseJC("default", fmt.Sprintf("shape-%d", i))
				jc.Spec.Schedule.Cron = &execution.CronSchedule{Expression: r.expr, Timezone: r.tz}
				_, out := w.admitJC(jc, false)
				w.expect(fmt.Sprintf("%s %q %q", format, r.expr, r.tz), out, r.want)
			}
			// expression + expressions, neither, schedule without type
			jc := baseJC("default", "both")
			jc.Spec.Schedule.Cron = &execution.CronSchedule{Expression: "0 * * * *", Expressions: []string{"5 * * * *", "nope"}}
			_, out := w.admitJC(jc, false)
			w.expect("both fields", out, "rej spec.schedule.cron.expressions[1]:I,spec.schedule.cron:M")
			jc = baseJC("default", "neither")
			jc.Spec.Schedule.Cron = &execution.CronSchedule{Timezone: "UTC"}
			_, out = w.admitJC(jc, false)
			w.expect("no expression", out, "rej spec.schedule.cron:R")
			jc = baseJC("default", "notype")
			jc.Spec.Schedule = &execution.ScheduleSpec{Disabled: true}
			_, out = w.admitJC(jc, false)
			w.expect("no schedule type", out, "rej spec.schedule:R")
			jc = baseJC("default", "noschedule")
			jc.Spec.Schedule = nil
			_, out = w.admitJC(jc, false)
			w.expect("no schedule", out, "ok")
			w.monitorLoadable(w.accepted)
		}
		c.Nontrivial()
	})

	c.RunScenario("numeric-bounds", func() {
		w := scWorld(c, valScenarioNow, nil)
		const tp = "spec.template.spec."
		try := func(what, want string, edit func(jc *execution.JobConfig)) {
			jc := baseJC("default", "bounds")
			edit(jc)
			_, out := w.admitJC(jc, false)
			w.expect(what, out, want)
		}
		for _, r := range []struct {
			v    int64
			want string
		}{{0, "rej " + tp + "maxAttempts:I"}, {-3, "rej " + tp + "maxAttempts:I"}, {1, "ok"}, {50, "ok"}, {51, "rej " + tp + "maxAttempts:I"}} {
			r := r
			try(fmt.Sprint("maxAttempts ", r.v), r.want, func(jc *execution.JobConfig) { jc.Spec.Template.Spec.MaxAttempts = i64(r.v) })
		}
		for _, r := range []struct {
			v    int64
			want string
		}{{-1, "rej " + tp + "retryDelaySeconds:I"}, {0, "ok"}, {1, "ok"}} {
			r := r
			try(fmt.Sprint("retryDelay ", r.v), r.want, func(jc *execution.JobConfig) { jc.Spec.Template.Spec.RetryDelaySeconds = i64(r.v) })
		}
		for _, r := range []struct {
			v    int64
			want string
		}{{-1, "rej " + tp + "taskPendingTimeoutSeconds:I"}, {0, "ok"}} {
			r := r
			try(fmt.Sprint("pendingTimeout ", r.v), r.want, func(jc *execution.JobConfig) { jc.Spec.Template.Spec.TaskPendingTimeoutSeconds = i64(r.v) })
		}
		for _, r := range []struct {
			v    int64
			want string
		}{{0, "rej spec.concurrency.maxConcurrency:I"}, {-1, "rej spec.concurrency.maxConcurrency:I"}, {1, "ok"}, {7, "ok"}} {
			r := r
			try(fmt.Sprint("maxConcurrency ", r.v), r.want, func(jc *execution.JobConfig) { jc.Spec.Concurrency.MaxConcurrency = i64(r.v) })
		}
		try("maxConcurrency with Allow", "rej spec.concurrency.maxConcurrency:F", func(jc *execution.JobConfig) {
			jc.Spec.Concurrency = execution.ConcurrencySpec{Policy: execution.ConcurrencyPolicyAllow, MaxConcurrency: i64(2)}
		})
		try("policy empty", "rej spec.concurrency.policy:R", func(jc *execution.JobConfig) { jc.Spec.Concurrency.Policy = "" })
		try("policy unknown", "rej spec.concurrency.policy:N", func(jc *execution.JobConfig) { jc.Spec.Concurrency.Policy = "Replace" })
		try("name 49", "ok", func(jc *execution.JobConfig) { jc.Name = strings.Repeat("a", 49) })
		try("name 50", "rej metadata.name:I", func(jc *execution.JobConfig) { jc.Name = strings.Repeat("a", 50) })
		try("no pod", "rej "+tp+"taskTemplate:R", func(jc *execution.JobConfig) { jc.Spec.Template.Spec.TaskTemplate.Pod = nil })
		try("restart always", "rej "+tp+"taskTemplate.pod.spec.restartPolicy:I", func(jc *execution.JobConfig) {
			jc.Spec.Template.Spec.TaskTemplate.Pod.Spec.RestartPolicy = corev1.RestartPolicyAlways
		})
		try("k8s invalid pod", "rej "+tp+"taskTemplate.pod:K", func(jc *execution.JobConfig) {
			jc.Spec.Template.Spec.TaskTemplate.Pod = &execution.PodTemplateSpec{}
		})
		try("withCount 70 (index hash collision, C14)", "rej "+tp+"parallelism:I", func(jc *execution.JobConfig) {
			jc.Spec.Template.Spec.Parallelism = &execution.ParallelismSpec{WithCount: i64(70), CompletionStrategy: execution.AllSuccessful}
		})
		try("withCount 0", "rej "+tp+"parallelism:I", func(jc *execution.JobConfig) {
			jc.Spec.Template.Spec.Parallelism = &execution.ParallelismSpec{WithCount: i64(0), CompletionStrategy: execution.AllSuccessful}
		})
		try("bool option required + bad format", "rej spec.option.options[0]:O,spec.option.options[0]:O", func(jc *execution.JobConfig) {
			jc.Spec.Option = &execution.OptionSpec{Options: []execution.Option{{Type: execution.OptionTypeBool, Name: "b", Required: true, Bool: &execution.BoolOptionConfig{Format: "Maybe"}}}}
		})
		try("duplicate option name", "rej spec.option.options[1]:O", func(jc *execution.JobConfig) {
			jc.Spec.Option = &execution.OptionSpec{Options: []execution.Option{{Type: execution.OptionTypeString, Name: "a"}, {Type: execution.OptionTypeString, Name: "a"}}}
		})
		// Job name limit
		j := baseJob(strings.Repeat("j", 60))
		w.expect("job name 60", w.admitJobCreate(j), "ok")
		j = baseJob(strings.Repeat("j", 61))
		w.expect("job name 61", w.admitJobCreate(j), "rej metadata.name:I")
		j = baseJob("ttl")
		j.Spec.TTLSecondsAfterFinished = i64(-1)
		w.expect("ttl -1", w.admitJobCreate(j), "rej spec.ttlSecondsAfterFinished:I")
		j = baseJob("type")
		j.Spec.Type = ""
		w.expect("type empty", w.admitJobCreate(j), "rej spec.type:R")
		j.Spec.Type = "Manual"
		w.expect("type unknown", w.admitJobCreate(j), "rej spec.type:N")
		j = baseJob("notemplate")
		j.Spec.Template = nil
		w.expect("no template", w.admitJobCreate(j), "rej spec.template:R")
		w.mutJob(j)
		w.mutJob(baseJob("mut"))
		c.Nontrivial()
	})

	c.RunScenario("job-create-owner", func() {
		w := scWorld(c, valScenarioNow, nil)
		owner := baseJC("default", "owner")
		owner.Spec.Concurrency.MaxConcurrency = i64(2)
		owner.Status.Active = 1
		w.ctx.Sim().JobConfigs().CacheSet(owner)
		full := baseJC("default", "full")
		full.Status.Active, full.Status.Queued = 1, 20
		w.ctx.Sim().JobConfigs().CacheSet(full)
		tr := true
		owned := func(name string, o *execution.JobConfig) *execution.Job {
			j := baseJob(name)
			j.OwnerReferences = []metav1.OwnerReference{{APIVersion: execution.GroupVersion.String(), Kind: execution.KindJobConfig, Name: o.Name, UID: o.UID, Controller: &tr}}
			j.Labels = map[string]string{jobconfig.LabelKeyJobConfigUID: string(o.UID)}
			return j
		}
		j := owned("a", owner)
		j.Spec.StartPolicy.ConcurrencyPolicy = execution.ConcurrencyPolicyForbid
		w.expect("forbid, 1 active of 2", w.admitJobCreate(j), "ok")
		j = owned("b", full)
		j.Spec.StartPolicy.ConcurrencyPolicy = execution.ConcurrencyPolicyForbid
		w.expect("forbid, 1 active of 1, queue full", w.admitJobCreate(j), "rej spec.startPolicy.concurrencyPolicy:F,spec.startPolicy:F")
		j = owned("c", full)
		w.expect("enqueue, queue full", w.admitJobCreate(j), "rej spec.startPolicy:F")
		j = owned("d", owner)
		j.OwnerReferences[0].Name = "missing"
		w.expect("owner missing", w.admitJobCreate(j), "rej metadata.ownerReferences[0]:NF")
		j = owned("e", owner)
		j.OwnerReferences[0].UID = "stale"
		w.expect("owner uid mismatch", w.admitJobCreate(j), "rej metadata.ownerReferences[0][uid]:D")
		j = owned("f", owner)
		delete(j.Labels, jobconfig.LabelKeyJobConfigUID)
		w.expect("label missing", w.admitJobCreate(j), "rej metadata.labels[execution.furiko.io/job-config-uid]:R")
		j = owned("g", owner)
		fl := false
		j.OwnerReferences = append([]metav1.OwnerReference{{APIVersion: "v1", Kind: "Pod", Name: "p", UID: "u", Controller: &fl}}, j.OwnerReferences...)
		j.OwnerReferences[1].Name = "missing"
		w.expect("owner is the second reference", w.admitJobCreate(j), "rej metadata.ownerReferences[1]:NF")
		c.Nontrivial()
	})

	c.RunScenario("update-each-immutable-field", func() {
		w := scWorld(c, valScenarioNow, nil)
		paths := map[string]string{
			"taskTemplate": "spec.template.taskTemplate:I", "taskTemplate.meta": "spec.template.taskTemplate:I",
			"parallelism": "spec.template.parallelism:I", "maxAttempts": "spec.template.maxAttempts:I",
			"retryDelaySeconds": "spec.template.retryDelaySeconds:I", "type": "spec.type:I", "optionValues": "spec.optionValues:I",
			"substitutions": "spec.substitutions:I", "configName": "spec.configName:I",
			"uidLabel": "metadata.labels[execution.furiko.io/job-config-uid]:I",
		}
		for _, started := range []bool{false, true} {
			for _, mu := range jobMuts {
				old := baseJob("upd")
				old.Spec.Template.Parallelism = &execution.ParallelismSpec{WithCount: i64(2), CompletionStrategy: execution.AllSuccessful}
				old.Spec.KillTimestamp = mt(w.now.Unix() - 10)
				if started {
					old.Status.StartTime = mt(w.now.Unix() - 20)
				}
				nw := old.DeepCopy()
				mu.f(w, nw)
				want := "ok"
				if p, ok := paths[mu.name]; ok {
					want = "rej " + p
				}
				if mu.name == "startPolicy" && started {
					want = "rej spec.startPolicy:I"
				}
				if mu.name == "killTimestamp" {
					want = "rej spec.killTimestamp:I"
				}
				w.expect(fmt.Sprintf("started=%v change %s", started, mu.name), w.admitJobUpdate(old, nw), want)
			}
		}
		// several fields at once
		old := baseJob("multi")
		old.Status.StartTime = mt(w.now.Unix() - 20)
		nw := old.DeepCopy()
		nw.Spec.Type = execution.JobTypeScheduled
		nw.Spec.OptionValues = `{"x":1}`
		nw.Spec.Template.MaxAttempts = i64(9)
		nw.Spec.StartPolicy = nil
		w.expect("four fields", w.admitJobUpdate(old, nw), "rej spec.optionValues:I,spec.startPolicy:I,spec.template.maxAttempts:I,spec.type:I")
		// nil vs empty map is not a change
		old = baseJob("nilmap")
		nw = old.DeepCopy()
		nw.Spec.Substitutions = map[string]string{}
		w.expect("nil vs empty substitutions", w.admitJobUpdate(old, nw), "ok")
		c.Nontrivial()
	})

	c.RunScenario("kill-timestamp-boundary", func() {
		T := valScenarioNow.Unix()
		for _, r := range []struct {
			nowNs int64
			old   int64
			want  string
		}{
			{0, T - 1, "rej spec.killTimestamp:I"}, // passed
			{0, T, "ok"},                           // equal to the clock: not yet "passed" for the validator (boundary noted in DESIGN §6/C17)
			{1, T, "rej spec.killTimestamp:I"},     // one nanosecond later
			{999999999, T, "rej spec.killTimestamp:I"},
			{0, T + 1, "ok"}, // future
			{999999999, T + 1, "ok"},
		} {
			w := scWorld(c, time.Unix(T, r.nowNs).UTC(), nil)
			old := baseJob("kill")
			old.Spec.KillTimestamp = mt(r.old)
			for _, change := range []string{"later", "earlier", "unset"} {
				nw := old.DeepCopy()
				switch change {
				case "later":
					nw.Spec.KillTimestamp = mt(r.old + 3600)
				case "earlier":
					nw.Spec.KillTimestamp = mt(r.old - 3600)
				default:
					nw.Spec.KillTimestamp = nil
				}
				w.expect(fmt.Sprintf("now=T+%dns old=T%+d %s", r.nowNs, r.old-T, change), w.admitJobUpdate(old, nw), r.want)
			}
			same := old.DeepCopy()
			w.expect("unchanged", w.admitJobUpdate(old, same), "ok")
			// setting it for the first time is always allowed
			fresh := baseJob("fresh")
			set := fresh.DeepCopy()
			set.Spec.KillTimestamp = mt(T - 100)
			w.expect("first set, in the past", w.admitJobUpdate(fresh, set), "ok")
		}
		c.Nontrivial()
	})

	c.RunScenario("startpolicy-guard-reads-new-status", func() {
		// The guard of the startPolicy check is the NEW object's status.startTime.  Behind a real API server
		// a spec update carries the stored status (status subresource), so new = old there (envelope E-API);
		// a bare webhook call can differ.  Witness of Props.C17.startPolicy_guard_reads_new_status.
		w := scWorld(c, valScenarioNow, nil)
		old := baseJob("sp")
		old.Status.StartTime = mt(w.now.Unix() - 20)
		nw := old.DeepCopy()
		nw.Status.StartTime = nil
		nw.Spec.StartPolicy.ConcurrencyPolicy = execution.ConcurrencyPolicyAllow
		w.admitJobUpdate(old, nw)
		// and the converse: started only in the new object
		old2 := baseJob("sp2")
		nw2 := old2.DeepCopy()
		nw2.Status.StartTime = mt(w.now.Unix())
		nw2.Spec.StartPolicy.ConcurrencyPolicy = execution.ConcurrencyPolicyAllow
		w.admitJobUpdate(old2, nw2)
		c.Nontrivial()
	})

	c.RunScenario("panics", func() {
		w := scWorld(c, valScenarioNow, nil)
		old := baseJob("p")
		nw := old.DeepCopy()
		nw.Spec.Template = nil
		w.expect("new template nil", w.admitJobUpdate(old, nw), "panic")
		old2 := baseJob("p2")
		old2.Spec.Template = nil
		w.expect("old template nil", w.admitJobUpdate(old2, baseJob("p2")), "panic")
		// division by zero inside cronexpr (H(a-b) with b = a-1): the webhook panics (recovered by the HTTP
		// handler upstream, i.e. the request is refused)
		jc := baseJC("default", "divzero")
		jc.Spec.Schedule.Cron.Expression = "H(5-4) * * * *"
		_, out := w.admitJC(jc, false)
		w.expect("H(5-4)", out, "panic")
		jc = baseJC("default", "divzero-disabled")
		jc.Spec.Schedule.Cron.Expression = "H(5-4) * * * *"
		jc.Spec.Schedule.Disabled = true
		_, out = w.admitJC(jc, false)
		w.expect("H(5-4) disabled", out, "panic")
		c.Nontrivial()
	})

	c.RunScenario("f-c17-1-hash-dependent-parse", func() {
		// default dynamic configuration (hash names on, hash fields on)
		w := scWorld(c, valScenarioNow, nil)
		good1, good2 := baseJC("default", "a"), baseJC("prod", "report")
		w.admitJC(good1, false)
		w.admitJC(good2, false)
		// `0 0 H/5 * *`: "every 5th day, offset by hash".  With hash id "" the offset is non-zero; for default/b
		// the offset is 0, below day-of-month's minimum 1: the scheduler's parse fails.  Before fix d9dad79 the
		// webhook admitted it (and cronschedule.New then failed for the whole cache: accepted-loadable fires
		// again if the defect returns); now it re-parses with the namespaced name and refuses.
		bad := baseJC("default", "b")
		bad.Spec.Schedule.Cron.Expression = "0 0 H/5 * *"
		if w.effectiveTrit("0 0 H/5 * *", "") != 'o' || w.effectiveTrit("0 0 H/5 * *", "default/b") != 'e' {
			w.c.Violate("C17", "scenario-expectation", "the library no longer gives ok/error for `0 0 H/5 * *` with ids \"\"/default/b")
		}
		_, out := w.admitJC(bad, false)
		w.expect("validator refuses default/b", out, "rej spec.schedule.cron:I")
		// the same line under a name for which it parses is fine
		okName := baseJC("prod", "report2")
		okName.Spec.Schedule.Cron.Expression = "0 0 H/5 * *"
		if w.effectiveTrit("0 0 H/5 * *", "prod/report2") == 'o' {
			_, out = w.admitJC(okName, false)
			w.expect("validator admits prod/report2", out, "ok")
		}
		// also when the schedule is disabled (the re-parse does not look at `disabled`)
		dis := baseJC("default", "b")
		dis.Spec.Schedule.Cron.Expression = "0 0 H/5 * *"
		dis.Spec.Schedule.Disabled = true
		_, out = w.admitJC(dis, false)
		w.expect("validator refuses default/b even when disabled", out, "rej spec.schedule.cron:I")
		// whatever was admitted loads together
		w.monitorLoadable(w.accepted)
		// the second shape of the class
		bad2 := baseJC("default", "a2")
		bad2.Spec.Schedule.Cron.Expression = "H(18-20)/5 * * * *"
		for _, name := range []string{"a2", "ns-jobconfig", "report", "x", "y", "z", "w"} {
			bad2.Name = name
			if w.effectiveTrit(bad2.Spec.Schedule.Cron.Expression, "") == 'o' && w.effectiveTrit(bad2.Spec.Schedule.Cron.Expression, jcKey(bad2)) == 'e' {
				_, out = w.admitJC(bad2, false)
				w.expect("validator refuses "+jcKey(bad2), out, "rej spec.schedule.cron:I")
				break
			}
		}
		// what remains: generateName — the name is empty at admission, the re-parse is skipped, and the verdict
		// for the final name is unknowable (counted as outside E-HashStable, not raised)
		gen := baseJC("default", "")
		gen.GenerateName = "b-"
		gen.Spec.Schedule.Cron.Expression = "0 0 H/5 * *"
		_, out = w.admitJC(gen, false)
		w.expect("generateName is admitted", out, "ok")
		c.Nontrivial()
	})

	// inner half of f-c17-3: only when asked for by name (it does not return)
	if c.Scenario == f3Inner {
		c.RunScenario(f3Inner, func() {
			w := scWorld(c, valScenarioNow, nil)
			jc := roundTripJC(f3JobConfig())
			fmt.Fprintln(os.Stderr, "calling cronschedule.New")
			_, out := w.newSchedule([]*execution.JobConfig{jc})
			fmt.Fprintln(os.Stderr, "cronschedule.New returned", out)
		})
	}
	c.RunScenario("f-c17-3-hash-range-wraparound", func() {
		w := scWorld(c, valScenarioNow, nil)
		// "every 1st of a month between November and February, month picked by hash": the library accepts the
		// wrap-around range and computes month 11 + (hash % -8) [-8 if negative]; for default/a that is <= 0
		_, out := w.admitJC(f3JobConfig(), false) // the real webhook; the scheduler is not called here (E-HashRange)
		w.expect("validator accepts H(11-2)", out, "ok")
		exe, err := os.Executable()
		if err != nil {
			w.c.Violate("C17", "scenario-expectation", "cannot find own executable: %v", err)
			return
		}
		dir, _ := os.MkdirTemp("", "f3inner")
		defer os.RemoveAll(dir)
		ctx, cancel := context.WithTimeout(context.Background(), 5*time.Second)
		defer cancel()
		cmd := exec.CommandContext(ctx, exe, "-engine", "validate", "-scenario", f3Inner, "-out", dir)
		outb, _ := cmd.CombinedOutput()
		called := strings.Contains(string(outb), "calling cronschedule.New")
		returned := strings.Contains(string(outb), "cronschedule.New returned")
		switch {
		case called && !returned && ctx.Err() != nil:
			w.c.Count("load.hang-in-child-process")
			w.c.Violate("C17", "accepted-loadable", "cronschedule.New did not return within 5s on the accepted JobConfig default/a with cron line %q (child process killed)", f3JobConfig().Spec.Schedule.Cron.Expression)
		case returned:
			w.c.Count("load.f3-returned")
		default:
			w.c.Violate("C17", "scenario-expectation", "child process for %s did not run as expected: %.300s", f3Inner, string(outb))
		}
		// second face of the same defect: day-of-week `H(6-7)` is the range 6..0 for the library (7 = Sunday = 0);
		// a negative materialised value indexes a table out of range inside Next: cronschedule.New panics.
		// The value depends on the hash id: look for a JobConfig name on which the library itself panics.
		const dowLine = "0 0 * * H(6-7)"
		name := ""
		for i := 0; i < 400 && name == ""; i++ {
			cand := fmt.Sprintf("w%d", i)
			if Guard(func() string {
				e, err := cronexpr.ParseForFormat(cronexpr.CronFormatStandard, dowLine, cronexpr.WithHash("default/"+cand), cronexpr.WithHashFields())
				if err != nil {
					return "err"
				}
				for m := time.Month(1); m <= 12; m++ {
					e.Next(time.Date(2024, m, 1, 0, 0, 0, 0, time.UTC))
				}
				return "ok"
			}) == "panic" {
				name = cand
			}
		}
		if name == "" {
			w.c.Violate("C17", "scenario-expectation", "no JobConfig name found on which %q makes the library panic", dowLine)
			return
		}
		jc := baseJC("default", name)
		jc.Spec.Schedule.Cron.Expression = dowLine
		_, out = w.admitJC(jc, false)
		w.expect("validator accepts H(6-7) in day-of-week", out, "ok")
		panicked := false
		for m := time.Month(1); m <= 12 && !panicked; m++ {
			w.clk.SetTime(time.Date(2024, m, 1, 0, 0, 0, 0, time.UTC))
			if _, res := w.newSchedule([]*execution.JobConfig{roundTripJC(jc)}); res == "panic" {
				panicked = true
				w.c.Count("load.panic-on-accepted")
				w.c.Violate("C17", "accepted-loadable", "cronschedule.New panicked on the accepted JobConfig default/%s with cron line %q (clock %v)", name, dowLine, w.clk.Now().UTC())
			}
		}
		w.clk.SetTime(w.now)
		if !panicked {
			w.c.Count("load.f3-dow-no-panic")
		}
		c.Nontrivial()
	})

	c.RunScenario("f-c17-2-default-timezone", func() {
		w := scWorld(c, valScenarioNow, func(cr *configv1alpha1.CronExecutionConfig) {
			z := "Mars/Olympus"
			cr.DefaultTimezone = &z
		})
		withTZ := baseJC("default", "explicit")
		withTZ.Spec.Schedule.Cron.Timezone = "Asia/Singapore"
		_, out := w.admitJC(withTZ, false) // loads: does not use the default
		w.expect("explicit timezone", out, "ok")
		noTZ := baseJC("default", "implicit")
		_, out = w.admitJC(noTZ, false) // accepted, but the scheduler cannot resolve its timezone
		w.expect("implicit timezone", out, "ok")
		w.monitorLoadable(w.accepted)
		c.Nontrivial()
	})
}
