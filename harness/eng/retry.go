package eng

import (
	"context"
	"errors"
	"fmt"
	"math/rand"
	"strings"
	"time"

	fakeclock "k8s.io/utils/clock/testing"

	"github.com/furiko-io/furiko/pkg/runtime/reconciler"

	"verifharness/sim"
)

// Engine "retry" (property C20): the REAL reconciler.Controller (work / syncItem: error =>
// AddRateLimited iff MaxRequeues() <= 0 or NumRequeues < MaxRequeues(); success => Forget; always
// Done; a key that cannot be split is neither retried nor forgotten) around a stub Reconciler
// whose SyncOne result is scripted, stepped with VerifStep on the deterministic work queue,
// against Model/Retry.lean.  The `retry.` line protocol is shared with the system engine, which
// emits the same observations for the five real reconcilers.
//
//   retry.reset
//   retry.new  <qid> <maxRequeues>
//   retry.ext  <qid> <now> A <key> | D <key> <deadline>      Add / AddAfter from outside a sync
//   retry.adv  <qid> <now>                                   move due delayed keys to ready
//   retry.step <qid> <now> <ok|err|-> {A <key> | D <key> <deadline>}   one VerifStep; `-` = SyncOne not called
// output of every op: the queue contents (ready in order, in-flight, dirty, delayed with
// deadlines, requeue counters).

func init() { Register("retry", runRetry) }

// logQueue is a DetQueue that records the Add / AddAfter calls it receives (with the time and
// the queue contents right after each call).
type logQueue struct {
	*sim.DetQueue
	log       []string
	logNow    []int64
	logDigest []string
}

func (q *logQueue) record(l string) {
	q.log = append(q.log, l)
	q.logNow = append(q.logNow, q.Clock.Now().UnixNano())
	q.logDigest = append(q.logDigest, retryDigest(q.DetQueue))
}

func (q *logQueue) resetLog() {
	q.log, q.logNow, q.logDigest = q.log[:0], q.logNow[:0], q.logDigest[:0]
}

func (q *logQueue) Add(item interface{}) {
	q.DetQueue.Add(item)
	q.record("A " + Q(item.(string)))
}

func (q *logQueue) AddAfter(item interface{}, d time.Duration) {
	n := len(q.DetQueue.Timers)
	q.DetQueue.AddAfter(item, d)
	if len(q.DetQueue.Timers) > n {
		dl := q.DetQueue.Timers[n].Deadline
		q.DetQueue.Timers = q.DetQueue.Timers[:0]
		q.record(fmt.Sprintf("D %s %d", Q(item.(string)), dl))
	} else {
		q.record("A " + Q(item.(string)))
	}
}

func retryDigest(q *sim.DetQueue) string {
	var ready, d, n []string
	for _, k := range q.Ready() {
		ready = append(ready, Q(k))
	}
	for _, t := range q.Delayed() {
		d = append(d, fmt.Sprintf("%s@%d", Q(t.Key), t.Deadline))
	}
	for _, r := range q.Requeues() {
		n = append(n, fmt.Sprintf("%s:%d", Q(r.Key), r.N))
	}
	qs := func(l []string) string {
		out := make([]string, len(l))
		for i, k := range l {
			out[i] = Q(k)
		}
		return strings.Join(out, ",")
	}
	return fmt.Sprintf("r=%s;p=%s;y=%s;d=%s;n=%s", strings.Join(ready, ","), qs(q.Processing()), qs(q.Dirty()), strings.Join(d, ","), strings.Join(n, ","))
}

// stubReconciler: SyncOne pops the next scripted result; during the sync it issues the scripted
// queue operations (real reconcilers re-enqueue themselves with AddAfter, and informer handlers
// may Add while a sync is in flight).
type stubReconciler struct {
	max    int
	q      *logQueue
	script []stubResult
	called bool
	got    stubResult
	seenN  int
}

type stubResult struct {
	ok     bool
	during []func()
}

func (s *stubReconciler) Name() string     { return "stub" }
func (s *stubReconciler) Concurrency() int { return 1 }
func (s *stubReconciler) MaxRequeues() int { return s.max }
func (s *stubReconciler) SyncOne(_ context.Context, namespace, name string, numRequeues int) error {
	s.called = true
	s.seenN = numRequeues
	r := s.script[0]
	s.script = s.script[1:]
	s.got = r
	for _, f := range r.during {
		f()
	}
	if r.ok {
		return nil
	}
	return errors.New("scripted failure")
}

var retryKeys = []string{"ns/a", "ns/b", "ns/c", "solo", "ns/a.1700000000", "x/y/z", "a/b/c/d", "/lead", "trail/"}

func runRetry(c *Ctx) {
	c.RunScenario("never-dropped-unlimited", func() { retryScenarioUnlimited(c) })
	c.ForCases(func(i int, rng *rand.Rand) { retryCase(c, rng) })
}

type retryWorld struct {
	c     *Ctx
	clk   *fakeclock.FakeClock
	q     *logQueue
	stub  *stubReconciler
	rc    *reconciler.Controller
	fails map[string]int // consecutive failed syncs per key since the last success (harness-owned)
}

func newRetryWorld(c *Ctx, max int, t0 time.Time) *retryWorld {
	w := &retryWorld{c: c, fails: map[string]int{}}
	w.clk = fakeclock.NewFakeClock(t0)
	w.q = &logQueue{DetQueue: sim.NewDetQueue(w.clk)}
	w.stub = &stubReconciler{max: max, q: w.q}
	w.rc = reconciler.NewController(w.stub, w.q)
	c.Emit("retry.reset", "ok")
	c.Emit(fmt.Sprintf("retry.new q %d", max), retryDigest(w.q.DetQueue))
	return w
}

func (w *retryWorld) now() int64 { return w.clk.Now().UnixNano() }

func (w *retryWorld) ext() {
	for i, l := range w.q.log {
		w.c.Emit(fmt.Sprintf("retry.ext q %d %s", w.q.logNow[i], l), w.q.logDigest[i])
	}
	w.q.resetLog()
}

func (w *retryWorld) add(k string) {
	w.q.Add(k)
	w.ext()
	w.c.Count("retry.op.add")
}

// addAfter asks for a wake-up at the absolute virtual time target (ms-aligned), the way the
// controllers do: AddAfter(key, time.Until(target)).
func (w *retryWorld) addAfter(k string, target int64) {
	w.q.AddAfter(k, time.Until(time.Unix(0, target)))
	w.ext()
	w.c.Count("retry.op.addAfter")
}

func (w *retryWorld) adv(d time.Duration) {
	w.clk.Step(d)
	w.q.DetQueue.Advance()
	w.c.Emit(fmt.Sprintf("retry.adv q %d", w.now()), retryDigest(w.q.DetQueue))
	w.c.Count("retry.op.advance")
}

// step runs one VerifStep with the scripted result and judges the retry clauses on the real
// queue against the harness's own failure counts.
func (w *retryWorld) step(r stubResult) {
	w.q.resetLog()
	ready := w.q.Ready()
	w.stub.called = false
	w.stub.script = []stubResult{r}
	out := Guard(func() string { w.rc.VerifStep(context.Background()); return "" })
	res := "-"
	if w.stub.called {
		res = map[bool]string{true: "ok", false: "err"}[r.ok]
	}
	if out == "panic" {
		res = "panic"
	}
	w.c.Emit(fmt.Sprintf("retry.step q %d %s %s", w.now(), res, strings.Join(w.q.log, " ")), retryDigest(w.q.DetQueue))
	w.q.resetLog()
	w.c.Count("retry.step." + res)
	if len(ready) == 0 {
		w.c.Count("retry.step.idle")
		return
	}
	key := ready[0]
	if len(w.q.Processing()) != 0 {
		w.c.Violate("C20", "always-done", "key %s still in flight after the step", key)
	}
	if !w.stub.called {
		// the key could not be split: neither retried nor forgotten (documented behaviour)
		w.c.Count("retry.step.split-error")
		return
	}
	if w.stub.seenN != w.fails[key] {
		w.c.Violate("C20", "requeue-count", "SyncOne of %s saw numRequeues=%d, harness counted %d failures", key, w.stub.seenN, w.fails[key])
	}
	max := w.stub.max
	if r.ok {
		w.fails[key] = 0
		if n := w.q.NumRequeues(key); n != 0 {
			w.c.Violate("C20", "forget-on-success", "requeue counter of %s is %d after a successful sync", key, n)
		}
		w.c.Count("retry.branch.success-forget")
		return
	}
	before := w.fails[key]
	want := max <= 0 || before < max
	got := w.q.IsReady(key) || w.q.IsDelayed(key)
	if want {
		w.fails[key] = before + 1
		w.c.Count("retry.branch.error-requeue")
		if !got {
			w.c.Violate("C20", "retry-until-success", "sync of %s failed (maxRequeues %d, %d earlier failures) but the key is neither ready nor delayed", key, max, before)
		}
		if n := w.q.NumRequeues(key); n != before+1 {
			w.c.Violate("C20", "requeue-count", "requeue counter of %s is %d after failure number %d", key, n, before+1)
		}
	} else {
		w.c.Count("retry.branch.error-giveup")
	}
}

func retryCase(c *Ctx, rng *rand.Rand) {
	max := []int{-1, 0, 1, 3}[rng.Intn(4)]
	w := newRetryWorld(c, max, sim.VirtualBase.Add(time.Duration(rng.Intn(100000))*time.Second+time.Duration(rng.Intn(1000))*time.Millisecond))
	c.Count(fmt.Sprintf("retry.max.%d", max))
	nsteps := 20 + rng.Intn(60)
	if c.Tier == "thorough" {
		nsteps = 40 + rng.Intn(300)
	}
	nk := 2 + rng.Intn(len(retryKeys)-1)
	keys := retryKeys[:nk]
	if rng.Intn(3) == 0 {
		keys = retryKeys
	}
	failBias := rng.Intn(100)
	pick := func() string { return keys[rng.Intn(len(keys))] }
	target := func() int64 {
		// ms-aligned absolute deadlines around the 1 s lower bound and further out
		base := w.now() / 1e6 * 1e6
		return base + int64([]int{-5000, 0, 1, 500, 999, 1000, 1001, 1500, 5000, 60000}[rng.Intn(10)])*1e6
	}
	for s := 0; s < nsteps; s++ {
		switch r := rng.Intn(100); {
		case r < 22:
			w.add(pick())
		case r < 32:
			w.addAfter(pick(), target())
		case r < 75:
			res := stubResult{ok: rng.Intn(100) >= failBias}
			for n := rng.Intn(3); n > 0 && rng.Intn(3) == 0; n-- {
				k := pick()
				if rng.Intn(2) == 0 {
					res.during = append(res.during, func() { w.q.Add(k) })
				} else {
					t := target()
					res.during = append(res.during, func() { w.q.AddAfter(k, time.Until(time.Unix(0, t))) })
				}
			}
			if len(res.during) > 0 {
				c.Count("retry.step.with-during-ops")
			}
			w.step(res)
		default:
			w.adv(time.Duration([]int{1, 4, 5, 10, 40, 160, 320, 640, 1000, 3000}[rng.Intn(10)]) * time.Millisecond)
		}
	}
	// fault-free suffix: every key added with a splittable name is eventually synced successfully
	for round := 0; round < 400; round++ {
		if w.q.Len() == 0 {
			dl := w.q.NextDeadline()
			if dl == 0 {
				break
			}
			w.adv(time.Duration(dl - w.now()))
			continue
		}
		w.step(stubResult{ok: true})
	}
	if w.q.Len() != 0 || w.q.NextDeadline() != 0 {
		c.Violate("C20", "retry-until-success", "queue not empty after the fault-free suffix: %s", retryDigest(w.q.DetQueue))
	}
	for _, r := range w.q.Requeues() {
		// keys that cannot be split keep their counters (never forgotten): only splittable keys are judged
		// (with a positive MaxRequeues a key that was given up keeps its counter until its next success)
		if strings.Count(r.Key, "/") <= 1 && max <= 0 {
			c.Violate("C20", "forget-on-success", "requeue counter of %s is %d at quiescence", r.Key, r.N)
		}
	}
	c.Nontrivial()
}

// retryScenarioUnlimited: a key fails 12 times in a row under MaxRequeues -1 and is synced
// again after every back-off; the back-off saturates at 320 ms.
func retryScenarioUnlimited(c *Ctx) {
	w := newRetryWorld(c, -1, sim.VirtualBase)
	w.add("ns/a")
	for i := 0; i < 12; i++ {
		w.step(stubResult{ok: false})
		dl := w.q.NextDeadline()
		exp := int64(5*time.Millisecond) << uint(min(i, 6))
		if dl-w.now() != exp {
			c.Violate("C20", "retry-until-success", "back-off after failure %d is %d ns, expected %d", i+1, dl-w.now(), exp)
		}
		w.adv(time.Duration(dl - w.now()))
	}
	w.step(stubResult{ok: true})
	c.Nontrivial()
}
