package eng

// Monitors of engine "taskfn": executable restatements of the pure clauses of C08 / C10 / C11 /
// C12, judged on the real functions' outputs against ground truth computed here from the
// inputs (never by calling the function under judgement, never through the Lean model).

import (
	"fmt"
	"sort"
	"time"

	corev1 "k8s.io/api/core/v1"

	configv1alpha1 "github.com/furiko-io/furiko/apis/config/v1alpha1"
	execution "github.com/furiko-io/furiko/apis/execution/v1alpha1"
	"github.com/furiko-io/furiko/pkg/execution/taskexecutor/podtaskexecutor"
	jobtasks "github.com/furiko-io/furiko/pkg/execution/tasks"
	jobutil "github.com/furiko-io/furiko/pkg/execution/util/job"
	"github.com/furiko-io/furiko/pkg/execution/util/parallel"
)

// ---------------------------------------------------------------- ground truth

type hashTruth struct {
	n          int // refs of this hash
	finished   int
	live       int
	succ       bool
	retries    []int64
	maxFinish  time.Time
	hasFinish  bool
	contiguous bool // retry indexes are exactly {0..n-1}
}

type jobTruth struct {
	idxHashes   []string
	distinct    bool
	perHash     map[string]*hashTruth
	foreignLive bool // a ref with a hash outside the spec that is unfinished or succeeded
	foreign     int
	maxAttempts int64
	delay       time.Duration
	strategy    string // all | any | none
	started     bool
	adm         bool
	killSet     bool
	killPassed  bool
}

func refHash(r execution.TaskRef) string {
	if r.ParallelIndex == nil {
		return HashOf(tfDefaultIndex)
	}
	return HashOf(*r.ParallelIndex)
}

func truthOfRefs(refs []execution.TaskRef) map[string]*hashTruth {
	m := map[string]*hashTruth{}
	for _, r := range refs {
		h := refHash(r)
		t := m[h]
		if t == nil {
			t = &hashTruth{}
			m[h] = t
		}
		t.n++
		t.retries = append(t.retries, r.RetryIndex)
		if !r.FinishTimestamp.IsZero() {
			t.finished++
			if !t.hasFinish || r.FinishTimestamp.Time.After(t.maxFinish) {
				t.maxFinish = r.FinishTimestamp.Time
			}
			t.hasFinish = true
		} else {
			t.live++
		}
		if r.Status.Result == execution.TaskSucceeded {
			t.succ = true
		}
	}
	for _, t := range m {
		rs := append([]int64(nil), t.retries...)
		sort.Slice(rs, func(i, j int) bool { return rs[i] < rs[j] })
		t.contiguous = true
		for i, v := range rs {
			if v != int64(i) {
				t.contiguous = false
			}
		}
	}
	return m
}

func truthOfJob(g *tfGen, rj *execution.Job, idxs []execution.ParallelIndex) *jobTruth {
	t := &jobTruth{perHash: truthOfRefs(rj.Status.Tasks), distinct: true, maxAttempts: 1, strategy: "all"}
	seen := map[string]bool{}
	for _, ix := range idxs {
		h := HashOf(ix)
		if seen[h] {
			t.distinct = false
		}
		seen[h] = true
		t.idxHashes = append(t.idxHashes, h)
	}
	for _, r := range rj.Status.Tasks {
		if !seen[refHash(r)] {
			t.foreign++
			if r.FinishTimestamp.IsZero() || r.Status.Result == execution.TaskSucceeded {
				t.foreignLive = true
			}
		}
	}
	if tm := rj.Spec.Template; tm != nil {
		if tm.MaxAttempts != nil {
			t.maxAttempts = *tm.MaxAttempts
		}
		if tm.RetryDelaySeconds != nil {
			t.delay = time.Duration(*tm.RetryDelaySeconds) * time.Second
		}
		if sp := tm.Parallelism; sp != nil {
			switch sp.CompletionStrategy {
			case "", execution.AllSuccessful:
				t.strategy = "all"
			case execution.AnySuccessful:
				t.strategy = "any"
			default:
				t.strategy = "none"
			}
		}
	}
	t.started = !rj.Status.StartTime.IsZero()
	t.adm = HasAdmissionError(rj)
	t.killSet = !rj.Spec.KillTimestamp.IsZero()
	t.killPassed = t.killSet && !rj.Spec.KillTimestamp.Time.After(g.now)
	return t
}

func (t *jobTruth) of(h string) *hashTruth {
	if x := t.perHash[h]; x != nil {
		return x
	}
	return &hashTruth{contiguous: true}
}

func (t *jobTruth) exhausted(h string) bool {
	x := t.of(h)
	return !x.succ && int64(x.finished) >= t.maxAttempts
}

// strategy satisfied / unsatisfiable, from refs alone
func (t *jobTruth) decided() (succ, fail bool) {
	allSucc, anySucc, allExh, anyExh := true, false, true, false
	for _, h := range t.idxHashes {
		if t.of(h).succ {
			anySucc = true
		} else {
			allSucc = false
		}
		if t.exhausted(h) {
			anyExh = true
		} else {
			allExh = false
		}
	}
	switch t.strategy {
	case "all":
		return allSucc, anyExh
	case "any":
		return anySucc, allExh
	}
	return false, false
}

func (t *jobTruth) allTerminated() bool {
	for _, h := range t.idxHashes {
		if t.of(h).live > 0 {
			return false
		}
	}
	return true
}

// ---------------------------------------------------------------- C08

func monMissing(g *tfGen, rj *execution.Job, idxs []execution.ParallelIndex, reqs []parallel.IndexCreationRequest) {
	c := g.c
	t := truthOfJob(g, rj, idxs)
	if !t.distinct {
		c.Count("mon.c08.skipped-colliding-hashes")
		return
	}
	returned := map[string]parallel.IndexCreationRequest{}
	inSpec := map[string]bool{}
	for _, h := range t.idxHashes {
		inSpec[h] = true
	}
	for _, r := range reqs {
		h := HashOf(r.ParallelIndex)
		if !inSpec[h] {
			g.violate("C08", "c08.missing-sound", "request for index %s which is not in the index list", IndexVal(r.ParallelIndex))
			continue
		}
		if _, dup := returned[h]; dup {
			g.violate("C08", "c08.missing-sound", "index %s requested twice", IndexVal(r.ParallelIndex))
		}
		returned[h] = r
		x := t.of(h)
		if x.live > 0 {
			g.violate("C08", "c08.missing-sound", "index %s requested while it has %d unfinished ref(s)", IndexVal(r.ParallelIndex), x.live)
		}
		if x.succ {
			g.violate("C08", "c08.missing-sound", "index %s requested although it has a succeeded ref", IndexVal(r.ParallelIndex))
		}
		if r.RetryIndex >= t.maxAttempts {
			g.violate("C08", "c08.missing-bounded", "index %s requested with retry %d >= maxAttempts %d", IndexVal(r.ParallelIndex), r.RetryIndex, t.maxAttempts)
		}
		if r.RetryIndex < 0 {
			g.violate("C08", "c08.missing-bounded", "negative retry index %d", r.RetryIndex)
		}
		if x.contiguous && r.RetryIndex != int64(x.n) {
			g.violate("C08", "c08.retry-eq-count", "index %s has contiguous retries 0..%d but request carries retry %d", IndexVal(r.ParallelIndex), x.n-1, r.RetryIndex)
		}
		for _, v := range x.retries {
			if v >= r.RetryIndex {
				g.violate("C08", "c08.retry-eq-count", "index %s: requested retry %d not above existing retry %d", IndexVal(r.ParallelIndex), r.RetryIndex, v)
			}
		}
		if x.hasFinish {
			want := x.maxFinish.Add(t.delay)
			if r.Earliest.Before(want) {
				g.violate("C08", "c08.earliest-delay", "index %s: earliest %s before latest finish + delay %s", IndexVal(r.ParallelIndex), NanoStr(r.Earliest), NanoStr(want))
			}
			if !r.Earliest.Equal(want) {
				g.violate("C08", "c08.earliest-delay", "index %s: earliest %s differs from latest finish + delay %s", IndexVal(r.ParallelIndex), NanoStr(r.Earliest), NanoStr(want))
			}
		} else if !r.Earliest.Equal(time.Time{}.Add(t.delay)) {
			g.violate("C08", "c08.earliest-delay", "index %s without finished ref: earliest %s is not zero time + delay", IndexVal(r.ParallelIndex), NanoStr(r.Earliest))
		}
	}
	// completeness: an index whose attempts 0..k-1 all finished without success and k < maxAttempts
	if t.foreignLive {
		c.Count("mon.c08.complete-skipped-foreign-live-ref")
		return
	}
	for i, h := range t.idxHashes {
		x := t.of(h)
		if x.live == 0 && !x.succ && x.contiguous && int64(x.n) < t.maxAttempts {
			if _, ok := returned[h]; !ok {
				g.violate("C08", "c08.missing-complete", "index %s (position %d) has %d finished unsuccessful attempts < maxAttempts %d but is not requested",
					IndexVal(idxs[i]), i, x.n, t.maxAttempts)
			}
		}
	}
	// order of requests follows the index list
	pos := map[string]int{}
	for i, h := range t.idxHashes {
		pos[h] = i
	}
	for i := 1; i < len(reqs); i++ {
		if pos[HashOf(reqs[i-1].ParallelIndex)] >= pos[HashOf(reqs[i].ParallelIndex)] {
			g.violate("C08", "c08.missing-sound", "requests are not in index order")
		}
	}
}

func monPStatus(g *tfGen, rj *execution.Job, ps execution.ParallelStatus) {
	_ = g.c
	idxs := specIndexes(rj)
	t := truthOfJob(g, rj, idxs)
	if len(ps.Indexes) != len(idxs) {
		g.violate("C11", "c11.counters-match", "parallel status has %d indexes, spec has %d", len(ps.Indexes), len(idxs))
		return
	}
	for i, is := range ps.Indexes {
		h := t.idxHashes[i]
		x := t.of(h)
		if is.Hash != h {
			g.violate("C11", "c11.counters-match", "index %d hash %s, expected %s", i, is.Hash, h)
		}
		if is.CreatedTasks != int64(x.n) {
			g.violate("C11", "c11.counters-match", "index %d createdTasks %d but %d refs carry its hash", i, is.CreatedTasks, x.n)
		}
		// C08 / C10: per-index failure is exactly exhaustion without success
		if (is.Result == execution.TaskFailed) != t.exhausted(h) {
			g.violate("C08", "c08.index-failed-iff", "index %d result %q but finished=%d succeeded=%v maxAttempts=%d", i, is.Result, x.finished, x.succ, t.maxAttempts)
		}
		if (is.Result == execution.TaskSucceeded) != x.succ {
			g.violate("C10", "c10.index-succeeded-iff", "index %d result %q but a succeeded ref exists = %v", i, is.Result, x.succ)
		}
		// state
		var want execution.IndexState
		switch {
		case x.n == 0:
			want = execution.IndexNotCreated
		case x.live == 0 && !x.succ && !t.exhausted(h):
			want = execution.IndexRetryBackoff
		case x.live == 0:
			want = execution.IndexTerminated
		}
		if want != "" && is.State != want {
			g.violate("C10", "c10.index-state", "index %d state %q, expected %q", i, is.State, want)
		}
		if x.live > 0 && is.State != execution.IndexRunning && is.State != execution.IndexStarting {
			g.violate("C10", "c10.index-state", "index %d has a live ref but state %q", i, is.State)
		}
	}
	monSummary(g, rj, ps.ParallelStatusSummary)
}

// ---------------------------------------------------------------- C10

func monSummary(g *tfGen, rj *execution.Job, sm execution.ParallelStatusSummary) {
	c := g.c
	t := truthOfJob(g, rj, specIndexes(rj))
	succ, fail := t.decided()
	if succ && fail {
		g.violate("C10", "c10.summary-exclusive", "ground truth has the strategy both satisfied and unsatisfiable")
	}
	if sm.Complete != (sm.Successful != nil) {
		g.violate("C10", "c10.summary-complete-iff", "complete=%v but successful=%s", sm.Complete, encOptBool(sm.Successful))
	}
	if sm.Complete != (succ || fail) {
		g.violate("C10", "c10.summary-complete-iff", "complete=%v but refs decide satisfied=%v unsatisfiable=%v", sm.Complete, succ, fail)
	}
	if sm.Successful != nil && *sm.Successful != succ {
		g.violate("C10", "c10.summary-complete-iff", "successful=%v but strategy satisfied=%v", *sm.Successful, succ)
	}
	if sm.Complete {
		c.Count("mon.c10.summary-complete")
	}
}

// monCondition judges one computed JobCondition (from GetCondition or from the status update).
func monCondition(g *tfGen, rj *execution.Job, cond execution.JobCondition, src string) {
	_ = g.c
	t := truthOfJob(g, rj, specIndexes(rj))
	n := 0
	for _, set := range []bool{cond.Queueing != nil, cond.Waiting != nil, cond.Running != nil, cond.Finished != nil} {
		if set {
			n++
		}
	}
	if n != 1 {
		g.violate("C11", "c11.one-condition", "%s: %d conditions set (%s)", src, n, EncCondition(cond))
	}
	succ, fail := t.decided()
	if f := cond.Finished; f != nil {
		switch f.Result {
		case execution.JobResultSuccess:
			if !succ || t.killSet {
				g.violate("C10", "c10.succeeded-sound", "%s: result Success but strategy satisfied=%v, kill timestamp set=%v", src, succ, t.killSet)
			}
		case execution.JobResultFailed:
			if !fail {
				g.violate("C10", "c10.failed-sound", "%s: result Failed but the strategy is still satisfiable", src)
			}
		}
		if !t.adm {
			if !t.allTerminated() {
				g.violate("C10", "c10.finished-all-terminated", "%s: Finished(%s) while a spec index still has an unfinished ref", src, f.Result)
			}
			if !t.started {
				g.violate("C11", "c11.finished-not-started", "%s: Finished(%s) for a Job that is not started", src, f.Result)
			}
		}
	}
	if !t.adm && t.started {
		// C10 converse (pure part): decided and everything terminated => that result
		if !t.killSet && t.allTerminated() && (succ || fail) {
			want := execution.JobResultFailed
			if succ {
				want = execution.JobResultSuccess
			}
			if cond.Finished == nil || cond.Finished.Result != want {
				g.violate("C10", "c10.decided-then-result", "%s: strategy decided (%s) and all refs finished, but condition is %s", src, want, EncCondition(cond))
			}
		}
		// C12: killed
		if t.killPassed && t.allTerminated() {
			if cond.Finished == nil || cond.Finished.Result != execution.JobResultKilled {
				g.violate("C12", "c12.killed-condition", "%s: kill timestamp passed, all indexes terminated, no admission error, but condition is %s", src, EncCondition(cond))
			}
		}
		if t.killPassed && !t.allTerminated() && cond.Waiting == nil {
			g.violate("C12", "c12.killing-waits", "%s: kill timestamp passed with live refs but condition is %s", src, EncCondition(cond))
		}
	}
	if t.adm && (cond.Finished == nil || cond.Finished.Result != execution.JobResultAdmissionError) {
		g.violate("C12", "c12.admission-error-condition", "%s: admission error annotated but condition is %s", src, EncCondition(cond))
	}
	if !t.adm && !t.started && cond.Queueing == nil {
		g.violate("C11", "c11.not-started-queueing", "%s: Job not started but condition is %s", src, EncCondition(cond))
	}
}

func monPod(g *tfGen, p *corev1.Pod, pt *podtaskexecutor.PodTask, state, res, fin string) {
	_ = g.c
	oom := false
	for _, cs := range p.Status.ContainerStatuses {
		if cs.State.Terminated != nil {
			if cs.State.Terminated.Reason == "OOMKilled" {
				oom = true
			}
		} else if cs.LastTerminationState.Terminated != nil && cs.LastTerminationState.Terminated.Reason == "OOMKilled" {
			oom = true
		}
	}
	wantSucc := p.Status.Phase == corev1.PodSucceeded && !oom
	if (res == "S") != wantSucc {
		g.violate("C10", "c10.pod-result", "pod phase %q oom=%v mapped to result %s", p.Status.Phase, oom, res)
	}
	if oom && res != "F" {
		g.violate("C10", "c10.pod-result", "OOMKilled pod mapped to result %s", res)
	}
	terminal := p.Status.Phase == corev1.PodSucceeded || p.Status.Phase == corev1.PodFailed
	if fin != "panic" {
		if terminal && fin == "-" && (!p.CreationTimestamp.IsZero() || !p.Status.StartTime.IsZero()) {
			g.violate("C10", "c10.pod-finish", "terminal pod without finish timestamp")
		}
		if !terminal && fin != "-" {
			g.violate("C10", "c10.pod-finish", "non-terminal pod (phase %q) reports finish timestamp %s", p.Status.Phase, fin)
		}
	}
	if (state == "Te") != terminal {
		g.violate("C10", "c10.pod-state", "pod phase %q mapped to state %s", p.Status.Phase, state)
	}
	if state == "Ki" && (p.DeletionTimestamp.IsZero() || terminal) {
		g.violate("C10", "c10.pod-state", "state Killing for a pod without deletion timestamp or already terminal")
	}
}

// ---------------------------------------------------------------- C11

var tfTerminalPhases = map[execution.JobPhase]bool{
	execution.JobSucceeded: true, execution.JobFailed: true, execution.JobKilled: true,
	execution.JobAdmissionError: true, execution.JobFinishedUnknown: true,
}

func stateOfCondition(cond execution.JobCondition) execution.JobState {
	switch {
	case cond.Finished != nil:
		return execution.JobStateFinished
	case cond.Running != nil:
		return execution.JobStateRunning
	case cond.Waiting != nil:
		return execution.JobStateWaiting
	case cond.Queueing != nil:
		return execution.JobStateQueued
	}
	return ""
}

func monUpdate(g *tfGen, rj, nj *execution.Job) {
	c := g.c
	cond := nj.Status.Condition
	n := 0
	for _, set := range []bool{cond.Queueing != nil, cond.Waiting != nil, cond.Running != nil, cond.Finished != nil} {
		if set {
			n++
		}
	}
	if n != 1 {
		g.violate("C11", "c11.one-condition", "update: %d conditions set (%s)", n, EncCondition(cond))
	}
	// F13 (fixed by commit 4c102ea; KNOWN_FINDINGS.jsonl): the state must name the stored condition
	// for every Job, including a deleting one whose finished condition comes from the override.
	if nj.Status.State != stateOfCondition(cond) {
		g.violate("C11", "c11.state-matches-condition", "state %q but condition is %s", nj.Status.State, EncCondition(cond))
	}
	// the deletion override itself: classification needs the pre-override condition
	overridden := false
	if rj.DeletionTimestamp != nil {
		pre, err := jobutil.GetCondition(rj) // classification only
		if err == nil && pre.Finished == nil {
			overridden = true
			c.Count("mon.c11.deletion-override")
			if cond.Finished == nil || cond.Finished.Result != execution.JobResultKilled {
				g.violate("C11", "c11.deletion-override", "deleting unfinished Job not given Finished(Killed): %s", EncCondition(cond))
			}
		}
	}
	if !overridden {
		monCondition(g, rj, cond, "update")
	}
	if tfTerminalPhases[nj.Status.Phase] != (cond.Finished != nil) {
		g.violate("C11", "c11.phase-terminal-iff-finished", "phase %q but condition is %s", nj.Status.Phase, EncCondition(cond))
	}
	if cond.Finished != nil {
		wantPhase := map[execution.JobResult]execution.JobPhase{
			execution.JobResultSuccess: execution.JobSucceeded, execution.JobResultFailed: execution.JobFailed,
			execution.JobResultKilled: execution.JobKilled, execution.JobResultAdmissionError: execution.JobAdmissionError,
			execution.JobResultFinalStateUnknown: execution.JobFinishedUnknown,
		}[cond.Finished.Result]
		if nj.Status.Phase != wantPhase {
			g.violate("C10", "c10.phase-of-result", "result %q but phase %q", cond.Finished.Result, nj.Status.Phase)
		}
	}
	if rj.Spec.Template != nil && rj.Spec.Template.Parallelism != nil && nj.Status.ParallelStatus == nil {
		g.violate("C11", "c11.parallel-status-presence", "parallel Job without parallelStatus")
	}
	if nj.Status.ParallelStatus != nil && rj.Spec.Template != nil && rj.Spec.Template.Parallelism != nil {
		monPStatus(g, rj, *nj.Status.ParallelStatus)
	}
}

func monUpdRefs(g *tfGen, rj *execution.Job, tasks []jobtasks.Task, nj *execution.Job) {
	_ = g.c
	if nj.Status.CreatedTasks != int64(len(nj.Status.Tasks)) {
		g.violate("C11", "c11.counters-match", "createdTasks %d but %d task refs", nj.Status.CreatedTasks, len(nj.Status.Tasks))
	}
	running := 0
	for _, r := range nj.Status.Tasks {
		if !r.RunningTimestamp.IsZero() && r.FinishTimestamp.IsZero() {
			running++
		}
	}
	if nj.Status.RunningTasks != int64(running) {
		g.violate("C11", "c11.counters-match", "runningTasks %d but %d refs are running and unfinished", nj.Status.RunningTasks, running)
	}
	if len(nj.Status.Tasks) < len(rj.Status.Tasks) {
		dupNames := map[string]int{}
		for _, r := range rj.Status.Tasks {
			dupNames[r.Name]++
		}
		if len(dupNames) == len(rj.Status.Tasks) {
			g.violate("C11", "c11.created-nondecreasing", "task refs shrank from %d to %d", len(rj.Status.Tasks), len(nj.Status.Tasks))
		}
	}
	monGenRefs(g, rj.Status.Tasks, tasks, nj.Status.Tasks)
}

func monGenRefs(g *tfGen, existing []execution.TaskRef, tasks []jobtasks.Task, res []execution.TaskRef) {
	_ = g.c
	byName := map[string][]execution.TaskRef{}
	for _, r := range res {
		byName[r.Name] = append(byName[r.Name], r)
	}
	taskNames := map[string]bool{}
	odd := map[string]bool{} // tasks whose GetName() differs from GetTaskRef().Name (stub only)
	for _, t := range tasks {
		taskNames[t.GetName()] = true
		if rn := t.GetTaskRef().Name; rn != t.GetName() {
			odd[rn], odd[t.GetName()] = true, true
		}
	}
	exCount := map[string]int{}
	for _, e := range existing {
		exCount[e.Name]++
	}
	for _, e := range existing {
		if exCount[e.Name] > 1 || odd[e.Name] {
			continue // duplicate names in the input: retention is per name, judged on unique names only
		}
		out := byName[e.Name]
		if len(out) == 0 {
			// a task whose GetName() differs from its ref's name records under the ref name
			if !taskNames[e.Name] {
				g.violate("C11", "c11.refs-never-forgotten", "existing ref %s disappeared", e.Name)
			}
			continue
		}
		for _, o := range out {
			if !e.RunningTimestamp.IsZero() && o.RunningTimestamp.IsZero() {
				g.violate("C11", "c11.timestamps-never-cleared", "ref %s lost its running timestamp", e.Name)
			}
			if !e.FinishTimestamp.IsZero() && o.FinishTimestamp.IsZero() {
				g.violate("C11", "c11.timestamps-never-cleared", "ref %s lost its finish timestamp", e.Name)
			}
		}
		if !taskNames[e.Name] {
			o := out[0]
			if o.FinishTimestamp.IsZero() {
				g.violate("C11", "c11.vanished-finished", "vanished task %s has no finish timestamp", e.Name)
			}
			if e.FinishTimestamp.IsZero() && !o.FinishTimestamp.IsZero() && !o.FinishTimestamp.Time.Equal(g.now) {
				g.violate("C11", "c11.vanished-finished", "vanished task %s finish time %s is not the clock", e.Name, EncTimeP(o.FinishTimestamp))
			}
			if e.DeletedStatus != nil {
				if o.Status.State != e.DeletedStatus.State || o.Status.Result != e.DeletedStatus.Result {
					g.violate("C11", "c11.vanished-status", "vanished task %s status %s, DeletedStatus was %s", e.Name, EncStatus(o.Status), EncStatus(*e.DeletedStatus))
				}
			} else if o.Status.State != execution.TaskDeletedFinalStateUnknown {
				g.violate("C11", "c11.vanished-status", "vanished task %s without DeletedStatus has state %q", e.Name, o.Status.State)
			}
		}
	}
	// sorted by (creation, name)
	for i := 1; i < len(res); i++ {
		a, b := res[i-1], res[i]
		if b.CreationTimestamp.Time.Before(a.CreationTimestamp.Time) ||
			(b.CreationTimestamp.Time.Equal(a.CreationTimestamp.Time) && b.Name < a.Name) {
			g.violate("C11", "c11.refs-sorted", "refs %s and %s out of order", a.Name, b.Name)
		}
	}
}

func monGetTaskRef(g *tfGen, existing *execution.TaskRef, task jobtasks.Task, res execution.TaskRef) {
	c := g.c
	obs := task.GetTaskRef()
	if existing != nil {
		if !existing.RunningTimestamp.IsZero() {
			if res.RunningTimestamp.IsZero() {
				g.violate("C11", "c11.timestamps-never-cleared", "GetTaskRef cleared running timestamp of %s", existing.Name)
			} else if obs.RunningTimestamp.IsZero() && !res.RunningTimestamp.Time.Equal(existing.RunningTimestamp.Time) {
				g.violate("C11", "c11.timestamps-never-cleared", "GetTaskRef changed the retained running timestamp of %s", existing.Name)
			}
		}
		if !existing.FinishTimestamp.IsZero() {
			if res.FinishTimestamp.IsZero() {
				g.violate("C11", "c11.timestamps-never-cleared", "GetTaskRef cleared finish timestamp of %s", existing.Name)
			} else if obs.FinishTimestamp.IsZero() && !res.FinishTimestamp.Time.Equal(existing.FinishTimestamp.Time) {
				g.violate("C11", "c11.timestamps-never-cleared", "GetTaskRef changed the retained finish timestamp of %s", existing.Name)
			}
		}
	}
	if !obs.RunningTimestamp.IsZero() && (res.RunningTimestamp.IsZero() || !res.RunningTimestamp.Time.Equal(obs.RunningTimestamp.Time)) {
		g.violate("C11", "c11.taskref-observed", "running timestamp reported by the task not recorded")
	}
	finalKept := existing != nil && !existing.FinishTimestamp.IsZero() && !obs.FinishTimestamp.IsZero() &&
		(existing.Status.State == execution.TaskTerminated || existing.Status.State == execution.TaskDeletedFinalStateUnknown)
	if finalKept {
		// C11: a recorded final status / finish time never changes, whatever (possibly stale)
		// terminal copy of the task is observed later
		c.Count("branch.gettaskref.final-status-kept")
		if res.Status.State != existing.Status.State || res.Status.Result != existing.Status.Result ||
			!res.FinishTimestamp.Time.Equal(existing.FinishTimestamp.Time) {
			g.violate("C11", "c11.final-status-kept", "ref %s was finished as %s@%d, GetTaskRef rewrote it as %s@%d", existing.Name,
				EncStatus(existing.Status), existing.FinishTimestamp.Unix(), EncStatus(res.Status), res.FinishTimestamp.Unix())
		}
	} else if !obs.FinishTimestamp.IsZero() {
		c.Count("branch.gettaskref.task-finished")
		if res.DeletedStatus == nil || res.DeletedStatus.State != obs.Status.State || res.DeletedStatus.Result != obs.Status.Result {
			g.violate("C11", "c11.taskref-observed", "finished task: DeletedStatus %s is not the task's status %s", EncDStatus(res.DeletedStatus), EncStatus(obs.Status))
		}
	} else if existing != nil {
		if (res.DeletedStatus == nil) != (existing.DeletedStatus == nil) {
			g.violate("C11", "c11.taskref-observed", "unfinished task: DeletedStatus marker not carried over")
		}
	}
}

// ---------------------------------------------------------------- C12

func monTimeouts(g *tfGen, rj *execution.Job, cfg *configv1alpha1.JobExecutionConfig, pend, force, ttl string) {
	c := g.c
	// pending: job value if set and >= 0, else config default, else 0
	if rj.Spec.Template != nil {
		var want int64
		if cfg.DefaultPendingTimeoutSeconds != nil {
			want = *cfg.DefaultPendingTimeoutSeconds
		}
		if v := rj.Spec.Template.TaskPendingTimeoutSeconds; v != nil && *v >= 0 {
			want = *v
			c.Count("branch.timeouts.pending-job")
		} else if cfg.DefaultPendingTimeoutSeconds != nil {
			c.Count("branch.timeouts.pending-config")
		} else {
			c.Count("branch.timeouts.pending-zero")
		}
		if pend != fmt.Sprint(want*int64(time.Second)) {
			g.violate("C12", "c12.pending-timeout", "pending timeout %s, expected %d s", pend, want)
		}
	}
	var wantForce int64
	if cfg.ForceDeleteTaskTimeoutSeconds != nil {
		wantForce = *cfg.ForceDeleteTaskTimeoutSeconds
	}
	if force != fmt.Sprint(wantForce*int64(time.Second)) {
		g.violate("C12", "c12.force-delete-timeout", "force delete timeout %s, expected %d s", force, wantForce)
	}
	var wantTTL int64
	if cfg.DefaultTTLSecondsAfterFinished != nil {
		wantTTL = *cfg.DefaultTTLSecondsAfterFinished
	}
	if rj.Spec.TTLSecondsAfterFinished != nil {
		wantTTL = *rj.Spec.TTLSecondsAfterFinished
		c.Count("branch.timeouts.ttl-job")
	} else {
		c.Count("branch.timeouts.ttl-config")
	}
	if ttl != fmt.Sprint(wantTTL*int64(time.Second)) {
		g.violate("C12", "c12.ttl", "ttl %s, expected %d s", ttl, wantTTL)
	}
}
