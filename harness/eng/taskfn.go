package eng

// Engine "taskfn": the pure function layer under the job controller, driven in-process on
// generated inputs and compared line by line with Model/{Task,ParallelStatus,JobStatus}.lean:
//
//	job.GetTaskRef / GenerateTaskRefs / UpdateJobTaskRefs / UpdateTaskRefDeletedStatusIfNotSet / SortTaskRefs
//	parallel.GetParallelStatus / GetParallelTaskSummary / GetParallelStatusCounters / ComputeMissingIndexesForCreation
//	job.GetCondition / GetPhase / IsStarted / IsQueued / IsActive / GetPendingTimeout / GetForceDeleteTimeout / GetTTLAfterFinished
//	jobcontroller.UpdateJobStatusFromTaskRefs
//	podtaskexecutor.PodTask.{GetState,GetResult,GetRunningTimestamp,GetFinishTimestamp,RequiresKillWithDeletion,GetTaskRef}
//
// The clock is virtual (ktime.Clock); parallel.HashIndex values are transmitted (oracle).
// Monitors (taskfn_mon.go) restate the pure clauses of C08/C10/C11/C12 on the real outputs.

import (
	"encoding/json"
	"fmt"
	"math/rand"
	"strconv"
	"time"

	corev1 "k8s.io/api/core/v1"
	metav1 "k8s.io/apimachinery/pkg/apis/meta/v1"
	fakeclock "k8s.io/utils/clock/testing"

	configv1alpha1 "github.com/furiko-io/furiko/apis/config/v1alpha1"
	execution "github.com/furiko-io/furiko/apis/execution/v1alpha1"
	"github.com/furiko-io/furiko/pkg/execution/controllers/jobcontroller"
	"github.com/furiko-io/furiko/pkg/execution/taskexecutor/podtaskexecutor"
	jobtasks "github.com/furiko-io/furiko/pkg/execution/tasks"
	jobutil "github.com/furiko-io/furiko/pkg/execution/util/job"
	"github.com/furiko-io/furiko/pkg/execution/util/parallel"
	"github.com/furiko-io/furiko/pkg/utils/ktime"
)

func init() { Register("taskfn", runTaskfn) }

const tfBase = int64(1700000000)

// StubTask is a tasks.Task backed by plain data (what GenerateTaskRefs reads from a live task).
type StubTask struct {
	Name string
	Ref  execution.TaskRef
	Del  *metav1.Time
}

var _ jobtasks.Task = (*StubTask)(nil)

func (s *StubTask) GetOwnerReferences() []metav1.OwnerReference { return nil }
func (s *StubTask) GetName() string                             { return s.Name }
func (s *StubTask) GetTaskRef() execution.TaskRef               { return *s.Ref.DeepCopy() }
func (s *StubTask) GetKind() string                             { return "Stub" }
func (s *StubTask) GetRetryIndex() (int64, bool)                { return s.Ref.RetryIndex, true }
func (s *StubTask) GetParallelIndex() (*execution.ParallelIndex, bool) {
	return s.Ref.ParallelIndex, s.Ref.ParallelIndex != nil
}
func (s *StubTask) GetDeletionTimestamp() *metav1.Time { return s.Del }

// EncTasks renders a task list.
func EncTasks(l []jobtasks.Task) string {
	if len(l) == 0 {
		return "-"
	}
	s := ""
	for i, t := range l {
		if i > 0 {
			s += "#"
		}
		s += EncTask(t)
	}
	return s
}

type tfGen struct {
	c   *Ctx
	rng *rand.Rand
	clk *fakeclock.FakeClock
	now time.Time
	big bool // thorough tier: larger shapes
	seq int  // fresh task names
}

var tfDefaultIndex = execution.ParallelIndex{IndexNumber: i64(0)}

// violate records a monitor failure.  Every failure is counted in the statistics; at most
// tfMaxRecorded per property are stored with their op lines (a broken tree fails thousands of
// cases of the exhaustive table; the first ones are the replay).
const tfMaxRecorded = 20

var tfRecorded = map[string]int{}

func (g *tfGen) violate(prop, monitor, format string, args ...interface{}) {
	g.c.Count("violations." + prop + "." + monitor)
	if tfRecorded[prop] >= tfMaxRecorded {
		return
	}
	tfRecorded[prop]++
	g.c.Violate(prop, monitor, format, args...)
}

func newTfGen(c *Ctx, rng *rand.Rand) *tfGen {
	g := &tfGen{c: c, rng: rng, big: c.Tier == "thorough"}
	g.clk = fakeclock.NewFakeClock(time.Unix(tfBase, 0))
	ktime.Clock = g.clk
	return g
}

// setNow moves the virtual clock and tells the model.
func (g *tfGen) setNow(t time.Time) {
	g.now = t
	g.clk.SetTime(t)
	g.c.Emit(fmt.Sprintf("taskfn.env %s %s", NanoStr(t), EncPIndexV(tfDefaultIndex)), "ok")
}

func (g *tfGen) pick(n int) int    { return g.rng.Intn(n) }
func (g *tfGen) chance(p int) bool { return g.rng.Intn(100) < p }

// randTime: boundary-biased instant around now.
func (g *tfGen) randTime() time.Time {
	switch r := g.pick(100); {
	case r < 55:
		return g.now.Add(-time.Duration(g.pick(5000)) * time.Second)
	case r < 65:
		return g.now.Add(time.Duration(g.pick(200)) * time.Second)
	case r < 75:
		return g.now
	case r < 79:
		return g.now.Add(-time.Nanosecond)
	case r < 83:
		return g.now.Add(time.Nanosecond)
	case r < 87:
		return g.now.Add(-time.Second)
	case r < 91:
		return g.now.Add(time.Second)
	case r < 93:
		return time.Unix(0, 0)
	case r < 94:
		return time.Unix(0, 500)
	default:
		return g.now.Add(-time.Duration(g.pick(100000)) * time.Millisecond * 7)
	}
}

func (g *tfGen) mt() metav1.Time { return metav1.NewTime(g.randTime()) }
func (g *tfGen) mtp() *metav1.Time {
	t := g.mt()
	return &t
}
func (g *tfGen) optTime(pNil int) *metav1.Time {
	if g.chance(pNil) {
		return nil
	}
	return g.mtp()
}

// ---------------------------------------------------------------- specs

func (g *tfGen) genSpec() *execution.ParallelismSpec {
	strategies := []execution.ParallelCompletionStrategy{"", "", execution.AllSuccessful, execution.AllSuccessful, execution.AnySuccessful, execution.AnySuccessful, execution.AnySuccessful, "Bogus"}
	st := strategies[g.pick(len(strategies))]
	maxN := 5
	if g.big && g.chance(20) {
		maxN = 40
	}
	switch r := g.pick(100); {
	case r < 22:
		return nil
	case r < 27:
		return &execution.ParallelismSpec{CompletionStrategy: st}
	case r < 30:
		return &execution.ParallelismSpec{WithCount: i64(0), CompletionStrategy: st}
	case r < 60:
		return &execution.ParallelismSpec{WithCount: i64(int64(1 + g.pick(maxN))), CompletionStrategy: st}
	case r < 80:
		n := 1 + g.pick(maxN)
		keys := make([]string, n)
		for i := range keys {
			keys[i] = fmt.Sprintf("key%d", i)
			if g.chance(4) && i > 0 {
				keys[i] = keys[g.pick(i)] // duplicate key => colliding hash
			}
		}
		return &execution.ParallelismSpec{WithKeys: keys, CompletionStrategy: st}
	default:
		m := map[string][]string{}
		nk := 1 + g.pick(2)
		for k := 0; k < nk; k++ {
			nv := 1 + g.pick(3)
			vals := make([]string, nv)
			for v := range vals {
				vals[v] = fmt.Sprintf("v%d", v)
			}
			m[fmt.Sprintf("d%d", k)] = vals
		}
		return &execution.ParallelismSpec{WithMatrix: m, CompletionStrategy: st}
	}
}

func (g *tfGen) genMaxAttempts() *int64 {
	switch r := g.pick(100); {
	case r < 12:
		return nil
	case r < 82:
		return i64(int64(1 + g.pick(5)))
	case r < 92:
		return i64(50)
	case r < 96:
		return i64(0)
	default:
		return i64(-1)
	}
}

func (g *tfGen) genDelay() *int64 {
	switch g.pick(5) {
	case 0:
		return nil
	case 1:
		return i64(0)
	case 2:
		return i64(1)
	default:
		return i64(60)
	}
}

func (g *tfGen) foreignIndex() execution.ParallelIndex {
	switch g.pick(3) {
	case 0:
		return execution.ParallelIndex{IndexNumber: i64(int64(90 + g.pick(5)))}
	case 1:
		return execution.ParallelIndex{IndexKey: fmt.Sprintf("zz%d", g.pick(3))}
	default:
		return execution.ParallelIndex{MatrixValues: map[string]string{"q": fmt.Sprint(g.pick(3))}}
	}
}

// ---------------------------------------------------------------- refs

type refOutcome int

const (
	roStarting refOutcome = iota
	roRunning
	roSucceeded
	roFailed
	roKilled
	roLost
	roKilling
)

// mkRef builds one TaskRef with the given outcome at the given creation time.
func (g *tfGen) mkRef(name string, ix *execution.ParallelIndex, retry int64, created time.Time, oc refOutcome) execution.TaskRef {
	r := execution.TaskRef{Name: name, CreationTimestamp: metav1.NewTime(created), RetryIndex: retry, ParallelIndex: ix}
	run := metav1.NewTime(created.Add(time.Duration(1+g.pick(5)) * time.Second))
	fin := metav1.NewTime(created.Add(time.Duration(6+g.pick(20)) * time.Second))
	switch oc {
	case roStarting:
		r.Status = execution.TaskStatus{State: execution.TaskStarting}
	case roRunning:
		r.Status = execution.TaskStatus{State: execution.TaskRunning}
		r.RunningTimestamp = &run
	case roKilling:
		r.Status = execution.TaskStatus{State: execution.TaskKilling}
		if g.chance(60) {
			r.RunningTimestamp = &run
		}
	case roSucceeded:
		r.Status = execution.TaskStatus{State: execution.TaskTerminated, Result: execution.TaskSucceeded}
		r.RunningTimestamp, r.FinishTimestamp = &run, &fin
	case roFailed:
		r.Status = execution.TaskStatus{State: execution.TaskTerminated, Result: execution.TaskFailed, Reason: "Error"}
		r.RunningTimestamp, r.FinishTimestamp = &run, &fin
	case roKilled:
		r.Status = execution.TaskStatus{State: execution.TaskTerminated, Result: execution.TaskKilled, Reason: "PendingTimeout"}
		r.FinishTimestamp = &fin
	case roLost:
		r.Status = execution.TaskStatus{State: execution.TaskDeletedFinalStateUnknown}
		r.FinishTimestamp = &fin
		if g.chance(50) {
			r.RunningTimestamp = &run
		}
	}
	if r.FinishTimestamp != nil && g.chance(60) {
		r.DeletedStatus = r.Status.DeepCopy()
	}
	return r
}

// noise perturbs a ref outside what the controller would write.
func (g *tfGen) noise(r *execution.TaskRef) {
	switch g.pick(12) {
	case 0:
		r.RunningTimestamp = nil
	case 1:
		r.FinishTimestamp = nil
	case 2:
		r.FinishTimestamp = g.mtp()
	case 3:
		r.Status.Result = execution.TaskSucceeded
	case 4:
		r.Status.Result = ""
	case 5:
		r.DeletedStatus = &execution.TaskStatus{State: execution.TaskTerminated, Result: execution.TaskKilled, Reason: "Killed"}
	case 6:
		r.DeletedStatus = nil
	case 7:
		r.CreationTimestamp = metav1.Time{}
	case 8:
		r.RunningTimestamp = g.mtp()
	case 9:
		r.RetryIndex += int64(g.pick(3))
	case 10:
		r.CreationTimestamp = g.mt()
	case 11:
		z := metav1.Time{}
		r.FinishTimestamp = &z // non-nil pointer to the zero time: IsZero
	}
}

// genRefs builds a TaskRef list for the given spec indexes.
func (g *tfGen) genRefs(job string, idxs []execution.ParallelIndex, parallel_ bool, maxAttempts int64, noisy bool) []execution.TaskRef {
	var refs []execution.TaskRef
	t0 := g.now.Add(-time.Duration(600+g.pick(3000)) * time.Second)
	lastOutcomes := []refOutcome{roStarting, roStarting, roRunning, roRunning, roSucceeded, roSucceeded, roFailed, roFailed, roKilled, roLost, roKilling}
	midOutcomes := []refOutcome{roFailed, roFailed, roFailed, roKilled, roLost}
	used := map[string]bool{}
	uniq := func(name string) string {
		for used[name] {
			name += "-g"
		}
		used[name] = true
		return name
	}
	addIndex := func(ix execution.ParallelIndex, nilPtr bool) {
		cap_ := maxAttempts
		if cap_ < 1 {
			cap_ = 1
		}
		if cap_ > 4 {
			cap_ = 4
		}
		k := g.pick(int(cap_) + 1)
		if noisy && g.chance(10) {
			k = int(cap_) + 1 + g.pick(2) // more refs than maxAttempts allows
		}
		if g.chance(25) {
			k = int(cap_)
		}
		var pix *execution.ParallelIndex
		if !nilPtr {
			c := ix
			pix = &c
		}
		h := HashOf(ix)
		t := t0.Add(time.Duration(g.pick(30)) * time.Second)
		for r := 0; r < k; r++ {
			oc := midOutcomes[g.pick(len(midOutcomes))]
			if r == k-1 {
				oc = lastOutcomes[g.pick(len(lastOutcomes))]
			} else if noisy && g.chance(8) {
				oc = lastOutcomes[g.pick(len(lastOutcomes))] // live or succeeded attempt followed by another
			}
			retry := int64(r)
			name := fmt.Sprintf("%s-%s-%d", job, h, retry)
			if noisy && g.chance(6) {
				retry++ // gap
				name = fmt.Sprintf("%s-%s-%d", job, h, retry)
			}
			name = uniq(name) // full (creation, name) ties with different content only in short lists, see SortTaskRefs
			ref := g.mkRef(name, pix, retry, t, oc)
			if noisy && g.chance(15) {
				g.noise(&ref)
			}
			refs = append(refs, ref)
			if noisy && g.chance(4) {
				dup := g.mkRef(uniq(name+"-dup"), pix, retry, t, lastOutcomes[g.pick(len(lastOutcomes))])
				refs = append(refs, dup)
			}
			t = t.Add(time.Duration(g.pick(90)) * time.Second)
			if g.chance(10) {
				t = t.Add(-time.Duration(g.pick(90)) * time.Second) // equal / out-of-order creation times
			}
		}
	}
	for _, ix := range idxs {
		if g.chance(12) {
			continue
		}
		nilPtr := !parallel_ && g.chance(50)
		addIndex(ix, nilPtr)
	}
	if noisy && g.chance(12) {
		addIndex(g.foreignIndex(), false)
	}
	if noisy && parallel_ && g.chance(6) {
		addIndex(tfDefaultIndex, true) // nil ParallelIndex in a parallel job (foreign unless index 0 exists)
	}
	if g.chance(20) {
		g.rng.Shuffle(len(refs), func(i, j int) { refs[i], refs[j] = refs[j], refs[i] })
	} else {
		jobutil.SortTaskRefs(refs)
	}
	return refs
}

// observeTasks builds a live task list relative to existing refs: some vanished, some
// progressed / flapping, some new; permuted.
func (g *tfGen) observeTasks(refs []execution.TaskRef, idxs []execution.ParallelIndex, job string, allowDupNames bool) []jobtasks.Task {
	var out []jobtasks.Task
	for _, r := range refs {
		if g.chance(30) {
			continue // vanished
		}
		obs := execution.TaskRef{Name: r.Name, CreationTimestamp: r.CreationTimestamp, RetryIndex: r.RetryIndex, ParallelIndex: r.ParallelIndex.DeepCopy()}
		if g.chance(5) {
			obs.CreationTimestamp = g.mt()
		}
		var del *metav1.Time
		switch g.pick(7) {
		case 0: // reports nothing (flap back)
			obs.Status.State = execution.TaskStarting
		case 1:
			obs.Status.State = execution.TaskRunning
			obs.RunningTimestamp = g.mtp()
		case 2:
			obs.Status = execution.TaskStatus{State: execution.TaskTerminated, Result: execution.TaskSucceeded}
			obs.RunningTimestamp, obs.FinishTimestamp = g.mtp(), g.mtp()
		case 3:
			obs.Status = execution.TaskStatus{State: execution.TaskTerminated, Result: execution.TaskFailed, Reason: "OOMKilled"}
			obs.FinishTimestamp = g.mtp()
		case 4:
			obs.Status.State = execution.TaskKilling
			del = g.mtp()
			if g.chance(50) {
				obs.RunningTimestamp = r.RunningTimestamp.DeepCopy()
			}
		case 5: // unchanged view
			obs.Status = r.Status
			obs.RunningTimestamp, obs.FinishTimestamp = r.RunningTimestamp.DeepCopy(), r.FinishTimestamp.DeepCopy()
		case 6: // finished and being deleted
			obs.Status = execution.TaskStatus{State: execution.TaskTerminated, Result: execution.TaskFailed}
			obs.FinishTimestamp = g.mtp()
			del = g.mtp()
		}
		if g.chance(3) {
			obs.DeletedStatus = &execution.TaskStatus{State: execution.TaskTerminated, Result: execution.TaskKilled}
		}
		name := r.Name
		if allowDupNames && len(refs) <= 4 && g.chance(4) {
			name = r.Name + "-x" // GetName() differs from GetTaskRef().Name (yields two refs of one name)
		}
		out = append(out, &StubTask{Name: name, Ref: obs, Del: del})
	}
	// new tasks
	nNew := 0
	if g.chance(40) {
		nNew = 1 + g.pick(3)
	}
	for k := 0; k < nNew; k++ {
		ix := tfDefaultIndex
		if len(idxs) > 0 {
			ix = idxs[g.pick(len(idxs))]
		}
		c := ix
		g.seq++
		name := fmt.Sprintf("%s-%s-n%d", job, HashOf(ix), g.seq)
		ref := g.mkRef(name, &c, int64(g.pick(4)), g.randTime(), refOutcome(g.pick(7)))
		ref.DeletedStatus = nil
		out = append(out, &StubTask{Name: name, Ref: ref})
	}
	if allowDupNames && len(out) > 0 && len(out)+len(refs) <= 8 && g.chance(15) {
		d := *(out[g.pick(len(out))].(*StubTask))
		d.Ref.Status.State = execution.TaskRunning
		out = append(out, &d)
	}
	g.rng.Shuffle(len(out), func(i, j int) { out[i], out[j] = out[j], out[i] })
	return out
}

// ---------------------------------------------------------------- jobs

func (g *tfGen) genKill() *metav1.Time {
	switch r := g.pick(100); {
	case r < 50:
		return nil
	case r < 65:
		t := metav1.NewTime(g.now.Add(-time.Duration(1+g.pick(500)) * time.Second))
		return &t
	case r < 75:
		t := metav1.NewTime(g.now.Add(time.Duration(1+g.pick(500)) * time.Second))
		return &t
	case r < 85:
		t := metav1.NewTime(g.now)
		return &t
	case r < 90:
		t := metav1.NewTime(g.now.Add(time.Nanosecond))
		return &t
	case r < 95:
		t := metav1.NewTime(g.now.Add(-time.Nanosecond))
		return &t
	default:
		return &metav1.Time{} // non-nil zero
	}
}

func (g *tfGen) genJob(noisy bool) *execution.Job {
	rj := &execution.Job{ObjectMeta: metav1.ObjectMeta{Name: "j", Namespace: "ns"}}
	spec := g.genSpec()
	if !g.chance(4) {
		rj.Spec.Template = &execution.JobTemplate{
			Parallelism:       spec,
			MaxAttempts:       g.genMaxAttempts(),
			RetryDelaySeconds: g.genDelay(),
		}
		switch g.pick(5) {
		case 0:
			rj.Spec.Template.TaskPendingTimeoutSeconds = i64(0)
		case 1:
			rj.Spec.Template.TaskPendingTimeoutSeconds = i64(int64(1 + g.pick(1000)))
		case 2:
			rj.Spec.Template.TaskPendingTimeoutSeconds = i64(-1)
		}
		rj.Spec.Template.ForbidTaskForceDeletion = g.chance(20)
	} else {
		spec = nil
	}
	rj.Spec.KillTimestamp = g.genKill()
	switch g.pick(4) {
	case 0:
		rj.Spec.TTLSecondsAfterFinished = i64(0)
	case 1:
		rj.Spec.TTLSecondsAfterFinished = i64(int64(g.pick(7200)))
	}
	if g.chance(8) {
		rj.Annotations = map[string]string{jobutil.LabelKeyAdmissionErrorMessage: "refused"}
	}
	if g.chance(12) {
		rj.DeletionTimestamp = g.mtp()
	}
	switch g.pick(6) {
	case 0:
		rj.Spec.StartPolicy = &execution.StartPolicySpec{ConcurrencyPolicy: execution.ConcurrencyPolicyEnqueue}
	case 1:
		rj.Spec.StartPolicy = &execution.StartPolicySpec{ConcurrencyPolicy: execution.ConcurrencyPolicyAllow, StartAfter: g.mtp()}
	case 2:
		rj.Spec.StartPolicy = &execution.StartPolicySpec{ConcurrencyPolicy: execution.ConcurrencyPolicyForbid}
	}
	if !g.chance(12) {
		t := metav1.NewTime(g.now.Add(-time.Duration(3600+g.pick(3600)) * time.Second))
		rj.Status.StartTime = &t
	}
	idxs := parallel.GenerateIndexes(spec)
	rj.Status.Tasks = g.genRefs("j", idxs, spec != nil, rj.GetMaxAttempts(), noisy)
	rj.Status.CreatedTasks = int64(len(rj.Status.Tasks))
	if g.chance(10) {
		rj.Status.CreatedTasks = int64(g.pick(4))
	}
	// previous condition (read by the admission-error branch)
	switch g.pick(6) {
	case 0:
		rj.Status.Condition.Finished = &execution.JobConditionFinished{FinishTimestamp: g.mt(), Result: execution.JobResultAdmissionError}
	case 1:
		rj.Status.Condition.Finished = &execution.JobConditionFinished{Result: execution.JobResultAdmissionError}
	case 2:
		rj.Status.Condition.Running = &execution.JobConditionRunning{}
	}
	return rj
}

func specIndexes(rj *execution.Job) []execution.ParallelIndex {
	if rj.Spec.Template == nil {
		return parallel.GenerateIndexes(nil)
	}
	return parallel.GenerateIndexes(rj.Spec.Template.Parallelism)
}

// ---------------------------------------------------------------- ops on the real code

func (g *tfGen) opSummary(rj *execution.Job) {
	var sm execution.ParallelStatusSummary
	out := Guard(func() string {
		s, err := parallel.GetParallelTaskSummary(rj, rj.Status.Tasks)
		if err != nil {
			return "err"
		}
		sm = s
		return B(s.Complete) + " " + encOptBool(s.Successful)
	})
	g.c.Count("op.summary")
	g.c.Emit("taskfn.summary "+EncJob(rj), out)
	if out != "panic" && out != "err" {
		monSummary(g, rj, sm)
	}
}

func (g *tfGen) opPStatus(rj *execution.Job) {
	var ps execution.ParallelStatus
	out := Guard(func() string {
		s, err := parallel.GetParallelStatus(rj, rj.Status.Tasks)
		if err != nil {
			return "err"
		}
		ps = s
		return EncPStatus(&s)
	})
	g.c.Count("op.pstatus")
	g.c.Emit("taskfn.pstatus "+EncJob(rj), out)
	if out != "panic" && out != "err" {
		monPStatus(g, rj, ps)
		for _, is := range ps.Indexes {
			g.c.Count("branch.index-state." + string(is.State))
			g.c.Count("branch.index-result." + string(is.Result))
		}
		cnt := Guard(func() string {
			c := parallel.GetParallelStatusCounters(ps.Indexes)
			return fmt.Sprintf("%d %d %d %d %d %d %d", c.Created, c.Starting, c.Running, c.RetryBackoff, c.Terminated, c.Succeeded, c.Failed)
		})
		g.c.Emit("taskfn.counters "+EncIndexStatuses(ps.Indexes), cnt)
	}
}

func (g *tfGen) opMissing(rj *execution.Job, idxs []execution.ParallelIndex) {
	var reqs []parallel.IndexCreationRequest
	out := Guard(func() string {
		r, err := parallel.ComputeMissingIndexesForCreation(rj, idxs)
		if err != nil {
			return "err"
		}
		reqs = r
		return EncRequests(r)
	})
	g.c.Count("op.missing")
	if out == "panic" {
		g.c.Count("branch.missing.panic")
	} else if len(reqs) == 0 {
		g.c.Count("branch.missing.none")
	} else {
		g.c.Count("branch.missing.some")
	}
	g.c.Emit("taskfn.missing "+EncJob(rj)+" "+EncPIndexes(idxs), out)
	if out != "panic" && out != "err" {
		monMissing(g, rj, idxs, reqs)
	}
}

func (g *tfGen) opCond(rj *execution.Job) {
	var cond execution.JobCondition
	out := Guard(func() string {
		c, err := jobutil.GetCondition(rj)
		if err != nil {
			return "err"
		}
		cond = c
		return EncCondition(c)
	})
	g.c.Count("op.cond")
	g.c.Emit("taskfn.cond "+EncJob(rj), out)
	if out != "panic" && out != "err" {
		g.countCond("cond", cond)
		monCondition(g, rj, cond, "cond")
	}
}

func (g *tfGen) countCond(pfx string, c execution.JobCondition) {
	switch {
	case c.Queueing != nil:
		g.c.Count("branch." + pfx + ".Queueing." + c.Queueing.Reason)
	case c.Waiting != nil:
		g.c.Count("branch." + pfx + ".Waiting." + c.Waiting.Reason)
	case c.Running != nil:
		if c.Running.TerminatingTasks > 0 {
			g.c.Count("branch." + pfx + ".Running.terminating")
		} else {
			g.c.Count("branch." + pfx + ".Running")
		}
	case c.Finished != nil:
		g.c.Count("branch." + pfx + ".Finished." + string(c.Finished.Result))
	}
}

func (g *tfGen) opPhase(rj *execution.Job) {
	out := Guard(func() string { return Q(string(jobutil.GetPhase(rj))) })
	g.c.Count("op.phase")
	g.c.Count("branch.phase." + out)
	g.c.Emit("taskfn.phase "+EncJob(rj), out)
}

// opUpdate runs UpdateJobStatusFromTaskRefs; returns the new job (nil on panic / error).
func (g *tfGen) opUpdate(rj *execution.Job) *execution.Job {
	var nj *execution.Job
	out := Guard(func() string {
		n, err := jobcontroller.UpdateJobStatusFromTaskRefs(rj)
		if err != nil {
			return "err"
		}
		nj = n
		return EncJState(n.Status.State) + " " + Q(string(n.Status.Phase)) + " " + EncCondition(n.Status.Condition) + " " + EncPStatus(n.Status.ParallelStatus)
	})
	g.c.Count("op.update")
	if out == "panic" {
		g.c.Count("branch.update.panic")
	}
	g.c.Emit("taskfn.update "+EncJob(rj), out)
	if nj != nil {
		g.countCond("update", nj.Status.Condition)
		g.c.Count("branch.update.phase." + string(nj.Status.Phase))
		monUpdate(g, rj, nj)
	}
	return nj
}

func (g *tfGen) opFlags(rj *execution.Job) {
	out := Guard(func() string {
		return B(jobutil.IsStarted(rj)) + " " + B(jobutil.IsQueued(rj)) + " " + B(jobutil.IsActive(rj)) + " " + B(rj.Status.Phase.IsTerminal())
	})
	g.c.Count("op.flags")
	g.c.Emit("taskfn.flags "+EncJob(rj), out)
}

func (g *tfGen) genCfgVal() *int64 {
	switch g.pick(5) {
	case 0:
		return nil
	case 1:
		return i64(0)
	case 2:
		return i64(900)
	case 3:
		return i64(int64(1 + g.pick(5000)))
	default:
		return i64(-5)
	}
}

func (g *tfGen) opTimeouts(rj *execution.Job) {
	cfg := &configv1alpha1.JobExecutionConfig{
		DefaultTTLSecondsAfterFinished: g.genCfgVal(),
		DefaultPendingTimeoutSeconds:   g.genCfgVal(),
		ForceDeleteTaskTimeoutSeconds:  g.genCfgVal(),
	}
	pend := Guard(func() string { return fmt.Sprint(int64(jobutil.GetPendingTimeout(rj, cfg))) })
	force := Guard(func() string { return fmt.Sprint(int64(jobutil.GetForceDeleteTimeout(cfg))) })
	ttl := Guard(func() string { return fmt.Sprint(int64(jobutil.GetTTLAfterFinished(rj, cfg))) })
	g.c.Count("op.timeouts")
	if pend == "panic" {
		g.c.Count("branch.timeouts.pending-panic")
	}
	g.c.Emit(fmt.Sprintf("taskfn.timeouts %s %s %s %s", EncJob(rj), OptI(cfg.DefaultTTLSecondsAfterFinished),
		OptI(cfg.DefaultPendingTimeoutSeconds), OptI(cfg.ForceDeleteTaskTimeoutSeconds)), pend+" "+force+" "+ttl)
	monTimeouts(g, rj, cfg, pend, force, ttl)
}

func (g *tfGen) opGenRefs(existing []execution.TaskRef, tasks []jobtasks.Task) []execution.TaskRef {
	var res []execution.TaskRef
	out := Guard(func() string {
		res = jobutil.GenerateTaskRefs(existing, tasks)
		return EncTaskRefs(res)
	})
	g.c.Count("op.genrefs")
	g.c.Emit("taskfn.genrefs "+EncTaskRefs(existing)+" "+EncTasks(tasks), out)
	if out != "panic" {
		monGenRefs(g, existing, tasks, res)
	}
	return res
}

func (g *tfGen) opUpdRefs(rj *execution.Job, tasks []jobtasks.Task) *execution.Job {
	var nj *execution.Job
	out := Guard(func() string {
		nj = jobutil.UpdateJobTaskRefs(rj, tasks)
		return fmt.Sprintf("%d %d %s", nj.Status.CreatedTasks, nj.Status.RunningTasks, EncTaskRefs(nj.Status.Tasks))
	})
	g.c.Count("op.updrefs")
	g.c.Emit("taskfn.updrefs "+EncTaskRefs(rj.Status.Tasks)+" "+EncTasks(tasks), out)
	if nj != nil {
		monUpdRefs(g, rj, tasks, nj)
	}
	return nj
}

func (g *tfGen) opGetTaskRef(existing *execution.TaskRef, task jobtasks.Task) {
	var res execution.TaskRef
	out := Guard(func() string {
		res = jobutil.GetTaskRef(existing, task)
		return EncTaskRef(res)
	})
	ex := "~"
	if existing != nil {
		ex = EncTaskRef(*existing)
		g.c.Count("branch.gettaskref.existing")
	} else {
		g.c.Count("branch.gettaskref.new")
	}
	g.c.Count("op.gettaskref")
	g.c.Emit("taskfn.gettaskref "+ex+" "+EncTask(task), out)
	if out != "panic" {
		monGetTaskRef(g, existing, task, res)
	}
}

func (g *tfGen) opSort(refs []execution.TaskRef) {
	cp := make([]execution.TaskRef, len(refs))
	copy(cp, refs)
	out := Guard(func() string {
		jobutil.SortTaskRefs(cp)
		return EncTaskRefs(cp)
	})
	g.c.Count("op.sort")
	g.c.Emit("taskfn.sort "+EncTaskRefs(refs), out)
}

func (g *tfGen) opDelStatus(rj *execution.Job, name string, st execution.TaskStatus) *execution.Job {
	var nj *execution.Job
	out := Guard(func() string {
		nj = jobutil.UpdateTaskRefDeletedStatusIfNotSet(rj, name, st)
		return EncTaskRefs(nj.Status.Tasks)
	})
	g.c.Count("op.delstatus")
	g.c.Emit("taskfn.delstatus "+EncTaskRefs(rj.Status.Tasks)+" "+Q(name)+" "+EncStatus(st), out)
	return nj
}

// ---------------------------------------------------------------- pods

func (g *tfGen) genTerm() *corev1.ContainerStateTerminated {
	reasons := []string{"OOMKilled", "Error", "Completed", "", "ContainerCannotRun", "OOMKilled"}
	t := &corev1.ContainerStateTerminated{Reason: reasons[g.pick(len(reasons))], ExitCode: int32(g.pick(3) * 137 % 256)}
	if !g.chance(15) {
		t.StartedAt = g.mt()
	}
	if !g.chance(25) {
		t.FinishedAt = g.mt()
	}
	if g.chance(30) {
		t.Message = "msg"
	}
	return t
}

func (g *tfGen) genContainer() corev1.ContainerStatus {
	c := corev1.ContainerStatus{Name: "c", ContainerID: "cid"}
	switch r := g.pick(100); {
	case r < 25:
		c.State.Waiting = &corev1.ContainerStateWaiting{Reason: "ContainerCreating"}
		if g.chance(50) {
			c.State.Waiting.Message = "pulling"
		}
	case r < 50:
		c.State.Running = &corev1.ContainerStateRunning{}
		if !g.chance(15) {
			c.State.Running.StartedAt = g.mt()
		}
	case r < 90:
		c.State.Terminated = g.genTerm()
	case r < 95: // several members set at once
		c.State.Running = &corev1.ContainerStateRunning{StartedAt: g.mt()}
		c.State.Terminated = g.genTerm()
	default: // nothing set
	}
	if g.chance(25) {
		c.LastTerminationState.Terminated = g.genTerm()
	}
	return c
}

func (g *tfGen) genPod(name string, idxs []execution.ParallelIndex) *corev1.Pod {
	phases := []corev1.PodPhase{corev1.PodPending, corev1.PodPending, corev1.PodRunning, corev1.PodRunning, corev1.PodSucceeded, corev1.PodSucceeded, corev1.PodFailed, corev1.PodFailed, corev1.PodUnknown, ""}
	p := &corev1.Pod{ObjectMeta: metav1.ObjectMeta{Name: name, Namespace: "ns"}}
	if !g.chance(5) {
		p.CreationTimestamp = g.mt()
	}
	if g.chance(30) {
		p.DeletionTimestamp = g.mtp()
	}
	p.Status.Phase = phases[g.pick(len(phases))]
	if !g.chance(30) {
		p.Status.StartTime = g.mtp()
	}
	switch g.pick(6) {
	case 0:
		p.Status.Reason = "DeadlineExceeded"
	case 1:
		p.Status.Reason, p.Status.Message = "Evicted", "node pressure"
	case 2:
		p.Status.Reason, p.Status.Message = "DeadlineExceeded", "Pod was active on the node longer than the specified deadline"
	}
	switch g.pick(4) {
	case 0:
		p.Spec.ActiveDeadlineSeconds = i64(0)
	case 1:
		p.Spec.ActiveDeadlineSeconds = i64(int64(1 + g.pick(300)))
	}
	p.Labels = map[string]string{}
	switch r := g.pick(10); {
	case r < 7:
		p.Labels[podtaskexecutor.LabelKeyTaskRetryIndex] = strconv.Itoa(g.pick(5))
	case r < 8:
		p.Labels[podtaskexecutor.LabelKeyTaskRetryIndex] = "abc"
	case r < 9:
		p.Labels[podtaskexecutor.LabelKeyTaskRetryIndex] = "-1"
	}
	p.Annotations = map[string]string{}
	switch r := g.pick(10); {
	case r < 7:
		ix := tfDefaultIndex
		if len(idxs) > 0 {
			ix = idxs[g.pick(len(idxs))]
		}
		b, _ := json.Marshal(ix)
		p.Annotations[podtaskexecutor.AnnotationKeyTaskParallelIndex] = string(b)
	case r < 8:
		p.Annotations[podtaskexecutor.AnnotationKeyTaskParallelIndex] = "{bad"
	case r < 9:
		p.Annotations[podtaskexecutor.AnnotationKeyTaskParallelIndex] = "{}"
	}
	switch g.pick(4) {
	case 0:
		p.Status.Conditions = append(p.Status.Conditions, corev1.PodCondition{Type: corev1.PodScheduled, Status: corev1.ConditionTrue})
	case 1:
		p.Status.Conditions = append(p.Status.Conditions, corev1.PodCondition{Type: corev1.PodScheduled, Status: corev1.ConditionFalse, Reason: "Unschedulable", Message: "0/3 nodes"})
	case 2:
		p.Status.Conditions = append(p.Status.Conditions, corev1.PodCondition{Type: corev1.PodInitialized, Status: corev1.ConditionFalse, Reason: "ContainersNotInitialized", Message: "init"})
	}
	nc := g.pick(4)
	for k := 0; k < nc; k++ {
		p.Status.ContainerStatuses = append(p.Status.ContainerStatuses, g.genContainer())
	}
	if g.chance(20) {
		p.Status.InitContainerStatuses = append(p.Status.InitContainerStatuses, g.genContainer())
	}
	if g.chance(40) {
		p.Spec.NodeName = "node1"
	}
	return p
}

// opPod drives every PodTask accessor; returns the task when GetTaskRef does not panic.
func (g *tfGen) opPod(p *corev1.Pod) jobtasks.Task {
	pt := podtaskexecutor.NewPodTask(p, nil)
	state := Guard(func() string { return EncTState(pt.GetState()) })
	res := Guard(func() string { return EncTRes(pt.GetResult()) })
	run := Guard(func() string { return EncTime(pt.GetRunningTimestamp()) })
	fin := Guard(func() string { return EncTime(pt.GetFinishTimestamp()) })
	kwd := Guard(func() string { return B(pt.RequiresKillWithDeletion()) })
	ref := Guard(func() string { return EncTaskRef(pt.GetTaskRef()) })
	g.c.Count("op.pod")
	g.c.Count("branch.pod.phase." + encPhase(p.Status.Phase))
	g.c.Count("branch.pod.state." + state)
	g.c.Count("branch.pod.result." + res)
	if fin == "panic" {
		g.c.Count("branch.pod.finish-panic")
	}
	g.c.Emit("taskfn.pod "+EncPod(p), state+" "+res+" "+run+" "+fin+" "+kwd+" "+ref)
	monPod(g, p, pt, state, res, fin)
	if ref == "panic" {
		return nil
	}
	return pt
}

// ---------------------------------------------------------------- case streams

// jobPipeline mirrors the order of one sync: refresh refs from tasks, recompute status, ask
// for missing indexes; repeated for a few steps with the real code's own output as next input.
func (g *tfGen) jobPipeline(noisy bool) {
	rj := g.genJob(noisy)
	if len(rj.Status.Tasks) >= 2 {
		g.c.Nontrivial()
	}
	steps := 1 + g.pick(3)
	for s := 0; s < steps; s++ {
		idxs := specIndexes(rj)
		// status functions on the job as it is
		if nj := g.opUpdate(rj); nj != nil {
			g.opPhase(nj)
			g.opFlags(nj)
			if g.chance(50) {
				g.opMissingVariants(nj, idxs, noisy)
			}
			rj = nj
		}
		g.opCond(rj)
		g.opPStatus(rj)
		g.opSummary(rj)
		g.opMissingVariants(rj, idxs, noisy)
		if g.chance(35) {
			g.opTimeouts(rj)
		}
		// next observation
		g.setNow(g.now.Add(time.Duration(g.pick(120)) * time.Second).Add(time.Duration(g.pick(2)) * time.Nanosecond * time.Duration(g.pick(1000))))
		tasks := g.observeTasks(rj.Status.Tasks, idxs, "j", noisy && s == steps-1)
		if nj := g.opUpdRefs(rj, tasks); nj != nil {
			rj = nj
		}
		if g.chance(15) && len(rj.Status.Tasks) > 0 {
			name := rj.Status.Tasks[g.pick(len(rj.Status.Tasks))].Name
			if nj := g.opDelStatus(rj, name, execution.TaskStatus{State: execution.TaskTerminated, Result: execution.TaskKilled, Reason: "Killed"}); nj != nil {
				rj = nj
			}
		}
		if g.chance(10) {
			rj.Spec.KillTimestamp = g.genKill()
		}
		if g.chance(5) {
			rj.DeletionTimestamp = g.mtp()
		}
	}
	g.opUpdate(rj)
}

func (g *tfGen) opMissingVariants(rj *execution.Job, idxs []execution.ParallelIndex, noisy bool) {
	g.opMissing(rj, idxs)
	if noisy && g.chance(15) {
		// a different index list than the spec's: reordered, truncated, duplicated, empty
		alt := append([]execution.ParallelIndex(nil), idxs...)
		switch g.pick(4) {
		case 0:
			g.rng.Shuffle(len(alt), func(i, j int) { alt[i], alt[j] = alt[j], alt[i] })
		case 1:
			if len(alt) > 0 {
				alt = alt[:g.pick(len(alt))]
			}
		case 2:
			if len(alt) > 0 {
				alt = append(alt, alt[g.pick(len(alt))])
			}
		case 3:
			alt = nil
		}
		g.opMissing(rj, alt)
	}
}

func (g *tfGen) podCase() {
	spec := g.genSpec()
	idxs := parallel.GenerateIndexes(spec)
	n := 1 + g.pick(4)
	var tasks []jobtasks.Task
	withConts := false
	for k := 0; k < n; k++ {
		p := g.genPod(fmt.Sprintf("j-p%d", k), idxs)
		if len(p.Status.ContainerStatuses) > 0 {
			withConts = true
		}
		if t := g.opPod(p); t != nil {
			tasks = append(tasks, t)
		}
	}
	if withConts {
		g.c.Nontrivial()
	}
	// feed the real PodTasks through GenerateTaskRefs twice (second time with some gone)
	refs := g.opGenRefs(nil, tasks)
	g.setNow(g.now.Add(time.Duration(1+g.pick(50)) * time.Second))
	var keep []jobtasks.Task
	for _, t := range tasks {
		if g.chance(60) {
			keep = append(keep, t)
		}
	}
	g.opGenRefs(refs, keep)
}

func (g *tfGen) refCase() {
	spec := g.genSpec()
	idxs := parallel.GenerateIndexes(spec)
	refs := g.genRefs("j", idxs, spec != nil, int64(1+g.pick(4)), true)
	if len(refs) >= 2 {
		g.c.Nontrivial()
	}
	tasks := g.observeTasks(refs, idxs, "j", true)
	for _, t := range tasks {
		var ex *execution.TaskRef
		for i := range refs {
			if refs[i].Name == t.GetName() {
				ex = &refs[i]
			}
		}
		if g.chance(15) {
			ex = nil
		}
		g.opGetTaskRef(ex, t)
	}
	res := g.opGenRefs(refs, tasks)
	g.opSort(refs)
	if len(refs) <= 10 && len(refs) > 0 && g.chance(30) {
		// exact duplicates of (creation, name): insertion-sorted by sort.Slice for n <= 12
		d := append([]execution.TaskRef(nil), refs...)
		d = append(d, refs[g.pick(len(refs))])
		g.opSort(d)
	}
	g.setNow(g.now.Add(time.Duration(g.pick(30)) * time.Second))
	g.opGenRefs(res, g.observeTasks(res, idxs, "j", false))
	rj := &execution.Job{}
	rj.Status.Tasks = refs
	if len(refs) > 0 {
		g.opDelStatus(rj, refs[g.pick(len(refs))].Name, execution.TaskStatus{State: execution.TaskTerminated, Result: execution.TaskKilled, Reason: "ForceDeleted"})
	}
	g.opDelStatus(rj, "nosuch", execution.TaskStatus{})
}

// freeCase: arbitrary (also incoherent) statuses for GetPhase / counters / flags / timeouts.
func (g *tfGen) freeCase() {
	rj := g.genJob(true)
	g.c.Nontrivial()
	idxs := specIndexes(rj)
	istates := []execution.IndexState{execution.IndexNotCreated, execution.IndexRetryBackoff, execution.IndexStarting, execution.IndexRunning, execution.IndexTerminated, ""}
	tres := []execution.TaskResult{"", "", execution.TaskSucceeded, execution.TaskFailed, execution.TaskKilled}
	for rep := 0; rep < 3; rep++ {
		rj.Status.Condition = execution.JobCondition{}
		if g.chance(30) {
			rj.Status.Condition.Queueing = &execution.JobConditionQueueing{}
		}
		if g.chance(40) {
			rj.Status.Condition.Waiting = &execution.JobConditionWaiting{Reason: "PendingCreation"}
		}
		if g.chance(30) {
			rj.Status.Condition.Running = &execution.JobConditionRunning{TerminatingTasks: int64(g.pick(3))}
		}
		if g.chance(25) {
			results := []execution.JobResult{execution.JobResultSuccess, execution.JobResultFailed, execution.JobResultKilled, execution.JobResultAdmissionError, execution.JobResultFinalStateUnknown, ""}
			rj.Status.Condition.Finished = &execution.JobConditionFinished{Result: results[g.pick(len(results))], FinishTimestamp: g.mt()}
		}
		rj.Status.ParallelStatus = nil
		if g.chance(60) {
			ps := &execution.ParallelStatus{}
			for _, ix := range idxs {
				ps.Indexes = append(ps.Indexes, execution.ParallelIndexStatus{Index: ix, Hash: HashOf(ix), CreatedTasks: int64(g.pick(4)),
					State: istates[g.pick(len(istates))], Result: tres[g.pick(len(tres))]})
			}
			ps.Complete = g.chance(40)
			if g.chance(50) {
				b := g.chance(50)
				ps.Successful = &b
			}
			rj.Status.ParallelStatus = ps
			cnt := Guard(func() string {
				c := parallel.GetParallelStatusCounters(ps.Indexes)
				return fmt.Sprintf("%d %d %d %d %d %d %d", c.Created, c.Starting, c.Running, c.RetryBackoff, c.Terminated, c.Succeeded, c.Failed)
			})
			g.c.Count("op.counters")
			g.c.Emit("taskfn.counters "+EncIndexStatuses(ps.Indexes), cnt)
		}
		rj.Status.CreatedTasks = int64(g.pick(4))
		g.opPhase(rj)
		phases := []execution.JobPhase{execution.JobQueued, execution.JobStarting, execution.JobAdmissionError, execution.JobPending, execution.JobRunning, execution.JobTerminating,
			execution.JobRetryBackoff, execution.JobRetrying, execution.JobSucceeded, execution.JobFailed, execution.JobKilling, execution.JobKilled, execution.JobFinishedUnknown, "", "Bogus"}
		rj.Status.Phase = phases[g.pick(len(phases))]
		g.opFlags(rj)
		g.opTimeouts(rj)
	}
}

func runTaskfn(c *Ctx) {
	tfCorpus(c)
	tfExhaustive(c)
	c.ForCases(func(i int, rng *rand.Rand) {
		g := newTfGen(c, rng)
		g.setNow(time.Unix(tfBase+int64(rng.Intn(100000)), 0))
		switch r := i % 20; {
		case r < 7:
			c.Count("stream.job-valid")
			g.jobPipeline(false)
		case r < 12:
			c.Count("stream.job-noisy")
			g.jobPipeline(true)
		case r < 15:
			c.Count("stream.pods")
			g.podCase()
		case r < 18:
			c.Count("stream.refs")
			g.refCase()
		default:
			c.Count("stream.free")
			g.freeCase()
		}
	})
}
