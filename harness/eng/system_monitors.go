package eng

import (
	"fmt"
	"strconv"
	"strings"

	corev1 "k8s.io/api/core/v1"
	metav1 "k8s.io/apimachinery/pkg/apis/meta/v1"

	execution "github.com/furiko-io/furiko/apis/execution/v1alpha1"
	"github.com/furiko-io/furiko/pkg/execution/taskexecutor/podtaskexecutor"
	jobutil "github.com/furiko-io/furiko/pkg/execution/util/job"
	"github.com/furiko-io/furiko/pkg/execution/util/jobconfig"
	"github.com/furiko-io/furiko/pkg/execution/util/parallel"

	"verifharness/sim"
)

// Monitors of the system engine.  They judge the real controllers' observable effects against
// the API simulation's authoritative state, the virtual clock and the kubelet ground truth —
// never against the Lean model.
//
//   C20  converges-same-outcome (system_canon.go), retry-until-success, no-stuck-work
//   C02  one-job-per-schedule
//   C05  never-over-limit, quiescent-exact
//   C06  enqueue-fifo, only-forbid-rejected, rejected-never-runs, no-stuck-job
//   C07  never-before-startAfter, eventually-starts
//   C08  one-live-per-index, no-create-when-stopped, bounded-retries, retries-contiguous
//   C09  never-lost-while-existing, refs-monotone, never-forgotten
//   C10  finished-no-live-task, succeeded-sound / failed-sound
//   C11  exactly-one-condition, state-matches-condition, phase-terminal-iff-finished,
//        startTime-stable, finished-stays-finished, result-stable, timestamps-never-cleared
//   C12  no-create-after-kill-set, kill-eventually
//   C13  ttl-not-early, job-gone-implies-tasks-gone

type sysJobMon struct {
	prev           *execution.Job
	prevRV         string
	envelopeBroken bool // E-OrphanVisible failed for some sync of this Job
	resultEdited   bool // the user killed or deleted the Job
	userEdited     bool // the last version change was made by the user
	deletedByUser  bool
}

type sysMonitors struct {
	w           *sysWorld
	jobs        map[string]*sysJobMon
	cachedJob   *execution.Job // version read by the job-controller sync in flight
	ttlDeletes  map[string]int64
	podsCreated map[string]bool
}

func newSysMonitors(w *sysWorld) *sysMonitors {
	return &sysMonitors{w: w, jobs: map[string]*sysJobMon{}, ttlDeletes: map[string]int64{}, podsCreated: map[string]bool{}}
}

func (m *sysMonitors) jm(name string) *sysJobMon {
	if x, ok := m.jobs[name]; ok {
		return x
	}
	x := &sysJobMon{}
	m.jobs[name] = x
	return x
}

func (m *sysMonitors) v(prop, mon, format string, args ...interface{}) {
	m.w.c.Violate(prop, mon, "%s: %s", m.w.label, fmt.Sprintf(format, args...))
}

func sysJobName(key string) string { _, n, _ := strings.Cut(key, "/"); return n }

func sysPolicy(j *execution.Job) execution.ConcurrencyPolicy {
	if j.Spec.StartPolicy == nil {
		return ""
	}
	return j.Spec.StartPolicy.ConcurrencyPolicy
}

func (m *sysMonitors) trueActive(uid, except string) int64 {
	var n int64
	for _, j := range m.w.jobs() {
		if j.Name != except && j.Labels[jobconfig.LabelKeyJobConfigUID] == uid && jobutil.IsActive(j) {
			n++
		}
	}
	return n
}

func (m *sysMonitors) jcByUID(uid string) *execution.JobConfig {
	for _, jc := range m.w.jobconfigs() {
		if string(jc.UID) == uid {
			return jc
		}
	}
	return nil
}

// beforeStep: remember the version the job controller is about to read, evaluate the
// envelope of the C08-C13 monitors for that sync.
func (m *sysMonitors) beforeStep(ct *sysCtrl, key string) {
	m.cachedJob = nil
	if ct.name != "job" {
		return
	}
	name := sysJobName(key)
	o, ok := m.w.ctx.Sim().Jobs().CacheGet(&execution.Job{ObjectMeta: metav1.ObjectMeta{Namespace: "ns", Name: name}})
	if !ok {
		return
	}
	cj := o.(*execution.Job).DeepCopy()
	m.cachedJob = cj
	// E-OrphanVisible: once creation is disabled or the Job is being deleted, every unrecorded pod
	// owned by the Job on the server must be in the pod cache (unrecorded tasks are adopted from
	// the cache: by the kill sweep, and since the repair of F-C20-1 by the finalizer)
	_, adm := jobutil.GetAdmissionErrorMessage(cj)
	if cj.Spec.KillTimestamp == nil && !adm && cj.DeletionTimestamp == nil {
		return
	}
	sj := m.w.job(name)
	if sj == nil {
		return
	}
	listed := map[string]bool{}
	for _, r := range cj.Status.Tasks {
		listed[r.Name] = true
	}
	for _, p := range m.w.podsOf(sj) {
		if listed[p.Name] {
			continue
		}
		if _, cached := m.w.ctx.Sim().Pods().CacheGet(&corev1.Pod{ObjectMeta: metav1.ObjectMeta{Namespace: "ns", Name: p.Name}}); !cached {
			if !m.jm(name).envelopeBroken {
				m.w.c.Count("sys.envelope.orphan-invisible")
			}
			m.jm(name).envelopeBroken = true
		}
	}
}

// observe judges one controller API call at the instant it was applied (or refused).
func (m *sysMonitors) observe(c sim.Call) {
	w := m.w
	name := sysJobName(c.Key)
	switch {
	case c.Resource == "jobs" && c.Verb == "create" && c.Result == "ok":
		// C02: at most one Job per (JobConfig, schedule time)
		nj := w.job(name)
		if nj == nil {
			return
		}
		uid, ann := nj.Labels[jobconfig.LabelKeyJobConfigUID], nj.Annotations["execution.furiko.io/schedule-time"]
		if uid != "" && ann != "" {
			n := 0
			for _, j := range w.jobs() {
				if j.Labels[jobconfig.LabelKeyJobConfigUID] == uid && j.Annotations["execution.furiko.io/schedule-time"] == ann {
					n++
				}
			}
			if n > 1 {
				m.v("C02", "one-job-per-schedule", "%d Jobs exist for JobConfig %s and schedule time %s after creating %s", n, uid, ann, name)
			}
			if want := strings.TrimSuffix(name, "-"+ann); want+"-"+ann != name {
				m.v("C02", "name-function", "Job %s does not carry its schedule time %s in its name", name, ann)
			}
		}
		w.c.Count("sys.mon.job-create-ok")
	case c.Resource == "jobs" && c.Verb == "update" && c.Result == "ok" && (w.curCtrl == "qcfg" || w.curCtrl == "qind"):
		j := w.job(name)
		if j == nil {
			return
		}
		uid, pol := j.Labels[jobconfig.LabelKeyJobConfigUID], sysPolicy(j)
		if c.Subresource == "status" { // a start write
			w.c.Count("sys.mon.start-ok")
			if sp := j.Spec.StartPolicy; sp != nil && sp.StartAfter != nil && sp.StartAfter.UnixNano() > w.now() {
				m.v("C07", "never-before-startAfter", "job %s started at %d before startAfter %d", name, w.now(), sp.StartAfter.UnixNano())
			}
			jc := m.jcByUID(uid)
			if uid != "" && jc != nil && (pol == execution.ConcurrencyPolicyForbid || pol == execution.ConcurrencyPolicyEnqueue) {
				if act, max := m.trueActive(uid, name), jc.Spec.Concurrency.GetMaxConcurrency(); act+1 > max {
					m.v("C05", "never-over-limit", "job %s (%s) started while %d Jobs of %s already active, maxConcurrency %d", name, pol, act, jc.Name, max)
				}
			}
			if uid != "" && pol == execution.ConcurrencyPolicyEnqueue {
				for _, a := range w.jobs() {
					if a.Name == name || a.Labels[jobconfig.LabelKeyJobConfigUID] != uid || sysPolicy(a) != execution.ConcurrencyPolicyEnqueue || !jobutil.IsQueued(a) {
						continue
					}
					if _, cached := w.ctx.Sim().Jobs().CacheGet(a); !cached {
						continue
					}
					if _, adm := jobutil.GetAdmissionErrorMessage(a); adm || a.DeletionTimestamp != nil || a.Spec.KillTimestamp != nil {
						continue
					}
					due := a.Spec.StartPolicy.StartAfter == nil || a.Spec.StartPolicy.StartAfter.UnixNano() <= w.now()
					if due && a.CreationTimestamp.Unix() < j.CreationTimestamp.Unix() {
						m.v("C06", "enqueue-fifo", "job %s started while earlier-created due Enqueue job %s is still queued", name, a.Name)
					}
				}
			}
		} else { // a reject write
			w.c.Count("sys.mon.reject-ok")
			if pol != execution.ConcurrencyPolicyForbid {
				m.v("C06", "only-forbid-rejected", "job %s with policy %q was rejected", name, pol)
			}
			if jobutil.IsStarted(j) {
				m.v("C06", "rejected-never-runs", "rejected job %s is started", name)
			}
		}
	case c.Resource == "pods" && c.Verb == "create" && c.Result == "ok":
		w.c.Count("sys.mon.pod-create-ok")
		m.podsCreated[name] = true
		m.onPodCreate(c, name)
	case c.Resource == "jobs" && c.Verb == "delete" && c.Result == "ok" && w.curCtrl == "job":
		w.c.Count("sys.mon.job-ttl-delete")
		m.onTTLDelete(name)
	}
}

func (m *sysMonitors) onPodCreate(c sim.Call, podName string) {
	w := m.w
	pod := c.Obj.(*corev1.Pod)
	ref := metav1.GetControllerOf(pod)
	if ref == nil {
		return
	}
	cj := m.cachedJob
	if cj == nil || cj.Name != ref.Name {
		return
	}
	// judged on the Job version the sync read (informer lag is not a defect)
	if cj.Spec.KillTimestamp != nil {
		m.v("C12", "no-create-after-kill-set", "pod %s created although killTimestamp is set", podName)
	}
	if _, adm := jobutil.GetAdmissionErrorMessage(cj); adm {
		m.v("C08", "no-create-when-stopped", "pod %s created although the Job has an admission error", podName)
	}
	if cj.DeletionTimestamp != nil {
		m.v("C08", "no-create-when-stopped", "pod %s created although the Job is being deleted", podName)
	}
	if cj.Status.StartTime.IsZero() {
		m.v("C08", "no-create-when-stopped", "pod %s created although the Job is not started", podName)
	}
	if cj.Status.Condition.Finished != nil {
		m.v("C08", "no-create-when-stopped", "pod %s created although the Job is finished", podName)
	}
	j := w.job(ref.Name)
	if j == nil || m.jm(j.Name).envelopeBroken {
		return
	}
	hash := pod.Labels[podtaskexecutor.LabelKeyTaskParallelIndexHash]
	retry, _ := strconv.Atoi(pod.Labels[podtaskexecutor.LabelKeyTaskRetryIndex])
	for _, p := range w.podsOf(j) {
		if p.Name == podName || p.Labels[podtaskexecutor.LabelKeyTaskParallelIndexHash] != hash {
			continue
		}
		if podAlive(p) {
			m.v("C08", "one-live-per-index", "pod %s created while sibling %s of the same index is alive (phase %q)", podName, p.Name, p.Status.Phase)
		}
		if p.Status.Phase == corev1.PodSucceeded {
			m.v("C08", "no-create-for-succeeded-index", "pod %s created although %s of the same index succeeded", podName, p.Name)
		}
	}
	if max := j.GetMaxAttempts(); int64(retry) >= max {
		m.v("C08", "bounded-retries", "pod %s has retry index %d with maxAttempts %d", podName, retry, max)
	}
	have := map[int64]execution.TaskRef{}
	for _, r := range j.Status.Tasks {
		h, _ := parallel.HashIndex(parallel.GetDefaultIndex())
		if r.ParallelIndex != nil {
			h, _ = parallel.HashIndex(*r.ParallelIndex)
		}
		if h == hash {
			have[r.RetryIndex] = r
		}
	}
	var latestFinish int64
	for k := 0; k < retry; k++ {
		r, ok := have[int64(k)]
		if !ok {
			m.v("C08", "retries-contiguous", "pod %s (retry %d) created but retry %d of the index is not recorded", podName, retry, k)
			continue
		}
		if r.FinishTimestamp.IsZero() {
			m.v("C08", "one-live-per-index", "pod %s (retry %d) created but retry %d is not recorded finished", podName, retry, k)
		} else if t := r.FinishTimestamp.UnixNano(); t > latestFinish {
			latestFinish = t
		}
	}
	if retry > 0 && latestFinish > 0 {
		if delay := j.GetRetryDelay(); w.now() < latestFinish+int64(delay) {
			m.v("C08", "retry-delay-respected", "pod %s created at %d, before previous finish %d + delay %v", podName, w.now(), latestFinish, delay)
		}
	}
}

func (m *sysMonitors) onTTLDelete(name string) {
	w := m.w
	m.ttlDeletes[name] = w.now()
	j := w.job(name)
	if j == nil {
		// removed at once (no finalizer): judged on the previous version
		j = m.jm(name).prev
	}
	if j == nil {
		return
	}
	ttl := jobutil.GetTTLAfterFinished(j, w.jobsCfg)
	cf := j.Status.Condition.Finished
	if cf == nil {
		// the finished condition may be written by the same sync after the delete (see jobctl);
		// judged in afterStep
		return
	}
	if cf.FinishTimestamp.Add(ttl).UnixNano() > w.now() {
		m.v("C13", "ttl-not-early", "Job %s deleted at %d before finish %d + ttl %v", name, w.now(), cf.FinishTimestamp.UnixNano(), ttl)
	}
	if !m.jm(name).envelopeBroken {
		for _, p := range w.podsOf(j) {
			if podAlive(p) && p.DeletionTimestamp == nil {
				m.v("C13", "ttl-not-early", "Job %s deleted by the controller (TTL) while its task %s is alive", name, p.Name)
			}
		}
	}
}

// afterStep: retry-until-success on the real queue against the spy's ground truth, then the
// version monitors of every Job that changed.
func (m *sysMonitors) afterStep(ct *sysCtrl, key, res string) {
	w := m.w
	if res == "err" {
		if !ct.q.IsReady(key) && !ct.q.IsDelayed(key) {
			m.v("C20", "retry-until-success", "controller %s: SyncOne(%s) returned an error but the key is neither ready nor delayed afterwards (queue %s)", ct.name, key, retryDigest(ct.q.DetQueue))
		}
		if ct.q.NumRequeues(key) == 0 {
			m.v("C20", "retry-until-success", "controller %s: SyncOne(%s) returned an error but its requeue counter is 0", ct.name, key)
		}
	}
	if res == "ok" && ct.q.NumRequeues(key) != 0 {
		m.v("C20", "forget-on-success", "controller %s: SyncOne(%s) succeeded but its requeue counter is %d", ct.name, key, ct.q.NumRequeues(key))
	}
	if len(ct.q.Processing()) != 0 {
		m.v("C20", "always-done", "controller %s: keys %v still in flight after the step", ct.name, ct.q.Processing())
	}
	if ct.name == "job" {
		name := sysJobName(key)
		if at, ok := m.ttlDeletes[name]; ok {
			if j := w.job(name); j != nil {
				ttl := jobutil.GetTTLAfterFinished(j, w.jobsCfg)
				if cf := j.Status.Condition.Finished; cf != nil && cf.FinishTimestamp.Add(ttl).UnixNano() > at {
					m.v("C13", "ttl-not-early", "Job %s deleted at %d before finish %d + ttl %v", name, at, cf.FinishTimestamp.UnixNano(), ttl)
				}
			}
			delete(m.ttlDeletes, name)
		}
	}
	m.cachedJob = nil
	m.scanJobs()
}

// userEdit is called by the workload driver after a user operation on a Job.
func (m *sysMonitors) userEdit(name string, result bool) {
	x := m.jm(name)
	x.userEdited = true
	if result {
		x.resultEdited = true
	}
	m.scanJobs()
}

// scanJobs feeds every changed Job version to the version monitors.
func (m *sysMonitors) scanJobs() {
	w := m.w
	seen := map[string]bool{}
	for _, j := range w.jobs() {
		seen[j.Name] = true
		x := m.jm(j.Name)
		if x.prev != nil && x.prevRV == j.ResourceVersion {
			continue
		}
		m.jobVersion(x, j)
		x.prev, x.prevRV = j.DeepCopy(), j.ResourceVersion
	}
	for name, x := range m.jobs {
		if seen[name] || x.prev == nil {
			continue
		}
		// C13: the Job disappeared: every pod listed in its last status must be gone
		if hasFinalizer(x.prev) && !x.envelopeBroken {
			for _, r := range x.prev.Status.Tasks {
				for _, p := range w.pods() {
					if ref := metav1.GetControllerOf(p); p.Name == r.Name && ref != nil && ref.UID == x.prev.UID {
						m.v("C13", "job-gone-implies-tasks-gone", "Job %s removed while its task %s still exists", name, r.Name)
					}
				}
			}
		}
		x.prev = nil
	}
}

func (m *sysMonitors) jobVersion(x *sysJobMon, j *execution.Job) {
	w := m.w
	c := j.Status.Condition
	n := 0
	for _, b := range []bool{c.Queueing != nil, c.Waiting != nil, c.Running != nil, c.Finished != nil} {
		if b {
			n++
		}
	}
	if j.Status.State != "" || n > 0 {
		if n != 1 {
			m.v("C11", "exactly-one-condition", "Job %s: %d conditions set", j.Name, n)
		}
		var st execution.JobState
		switch {
		case c.Queueing != nil:
			st = execution.JobStateQueued
		case c.Waiting != nil:
			st = execution.JobStateWaiting
		case c.Running != nil:
			st = execution.JobStateRunning
		case c.Finished != nil:
			st = execution.JobStateFinished
		}
		if n == 1 && j.Status.State != st {
			m.v("C11", "state-matches-condition", "Job %s: state %q but condition implies %q", j.Name, j.Status.State, st)
		}
		if j.Status.Phase.IsTerminal() != (c.Finished != nil) {
			m.v("C11", "phase-terminal-iff-finished", "Job %s: phase %s, finished condition set=%v", j.Name, j.Status.Phase, c.Finished != nil)
		}
		if j.Status.CreatedTasks != int64(len(j.Status.Tasks)) {
			m.v("C11", "counters-match-tasks", "Job %s: createdTasks %d, %d task refs", j.Name, j.Status.CreatedTasks, len(j.Status.Tasks))
		}
	}
	p := x.prev
	// C10: a non-deleted Job is first reported finished only when none of its tasks is alive
	if c.Finished != nil && j.DeletionTimestamp == nil && !x.envelopeBroken && (p == nil || p.Status.Condition.Finished == nil) {
		if c.Finished.Result != execution.JobResultAdmissionError {
			for _, pod := range w.podsOf(j) {
				if podAlive(pod) && pod.DeletionTimestamp == nil {
					m.v("C10", "finished-no-live-task", "Job %s reported %s while its task %s is alive (phase %q)", j.Name, c.Finished.Result, pod.Name, pod.Status.Phase)
				}
			}
		}
		m.jobResult(j)
		w.c.Count("sys.mon.job-finished." + string(c.Finished.Result))
	}
	if p == nil || x.userEdited {
		x.userEdited = false
		return
	}
	if !p.Status.StartTime.IsZero() && !p.Status.StartTime.Equal(j.Status.StartTime) {
		m.v("C11", "startTime-stable", "Job %s: startTime changed from %v to %v", j.Name, p.Status.StartTime, j.Status.StartTime)
	}
	if pf := p.Status.Condition.Finished; pf != nil && j.DeletionTimestamp == nil && p.DeletionTimestamp == nil && !x.resultEdited {
		if cf := j.Status.Condition.Finished; cf == nil {
			m.v("C11", "finished-stays-finished", "Job %s: finished Job became unfinished", j.Name)
		} else if cf.Result != pf.Result || !cf.FinishTimestamp.Equal(&pf.FinishTimestamp) {
			m.v("C11", "result-stable", "Job %s: result/finish changed from %s@%d to %s@%d", j.Name, pf.Result, pf.FinishTimestamp.Unix(), cf.Result, cf.FinishTimestamp.Unix())
		}
	}
	prev := map[string]execution.TaskRef{}
	for _, r := range p.Status.Tasks {
		prev[r.Name] = r
	}
	cur := map[string]execution.TaskRef{}
	for _, r := range j.Status.Tasks {
		cur[r.Name] = r
	}
	for name, pr := range prev {
		cr, ok := cur[name]
		if !ok {
			m.v("C09", "refs-monotone", "Job %s: task %s disappeared from status.tasks", j.Name, name)
			continue
		}
		if !pr.RunningTimestamp.IsZero() && cr.RunningTimestamp.IsZero() {
			m.v("C11", "timestamps-never-cleared", "Job %s: running timestamp of %s was cleared", j.Name, name)
		}
		if !pr.FinishTimestamp.IsZero() && cr.FinishTimestamp.IsZero() {
			m.v("C11", "timestamps-never-cleared", "Job %s: finish timestamp of %s was cleared", j.Name, name)
		}
	}
	// C09: a task whose pod still exists and is not terminal is never recorded finished/lost
	for name, cr := range cur {
		if cr.FinishTimestamp.IsZero() {
			continue
		}
		if pr, ok := prev[name]; ok && !pr.FinishTimestamp.IsZero() {
			continue
		}
		if cr.Status.State == execution.TaskDeletedFinalStateUnknown {
			w.c.Count("sys.mon.task-ended-without-marker")
		}
		for _, pod := range w.podsOf(j) {
			if pod.Name == name && podAlive(pod) {
				m.v("C09", "never-lost-while-existing", "Job %s: task %s recorded finished (%s) while its pod exists in phase %q", j.Name, name, cr.Status.State, pod.Status.Phase)
			}
		}
	}
}

// jobResult: C10 soundness of Success / Failed against the recorded task outcomes.
func (m *sysMonitors) jobResult(j *execution.Job) {
	res := j.Status.Condition.Finished.Result
	if res != execution.JobResultSuccess && res != execution.JobResultFailed {
		return
	}
	strategy := execution.AllSuccessful
	if p := j.Spec.Template.Parallelism; p != nil {
		strategy = p.GetCompletionStrategy()
	}
	succ := map[string]bool{}
	finished := map[string]int64{}
	for _, r := range j.Status.Tasks {
		h, _ := parallel.HashIndex(parallel.GetDefaultIndex())
		if r.ParallelIndex != nil {
			h, _ = parallel.HashIndex(*r.ParallelIndex)
		}
		if r.Status.Result == execution.TaskSucceeded {
			// ground truth: the kubelet really let this pod succeed
			if m.w.wl.outcome(r.Name) == "fail" {
				m.v("C10", "succeeded-sound", "Job %s: task %s recorded Succeeded but the kubelet's ground truth is %s", j.Name, r.Name, m.w.wl.outcome(r.Name))
			}
			succ[h] = true
		}
		if !r.FinishTimestamp.IsZero() {
			finished[h]++
		}
	}
	var hashes []string
	for _, ix := range parallel.GenerateIndexes(j.Spec.Template.Parallelism) {
		h, _ := parallel.HashIndex(ix)
		hashes = append(hashes, h)
	}
	nSucc, nExhausted := 0, 0
	for _, h := range hashes {
		if succ[h] {
			nSucc++
		} else if finished[h] >= j.GetMaxAttempts() {
			nExhausted++
		}
	}
	n := len(hashes)
	switch {
	case res == execution.JobResultSuccess && strategy == execution.AllSuccessful && nSucc < n:
		m.v("C10", "succeeded-sound", "Job %s Success (AllSuccessful) but only %d/%d indexes have a succeeded task", j.Name, nSucc, n)
	case res == execution.JobResultSuccess && strategy == execution.AnySuccessful && nSucc == 0:
		m.v("C10", "succeeded-sound", "Job %s Success (AnySuccessful) but no index has a succeeded task", j.Name)
	case res == execution.JobResultFailed && strategy == execution.AllSuccessful && nExhausted == 0:
		m.v("C10", "failed-sound", "Job %s Failed (AllSuccessful) but no index used all its attempts without success", j.Name)
	case res == execution.JobResultFailed && strategy == execution.AnySuccessful && nExhausted < n:
		m.v("C10", "failed-sound", "Job %s Failed (AnySuccessful) but only %d/%d indexes are exhausted", j.Name, nExhausted, n)
	}
}

// atQuiescence: the quiescent-state monitors (end of every barrier).
func (m *sysMonitors) atQuiescence() {
	w := m.w
	w.c.Count("sys.quiescence")
	// retry: nothing may be left with pending requeues, nothing in flight
	for _, ct := range w.ctrls {
		if rq := ct.q.Requeues(); len(rq) > 0 && !w.overrun {
			m.v("C20", "retry-until-success", "controller %s has pending requeues at quiescence: %v", ct.name, rq)
		}
		if ct.q.Len() != 0 {
			m.v("C20", "no-stuck-work", "controller %s still has ready keys at quiescence: %v", ct.name, ct.q.Ready())
		}
	}
	now := w.now()
	for _, jc := range w.jobconfigs() {
		cnt := w.store.CountActiveJobsForConfig(jc)
		act := m.trueActive(string(jc.UID), "")
		if cnt != act {
			m.v("C05", "quiescent-exact", "active counter of %s is %d but %d Jobs are active", jc.Name, cnt, act)
		}
		if jc.Status.Active != act {
			m.v("C20", "no-stuck-work", "JobConfig %s status.active is %d but %d Jobs are active at quiescence", jc.Name, jc.Status.Active, act)
		}
		var queued int64
		for _, j := range w.jobs() {
			if j.Labels[jobconfig.LabelKeyJobConfigUID] == string(jc.UID) && jobutil.IsQueued(j) {
				queued++
			}
		}
		if jc.Status.Queued != queued {
			m.v("C20", "no-stuck-work", "JobConfig %s status.queued is %d but %d Jobs are queued at quiescence", jc.Name, jc.Status.Queued, queued)
		}
	}
	for _, j := range w.jobs() {
		x := m.jm(j.Name)
		sp := j.Spec.StartPolicy
		due := sp == nil || sp.StartAfter == nil || sp.StartAfter.UnixNano() <= now
		_, adm := jobutil.GetAdmissionErrorMessage(j)
		if jobutil.IsQueued(j) && due && !adm && j.DeletionTimestamp == nil {
			uid := j.Labels[jobconfig.LabelKeyJobConfigUID]
			jc := m.jcByUID(uid)
			switch {
			case uid == "":
				m.v("C07", "eventually-starts", "independent job %s is due but still queued at quiescence", j.Name)
			case jc == nil:
			case sysPolicy(j) == execution.ConcurrencyPolicyEnqueue:
				if act, max := m.trueActive(uid, ""), jc.Spec.Concurrency.GetMaxConcurrency(); act < max {
					m.v("C06", "no-stuck-job", "Enqueue job %s still queued at quiescence with %d/%d active", j.Name, act, max)
				}
			case sysPolicy(j) == execution.ConcurrencyPolicyForbid:
				m.v("C06", "no-stuck-job", "Forbid job %s neither started nor rejected at quiescence", j.Name)
			default:
				m.v("C06", "allow-always-starts", "Allow job %s is due but still queued at quiescence", j.Name)
			}
		}
		if adm && !j.Status.Phase.IsTerminal() && j.DeletionTimestamp == nil {
			m.v("C20", "no-stuck-work", "job %s carries an admission error but is %q at quiescence", j.Name, j.Status.Phase)
		}
		// no unfinished started Job whose tasks are all terminal / gone while it may not create more
		if jobutil.IsStarted(j) && !j.Status.Phase.IsTerminal() && j.DeletionTimestamp == nil {
			alive := 0
			for _, p := range w.podsOf(j) {
				if podAlive(p) {
					alive++
				}
			}
			if alive == 0 && !m.waitingForTimer(j) {
				m.v("C20", "no-stuck-work", "job %s is started, %q, has no live task and no timer pending at quiescence (tasks %s)", j.Name, j.Status.Phase, sysTaskSummary(j))
			}
		}
		// C12: kill timestamp passed, no live task => terminal
		if kt := j.Spec.KillTimestamp; kt != nil && kt.UnixNano() <= now && jobutil.IsStarted(j) && j.DeletionTimestamp == nil && !x.envelopeBroken {
			alive := 0
			for _, p := range w.podsOf(j) {
				if podAlive(p) {
					alive++
				}
			}
			if alive == 0 && !j.Status.Phase.IsTerminal() {
				m.v("C12", "kill-eventually", "job %s: kill timestamp passed, no task alive, but the Job is %q at quiescence", j.Name, j.Status.Phase)
			}
		}
		// finished Jobs past their TTL are gone (or on their way: deletion timestamp set)
		if cf := j.Status.Condition.Finished; cf != nil && j.DeletionTimestamp == nil {
			ttl := jobutil.GetTTLAfterFinished(j, w.jobsCfg)
			if cf.FinishTimestamp.Add(ttl).UnixNano() <= w.roundT {
				m.v("C20", "no-stuck-work", "finished job %s is past its TTL (finish %d + %v) but still present and not being deleted", j.Name, cf.FinishTimestamp.Unix(), ttl)
			}
		}
		// a deleting Job whose pods are all gone must be gone
		if j.DeletionTimestamp != nil && len(w.podsOf(j)) == 0 {
			m.v("C20", "no-stuck-work", "job %s is being deleted, has no pods left, but still exists at quiescence", j.Name)
		}
		// C09: every pod owned by a live, unfinished Job is listed in its status
		if jobutil.IsStarted(j) && j.DeletionTimestamp == nil && !adm && j.Spec.KillTimestamp == nil && j.Status.Condition.Finished == nil {
			listed := map[string]bool{}
			for _, r := range j.Status.Tasks {
				listed[r.Name] = true
			}
			for _, p := range w.podsOf(j) {
				if !listed[p.Name] {
					m.v("C09", "never-forgotten", "pod %s owned by job %s is not listed in status.tasks at quiescence", p.Name, j.Name)
				}
			}
		}
	}
	// orphaned pods: a pod whose owner Job is gone must be gone or going
	for _, p := range m.orphans() {
		m.v("C13", "job-gone-implies-tasks-gone", "pod %s exists at quiescence but its Job is gone", p)
	}
}

// orphans lists the pods created by the job controller whose owner Job no longer exists.  Pods
// of Jobs for which E-OrphanVisible was broken (a task that was created but never recorded and
// that the pod cache had not seen when the finalizer ran: it sweeps the recorded tasks and, since
// the repair of F-C20-1, the unrecorded ones of the pod CACHE) are left out.
func (m *sysMonitors) orphans() []string {
	var out []string
	for _, p := range m.w.pods() {
		ref := metav1.GetControllerOf(p)
		if ref == nil || !m.podsCreated[p.Name] {
			continue
		}
		if j := m.w.job(ref.Name); j != nil && j.UID == ref.UID {
			continue
		}
		if x, ok := m.jobs[ref.Name]; ok && x.envelopeBroken {
			m.w.c.Count("sys.envelope.orphan-after-delete")
			continue
		}
		out = append(out, p.Name)
	}
	return out
}

// waitingForTimer: the job controller has a deferred re-sync pending for this Job (retry delay,
// pending timeout, force deletion, TTL).
func (m *sysMonitors) waitingForTimer(j *execution.Job) bool {
	return m.w.byName["job"].q.IsDelayed("ns/" + j.Name)
}

func sysTaskSummary(j *execution.Job) string {
	var s []string
	for _, r := range j.Status.Tasks {
		s = append(s, fmt.Sprintf("%s:%s/%s", r.Name, r.Status.State, r.Status.Result))
	}
	return strings.Join(s, ",")
}
