package eng

import (
	"fmt"
	"sort"
	"strings"
	"time"

	metav1 "k8s.io/apimachinery/pkg/apis/meta/v1"
	"k8s.io/apimachinery/pkg/runtime"
	"k8s.io/apimachinery/pkg/types"

	execution "github.com/furiko-io/furiko/apis/execution/v1alpha1"
	jobutil "github.com/furiko-io/furiko/pkg/execution/util/job"
	"github.com/furiko-io/furiko/pkg/execution/util/jobconfig"

	"verifharness/sim"
)

// Environment behaviours of the queue engine that client-go and the API server really show and
// that the plain operations of queue.go cannot produce (probes/simaudit/REPORT.md G1, G2, rows 5, 6
// and 10 of its table):
//
//	q.restart <kj> <kc> <w>   process start whose initial LIST is STALE (old cache + the first kj /
//	                          kc undelivered events per resource; the rest is replayed by the watch)
//	                          and in which w Job events reach the cache between the registration of
//	                          the store's handler and the lister read inside activejobstore.Recover
//	q.outage / q.relist       the Jobs watch is interrupted; the informer relists and pairs cached
//	                          and listed objects by key only (DeltaFIFO.Replace), tombstones for the
//	                          keys that are gone
//	q.resync                  only reaches handlers registered with a non-zero resync period
//
// Each is mirrored by Model/Queue.lean (restartStaleWin, relist) and Driver/QueueD.lean.  None of
// them is an action of the proved transition system (Proofs/QueueEnv.Act): the generated cases that
// use them are tagged with the envelope they leave and only counted (q.env.*, q.outside.*).

// outside records that the history has left envelope env for the given JobConfig uids (all of
// them when none is given): the C05/C06 monitors stop judging those JobConfigs.
func (w *queueWorld) outside(env string, uids ...string) {
	if w.envBroken == nil {
		w.envBroken = map[string]bool{}
	}
	if !w.envBroken[env] {
		w.envBroken[env] = true
		w.c.Count("q.env." + env)
	}
	if w.judgeOutside {
		return
	}
	if len(uids) == 0 {
		uids = w.uids
	}
	for _, u := range uids {
		w.outOfEnvelope[u] = true
	}
}

// countOutside: a monitor would have fired for a JobConfig that is outside the envelope.
func (w *queueWorld) countOutside(monitor string) {
	w.c.Count("q.outside." + monitor)
	envs := SortedKeys(w.envBroken)
	if len(envs) == 0 {
		envs = []string{"other"} // E-OwnerLabel mismatch, deleted JobConfig, external start, un-finish
	}
	for _, e := range envs {
		w.c.Count("q.outside." + monitor + "." + e)
	}
}

// restartFresh (op `q.restart`): the new process's caches are the server's current state, every
// undelivered event is dropped, Recover runs atomically.
func (w *queueWorld) restartFresh() {
	w.faults = nil
	w.outage = false
	w.api.Blocked["jobs"] = false
	w.api.DropPending()
	for _, r := range []struct {
		res string
		inf *sim.FakeInformer
	}{{"jobs", w.ctx.Sim().Jobs()}, {"jobconfigs", w.ctx.Sim().JobConfigs()}} {
		r.inf.ClearCache()
		for _, k := range w.api.Keys(r.res) {
			r.inf.CacheSet(w.api.Get(r.res, k).DeepCopyObject())
		}
	}
	w.boot()
	w.c.Emit("q.restart", w.digest())
	w.c.Count("q.restart")
}

// restartStale (op `q.restart <kj> <kc> <win>`): the old process is gone (its handlers, queues
// and counter with it).  The new process's initial LIST of each resource is served from the API
// server's watch cache (the reflector lists with resourceVersion "0"): the old cache — which is
// server truth minus the undelivered events — plus the first kj / kc of those events; the others
// stay undelivered, the new watch replays them.  win further Job events reach the cache inside
// Store.Recover, after its handler registered and before it reads the lister.
func (w *queueWorld) restartStale(kj, kc, win int) {
	w.faults = nil
	w.outage = false
	w.api.Blocked["jobs"] = false
	ji, ci := w.ctx.Sim().Jobs(), w.ctx.Sim().JobConfigs()
	pj, pc := len(w.api.Pending["jobs"]), len(w.api.Pending["jobconfigs"])
	if kj > pj {
		kj = pj
	}
	if kc > pc {
		kc = pc
	}
	if win > pj-kj {
		win = pj - kj
	}
	if kj < pj {
		// some write of the previous process (or of anybody) is missing from the initial LIST
		w.outside("E-FreshInitialList")
		w.c.Count("q.restart.stale-jobs-list")
	}
	if kc < pc {
		w.c.Count("q.restart.stale-jobconfigs-list")
	}
	if win > 0 {
		w.outside("E-QuiescentRecover")
		w.c.Count("q.restart.recover-window")
	}
	ji.ResetHandlers()
	for i := 0; i < kj; i++ { // part of the LIST: applied to the cache, nobody is notified
		w.api.DeliverOne("jobs", ji)
	}
	for i := 0; i < kc; i++ {
		w.api.DeliverOne("jobconfigs", ci)
	}
	w.bootWindow = win
	w.boot()
	w.c.Emit(fmt.Sprintf("q.restart %d %d %d", kj, kc, win), w.digest())
	w.c.Count("q.restart")
	w.c.Count("q.restart.stale-variant")
}

func (w *queueWorld) restartRandom() {
	pj, pc := len(w.api.Pending["jobs"]), len(w.api.Pending["jobconfigs"])
	if w.rng.Intn(10) < 7 {
		w.restartFresh()
		return
	}
	kj, kc := w.rng.Intn(pj+1), w.rng.Intn(pc+1)
	if w.rng.Intn(3) == 0 {
		kj = pj // only the JobConfig list is stale (start-up skew between the two informers)
	}
	win := 0
	if w.rng.Intn(3) == 0 {
		win = w.rng.Intn(pj - kj + 1)
	}
	w.restartStale(kj, kc, win)
}

// envStep: with low probability, one of the environment behaviours of this file instead of an
// ordinary step of queueCase.  Inside a watch outage: relist, or remove a Job and let another Job
// take its name.
func (w *queueWorld) envStep(jcNames []string, jobN *int, maxJobs int) bool {
	x := w.rng.Intn(1000)
	if w.outage {
		switch {
		case x < 150:
			w.relist()
			return true
		case x < 350:
			return w.recreateInOutage(jcNames)
		}
		return false
	}
	switch {
	case x < 8:
		w.beginOutage()
		return true
	case x < 11:
		return w.recoverWindowRace()
	case x < 14:
		w.staleListRace()
		return true
	case x < 22 && *jobN < maxJobs:
		if w.ownerLagRace(jcNames, fmt.Sprintf("j%02d", *jobN+1)) {
			*jobN++
			return true
		}
	}
	return false
}

// activeOnServer lists the names of the active Jobs whose uid label is in the envelope.
func (w *queueWorld) activeOnServer() []string {
	var out []string
	for _, k := range w.api.Keys("jobs") {
		j := w.api.Get("jobs", k).(*execution.Job)
		if uid := j.Labels[jobconfig.LabelKeyJobConfigUID]; uid != "" && jobutil.IsActive(j) {
			out = append(out, j.Name)
		}
	}
	return out
}

// recoverWindowRace: the directed history of G1.  Everything is delivered; an active Job leaves
// the active state (finished by the previous leader just before it died, or removed by a user —
// the Job has no finalizer here); the new process's initial LIST does not show that yet, the
// watch delivers it while Recover waits for its 100 ms cache-sync poll.
func (w *queueWorld) recoverWindowRace() bool {
	act := w.activeOnServer()
	if len(act) == 0 || w.outage {
		return false
	}
	w.c.Count("q.race.recover-window")
	w.flush()
	name := act[w.rng.Intn(len(act))]
	if w.rng.Intn(2) == 0 {
		w.api.Mutate("jobs", "ns/"+name, func(o runtime.Object) { o.(*execution.Job).Status.Phase = execution.JobSucceeded })
		w.c.Emit(fmt.Sprintf("q.phase %s 1", name), w.digest())
	} else {
		w.api.Remove("jobs", "ns/"+name)
		w.c.Emit("q.del "+name, w.digest())
	}
	w.restartStale(0, len(w.api.Pending["jobconfigs"]), 1)
	return true
}

// staleListRace: the directed history of G2.  A worker step has just started a Job; the process
// dies before the event reaches it; the new process's initial LIST still shows the Job unstarted.
func (w *queueWorld) staleListRace() {
	w.c.Count("q.race.stale-initial-list")
	w.flush()
	w.work("cfg")
	if !w.startedInLastStep() {
		return
	}
	w.c.Count("q.race.stale-initial-list.started")
	w.restartStale(0, len(w.api.Pending["jobconfigs"]), 0)
}

// beginOutage (op `q.outage`): from now on no Job event reaches the Jobs informer's cache.
func (w *queueWorld) beginOutage() {
	w.outage = true
	w.api.Blocked["jobs"] = true
	w.c.Emit("q.outage", w.digest())
	w.c.Count("q.outage")
}

// relist (op `q.relist`): the Jobs watch failed (410 Gone); the reflector lists again and the
// informer replaces its cache (sim.FakeInformer.Relist).  The undelivered events are dropped.
func (w *queueWorld) relist() {
	ji := w.ctx.Sim().Jobs()
	// E-FinalizerPresent: a Job this process started whose "started" event never reached the cache
	// leaves the active state (removed — it carries no finalizer here —, replaced under its name, or
	// finished by a job controller that in production reads the same blind informer and could not):
	// the relist pairs the cached UNSTARTED copy with the final state (or sends a tombstone of the
	// unstarted copy), the store sees no active -> inactive edge and keeps the slot reserved by
	// CheckAndAdd for ever (known finding F35).
	for _, o := range ji.GetStore().List() {
		cj := o.(*execution.Job)
		if jobutil.IsStarted(cj) || !w.startedByUs[cj.UID] {
			continue
		}
		if sj := w.apiJob(cj.Name); sj == nil || sj.UID != cj.UID || !jobutil.IsActive(sj) {
			w.c.Count("q.relist.started-job-left-unseen")
			if uid := cj.Labels[jobconfig.LabelKeyJobConfigUID]; uid != "" {
				w.outside("E-FinalizerPresent", uid)
			}
		}
	}
	for _, o := range ji.GetStore().List() {
		cj := o.(*execution.Job)
		if sj := w.apiJob(cj.Name); sj != nil && sj.UID != cj.UID {
			w.c.Count("q.relist.pairs-different-jobs")
			if jobutil.IsStarted(sj) {
				// the Job that took the name is already started although this process never saw it:
				// only an external writer can have done that (q.extstart; outside "only the queue
				// controller sets startTime").  Paired with an ACTIVE old Job the store sees
				// active -> active and releases nothing.
				w.c.Count("q.relist.pairs-different-jobs.new-started-externally")
				for _, u := range []string{cj.Labels[jobconfig.LabelKeyJobConfigUID], sj.Labels[jobconfig.LabelKeyJobConfigUID]} {
					if u != "" {
						w.outside("E-NoExternalStart", u)
					}
				}
			}
			if cj.Labels[jobconfig.LabelKeyJobConfigUID] != sj.Labels[jobconfig.LabelKeyJobConfigUID] {
				w.c.Count("q.relist.pairs-jobs-of-different-jobconfigs")
				if jobutil.IsActive(cj) {
					w.c.Count("q.relist.pairs-jobs-of-different-jobconfigs.old-active")
				}
			}
		}
	}
	w.outage = false
	w.api.Blocked["jobs"] = false
	w.api.DropPendingOf("jobs")
	ji.Relist(w.api.Snapshot("jobs"))
	w.c.Emit("q.relist", w.digest())
	w.c.Count("q.relist")
}

// wellFormedOwned: the Job carries label and controller owner reference of one JobConfig (inside
// E-OwnerLabel) or neither.
func wellFormedOwned(j *execution.Job) bool {
	uid := j.Labels[jobconfig.LabelKeyJobConfigUID]
	ref := metav1.GetControllerOf(j)
	if uid == "" {
		return ref == nil
	}
	return ref != nil && string(ref.UID) == uid
}

// recreateInOutage: inside a watch outage a Job the cache knows is removed and a NEW Job takes its
// name — for another JobConfig, or independent.  (Outside an outage the engine never reuses a
// name: E-FreshName.)  Only Jobs inside E-OwnerLabel with a JobConfig owner are replaced, so the
// independent queue never holds a key of the old Job.
func (w *queueWorld) recreateInOutage(jcNames []string) bool {
	var cands []*execution.Job
	for _, k := range w.api.Keys("jobs") {
		j := w.api.Get("jobs", k).(*execution.Job)
		if _, cached := w.ctx.Sim().Jobs().CacheGet(j); !cached {
			continue
		}
		if uid := j.Labels[jobconfig.LabelKeyJobConfigUID]; uid != "" && wellFormedOwned(j) && !w.outOfEnvelope[uid] {
			cands = append(cands, j)
		}
	}
	if len(cands) == 0 {
		return false
	}
	old := cands[w.rng.Intn(len(cands))]
	oldUID := old.Labels[jobconfig.LabelKeyJobConfigUID]
	var others []string
	for _, n := range jcNames {
		if "u-"+n != oldUID && w.api.Get("jobconfigs", "ns/"+n) != nil {
			others = append(others, n)
		}
	}
	owner := ""
	if len(others) > 0 && w.rng.Intn(4) > 0 {
		owner = others[w.rng.Intn(len(others))]
	}
	w.c.Count("q.outage.recreate")
	if jobutil.IsActive(old) {
		w.c.Count("q.outage.recreate.old-active")
	}
	w.api.Remove("jobs", "ns/"+old.Name)
	w.c.Emit("q.del "+old.Name, w.digest())
	pol := w.rng.Intn(3)
	if owner == "" {
		w.addPlainJob(old.Name, "", pol)
	} else {
		w.addPlainJob(old.Name, owner, pol)
	}
	return true
}

// addPlainJob creates Job name with a start policy (0 Allow, 1 Forbid, 2 Enqueue), owned by
// JobConfig n (label + owner reference) or independent (n == ""), one second after the previous
// Job.
func (w *queueWorld) addPlainJob(name, n string, pol int) {
	if n != "" {
		w.addOwnedJob(name, n, pol)
		return
	}
	j := &execution.Job{ObjectMeta: metav1.ObjectMeta{Namespace: "ns", Name: name}}
	j.Spec.StartPolicy = &execution.StartPolicySpec{ConcurrencyPolicy: []execution.ConcurrencyPolicy{"Allow", "Forbid", "Enqueue"}[pol]}
	w.clk.Step(time.Second)
	w.c.Emit("q.adv 1000000000", w.digest())
	_, _ = w.api.Create("jobs", j, false)
	w.jobsSeen = append(w.jobsSeen, name)
	w.c.Emit(fmt.Sprintf("q.job %s - - - 1 %d -", name, pol), w.digest())
}

// ownerLagRace: the directed history behind seeded change C07w3-2 (row 10 / G6 of the audit).  A
// JobConfig and a Job of it are created; the Job's add event reaches the Jobs cache and the queue
// controller's handler BEFORE the JobConfig reaches the JobConfig cache: handleJob cannot resolve
// the owner and drops the notification, and the controller has no JobConfig handler that would
// come back to it.  The Job is looked at again only on its next event or on the periodic resync.
func (w *queueWorld) ownerLagRace(jcNames []string, jobName string) bool {
	var free []string
	for _, n := range jcNames {
		if w.api.Get("jobconfigs", "ns/"+n) == nil && !w.outOfEnvelope["u-"+n] {
			if _, cached := w.ctx.Sim().JobConfigs().CacheGet(&execution.JobConfig{ObjectMeta: metav1.ObjectMeta{Namespace: "ns", Name: n}}); !cached {
				free = append(free, n)
			}
		}
	}
	if len(free) == 0 || w.outage {
		return false
	}
	n := free[w.rng.Intn(len(free))]
	w.c.Count("q.race.owner-not-cached")
	w.flush()
	max := int64(1 + w.rng.Intn(2))
	jc := &execution.JobConfig{ObjectMeta: metav1.ObjectMeta{Namespace: "ns", Name: n, UID: types.UID("u-" + n)}}
	jc.Spec.Concurrency.MaxConcurrency = &max
	_, _ = w.api.Create("jobconfigs", jc, false)
	if max > w.maxSeen["u-"+n] {
		w.maxSeen["u-"+n] = max
	}
	w.c.Emit(fmt.Sprintf("q.jc %s %d", n, max), w.digest())
	w.addOwnedJob(jobName, n, w.rng.Intn(3))
	ji := w.ctx.Sim().Jobs()
	w.api.DeliverOne("jobs", ji)
	w.c.Emit("q.deliver jobs", w.digest())
	for h := 0; h < 2; h++ {
		ji.NotifyNext(h)
		w.c.Emit(fmt.Sprintf("q.notify %d", h), w.digest())
	}
	if w.cfgQ.Len() == 0 {
		w.c.Count("q.race.owner-not-cached.notification-dropped")
	}
	return true
}

// queueEnvScenarios: corpus scenarios for the behaviours above.
func queueEnvScenarios(c *Ctx) {
	// F26 (behaviour A).  The start write of j01 is APPLIED on the server but the client is told
	// it failed (timeout / lost response).  startJob's deferred rollback takes the reservation
	// back; the retry submits the cached copy and is refused (stale resourceVersion) and rolls
	// back again; when the informer delivers unstarted -> started, Store.OnUpdate deliberately
	// does not count that edge ("CheckAndAdd did it").  Counter 0 while j01 is active: the next
	// Enqueue Job starts over the limit.  An applied-but-reported-failed write is one of "all
	// patterns of failed/conflicting start writes" of C05.
	c.RunScenario("f26-start-write-applied-but-reported-failed", func() {
		w := newQueueWorld(c, c.Rng, []string{"a"})
		w.judgeOutside = true
		w.addJC("a", 1)
		w.flush()
		w.addOwnedJob("j01", "a", 2)
		w.flush()
		w.faults = append(w.faults, sim.FaultAppliedErr)
		w.outside("E-ErrNotApplied")
		c.Emit("q.fault "+sim.FaultAppliedErr, w.digest())
		w.work("cfg") // CheckAndAdd 0 -> 1, write applied, error returned, rollback -> 0
		if w.lastCall() == "start:j01:ok" && w.apiJob("j01").Status.StartTime != nil && w.ctrOf("a") == 0 {
			c.Count("q.scn.f26.applied-and-rolled-back")
		}
		w.adv(time.Second)
		w.work("cfg") // the retry on the stale cached copy: Conflict, rollback again
		if w.lastCall() == "start:j01:conflict" {
			c.Count("q.scn.f26.retry-conflict")
		}
		w.flush() // unstarted -> started reaches the store: not counted
		w.adv(2 * time.Second)
		w.work("cfg") // nothing queued any more
		w.addOwnedJob("j02", "a", 2)
		w.flush()
		w.work("cfg") // counter 0: j02 is started although j01 is active and the limit is 1
		if w.lastCall() == "start:j02:ok" {
			c.Count("q.scn.f26.second-job-started")
		}
		w.settle()
		c.Nontrivial()
	})
	// F27 (behaviour B, G1).  j01 is active and everything is delivered.  The previous leader's
	// last write finishes j01 and the process dies.  The new process's initial LIST is older than
	// that write (j01 active), the store's handler registers, the watch delivers the finish while
	// Recover waits for the cache-sync poll, THEN Recover reads the lister: j01 is not counted
	// (inactive in the lister) and is decremented by its notification: counter -1, two more Jobs
	// start with maxConcurrency 1.  Second half: the same with a user removing the active Job
	// (no finalizer) in the window.
	c.RunScenario("f27-recover-window-double-decrement", func() {
		w := newQueueWorld(c, c.Rng, []string{"a", "b"})
		w.judgeOutside = true
		w.addJC("a", 1)
		w.addJC("b", 1)
		w.flush()
		w.addOwnedJob("j01", "a", 2)
		w.addOwnedJob("j11", "b", 2)
		w.flush()
		w.work("cfg")
		w.work("cfg")
		w.flush()
		w.api.Mutate("jobs", "ns/j01", func(o runtime.Object) { o.(*execution.Job).Status.Phase = execution.JobSucceeded })
		c.Emit("q.phase j01 1", w.digest())
		w.api.Remove("jobs", "ns/j11")
		c.Emit("q.del j11", w.digest())
		w.restartStale(0, 0, 2)
		if w.ctrOf("a") == 0 && w.ctrOf("b") == 0 && w.ctx.Sim().Jobs().PendingFor(0) == 2 {
			c.Count("q.scn.f27.recovered-zero-with-notifications-pending")
		}
		for i := 0; i < 2; i++ {
			w.ctx.Sim().Jobs().NotifyNext(0)
			c.Emit("q.notify 0", w.digest())
		}
		if w.ctrOf("a") == -1 && w.ctrOf("b") == -1 {
			c.Count("q.scn.f27.counter-negative")
		}
		w.addOwnedJob("j02", "a", 2)
		w.addOwnedJob("j03", "a", 2)
		w.addOwnedJob("j12", "b", 1)
		w.addOwnedJob("j13", "b", 1)
		w.flush()
		w.work("cfg") // a: j02 and j03 both start
		w.work("cfg") // b: j12 and j13 (Forbid) both start instead of one being rejected
		w.settle()
		c.Nontrivial()
	})
	// F28 (behaviour C, G2).  The process starts j01 and dies before the event reaches it.  The
	// new process's initial LIST (resourceVersion "0", served from the API server's watch cache)
	// still shows j01 unstarted: Recover counts 0.  The watch replays unstarted -> started, which
	// Store.OnUpdate ignores because "CheckAndAdd did it" — in the dead process.  Counter 0 with
	// j01 active: j02 starts over the limit.
	c.RunScenario("f28-stale-initial-list-undercounts", func() {
		w := newQueueWorld(c, c.Rng, []string{"a"})
		w.judgeOutside = true
		w.addJC("a", 1)
		w.flush()
		w.addOwnedJob("j01", "a", 2)
		w.flush()
		w.work("cfg") // start j01; the update event stays undelivered
		w.restartStale(0, 0, 0)
		if w.ctrOf("a") == 0 && len(w.api.Pending["jobs"]) == 1 {
			c.Count("q.scn.f28.recovered-zero-start-event-pending")
		}
		w.addOwnedJob("j02", "a", 2)
		w.flush() // the watch catches up: unstarted -> started is ignored by the store
		w.work("cfg")
		if w.lastCall() == "start:j02:ok" {
			c.Count("q.scn.f28.second-job-started")
		}
		w.settle()
		c.Nontrivial()
	})
	// Seeded changes C05w3-2 / C07w3-1 (Store.OnUpdate keyed by the NEW object).  JobConfig a has
	// the active Job j01 and the queued Enqueue Job j03 behind it; JobConfig b (limit 1) has j02
	// running and j04 queued.  The Jobs watch is interrupted; j01 is removed and a new, queued
	// Job j01 is created for b; the relist pairs the two by name in ONE
	// OnUpdate(old = j01 of a, active; new = j01 of b, queued).  The slot released is a's:
	// the store ends at a = 0, b = 1; j03 starts (after the resync: the notification only wakes b).
	// Then j03 (active, of a) is replaced by an independent Job of that name and j05 of a is
	// created inside the outage.
	c.RunScenario("relist-pairs-recreated-job-of-other-jobconfig", func() {
		w := newQueueWorld(c, c.Rng, []string{"a", "b"})
		w.addJC("a", 1)
		w.addJC("b", 1)
		w.flush()
		w.addOwnedJob("j01", "a", 2)
		w.addOwnedJob("j02", "b", 2)
		w.flush()
		w.work("cfg")
		w.work("cfg")
		w.flush()
		w.addOwnedJob("j03", "a", 2)
		w.addOwnedJob("j04", "b", 2)
		w.flush()
		w.work("cfg")
		w.work("cfg") // both wait: each JobConfig is at its limit
		w.beginOutage()
		w.api.Remove("jobs", "ns/j01")
		c.Emit("q.del j01", w.digest())
		w.addOwnedJob("j01", "b", 2)
		w.relist()
		w.flush()
		if w.ctrOf("a") == 0 && w.ctrOf("b") == 1 {
			c.Count("q.scn.relist.slot-of-old-jobconfig-released")
		}
		w.work("cfg") // b: still at its limit, nothing may start
		w.settle()
		if w.ctrOf("a") == 1 && w.ctrOf("b") == 1 && jobutil.IsActive(w.apiJob("j03")) && !jobutil.IsStarted(w.apiJob("j04")) {
			c.Count("q.scn.relist.a2-started-b2-waits")
		}
		// the independent variant (C07w3-1): the name of a's active Job is taken by an independent Job
		w.beginOutage()
		w.api.Remove("jobs", "ns/j03")
		c.Emit("q.del j03", w.digest())
		w.addPlainJob("j03", "", 0)
		w.addOwnedJob("j05", "a", 2) // created inside the outage: the cache learns of it by the relist
		w.relist()
		w.settle()
		if w.ctrOf("a") == 1 && jobutil.IsActive(w.apiJob("j05")) && jobutil.IsStarted(w.apiJob("j03")) {
			c.Count("q.scn.relist.independent-variant-a3-started")
		}
		c.Nontrivial()
	})
	// F35.  j01 is started by this process; the Jobs watch is already interrupted, so the cache
	// keeps the unstarted copy.  A user removes j01 (it carries no finalizer) inside the outage.
	// The relist sends a tombstone with the last CACHED state (unstarted): Store.OnDelete sees an
	// inactive Job and does not release the slot CheckAndAdd reserved.  Counter 1 for ever with no
	// active Job: j02 (Enqueue) never starts.  With the delete-dependents finalizer the object
	// would stay until the job controller — which reads the same blind informer — acts, and the
	// relist would pair unstarted -> started instead: outside E-FinalizerPresent.
	c.RunScenario("f35-started-job-removed-inside-outage-leaks-slot", func() {
		w := newQueueWorld(c, c.Rng, []string{"a", "b"})
		w.judgeOutside = true
		w.addJC("a", 1)
		w.addJC("b", 1)
		w.flush()
		// the contrast (inside E-FinalizerPresent): j11 of b is started inside an outage and the user
		// deletes it; it carries the finalizer, so it only gets a deletion timestamp and stays active
		// (the job controller reads the same blind informer); the relist pairs unstarted -> started,
		// which is not counted: the reservation of CheckAndAdd stands and is exact
		w.addOwnedJob("j11", "b", 2)
		w.flush()
		w.beginOutage()
		w.work("cfg")
		now := metav1.NewTime(time.Unix(w.clk.Now().Unix(), 0))
		w.api.Mutate("jobs", "ns/j11", func(o runtime.Object) {
			j := o.(*execution.Job)
			j.DeletionTimestamp = &now
			j.Finalizers = []string{"execution.furiko.io/delete-dependents-finalizer"}
		})
		c.Emit("q.markdel j11", w.digest())
		w.relist()
		w.flush()
		if w.ctrOf("b") == 1 && w.trueActive("u-b", "") == 1 && len(w.envBroken) == 0 {
			c.Count("q.scn.f35.with-finalizer-slot-exact")
		}
		w.work("cfg") // b's key, re-queued by the relist notification: nothing is queued for b
		w.addOwnedJob("j01", "a", 2)
		w.flush()
		w.beginOutage()
		w.work("cfg") // start j01: the cache will not see it
		w.api.Remove("jobs", "ns/j01")
		c.Emit("q.del j01", w.digest())
		w.addOwnedJob("j02", "a", 2)
		w.relist()
		w.flush()
		if w.ctrOf("a") == 1 && w.trueActive("u-a", "") == 0 {
			c.Count("q.scn.f35.slot-leaked")
		}
		w.settle()
		c.Nontrivial()
	})
	// Seeded change C07w3-2 (the queue controller's handler opts out of the periodic resync).  The
	// add notification of j01 is handled before its JobConfig reaches the JobConfig cache:
	// handleJob cannot resolve the owner and returns; nothing else will look at j01 until the
	// resync notifies the handler again.
	c.RunScenario("owner-not-cached-notification-dropped-until-resync", func() {
		w := newQueueWorld(c, c.Rng, []string{"a"})
		w.addJC("a", 1) // not delivered
		w.addOwnedJob("j01", "a", 0)
		ji := w.ctx.Sim().Jobs()
		w.api.DeliverOne("jobs", ji)
		c.Emit("q.deliver jobs", w.digest())
		for h := 0; h < 2; h++ {
			ji.NotifyNext(h)
			c.Emit(fmt.Sprintf("q.notify %d", h), w.digest())
		}
		if w.cfgQ.Len() == 0 && w.indQ.Len() == 0 {
			c.Count("q.scn.owner-lag.notification-dropped")
		}
		w.flush() // the JobConfig arrives; no handler is registered on that informer
		w.work("cfg")
		if !jobutil.IsStarted(w.apiJob("j01")) {
			c.Count("q.scn.owner-lag.still-queued-before-resync")
		}
		w.settle() // the resync round re-notifies the handler: j01 starts
		if jobutil.IsStarted(w.apiJob("j01")) {
			c.Count("q.scn.owner-lag.started-after-resync")
		}
		c.Nontrivial()
	})
}

func (w *queueWorld) ctrOf(n string) int64 {
	return w.store.CountActiveJobsForConfig(&execution.JobConfig{ObjectMeta: metav1.ObjectMeta{UID: types.UID("u-" + n)}})
}

// envSummary renders the envelopes a case has left (for debugging replays).
func (w *queueWorld) envSummary() string {
	ks := SortedKeys(w.envBroken)
	sort.Strings(ks)
	return strings.Join(ks, ",")
}
