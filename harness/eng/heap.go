package eng

import (
	"fmt"
	"math/rand"

	"github.com/furiko-io/furiko/pkg/utils/heap"
)

// Engine "heap": random operation sequences on the real pkg/utils/heap.Heap (public API only).
// After every mutating operation Len and Peek are printed so that array order matters.
// Monitor (independent of the Lean model): a reference map name -> priority.

func init() { Register("heap", runHeap) }

func heapPeekStr(h *heap.Heap) string {
	it, ok := h.Peek()
	if !ok {
		return "none"
	}
	return fmt.Sprintf("%s:%d", it.Name(), it.Priority())
}

func runHeap(c *Ctx) {
	maxOps := 60
	if c.Tier == "thorough" {
		maxOps = 600
	}
	c.ForCases(func(i int, rng *rand.Rand) {
		nNames := 1 + rng.Intn(30)
		prioRange := 1 + rng.Intn(20) // small ranges => many ties
		if rng.Intn(4) == 0 {
			prioRange = 1000
		}
		ref := map[string]int{}
		name := func() string { return fmt.Sprintf("n%d", rng.Intn(nNames)) }
		// initial items
		var items []*heap.Item
		initN := rng.Intn(nNames + 1)
		if rng.Intn(3) == 0 {
			initN = 0
		}
		op := "heap.new"
		for k := 0; k < initN; k++ {
			nm := fmt.Sprintf("n%d", k)
			p := rng.Intn(prioRange)
			items = append(items, heap.NewItem(nm, p))
			ref[nm] = p
			op += fmt.Sprintf(" %s:%d", nm, p)
		}
		h := heap.New(items)
		c.Emit(op, fmt.Sprintf("%d %s", h.Len(), heapPeekStr(h)))
		nops := 1 + rng.Intn(maxOps)
		if nops > 8 {
			c.Nontrivial()
		}
		for k := 0; k < nops; k++ {
			switch r := rng.Intn(100); {
			case r < 30: // push a fresh name
				nm := name()
				if _, ok := ref[nm]; ok {
					c.Count("heap.push.skipped-present")
					continue
				}
				p := rng.Intn(prioRange)
				h.Push(nm, p)
				ref[nm] = p
				c.Count("heap.push")
				c.Emit(fmt.Sprintf("heap.push %s %d", nm, p), fmt.Sprintf("%d %s", h.Len(), heapPeekStr(h)))
			case r < 50: // pop
				if h.Len() == 0 {
					c.Count("heap.pop.empty")
					c.Emit("heap.pop", "empty")
					continue
				}
				it := h.Pop()
				c.Count("heap.pop")
				// monitor: popped item has minimal priority among the reference map and matches it
				min := it.Priority()
				for _, p := range ref {
					if p < min {
						min = p
					}
				}
				if rp, ok := ref[it.Name()]; !ok || rp != it.Priority() || min != it.Priority() {
					c.Violate("C01", "heap.pop-min", "popped %s:%d, reference has %v (min %d)", it.Name(), it.Priority(), ref, min)
				}
				delete(ref, it.Name())
				c.Emit("heap.pop", fmt.Sprintf("%s:%d %d %s", it.Name(), it.Priority(), h.Len(), heapPeekStr(h)))
			case r < 65: // search
				nm := name()
				p, ok := h.Search(nm)
				rp, rok := ref[nm]
				if ok != rok || (ok && p != rp) {
					c.Violate("C01", "heap.search", "search %s = %d,%v reference %d,%v", nm, p, ok, rp, rok)
				}
				c.Count("heap.search")
				if ok {
					c.Emit("heap.search "+nm, fmt.Sprint(p))
				} else {
					c.Emit("heap.search "+nm, "none")
				}
			case r < 85: // update
				nm := name()
				p := rng.Intn(prioRange)
				ok := h.Update(nm, p)
				if _, rok := ref[nm]; rok != ok {
					c.Violate("C01", "heap.update", "update %s returned %v, reference present=%v", nm, ok, rok)
				}
				if ok {
					ref[nm] = p
					c.Count("heap.update.hit")
				} else {
					c.Count("heap.update.miss")
				}
				c.Emit(fmt.Sprintf("heap.update %s %d", nm, p), fmt.Sprintf("%s %d %s", B(ok), h.Len(), heapPeekStr(h)))
			default: // delete
				nm := name()
				ok := h.Delete(nm)
				if _, rok := ref[nm]; rok != ok {
					c.Violate("C01", "heap.delete", "delete %s returned %v, reference present=%v", nm, ok, rok)
				}
				delete(ref, nm)
				if ok {
					c.Count("heap.delete.hit")
				} else {
					c.Count("heap.delete.miss")
				}
				c.Emit("heap.delete "+nm, fmt.Sprintf("%s %d %s", B(ok), h.Len(), heapPeekStr(h)))
			}
			if h.Len() != len(ref) {
				c.Violate("C01", "heap.len", "len %d, reference %d", h.Len(), len(ref))
			}
			if it, ok := h.Peek(); ok {
				for _, p := range ref {
					if p < it.Priority() {
						c.Violate("C01", "heap.peek-min", "peek %s:%d but reference holds priority %d", it.Name(), it.Priority(), p)
						break
					}
				}
			}
		}
		// drain: the full pop order is compared
		for h.Len() > 0 {
			it := h.Pop()
			delete(ref, it.Name())
			c.Emit("heap.pop", fmt.Sprintf("%s:%d %d %s", it.Name(), it.Priority(), h.Len(), heapPeekStr(h)))
		}
	})
}
