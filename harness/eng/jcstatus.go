package eng

// Engine "jcstatus" (property C15): the real jobconfigcontroller.Reconciler.SyncOne and the real
// jobconfigcontroller.InformerWorker on sim.NewContext() (deterministic fake informers), with the
// repo's fake furiko clientset as the API.  A reactor in front of the fake clientset gives the
// JobConfig status subresource the API-server semantics the property relies on (only the status is
// replaced, resourceVersion bumps, optimistic concurrency on resourceVersion); the concurrency
// check can be switched off (occ=0) to show what the default fake clientset would let through.
//
// Op grammar (one line per op; model side: lean/FurikoModel/Driver/JcStatusD.lean):
//
//	jcstatus.reset <occ>
//	jcstatus.api-jc <ns> <name> <uid> <sched> <STATUS>        create/replace the authoritative JobConfig   -> rv=<n>
//	jcstatus.api-jc-del <ns> <name>                           -> ok
//	jcstatus.api-jc-sched <ns> <name> <sched>                 user edits spec.schedule                    -> rv=<n>
//	jcstatus.ev-jc <add|upd|del|tomb> <ns> <name> <uid> <sched> <rv> <STATUS>   deliver to JobConfig cache + handler -> enqueued key | -
//	jcstatus.ev-job <add|upd|del|tomb> <JOB>                  deliver to Job cache + handler              -> enqueued key | -
//	jcstatus.cache-job <JOB>                                  Job cache only                              -> ok
//	jcstatus.sync <ns> <name> <exact|set>                     SyncOne -> <miss|noop|upd|conflict|gone> rv=<n> <status on the API> ev=<events>
//	jcstatus.truth <words…>                                   ground-truth action on the Job API (for readable replays) -> ok
//
//	JOB    = ns name uid created label|~ ownerKind|~ ownerName|~ ownerUid|~ start|- phase deletion|- annotation|~
//	STATUS = state queued refs|- active refs|- lastScheduled|- lastExecuted|-      refs = uid|name|created|phase|start ; …
//	sched  = three 0/1 digits: schedule!=nil, cron!=nil, disabled
//
// Monitors (independent of the Lean model; ground truth = the Job objects this harness put on the
// fake API and its own record of their life-cycle stage / schedule time / start time):
//
//	quiescent-lists-exact  at quiescence the status lists exactly the queued and exactly the active Jobs of the JobConfig
//	counts-match           queued == len(queuedJobs), active == len(activeJobs) in every status on the API
//	quiescent-state        at quiescence state is Executing / JobQueued / Ready* per the statement
//	lastScheduled-monotone / lastExecuted-monotone    successive API values never decrease (E-API: occ=1)
//	lastScheduled-ge-observed / lastExecuted-ge-observed   API value >= every schedule/start time a completed sync has listed, for ever
//	lastScheduled-ge-any-job / lastExecuted-ge-any-job   the property's own clause with ground truth: at quiescence
//	                       the API value >= the schedule / start time of EVERY Job the JobConfig ever had (the harness
//	                       knows them all), also of Jobs that are gone.  Judged on generated cases only inside
//	                       E-JobObservedBeforeGone (every Job that is gone was listed, with its final schedule and
//	                       start time, by a completed sync of its JobConfig before it left the Job cache); what
//	                       happens outside is known finding F33 (scenario f33-job-never-observed-misses-lastScheduled)
//	fixpoint-noop          at quiescence one more SyncOne writes nothing
//	enqueue-owner          (E-OwnerLabel jobs) a Job event enqueues exactly the key of its JobConfig when that is cached

import (
	"context"
	"fmt"
	"math/rand"
	"os"
	"sort"
	"strconv"
	"strings"

	pkgerrors "github.com/pkg/errors"
	kerrors "k8s.io/apimachinery/pkg/api/errors"
	metav1 "k8s.io/apimachinery/pkg/apis/meta/v1"
	"k8s.io/apimachinery/pkg/runtime"
	"k8s.io/apimachinery/pkg/runtime/schema"
	"k8s.io/apimachinery/pkg/types"
	k8stesting "k8s.io/client-go/testing"
	"k8s.io/client-go/tools/cache"
	"time"

	configv1alpha1 "github.com/furiko-io/furiko/apis/config/v1alpha1"
	execution "github.com/furiko-io/furiko/apis/execution/v1alpha1"
	"github.com/furiko-io/furiko/pkg/execution/controllers/jobconfigcontroller"
	"github.com/furiko-io/furiko/pkg/execution/util/jobconfig"

	"verifharness/sim"
)

func init() { Register("jcstatus", runJcStatus) }

var (
	jcsGVRJobConfig = schema.GroupVersionResource{Group: "execution.furiko.io", Version: "v1alpha1", Resource: "jobconfigs"}
	jcsGVRJob       = schema.GroupVersionResource{Group: "execution.furiko.io", Version: "v1alpha1", Resource: "jobs"}
)

// ---------------------------------------------------------------------------------------------
// deterministic stand-ins: event recorder and work queue

type jcsRecorder struct{ evs []string }

func (r *jcsRecorder) Event(_ runtime.Object, _, reason, message string) {
	r.evs = append(r.evs, reason[:1]+":"+message)
}
func (r *jcsRecorder) Eventf(_ runtime.Object, _, reason, _ string, args ...interface{}) {
	a := ""
	if len(args) > 0 {
		a = fmt.Sprint(args[0])
	}
	r.evs = append(r.evs, reason[:1]+":"+a)
}
func (r *jcsRecorder) AnnotatedEventf(o runtime.Object, _ map[string]string, t, reason, f string, args ...interface{}) {
	r.Eventf(o, t, reason, f, args...)
}

// jcsQueue records the keys the informer handlers add (FIFO, de-duplicated like a workqueue).
type jcsQueue struct {
	keys  []string
	added []string // every Add call since the last clearAdded (also duplicates)
}

func (q *jcsQueue) Add(item interface{}) {
	k := item.(string)
	q.added = append(q.added, k)
	for _, x := range q.keys {
		if x == k {
			return
		}
	}
	q.keys = append(q.keys, k)
}
func (q *jcsQueue) remove(k string) {
	for i, x := range q.keys {
		if x == k {
			q.keys = append(q.keys[:i:i], q.keys[i+1:]...)
			return
		}
	}
}
func (q *jcsQueue) Len() int                                   { return len(q.keys) }
func (q *jcsQueue) Get() (interface{}, bool)                   { panic("jcsQueue.Get is not used") }
func (q *jcsQueue) Done(interface{})                           {}
func (q *jcsQueue) ShutDown()                                  {}
func (q *jcsQueue) ShutDownWithDrain()                         {}
func (q *jcsQueue) ShuttingDown() bool                         { return false }
func (q *jcsQueue) AddAfter(item interface{}, _ time.Duration) { q.Add(item) }
func (q *jcsQueue) AddRateLimited(item interface{})            { q.Add(item) }
func (q *jcsQueue) Forget(interface{})                         {}
func (q *jcsQueue) NumRequeues(interface{}) int                { return 0 }

// ---------------------------------------------------------------------------------------------
// environment shared by all cases of a run (the controller context spawns goroutines for its own
// work queue, so it is built once; every case cleans up after itself)

type jcsEnv struct {
	sc       *sim.Context
	rec      *jobconfigcontroller.Reconciler
	q        *jcsQueue
	recorder *jcsRecorder
	cur      *jcsWorld
}

func newJcsEnv() *jcsEnv {
	e := &jcsEnv{sc: sim.NewContext(), q: &jcsQueue{}, recorder: &jcsRecorder{}}
	cc := jobconfigcontroller.NewContextWithRecorder(e.sc, e.recorder)
	cc.VerifSetQueue(e.q)
	jobconfigcontroller.NewInformerWorker(cc) // registers the real handlers on the fake informers
	e.rec = jobconfigcontroller.NewReconciler(cc, &configv1alpha1.Concurrency{Workers: 1})
	fk := e.sc.MockClientsets().FurikoMock()
	// API-server semantics of the JobConfig status subresource.
	fk.PrependReactor("update", "jobconfigs", func(a k8stesting.Action) (bool, runtime.Object, error) {
		ua, ok := a.(k8stesting.UpdateAction)
		if !ok || a.GetSubresource() != "status" {
			return false, nil, nil
		}
		return e.cur.apiUpdateStatus(ua.GetObject().(*execution.JobConfig))
	})
	return e
}

// ---------------------------------------------------------------------------------------------
// ground truth

const (
	jcsQueued   = 0
	jcsActive   = 1
	jcsFinished = 2
)

type jcsJob struct {
	obj   *execution.Job
	stage int    // life-cycle stage decided by the harness
	sched *int64 // schedule time the harness gave the Job (nil: none, or annotation known to be invalid)
	// schedJudged is false for annotation strings whose meaning as a Unix time is debatable
	// ("+5", "007", negative values, the zero instant): only the correspondence sees them.
	schedJudged bool
	start       *int64 // start time (nil while not started)
}

type jcsEvent struct {
	kind string // set | del
	tomb bool
	job  *jcsJob
	jc   *execution.JobConfig
}

type jcsWorld struct {
	c    *Ctx
	e    *jcsEnv
	rng  *rand.Rand
	occ  bool
	mode string // exact | set
	rv   int64
	now  int64
	seq  int

	apiJobs   map[string]*jcsJob
	everJobs  []*execution.Job // every Job that was ever on the API in this case (for the E-OwnerLabel tag)
	everRecs  []jcsJob         // ... with the harness' record of its schedule / start time (one entry per version)
	apiJCs    map[string]*execution.JobConfig
	cacheJobs map[string]*jcsJob
	cacheJCs  map[string]*execution.JobConfig
	pendJob   []jcsEvent
	pendJC    []jcsEvent

	obsSched, obsStart map[string]int64  // by JobConfig uid: max schedule/start time listed by a completed sync
	obsJobSched        map[string]int64  // by JobConfig uid + "/" + Job uid: schedule time listed by a completed sync
	obsJobStart        map[string]int64  // ... start time
	anyJobAlarm        bool              // scenario mode: raise the any-job monitors outside E-JobObservedBeforeGone too
	prevLS, prevLE     map[string]*int64 // by JobConfig uid: last value seen on the API
	writes             int               // status writes accepted by the API in this case
}

func jcsKey(ns, name string) string { return ns + "/" + name }

func (e *jcsEnv) newWorld(c *Ctx, rng *rand.Rand, occ bool, mode string) *jcsWorld {
	w := &jcsWorld{c: c, e: e, rng: rng, occ: occ, mode: mode, now: 1_600_000_000 + int64(rng.Intn(1000)),
		apiJobs: map[string]*jcsJob{}, apiJCs: map[string]*execution.JobConfig{},
		cacheJobs: map[string]*jcsJob{}, cacheJCs: map[string]*execution.JobConfig{},
		obsSched: map[string]int64{}, obsStart: map[string]int64{},
		obsJobSched: map[string]int64{}, obsJobStart: map[string]int64{},
		prevLS: map[string]*int64{}, prevLE: map[string]*int64{}}
	e.cur = w
	e.q.keys, e.q.added = nil, nil
	c.Emit("jcstatus.reset "+B(occ), "ok")
	return w
}

// cleanup removes everything this case put into the shared caches and the fake API.
func (w *jcsWorld) cleanup() {
	tr := w.e.sc.MockClientsets().FurikoMock().Tracker()
	for _, j := range w.apiJobs {
		_ = tr.Delete(jcsGVRJob, j.obj.Namespace, j.obj.Name)
	}
	for _, jc := range w.apiJCs {
		_ = tr.Delete(jcsGVRJobConfig, jc.Namespace, jc.Name)
	}
	for _, j := range w.cacheJobs {
		w.e.sc.Sim().Jobs().CacheDel(j.obj)
	}
	for _, jc := range w.cacheJCs {
		w.e.sc.Sim().JobConfigs().CacheDel(jc)
	}
	w.e.sc.MockClientsets().ClearActions()
	w.e.cur = nil
}

func (w *jcsWorld) tick() int64 {
	w.now += 1 + int64(w.rng.Intn(5))
	return w.now
}

func (w *jcsWorld) uid(prefix string) string {
	w.seq++
	return fmt.Sprintf("%s-%d", prefix, w.seq)
}

// ---------------------------------------------------------------------------------------------
// rendering

func jcsOptT(t *metav1.Time) string {
	if t == nil {
		return "-"
	}
	return strconv.FormatInt(t.Unix(), 10)
}

func jcsRefsIn(refs []execution.JobReference) string {
	if len(refs) == 0 {
		return "-"
	}
	parts := make([]string, len(refs))
	for i, r := range refs {
		parts[i] = fmt.Sprintf("%s|%s|%d|%s|%s", Q(string(r.UID)), Q(r.Name), r.CreationTimestamp.Unix(), Q(string(r.Phase)), jcsOptT(r.StartTime))
	}
	return strings.Join(parts, ";")
}

func jcsStatusIn(st *execution.JobConfigStatus) string {
	return fmt.Sprintf("%s %d %s %d %s %s %s", Q(string(st.State)), st.Queued, jcsRefsIn(st.QueuedJobs), st.Active,
		jcsRefsIn(st.ActiveJobs), jcsOptT(st.LastScheduled), jcsOptT(st.LastExecuted))
}

func jcsSched(jc *execution.JobConfig) string {
	s := jc.Spec.Schedule
	return B(s != nil) + B(s != nil && s.Cron != nil) + B(s != nil && s.Disabled)
}

func jcsRefsOut(refs []execution.JobReference, asSet bool) string {
	rs := append([]execution.JobReference(nil), refs...)
	if asSet {
		sort.SliceStable(rs, func(i, j int) bool {
			if rs[i].Name != rs[j].Name {
				return rs[i].Name < rs[j].Name
			}
			return rs[i].UID < rs[j].UID
		})
	}
	parts := make([]string, len(rs))
	for i, r := range rs {
		parts[i] = fmt.Sprintf("%s|%s|%d|%s|%s", r.Name, r.UID, r.CreationTimestamp.Unix(), r.Phase, jcsOptT(r.StartTime))
	}
	return strings.Join(parts, ";")
}

func jcsStatusOut(st *execution.JobConfigStatus, asSet bool) string {
	return fmt.Sprintf("%s q=%d[%s] a=%d[%s] ls=%s le=%s", st.State, st.Queued, jcsRefsOut(st.QueuedJobs, asSet),
		st.Active, jcsRefsOut(st.ActiveJobs, asSet), jcsOptT(st.LastScheduled), jcsOptT(st.LastExecuted))
}

func jcsJobTokens(j *execution.Job) string {
	label := "~"
	if v, ok := j.Labels[jobconfig.LabelKeyJobConfigUID]; ok {
		label = Q(v)
	}
	ok, on, ou := "~", "~", "~"
	if ref := metav1.GetControllerOf(j); ref != nil {
		ok, on, ou = Q(ref.Kind), Q(ref.Name), Q(string(ref.UID))
	}
	ann := "~"
	if v, has := j.Annotations[jobconfig.AnnotationKeyScheduleTime]; has {
		ann = Q(v)
	}
	return fmt.Sprintf("%s %s %s %d %s %s %s %s %s %s %s %s", Q(j.Namespace), Q(j.Name), Q(string(j.UID)),
		j.CreationTimestamp.Unix(), label, ok, on, ou, jcsOptT(j.Status.StartTime), Q(string(j.Status.Phase)),
		jcsOptT(j.DeletionTimestamp), ann)
}

func jcsJCTokens(jc *execution.JobConfig) string {
	return fmt.Sprintf("%s %s %s %s %s %s", Q(jc.Namespace), Q(jc.Name), Q(string(jc.UID)), jcsSched(jc), jc.ResourceVersion, jcsStatusIn(&jc.Status))
}

// ---------------------------------------------------------------------------------------------
// the API

func (w *jcsWorld) tracker() k8stesting.ObjectTracker {
	return w.e.sc.MockClientsets().FurikoMock().Tracker()
}

func (w *jcsWorld) nextRV() string {
	w.rv++
	return strconv.FormatInt(w.rv, 10)
}

func jcsSchedSpec(kind int) *execution.ScheduleSpec {
	switch kind {
	case 1:
		return &execution.ScheduleSpec{Cron: &execution.CronSchedule{Expression: "0 * * * *"}}
	case 2:
		return &execution.ScheduleSpec{Cron: &execution.CronSchedule{Expression: "0 * * * *"}, Disabled: true}
	case 3:
		return &execution.ScheduleSpec{}
	case 4:
		return &execution.ScheduleSpec{Disabled: true}
	}
	return nil
}

// createJC puts a JobConfig on the API (replacing one of the same name) and queues its watch event.
func (w *jcsWorld) createJC(ns, name string, schedKind int, st execution.JobConfigStatus) *execution.JobConfig {
	key := jcsKey(ns, name)
	if old, ok := w.apiJCs[key]; ok {
		_ = w.tracker().Delete(jcsGVRJobConfig, ns, name)
		w.pendJC = append(w.pendJC, jcsEvent{kind: "del", jc: old.DeepCopy()})
	}
	jc := &execution.JobConfig{
		ObjectMeta: metav1.ObjectMeta{Namespace: ns, Name: name, UID: types.UID(w.uid("jc")), ResourceVersion: w.nextRV(),
			CreationTimestamp: metav1.Unix(w.tick(), 0)},
		Spec:   execution.JobConfigSpec{Schedule: jcsSchedSpec(schedKind)},
		Status: st,
	}
	if err := w.tracker().Add(jc.DeepCopy()); err != nil {
		panic(err)
	}
	w.apiJCs[key] = jc
	w.c.Emit(fmt.Sprintf("jcstatus.api-jc %s %s %s %s %s", Q(ns), Q(name), Q(string(jc.UID)), jcsSched(jc), jcsStatusIn(&jc.Status)), "rv="+jc.ResourceVersion)
	w.pendJC = append(w.pendJC, jcsEvent{kind: "set", jc: jc.DeepCopy()})
	w.noteAPIStatus(jc, false)
	return jc
}

func (w *jcsWorld) deleteJC(key string) {
	jc, ok := w.apiJCs[key]
	if !ok {
		return
	}
	_ = w.tracker().Delete(jcsGVRJobConfig, jc.Namespace, jc.Name)
	delete(w.apiJCs, key)
	w.c.Emit(fmt.Sprintf("jcstatus.api-jc-del %s %s", Q(jc.Namespace), Q(jc.Name)), "ok")
	w.pendJC = append(w.pendJC, jcsEvent{kind: "del", tomb: w.rng.Intn(4) == 0, jc: jc.DeepCopy()})
}

func (w *jcsWorld) setSched(key string, schedKind int) {
	jc, ok := w.apiJCs[key]
	if !ok {
		return
	}
	jc.Spec.Schedule = jcsSchedSpec(schedKind)
	jc.ResourceVersion = w.nextRV()
	if err := w.tracker().Update(jcsGVRJobConfig, jc.DeepCopy(), jc.Namespace); err != nil {
		panic(err)
	}
	w.c.Emit(fmt.Sprintf("jcstatus.api-jc-sched %s %s %s", Q(jc.Namespace), Q(jc.Name), jcsSched(jc)), "rv="+jc.ResourceVersion)
	w.pendJC = append(w.pendJC, jcsEvent{kind: "set", jc: jc.DeepCopy()})
}

// apiUpdateStatus is the status-subresource update of the simulated API server.
func (w *jcsWorld) apiUpdateStatus(obj *execution.JobConfig) (bool, runtime.Object, error) {
	key := jcsKey(obj.Namespace, obj.Name)
	cur, ok := w.apiJCs[key]
	if !ok {
		w.c.Count("jcstatus.api.update-notfound")
		return true, nil, kerrors.NewNotFound(jcsGVRJobConfig.GroupResource(), obj.Name)
	}
	if w.occ && obj.ResourceVersion != cur.ResourceVersion {
		w.c.Count("jcstatus.api.update-conflict")
		return true, nil, kerrors.NewConflict(jcsGVRJobConfig.GroupResource(), obj.Name, fmt.Errorf("resourceVersion"))
	}
	if obj.ResourceVersion != cur.ResourceVersion {
		w.c.Count("jcstatus.api.stale-write-accepted(no-occ)")
	}
	cur.Status = *obj.Status.DeepCopy()
	cur.ResourceVersion = w.nextRV()
	if err := w.tracker().Update(jcsGVRJobConfig, cur.DeepCopy(), cur.Namespace); err != nil {
		panic(err)
	}
	w.writes++
	w.c.Count("jcstatus.api.update-ok")
	w.pendJC = append(w.pendJC, jcsEvent{kind: "set", jc: cur.DeepCopy()})
	w.noteAPIStatus(cur, true)
	return true, cur.DeepCopy(), nil
}

func jcsTimeLess(a, b *int64) bool { // nil is below everything
	if b == nil {
		return false
	}
	return a == nil || *a < *b
}

func jcsUnixPtr(t *metav1.Time) *int64 {
	if t == nil {
		return nil
	}
	v := t.Unix()
	return &v
}

// noteAPIStatus runs the per-write monitors on the status that is now on the API.
func (w *jcsWorld) noteAPIStatus(jc *execution.JobConfig, byController bool) {
	uid := string(jc.UID)
	st := &jc.Status
	if int(st.Active) != len(st.ActiveJobs) || int(st.Queued) != len(st.QueuedJobs) {
		if byController { // initial statuses are generated (possibly inconsistent) input
			w.c.Violate("C15", "counts-match", "%s: active=%d with %d refs, queued=%d with %d refs", jc.Name, st.Active, len(st.ActiveJobs), st.Queued, len(st.QueuedJobs))
		}
	}
	ls, le := jcsUnixPtr(st.LastScheduled), jcsUnixPtr(st.LastExecuted)
	if p, seen := w.prevLS[uid]; seen && jcsTimeLess(ls, p) {
		if w.occ {
			w.c.Violate("C15", "lastScheduled-monotone", "%s: lastScheduled went from %s to %s", jc.Name, OptI(p), OptI(ls))
		} else {
			w.c.Count("jcstatus.no-occ.lastScheduled-regressed")
		}
	}
	if p, seen := w.prevLE[uid]; seen && jcsTimeLess(le, p) {
		if w.occ {
			w.c.Violate("C15", "lastExecuted-monotone", "%s: lastExecuted went from %s to %s", jc.Name, OptI(p), OptI(le))
		} else {
			w.c.Count("jcstatus.no-occ.lastExecuted-regressed")
		}
	}
	w.prevLS[uid], w.prevLE[uid] = ls, le
}

// ---- Jobs on the API (ground truth; the model never sees these directly)

const (
	jcsOwnNormal     = iota // label + controller owner reference (E-OwnerLabel)
	jcsOwnLabelOnly         // label, no owner reference
	jcsOwnOwnerOnly         // owner reference, no label
	jcsOwnStaleUID          // label + owner with the uid of an earlier incarnation
	jcsOwnOtherKind         // label + controller owner of another kind
	jcsOwnNonCtrl           // label + owner reference that is not the controller
	jcsOwnNone              // independent Job
	jcsOwnLabelOther        // owner = this JobConfig, label = some other uid
	jcsOwnOtherNs           // label + owner naming this JobConfig, but the Job lives in another namespace
	jcsOwnStaleOwner        // label of this JobConfig, controller owner reference with the uid of an earlier incarnation
)

type jcsAnn struct {
	val    *string
	sched  *int64
	judged bool
}

func jcsI64(v int64) *int64   { return &v }
func jcsStr(s string) *string { return &s }

var jcsInvalidAnns = []string{"", "abc", "12a", " 12", "12 ", "1e9", "0x10", "1_000", "+", "-", "++1", "1.5", "１２",
	"99999999999999999999", "-99999999999999999999", "9223372036854775808", "-9223372036854775809", "1 2", "٣"}

var jcsOddValidAnns = []string{"+1600000123", "001600000456", "-5", "0", "-0", "+0", "1", "-62135596800", "-62135596801",
	"-62135596799", "100000000000", "-100000000000", "000", "+007"}

// annotation generates the schedule-time annotation of a new Job: absent, a canonical decimal
// (judged), a string known to be no decimal int64 (judged: no schedule time), or an odd-but-accepted
// spelling (not judged).
func (w *jcsWorld) annotation(malformed bool, around int64) jcsAnn {
	r := w.rng.Intn(100)
	switch {
	case r < 25:
		w.c.Count("jcstatus.gen.ann.absent")
		return jcsAnn{judged: true}
	case !malformed || r < 50:
		w.c.Count("jcstatus.gen.ann.canonical")
		t := around + int64(w.rng.Intn(7)) - 3
		if w.rng.Intn(3) == 0 {
			t = around + int64(w.rng.Intn(2000)) - 1000
		}
		return jcsAnn{val: jcsStr(strconv.FormatInt(t, 10)), sched: jcsI64(t), judged: true}
	case r < 80:
		w.c.Count("jcstatus.gen.ann.invalid")
		return jcsAnn{val: jcsStr(jcsInvalidAnns[w.rng.Intn(len(jcsInvalidAnns))]), judged: true}
	default:
		w.c.Count("jcstatus.gen.ann.odd-but-accepted")
		return jcsAnn{val: jcsStr(jcsOddValidAnns[w.rng.Intn(len(jcsOddValidAnns))]), judged: false}
	}
}

var (
	jcsNonTerminal = []execution.JobPhase{"", execution.JobQueued, execution.JobStarting, execution.JobPending, execution.JobRunning,
		execution.JobRetryBackoff, execution.JobRetrying, execution.JobKilling, execution.JobTerminating}
	jcsTerminal = []execution.JobPhase{execution.JobSucceeded, execution.JobFailed, execution.JobKilled, execution.JobAdmissionError,
		execution.JobFinishedUnknown}
)

func (w *jcsWorld) phaseFor(stage int, malformed bool) execution.JobPhase {
	switch stage {
	case jcsFinished:
		return jcsTerminal[w.rng.Intn(len(jcsTerminal))]
	case jcsQueued:
		if w.rng.Intn(4) > 0 {
			return jcsNonTerminal[w.rng.Intn(2)]
		}
	}
	if malformed && w.rng.Intn(5) == 0 {
		return "Bogus"
	}
	if stage == jcsActive {
		return jcsNonTerminal[2+w.rng.Intn(len(jcsNonTerminal)-2)]
	}
	return jcsNonTerminal[w.rng.Intn(len(jcsNonTerminal))]
}

// newJob builds a Job for JobConfig jc (ownership variant own) in the given stage.
func (w *jcsWorld) newJob(jc *execution.JobConfig, name string, own, stage int, created int64, ann jcsAnn, malformed bool) *jcsJob {
	tr := true
	obj := &execution.Job{ObjectMeta: metav1.ObjectMeta{Namespace: jc.Namespace, Name: name, UID: types.UID(w.uid("job")),
		CreationTimestamp: metav1.Unix(created, 0), Labels: map[string]string{"app": "x"}, Annotations: map[string]string{}}}
	ref := metav1.OwnerReference{APIVersion: "execution.furiko.io/v1alpha1", Kind: "JobConfig", Name: jc.Name, UID: jc.UID, Controller: &tr, BlockOwnerDeletion: &tr}
	label := string(jc.UID)
	switch own {
	case jcsOwnNormal:
		obj.OwnerReferences = []metav1.OwnerReference{{APIVersion: "v1", Kind: "ConfigMap", Name: "cm", UID: "cm-uid"}, ref}
	case jcsOwnLabelOnly:
	case jcsOwnOwnerOnly:
		obj.OwnerReferences = []metav1.OwnerReference{ref}
		label = ""
	case jcsOwnStaleUID:
		ref.UID = "stale-" + jc.UID
		label = string(ref.UID)
		obj.OwnerReferences = []metav1.OwnerReference{ref}
	case jcsOwnOtherKind:
		ref.Kind = "CronJob"
		obj.OwnerReferences = []metav1.OwnerReference{ref}
	case jcsOwnNonCtrl:
		ref.Controller = nil
		obj.OwnerReferences = []metav1.OwnerReference{ref}
	case jcsOwnNone:
		label = ""
	case jcsOwnLabelOther:
		obj.OwnerReferences = []metav1.OwnerReference{ref}
		label = "other-" + string(jc.UID)
	case jcsOwnOtherNs:
		obj.OwnerReferences = []metav1.OwnerReference{ref}
		obj.Namespace = "nsc"
	case jcsOwnStaleOwner:
		ref.UID = "stale-" + jc.UID
		obj.OwnerReferences = []metav1.OwnerReference{ref}
	}
	if label != "" {
		obj.Labels[jobconfig.LabelKeyJobConfigUID] = label
	}
	if ann.val != nil {
		obj.Annotations[jobconfig.AnnotationKeyScheduleTime] = *ann.val
	}
	j := &jcsJob{obj: obj, sched: ann.sched, schedJudged: ann.judged}
	w.setStage(j, stage, malformed)
	return j
}

// setStage moves a Job to a life-cycle stage (queued -> active -> finished; queued -> finished).
func (w *jcsWorld) setStage(j *jcsJob, stage int, malformed bool) {
	needStart := stage == jcsActive
	if stage == jcsFinished && j.start == nil && j.stage != jcsActive && w.rng.Intn(3) == 0 {
		needStart = true // started and finished between two observations
	}
	if needStart && j.start == nil {
		st := w.tick()
		if c := j.obj.CreationTimestamp.Unix(); st < c {
			st = c
		}
		j.start = &st
		t := metav1.Unix(st, 0)
		j.obj.Status.StartTime = &t
	}
	if j.start == nil && malformed && w.rng.Intn(6) == 0 {
		j.obj.Status.StartTime = &metav1.Time{} // pointer to the zero time: not started
	}
	j.stage = stage
	j.obj.Status.Phase = w.phaseFor(stage, malformed)
}

func (w *jcsWorld) putJob(j *jcsJob, what string) {
	key := jcsKey(j.obj.Namespace, j.obj.Name)
	if _, ok := w.apiJobs[key]; ok {
		if err := w.tracker().Update(jcsGVRJob, j.obj.DeepCopy(), j.obj.Namespace); err != nil {
			panic(err)
		}
	} else if err := w.tracker().Add(j.obj.DeepCopy()); err != nil {
		panic(err)
	}
	w.apiJobs[key] = j
	snap := *j
	snap.obj = j.obj.DeepCopy()
	w.everJobs = append(w.everJobs, snap.obj)
	w.everRecs = append(w.everRecs, snap)
	w.pendJob = append(w.pendJob, jcsEvent{kind: "set", job: &snap})
	w.c.Emit("jcstatus.truth "+what+" "+jcsJobTokens(j.obj), "ok")
}

func (w *jcsWorld) removeJob(key, what string) {
	j, ok := w.apiJobs[key]
	if !ok {
		return
	}
	_ = w.tracker().Delete(jcsGVRJob, j.obj.Namespace, j.obj.Name)
	delete(w.apiJobs, key)
	snap := *j
	snap.obj = j.obj.DeepCopy()
	w.pendJob = append(w.pendJob, jcsEvent{kind: "del", tomb: w.rng.Intn(4) == 0, job: &snap})
	w.c.Emit("jcstatus.truth "+what+" "+jcsJobTokens(j.obj), "ok")
}

// ---------------------------------------------------------------------------------------------
// informer deliveries (real handlers run; they add keys to the recording queue)

func jcsEnq(added []string) string {
	if len(added) == 0 {
		return "-"
	}
	return strings.Join(added, ",")
}

// belongs: ground-truth ownership (controller owner reference of kind JobConfig naming jc, uid equal).
func jcsBelongs(j *execution.Job, jc *execution.JobConfig) bool {
	if j.Namespace != jc.Namespace {
		return false
	}
	for _, r := range j.OwnerReferences {
		if r.Controller != nil && *r.Controller {
			return r.Kind == "JobConfig" && r.Name == jc.Name && r.UID == jc.UID
		}
	}
	return false
}

func jcsLabelled(j *execution.Job, jc *execution.JobConfig) bool {
	v, ok := j.Labels[jobconfig.LabelKeyJobConfigUID]
	return ok && j.Namespace == jc.Namespace && v == string(jc.UID)
}

func (w *jcsWorld) deliverJob() bool {
	if len(w.pendJob) == 0 {
		return false
	}
	ev := w.pendJob[0]
	w.pendJob = w.pendJob[1:]
	inf := w.e.sc.Sim().Jobs()
	obj := ev.job.obj
	key := jcsKey(obj.Namespace, obj.Name)
	w.e.q.added = nil
	kind := ""
	out := Guard(func() string {
		old, had := inf.CacheGet(obj)
		switch {
		case ev.kind == "set" && had:
			kind = "upd"
			inf.CacheSet(obj)
			inf.NotifyUpdate(-1, old, obj)
		case ev.kind == "set":
			kind = "add"
			inf.CacheSet(obj)
			inf.NotifyAdd(-1, obj)
		case had:
			kind = "del"
			inf.CacheDel(obj)
			if ev.tomb {
				kind = "tomb"
				inf.NotifyDelete(-1, cache.DeletedFinalStateUnknown{Key: key, Obj: old})
			} else {
				inf.NotifyDelete(-1, old)
			}
		default:
			return "skip"
		}
		return jcsEnq(w.e.q.added)
	})
	if out == "skip" {
		return true
	}
	if ev.kind == "set" {
		w.cacheJobs[key] = ev.job
	} else {
		delete(w.cacheJobs, key)
	}
	w.c.Count("jcstatus.ev-job." + kind)
	w.c.Emit("jcstatus.ev-job "+kind+" "+jcsJobTokens(obj), out)
	// monitor enqueue-owner: an in-envelope Job's event enqueues exactly its JobConfig's key when
	// that JobConfig (same uid) is in the JobConfig cache.
	for _, jc := range w.cacheJCs {
		if jcsBelongs(obj, jc) && jcsLabelled(obj, jc) {
			if want := jcsKey(jc.Namespace, jc.Name); out != want {
				w.c.Violate("C15", "enqueue-owner", "job event %s %s enqueued %q, want %q", kind, key, out, want)
			}
		}
	}
	if out == "-" {
		w.c.Count("jcstatus.ev-job.not-enqueued")
	}
	return true
}

func (w *jcsWorld) deliverJC() bool {
	if len(w.pendJC) == 0 {
		return false
	}
	ev := w.pendJC[0]
	w.pendJC = w.pendJC[1:]
	inf := w.e.sc.Sim().JobConfigs()
	obj := ev.jc
	key := jcsKey(obj.Namespace, obj.Name)
	w.e.q.added = nil
	kind := ""
	out := Guard(func() string {
		old, had := inf.CacheGet(obj)
		switch {
		case ev.kind == "set" && had:
			kind = "upd"
			inf.CacheSet(obj)
			inf.NotifyUpdate(-1, old, obj)
		case ev.kind == "set":
			kind = "add"
			inf.CacheSet(obj)
			inf.NotifyAdd(-1, obj)
		case had:
			kind = "del"
			inf.CacheDel(obj)
			if ev.tomb {
				kind = "tomb"
				inf.NotifyDelete(-1, cache.DeletedFinalStateUnknown{Key: key, Obj: old})
			} else {
				inf.NotifyDelete(-1, old)
			}
		default:
			return "skip"
		}
		return jcsEnq(w.e.q.added)
	})
	if out == "skip" {
		return true
	}
	if ev.kind == "set" {
		w.cacheJCs[key] = obj
	} else {
		delete(w.cacheJCs, key)
	}
	w.c.Count("jcstatus.ev-jc." + kind)
	w.c.Emit("jcstatus.ev-jc "+kind+" "+jcsJCTokens(obj), out)
	if out != key {
		w.c.Violate("C15", "enqueue-jobconfig", "JobConfig event %s %s enqueued %q", kind, key, out)
	}
	return true
}

// resyncJCs re-delivers every cached JobConfig as an update (periodic informer resync).
func (w *jcsWorld) resyncJCs() {
	inf := w.e.sc.Sim().JobConfigs()
	for _, key := range SortedKeys(w.cacheJCs) {
		jc := w.cacheJCs[key]
		w.e.q.added = nil
		out := Guard(func() string {
			inf.NotifyUpdate(-1, jc, jc)
			return jcsEnq(w.e.q.added)
		})
		w.c.Count("jcstatus.ev-jc.resync")
		w.c.Emit("jcstatus.ev-jc upd "+jcsJCTokens(jc), out)
	}
}

// cacheJobDirect puts a Job into the Job cache without notifying the handlers.
func (w *jcsWorld) cacheJobDirect(j *jcsJob) {
	snap := *j
	snap.obj = j.obj.DeepCopy()
	w.e.sc.Sim().Jobs().CacheSet(snap.obj)
	w.cacheJobs[jcsKey(j.obj.Namespace, j.obj.Name)] = &snap
	w.c.Emit("jcstatus.cache-job "+jcsJobTokens(snap.obj), "ok")
}

// ---------------------------------------------------------------------------------------------
// SyncOne

func (w *jcsWorld) sync(key string) string {
	parts := strings.SplitN(key, "/", 2)
	ns, name := parts[0], parts[1]
	w.e.q.remove(key)
	w.e.recorder.evs = nil
	fk := w.e.sc.MockClientsets().FurikoMock()
	fk.ClearActions()
	cached, inCache := w.cacheJCs[key]
	writesBefore := w.writes
	var err error
	out := Guard(func() string {
		err = w.e.rec.SyncOne(context.Background(), ns, name, 0)
		return ""
	})
	outcome := out
	if out == "" {
		nUpd := 0
		for _, a := range fk.Actions() {
			if a.GetVerb() == "update" {
				nUpd++
			} else {
				outcome = "unexpected-action-" + a.GetVerb()
			}
		}
		switch {
		case outcome != "":
		case nUpd > 1:
			outcome = "many-updates"
		case err != nil && kerrors.IsConflict(pkgerrors.Cause(err)):
			outcome = "conflict"
		case err != nil && kerrors.IsNotFound(pkgerrors.Cause(err)):
			outcome = "gone"
		case err != nil:
			outcome = "err"
		case !inCache:
			outcome = "miss"
		case nUpd == 1 && w.writes == writesBefore+1:
			outcome = "upd"
		case nUpd == 0:
			outcome = "noop"
		default:
			outcome = "inconsistent"
		}
	}
	w.c.Count("jcstatus.sync." + outcome)
	asSet := w.mode == "set"
	line := outcome
	if outcome != "miss" && outcome != "panic" {
		if asSet && (outcome == "noop" || outcome == "upd") {
			line = "*"
		}
		if api, ok := w.apiJCs[key]; ok {
			rv := api.ResourceVersion
			if asSet {
				rv = "0"
			}
			line += " rv=" + rv + " " + jcsStatusOut(&api.Status, asSet)
		} else {
			line += " api=-"
		}
		evs := "-"
		if len(w.e.recorder.evs) > 0 {
			evs = strings.Join(w.e.recorder.evs, ",")
			w.c.Count("jcstatus.sync.with-events")
		}
		line += " ev=" + evs
	}
	w.c.Emit(fmt.Sprintf("jcstatus.sync %s %s %s", Q(ns), Q(name), w.mode), line)
	if err != nil {
		w.e.q.Add(key) // reconciler.Controller requeues with back-off (MaxRequeues = -1)
	}
	if (outcome == "noop" || outcome == "upd") && inCache {
		if api, ok := w.apiJCs[key]; ok && outcome == "upd" {
			// which branch of the TimeMax update rule was taken (statistics only)
			for _, p := range [][3]interface{}{{"ls", cached.Status.LastScheduled, api.Status.LastScheduled}, {"le", cached.Status.LastExecuted, api.Status.LastExecuted}} {
				o, n := jcsUnixPtr(p[1].(*metav1.Time)), jcsUnixPtr(p[2].(*metav1.Time))
				switch {
				case o == nil && n == nil:
					w.c.Count("jcstatus.max." + p[0].(string) + ".stays-nil")
				case o == nil:
					w.c.Count("jcstatus.max." + p[0].(string) + ".set-from-nil")
				case n != nil && *o == *n:
					w.c.Count("jcstatus.max." + p[0].(string) + ".kept-old")
				case n != nil && *o < *n:
					w.c.Count("jcstatus.max." + p[0].(string) + ".raised")
				default:
					w.c.Count("jcstatus.max." + p[0].(string) + ".LOWERED")
				}
			}
		}
		w.observe(cached)
	}
	return outcome
}

// observe: a sync of the cached JobConfig completed; everything it listed from the Job cache
// counts as observed from now on (monitors lastScheduled-ge-observed / lastExecuted-ge-observed).
func (w *jcsWorld) observe(cached *execution.JobConfig) {
	uid := string(cached.UID)
	for _, j := range w.cacheJobs {
		if !jcsLabelled(j.obj, cached) {
			continue
		}
		jk := uid + "/" + string(j.obj.UID)
		if j.schedJudged && j.sched != nil {
			if v, ok := w.obsSched[uid]; !ok || v < *j.sched {
				w.obsSched[uid] = *j.sched
			}
			if v, ok := w.obsJobSched[jk]; !ok || v < *j.sched {
				w.obsJobSched[jk] = *j.sched
			}
		}
		if j.start != nil {
			if v, ok := w.obsStart[uid]; !ok || v < *j.start {
				w.obsStart[uid] = *j.start
			}
			if v, ok := w.obsJobStart[jk]; !ok || v < *j.start {
				w.obsJobStart[jk] = *j.start
			}
		}
	}
	w.checkObserved(cached.Namespace, cached.Name, uid)
}

func (w *jcsWorld) checkObserved(ns, name, uid string) {
	if !w.occ {
		return
	}
	api, ok := w.apiJCs[jcsKey(ns, name)]
	if !ok || string(api.UID) != uid {
		return
	}
	if v, ok := w.obsSched[uid]; ok && jcsTimeLess(jcsUnixPtr(api.Status.LastScheduled), &v) {
		w.c.Violate("C15", "lastScheduled-ge-observed", "%s: lastScheduled=%s but a sync listed a Job scheduled at %d", name, jcsOptT(api.Status.LastScheduled), v)
	}
	if v, ok := w.obsStart[uid]; ok && jcsTimeLess(jcsUnixPtr(api.Status.LastExecuted), &v) {
		w.c.Violate("C15", "lastExecuted-ge-observed", "%s: lastExecuted=%s but a sync listed a Job started at %d", name, jcsOptT(api.Status.LastExecuted), v)
	}
}

// ---------------------------------------------------------------------------------------------
// quiescence and its monitors

func (w *jcsWorld) drain() {
	for iter := 0; iter < 10000; iter++ {
		for len(w.pendJob) > 0 || len(w.pendJC) > 0 {
			if len(w.pendJC) == 0 || (len(w.pendJob) > 0 && w.rng.Intn(2) == 0) {
				w.deliverJob()
			} else {
				w.deliverJC()
			}
		}
		if len(w.e.q.keys) == 0 {
			return
		}
		w.sync(w.e.q.keys[0])
	}
	w.c.Violate("C15", "quiescence", "no fixpoint after 10000 rounds")
}

func jcsNameSet(refs []execution.JobReference) string {
	s := make([]string, len(refs))
	for i, r := range refs {
		s[i] = r.Name + "#" + string(r.UID)
	}
	sort.Strings(s)
	return strings.Join(s, ",")
}

// quiesce delivers everything, drains the work queue, and judges every JobConfig on the API.
func (w *jcsWorld) quiesce() {
	w.drain()
	needResync := false
	for _, key := range SortedKeys(w.apiJCs) {
		jc := w.apiJCs[key]
		// E-OwnerLabel must have held for every Job this JobConfig ever had: a label-only Job that is
		// gone by now may still be listed (known finding C15-label-only-job-not-routed)
		inEnvelope := true
		for _, j := range w.everJobs {
			if jcsBelongs(j, jc) != jcsLabelled(j, jc) {
				inEnvelope = false
			}
		}
		if !inEnvelope && os.Getenv("JCSTATUS_LABEL_ROUTING") == "1" {
			// fix validation only: with Job events routed by label (fix-label-routing.diff) label-truth
			// must hold without any resync
			w.c.Count("jcstatus.quiescent.judged-by-label(no-resync)")
			w.judge(jc, jcsLabelled, "")
			continue
		}
		if !inEnvelope {
			w.c.Count("jcstatus.quiescent.outside-E-OwnerLabel")
			needResync = true
			continue
		}
		w.c.Count("jcstatus.quiescent.judged")
		w.judge(jc, jcsBelongs, "")
		w.judgeAnyJob(jc)
	}
	if needResync {
		// outside E-OwnerLabel the Job handlers do not route label-only Jobs; the periodic resync of
		// the JobConfig informer does.  Judged against label-truth after one resync.
		w.resyncJCs()
		w.drain()
		for _, key := range SortedKeys(w.apiJCs) {
			w.judge(w.apiJCs[key], jcsLabelled, "/resync")
		}
	}
	if w.occ {
		for _, key := range SortedKeys(w.apiJCs) {
			jc := w.apiJCs[key]
			w.checkObserved(jc.Namespace, jc.Name, string(jc.UID))
			before := w.writes
			if o := w.sync(key); o != "noop" || w.writes != before {
				w.c.Violate("C15", "fixpoint-noop", "%s: one more SyncOne at quiescence gave %s", key, o)
			}
		}
	}
}

// judgeAnyJob: the property's clause "at least the latest schedule time / start time of ANY of
// its Jobs, even after those Jobs are deleted", against the harness' record of every Job the
// JobConfig ever had (inside E-OwnerLabel).  The controller can only know the Jobs that were in
// its cache at a sync: a generated history in which a Job left the server without having been
// listed (with its final times) by a completed sync is outside E-JobObservedBeforeGone and is
// counted, not judged (known finding F33); corpus scenarios set anyJobAlarm and judge it anyway.
func (w *jcsWorld) judgeAnyJob(jc *execution.JobConfig) {
	if !w.occ {
		return
	}
	uid := string(jc.UID)
	var maxSched, maxStart *int64
	inEnvelope := true
	for i := range w.everRecs {
		r := &w.everRecs[i]
		if !jcsBelongs(r.obj, jc) || !jcsLabelled(r.obj, jc) {
			continue
		}
		_, onAPI := w.apiJobs[jcsKey(r.obj.Namespace, r.obj.Name)]
		onAPI = onAPI && w.apiJobs[jcsKey(r.obj.Namespace, r.obj.Name)].obj.UID == r.obj.UID
		jk := uid + "/" + string(r.obj.UID)
		if r.schedJudged && r.sched != nil {
			if jcsTimeLess(maxSched, r.sched) {
				maxSched = r.sched
			}
			if v, ok := w.obsJobSched[jk]; !onAPI && (!ok || v < *r.sched) {
				inEnvelope = false
			}
		}
		if r.start != nil {
			if jcsTimeLess(maxStart, r.start) {
				maxStart = r.start
			}
			if v, ok := w.obsJobStart[jk]; !onAPI && (!ok || v < *r.start) {
				inEnvelope = false
			}
		}
	}
	if maxSched == nil && maxStart == nil {
		return
	}
	if !inEnvelope {
		w.c.Count("jcstatus.envelope.outside-E-JobObservedBeforeGone")
		if !w.anyJobAlarm {
			// still worth knowing how often the status really is behind in such a history
			if jcsTimeLess(jcsUnixPtr(jc.Status.LastScheduled), maxSched) {
				w.c.Count("jcstatus.observed.lastScheduled-below-a-gone-unobserved-job")
			}
			if jcsTimeLess(jcsUnixPtr(jc.Status.LastExecuted), maxStart) {
				w.c.Count("jcstatus.observed.lastExecuted-below-a-gone-unobserved-job")
			}
			return
		}
	} else {
		w.c.Count("jcstatus.envelope.inside-E-JobObservedBeforeGone")
	}
	if jcsTimeLess(jcsUnixPtr(jc.Status.LastScheduled), maxSched) {
		w.c.Violate("C15", "lastScheduled-ge-any-job", "%s: lastScheduled=%s at quiescence, but the JobConfig had a Job with schedule time %d", jc.Name, jcsOptT(jc.Status.LastScheduled), *maxSched)
	}
	if jcsTimeLess(jcsUnixPtr(jc.Status.LastExecuted), maxStart) {
		w.c.Violate("C15", "lastExecuted-ge-any-job", "%s: lastExecuted=%s at quiescence, but the JobConfig had a Job started at %d", jc.Name, jcsOptT(jc.Status.LastExecuted), *maxStart)
	}
}

func (w *jcsWorld) judge(jc *execution.JobConfig, mine func(*execution.Job, *execution.JobConfig) bool, suffix string) {
	var wantA, wantQ []execution.JobReference
	var maxSched, maxStart *int64
	for _, j := range w.apiJobs {
		if !mine(j.obj, jc) {
			continue
		}
		ref := execution.JobReference{Name: j.obj.Name, UID: j.obj.UID}
		switch j.stage {
		case jcsActive:
			wantA = append(wantA, ref)
		case jcsQueued:
			wantQ = append(wantQ, ref)
		}
		if j.schedJudged && jcsTimeLess(maxSched, j.sched) {
			maxSched = j.sched
		}
		if jcsTimeLess(maxStart, j.start) {
			maxStart = j.start
		}
	}
	st := &jc.Status
	if got, want := jcsNameSet(st.ActiveJobs), jcsNameSet(wantA); got != want {
		w.c.Violate("C15", "quiescent-lists-exact"+suffix, "%s: activeJobs {%s}, truth {%s}", jc.Name, got, want)
	}
	if got, want := jcsNameSet(st.QueuedJobs), jcsNameSet(wantQ); got != want {
		w.c.Violate("C15", "quiescent-lists-exact"+suffix, "%s: queuedJobs {%s}, truth {%s}", jc.Name, got, want)
	}
	if int(st.Active) != len(wantA) || int(st.Queued) != len(wantQ) {
		w.c.Violate("C15", "counts-match"+suffix, "%s: active=%d queued=%d, truth %d/%d", jc.Name, st.Active, st.Queued, len(wantA), len(wantQ))
	}
	want := execution.JobConfigReady
	switch s := jc.Spec.Schedule; {
	case len(wantA) > 0:
		want = execution.JobConfigExecuting
	case len(wantQ) > 0:
		want = execution.JobConfigJobQueued
	case s != nil && s.Cron != nil && s.Disabled:
		want = execution.JobConfigReadyDisabled
	case s != nil && s.Cron != nil:
		want = execution.JobConfigReadyEnabled
	}
	w.c.Count("jcstatus.quiescent.state." + string(want))
	if st.State != want {
		w.c.Violate("C15", "quiescent-state"+suffix, "%s: state %q, want %q", jc.Name, st.State, want)
	}
	if w.occ {
		if jcsTimeLess(jcsUnixPtr(st.LastScheduled), maxSched) {
			w.c.Violate("C15", "lastScheduled-ge-observed"+suffix, "%s: lastScheduled=%s < schedule time %d of an existing Job", jc.Name, jcsOptT(st.LastScheduled), *maxSched)
		}
		if jcsTimeLess(jcsUnixPtr(st.LastExecuted), maxStart) {
			w.c.Violate("C15", "lastExecuted-ge-observed"+suffix, "%s: lastExecuted=%s < start time %d of an existing Job", jc.Name, jcsOptT(st.LastExecuted), *maxStart)
		}
	}
}

// ---------------------------------------------------------------------------------------------
// generators

// garbageStatus: an arbitrary previous status (the reconciler must overwrite whatever is there).
func (w *jcsWorld) garbageStatus(kind int, names []string) execution.JobConfigStatus {
	var st execution.JobConfigStatus
	if kind == 0 {
		return st
	}
	states := []execution.JobConfigState{"", execution.JobConfigReady, execution.JobConfigReadyEnabled, execution.JobConfigReadyDisabled,
		execution.JobConfigJobQueued, execution.JobConfigExecuting}
	st.State = states[w.rng.Intn(len(states))]
	mkRefs := func() []execution.JobReference {
		var refs []execution.JobReference
		for n := w.rng.Intn(4); n > 0; n-- {
			name := fmt.Sprintf("ghost%d", w.rng.Intn(3))
			if len(names) > 0 && w.rng.Intn(3) > 0 {
				name = names[w.rng.Intn(len(names))]
			}
			r := execution.JobReference{UID: types.UID("u-" + name), Name: name, CreationTimestamp: metav1.Unix(w.now-int64(w.rng.Intn(50)), 0),
				Phase: jcsNonTerminal[w.rng.Intn(len(jcsNonTerminal))]}
			if w.rng.Intn(2) == 0 {
				t := metav1.Unix(w.now-int64(w.rng.Intn(50)), 0)
				r.StartTime = &t
			}
			refs = append(refs, r)
		}
		return refs
	}
	st.ActiveJobs, st.QueuedJobs = mkRefs(), mkRefs()
	st.Active, st.Queued = int64(len(st.ActiveJobs)), int64(len(st.QueuedJobs))
	if w.rng.Intn(4) == 0 {
		st.Active += int64(w.rng.Intn(3))
		st.Queued += int64(w.rng.Intn(3))
	}
	if w.rng.Intn(3) > 0 {
		t := metav1.Unix(w.now+int64(w.rng.Intn(200))-100, 0)
		st.LastScheduled = &t
	}
	if w.rng.Intn(3) > 0 {
		t := metav1.Unix(w.now+int64(w.rng.Intn(200))-100, 0)
		st.LastExecuted = &t
	}
	return st
}

func (w *jcsWorld) randOwn(inEnvelopeOnly bool) int {
	if inEnvelopeOnly || w.rng.Intn(100) < 80 {
		switch w.rng.Intn(12) {
		case 0:
			return jcsOwnNone
		case 1:
			return jcsOwnOtherNs
		case 2:
			return jcsOwnStaleUID
		}
		return jcsOwnNormal
	}
	return 1 + w.rng.Intn(9)
}

// population: JobConfigs with pre-filled caches (no informer traffic), one SyncOne each, then
// quiescence.  ties => groups of Jobs share a creation second (compared as sets).
func (w *jcsWorld) population(maxJobs int, ties, malformed bool) {
	rng := w.rng
	nJC := 1 + rng.Intn(2)
	nss := []string{"nsa", "nsb"}
	var jcs []*execution.JobConfig
	strict := rng.Intn(3) == 0 // every Job inside E-OwnerLabel
	for i := 0; i < nJC; i++ {
		ns := nss[rng.Intn(2)]
		name := fmt.Sprintf("jc%d", i)
		nJobs := rng.Intn(maxJobs + 1)
		if rng.Intn(6) == 0 {
			nJobs = 0
		}
		names := make([]string, nJobs)
		for k := range names {
			names[k] = fmt.Sprintf("%s-j%d", name, k)
		}
		jc := w.createJC(ns, name, rng.Intn(5), w.garbageStatus(rng.Intn(3), names))
		jcs = append(jcs, jc)
		// creation seconds: a random permutation of distinct seconds (names are not in creation order)
		perm := rng.Perm(nJobs)
		base := w.now
		around := w.now
		if jc.Status.LastScheduled != nil && rng.Intn(2) == 0 {
			around = jc.Status.LastScheduled.Unix()
		}
		for k := 0; k < nJobs; k++ {
			created := base + int64(perm[k])
			if ties {
				created = base + int64(perm[k]/3)
			}
			stage := rng.Intn(3)
			j := w.newJob(jc, names[k], w.randOwn(strict), stage, created, w.annotation(malformed, around), malformed)
			if rng.Intn(8) == 0 {
				t := metav1.Unix(w.now+100, 0)
				j.obj.DeletionTimestamp = &t
				j.obj.Finalizers = []string{"execution.furiko.io/delete-dependents-finalizer"}
			}
			// ground truth on the API, cache filled directly
			key := jcsKey(j.obj.Namespace, j.obj.Name)
			if err := w.tracker().Add(j.obj.DeepCopy()); err != nil {
				panic(err)
			}
			w.apiJobs[key] = j
			w.everJobs = append(w.everJobs, j.obj.DeepCopy())
			w.everRecs = append(w.everRecs, *j)
			w.cacheJobDirect(j)
			w.c.Count(fmt.Sprintf("jcstatus.gen.own%d.stage%d", jcsOwnClass(j.obj, jc), stage))
		}
		w.now = base + int64(nJobs) + 1
	}
	for len(w.pendJC) > 0 {
		w.deliverJC()
	}
	for _, jc := range jcs {
		w.sync(jcsKey(jc.Namespace, jc.Name))
	}
	if ties {
		return // set mode: resourceVersions are not tracked by the comparison; monitors below need exact bookkeeping
	}
	w.quiesce()
}

func jcsOwnClass(j *execution.Job, jc *execution.JobConfig) int {
	b, l := jcsBelongs(j, jc), jcsLabelled(j, jc)
	switch {
	case b && l:
		return 0
	case l:
		return 1
	case b:
		return 2
	}
	return 3
}

// history: random life-cycles with arbitrary delivery orders between the two caches.
func (w *jcsWorld) history(steps int) {
	rng := w.rng
	nss := []string{"nsa", "nsb"}
	strict := rng.Intn(4) > 0
	pDeliverJC := []int{5, 20, 60}[rng.Intn(3)] // how eagerly JobConfig events are delivered
	pDeliverJob := []int{10, 30, 60}[rng.Intn(3)]
	jobN := 0
	nJC := 1 + rng.Intn(2)
	for i := 0; i < nJC; i++ {
		w.createJC(nss[rng.Intn(2)], fmt.Sprintf("jc%d", i), rng.Intn(5), execution.JobConfigStatus{})
	}
	pickJC := func() *execution.JobConfig {
		keys := SortedKeys(w.apiJCs)
		if len(keys) == 0 {
			return nil
		}
		return w.apiJCs[keys[rng.Intn(len(keys))]]
	}
	pickJob := func(pred func(*jcsJob) bool) string {
		var keys []string
		for _, k := range SortedKeys(w.apiJobs) {
			if pred(w.apiJobs[k]) {
				keys = append(keys, k)
			}
		}
		if len(keys) == 0 {
			return ""
		}
		return keys[rng.Intn(len(keys))]
	}
	for s := 0; s < steps; s++ {
		r := rng.Intn(100)
		switch {
		case r < pDeliverJob:
			w.deliverJob()
		case r < pDeliverJob+pDeliverJC:
			w.deliverJC()
		default:
			switch a := rng.Intn(100); {
			case a < 22: // create a Job (queued, sometimes already started)
				jc := pickJC()
				if jc == nil {
					continue
				}
				jobN++
				around := w.now
				if jc.Status.LastScheduled != nil && rng.Intn(2) == 0 {
					around = jc.Status.LastScheduled.Unix() // at / just before / just after the recorded maximum
				}
				stage := jcsQueued
				if rng.Intn(6) == 0 {
					stage = jcsActive
				}
				j := w.newJob(jc, fmt.Sprintf("j%d", jobN), w.randOwn(strict), stage, w.tick(), w.annotation(false, around), false)
				w.putJob(j, "create")
				w.c.Count("jcstatus.act.create")
			case a < 36: // start
				if k := pickJob(func(j *jcsJob) bool { return j.stage == jcsQueued }); k != "" {
					w.setStage(w.apiJobs[k], jcsActive, false)
					w.putJob(w.apiJobs[k], "start")
					w.c.Count("jcstatus.act.start")
				}
			case a < 42: // phase change while active
				if k := pickJob(func(j *jcsJob) bool { return j.stage == jcsActive }); k != "" {
					w.setStage(w.apiJobs[k], jcsActive, false)
					w.putJob(w.apiJobs[k], "progress")
					w.c.Count("jcstatus.act.progress")
				}
			case a < 56: // finish (also straight from queued: killed / admission error)
				if k := pickJob(func(j *jcsJob) bool { return j.stage != jcsFinished }); k != "" {
					w.setStage(w.apiJobs[k], jcsFinished, false)
					w.putJob(w.apiJobs[k], "finish")
					w.c.Count("jcstatus.act.finish")
				}
			case a < 61: // deletion requested (finalizer keeps the object)
				if k := pickJob(func(j *jcsJob) bool { return j.obj.DeletionTimestamp == nil }); k != "" {
					j := w.apiJobs[k]
					t := metav1.Unix(w.tick(), 0)
					j.obj.DeletionTimestamp = &t
					j.obj.Finalizers = []string{"execution.furiko.io/delete-dependents-finalizer"}
					w.putJob(j, "deleting")
					w.c.Count("jcstatus.act.deleting")
				}
			case a < 72: // TTL clean-up of a finished Job
				if k := pickJob(func(j *jcsJob) bool { return j.stage == jcsFinished }); k != "" {
					w.removeJob(k, "ttl")
					w.c.Count("jcstatus.act.ttl")
				}
			case a < 78: // deletion of any Job
				if k := pickJob(func(j *jcsJob) bool { return true }); k != "" {
					w.removeJob(k, "delete")
					w.c.Count("jcstatus.act.delete")
				}
			case a < 82: // user toggles / edits the schedule
				if jc := pickJC(); jc != nil {
					w.setSched(jcsKey(jc.Namespace, jc.Name), rng.Intn(5))
					w.c.Count("jcstatus.act.sched")
				}
			case a < 84: // JobConfig deleted, or deleted and recreated under the same name
				if jc := pickJC(); jc != nil {
					if rng.Intn(2) == 0 {
						w.deleteJC(jcsKey(jc.Namespace, jc.Name))
						w.c.Count("jcstatus.act.jc-delete")
					} else {
						w.createJC(jc.Namespace, jc.Name, rng.Intn(5), execution.JobConfigStatus{})
						w.c.Count("jcstatus.act.jc-recreate")
					}
				}
			case a < 85:
				w.resyncJCs()
			case a < 89: // everything settles (caches catch up, queue drained), then the history goes on
				w.drain()
				w.c.Count("jcstatus.act.settle")
			default: // a worker picks a key (queued keys first; any cached JobConfig otherwise: resync)
				if len(w.e.q.keys) > 0 && rng.Intn(5) > 0 {
					w.sync(w.e.q.keys[rng.Intn(len(w.e.q.keys))])
				} else if keys := SortedKeys(w.cacheJCs); len(keys) > 0 {
					w.sync(keys[rng.Intn(len(keys))])
				} else {
					w.sync("nsa/jc0")
				}
			}
		}
	}
	if rng.Intn(3) == 0 {
		// one last change after everything was quiet: only this change's own events can repair the status
		w.drain()
		if k := pickJob(func(j *jcsJob) bool { return true }); k != "" {
			switch j := w.apiJobs[k]; {
			case rng.Intn(2) == 0:
				w.removeJob(k, "delete")
			case j.stage == jcsQueued:
				w.setStage(j, jcsActive, false)
				w.putJob(j, "start")
			case j.stage == jcsActive:
				w.setStage(j, jcsFinished, false)
				w.putJob(j, "finish")
			default:
				w.removeJob(k, "ttl")
			}
			w.c.Count("jcstatus.act.last-change-after-quiet")
		}
	}
	w.quiesce()
}

// ---------------------------------------------------------------------------------------------
// corpus scenarios

func (e *jcsEnv) scenario(c *Ctx, name string, occ bool, mode string, fn func(w *jcsWorld)) {
	c.RunScenario(name, func() {
		w := e.newWorld(c, c.Rng, occ, mode)
		defer w.cleanup()
		fn(w)
		c.Nontrivial()
	})
}

func (w *jcsWorld) deliverAll() {
	for w.deliverJob() {
	}
	for w.deliverJC() {
	}
}

func jcsScenarios(c *Ctx, e *jcsEnv) {
	ann := func(t int64) jcsAnn {
		return jcsAnn{val: jcsStr(strconv.FormatInt(t, 10)), sched: jcsI64(t), judged: true}
	}

	// whole life-cycle, JobConfig events delivered eagerly
	e.scenario(c, "lifecycle-jc-first", true, "exact", func(w *jcsWorld) {
		jc := w.createJC("nsa", "jc0", 1, execution.JobConfigStatus{})
		key := jcsKey("nsa", "jc0")
		w.deliverAll()
		w.sync(key)
		j := w.newJob(jc, "j1", jcsOwnNormal, jcsQueued, w.tick(), ann(w.now), false)
		w.putJob(j, "create")
		w.deliverAll()
		w.sync(key)
		w.deliverAll()
		w.setStage(j, jcsActive, false)
		w.putJob(j, "start")
		w.deliverAll()
		w.sync(key)
		w.deliverAll()
		w.setStage(j, jcsFinished, false)
		w.putJob(j, "finish")
		w.deliverAll()
		w.sync(key)
		w.deliverAll()
		w.removeJob(jcsKey("nsa", "j1"), "ttl")
		w.deliverAll()
		w.sync(key)
		w.quiesce()
	})

	// same life-cycle, but the JobConfig cache never sees the controller's own writes until the end:
	// every sync after the first write reads a stale JobConfig and conflicts
	e.scenario(c, "lifecycle-job-first", true, "exact", func(w *jcsWorld) {
		jc := w.createJC("nsa", "jc0", 2, execution.JobConfigStatus{})
		key := jcsKey("nsa", "jc0")
		w.deliverAll()
		j := w.newJob(jc, "j1", jcsOwnNormal, jcsQueued, w.tick(), ann(w.now), false)
		w.putJob(j, "create")
		w.deliverJob()
		w.sync(key) // write 1 (fresh read)
		w.setStage(j, jcsActive, false)
		w.putJob(j, "start")
		w.deliverJob()
		w.sync(key) // stale read: conflict
		w.deliverJC()
		w.sync(key)
		w.setStage(j, jcsFinished, false)
		w.putJob(j, "finish")
		w.removeJob(jcsKey("nsa", "j1"), "ttl")
		w.deliverJob()
		w.deliverJob()
		w.sync(key) // stale read again
		w.quiesce()
	})

	// an active and a queued Job are deleted while everything is quiet: only the Job delete events
	// can bring the status up to date
	e.scenario(c, "delete-while-quiet", true, "exact", func(w *jcsWorld) {
		jc := w.createJC("nsa", "jc0", 1, execution.JobConfigStatus{})
		a := w.newJob(jc, "j1", jcsOwnNormal, jcsActive, w.tick(), ann(w.now), false)
		q := w.newJob(jc, "j2", jcsOwnNormal, jcsQueued, w.tick(), ann(w.now), false)
		w.putJob(a, "create")
		w.putJob(q, "create")
		w.drain()
		w.removeJob(jcsKey("nsa", "j1"), "delete")
		w.drain()
		w.removeJob(jcsKey("nsa", "j2"), "delete")
		w.quiesce()
	})

	// the witness of Props/C15 stale_read_regression_witness, with the API's optimistic concurrency:
	// the stale write conflicts, lastScheduled survives the deletion of the Job that carried it
	stale := func(w *jcsWorld) {
		jc := w.createJC("nsa", "jc0", 1, execution.JobConfigStatus{})
		key := jcsKey("nsa", "jc0")
		w.deliverAll()
		j := w.newJob(jc, "j1", jcsOwnNormal, jcsQueued, 1000, ann(1000), false)
		w.putJob(j, "create")
		w.deliverJob()
		w.sync(key) // rv 1 -> 2: lastScheduled = 1000
		w.removeJob(jcsKey("nsa", "j1"), "delete")
		w.deliverJob()
		o := w.sync(key) // reads rv 1 (status update not delivered), no Jobs
		api := w.apiJCs[key]
		switch {
		case w.occ && (o != "conflict" || api.Status.LastScheduled == nil || api.Status.LastScheduled.Unix() != 1000):
			w.c.Violate("C15", "stale-write-conflicts", "stale sync gave %s, lastScheduled=%s", o, jcsOptT(api.Status.LastScheduled))
		case !w.occ && api.Status.LastScheduled == nil:
			w.c.Count("jcstatus.witness.regression-without-occ-reproduced")
		}
		w.deliverAll()
		w.sync(key)
	}
	e.scenario(c, "stale-read-occ", true, "exact", func(w *jcsWorld) { stale(w); w.quiesce() })
	e.scenario(c, "stale-read-no-occ", false, "exact", stale)

	// KNOWN FINDING C15-label-only-job-not-routed (outside E-OwnerLabel; admission accepts such a Job):
	// a Job with the uid label but no controller owner reference is listed by SyncOne (label selector)
	// but its own events enqueue nothing (handleJob routes by owner reference).  Once it has been
	// listed, its deletion leaves the status naming a Job that no longer exists although every event
	// has been delivered and the queue is empty; only the JobConfig informer's periodic resync (or an
	// unrelated event) repairs it.  Lean: Props/C15 label_only_stale_witness.
	e.scenario(c, "label-without-owner", true, "exact", func(w *jcsWorld) {
		jc := w.createJC("nsa", "jc0", 0, execution.JobConfigStatus{})
		key := jcsKey("nsa", "jc0")
		w.drain()
		j := w.newJob(jc, "j1", jcsOwnLabelOnly, jcsQueued, w.tick(), ann(w.now), false)
		w.putJob(j, "create")
		w.deliverAll()
		if len(w.e.q.keys) == 0 {
			w.c.Count("jcstatus.witness.label-only-job-not-enqueued")
		}
		w.sync(key) // any unrelated trigger (e.g. the periodic resync): the Job is counted as queued
		w.drain()
		w.removeJob(jcsKey("nsa", "j1"), "delete")
		w.drain()                                                                  // delete event delivered, nothing enqueued, queue empty: the system is quiet
		if st := w.apiJCs[key].Status; len(st.QueuedJobs) != 0 || st.Queued != 0 { // while the defect exists
			w.c.Violate("C15", "quiescent-lists-exact", "jc0: queuedJobs {%s} queued=%d state=%s, but no Job exists", jcsNameSet(st.QueuedJobs), st.Queued, st.State)
		}
		w.quiesce() // (resync path) repaired after the JobConfig resync
	})

	// KNOWN FINDING F33: "lastScheduled / lastExecuted are at least the latest schedule / start time of ANY
	// of its Jobs, even after those Jobs are deleted".  SyncOne derives both from the Jobs that are in the
	// Job cache at the moment of the sync.  Job j2 (schedule time T+10, started) is created and deleted
	// (user, or TTL after finishing quickly) while the JobConfig's key waits in the work queue (worker
	// busy, key rate-limited after an error): both events reach the cache before the sync runs, the sync
	// lists j1 only, and with every event delivered and the queue empty the status stays at j1's times
	// for ever.  The same happens across a restart of the controller (a Job deleted while it is down
	// gets no notification at all).  Lean: Props/C15 job_never_observed_witness; composed with the cron
	// model (the time is requested again after a restart): Compose.unobserved_job_rerequested_witness,
	// system-engine scenario f33-job-never-observed-rerequested-after-restart.
	e.scenario(c, "f33-job-never-observed-misses-lastScheduled", true, "exact", func(w *jcsWorld) {
		w.anyJobAlarm = true
		jc := w.createJC("nsa", "jc0", 1, execution.JobConfigStatus{})
		key := jcsKey("nsa", "jc0")
		w.drain()
		j1 := w.newJob(jc, "j1", jcsOwnNormal, jcsActive, 1000, ann(1000), false)
		w.putJob(j1, "create")
		w.drain() // j1 observed: lastScheduled = 1000
		j2 := w.newJob(jc, "j2", jcsOwnNormal, jcsActive, 1010, ann(1010), false)
		w.putJob(j2, "create")
		w.removeJob(jcsKey("nsa", "j2"), "delete")
		w.deliverJob() // add: enqueues nsa/jc0 ...
		w.deliverJob() // ... delete: the key is still waiting for its worker
		if len(w.e.q.keys) == 1 {
			w.c.Count("jcstatus.witness.f33-key-queued-once-for-add-and-delete")
		}
		w.sync(key) // lists j1 only
		if ls := w.apiJCs[key].Status.LastScheduled; ls != nil && ls.Unix() == 1000 {
			w.c.Count("jcstatus.witness.f33-lastScheduled-stays-below-deleted-job")
		}
		w.quiesce()
	})

	// equal creation timestamps (compared as sets)
	e.scenario(c, "ties", true, "set", func(w *jcsWorld) {
		jc := w.createJC("nsa", "jc0", 1, execution.JobConfigStatus{})
		for i := 0; i < 14; i++ {
			j := w.newJob(jc, fmt.Sprintf("j%02d", 13-i), jcsOwnNormal, i%3, 5000+int64(i/5), ann(4000+int64(i)), false)
			_ = w.tracker().Add(j.obj.DeepCopy())
			w.apiJobs[jcsKey("nsa", j.obj.Name)] = j
			w.cacheJobDirect(j)
		}
		w.deliverAll()
		w.sync(jcsKey("nsa", "jc0"))
	})

	// every odd annotation spelling, pointer-to-zero start time, unknown phase
	e.scenario(c, "malformed-annotations", true, "exact", func(w *jcsWorld) {
		jc := w.createJC("nsa", "jc0", 3, execution.JobConfigStatus{})
		n := 0
		for _, lists := range [][]string{jcsInvalidAnns, jcsOddValidAnns} {
			for _, s := range lists {
				n++
				j := w.newJob(jc, fmt.Sprintf("j%02d", n), jcsOwnNormal, n%3, w.tick(), jcsAnn{val: jcsStr(s)}, n%2 == 0)
				_ = w.tracker().Add(j.obj.DeepCopy())
				w.apiJobs[jcsKey("nsa", j.obj.Name)] = j
				w.cacheJobDirect(j)
				w.deliverAll()
				w.sync(jcsKey("nsa", "jc0"))
			}
		}
	})

	// state table: every schedule shape x {active, queued, nothing}
	e.scenario(c, "state-table", true, "exact", func(w *jcsWorld) {
		for k := 0; k < 5; k++ {
			name := fmt.Sprintf("jc%d", k)
			jc := w.createJC("nsa", name, k, execution.JobConfigStatus{})
			key := jcsKey("nsa", name)
			w.deliverAll()
			w.sync(key)
			q := w.newJob(jc, name+"-q", jcsOwnNormal, jcsQueued, w.tick(), jcsAnn{judged: true}, false)
			w.putJob(q, "create")
			w.deliverAll()
			w.sync(key)
			a := w.newJob(jc, name+"-a", jcsOwnNormal, jcsActive, w.tick(), jcsAnn{judged: true}, false)
			w.putJob(a, "create")
			w.deliverAll()
			w.sync(key)
			w.deliverAll()
			w.removeJob(jcsKey("nsa", name+"-a"), "delete")
			w.deliverAll()
			w.sync(key)
			w.deliverAll()
			w.removeJob(jcsKey("nsa", name+"-q"), "delete")
			w.deliverAll()
			w.sync(key)
		}
		w.quiesce()
	})

	// JobConfig deleted and recreated under the same name: the old incarnation's Jobs are not counted,
	// a stale cached object cannot overwrite the new one
	e.scenario(c, "recreate-same-name", true, "exact", func(w *jcsWorld) {
		jc := w.createJC("nsa", "jc0", 1, execution.JobConfigStatus{})
		key := jcsKey("nsa", "jc0")
		w.deliverAll()
		j := w.newJob(jc, "j1", jcsOwnNormal, jcsActive, w.tick(), ann(w.now), false)
		w.putJob(j, "create")
		w.deliverAll()
		w.sync(key)
		w.createJC("nsa", "jc0", 1, execution.JobConfigStatus{})
		w.sync(key) // cache still holds the old incarnation
		w.deliverJC()
		w.sync(key) // cache has no JobConfig
		w.quiesce()
	})
}

// ---------------------------------------------------------------------------------------------

func runJcStatus(c *Ctx) {
	e := newJcsEnv()
	jcsScenarios(c, e)
	maxJobs, steps := 30, 40
	if c.Tier == "thorough" {
		maxJobs, steps = 60, 200
	}
	c.ForCases(func(i int, rng *rand.Rand) {
		kind := rng.Intn(100)
		var w *jcsWorld
		switch {
		case kind < 40:
			c.Count("jcstatus.case.population")
			w = e.newWorld(c, rng, true, "exact")
			w.population(maxJobs, false, false)
		case kind < 50:
			c.Count("jcstatus.case.ties")
			w = e.newWorld(c, rng, true, "set")
			w.population(maxJobs, true, false)
		case kind < 60:
			c.Count("jcstatus.case.malformed")
			w = e.newWorld(c, rng, true, "exact")
			w.population(maxJobs, false, true)
		case kind < 94:
			c.Count("jcstatus.case.history")
			w = e.newWorld(c, rng, true, "exact")
			w.history(5 + rng.Intn(steps))
		default:
			c.Count("jcstatus.case.history-no-occ")
			w = e.newWorld(c, rng, false, "exact")
			w.history(5 + rng.Intn(steps))
		}
		// non-trivial: at least one status write accepted by the API and at least one Job listed
		if w.writes > 0 && (len(w.cacheJobs) > 0 || len(w.obsSched)+len(w.obsStart) > 0) {
			c.Nontrivial()
		}
		w.cleanup()
	})
}
