package eng

import (
	"fmt"
	"strings"

	execution "github.com/furiko-io/furiko/apis/execution/v1alpha1"

	"verifharness/sim"
)

// Corpus scenarios of the system engine: small hand-written workloads, each with fault plans
// that name the call they hit ("the 1st create of a Job fails 3 times").  They run before the
// generated workloads on every check and are the seeds of the mutation self-test: each of
// them needs the fault to bite for the controller's error path to run.

func sysScenarioWorkload(jcs []sysJCSpec, stims []sysStim) *sysWorkload {
	return &sysWorkload{seed: 7, t0: sim.VirtualBase.Unix() + 600, defTTL: 120, defPending: 900, forceDelete: 900,
		jcs: jcs, stims: stims}
}

func sysJC(name string, pol execution.ConcurrencyPolicy, max int64, cron string) sysJCSpec {
	return sysJCSpec{Name: name, Policy: pol, Max: max, Cron: cron, MaxAttempts: 2, RetryDelay: -1, Pending: -1, TTL: -1}
}

// nth builds a plan that fails the n-th call of the given kind `times` times in a row.
func nth(call string, n int, kind string, times int) *sysFaultPlan {
	return &sysFaultPlan{Faults: []sysFault{{Call: call, At: n, Kind: kind, Mode: "same", N: times}}}
}

func runSystemScenario(c *Ctx, name string, wl *sysWorkload, plans []*sysFaultPlan) {
	c.RunScenario(name, func() {
		label := "scenario " + name
		ref := runWorkload(c, wl, label+" fault-free", nil, 11, nil, nil, nil, false)
		stable := true
		runWorkload(c, wl, label+" fault-free, second interleaving", nil, 12, nil, ref,
			func(w *sysWorld, b int, what, diff string) {
				stable = false
				c.Violate("C20", "scenario-reference-stable", "%s: the fault-free outcome depends on the interleaving at barrier %d (%s): %s", label, b, what, diff)
			}, false)
		if !stable {
			return
		}
		c.Nontrivial()
		for pi, plan := range plans {
			lbl := fmt.Sprintf("%s faulty run %d plan [%s]", label, pi, plan)
			r := runWorkload(c, wl, lbl, plan, 11, nil, ref,
				func(w *sysWorld, b int, what, diff string) {
					c.Violate("C20", "converges-same-outcome", "%s: at barrier %d (after %s) the quiescent state differs from the fault-free run: %s || %s || trace: %s",
						lbl, b, what, diff, wl.describe(), strings.Join(tail(w.trace, 60), " ; "))
				}, true)
			c.Count("sys.scenario-runs")
			if r.injected == 0 {
				c.Violate("C20", "scenario-fault-reached", "%s: the fault plan never fired", lbl)
			}
		}
	})
}

func runSystemScenarios(c *Ctx) {
	kinds := sysKinds()
	all := func(call string, n int) []*sysFaultPlan {
		var ps []*sysFaultPlan
		for i, k := range kinds {
			ps = append(ps, nth(call, n, k, 1+i))
		}
		return ps
	}
	// long(call, n): the n-th call of that kind fails 14 times in a row (more than any small retry
	// budget a reconciler could be given: a key that is given up after k < 14 failures is lost for
	// good when nothing else re-adds it, e.g. the one-shot (JobConfig, schedule time) keys of cron)
	long := func(call string, n int) []*sysFaultPlan {
		return []*sysFaultPlan{nth(call, n, "err", 14), nth(call, n, "timeout", 14)}
	}
	// 1. cron: the create of the Job of (JobConfig, schedule time) fails, then succeeds
	runSystemScenario(c, "cron-create-fails", sysScenarioWorkload(
		[]sysJCSpec{sysJC("alpha", execution.ConcurrencyPolicyAllow, 0, "0/20 * * * * * *")},
		[]sysStim{{Kind: "createJC", JC: 0, Chaos: 3}, {Kind: "advance", D: 20, Tick: true, Chaos: 4}, {Kind: "advance", D: 20, Tick: true}}),
		append(all("create:jobs", 1), long("create:jobs", 1)...))
	// 2. queue: the start write of an Enqueue Job fails (counter must be rolled back), a second Job waits behind it
	runSystemScenario(c, "queue-start-fails", sysScenarioWorkload(
		[]sysJCSpec{sysJC("beta", execution.ConcurrencyPolicyEnqueue, 1, "")},
		[]sysStim{{Kind: "createJC", JC: 0}, {Kind: "adhoc", JC: 0, Name: "adhoc-1", Chaos: 5}, {Kind: "adhoc", JC: 0, Name: "adhoc-2", Chaos: 5},
			{Kind: "podStart", Name: "adhoc-1-gezdqo-0"}, {Kind: "podFinish", Name: "adhoc-1-gezdqo-0", Chaos: 6}}),
		append(append(all("update:jobs:status", 1), nth("update:jobs:status", 2, "err", 2)), long("update:jobs:status", 1)...))
	// 3. queue: the start write of an independent Job fails
	runSystemScenario(c, "independent-start-fails", sysScenarioWorkload(nil,
		[]sysStim{{Kind: "indep", Name: "indep-1", Chaos: 2}, {Kind: "podStart", Name: "indep-1-gezdqo-0"}, {Kind: "podFinish", Name: "indep-1-gezdqo-0"}}),
		append(all("update:jobs:status", 1), long("update:jobs:status", 1)...))
	// 4. job controller: the pod create fails
	runSystemScenario(c, "pod-create-fails", sysScenarioWorkload(nil,
		[]sysStim{{Kind: "indep", Name: "indep-1", Chaos: 4}, {Kind: "podStart", Name: "indep-1-gezdqo-0"}, {Kind: "podFinish", Name: "indep-1-gezdqo-0"}}),
		append(all("create:pods", 1), long("create:pods", 1)...))
	// 5. job controller: the status update after the pod create fails (the pod is adopted on retry)
	runSystemScenario(c, "status-update-after-create-fails", sysScenarioWorkload(nil,
		[]sysStim{{Kind: "indep", Name: "indep-1"}, {Kind: "podStart", Name: "indep-1-gezdqo-0"}, {Kind: "podFinish", Name: "indep-1-gezdqo-0"}}),
		[]*sysFaultPlan{nth("update:jobs:status", 2, "err", 1), nth("update:jobs:status", 2, "conflict", 2), nth("update:jobs:status", 3, "timeout", 3), nth("update:jobs:status", 2, "err", 14)})
	// 6. jobconfig controller: the status update fails
	runSystemScenario(c, "jobconfig-status-fails", sysScenarioWorkload(
		[]sysJCSpec{sysJC("gamma", execution.ConcurrencyPolicyForbid, 0, "")},
		[]sysStim{{Kind: "createJC", JC: 0, Chaos: 2}, {Kind: "adhoc", JC: 0, Name: "adhoc-1", Chaos: 3}, {Kind: "podStart", Name: "adhoc-1-gezdqo-0"},
			{Kind: "podFinish", Name: "adhoc-1-gezdqo-0"}}),
		append(append(all("update:jobconfigs:status", 1), all("update:jobconfigs:status", 2)...), long("update:jobconfigs:status", 1)...))
	// 7. job controller: kill => pod delete fails; TTL => job delete fails; finalizer update fails
	runSystemScenario(c, "kill-and-cleanup-fail", sysScenarioWorkload(nil,
		[]sysStim{{Kind: "indep", Name: "indep-1"}, {Kind: "podStart", Name: "indep-1-gezdqo-0"}, {Kind: "kill", Name: "indep-1", Chaos: 3},
			{Kind: "podGone", Name: "indep-1-gezdqo-0"}, {Kind: "advance", D: 60, Tick: true}, {Kind: "advance", D: 61, Tick: true}}),
		append(append(append(all("delete:pods", 1), all("delete:jobs", 1)...), all("update:jobs", 1)...), long("delete:jobs", 1)...))
	// (no long burst on delete:pods: 14 back-offs delay the finish by ~3 s, so the TTL of the faulty
	// run legitimately expires after the last barrier of this workload)
	// 8. cron + Forbid: the Job of the next schedule time is skipped in both runs although the
	//    create of the first one was delayed by faults
	runSystemScenario(c, "cron-forbid-create-fails", sysScenarioWorkload(
		[]sysJCSpec{sysJC("alpha", execution.ConcurrencyPolicyForbid, 0, "0/20 * * * * * *")},
		[]sysStim{{Kind: "createJC", JC: 0}, {Kind: "advance", D: 20, Tick: true, Chaos: 3}, {Kind: "podStart", Name: "alpha-" + fmt.Sprint(sim.VirtualBase.Unix()+620) + "-gezdqo-0"},
			{Kind: "advance", D: 20, Tick: true, Chaos: 3}}),
		append(all("create:jobs", 1), nth("update:jobs:status", 1, "err", 3)))
	// F-C20-1 (repaired; regression replay): a task that was created but not recorded (the status
	// update after the pod create failed) was leaked when the Job was deleted before the retry: for
	// a Job with a deletion timestamp syncJobTasks is skipped, and the finalizer swept only the
	// tasks listed in the status, so the finalizer was removed and the Job disappeared while its
	// pod still existed (only the Kubernetes garbage collector would remove it, through the owner
	// reference).  The finalizer now adopts the unrecorded tasks of the pod cache as well.
	c.RunScenario("f-c20-1-orphan-task-after-delete", func() {
		wl := sysScenarioWorkload(nil, nil)
		plan := nth("update:jobs:status", 2, "err", 1)
		w := newSysWorld(c, wl, "scenario f-c20-1-orphan-task-after-delete plan ["+plan.String()+"]", plan, true)
		w.barrier()
		flush := func() {
			for _, res := range []string{"jobconfigs", "jobs", "pods"} {
				for w.deliverOne(res) {
				}
			}
			for _, h := range sysHandlers {
				for w.notifyOne(h.res, h.h) {
				}
			}
		}
		w.apply(sysStim{Kind: "indep", Name: "indep-1"})
		flush()
		w.step(w.byName["qind"]) // the start write
		flush()
		w.step(w.byName["job"]) // creates the pod; the status update that records it fails; retry pending
		w.apply(sysStim{Kind: "delete", Name: "indep-1"})
		plan.stopped = true
		w.barrier()
		c.Nontrivial()
		if sysDebug {
			fmt.Println(strings.Join(w.trace, "\n"))
		}
		if plan.injected != 1 {
			c.Violate("C20", "scenario-fault-reached", "the fault plan fired %d times", plan.injected)
		}
		for _, p := range w.pods() {
			if w.job("indep-1") == nil {
				c.Violate("C20", "orphaned-task-after-delete", "Job indep-1 is gone (finalizer removed) but its task %s, created before the failed status update, still exists and is not being deleted || trace: %s",
					p.Name, strings.Join(tail(w.trace, 30), " ; "))
			}
		}
	})
}
