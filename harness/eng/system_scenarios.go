package eng

import (
	"fmt"
	"strings"

	execution "github.com/furiko-io/furiko/apis/execution/v1alpha1"
	"github.com/furiko-io/furiko/pkg/execution/controllers/croncontroller"

	"verifharness/sim"
)

// Corpus scenarios of the system engine: small hand-written workloads, each with fault plans
// that name the call they hit ("the 1st create of a Job fails 3 times").  They run before the
// generated workloads on every check and are the seeds of the mutation self-test: each of
// them needs the fault to bite for the controller's error path to run.

func sysScenarioWorkload(jcs []sysJCSpec, stims []sysStim) *sysWorkload {
	return &sysWorkload{seed: 7, t0: sim.VirtualBase.Unix() + 600, defTTL: 120, defPending: 900, forceDelete: 900,
		jcs: jcs, stims: stims}
}

func sysJC(name string, pol execution.ConcurrencyPolicy, max int64, cron string) sysJCSpec {
	return sysJCSpec{Name: name, Policy: pol, Max: max, Cron: cron, MaxAttempts: 2, RetryDelay: -1, Pending: -1, TTL: -1}
}

// nth builds a plan that fails the n-th call of the given kind `times` times in a row.
func nth(call string, n int, kind string, times int) *sysFaultPlan {
	return &sysFaultPlan{Faults: []sysFault{{Call: call, At: n, Kind: kind, Mode: "same", N: times}}}
}

func runSystemScenario(c *Ctx, name string, wl *sysWorkload, plans []*sysFaultPlan) {
	c.RunScenario(name, func() {
		label := "scenario " + name
		ref := runWorkload(c, wl, label+" fault-free", nil, 11, nil, nil, nil, false)
		stable := true
		runWorkload(c, wl, label+" fault-free, second interleaving", nil, 12, nil, ref,
			func(w *sysWorld, b int, what, diff string) {
				stable = false
				c.Violate("C20", "scenario-reference-stable", "%s: the fault-free outcome depends on the interleaving at barrier %d (%s): %s", label, b, what, diff)
			}, false)
		if !stable {
			return
		}
		c.Nontrivial()
		for pi, plan := range plans {
			lbl := fmt.Sprintf("%s faulty run %d plan [%s]", label, pi, plan)
			r := runWorkload(c, wl, lbl, plan, 11, nil, ref,
				func(w *sysWorld, b int, what, diff string) {
					c.Violate("C20", "converges-same-outcome", "%s: at barrier %d (after %s) the quiescent state differs from the fault-free run: %s || %s || trace: %s",
						lbl, b, what, diff, wl.describe(), strings.Join(tail(w.trace, 60), " ; "))
				}, true)
			c.Count("sys.scenario-runs")
			if r.injected == 0 {
				c.Violate("C20", "scenario-fault-reached", "%s: the fault plan never fired", lbl)
			}
		}
	})
}

func runSystemScenarios(c *Ctx) {
	kinds := sysKinds()
	all := func(call string, n int) []*sysFaultPlan {
		var ps []*sysFaultPlan
		for i, k := range kinds {
			ps = append(ps, nth(call, n, k, 1+i))
		}
		return ps
	}
	// long(call, n): the n-th call of that kind fails 14 times in a row (more than any small retry
	// budget a reconciler could be given: a key that is given up after k < 14 failures is lost for
	// good when nothing else re-adds it, e.g. the one-shot (JobConfig, schedule time) keys of cron)
	long := func(call string, n int) []*sysFaultPlan {
		return []*sysFaultPlan{nth(call, n, "err", 14), nth(call, n, "timeout", 14)}
	}
	// 1. cron: the create of the Job of (JobConfig, schedule time) fails, then succeeds
	runSystemScenario(c, "cron-create-fails", sysScenarioWorkload(
		[]sysJCSpec{sysJC("alpha", execution.ConcurrencyPolicyAllow, 0, "0/20 * * * * * *")},
		[]sysStim{{Kind: "createJC", JC: 0, Chaos: 3}, {Kind: "advance", D: 20, Tick: true, Chaos: 4}, {Kind: "advance", D: 20, Tick: true}}),
		append(all("create:jobs", 1), long("create:jobs", 1)...))
	// 2. queue: the start write of an Enqueue Job fails (counter must be rolled back), a second Job waits behind it
	runSystemScenario(c, "queue-start-fails", sysScenarioWorkload(
		[]sysJCSpec{sysJC("beta", execution.ConcurrencyPolicyEnqueue, 1, "")},
		[]sysStim{{Kind: "createJC", JC: 0}, {Kind: "adhoc", JC: 0, Name: "adhoc-1", Chaos: 5}, {Kind: "adhoc", JC: 0, Name: "adhoc-2", Chaos: 5},
			{Kind: "podStart", Name: "adhoc-1-gezdqo-0"}, {Kind: "podFinish", Name: "adhoc-1-gezdqo-0", Chaos: 6}}),
		append(append(all("update:jobs:status", 1), nth("update:jobs:status", 2, "err", 2)), long("update:jobs:status", 1)...))
	// 3. queue: the start write of an independent Job fails
	runSystemScenario(c, "independent-start-fails", sysScenarioWorkload(nil,
		[]sysStim{{Kind: "indep", Name: "indep-1", Chaos: 2}, {Kind: "podStart", Name: "indep-1-gezdqo-0"}, {Kind: "podFinish", Name: "indep-1-gezdqo-0"}}),
		append(all("update:jobs:status", 1), long("update:jobs:status", 1)...))
	// 4. job controller: the pod create fails
	runSystemScenario(c, "pod-create-fails", sysScenarioWorkload(nil,
		[]sysStim{{Kind: "indep", Name: "indep-1", Chaos: 4}, {Kind: "podStart", Name: "indep-1-gezdqo-0"}, {Kind: "podFinish", Name: "indep-1-gezdqo-0"}}),
		append(all("create:pods", 1), long("create:pods", 1)...))
	// 5. job controller: the status update after the pod create fails (the pod is adopted on retry)
	runSystemScenario(c, "status-update-after-create-fails", sysScenarioWorkload(nil,
		[]sysStim{{Kind: "indep", Name: "indep-1"}, {Kind: "podStart", Name: "indep-1-gezdqo-0"}, {Kind: "podFinish", Name: "indep-1-gezdqo-0"}}),
		[]*sysFaultPlan{nth("update:jobs:status", 2, "err", 1), nth("update:jobs:status", 2, "conflict", 2), nth("update:jobs:status", 3, "timeout", 3), nth("update:jobs:status", 2, "err", 14)})
	// 6. jobconfig controller: the status update fails
	runSystemScenario(c, "jobconfig-status-fails", sysScenarioWorkload(
		[]sysJCSpec{sysJC("gamma", execution.ConcurrencyPolicyForbid, 0, "")},
		[]sysStim{{Kind: "createJC", JC: 0, Chaos: 2}, {Kind: "adhoc", JC: 0, Name: "adhoc-1", Chaos: 3}, {Kind: "podStart", Name: "adhoc-1-gezdqo-0"},
			{Kind: "podFinish", Name: "adhoc-1-gezdqo-0"}}),
		append(append(all("update:jobconfigs:status", 1), all("update:jobconfigs:status", 2)...), long("update:jobconfigs:status", 1)...))
	// 7. job controller: kill => pod delete fails; TTL => job delete fails; finalizer update fails
	runSystemScenario(c, "kill-and-cleanup-fail", sysScenarioWorkload(nil,
		[]sysStim{{Kind: "indep", Name: "indep-1"}, {Kind: "podStart", Name: "indep-1-gezdqo-0"}, {Kind: "kill", Name: "indep-1", Chaos: 3},
			{Kind: "podGone", Name: "indep-1-gezdqo-0"}, {Kind: "advance", D: 60, Tick: true}, {Kind: "advance", D: 61, Tick: true}}),
		append(append(append(all("delete:pods", 1), all("delete:jobs", 1)...), all("update:jobs", 1)...), long("delete:jobs", 1)...))
	// (no long burst on delete:pods: 14 back-offs delay the finish by ~3 s, so the TTL of the faulty
	// run legitimately expires after the last barrier of this workload)
	// 8. cron + Forbid: the Job of the next schedule time is skipped in both runs although the
	//    create of the first one was delayed by faults
	runSystemScenario(c, "cron-forbid-create-fails", sysScenarioWorkload(
		[]sysJCSpec{sysJC("alpha", execution.ConcurrencyPolicyForbid, 0, "0/20 * * * * * *")},
		[]sysStim{{Kind: "createJC", JC: 0}, {Kind: "advance", D: 20, Tick: true, Chaos: 3}, {Kind: "podStart", Name: "alpha-" + fmt.Sprint(sim.VirtualBase.Unix()+620) + "-gezdqo-0"},
			{Kind: "advance", D: 20, Tick: true, Chaos: 3}}),
		append(all("create:jobs", 1), nth("update:jobs:status", 1, "err", 3)))
	runF34Scenario(c, "f34-webhook-cache-lag-drops-schedule", false)
	runF34Scenario(c, "f34-webhook-stale-uid-drops-schedule", true)
	runF33SystemScenario(c)
	// F-C20-1 (repaired; regression replay): a task that was created but not recorded (the status
	// update after the pod create failed) was leaked when the Job was deleted before the retry: for
	// a Job with a deletion timestamp syncJobTasks is skipped, and the finalizer swept only the
	// tasks listed in the status, so the finalizer was removed and the Job disappeared while its
	// pod still existed (only the Kubernetes garbage collector would remove it, through the owner
	// reference).  The finalizer now adopts the unrecorded tasks of the pod cache as well.
	c.RunScenario("f-c20-1-orphan-task-after-delete", func() {
		wl := sysScenarioWorkload(nil, nil)
		plan := nth("update:jobs:status", 2, "err", 1)
		w := newSysWorld(c, wl, "scenario f-c20-1-orphan-task-after-delete plan ["+plan.String()+"]", plan, true)
		w.barrier()
		flush := func() {
			for _, res := range []string{"jobconfigs", "jobs", "pods"} {
				for w.deliverOne(res) {
				}
			}
			for _, h := range sysHandlers {
				for w.notifyOne(h.res, h.h) {
				}
			}
		}
		w.apply(sysStim{Kind: "indep", Name: "indep-1"})
		flush()
		w.step(w.byName["qind"]) // the start write
		flush()
		w.step(w.byName["job"]) // creates the pod; the status update that records it fails; retry pending
		w.apply(sysStim{Kind: "delete", Name: "indep-1"})
		plan.stopped = true
		w.barrier()
		c.Nontrivial()
		if sysDebug {
			fmt.Println(strings.Join(w.trace, "\n"))
		}
		if plan.injected != 1 {
			c.Violate("C20", "scenario-fault-reached", "the fault plan fired %d times", plan.injected)
		}
		for _, p := range w.pods() {
			if w.job("indep-1") == nil {
				c.Violate("C20", "orphaned-task-after-delete", "Job indep-1 is gone (finalizer removed) but its task %s, created before the failed status update, still exists and is not being deleted || trace: %s",
					p.Name, strings.Join(tail(w.trace, 30), " ; "))
			}
		}
	})
}

// sysFlush delivers every pending watch event to the controllers' caches and runs every handler
// notification; no controller is stepped.
func sysFlush(w *sysWorld) {
	for _, res := range []string{"jobconfigs", "jobs", "pods"} {
		for w.deliverOne(res) {
		}
	}
	for _, h := range sysHandlers {
		for w.notifyOne(h.res, h.h) {
		}
	}
}

// KNOWN FINDING F34 (environment audit G3, probes/simaudit TestCronScheduleDroppedWhenWebhookCacheLags).
// The admission webhooks are another process with their own JobConfig informer.  When the
// mutating webhook does not find the owner JobConfig of a Job in ITS cache (the JobConfig was
// created a moment ago), or finds an object with another UID (deleted and re-created under the
// same name: recreate = true), it answers 422 Invalid; croncontroller's CreateJob treats every
// Invalid as final (event, return nil), the key is forgotten, and that schedule time never gets its
// Job although the same create would have been admitted as soon as the webhook's cache caught up.
// Judged like every other disturbance of C20: the quiescent outcome must equal the outcome of the
// run in which the webhook's cache did not lag (converges-same-outcome).
func runF34Scenario(c *Ctx, name string, recreate bool) {
	c.RunScenario(name, func() {
		wl := sysScenarioWorkload([]sysJCSpec{sysJC("alpha", execution.ConcurrencyPolicyAllow, 0, "0/20 * * * * * *")}, nil)
		run := func(lag bool) (*sysWorld, []string) {
			label := "scenario " + name + " (reference: the webhook's cache keeps up)"
			if lag {
				label = "scenario " + name + " (the webhook's JobConfig cache lags)"
			}
			w := newSysWorld(c, wl, label, &sysFaultPlan{}, lag)
			w.hookFree = true
			var canon []string
			bar := func() { w.barrier(); canon = append(canon, w.canon()) }
			bar()
			if recreate {
				w.apply(sysStim{Kind: "createJC", JC: 0})
				bar() // the webhook has seen the first incarnation
				w.hookHold = lag
				w.tr("user deletes and re-creates JobConfig alpha")
				w.userErr("deleteJC", w.api.Delete("jobconfigs", "ns/alpha", false, false))
				w.apply(sysStim{Kind: "createJC", JC: 0})
			} else {
				w.hookHold = lag // the webhook's watch is behind from here on
				w.apply(sysStim{Kind: "createJC", JC: 0})
			}
			bar()                                                // the controllers are quiescent: the cron worker has scheduled alpha
			w.apply(sysStim{Kind: "advance", D: 20, Tick: true}) // the first schedule time fires
			for w.step(w.byName["cron"]) {                       // the create is judged by the webhook process
			}
			w.hookHold = false // the webhook's cache catches up (a retry 5 ms later would be admitted)
			bar()
			return w, canon
		}
		_, ref := run(false)
		w, got := run(true)
		c.Nontrivial()
		if sysDebug {
			fmt.Println(strings.Join(w.trace, "\n"))
		}
		if w.hookLagRefusals == 0 {
			c.Violate("C20", "scenario-fault-reached", "%s: the lagging webhook never refused a create", w.label)
		}
		c.Count(fmt.Sprintf("sys.f34.refused-by-lagging-webhook.%d", w.hookLagRefusals))
		for i := range ref {
			if i < len(got) && ref[i] != got[i] {
				c.Violate("C20", "converges-same-outcome", "%s: at barrier %d the quiescent state differs from the run in which the webhook's cache kept up, although every call succeeds again and every cache has caught up: %s || trace: %s",
					w.label, i, canonDiff(ref[i], got[i]), strings.Join(tail(w.trace, 40), " ; "))
				return
			}
		}
	})
}

// restartCron rebuilds the cron controller's in-memory schedule the way a process restart does:
// a new CronWorker is initialised from the JobConfig lister (status.lastScheduled is what the
// catch-up reads) and the informer's add notifications for the existing JobConfigs are handled
// right after Init (the production order, F24).  Meant for QUIESCENT points only: there every
// other piece of controller memory (work queues empty, active-job counter = cache) is already
// what a fresh process would rebuild.
func (w *sysWorld) restartCron() {
	w.tr("cron controller restarts")
	w.cronWorker = croncontroller.NewCronWorker(w.cronCtx, &sysEnqueue{q: w.byName["cron"].q})
	_ = w.cronWorker.Init()
	inf := w.ctx.Sim().JobConfigs()
	inf.ReplayExisting(1) // handler 1 = the cron controller's (sysHandlers)
	for inf.NotifyNext(1) {
		w.c.Count("sys.restart.initial-add")
	}
	w.replayQueueLogs()
	w.c.Count("sys.act.restart-cron")
	w.afterAction()
}

// KNOWN FINDING F33, composed system (the jcstatus engine holds the minimal replay): the JobConfig
// controller derives status.lastScheduled only from the Jobs that are in its Job cache at the
// moment of a sync.  The Job of schedule time T2 is created by the cron controller and deleted by
// the user (no task yet: the job controller drops the finalizer at once) while the JobConfig
// controller's worker has not got to the key; when it does, the Job is gone from the cache and
// status.lastScheduled stays at T1 < T2 for ever.  A later restart of the cron controller reads
// T1 and requests T2 AGAIN: the deleted Job is created, and runs, a second time.
func runF33SystemScenario(c *Ctx) {
	const name = "f33-job-never-observed-rerequested-after-restart"
	c.RunScenario(name, func() {
		wl := sysScenarioWorkload([]sysJCSpec{sysJC("alpha", execution.ConcurrencyPolicyAllow, 0, "0/20 * * * * * *")}, nil)
		w := newSysWorld(c, wl, "scenario "+name, &sysFaultPlan{}, true)
		t1, t2 := wl.t0+20, wl.t0+40
		j2 := fmt.Sprintf("alpha-%d", t2)
		lastScheduled := func() int64 {
			if o := w.api.Get("jobconfigs", "ns/alpha"); o != nil {
				if ls := o.(*execution.JobConfig).Status.LastScheduled; ls != nil {
					return ls.Unix()
				}
			}
			return 0
		}
		w.barrier()
		w.apply(sysStim{Kind: "createJC", JC: 0})
		w.barrier()
		w.apply(sysStim{Kind: "advance", D: 20, Tick: true})
		w.barrier() // the Job of T1 exists and is counted
		if lastScheduled() != t1 {
			c.Violate("C15", "scenario-precondition", "%s: lastScheduled=%d after the Job of T1=%d was observed", w.label, lastScheduled(), t1)
			return
		}
		w.apply(sysStim{Kind: "advance", D: 20, Tick: true})
		for w.step(w.byName["cron"]) { // creates the Job of T2
		}
		existed := w.job(j2) != nil && w.job(j2).Annotations["execution.furiko.io/schedule-time"] == fmt.Sprint(t2)
		sysFlush(w) // every handler has seen the new Job; the JobConfig controller's key is queued, its worker is busy
		w.apply(sysStim{Kind: "delete", Name: j2})
		for i := 0; i < 6 && w.job(j2) != nil; i++ { // the job controller drops the finalizer (nothing to clean up)
			sysFlush(w)
			for w.step(w.byName["job"]) {
			}
		}
		gone := w.job(j2) == nil
		sysFlush(w)
		w.barrier() // now the JobConfig controller syncs: the Job of T2 is not in its cache any more
		c.Nontrivial()
		if !existed || !gone {
			c.Violate("C15", "scenario-precondition", "%s: the Job of T2 existed=%v, gone=%v", w.label, existed, gone)
			return
		}
		ls := lastScheduled()
		// a restart of the cron controller five seconds later (nothing new is due before T2+20)
		w.apply(sysStim{Kind: "advance", D: 5})
		w.restartCron()
		w.tick()
		for w.step(w.byName["cron"]) {
		}
		again := w.job(j2) != nil
		w.barrier()
		if again {
			c.Count("sys.f33.deleted-job-created-again-after-restart")
		}
		if sysDebug {
			fmt.Println(strings.Join(w.trace, "\n"))
		}
		if ls < t2 {
			c.Violate("C15", "lastScheduled-ge-any-job", "%s: JobConfig alpha had a Job with schedule time %d (created by the cron controller, deleted before the JobConfig controller synced), but at quiescence status.lastScheduled=%d; after a restart of the cron controller that schedule time was requested again: %v (Job %s exists again: %v) || trace: %s",
				w.label, t2, ls, again, j2, again, strings.Join(tail(w.trace, 40), " ; "))
		}
	})
}
