// Package eng holds the shared plumbing of the correspondence engines: the line protocol
// writer, per-case seeding, statistics, and monitor violations.
package eng

import (
	"bufio"
	"encoding/json"
	"fmt"
	"hash/fnv"
	"math/rand"
	"os"
	"path/filepath"
	"sort"
	"strings"
)

// Violation is a failure of a monitor (an executable restatement of a property judged on the
// real implementation against ground truth owned by the harness).
type Violation struct {
	Property string   `json:"property"`
	Monitor  string   `json:"monitor"`
	Message  string   `json:"message"`
	Engine   string   `json:"engine"`
	Case     int      `json:"case"`
	Scenario string   `json:"scenario,omitempty"`
	Ops      []string `json:"ops"`
}

// Ctx is handed to an engine run.
type Ctx struct {
	Engine   string
	Seed     int64
	N        int    // number of generated cases requested
	Tier     string // quick | thorough
	OnlyCase int    // >=0: run only this case index (replay)
	Scenario string // non-empty: run only this named corpus scenario

	ops, impl *bufio.Writer
	opsF      *os.File
	implF     *os.File

	Stats      map[string]int64
	Samples    []string
	Violations []Violation
	Known      []Violation // violations raised inside named known-finding scenarios
	Cases      int
	OpsCount   int
	Distinct   map[uint64]struct{}

	curCase     int
	curScenario string
	curOps      []string
	curNontriv  bool
	Rng         *rand.Rand
	// Mute: the current case is judged by the MONITORS ONLY — its op lines are kept for the replay
	// record of a violation but are not sent to the model (the environment of the case does
	// something the model has no vocabulary for).  Reset at the start of every case.
	Mute bool
}

func NewCtx(engine string, seed int64, n int, tier, outDir string) (*Ctx, error) {
	if err := os.MkdirAll(outDir, 0o755); err != nil {
		return nil, err
	}
	of, err := os.Create(filepath.Join(outDir, engine+".ops"))
	if err != nil {
		return nil, err
	}
	imf, err := os.Create(filepath.Join(outDir, engine+".impl"))
	if err != nil {
		return nil, err
	}
	return &Ctx{
		Engine: engine, Seed: seed, N: n, Tier: tier, OnlyCase: -1,
		ops: bufio.NewWriterSize(of, 1<<20), impl: bufio.NewWriterSize(imf, 1<<20), opsF: of, implF: imf,
		Stats: map[string]int64{}, Distinct: map[uint64]struct{}{},
	}, nil
}

func caseSeed(seed int64, engine string, i int) int64 {
	h := fnv.New64a()
	fmt.Fprintf(h, "%d/%s/%d", seed, engine, i)
	return int64(h.Sum64() & 0x7fffffffffffffff)
}

// ForCases runs fn for every case index of this run (or only the replayed one), with a PRNG
// derived from (seed, engine, index) so that any single case replays exactly.
func (c *Ctx) ForCases(fn func(i int, rng *rand.Rand)) {
	for i := 0; i < c.N; i++ {
		if c.OnlyCase >= 0 && i != c.OnlyCase {
			continue
		}
		if c.Scenario != "" {
			continue
		}
		c.begin(i, "")
		c.Rng = rand.New(rand.NewSource(caseSeed(c.Seed, c.Engine, i)))
		fn(i, c.Rng)
		c.end()
	}
}

// RunScenario runs a named, hand-written corpus scenario (always before generated cases).
func (c *Ctx) RunScenario(name string, fn func()) {
	if c.OnlyCase >= 0 {
		return
	}
	if c.Scenario != "" && c.Scenario != name {
		return
	}
	c.begin(-1, name)
	c.Rng = rand.New(rand.NewSource(caseSeed(0, c.Engine+"/"+name, 0)))
	fn()
	c.end()
}

func (c *Ctx) begin(i int, scenario string) {
	c.curCase = i
	c.curScenario = scenario
	c.curOps = c.curOps[:0]
	c.curNontriv = false
	c.Mute = false
}

func (c *Ctx) end() {
	c.Cases++
	if len(c.curOps) > 0 {
		h := fnv.New64a()
		for _, o := range c.curOps {
			h.Write([]byte(o))
			h.Write([]byte{'\n'})
		}
		if c.curNontriv {
			c.Distinct[h.Sum64()] = struct{}{}
		}
		if len(c.Samples) < 3 {
			s := c.curOps
			if len(s) > 12 {
				s = s[:12]
			}
			short := make([]string, len(s))
			for i, o := range s {
				if len(o) > 160 {
					o = o[:100] + " ... " + o[len(o)-50:]
				}
				short[i] = o
			}
			c.Samples = append(c.Samples, strings.Join(short, " ; "))
		}
	}
}

// Nontrivial marks the current case as non-trivial by the engine's stated rule.
func (c *Ctx) Nontrivial() { c.curNontriv = true }

// Emit records one operation line and the implementation's canonical output line.
func (c *Ctx) Emit(op string, out string) {
	if strings.ContainsAny(op, "\n\r") || strings.ContainsAny(out, "\n\r") {
		panic("newline in protocol line: " + op + " => " + out)
	}
	if c.Mute {
		c.curOps = append(c.curOps, op+"  => "+out)
		return
	}
	c.ops.WriteString(op)
	c.ops.WriteByte('\n')
	c.impl.WriteString(out)
	c.impl.WriteByte('\n')
	c.curOps = append(c.curOps, op+"  => "+out)
	c.OpsCount++
}

// Count increments a named statistic (op mix, branch hit, error kind).
func (c *Ctx) Count(name string) { c.Stats[name]++ }

// Violate reports a monitor failure on the current case.
func (c *Ctx) Violate(property, monitor, format string, args ...interface{}) {
	v := Violation{
		Property: property, Monitor: monitor, Message: fmt.Sprintf(format, args...),
		Engine: c.Engine, Case: c.curCase, Scenario: c.curScenario,
		Ops: append([]string(nil), c.curOps...),
	}
	c.Violations = append(c.Violations, v)
}

type statsFile struct {
	Engine     string           `json:"engine"`
	Seed       int64            `json:"seed"`
	Tier       string           `json:"tier"`
	Cases      int              `json:"cases"`
	Ops        int              `json:"ops"`
	DistinctNT int              `json:"distinct_nontrivial"`
	Stats      map[string]int64 `json:"stats"`
	Samples    []string         `json:"samples"`
	Violations []Violation      `json:"violations"`
}

// Close flushes the streams and writes <engine>.stats.json.
func (c *Ctx) Close(outDir string) error {
	c.ops.Flush()
	c.impl.Flush()
	c.opsF.Close()
	c.implF.Close()
	sf := statsFile{Engine: c.Engine, Seed: c.Seed, Tier: c.Tier, Cases: c.Cases, Ops: c.OpsCount,
		DistinctNT: len(c.Distinct), Stats: c.Stats, Samples: c.Samples, Violations: c.Violations}
	if sf.Violations == nil {
		sf.Violations = []Violation{}
	}
	if sf.Samples == nil {
		sf.Samples = []string{}
	}
	b, _ := json.MarshalIndent(sf, "", " ")
	return os.WriteFile(filepath.Join(outDir, c.Engine+".stats.json"), b, 0o644)
}

// Q percent-encodes a string into one protocol token.
func Q(s string) string {
	if s == "" {
		return "%-"
	}
	var b strings.Builder
	for i := 0; i < len(s); i++ {
		ch := s[i]
		if ch >= 'a' && ch <= 'z' || ch >= 'A' && ch <= 'Z' || ch >= '0' && ch <= '9' ||
			ch == '_' || ch == '.' || ch == '/' || ch == ':' || ch == '-' || ch == '+' || ch == ',' || ch == '=' {
			b.WriteByte(ch)
		} else {
			fmt.Fprintf(&b, "%%%02X", ch)
		}
	}
	return b.String()
}

// OptI renders an optional integer ("-" when absent).
func OptI(p *int64) string {
	if p == nil {
		return "-"
	}
	return fmt.Sprint(*p)
}

// B renders a bool as 0/1.
func B(b bool) string {
	if b {
		return "1"
	}
	return "0"
}

// SortedKeys returns the sorted keys of a string-keyed map.
func SortedKeys[V any](m map[string]V) []string {
	ks := make([]string, 0, len(m))
	for k := range m {
		ks = append(ks, k)
	}
	sort.Strings(ks)
	return ks
}

// Guard runs fn and converts a panic into the output token "panic".
func Guard(fn func() string) (out string) {
	defer func() {
		if r := recover(); r != nil {
			out = "panic"
		}
	}()
	return fn()
}

// Engine is an engine entry point.
type Engine func(c *Ctx)

var Engines = map[string]Engine{}

func Register(name string, e Engine) { Engines[name] = e }
