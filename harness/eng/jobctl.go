package eng

import (
	"context"
	"encoding/json"
	"fmt"
	"math/rand"
	"os"
	"sort"
	"strconv"
	"strings"
	"time"

	corev1 "k8s.io/api/core/v1"
	"k8s.io/apimachinery/pkg/api/meta"
	metav1 "k8s.io/apimachinery/pkg/apis/meta/v1"
	"k8s.io/apimachinery/pkg/runtime"
	"k8s.io/apimachinery/pkg/types"
	"k8s.io/client-go/tools/record"
	fakeclock "k8s.io/utils/clock/testing"

	configv1alpha1 "github.com/furiko-io/furiko/apis/config/v1alpha1"
	executiongroup "github.com/furiko-io/furiko/apis/execution"
	execution "github.com/furiko-io/furiko/apis/execution/v1alpha1"
	"github.com/furiko-io/furiko/pkg/execution/controllers/jobcontroller"
	"github.com/furiko-io/furiko/pkg/execution/taskexecutor/podtaskexecutor"
	jobutil "github.com/furiko-io/furiko/pkg/execution/util/job"
	"github.com/furiko-io/furiko/pkg/execution/util/parallel"
	"github.com/furiko-io/furiko/pkg/runtime/reconciler"
	"github.com/furiko-io/furiko/pkg/utils/ktime"

	"verifharness/sim"
)

// Engine "jobctl": the real jobcontroller.Reconciler (SyncOne through reconciler.Controller's
// retry loop and the real informer worker) against SimAPI with a kubelet model, cache lag,
// faults and restarts, compared with Model/JobCtl.lean; monitors for C08-C13 judge every API
// call at the instant it is applied against SimAPI's authoritative state.

func init() { Register("jobctl", runJobCtl) }

type jobctlWorld struct {
	c      *Ctx
	rng    *rand.Rand
	ctx    *sim.Context
	clk    *fakeclock.FakeClock
	api    *sim.SimAPI
	q      *sim.DetQueue
	rc     *reconciler.Controller
	faults []string
	cfg    *configv1alpha1.JobExecutionConfig
	jobKey string
	uid    string

	// monitor state
	ttlDeleteAt    int64            // clock of the controller's Job delete in the current sync (0 = none)
	cachedJob      *execution.Job   // the Job version the running sync read from the cache
	resultEdited   bool             // the user set a kill timestamp on a finished Job, or deleted the Job
	envelopeBroken bool             // pod-cache lag made a status-listed pod invisible to a sync (E-PodCacheFresh)
	podsCreated    map[string]int64 // name -> creation clock (ns) by the controller
	prevJob        *execution.Job   // previous authoritative version (monotonicity)
	userEdited     bool
	foreign        map[string]bool
	foreignRec     map[string]bool // foreign pod created under the name of a RECORDED task (F22)
	ownSucceeded   map[string]bool // the Job's OWN pod of that name reached phase Succeeded (kubelet ground truth)
	indexHashes    []string
	decidedAtSync  string               // non-empty: the strategy was already decided by what the running sync can see
	failBias       bool                 // kubelet terminations are mostly failures (retry-focused histories)
	ttlVisible     bool                 // every task of the Job was in the pod cache when the controller issued the TTL delete
	ttlPassStatus  *execution.JobStatus // the status the pass that issued the TTL delete submitted afterwards (any result)
	staleRecreate  bool                 // E-FreshJobOnCreate left (known finding F19): two incarnations of one task name
	lateFinish     bool                 // a pod that is being deleted often still runs to completion before it goes away
	kubeletDead    bool                 // the kubelet never finishes terminating a deleted pod (node unreachable)
	forceKind      *int                 // scenarios: the next kubelet termination is of this kind (0 = Succeeded, 2 = Failed)
	keepMonitors   bool                 // scenarios replaying a known finding that lies outside E-OrphanVisible / E-NoUnrecordedWhenFinished (F25): the envelope is still counted, but the monitors stay on

	// kubelet ground truth (what the simulated kubelet really did, whatever the pod status shows)
	trueFinish        map[string]int64 // name -> instant (ns) at which the kubelet put the pod into a terminal phase
	finishUnreported  map[string]bool  // ... and the pod status carries no container termination time for it (eviction, node lost, DeadlineExceeded): the controller records its own observation time (F30 repaired)
	everRan           map[string]int64 // name -> instant (ns) at which the kubelet first started a container of the pod
	ctlDeleted        map[string]bool  // the controller itself issued a successful delete for this pod
	deletedUnlisted   map[string]bool  // ... in a pass one of whose calls failed and after which the authoritative status did not list it: outside E-DeleteRecorded
	passFaulted       bool             // a fault was injected into a call of the running / last pass
	promptUnscheduled bool             // API server behaviour: a graceful delete of a pod that no kubelet has acknowledged removes the object at once
	pinnedPods        bool             // the pod template carries a finalizer (NewPod copies it): a pod survives every delete, also with gracePeriodSeconds=0, until the finalizer's owner releases it; monitors-only histories (Ctx.Mute)
	forceDeleted      map[string]bool  // the controller issued a successful force delete for this pod
}

func (w *jobctlWorld) now() int64 { return w.clk.Now().UnixNano() }

func newJobctlWorld(c *Ctx, rng *rand.Rand) *jobctlWorld {
	return &jobctlWorld{c: c, rng: rng, podsCreated: map[string]int64{}, foreign: map[string]bool{}, foreignRec: map[string]bool{}, ownSucceeded: map[string]bool{},
		trueFinish: map[string]int64{}, finishUnreported: map[string]bool{}, everRan: map[string]int64{}, ctlDeleted: map[string]bool{}, deletedUnlisted: map[string]bool{}, forceDeleted: map[string]bool{}}
}

func (w *jobctlWorld) boot() {
	w.ctx.Sim().Jobs().ResetHandlers()
	w.ctx.Sim().Pods().ResetHandlers()
	w.q = sim.NewDetQueue(w.clk)
	w.q.Candidates = w.snapCandidates // every deferred re-sync of this controller targets one of these instants
	jctx := jobcontroller.NewContextWithRecorder(w.ctx, &record.FakeRecorder{})
	jctx.VerifSetQueue(w.q)
	jobcontroller.NewInformerWorker(jctx)
	w.rc = reconciler.NewController(jobcontroller.NewReconciler(jctx, nil), w.q)
}

func tsec(t *metav1.Time) string {
	if t.IsZero() {
		return "-"
	}
	return fmt.Sprint(t.Unix())
}

func orDash(s string) string {
	if s == "" {
		return "_"
	}
	return s
}

func refDigest(r execution.TaskRef) string {
	ds := "-"
	if r.DeletedStatus != nil {
		ds = fmt.Sprintf("%s/%s/%s", orDash(string(r.DeletedStatus.State)), orDash(string(r.DeletedStatus.Result)), orDash(r.DeletedStatus.Reason))
	}
	hash := "-"
	if r.ParallelIndex != nil {
		hash, _ = parallel.HashIndex(*r.ParallelIndex)
	}
	ct := r.CreationTimestamp
	return fmt.Sprintf("%s~%s~%s~%s~%s~%s~%s~%d~%s~%s", r.Name, orDash(string(r.Status.State)), orDash(string(r.Status.Result)), orDash(r.Status.Reason),
		tsec(&ct), tsec(r.RunningTimestamp), tsec(r.FinishTimestamp), r.RetryIndex, hash, ds)
}

func jobDigest(j *execution.Job) string {
	if j == nil {
		return "gone"
	}
	cond := "none"
	c := j.Status.Condition
	switch {
	case c.Queueing != nil:
		cond = "Q:" + orDash(c.Queueing.Reason)
	case c.Waiting != nil:
		cond = "W:" + orDash(c.Waiting.Reason)
	case c.Running != nil:
		cond = fmt.Sprintf("R:%s,%s,%d", tsec(&c.Running.LatestCreationTimestamp), tsec(&c.Running.LatestRunningTimestamp), c.Running.TerminatingTasks)
	case c.Finished != nil:
		cond = fmt.Sprintf("F:%s,%s,%s,%s", tsec(c.Finished.LatestCreationTimestamp), tsec(c.Finished.LatestRunningTimestamp), tsec(&c.Finished.FinishTimestamp), orDash(string(c.Finished.Result)))
	}
	ncond := 0
	for _, b := range []bool{c.Queueing != nil, c.Waiting != nil, c.Running != nil, c.Finished != nil} {
		if b {
			ncond++
		}
	}
	var refs []string
	for _, r := range j.Status.Tasks {
		refs = append(refs, refDigest(r))
	}
	par := "-"
	if ps := j.Status.ParallelStatus; ps != nil {
		suc := "-"
		if ps.Successful != nil {
			suc = B(*ps.Successful)
		}
		var idx []string
		for _, ix := range ps.Indexes {
			idx = append(idx, fmt.Sprintf("%s:%d:%s:%s", ix.Hash, ix.CreatedTasks, orDash(string(ix.State)), orDash(string(ix.Result))))
		}
		par = fmt.Sprintf("%s/%s/%s", B(ps.Complete), suc, strings.Join(idx, ","))
	}
	_, adm := jobutil.GetAdmissionErrorMessage(j)
	fin := false
	for _, f := range j.Finalizers {
		if f == executiongroup.DeleteDependentsFinalizer {
			fin = true
		}
	}
	return fmt.Sprintf("ph=%s st=%s nc=%d cond=%s ct=%d rt=%d start=%s fin=%s del=%s adm=%s kill=%s par=%s tasks=[%s]",
		orDash(string(j.Status.Phase)), orDash(string(j.Status.State)), ncond, cond, j.Status.CreatedTasks, j.Status.RunningTasks,
		tsec(j.Status.StartTime), B(fin), tsec(j.DeletionTimestamp), B(adm), tsec(j.Spec.KillTimestamp), par, strings.Join(refs, ";"))
}

func (w *jobctlWorld) apiJob() *execution.Job {
	o := w.api.Get("jobs", w.jobKey)
	if o == nil {
		return nil
	}
	return o.(*execution.Job)
}

func (w *jobctlWorld) apiPod(name string) *corev1.Pod {
	o := w.api.Get("pods", "ns/"+name)
	if o == nil {
		return nil
	}
	return o.(*corev1.Pod)
}

func podDigest(p *corev1.Pod) string {
	owner := "-"
	if ref := metav1.GetControllerOf(p); ref != nil && ref.Kind == execution.KindJob {
		owner = string(ref.UID)
	}
	st, fi, oom, last := "-", "-", "0", "-"
	for _, cs := range p.Status.ContainerStatuses {
		if t := cs.LastTerminationState.Terminated; t != nil {
			last = tsec(&t.StartedAt) + "," + tsec(&t.FinishedAt) // the container was restarted (restartPolicy OnFailure)
		}
		if cs.State.Running != nil {
			st = tsec(&cs.State.Running.StartedAt)
		}
		if t := cs.State.Terminated; t != nil {
			st = tsec(&t.StartedAt)
			fi = tsec(&t.FinishedAt)
			if t.Reason == "OOMKilled" {
				oom = "1"
			}
		}
	}
	ct := p.CreationTimestamp
	reason, _ := podtaskexecutor.NewPodTask(p, nil).GetReasonMessage()
	return fmt.Sprintf("%s|%s|%s|%s|%s|%s|%s|%s|%s|%s|%s|%s|%s", p.Name, owner, tsec(&ct), orDash(p.Labels[podtaskexecutor.LabelKeyTaskRetryIndex]),
		orDash(p.Labels[podtaskexecutor.LabelKeyTaskParallelIndexHash]), tsec(p.DeletionTimestamp), orDash(string(p.Status.Phase)),
		tsec(p.Status.StartTime), st, fi, oom, orDash(reason), last)
}

func (w *jobctlWorld) state() string {
	var pods []string
	for _, k := range w.api.Keys("pods") {
		pods = append(pods, podDigest(w.api.Get("pods", k).(*corev1.Pod)))
	}
	var d []string
	for _, t := range w.q.Delayed() {
		d = append(d, fmt.Sprint(t.Deadline))
	}
	return fmt.Sprintf("%s pods=[%s] q=%d/%s ev=%d/%d", jobDigest(w.apiJob()), strings.Join(pods, ";"), w.q.Len(), strings.Join(d, ","),
		len(w.api.Pending["jobs"]), len(w.api.Pending["pods"]))
}

func jcCallsStr(calls []sim.Call) string {
	var out []string
	for _, c := range calls {
		_, name, _ := strings.Cut(c.Key, "/")
		s := fmt.Sprintf("%s:%s:%s:%s", c.Verb, c.Resource, name, c.Result)
		if c.Subresource != "" {
			s += ":status"
		}
		if c.Force {
			s += ":force"
		}
		out = append(out, s)
	}
	// pod deletes of one sync are issued concurrently: sort maximal runs of pod deletes
	i := 0
	for i < len(out) {
		j := i
		for j < len(out) && strings.HasPrefix(out[j], "delete:pods:") {
			j++
		}
		if j > i {
			sort.Strings(out[i:j])
			i = j
		} else {
			i++
		}
	}
	return strings.Join(out, ",")
}

func (w *jobctlWorld) work() {
	w.q.Advance()
	w.api.Calls = nil
	w.passFaulted = false
	res := "idle"
	if w.q.Len() > 0 {
		key := w.q.Ready()[0]
		w.checkEnvelope()
		w.cachedJob = nil
		if o, ok := w.ctx.Sim().Jobs().CacheGet(&execution.Job{ObjectMeta: metav1.ObjectMeta{Namespace: "ns", Name: "job"}}); ok {
			w.cachedJob = o.(*execution.Job).DeepCopy()
		}
		// the pod deletes of one sync are issued concurrently (ConcurrentTasks): all deletes of
		// one contiguous batch share one fault slot, so that the outcome does not depend on
		// goroutine scheduling
		inBatch, batchFault := false, ""
		pop := func() string {
			if len(w.faults) == 0 {
				return ""
			}
			f := w.faults[0]
			w.faults = w.faults[1:]
			if f != "" {
				w.passFaulted = true
			}
			return f
		}
		w.api.Fault = func(c sim.Call) string {
			if c.Verb == "delete" && c.Resource == "pods" {
				if !inBatch {
					inBatch, batchFault = true, pop()
				}
				return batchFault
			}
			inBatch = false
			return pop()
		}
		w.decidedAtSync = w.oracleDecided()
		w.checkNoStaleCopy()
		podEv0 := len(w.api.Pending["pods"])
		out := Guard(func() string { w.rc.VerifStep(context.Background()); return "" })
		w.decidedAtSync = ""
		w.api.SortDeleteRuns("pods", podEv0)
		w.api.Fault = nil
		res = "ok"
		if out == "panic" {
			res = "panic"
		} else if w.q.NumRequeues(key) > 0 {
			res = "err"
		}
	}
	if os.Getenv("JC_DEBUG") != "" && w.cachedJob != nil && res != "idle" {
		if o, ok := w.ctx.Sim().Jobs().CacheGet(&execution.Job{ObjectMeta: metav1.ObjectMeta{Namespace: "ns", Name: "job"}}); ok {
			a, _ := json.Marshal(w.cachedJob)
			b, _ := json.Marshal(o.(*execution.Job))
			if string(a) != string(b) {
				k := 0
				for k < len(a) && k < len(b) && a[k] == b[k] {
					k++
				}
				lo := k - 100
				if lo < 0 {
					lo = 0
				}
				fmt.Fprintf(os.Stderr, "DEBUG cache object mutated in place during sync @%d\n before=%s\n after =%s\n", k, a[lo:min(len(a), k+200)], b[lo:min(len(b), k+200)])
			}
		}
	}
	w.c.Emit("jc.work", fmt.Sprintf("%s calls=%s %s", res, jcCallsStr(w.api.Calls), w.state()))
	w.c.Count("jc.work." + res)
	w.afterPass()
	if w.ttlDeleteAt != 0 {
		// the finished condition is written after the delete call of the same sync
		if j := w.apiJob(); j != nil {
			ttl := jobutil.GetTTLAfterFinished(j, w.cfg)
			// The clause is judged on the finished condition the DELETING pass acted on (the form of the
			// Lean theorem C13.ttl_not_early).  That is the stored one when the pass submitted no status
			// afterwards; when it did — the delete makes that write conflict, so it never reaches the
			// server — it is the submitted one.  The two differ only when the pass recomputed the finish
			// time, e.g. by adopting an unrecorded task that was invisible (outside E-OrphanVisible) to
			// the pass that had finished the Job: judging the stored, superseded finish time there was a
			// false alarm of this monitor (the liveness of the tasks is judged at the delete instant).
			cf := j.Status.Condition.Finished
			if ps := w.ttlPassStatus; ps != nil && ps.Condition.Finished != nil &&
				(cf == nil || !cf.FinishTimestamp.Equal(&ps.Condition.Finished.FinishTimestamp)) {
				cf = ps.Condition.Finished
				w.c.Count("jc.observed.ttl-delete-pass-recomputed-finish-time")
			}
			if cf != nil && cf.FinishTimestamp.Add(ttl).UnixNano() > w.ttlDeleteAt {
				w.c.Violate("C13", "ttl-not-early", "Job deleted at %d before finish %d + ttl %v", w.ttlDeleteAt, cf.FinishTimestamp.UnixNano(), ttl)
			}
			// ... and the finish time itself is the moment the LAST task finished (ground truth: the
			// kubelet's termination times of the Job's pods still on the server), not an earlier one
			for _, p := range w.ownedPods() {
				if !w.ttlVisible {
					break // some task of the Job was invisible to the sync that deleted it (pod-cache lag)
				}
				if cf := j.Status.Condition.Finished; cf == nil || (cf.Result != execution.JobResultSuccess && cf.Result != execution.JobResultFailed) {
					break // an AdmissionError / Killed Job is finished by the decision, its tasks are stopped afterwards
				}
				for _, cs := range p.Status.ContainerStatuses {
					if t := cs.State.Terminated; t != nil && !t.FinishedAt.IsZero() && t.FinishedAt.Add(ttl).UnixNano() > w.ttlDeleteAt {
						w.c.Violate("C13", "ttl-not-early", "Job deleted at %d although its task %s finished at %d: finish + ttl %v not reached", w.ttlDeleteAt, p.Name, t.FinishedAt.UnixNano(), ttl)
					}
				}
			}
		}
		w.ttlDeleteAt = 0
	}
	w.ttlPassStatus = nil
	w.monitorJobVersion()
}

// afterPass: (a) E-DeleteRecorded — a pass that deleted a task of the Job leaves that task listed in
// the authoritative status (the status write that records it was applied).  Since the repair of F31
// (ExecutionControl.UpdateJobAndStatus: the status is written on top of the object Update returned)
// a pass leaves this envelope only when one of ITS calls FAILED — a fault was injected, or a write
// was refused because the cached Job was stale (a concurrent writer): the task can then go away
// before it is ever listed; such histories are counted (jc.envelope.task-deleted-but-not-recorded)
// and not judged.  A pass none of whose calls failed is always inside: the monitor
// created-stays-listed judges it at full strength (before the repair the status write of a pass that
// also changed the metadata conflicted with that pass's own Update, fault or no fault).
// (b) the API server removes a pod that no kubelet has acknowledged at once on a graceful delete
// (pod strategy CheckGracefulDelete: no node => grace period 0); SimAPI lets every pod linger,
// which is the conservative choice for the generated histories, so the prompt removal is an option
// of the world (`promptUnscheduled`) that is applied right after the pass: the controller does not
// look at a pod again in the pass that deleted it.
func (w *jobctlWorld) afterPass() {
	j := w.apiJob()
	listed := map[string]bool{}
	if j != nil {
		for _, r := range j.Status.Tasks {
			listed[r.Name] = true
		}
	}
	failed := w.passFaulted // a fault was injected into a call of this pass (also: applied, but reported as an error)
	for _, cl := range w.api.Calls {
		if cl.Result == "conflict" || cl.Result == "invalid" || cl.Result == "err" {
			failed = true // a call of this pass was refused
		}
	}
	for _, cl := range w.api.Calls {
		if cl.Verb != "delete" || cl.Resource != "pods" || cl.Result != "ok" {
			continue
		}
		_, name, _ := strings.Cut(cl.Key, "/")
		if j != nil && failed && w.ctlDeleted[name] && !listed[name] && !w.deletedUnlisted[name] {
			w.deletedUnlisted[name] = true
			w.c.Count("jc.envelope.task-deleted-but-not-recorded")
		}
	}
	if w.promptUnscheduled {
		for _, p := range w.ownedPods() {
			if p.DeletionTimestamp != nil && p.Status.Phase == "" && p.Status.StartTime == nil && p.Spec.NodeName == "" {
				w.api.Remove("pods", "ns/"+p.Name)
				w.c.Count("jc.api.unscheduled-pod-removed-at-once")
				w.c.Emit(fmt.Sprintf("jc.pod %s gone", p.Name), w.state())
			}
		}
	}
}

// oracleDecided: is the completion strategy already decided by what the sync that is about to
// run can see (the cached Job's task list, and for each listed task its Pod in the pod cache or,
// for an unfinished one, on the server — the controller confirms absences with a live GET)?
// Computed from pod phases by the property's own sentence (C08/C10), not by calling the code
// under test.  Returns a description when decided, "" otherwise.
func (w *jobctlWorld) oracleDecided() string {
	cj := w.cachedJob
	if cj == nil || cj.Spec.Template == nil || len(w.indexHashes) == 0 {
		return ""
	}
	type acc struct{ succ, fail, alive int }
	per := map[string]*acc{}
	for _, h := range w.indexHashes {
		per[h] = &acc{}
	}
	defHash, _ := parallel.HashIndex(parallel.GetDefaultIndex())
	for _, r := range cj.Status.Tasks {
		h := defHash
		if r.ParallelIndex != nil {
			h, _ = parallel.HashIndex(*r.ParallelIndex)
		}
		a := per[h]
		if a == nil {
			continue
		}
		// an object of that name that is not controlled by the Job is not the task: in the pod cache
		// it counts as a cache miss, on the server as "the task is gone"
		var pod *corev1.Pod
		if o, ok := w.ctx.Sim().Pods().CacheGet(&corev1.Pod{ObjectMeta: metav1.ObjectMeta{Namespace: "ns", Name: r.Name}}); ok && w.ownedBy(o.(*corev1.Pod)) {
			pod = o.(*corev1.Pod)
		} else if r.FinishTimestamp.IsZero() {
			pod = w.apiPod(r.Name)
		}
		if pod != nil && !w.ownedBy(pod) {
			pod = nil
		}
		switch {
		case pod != nil && pod.Status.Phase == corev1.PodSucceeded && !podOOM(pod):
			a.succ++
		case pod != nil && (pod.Status.Phase == corev1.PodFailed || pod.Status.Phase == corev1.PodSucceeded):
			a.fail++
		case pod != nil:
			a.alive++
		case !r.FinishTimestamp.IsZero() && r.Status.Result == execution.TaskSucceeded:
			a.succ++
		default: // recorded finished without success, or vanished
			a.fail++
		}
	}
	maxAttempts := int(cj.GetMaxAttempts())
	allSucc, anySucc, allExh, anyExh := true, false, true, false
	for _, a := range per {
		exhausted := a.succ == 0 && a.alive == 0 && a.fail >= maxAttempts
		allSucc = allSucc && a.succ > 0
		anySucc = anySucc || a.succ > 0
		allExh = allExh && exhausted
		anyExh = anyExh || exhausted
	}
	any := cj.Spec.Template.Parallelism != nil && cj.Spec.Template.Parallelism.CompletionStrategy == execution.AnySuccessful
	switch {
	case any && anySucc:
		return "AnySuccessful: an index has succeeded"
	case any && allExh:
		return "AnySuccessful: every index used all its attempts"
	case !any && allSucc:
		return "AllSuccessful: every index has succeeded"
	case !any && anyExh:
		return "AllSuccessful: an index used all its attempts without success"
	}
	return ""
}

// podReportsTermination: some container status of the pod carries a termination time (read off the
// object, not through the code under test).
func podReportsTermination(p *corev1.Pod) bool {
	for _, cs := range p.Status.ContainerStatuses {
		for _, t := range []*corev1.ContainerStateTerminated{cs.State.Terminated, cs.LastTerminationState.Terminated} {
			if t != nil && !t.FinishedAt.IsZero() && t.FinishedAt.Unix() != 0 {
				return true
			}
		}
	}
	return false
}

// podShowsStart: some container status of the pod shows, in its CURRENT state, when the container
// was started (read off the object, not through the code under test).
func podShowsStart(p *corev1.Pod) bool {
	for _, cs := range p.Status.ContainerStatuses {
		if r := cs.State.Running; r != nil && !r.StartedAt.IsZero() && r.StartedAt.Unix() != 0 {
			return true
		}
		if t := cs.State.Terminated; t != nil && !t.StartedAt.IsZero() && t.StartedAt.Unix() != 0 {
			return true
		}
	}
	return false
}

func podOOM(p *corev1.Pod) bool {
	for _, cs := range p.Status.ContainerStatuses {
		if cs.State.Terminated != nil && cs.State.Terminated.Reason == "OOMKilled" {
			return true
		}
	}
	return false
}

// deadlines lists the instants (ns) at which the controller is supposed to act, from the
// authoritative state: retry-delay expiry per finished task, pending timeout per pending pod,
// the kill timestamp, force-delete expiry per deleting pod, TTL expiry of the finished Job.
func (w *jobctlWorld) deadlines() []int64 {
	j := w.apiJob()
	if j == nil {
		return nil
	}
	var ds []int64
	delay := int64(j.GetRetryDelay())
	for _, r := range j.Status.Tasks {
		if !r.FinishTimestamp.IsZero() {
			ds = append(ds, r.FinishTimestamp.UnixNano()+delay)
		}
	}
	pend := int64(jobutil.GetPendingTimeout(j, w.cfg))
	force := int64(jobutil.GetForceDeleteTimeout(w.cfg))
	for _, p := range w.ownedPods() {
		if podAlive(p) && pend > 0 {
			ds = append(ds, p.CreationTimestamp.UnixNano()+pend)
		}
		if p.DeletionTimestamp != nil && force > 0 {
			ds = append(ds, p.DeletionTimestamp.UnixNano()+force)
		}
		if !podAlive(p) {
			for _, cs := range p.Status.ContainerStatuses {
				if cs.State.Terminated != nil {
					ds = append(ds, cs.State.Terminated.FinishedAt.UnixNano()+delay)
				}
			}
		}
	}
	if j.Spec.KillTimestamp != nil {
		ds = append(ds, j.Spec.KillTimestamp.UnixNano())
	}
	if cf := j.Status.Condition.Finished; cf != nil {
		ds = append(ds, cf.FinishTimestamp.UnixNano()+int64(jobutil.GetTTLAfterFinished(j, w.cfg)))
	}
	return ds
}

// snapCandidates: the instants a deferred re-sync of the controller can target (DetQueue snaps the
// deadline it recovers from the process clock to the nearest of them): deadlines(), plus what
// only the running sync knows.  It acts on the CACHED Job, which may be older than the
// authoritative one, and it may have computed the finish instant itself (not yet written): the
// latest finish of a task, the kill timestamp, or the present.  TTL expiry is finish + the
// EFFECTIVE TTL (job value, else the config default).  All instants are whole seconds, so extra
// candidates cannot capture a deadline that is not theirs.
func (w *jobctlWorld) snapCandidates() []int64 {
	ds := w.deadlines()
	ttl := int64(0)
	fins := []int64{w.now()}
	for _, j := range []*execution.Job{w.apiJob(), w.cachedJob} {
		if j == nil {
			continue
		}
		ttl = int64(jobutil.GetTTLAfterFinished(j, w.cfg)) // spec.ttlSecondsAfterFinished is immutable
		if j.Spec.KillTimestamp != nil {
			ds = append(ds, j.Spec.KillTimestamp.UnixNano())
			fins = append(fins, j.Spec.KillTimestamp.UnixNano())
		}
		if cf := j.Status.Condition.Finished; cf != nil {
			fins = append(fins, cf.FinishTimestamp.UnixNano())
		}
		for _, r := range j.Status.Tasks {
			if !r.FinishTimestamp.IsZero() {
				fins = append(fins, r.FinishTimestamp.UnixNano())
			}
		}
	}
	for _, p := range w.ownedPods() {
		for _, cs := range p.Status.ContainerStatuses {
			if cs.State.Terminated != nil {
				fins = append(fins, cs.State.Terminated.FinishedAt.UnixNano())
			}
		}
	}
	for _, f := range fins {
		ds = append(ds, f+ttl)
	}
	return ds
}

// jumpToDeadline advances the clock to one second before, exactly at, or one second after one
// of the pending deadlines (whichever lies in the future), so that syncs land on both sides of
// every time comparison.
func (w *jobctlWorld) jumpToDeadline() bool {
	now := w.now()
	var cand []int64
	for _, d := range w.deadlines() {
		for _, off := range []int64{-1e9, 0, 1e9} {
			if t := d + off; t > now && t-now < 100000e9 {
				cand = append(cand, t)
			}
		}
	}
	if len(cand) == 0 {
		return false
	}
	sort.Slice(cand, func(a, b int) bool { return cand[a] < cand[b] })
	// prefer the nearest deadlines: they are the ones other pending work interleaves with
	k := w.rng.Intn(len(cand))
	if w.rng.Intn(2) == 0 {
		k = w.rng.Intn(1 + len(cand)/3)
	}
	d := cand[k] - now
	w.clk.Step(time.Duration(d))
	w.c.Emit(fmt.Sprintf("jc.adv %d", d), w.state())
	w.c.Count("jc.jump-to-deadline")
	return true
}

// dueCreates estimates how many pod creates the next pass will issue (creation requests of the
// cached Job that are due now); used only to aim a fault at the status write after them.
func (w *jobctlWorld) dueCreates() int {
	o, ok := w.ctx.Sim().Jobs().CacheGet(&execution.Job{ObjectMeta: metav1.ObjectMeta{Namespace: "ns", Name: "job"}})
	if !ok {
		return 0
	}
	cj := o.(*execution.Job)
	if cj.Spec.Template == nil || cj.Status.StartTime.IsZero() || cj.DeletionTimestamp != nil || cj.Spec.KillTimestamp != nil {
		return 0
	}
	n := 0
	func() {
		defer func() { _ = recover() }()
		reqs, _ := parallel.ComputeMissingIndexesForCreation(cj, parallel.GenerateIndexes(cj.Spec.Template.Parallelism))
		for _, rq := range reqs {
			if rq.Earliest.IsZero() || !rq.Earliest.After(w.clk.Now()) {
				n++
			}
		}
	}()
	return n
}

// checkNoStaleCopy evaluates the envelope E-NoStaleCopyOnCreate of the history theorems
// (Proofs/JobCtlInvStabInv.lean `noStaleCopyOnCreate`) at the START of a pass, in the same form as
// the Lean hypothesis: for every creation request that ComputeMissingIndexesForCreation yields for
// the CACHED Job (started, not deleted, able to create tasks), the task name is either on the
// server, or in none of {authoritative status.tasks, the pod cache, undelivered pod events}.
// (The function under test is called here only to enumerate the names a pass may ask for — it
// tags histories, it does not judge them.)
func (w *jobctlWorld) checkNoStaleCopy() {
	cj := w.cachedJob
	if cj == nil || w.c.curScenario != "" || cj.Spec.Template == nil || cj.Status.StartTime.IsZero() || cj.DeletionTimestamp != nil || cj.Spec.KillTimestamp != nil {
		return
	}
	if _, adm := jobutil.GetAdmissionErrorMessage(cj); adm {
		return
	}
	aj := w.apiJob()
	if aj == nil {
		return
	}
	var reqs []parallel.IndexCreationRequest
	func() {
		defer func() { _ = recover() }()
		reqs, _ = parallel.ComputeMissingIndexesForCreation(cj, parallel.GenerateIndexes(cj.Spec.Template.Parallelism))
	}()
	for _, rq := range reqs {
		h, err := parallel.HashIndex(rq.ParallelIndex)
		if err != nil {
			continue
		}
		name := fmt.Sprintf("%s-%s-%d", cj.Name, h, rq.RetryIndex)
		if w.apiPod(name) != nil {
			continue
		}
		stale := false
		for _, r := range aj.Status.Tasks {
			if r.Name == name {
				stale = true
			}
		}
		if _, cached := w.ctx.Sim().Pods().CacheGet(&corev1.Pod{ObjectMeta: metav1.ObjectMeta{Namespace: "ns", Name: name}}); cached {
			stale = true
		}
		for _, ev := range w.api.Pending["pods"] {
			if m, err := meta.Accessor(ev.Obj); err == nil && m.GetName() == name {
				stale = true
			}
		}
		if stale {
			if !w.staleRecreate {
				w.c.Count("jc.envelope.stale-copy-at-pass-start")
			}
			w.envelopeBroken, w.staleRecreate = true, true
		}
	}
}

// checkEnvelope evaluates E-OrphanVisible for the sync that is about to run: when the cached
// Job can no longer create tasks (kill timestamp or admission error set) or is being deleted,
// every pod owned by the Job on the server that is not listed in the cached status must be in
// the pod cache (unrecorded tasks are adopted from the cache — by the kill sweep since fix
// 5671da6, by the finalizer since the repair of F-C20-1). Absence of status-listed pods from the
// cache is harmless since the controller confirms it with a live GET.
func (w *jobctlWorld) checkEnvelope() {
	o, ok := w.ctx.Sim().Jobs().CacheGet(&execution.Job{ObjectMeta: metav1.ObjectMeta{Namespace: "ns", Name: "job"}})
	if !ok {
		return
	}
	cj := o.(*execution.Job)
	listed := map[string]bool{}
	for _, r := range cj.Status.Tasks {
		listed[r.Name] = true
	}
	// E-NoUnrecordedWhenFinished (Proofs/JobCtlInvStabInv.lean `noUnrecordedWhenFinished`, envelope of
	// the stability theorems since the repair of F23): when the cached Job is recorded Finished the
	// pod cache holds no unrecorded task of the Job.  A complete summary adopts such a task, so a
	// Job written Finished while an unrecorded task was still invisible (status-write fault AND pod
	// cache lag AND completion through other tasks) is un-finished when the pod reaches the cache.
	if cj.Status.Condition.Finished != nil && cj.DeletionTimestamp == nil {
		for _, p := range w.ownedPods() {
			if listed[p.Name] {
				continue
			}
			if _, cached := w.ctx.Sim().Pods().CacheGet(&corev1.Pod{ObjectMeta: metav1.ObjectMeta{Namespace: "ns", Name: p.Name}}); cached {
				if !w.envelopeBroken {
					w.c.Count("jc.envelope.unrecorded-when-finished")
				}
				w.envelopeBroken = !w.keepMonitors
			}
		}
	}
	_, adm := jobutil.GetAdmissionErrorMessage(cj)
	if cj.Spec.KillTimestamp == nil && !adm && cj.DeletionTimestamp == nil {
		return
	}
	for _, p := range w.ownedPods() {
		if listed[p.Name] {
			continue
		}
		if _, cached := w.ctx.Sim().Pods().CacheGet(&corev1.Pod{ObjectMeta: metav1.ObjectMeta{Namespace: "ns", Name: p.Name}}); !cached {
			if !w.envelopeBroken {
				w.c.Count("jc.envelope.orphan-invisible")
			}
			w.envelopeBroken = !w.keepMonitors
		}
	}
}

func hasFinalizer(j *execution.Job) bool {
	for _, f := range j.Finalizers {
		if f == executiongroup.DeleteDependentsFinalizer {
			return true
		}
	}
	return false
}

func podAlive(p *corev1.Pod) bool {
	return p.Status.Phase != corev1.PodSucceeded && p.Status.Phase != corev1.PodFailed
}

// ownedBy: the pod's controller owner reference is a Job with this Job's uid.
func (w *jobctlWorld) ownedBy(p *corev1.Pod) bool {
	ref := metav1.GetControllerOf(p)
	return ref != nil && ref.Kind == execution.KindJob && string(ref.UID) == w.uid
}

func (w *jobctlWorld) ownedPods() []*corev1.Pod {
	var out []*corev1.Pod
	for _, k := range w.api.Keys("pods") {
		p := w.api.Get("pods", k).(*corev1.Pod)
		if ref := metav1.GetControllerOf(p); ref != nil && string(ref.UID) == w.uid {
			out = append(out, p)
		}
	}
	return out
}

// monitorCall judges one controller call at the instant it is applied.
func (w *jobctlWorld) monitorCall(c sim.Call) {
	j := w.apiJob()
	if os.Getenv("JC_DEBUG") != "" && c.Verb == "update" && c.Resource == "jobs" && c.Subresource == "status" && j != nil && w.cachedJob != nil {
		j := w.cachedJob
		a, _ := json.Marshal(j.Status)
		b, _ := json.Marshal(c.Obj.(*execution.Job).Status)
		if jobDigest(j) == jobDigest(func() *execution.Job { x := j.DeepCopy(); x.Status = c.Obj.(*execution.Job).Status; return x }()) {
			eq, _ := jobcontroller.IsJobStatusEqual(j, c.Obj.(*execution.Job))
			k := 0
			for k < len(a) && k < len(b) && a[k] == b[k] {
				k++
			}
			lo := k - 80
			if lo < 0 {
				lo = 0
			}
			fmt.Fprintf(os.Stderr, "DEBUG status update with equal digest: IsJobStatusEqual=%v firstdiff@%d\n old=%s\n new=%s\n", eq, k, a[lo:min(len(a), k+120)], b[lo:min(len(b), k+120)])
		}
	}
	_, name, _ := strings.Cut(c.Key, "/")
	switch {
	case c.Verb == "create" && c.Resource == "pods" && (c.Result == "ok" || c.Result == "exists"):
		if c.Result == "ok" {
			w.c.Count("jc.pod-create-ok")
			w.podsCreated[name] = w.now()
			// a new incarnation of the name: the kubelet ground truth of an earlier one is not its own
			delete(w.trueFinish, name)
			delete(w.finishUnreported, name)
			delete(w.everRan, name)
			delete(w.ctlDeleted, name)
			delete(w.deletedUnlisted, name)
			delete(w.forceDeleted, name)
		} else {
			w.c.Count("jc.pod-create-exists")
		}
		pod := c.Obj.(*corev1.Pod)
		hash := pod.Labels[podtaskexecutor.LabelKeyTaskParallelIndexHash]
		retry, _ := strconv.Atoi(pod.Labels[podtaskexecutor.LabelKeyTaskRetryIndex])
		if j == nil || w.cachedJob == nil {
			return
		}
		if c.Result != "ok" {
			// the create was answered AlreadyExists.  C09: an object that occupies a task's name without
			// belonging to the Job "makes the Job end in AdmissionError instead of retrying forever": once
			// the Job the sync read IS finished with AdmissionError, the create is not attempted again
			if cf := w.cachedJob.Status.Condition.Finished; cf != nil && cf.Result == execution.JobResultAdmissionError && w.cachedJob.DeletionTimestamp == nil {
				w.c.Violate("C09", "foreign-ends-admission-error", "the create of pod %s was attempted again (answered AlreadyExists) although the Job the sync read had already ended in AdmissionError: the admission error does not stop the retries", name)
			}
			return
		}
		// E-NoStaleCopyOnCreate (known finding F19): a sync acting on a STALE Job (its own earlier
		// status update not yet in the Job cache) re-creates a task name that the authoritative
		// status already records, after the first Pod vanished.  Generated histories that walk into
		// this are tagged out of envelope; the fixed replay f19 keeps the monitors on.
		if w.c.curScenario == "" {
			recorded := func(jj *execution.Job) bool {
				for _, r := range jj.Status.Tasks {
					if r.Name == name {
						return true
					}
				}
				return false
			}
			// (the "old copy still in the pod informer" half of the envelope is evaluated at pass
			// start by checkNoStaleCopy, in the form of the Lean hypothesis)
			if recorded(j) && !recorded(w.cachedJob) {
				if !w.envelopeBroken {
					w.c.Count("jc.envelope.stale-job-recreates-task")
				}
				w.envelopeBroken = true
				w.staleRecreate = true
				return
			}
		}
		// (the oracle looks at the pods a task NAME denotes now; once a name has had two incarnations —
		// E-NoStaleCopyOnCreate left, known finding F19 — the outcome the controller recorded may be the
		// previous incarnation's: tagged histories are judged only by the replays of F19)
		if w.decidedAtSync != "" && !w.staleRecreate {
			w.c.Violate("C08", "no-create-once-complete", "pod %s created although the Job was already complete for this sync (%s)", name, w.decidedAtSync)
		}
		// no create when stopped: judged on the Job version the sync read (informer lag is
		// not a defect), everything else on the authoritative state
		j = w.cachedJob
		if j.Spec.KillTimestamp != nil {
			w.c.Violate("C12", "no-create-after-kill-set", "pod %s created although killTimestamp is set", name)
		}
		if _, adm := jobutil.GetAdmissionErrorMessage(j); adm {
			w.c.Violate("C08", "no-create-when-stopped", "pod %s created although the Job has an admission error", name)
		}
		if j.DeletionTimestamp != nil {
			w.c.Violate("C08", "no-create-when-stopped", "pod %s created although the Job is being deleted", name)
		}
		if j.Status.StartTime.IsZero() {
			w.c.Violate("C08", "no-create-when-stopped", "pod %s created although the Job is not started", name)
		}
		if cf := j.Status.Condition.Finished; cf != nil {
			w.c.Violate("C08", "no-create-when-stopped", "pod %s created although the Job is finished", name)
		}
		j = w.apiJob()
		if w.envelopeBroken {
			return
		}
		// siblings of the same index on the server
		maxAttempts := j.GetMaxAttempts()
		var sib []*corev1.Pod
		for _, p := range w.ownedPods() {
			if p.Labels[podtaskexecutor.LabelKeyTaskParallelIndexHash] == hash && p.Name != name {
				sib = append(sib, p)
			}
		}
		for _, p := range sib {
			if podAlive(p) {
				w.c.Violate("C08", "one-live-per-index", "pod %s created while sibling %s of the same index is alive (phase %s)", name, p.Name, p.Status.Phase)
			}
			if p.Status.Phase == corev1.PodSucceeded {
				oom := false
				for _, cs := range p.Status.ContainerStatuses {
					if cs.State.Terminated != nil && cs.State.Terminated.Reason == "OOMKilled" {
						oom = true
					}
				}
				if !oom {
					w.c.Violate("C08", "no-create-for-succeeded-index", "pod %s created although %s of the same index succeeded", name, p.Name)
				}
			}
		}
		if int64(retry) >= maxAttempts {
			w.c.Violate("C08", "bounded-retries", "pod %s has retry index %d with maxAttempts %d", name, retry, maxAttempts)
		}
		// contiguity: all lower retry indexes of this index are recorded in the Job's status
		have := map[int64]execution.TaskRef{}
		for _, r := range j.Status.Tasks {
			h := ""
			if r.ParallelIndex != nil {
				h, _ = parallel.HashIndex(*r.ParallelIndex)
			} else {
				h, _ = parallel.HashIndex(parallel.GetDefaultIndex())
			}
			if h == hash {
				have[r.RetryIndex] = r
			}
		}
		var latestFinish int64
		for k := 0; k < retry; k++ {
			r, ok := have[int64(k)]
			if !ok {
				w.c.Violate("C08", "retries-contiguous", "pod %s (retry %d) created but retry %d of the index is not recorded", name, retry, k)
				continue
			}
			if r.FinishTimestamp.IsZero() {
				w.c.Violate("C08", "one-live-per-index", "pod %s (retry %d) created but retry %d is not recorded finished", name, retry, k)
			} else if r.FinishTimestamp.UnixNano() > latestFinish {
				latestFinish = r.FinishTimestamp.UnixNano()
			}
		}
		if retry > 0 && latestFinish > 0 {
			if delay := j.GetRetryDelay(); w.now() < latestFinish+int64(delay) {
				w.c.Violate("C08", "retry-delay-respected", "pod %s created at %d, before previous finish %d + delay %v", name, w.now(), latestFinish, delay)
			}
		}
		// ... and the same clause on GROUND TRUTH: the instant at which the simulated kubelet really
		// ended each earlier attempt of the index (the recorded finish time above is what the
		// controller recorded).  Judged at full strength on every history since the repair of F30:
		// a pod whose status carries no container termination time (eviction, node lost: no
		// container status) is recorded with the clock of the pass that first saw it finished,
		// which is not before the true end (the former envelope E-FinishTimeReported is gone; such
		// attempts are counted as `jc.retry-judged-on-unreported-finish-time`).
		if delay := int64(j.GetRetryDelay()); retry > 0 {
			for k := 0; k < retry; k++ {
				prev := fmt.Sprintf("%s-%s-%d", j.Name, hash, k)
				tf, ok := w.trueFinish[prev]
				if !ok {
					continue
				}
				if w.finishUnreported[prev] {
					w.c.Count("jc.retry-judged-on-unreported-finish-time")
				}
				if w.now() >= tf+delay {
					continue
				}
				w.c.Violate("C08", "retry-delay-true-finish", "pod %s created at %d s although the previous attempt %s really finished at %d s (kubelet ground truth) and the retry delay is %d s; the finish time recorded for it is %s",
					name, w.now()/1e9, prev, tf/1e9, delay/1e9, tsec(have[int64(k)].FinishTimestamp))
			}
		}
	case c.Verb == "delete" && c.Resource == "pods" && c.Result == "ok":
		w.c.Count("jc.pod-delete")
		if pod := w.apiPod(name); pod != nil && w.ownedBy(pod) {
			w.ctlDeleted[name] = true
		}
		if c.Force {
			w.c.Count("jc.pod-force-delete")
			w.forceDeleted[name] = true
		}
		w.monitorPodDelete(name, c.Force)
	case c.Verb == "update" && c.Resource == "jobs" && c.Subresource == "status" && c.Result != "ok":
		// a status write behind the TTL delete of the same pass: what the pass computed and acted on
		if sj, ok := c.Obj.(*execution.Job); ok && w.ttlDeleteAt != 0 {
			w.ttlPassStatus = sj.Status.DeepCopy()
		}
	case c.Verb == "update" && c.Resource == "jobs" && c.Subresource == "status" && c.Result == "ok":
		if sj, ok := c.Obj.(*execution.Job); ok {
			w.monitorPendingMarkers(sj)
			if w.ttlDeleteAt != 0 {
				w.ttlPassStatus = sj.Status.DeepCopy()
			}
		}
	case c.Verb == "delete" && c.Resource == "jobs" && c.Result == "ok":
		w.c.Count("jc.job-ttl-delete")
		w.ttlDeleteAt = w.now()
		// judged when every live task of the Job is visible to this sync (in the pod cache): an
		// earlier moment of pod-cache lag does not excuse deleting the Job over a task the
		// controller can see now
		visible := true
		for _, p := range w.ownedPods() {
			if _, cached := w.ctx.Sim().Pods().CacheGet(&corev1.Pod{ObjectMeta: metav1.ObjectMeta{Namespace: "ns", Name: p.Name}}); !cached {
				visible = false
			}
		}
		w.ttlVisible = visible && !w.staleRecreate
		if visible && !w.staleRecreate {
			for _, p := range w.ownedPods() {
				if podAlive(p) && p.DeletionTimestamp == nil {
					w.c.Violate("C13", "ttl-not-early", "Job deleted by the controller (TTL) while its task %s is alive", p.Name)
				}
			}
		}
	}
}

// monitorPodDelete (C12): every pod delete the controller issues must be justified, at the instant
// it is applied, by one of the reasons the property allows — and by none of them earlier than its
// deadline.  Reasons are evaluated on the Job version the sync read and on the Pod as the sync
// could see it (pod cache, else server); deadlines by the property's own sentence.
func (w *jobctlWorld) monitorPodDelete(name string, force bool) {
	cj := w.cachedJob
	pod := w.apiPod(name) // the observer runs before the delete is applied
	if pod != nil && !w.ownedBy(pod) {
		// C09: an object that is not controlled by the Job is never deleted by it.  The delete is
		// issued by NAME (no uid precondition): when the pod cache still serves the Job's own,
		// vanished pod of that name, the sync could not know (pod-cache lag: observed, not claimed).
		if o, ok := w.ctx.Sim().Pods().CacheGet(&corev1.Pod{ObjectMeta: metav1.ObjectMeta{Namespace: "ns", Name: name}}); ok && w.ownedBy(o.(*corev1.Pod)) {
			w.c.Count("jc.observed.foreign-deleted-through-stale-pod-cache")
			return
		}
		w.c.Violate("C09", "foreign-not-touched", "the controller deleted pod %s (force=%v), which is not controlled by the Job", name, force)
		return
	}
	if cj == nil || pod == nil || cj.Spec.Template == nil {
		return
	}
	seen := pod
	if o, ok := w.ctx.Sim().Pods().CacheGet(&corev1.Pod{ObjectMeta: metav1.ObjectMeta{Namespace: "ns", Name: name}}); ok {
		seen = o.(*corev1.Pod)
	}
	now := w.clk.Now()
	if force {
		f := time.Duration(0)
		if w.cfg != nil && w.cfg.ForceDeleteTaskTimeoutSeconds != nil {
			f = time.Duration(*w.cfg.ForceDeleteTaskTimeoutSeconds) * time.Second
		}
		switch {
		case cj.Spec.Template.ForbidTaskForceDeletion:
			w.c.Violate("C12", "force-delete-gated", "task %s force-deleted although the Job forbids force deletion", name)
		case f <= 0:
			w.c.Violate("C12", "force-delete-gated", "task %s force-deleted although force deletion is disabled (timeout %v)", name, f)
		default:
			// the controller reads the cached Pod, or the live one when the cache is behind what it recorded
			dts := seen.DeletionTimestamp
			if dts == nil {
				dts = pod.DeletionTimestamp
			}
			if dts == nil {
				w.c.Violate("C12", "force-delete-gated", "task %s force-deleted without a prior graceful deletion", name)
			} else if dts.Add(f).After(now) {
				w.c.Violate("C12", "force-delete-gated", "task %s force-deleted at %d, before deletion %d + %v", name, now.Unix(), dts.Unix(), f)
			}
		}
		return
	}
	_, adm := jobutil.GetAdmissionErrorMessage(cj)
	killDue := cj.Spec.KillTimestamp != nil && !cj.Spec.KillTimestamp.Time.After(now)
	if !(killDue || adm || cj.DeletionTimestamp != nil || w.decidedAtSync != "") {
		// pending timeout, or a reason that arose inside this sync (admission error on another
		// index, completion decided by a task adopted in this pass): the pending-timeout clause
		// is judged exactly, on the marker the controller records (monitorPendingMarkers)
		w.c.Count("jc.pod-delete.reason-inside-sync-or-pending")
	}
}

// monitorPendingMarkers (C12): a task the controller records as reaped for exceeding the pending
// timeout must really have been pending for the whole timeout (job value if >= 0, else controller
// default; 0 disables), as far as the sync could see it.
func (w *jobctlWorld) monitorPendingMarkers(submitted *execution.Job) {
	cj := w.cachedJob
	if cj == nil || cj.Spec.Template == nil {
		return
	}
	had := map[string]bool{}
	for _, r := range cj.Status.Tasks {
		if r.DeletedStatus != nil && r.DeletedStatus.Reason == "PendingTimeout" {
			had[r.Name] = true
		}
	}
	var t *int64
	if v := cj.Spec.Template.TaskPendingTimeoutSeconds; v != nil && *v >= 0 {
		t = v
	} else if w.cfg != nil {
		t = w.cfg.DefaultPendingTimeoutSeconds
	}
	now := w.clk.Now()
	for _, r := range submitted.Status.Tasks {
		if r.DeletedStatus == nil || r.DeletedStatus.Reason != "PendingTimeout" || had[r.Name] {
			continue
		}
		w.c.Count("jc.pending-timeout-reaped")
		if t == nil || *t <= 0 {
			w.c.Violate("C12", "pending-not-early", "task %s reaped for pending timeout although the timeout is disabled", r.Name)
			continue
		}
		if dl := r.CreationTimestamp.Add(time.Duration(*t) * time.Second); dl.After(now) {
			w.c.Violate("C12", "pending-not-early", "task %s reaped for pending timeout at %d, created %d, timeout %ds: deadline %d not reached",
				r.Name, now.Unix(), r.CreationTimestamp.Unix(), *t, dl.Unix())
		}
		// "a task that has not begun running" (full strength since the repair of F32:
		// handlePendingTasks judges a task by the ref recorded in status.tasks, and
		// GetContainerStartTime also reads LastTerminationState).  Two clauses:
		// (a) ground truth: the simulated kubelet started a container of this task, the task's pod
		// is alive on the server and its current state shows no container start (the container is
		// waiting to be restarted: restartPolicy OnFailure, CrashLoopBackOff) — the reaping is the
		// controller's own doing;
		// (b) the record: the very status the pass submits records a running timestamp for the task
		// it marks PendingTimeout (Lean: C12Plan.recorded_running_not_reaped,
		// C12Hist.pending_only_never_ran) — before the repair this happened whenever the pod cache
		// served an older, still pending copy after a live read had recorded the start, and was only
		// counted.
		// What remains observed, not claimed (outside E-PodCacheFresh): the kubelet started the
		// container, nothing is recorded yet and the pod cache serves a copy from before the start.
		ran, didRun := w.everRan[r.Name]
		live := w.apiPod(r.Name)
		switch {
		case didRun && live != nil && w.ownedBy(live) && podAlive(live) && !podShowsStart(live):
			w.c.Violate("C12", "pending-only-never-ran", "task %s reaped for PENDING timeout at %d s although it had begun running: the kubelet started its container at %d s (recorded runningTimestamp %s); its container is now waiting to be restarted, so the pod no longer shows a start time",
				r.Name, now.Unix(), ran/1e9, tsec(r.RunningTimestamp))
		case !r.RunningTimestamp.IsZero():
			w.c.Violate("C12", "pending-only-never-ran", "task %s reaped for PENDING timeout at %d s although the status the pass submits records that it began running at %s",
				r.Name, now.Unix(), tsec(r.RunningTimestamp))
		case didRun:
			w.c.Count("jc.observed.reaped-before-start-was-seen(stale pod cache)")
		}
	}
}

// monitorJobVersion compares successive authoritative versions of the Job (C11) and checks
// coherence and the finished-implies-no-live-task clauses (C10, C13).
func (w *jobctlWorld) monitorJobVersion() {
	j := w.apiJob()
	if j == nil {
		if w.prevJob != nil && hasFinalizer(w.prevJob) {
			// C13: the Job disappeared: every pod listed in its last status must be gone
			for _, r := range w.prevJob.Status.Tasks {
				if p := w.apiPod(r.Name); p != nil {
					if ref := metav1.GetControllerOf(p); ref != nil && string(ref.UID) == w.uid && !w.envelopeBroken {
						w.c.Violate("C13", "job-gone-implies-tasks-gone", "Job removed while its task %s still exists", r.Name)
					}
				}
			}
			// … and so must every task it created but never recorded (the finalizer adopts them from
			// the pod cache: inside E-OrphanVisible none is left behind)
			listed := map[string]bool{}
			for _, r := range w.prevJob.Status.Tasks {
				listed[r.Name] = true
			}
			for _, p := range w.ownedPods() {
				if !listed[p.Name] && !w.envelopeBroken {
					w.c.Violate("C13", "job-gone-implies-tasks-gone", "Job removed while its task %s (created, never recorded) still exists", p.Name)
				}
			}
		}
		w.prevJob = nil
		return
	}
	j = j.DeepCopy()
	defer func() { w.prevJob = j }()
	// coherence (C11) on every version written by the controller
	c := j.Status.Condition
	n := 0
	for _, b := range []bool{c.Queueing != nil, c.Waiting != nil, c.Running != nil, c.Finished != nil} {
		if b {
			n++
		}
	}
	written := j.Status.State != "" || n > 0
	if written {
		if n != 1 {
			w.c.Violate("C11", "exactly-one-condition", "%d conditions set", n)
		}
		want := map[bool]execution.JobState{}
		_ = want
		var st execution.JobState
		switch {
		case c.Queueing != nil:
			st = execution.JobStateQueued
		case c.Waiting != nil:
			st = execution.JobStateWaiting
		case c.Running != nil:
			st = execution.JobStateRunning
		case c.Finished != nil:
			st = execution.JobStateFinished
		}
		if n == 1 && j.Status.State != st {
			w.c.Violate("C11", "state-matches-condition", "state %q but condition implies %q", j.Status.State, st)
		}
		if j.Status.Phase.IsTerminal() != (c.Finished != nil) {
			w.c.Violate("C11", "phase-terminal-iff-finished", "phase %s, finished condition set=%v", j.Status.Phase, c.Finished != nil)
		}
		if j.Status.CreatedTasks != int64(len(j.Status.Tasks)) {
			w.c.Violate("C11", "counters-match-tasks", "createdTasks %d, %d task refs", j.Status.CreatedTasks, len(j.Status.Tasks))
		}
		var running int64
		for _, r := range j.Status.Tasks {
			if !r.RunningTimestamp.IsZero() && r.FinishTimestamp.IsZero() {
				running++
			}
		}
		if j.Status.RunningTasks != running {
			w.c.Violate("C11", "counters-match-tasks", "runningTasks %d, task list shows %d", j.Status.RunningTasks, running)
		}
	}
	// C10: a non-deleted Job is reported finished only when none of its tasks is alive
	if c.Finished != nil && j.DeletionTimestamp == nil && !w.envelopeBroken && (w.prevJob == nil || w.prevJob.Status.Condition.Finished == nil) {
		if c.Finished.Result != execution.JobResultAdmissionError {
			for _, p := range w.ownedPods() {
				if podAlive(p) && p.DeletionTimestamp == nil {
					w.c.Violate("C10", "finished-no-live-task", "Job reported %s while its task %s is alive (phase %s)", c.Finished.Result, p.Name, p.Status.Phase)
				}
			}
		}
		w.monitorResult(j)
	}
	p := w.prevJob
	if p == nil || w.userEdited {
		w.userEdited = false
		return
	}
	// monotonicity (C11)
	if !p.Status.StartTime.IsZero() && !p.Status.StartTime.Equal(j.Status.StartTime) {
		w.c.Violate("C11", "startTime-stable", "startTime changed from %v to %v", p.Status.StartTime, j.Status.StartTime)
	}
	// (outside E-OrphanVisible a Job that was finished as Killed / AdmissionError while created-but-
	// unrecorded tasks were still invisible to the pod cache is re-opened when they are adopted)
	if pf := p.Status.Condition.Finished; pf != nil && j.DeletionTimestamp == nil && p.DeletionTimestamp == nil && !w.resultEdited && !w.staleRecreate && !w.envelopeBroken {
		cf := j.Status.Condition.Finished
		if cf == nil {
			w.c.Violate("C11", "finished-stays-finished", "finished Job became unfinished")
		} else if cf.Result != pf.Result || !cf.FinishTimestamp.Equal(&pf.FinishTimestamp) {
			w.c.Violate("C11", "result-stable", "result/finish changed from %s@%d to %s@%d", pf.Result, pf.FinishTimestamp.Unix(), cf.Result, cf.FinishTimestamp.Unix())
		}
	}
	if j.Status.CreatedTasks < p.Status.CreatedTasks {
		w.c.Violate("C11", "created-nondecreasing", "createdTasks went from %d to %d", p.Status.CreatedTasks, j.Status.CreatedTasks)
	}
	prev := map[string]execution.TaskRef{}
	for _, r := range p.Status.Tasks {
		prev[r.Name] = r
	}
	cur := map[string]execution.TaskRef{}
	for _, r := range j.Status.Tasks {
		cur[r.Name] = r
	}
	for name, pr := range prev {
		cr, ok := cur[name]
		if !ok {
			w.c.Violate("C09", "refs-monotone", "task %s disappeared from status.tasks", name)
			continue
		}
		if !pr.RunningTimestamp.IsZero() && cr.RunningTimestamp.IsZero() {
			w.c.Violate("C11", "timestamps-never-cleared", "running timestamp of %s was cleared", name)
		}
		if !pr.FinishTimestamp.IsZero() && cr.FinishTimestamp.IsZero() {
			w.c.Violate("C11", "timestamps-never-cleared", "finish timestamp of %s was cleared", name)
		}
		// C10/C11: the outcome recorded for a finished task is what the Job's result rests on; once a
		// task is recorded succeeded it is never turned into a failure or a kill (nor the reverse)
		if !pr.FinishTimestamp.IsZero() && (pr.Status.State == execution.TaskTerminated || pr.Status.State == execution.TaskDeletedFinalStateUnknown) &&
			!cr.FinishTimestamp.IsZero() && cr.Status.Result != pr.Status.Result && !w.staleRecreate {
			w.c.Violate("C10", "task-outcome-stable", "task %s was recorded finished as %s/%s and is now %s/%s", name, pr.Status.State, pr.Status.Result, cr.Status.State, cr.Status.Result)
		}
	}
	// C09: the admission error is reserved for a task name occupied by an object that does not
	// belong to the Job; the Job's own (created-but-unrecorded) task must be adopted instead
	if _, was := jobutil.GetAdmissionErrorMessage(p); !was {
		if _, is := jobutil.GetAdmissionErrorMessage(j); is && len(w.foreign) == 0 {
			w.c.Violate("C09", "own-task-not-refused", "Job marked with an admission error although no foreign object ever occupied one of its task names")
		}
	}
	// C09: the status never takes a task's outcome from a foreign object that took the task's
	// name: a recorded task can only be reported Succeeded if the Job's OWN pod succeeded
	for name := range w.foreignRec {
		if cr, ok := cur[name]; ok && cr.Status.Result == execution.TaskSucceeded && !w.ownSucceeded[name] && !w.staleRecreate {
			w.c.Violate("C09", "foreign-not-adopted", "task %s is recorded %s/%s although the Job's own pod never succeeded: the outcome was read from the foreign pod that took its name", name, cr.Status.State, cr.Status.Result)
		}
	}
	// C09: a task whose object still exists (and is not terminal) is never recorded lost/finished
	{
		for name, cr := range cur {
			if cr.FinishTimestamp.IsZero() {
				continue
			}
			if pr, ok := prev[name]; ok && !pr.FinishTimestamp.IsZero() {
				continue
			}
			if pod := w.apiPod(name); pod != nil && podAlive(pod) && !w.staleRecreate {
				if ref := metav1.GetControllerOf(pod); ref != nil && string(ref.UID) == w.uid {
					w.c.Violate("C09", "never-lost-while-existing", "task %s recorded finished (%s) while its pod exists in phase %s", name, cr.Status.State, pod.Status.Phase)
				}
			}
		}
	}
}

// monitorResult checks C10's soundness clauses against the kubelet's ground truth.
func (w *jobctlWorld) monitorResult(j *execution.Job) {
	res := j.Status.Condition.Finished.Result
	if res != execution.JobResultSuccess && res != execution.JobResultFailed {
		return
	}
	strategy := execution.AllSuccessful
	if p := j.Spec.Template.Parallelism; p != nil {
		strategy = p.GetCompletionStrategy()
	}
	// truth per index from status refs whose pods really succeeded
	succ := map[string]bool{}
	finished := map[string]int64{}
	for _, r := range j.Status.Tasks {
		h, _ := parallel.HashIndex(parallel.GetDefaultIndex())
		if r.ParallelIndex != nil {
			h, _ = parallel.HashIndex(*r.ParallelIndex)
		}
		if r.Status.Result == execution.TaskSucceeded {
			succ[h] = true
		}
		if !r.FinishTimestamp.IsZero() {
			finished[h]++
		}
	}
	nSucc, nExhausted := 0, 0
	for _, h := range w.indexHashes {
		if succ[h] {
			nSucc++
		} else if finished[h] >= j.GetMaxAttempts() {
			nExhausted++
		}
	}
	n := len(w.indexHashes)
	switch {
	case res == execution.JobResultSuccess && strategy == execution.AllSuccessful && nSucc < n:
		w.c.Violate("C10", "succeeded-sound", "Job Success (AllSuccessful) but only %d/%d indexes have a succeeded task", nSucc, n)
	case res == execution.JobResultSuccess && strategy == execution.AnySuccessful && nSucc == 0:
		w.c.Violate("C10", "succeeded-sound", "Job Success (AnySuccessful) but no index has a succeeded task")
	case res == execution.JobResultFailed && strategy == execution.AllSuccessful && nExhausted == 0:
		w.c.Violate("C10", "failed-sound", "Job Failed (AllSuccessful) but no index used all its attempts without success")
	case res == execution.JobResultFailed && strategy == execution.AnySuccessful && nExhausted < n:
		w.c.Violate("C10", "failed-sound", "Job Failed (AnySuccessful) but only %d/%d indexes are exhausted", nExhausted, n)
	}
}

func init() {
	if os.Getenv("JC_DEBUG") != "" {
		sim.DebugNormalize = func(in, out runtime.Object) {
			a, _ := json.Marshal(in)
			b, _ := json.Marshal(out)
			if string(a) != string(b) {
				k := 0
				for k < len(a) && k < len(b) && a[k] == b[k] {
					k++
				}
				lo := k - 100
				if lo < 0 {
					lo = 0
				}
				fmt.Fprintf(os.Stderr, "DEBUG normalize changes bytes @%d\n in =%s\n out=%s\n", k, a[lo:min(len(a), k+150)], b[lo:min(len(b), k+150)])
			}
		}
	}
}

func runJobCtl(c *Ctx) {
	runJobctlScenarios(c)
	c.ForCases(func(i int, rng *rand.Rand) { jobctlCase(c, rng) })
}

func i64p(v int64) *int64 { return &v }

func jobctlCase(c *Ctx, rng *rand.Rand) {
	w := newJobctlWorld(c, rng)
	w.ctx = sim.NewContext()
	defer func() {
		for range w.ctx.Sim().Drifted() {
			c.Count("observed.cache-object-written-through") // code under test modified an object it got from a lister
		}
	}()
	w.clk = fakeclock.NewFakeClock(sim.VirtualBase.Add(time.Duration(rng.Intn(100000)) * time.Second))
	ktime.Clock = w.clk
	w.api = sim.NewSimAPI(w.clk)
	w.api.Install(w.ctx)
	w.api.Observe = w.monitorCall

	// dynamic config
	raw := &configv1alpha1.JobExecutionConfig{}
	opt := func(vals ...int64) *int64 {
		if rng.Intn(3) == 0 {
			return nil
		}
		return i64p(vals[rng.Intn(len(vals))])
	}
	raw.DefaultPendingTimeoutSeconds = opt(0, 5, 30, 900)
	raw.ForceDeleteTaskTimeoutSeconds = opt(0, 5, 30, 900)
	raw.DefaultTTLSecondsAfterFinished = opt(0, 10, 3600)
	w.ctx.MockConfigs().SetConfigs(map[configv1alpha1.ConfigName]runtime.Object{configv1alpha1.JobExecutionConfigName: raw})
	w.cfg, _ = w.ctx.Configs().Jobs()
	w.boot()
	c.Emit(fmt.Sprintf("jc.reset %d %s %s %s", w.now(), OptI(w.cfg.DefaultPendingTimeoutSeconds), OptI(w.cfg.ForceDeleteTaskTimeoutSeconds), OptI(w.cfg.DefaultTTLSecondsAfterFinished)), "ok")

	// the Job
	j := &execution.Job{ObjectMeta: metav1.ObjectMeta{Namespace: "ns", Name: "job", UID: types.UID("job-uid")}}
	w.jobKey, w.uid = "ns/job", "job-uid"
	tmpl := &execution.JobTemplate{}
	tmpl.TaskTemplate.Pod = &execution.PodTemplateSpec{Spec: corev1.PodSpec{Containers: []corev1.Container{{Name: "c", Image: "i"}}}}
	// history shape: 0 = unbiased walk; 1 = retry-focused (several indexes, several attempts,
	// positive retry delay, mostly failing pods, deadline jumps); 2 = lag-focused (single-event
	// deliveries, restarts and faults between the steps of a task's life)
	// 3 = orphan-focused (the first pass creates its tasks but the status write that records them
	// fails; then the Job is killed / deleted / completes elsewhere, often while the pod watch lags)
	mode := []int{0, 0, 1, 1, 2, 3}[rng.Intn(6)]
	c.Count(fmt.Sprintf("jc.mode.%d", mode))
	w.failBias = mode == 1
	w.kubeletDead = rng.Intn(7) == 0
	w.lateFinish = rng.Intn(4) == 0
	if w.kubeletDead {
		c.Count("jc.kubelet-dead")
	}
	if rng.Intn(3) > 0 {
		tmpl.MaxAttempts = i64p(int64(1 + rng.Intn(4)))
	}
	if rng.Intn(2) == 0 {
		tmpl.RetryDelaySeconds = i64p([]int64{0, 1, 10, 60}[rng.Intn(4)])
	}
	if mode == 1 {
		tmpl.MaxAttempts = i64p(int64(2 + rng.Intn(3)))
		tmpl.RetryDelaySeconds = i64p([]int64{1, 10, 60}[rng.Intn(3)])
	}
	if rng.Intn(3) == 0 {
		tmpl.TaskPendingTimeoutSeconds = i64p([]int64{0, 3, 20}[rng.Intn(3)])
	}
	tmpl.ForbidTaskForceDeletion = rng.Intn(5) == 0
	strategy := "-"
	if rng.Intn(2) == 0 || mode == 1 {
		ps := &execution.ParallelismSpec{}
		switch rng.Intn(3) {
		case 0:
			ps.WithCount = i64p(int64(1 + rng.Intn(4)))
			if mode == 1 && *ps.WithCount < 2 {
				ps.WithCount = i64p(2)
			}
		case 1:
			ps.WithKeys = []string{"a", "b", "c"}[:1+rng.Intn(3)]
		default:
			ys := []string{"p", "q"}
			ps.WithMatrix = map[string][]string{"x": {"1", "2"}, "y": ys[:1+rng.Intn(2)]}
		}
		if rng.Intn(2) == 0 {
			ps.CompletionStrategy = []execution.ParallelCompletionStrategy{execution.AllSuccessful, execution.AnySuccessful}[rng.Intn(2)]
		}
		strategy = orDash(string(ps.CompletionStrategy))
		tmpl.Parallelism = ps
	}
	j.Spec.Template = tmpl
	if rng.Intn(25) == 0 {
		// pods pinned by a finalizer (1 history in 25, judged by the monitors only: the model's pods
		// have no finalizers).  The finalizer comes from the Job's pod template (NewPod copies it; a
		// third-party controller or webhook adding one has the same effect): the pod object survives
		// every delete, also the force delete, with its deletion timestamp set, until the finalizer's
		// owner releases it.  Longer retry / timeout settings so that force deletion is reached.
		tmpl.TaskTemplate.Pod.ObjectMeta.Finalizers = []string{"example.com/hold"}
		w.pinnedPods, c.Mute = true, true
		c.Count("jc.mode.pinned-pods(monitors-only)")
		if rng.Intn(2) == 0 {
			tmpl.MaxAttempts = i64p(int64(2 + rng.Intn(2)))
		}
	}
	if rng.Intn(4) == 0 {
		j.Spec.TTLSecondsAfterFinished = i64p([]int64{0, 5, 100}[rng.Intn(3)])
	}
	hasFinalizer := rng.Intn(8) > 0
	if hasFinalizer {
		j.Finalizers = []string{executiongroup.DeleteDependentsFinalizer}
	}
	started := rng.Intn(10) > 0 || mode == 1
	if started {
		j.Status.StartTime = ktime.Now()
	}
	if rng.Intn(12) == 0 {
		t := metav1.NewTime(w.clk.Now().Add(time.Duration(rng.Intn(40)-10) * time.Second))
		j.Spec.KillTimestamp = &t
	}
	var idx []string
	for _, ix := range parallel.GenerateIndexes(tmpl.Parallelism) {
		h, _ := parallel.HashIndex(ix)
		w.indexHashes = append(w.indexHashes, h)
		idx = append(idx, h)
	}
	par := "-"
	if tmpl.Parallelism != nil {
		par = strings.Join(idx, ",")
	}
	_, _ = w.api.Create("jobs", j, false)
	defHash, _ := parallel.HashIndex(parallel.GetDefaultIndex())
	c.Emit(fmt.Sprintf("jc.job job job-uid %s %s %s %s %s %s %s %s %s %s %s", B(started), OptI(tmpl.MaxAttempts), OptI(tmpl.RetryDelaySeconds),
		OptI(tmpl.TaskPendingTimeoutSeconds), OptI(j.Spec.TTLSecondsAfterFinished), B(tmpl.ForbidTaskForceDeletion), strategy, par, defHash,
		tsec(j.Spec.KillTimestamp), B(hasFinalizer)), w.state())
	w.monitorJobVersion()

	maxSteps := 50
	if c.Tier == "thorough" {
		maxSteps = 250
	}
	nsteps := 10 + rng.Intn(maxSteps)
	creates0 := c.Stats["jc.pod-create-ok"]
	lagMode := rng.Intn(3) == 0 || mode == 2 // explicit single-event deliveries (cache lag) vs mostly flush
	// lag-focused histories keep ONE resource's watch stream behind for long stretches (several
	// syncs see the other resource advance while this one stands still)
	laggy := ""
	if mode == 2 {
		laggy = []string{"pods", "pods", "jobs"}[rng.Intn(3)]
		c.Count("jc.laggy." + laggy)
	}
	if mode == 3 {
		laggy = []string{"pods", ""}[rng.Intn(2)]
		w.flush()
		if k := w.dueCreates(); k > 0 {
			for i := 0; i < k; i++ {
				w.faults = append(w.faults, "")
				c.Emit("jc.fault -", w.state())
			}
			f := []string{sim.FaultErr, sim.FaultConflict, sim.FaultTimeout}[rng.Intn(3)]
			w.faults = append(w.faults, f)
			c.Emit("jc.fault "+f, w.state())
			w.work()
			c.Count("jc.orphan-prefix")
		}
		if jj := w.apiJob(); jj != nil && jj.Spec.KillTimestamp == nil && rng.Intn(2) == 0 {
			t := metav1.NewTime(time.Unix(w.clk.Now().Unix()+int64(rng.Intn(6)), 0))
			w.api.Mutate("jobs", w.jobKey, func(o runtime.Object) { o.(*execution.Job).Spec.KillTimestamp = &t })
			w.userEdited = true
			c.Emit(fmt.Sprintf("jc.kill %d", t.Unix()), w.state())
			w.monitorJobVersion()
		}
	}
	for step := 0; step < nsteps; step++ {
		if rng.Intn(100) == 0 && w.foreignOnRecordedName() {
			continue
		}
		r := rng.Intn(100)
		if laggy != "" && r >= 45 && r < 52 || laggy != "" && r >= 94 && rng.Intn(4) > 0 {
			// instead of a full flush / settle: catch up only the resource that is not lagging
			other := "jobs"
			inf := w.ctx.Sim().Jobs()
			if laggy == "jobs" {
				other, inf = "pods", w.ctx.Sim().Pods()
			}
			for w.api.DeliverOne(other, inf) {
				inf.Flush()
				c.Emit("jc.deliver "+other, w.state())
			}
			continue
		}
		if jumpP := map[int]int{0: 5, 1: 14, 2: 5, 3: 8}[mode]; rng.Intn(100) < jumpP {
			if w.jumpToDeadline() {
				continue
			}
		}
		switch {
		case r < 30:
			w.work()
		case r < 45:
			if lagMode {
				res := []string{"jobs", "pods"}[rng.Intn(2)]
				if laggy != "" && res == laggy && rng.Intn(5) > 0 {
					res = map[string]string{"jobs": "pods", "pods": "jobs"}[laggy]
				}
				inf := w.ctx.Sim().Jobs()
				if res == "pods" {
					inf = w.ctx.Sim().Pods()
				}
				if w.api.DeliverOne(res, inf) {
					inf.Flush()
				}
				c.Emit("jc.deliver "+res, w.state())
			} else {
				w.flush()
			}
		case r < 52:
			w.flush()
		case r < 72: // kubelet progress on a random owned pod
			pods := w.ownedPods()
			if len(pods) == 0 {
				continue
			}
			p := pods[rng.Intn(len(pods))]
			w.kubelet(p, rng.Intn(7))
		case r < 80: // time
			d := int64([]int{1, 1, 2, 5, 30, 100, 1000, 4000}[rng.Intn(8)]) * 1e9
			w.clk.Step(time.Duration(d))
			c.Emit(fmt.Sprintf("jc.adv %d", d), w.state())
		case r < 84: // kill
			if jj := w.apiJob(); jj != nil && jj.Spec.KillTimestamp == nil {
				t := metav1.NewTime(time.Unix(w.clk.Now().Unix()+int64(rng.Intn(30)-5), 0))
				w.api.Mutate("jobs", w.jobKey, func(o runtime.Object) { o.(*execution.Job).Spec.KillTimestamp = &t })
				w.userEdited = true
				// "unless the user edits it": only an edit of an already finished Job excuses a later
				// change of its recorded result; a kill time set while the Job was still unfinished does not
				if jj.Status.Condition.Finished != nil {
					w.resultEdited = true
				}
				c.Emit(fmt.Sprintf("jc.kill %d", t.Unix()), w.state())
				w.monitorJobVersion()
			}
		case r < 87: // delete the Job
			if jj := w.apiJob(); jj != nil && jj.DeletionTimestamp == nil {
				_ = w.api.Delete("jobs", w.jobKey, false, false)
				w.userEdited = true
				w.resultEdited = true
				c.Emit("jc.delete", w.state())
				w.monitorJobVersion()
			}
		case r < 90: // fault
			f := []string{sim.FaultErr, sim.FaultConflict, sim.FaultTimeout, sim.FaultForbidden}[rng.Intn(4)]
			if k := w.dueCreates(); k > 0 && len(w.faults) == 0 && rng.Intn(5) == 0 {
				// a pod create of the next pass is answered 403 Forbidden (exhausted quota, ...): some
				// of the pass's tasks are admitted, this one is not; it must simply be retried
				at := rng.Intn(k)
				for i := 0; i < at; i++ {
					w.faults = append(w.faults, "")
					c.Emit("jc.fault -", w.state())
				}
				w.faults = append(w.faults, sim.FaultForbidden)
				c.Emit("jc.fault "+sim.FaultForbidden, w.state())
				c.Count("jc.fault.forbidden-aimed-at-pod-create")
				continue
			}
			if k := w.dueCreates(); k > 0 && len(w.faults) == 0 && rng.Intn(2) == 0 {
				// aim at the status write that follows the creates of the next pass: the tasks are
				// created but stay unrecorded (the crash / fault window C09 is about)
				for i := 0; i < k; i++ {
					w.faults = append(w.faults, "")
					c.Emit("jc.fault -", w.state())
				}
				c.Count("jc.fault.aimed-at-status-write")
			}
			w.faults = append(w.faults, f)
			c.Emit("jc.fault "+f, w.state())
		case r < 92: // foreign pod on the next task name of some index
			if rng.Intn(3) == 0 {
				// ... or the owner of a foreign pod removes it again: the name is free from now on.  A
				// Job that ended in AdmissionError because of it stays that way (nothing is retried).
				var names []string
				for name := range w.foreign {
					if p := w.apiPod(name); p != nil && !w.ownedBy(p) {
						names = append(names, name)
					}
				}
				sort.Strings(names)
				if len(names) > 0 {
					name := names[rng.Intn(len(names))]
					w.api.Remove("pods", "ns/"+name)
					c.Emit(fmt.Sprintf("jc.pod %s gone", name), w.state())
					c.Count("jc.foreign-removed")
				}
				continue
			}
			if jj := w.apiJob(); jj != nil && len(w.indexHashes) > 0 {
				h := w.indexHashes[rng.Intn(len(w.indexHashes))]
				name := fmt.Sprintf("job-%s-%d", h, rng.Intn(2))
				if _, used := w.podsCreated[name]; w.apiPod(name) == nil && !used {
					fp := &corev1.Pod{ObjectMeta: metav1.ObjectMeta{Namespace: "ns", Name: name}}
					if rng.Intn(2) == 0 { // owned by another Job
						tr := true
						fp.OwnerReferences = []metav1.OwnerReference{{APIVersion: execution.GroupVersion.String(), Kind: execution.KindJob, Name: "other", UID: "other-uid", Controller: &tr}}
					}
					_, _ = w.api.Create("pods", fp, false)
					w.foreign[name] = true
					c.Emit(fmt.Sprintf("jc.foreign %s %s", name, B(len(fp.OwnerReferences) > 0)), w.state())
					c.Count("jc.foreign")
				}
			}
		case r < 94: // restart
			w.faults = nil
			w.api.DropPending()
			for _, rr := range []struct {
				res string
				inf *sim.FakeInformer
			}{{"jobs", w.ctx.Sim().Jobs()}, {"pods", w.ctx.Sim().Pods()}} {
				rr.inf.ClearCache()
				for _, k := range w.api.Keys(rr.res) {
					rr.inf.CacheSet(w.api.Get(rr.res, k).DeepCopyObject())
				}
			}
			w.boot()
			// informers replay existing objects as adds to the new handlers
			for _, k := range w.api.Keys("jobs") {
				w.q.Add(k)
			}
			c.Emit("jc.restart", w.state())
			c.Count("jc.restart")
		default:
			w.settle(3)
		}
	}
	w.settle(6)
	w.runTimersOut()
	w.finalMonitors()
	if c.Stats["jc.pod-create-ok"] > creates0 {
		c.Nontrivial()
	}
}

// foreignOnRecordedName (F22): somebody else creates a pod under the name of a task that is RECORDED
// in the Job's status — normally after that task's own pod vanished (when none has, one of them is
// often made to vanish first: node lost / manual delete), sometimes while it still exists (the create
// is then refused with AlreadyExists and nothing changes).  The foreign pod has no owner or is
// controlled by another Job, and an empty or Succeeded phase.
func (w *jobctlWorld) foreignOnRecordedName() bool {
	jj := w.apiJob()
	if jj == nil || len(jj.Status.Tasks) == 0 {
		return false
	}
	var gone, present []string
	for _, r := range jj.Status.Tasks {
		if w.apiPod(r.Name) == nil {
			gone = append(gone, r.Name)
		} else if w.ownedBy(w.apiPod(r.Name)) {
			present = append(present, r.Name)
		}
	}
	name := ""
	switch {
	case len(present) > 0 && (len(gone) == 0 || w.rng.Intn(4) == 0):
		name = present[w.rng.Intn(len(present))]
		if w.rng.Intn(3) > 0 {
			w.kubelet(w.apiPod(name), 6) // the task's own pod vanishes first
		}
	case len(gone) > 0:
		name = gone[w.rng.Intn(len(gone))]
	default:
		return false
	}
	fp := &corev1.Pod{ObjectMeta: metav1.ObjectMeta{Namespace: "ns", Name: name}}
	if w.rng.Intn(2) == 0 { // controlled by another Job
		tr := true
		fp.OwnerReferences = []metav1.OwnerReference{{APIVersion: execution.GroupVersion.String(), Kind: execution.KindJob, Name: "other", UID: "other-uid", Controller: &tr}}
	}
	_, err := w.api.Create("pods", fp, false)
	w.c.Emit(fmt.Sprintf("jc.foreign %s %s", name, B(len(fp.OwnerReferences) > 0)), w.state())
	if err != nil {
		w.c.Count("jc.foreign-on-recorded.exists")
		return true
	}
	w.foreign[name], w.foreignRec[name] = true, true
	w.c.Count("jc.foreign-on-recorded")
	if w.rng.Intn(2) == 0 {
		w.api.Mutate("pods", "ns/"+name, func(o runtime.Object) { o.(*corev1.Pod).Status.Phase = corev1.PodSucceeded })
		w.c.Emit(fmt.Sprintf("jc.pod %s %s", name, podDigest(w.apiPod(name))), w.state())
		w.c.Count("jc.foreign-on-recorded.succeeded")
	}
	return true
}

func (w *jobctlWorld) flush() {
	w.api.DeliverAll(w.ctx.Sim())
	w.c.Emit("jc.flush", w.state())
}

// kubelet applies one step of pod progress.
func (w *jobctlWorld) kubelet(p *corev1.Pod, action int) {
	key := "ns/" + p.Name
	now := metav1.NewTime(time.Unix(w.clk.Now().Unix(), 0))
	act := ""
	if w.kubeletDead && p.DeletionTimestamp != nil {
		return // unreachable node: a deleted pod stays Terminating until it is force-deleted
	}
	if w.lateFinish && p.DeletionTimestamp != nil && action < 4 && podAlive(p) && w.rng.Intn(2) == 0 {
		action = 4 // the container completes during the grace period; the object goes away later
	}
	switch {
	case w.pinnedPods && p.DeletionTimestamp != nil && action < 4:
		// the kubelet stops the containers of a deleted pod; the object stays (finalizer)
		if !podAlive(p) {
			return
		}
		w.api.Mutate("pods", key, func(o runtime.Object) {
			pp := o.(*corev1.Pod)
			pp.Status.Phase = corev1.PodFailed
			pp.Status.ContainerStatuses = []corev1.ContainerStatus{{Name: "c", State: corev1.ContainerState{Terminated: &corev1.ContainerStateTerminated{StartedAt: now, FinishedAt: now, ExitCode: 137, Reason: "Error"}}}}
		})
		w.trueFinish[p.Name] = w.now()
		act = "pinned-stopped"
	case p.DeletionTimestamp != nil && action < 4:
		// kubelet finishes terminating a deleted pod
		w.api.Remove("pods", key)
		act = "gone"
	case action == 0 && p.Status.Phase == "":
		w.api.Mutate("pods", key, func(o runtime.Object) {
			pp := o.(*corev1.Pod)
			pp.Status.Phase = corev1.PodPending
			pp.Status.StartTime = &now
		})
		act = "pending"
	case action <= 2 && (p.Status.Phase == "" || p.Status.Phase == corev1.PodPending):
		w.api.Mutate("pods", key, func(o runtime.Object) {
			pp := o.(*corev1.Pod)
			pp.Status.Phase = corev1.PodRunning
			if pp.Status.StartTime == nil {
				pp.Status.StartTime = &now
			}
			pp.Status.ContainerStatuses = []corev1.ContainerStatus{{Name: "c", State: corev1.ContainerState{Running: &corev1.ContainerStateRunning{StartedAt: now}}}}
		})
		if _, ok := w.everRan[p.Name]; !ok {
			w.everRan[p.Name] = w.now()
		}
		act = "running"
	case action <= 5 && podAlive(p):
		kind := w.rng.Intn(5)
		if w.failBias && kind < 2 && w.rng.Intn(3) > 0 {
			kind = 2 + w.rng.Intn(3)
		}
		if w.forceKind != nil {
			kind, w.forceKind = *w.forceKind, nil
		}
		w.api.Mutate("pods", key, func(o runtime.Object) {
			pp := o.(*corev1.Pod)
			started := now
			for _, cs := range pp.Status.ContainerStatuses {
				if cs.State.Running != nil {
					started = cs.State.Running.StartedAt
				}
			}
			term := &corev1.ContainerStateTerminated{StartedAt: started, FinishedAt: now}
			switch kind {
			case 0, 1:
				pp.Status.Phase = corev1.PodSucceeded
				term.Reason = "Completed"
				w.ownSucceeded[p.Name] = true
			case 2:
				pp.Status.Phase = corev1.PodFailed
				term.Reason = "Error"
				term.ExitCode = 1
			case 3:
				pp.Status.Phase = corev1.PodFailed
				term.Reason = "OOMKilled"
				term.ExitCode = 137
			default: // terminal phase without container status (e.g. evicted)
				pp.Status.Phase = corev1.PodFailed
				term = nil
			}
			if pp.Status.StartTime == nil {
				pp.Status.StartTime = &now
			}
			if term != nil {
				pp.Status.ContainerStatuses = []corev1.ContainerStatus{{Name: "c", State: corev1.ContainerState{Terminated: term}}}
			} else {
				pp.Status.ContainerStatuses = nil
			}
		})
		// ground truth: the attempt ended NOW, whatever the pod status lets the controller derive
		w.trueFinish[p.Name] = w.now()
		if np := w.apiPod(p.Name); np != nil && !podReportsTermination(np) {
			w.finishUnreported[p.Name] = true // the controller has to record its own observation time (F30 repaired)
			w.c.Count("jc.kubelet.finish-time-not-reported")
		}
		act = "term" + fmt.Sprint(kind)
	case action == 6:
		// the pod object vanishes (node lost + GC, manual delete)
		w.api.Remove("pods", key)
		act = "gone"
	default:
		return
	}
	w.c.Count("jc.kubelet." + act)
	np := w.apiPod(p.Name)
	d := "gone"
	if np != nil {
		d = podDigest(np)
	}
	w.c.Emit(fmt.Sprintf("jc.pod %s %s", p.Name, d), w.state())
}

// settle: deliver everything, fire due timers, work until idle; rounds > 3 also lets the
// kubelet terminate deleted pods and time pass for retry delays and rate-limited retries.
func (w *jobctlWorld) drain() {
	for iter := 0; iter < 30; iter++ {
		w.flush()
		progressed := false
		for n := 0; n < 30; n++ {
			w.q.Advance()
			if w.q.Len() == 0 {
				break
			}
			w.work()
			progressed = true
		}
		if !progressed && len(w.api.Pending["jobs"]) == 0 && len(w.api.Pending["pods"]) == 0 {
			break
		}
	}
}

// runTimersOut: quiescence means nothing is scheduled any more and the environment has done its
// part — every armed timer is let to fire (clock moved to its deadline), a cooperative kubelet
// finishes terminating every pod that is being deleted, and what either triggers is processed,
// until nothing is left to happen.
func (w *jobctlWorld) runTimersOut() {
	for i := 0; i < 16; i++ {
		progressed := false
		if d := w.q.NextDeadline(); d != 0 {
			if step := d - w.now(); step > 0 {
				w.clk.Step(time.Duration(step))
				w.c.Emit(fmt.Sprintf("jc.adv %d", step), w.state())
			}
			progressed = true
		}
		if !w.kubeletDead {
			for _, p := range w.ownedPods() {
				if p.DeletionTimestamp != nil && w.pinnedPods {
					if podAlive(p) {
						w.kubelet(p, 0) // the containers are stopped, the object stays
						progressed = true
					}
					continue
				}
				if p.DeletionTimestamp != nil {
					w.api.Remove("pods", "ns/"+p.Name)
					w.c.Count("jc.kubelet.gone")
					w.c.Emit(fmt.Sprintf("jc.pod %s gone", p.Name), w.state())
					progressed = true
				}
			}
		}
		if !progressed {
			return
		}
		w.drain()
	}
	w.c.Count("jc.not-quiescent-at-end")
}

func (w *jobctlWorld) settle(rounds int) {
	w.faults = nil
	w.c.Emit("jc.clearfaults", w.state())
	for round := 0; round < rounds; round++ {
		w.drain()
		if round == 0 {
			w.killWithoutResync()
		}
		if round >= 1 {
			// periodic resync of the informers (10 min in production)
			w.ctx.Sim().Jobs().Resync()
			w.ctx.Sim().Jobs().Flush()
			w.ctx.Sim().Pods().Resync()
			w.ctx.Sim().Pods().Flush()
			w.c.Emit("jc.resync", w.state())
			// The periodic resync is the controller's safety net: whatever wake-up was lost (a timer that
			// was never armed, a dynamic-configuration change that produces no Job or Pod event), the resync
			// notification of a Job that is in the cache puts its key back into the work queue.
			if _, ok := w.ctx.Sim().Jobs().CacheGet(&execution.Job{ObjectMeta: metav1.ObjectMeta{Namespace: "ns", Name: "job"}}); ok {
				queued := false
				for _, k := range w.q.Ready() {
					queued = queued || k == "ns/job"
				}
				if !queued {
					w.c.Violate("C20", "resync-enqueues", "after a resync of the Job and Pod informers the key of the cached Job is not in the work queue: lost wake-ups (e.g. a pending timeout that became effective through a dynamic-configuration change) are never repaired")
				}
			}
		}
		if round >= 3 {
			for _, p := range w.ownedPods() {
				if p.DeletionTimestamp != nil {
					w.kubelet(p, 0)
				}
			}
			d := 61 * time.Second
			if w.kubeletDead {
				d += jobutil.GetForceDeleteTimeout(w.cfg) // let the force-delete deadline of stuck pods pass
			}
			w.clk.Step(d)
			w.c.Emit(fmt.Sprintf("jc.adv %d", int64(d)), w.state())
		}
	}
	// what the last resync / clock step made due is processed before the state is judged
	w.drain()
	w.c.Count("jc.settle")
}

// killWithoutResync judges the fixpoint reached BEFORE the first periodic resync of a settle: since the
// repair of F5 the controller arms a re-sync for a kill timestamp that lies in the future
// (`C12Plan.future_kill_timer_armed`, `C12Live.kill_eventually_without_resync`), so once the kill
// timestamp has passed, every event is delivered, the work queue is idle and no timer or rate-limited
// retry is pending, a started Job without a live task is terminal — it does not wait for the next
// resync (up to ten minutes late).  Seed C12w4-2 (the re-sync no longer armed when there is nothing to
// delete: kill set during retry back-off) was visible only as a correspondence diff before.
func (w *jobctlWorld) killWithoutResync() {
	j := w.apiJob()
	if j == nil || w.envelopeBroken {
		return
	}
	kt := j.Spec.KillTimestamp
	if kt == nil || kt.After(w.clk.Now()) || !jobutil.IsStarted(j) || j.DeletionTimestamp != nil {
		return
	}
	w.c.Count("jc.kill-without-resync.kill-passed")
	if w.q.Len() != 0 || w.q.NextDeadline() != 0 {
		w.c.Count("jc.kill-without-resync.queue-or-timer-pending")
		return
	}
	if cj, ok := w.ctx.Sim().Jobs().CacheGet(&execution.Job{ObjectMeta: metav1.ObjectMeta{Namespace: "ns", Name: "job"}}); !ok || cj.(*execution.Job).ResourceVersion != j.ResourceVersion {
		w.c.Count("jc.kill-without-resync.cache-behind")
		return // the controller has not seen the Job as it is
	}
	for _, p := range w.ownedPods() {
		if podAlive(p) {
			return
		}
	}
	w.c.Count("jc.kill-without-resync.judged")
	if !j.Status.Phase.IsTerminal() {
		w.c.Violate("C12", "kill-eventually", "kill timestamp passed, no task alive, every event delivered, queue idle and no timer pending, but the Job is %s before any resync: no re-sync was armed for the kill timestamp", j.Status.Phase)
	}
}

// finalMonitors judges the quiescent state reached at the end of a history.
func (w *jobctlWorld) finalMonitors() {
	j := w.apiJob()
	if j == nil {
		return
	}
	// C09: every pod owned by the Job is listed in its status
	listed := map[string]bool{}
	for _, r := range j.Status.Tasks {
		listed[r.Name] = true
	}
	// (at quiescence every watch event has been delivered, so the pod cache is complete: an
	// unrecorded task is found either by the create that returns AlreadyExists, or — once creation
	// is disabled or no longer needed — by the adoption scan; a live one must not stay unlisted)
	for _, p := range w.ownedPods() {
		if !listed[p.Name] && jobutil.IsStarted(j) && j.DeletionTimestamp == nil && podAlive(p) && p.DeletionTimestamp == nil {
			w.c.Violate("C09", "never-forgotten", "live pod %s owned by the Job is not listed in status.tasks at quiescence (Job phase %s)", p.Name, j.Status.Phase)
		}
	}
	// C09: "every task the Job ever created stays listed in its status ... even after the task object
	// is gone".  Ground truth: the pods this controller created (create answered ok) and itself
	// deleted.  (A task that was created, never recorded because the write failed, and then removed
	// by somebody ELSE before any pass saw it cannot be known to any controller that does not record
	// its intent first; that is not judged.)  Inside E-DeleteRecorded this follows from refs-monotone;
	// a pass is outside it only when one of its calls failed (see afterPass): every task deleted by a
	// pass none of whose calls failed is judged here (repair of F31; Lean: C09Hist.created_stays_listed).
	if jobutil.IsStarted(j) && j.DeletionTimestamp == nil {
		var names []string
		for name := range w.podsCreated {
			names = append(names, name)
		}
		sort.Strings(names)
		for _, name := range names {
			if listed[name] || w.apiPod(name) != nil || !w.ctlDeleted[name] || w.staleRecreate {
				continue
			}
			if w.deletedUnlisted[name] && !w.keepMonitors {
				continue // counted as jc.envelope.task-deleted-but-not-recorded
			}
			w.c.Violate("C09", "created-stays-listed", "task %s was created by the controller at %d s and deleted by the controller, and status.tasks (%d refs) does not list it at quiescence (Job phase %s)",
				name, w.podsCreated[name]/1e9, len(j.Status.Tasks), j.Status.Phase)
		}
	}
	// C09: foreign objects are never adopted.  A name that was never one of the Job's tasks is never
	// listed.  A name that WAS recorded for the Job's own pod stays listed when a foreign pod takes it
	// after that pod vanished; the ref must then be what a vanished task gets — finished (lost, or
	// its recorded final state) — and not live through the foreign object.
	for name := range w.foreign {
		p := w.apiPod(name)
		if !listed[name] || p == nil || w.ownedBy(p) {
			continue
		}
		if !w.foreignRec[name] {
			w.c.Violate("C09", "foreign-not-adopted", "foreign pod %s is listed in status.tasks", name)
			continue
		}
		if w.q.NextDeadline() == 0 && w.q.Len() == 0 && jobutil.IsStarted(j) && j.DeletionTimestamp == nil && !w.staleRecreate {
			for _, r := range j.Status.Tasks {
				if r.Name == name && r.FinishTimestamp.IsZero() {
					w.c.Violate("C09", "foreign-not-adopted", "task %s vanished and a foreign pod took its name: at quiescence the ref is still unfinished (%s), it follows the foreign pod", name, r.Status.State)
				}
			}
		}
	}
	// C12: once the kill timestamp has passed and the system is quiet, a started Job is terminal
	if kt := j.Spec.KillTimestamp; kt != nil && !kt.After(w.clk.Now()) && jobutil.IsStarted(j) && j.DeletionTimestamp == nil {
		alive := 0
		for _, p := range w.ownedPods() {
			if podAlive(p) {
				alive++
			}
		}
		if alive == 0 && !j.Status.Phase.IsTerminal() && !w.envelopeBroken {
			w.c.Violate("C12", "kill-eventually", "kill timestamp passed, no task alive, but the Job is %s at quiescence", j.Status.Phase)
		}
	}
	// C12: a task that ignores deletion is force-deleted after the configured timeout (unless the
	// Job forbids it); the sweep only runs for a started Job that is not itself being deleted
	force := jobutil.GetForceDeleteTimeout(w.cfg)
	forbid := j.Spec.Template != nil && j.Spec.Template.ForbidTaskForceDeletion
	quiet := w.q.NextDeadline() == 0 && w.q.Len() == 0
	if quiet && force > 0 && !forbid && jobutil.IsStarted(j) && j.DeletionTimestamp == nil && !w.envelopeBroken {
		for _, p := range w.ownedPods() {
			if w.pinnedPods && w.forceDeleted[p.Name] {
				continue // it WAS force-deleted; its finalizer keeps the object
			}
			if p.DeletionTimestamp != nil && p.DeletionTimestamp.Add(force).Before(w.clk.Now()) && listed[p.Name] {
				w.c.Violate("C12", "force-delete-eventually", "task %s has been terminating since %d (force-delete timeout %v, clock %d) and was not force-deleted at quiescence",
					p.Name, p.DeletionTimestamp.Unix(), force, w.clk.Now().Unix())
			}
		}
	}
	// C10: "a Job that is not being deleted is reported finished only when none of its tasks is still
	// alive" — at quiescence (every event delivered, nothing scheduled) this holds without any
	// envelope: a task that was invisible when the Job was written finished (known finding F25) has
	// reached the pod cache by now, the Job was re-opened, the task adopted and stopped.
	if quiet {
		w.judgeFinishedNoLiveTask()
	}
	// C10: once the strategy is decided the Job does reach that result (tasks no longer needed are
	// stopped: gracefully if the kubelet cooperates, else by force deletion when permitted)
	w.cachedJob = j
	if dec := w.oracleDecidedTruth(j); quiet && dec != "" && jobutil.IsStarted(j) && j.DeletionTimestamp == nil && !w.envelopeBroken &&
		j.Status.Condition.Finished == nil && (!w.kubeletDead || (force > 0 && !forbid)) && !(w.pinnedPods && w.kubeletDead) {
		w.c.Violate("C10", "decided-then-reached", "completion is decided (%s) but the Job is %s at quiescence", dec, j.Status.Phase)
	}
}

// judgeFinishedNoLiveTask (C10, no envelope): every event is delivered and no pass is pending; a Job
// that is reported finished (other than AdmissionError) and is not being deleted has no task that is
// alive and not being deleted.  Called at quiescence, and by the replays of F25 before the TTL timer
// of the finished Job is run out.
func (w *jobctlWorld) judgeFinishedNoLiveTask() {
	j := w.apiJob()
	if j == nil {
		return
	}
	listed := map[string]bool{}
	for _, r := range j.Status.Tasks {
		listed[r.Name] = true
	}
	if cf := j.Status.Condition.Finished; cf != nil && cf.Result != execution.JobResultAdmissionError && j.DeletionTimestamp == nil && !w.staleRecreate {
		for _, p := range w.ownedPods() {
			if podAlive(p) && p.DeletionTimestamp == nil {
				w.c.Violate("C10", "finished-no-live-task-at-quiescence", "at quiescence the Job is reported %s while its task %s is alive (phase %q, listed in status.tasks: %v) and nothing is scheduled that would stop it", cf.Result, p.Name, p.Status.Phase, listed[p.Name])
			}
		}
	}
}

// oracleDecidedTruth: oracleDecided on the authoritative Job and the pods on the server.
func (w *jobctlWorld) oracleDecidedTruth(j *execution.Job) string {
	saved := w.cachedJob
	defer func() { w.cachedJob = saved }()
	w.cachedJob = j
	return w.oracleDecided()
}
