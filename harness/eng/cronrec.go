package eng

import (
	"context"
	"errors"
	"fmt"
	"math"
	"math/big"
	"math/rand"
	"reflect"
	"regexp"
	"sort"
	"strconv"
	"strings"
	"time"

	kerrors "k8s.io/apimachinery/pkg/api/errors"
	metav1 "k8s.io/apimachinery/pkg/apis/meta/v1"
	"k8s.io/apimachinery/pkg/runtime"
	"k8s.io/apimachinery/pkg/types"
	"k8s.io/apimachinery/pkg/util/validation/field"
	ktesting "k8s.io/client-go/testing"
	"k8s.io/client-go/tools/cache"

	configv1alpha1 "github.com/furiko-io/furiko/apis/config/v1alpha1"
	execution "github.com/furiko-io/furiko/apis/execution/v1alpha1"
	"github.com/furiko-io/furiko/pkg/execution/controllers/croncontroller"
	"github.com/furiko-io/furiko/pkg/execution/util/jobconfig"
	furikofake "github.com/furiko-io/furiko/pkg/generated/clientset/versioned/fake"

	"verifharness/sim"
)

// Engine "cronrec" (property C02): the real croncontroller key codec (util.go), the real
// jobconfig.GenerateName / NewJobFromJobConfig, and the real croncontroller.Reconciler driven
// through histories of SyncOne calls (duplicates, retries, stale / empty Job caches, create
// faults) against Model/CronRec.lean.
//
// Three streams, chosen per case index:
//   codec    key strings through Join/Split/ParseUnix/JobConfigKeyFunc/SplitMetaNamespaceKey/GenerateName
//   newjob   generated JobConfigs through NewJobFromJobConfig for every JobType
//   history  request histories on the Reconciler (fake furiko clientset = API server with name
//            uniqueness; deterministic informer caches of package sim; stub ActiveJobStore)
//
// Monitors are judged against ground truth owned by the harness: its own decimal reader
// (math/big), its own name formula, the JobConfig versions it put into the cache, and the fake
// clientset's object tracker.

func init() { Register("cronrec", runCronRec) }

const crZeroUnix = int64(-62135596800) // time.Time{}.Unix()

// crNowBase: the wall-clock second that GenerateName substitutes for the zero time is replaced
// by crNowBase+k (k = 0,1,… in order of first observation in a case) on both sides.
const crNowBase = int64(4000000000000)

var (
	crLabelUID    = "execution.furiko.io/job-config-uid"
	crAnnSchedule = "execution.furiko.io/schedule-time"
	crGVRJobs     = execution.SchemeGroupVersion.WithResource("jobs")
	crDecimal     = regexp.MustCompile(`^[+-]?[0-9]+$`)
)

// ---------------------------------------------------------------- encoding helpers

// qI: Q plus escaping of the separators used inside lists.
func qI(s string) string {
	r := Q(s)
	r = strings.ReplaceAll(r, ",", "%2C")
	r = strings.ReplaceAll(r, "=", "%3D")
	r = strings.ReplaceAll(r, ":", "%3A")
	return r
}

func qKV(m map[string]string) string {
	if len(m) == 0 {
		return "-"
	}
	parts := make([]string, 0, len(m))
	for _, k := range SortedKeys(m) {
		parts = append(parts, qI(k)+"="+qI(m[k]))
	}
	return strings.Join(parts, ",")
}

func crShowJob(j *execution.Job, name string) string {
	fin := "-"
	if len(j.Finalizers) > 0 {
		fs := make([]string, len(j.Finalizers))
		for i, f := range j.Finalizers {
			fs[i] = qI(f)
		}
		fin = strings.Join(fs, ",")
	}
	own := "-"
	if len(j.OwnerReferences) > 0 {
		os := make([]string, len(j.OwnerReferences))
		for i, o := range j.OwnerReferences {
			os[i] = fmt.Sprintf("%s:%s:%s:%s:%s", qI(o.Kind), qI(o.Name), qI(string(o.UID)),
				B(o.Controller != nil && *o.Controller), B(o.BlockOwnerDeletion != nil && *o.BlockOwnerDeletion))
		}
		own = strings.Join(os, ";")
	}
	pol := "-"
	if j.Spec.StartPolicy != nil {
		pol = Q(string(j.Spec.StartPolicy.ConcurrencyPolicy))
	}
	tm := "-"
	if j.Spec.Template != nil && j.Spec.Template.MaxAttempts != nil {
		tm = fmt.Sprint(*j.Spec.Template.MaxAttempts)
	}
	return fmt.Sprintf("%s %s L=%s A=%s F=%s O=%s T=%s P=%s S=%s M=%s", Q(j.Namespace), Q(name),
		qKV(j.Labels), qKV(j.Annotations), fin, own, Q(string(j.Spec.Type)), pol, qKV(j.Spec.Substitutions), tm)
}

// oracleAtoi is the harness's own reading of "optional sign, decimal digits, within int64".
func oracleAtoi(s string) (int64, bool) {
	if !crDecimal.MatchString(s) {
		return 0, false
	}
	v, ok := new(big.Int).SetString(strings.TrimPrefix(s, "+"), 10)
	if !ok || !v.IsInt64() {
		return 0, false
	}
	return v.Int64(), true
}

// oracleSplit: harness's own reading of "<name>.<unix>" (last dot delimits).
func oracleSplit(key string) (string, int64, string) {
	i := strings.LastIndex(key, ".")
	if i < 0 {
		return "", 0, "badkey"
	}
	t, ok := oracleAtoi(key[i+1:])
	if !ok {
		return "", 0, "badts"
	}
	return key[:i], t, "ok"
}

func splitClass(err error) string {
	switch {
	case err == nil:
		return "ok"
	case strings.HasPrefix(err.Error(), "invalid key"):
		return "badkey"
	case strings.HasPrefix(err.Error(), "invalid unix timestamp"):
		return "badts"
	}
	return "err"
}

// ---------------------------------------------------------------- generators

var crTimes = []int64{0, 1, -1, 5, -5, 59, 60, 100, 101, 1606987620, 1646586360, 1646586361, 2147483647, 2147483648,
	9999999999, 10000000000, 253402300799, crZeroUnix + 1, crZeroUnix - 1, math.MaxInt64, math.MinInt64, math.MaxInt64 - 1, math.MinInt64 + 1}

func genTime(rng *rand.Rand) int64 {
	switch rng.Intn(10) {
	case 0, 1, 2, 3:
		return crTimes[rng.Intn(len(crTimes))]
	case 4, 5:
		return 1646586000 + int64(rng.Intn(100000))
	case 6:
		return int64(rng.Intn(2000)) - 1000
	case 7:
		return rng.Int63()
	case 8:
		return -rng.Int63()
	default:
		return int64(rng.Uint64())
	}
}

var crNameAtoms = []string{"a", "b", "job", "cfg", "x1", "0", "7", "42", "007", ".", ".", "-", "-", "--", "..", "_", "é", "日本", "ß", "A", "+", " ", "%", "=", ",", ":", "1646586360", "-5", "+5"}

func genName(rng *rand.Rand, allowSlash bool) string {
	n := rng.Intn(5)
	if rng.Intn(12) == 0 {
		n = 0
	}
	var b strings.Builder
	for i := 0; i < n; i++ {
		b.WriteString(crNameAtoms[rng.Intn(len(crNameAtoms))])
	}
	if allowSlash && rng.Intn(8) == 0 {
		b.WriteString("/")
		b.WriteString(crNameAtoms[rng.Intn(len(crNameAtoms))])
	}
	return b.String()
}

// genTail: the text after the last dot of a key; mostly numbers in many spellings, plus junk.
func genTail(rng *rand.Rand) string {
	t := genTime(rng)
	abs := new(big.Int).Abs(big.NewInt(t)).String()
	switch rng.Intn(22) {
	case 0, 1, 2, 3, 4:
		return strconv.FormatInt(t, 10)
	case 5:
		return "+" + abs
	case 6:
		return "-" + abs
	case 7:
		return strings.Repeat("0", 1+rng.Intn(25)) + abs
	case 8:
		return "-" + strings.Repeat("0", 1+rng.Intn(3)) + abs
	case 9: // around the int64 limits
		v := new(big.Int).Add(big.NewInt(math.MaxInt64), big.NewInt(int64(rng.Intn(5))-2))
		if rng.Intn(2) == 0 {
			v.Neg(v)
			v.Sub(v, big.NewInt(1))
			v.Add(v, big.NewInt(int64(rng.Intn(3))-1))
		}
		return v.String()
	case 10: // huge
		var b strings.Builder
		if rng.Intn(3) == 0 {
			b.WriteString("-")
		}
		for i, n := 0, 19+rng.Intn(25); i < n; i++ {
			b.WriteByte(byte('0' + rng.Intn(10)))
		}
		return b.String()
	case 11:
		return ""
	case 12:
		return []string{"-", "+", "+-1", "-+1", "--1", "++1", "1-", "1+"}[rng.Intn(8)]
	case 13:
		return []string{"abc", "12a", "a12", "1_000", "_1", "1_", "0x10", "0b1", "0o7", "1e3", "1.5", "NaN", "inf"}[rng.Intn(13)]
	case 14:
		return []string{" 1", "1 ", "\t1", "1\x00", "１２", "٣", "1é", "①", "−5", "1,000"}[rng.Intn(10)]
	case 15:
		return "-0"
	case 16:
		return "+0"
	case 17: // 18/19/20-digit numbers (fast-path boundary of strconv.Atoi)
		n := 17 + rng.Intn(4)
		var b strings.Builder
		b.WriteByte(byte('1' + rng.Intn(9)))
		for i := 1; i < n; i++ {
			b.WriteByte(byte('0' + rng.Intn(10)))
		}
		s := b.String()
		if rng.Intn(2) == 0 {
			s = "-" + s
		}
		return s
	default:
		return strconv.FormatInt(t, 10)
	}
}

// ---------------------------------------------------------------- codec stream

func (w *crWorld) codecCase(rng *rand.Rand) {
	c := w.c
	nKeys := 6 + rng.Intn(8)
	c.Nontrivial()
	for k := 0; k < nKeys; k++ {
		base := genName(rng, true)
		var key string
		switch rng.Intn(10) {
		case 0:
			key = base // possibly no dot at all
		default:
			key = base + "." + genTail(rng)
		}
		// Split (real) vs oracle
		var gotName string
		var gotTs time.Time
		out := Guard(func() string {
			n, ts, err := croncontroller.SplitJobConfigKeyName(key)
			gotName, gotTs = n, ts
			cl := splitClass(err)
			if cl == "ok" {
				return fmt.Sprintf("ok %s %d", Q(n), ts.Unix())
			}
			return cl
		})
		c.Emit("cronrec.split "+Q(key), out)
		on, ot, ocl := oracleSplit(key)
		c.Count("codec.split." + ocl)
		switch {
		case strings.HasPrefix(out, "ok") != (ocl == "ok"):
			c.Violate("C02", "key-reject", "key %q: implementation %s, well-formedness oracle %s", key, strings.Fields(out)[0], ocl)
		case ocl == "ok" && (gotName != on || gotTs.Unix() != ot):
			c.Violate("C02", "key-roundtrip", "key %q split into (%q,%d), expected (%q,%d)", key, gotName, gotTs.Unix(), on, ot)
		}
		// ParseUnix on the tail alone
		if i := strings.LastIndex(key, "."); i >= 0 {
			tail := key[i+1:]
			pout := Guard(func() string {
				ts, err := croncontroller.ParseUnix(tail)
				if err != nil {
					return "err"
				}
				return fmt.Sprintf("ok %d", ts.Unix())
			})
			c.Emit("cronrec.parseunix "+Q(tail), pout)
			v, ok := oracleAtoi(tail)
			if ok != strings.HasPrefix(pout, "ok") || (ok && pout != fmt.Sprintf("ok %d", v)) {
				c.Violate("C02", "key-reject", "ParseUnix(%q) = %s, oracle ok=%v value=%d", tail, pout, ok, v)
			}
		}
		// Join then Split for a generated (key, t)
		t := genTime(rng)
		jk := genName(rng, false)
		var joined string
		jout := Guard(func() string {
			joined = croncontroller.JoinJobConfigKeyName(jk, time.Unix(t, 0))
			return Q(joined)
		})
		c.Emit(fmt.Sprintf("cronrec.join %s %d", Q(jk), t), jout)
		if jout != "panic" {
			n, ts, err := croncontroller.SplitJobConfigKeyName(joined)
			if err != nil || n != jk || ts.Unix() != t {
				c.Violate("C02", "key-roundtrip", "Split(Join(%q,%d)) = (%q,%d,%v)", jk, t, n, ts.Unix(), err)
			}
			if joined != jk+"."+strconv.FormatInt(t, 10) {
				c.Violate("C02", "key-roundtrip", "Join(%q,%d) = %q", jk, t, joined)
			}
			c.Emit("cronrec.split "+Q(joined), fmt.Sprintf("ok %s %d", Q(n), ts.Unix()))
			c.Count("codec.join-split")
		}
		// JobConfigKeyFunc + SplitMetaNamespaceKey (the path a work item really takes)
		ns := []string{"default", "ns", "prod", "", "a.b", "n-1"}[rng.Intn(6)]
		nm := genName(rng, rng.Intn(6) == 0)
		jc := &execution.JobConfig{ObjectMeta: metav1.ObjectMeta{Namespace: ns, Name: nm}}
		var full string
		kout := Guard(func() string {
			k, err := croncontroller.JobConfigKeyFunc(jc, time.Unix(t, 0))
			if err != nil {
				return "err"
			}
			full = k
			return Q(k)
		})
		c.Emit(fmt.Sprintf("cronrec.keyfunc %s %s %d", Q(ns), Q(nm), t), kout)
		if kout != "panic" && kout != "err" {
			var gns, gname string
			sout := Guard(func() string {
				a, b, err := cache.SplitMetaNamespaceKey(full)
				if err != nil {
					return "err"
				}
				gns, gname = a, b
				return fmt.Sprintf("ok %s %s", Q(a), Q(b))
			})
			c.Emit("cronrec.nssplit "+Q(full), sout)
			c.Count("codec.nssplit." + strings.Fields(sout)[0])
			if !strings.Contains(nm, "/") && !strings.Contains(ns, "/") {
				n2, ts2, err := croncontroller.SplitJobConfigKeyName(gname)
				if sout == "err" || gns != ns || err != nil || n2 != nm || ts2.Unix() != t {
					c.Violate("C02", "key-namespaced", "key of (%q,%q,%d) = %q came back as (%q,%q,%d,%v)", ns, nm, t, full, gns, n2, ts2.Unix(), err)
				}
			}
		}
		// the raw key through SplitMetaNamespaceKey as well (slashes in generated names)
		rout := Guard(func() string {
			a, b, err := cache.SplitMetaNamespaceKey(key)
			if err != nil {
				return "err"
			}
			return fmt.Sprintf("ok %s %s", Q(a), Q(b))
		})
		c.Emit("cronrec.nssplit "+Q(key), rout)
		c.Count("codec.nssplit." + strings.Fields(rout)[0])
		// GenerateName
		gt := t
		if rng.Intn(40) == 0 {
			gt = crZeroUnix
		}
		w.emitGenName(nm, gt)
	}
}

// emitGenName runs the real GenerateName; for the zero time the wall-clock tail is checked
// against the process clock and replaced by the token crNowBase (the model takes `now` as a parameter).
func (w *crWorld) emitGenName(nm string, t int64) {
	c := w.c
	before := time.Now().Unix()
	var got string
	out := Guard(func() string {
		got = jobconfig.GenerateName(nm, time.Unix(t, 0))
		return Q(got)
	})
	after := time.Now().Unix()
	if out != "panic" && t == crZeroUnix {
		c.Count("genname.zero-time")
		ok := false
		if strings.HasPrefix(got, nm+"-") {
			if v, good := oracleAtoi(got[len(nm)+1:]); good && v >= before && v <= after {
				ok = true
			}
		}
		if ok {
			out = Q(fmt.Sprintf("%s-%d", nm, crNowBase))
		}
	} else if out != "panic" {
		c.Count("genname")
		if got != nm+"-"+strconv.FormatInt(t, 10) {
			c.Violate("C02", "name-function", "GenerateName(%q,%d) = %q", nm, t, got)
		}
		if again := jobconfig.GenerateName(nm, time.Unix(t, 0)); again != got {
			c.Violate("C02", "name-function", "GenerateName(%q,%d) not deterministic: %q then %q", nm, t, got, again)
		}
	}
	c.Emit(fmt.Sprintf("cronrec.genname %s %d %d", Q(nm), t, crNowBase), out)
}

// ---------------------------------------------------------------- JobConfig generator

type crJC struct {
	id   int
	obj  *execution.JobConfig
	subs map[string]string // expected substitutions (nil = MakeDefaultOptions must fail)
}

var crLabelKeys = []string{"app", "team", "tier", "a/b", "x.y/z", "", "execution.furiko.io/job-config-uid", "execution.furiko.io/schedule-time",
	"execution.furiko.io/option-spec-hash", "k=v", "k,v", "k:v", "é"}

func genKVMap(rng *rand.Rand, reserved string) map[string]string {
	n := rng.Intn(4)
	if n == 0 && rng.Intn(2) == 0 {
		if rng.Intn(2) == 0 {
			return nil
		}
		return map[string]string{}
	}
	m := map[string]string{}
	for i := 0; i < n; i++ {
		k := crLabelKeys[rng.Intn(len(crLabelKeys))]
		m[k] = []string{"v", "w", "", "1", "0", "1646586360", "-5", "not-a-number", "other-uid", "a=b,c", "é"}[rng.Intn(11)]
	}
	if rng.Intn(3) == 0 { // collide with the reserved key
		m[reserved] = []string{"12345", "0", "evil", "", "uid-0", "1646586360"}[rng.Intn(6)]
	}
	return m
}

func genCfgName(rng *rand.Rand) string {
	switch rng.Intn(10) {
	case 0: // around the validation limit (49) and the label / subdomain limits
		n := []int{48, 49, 50, 52, 53, 62, 63, 64, 242, 243, 252, 253}[rng.Intn(12)]
		return strings.Repeat("n", n)
	case 1:
		return []string{"a.b", "a.5", "a.5.6", "a.b.c", "job.1646586360", "x-1", "x-1646586360", "a-", "a--5", "a.-5"}[rng.Intn(10)]
	default:
		return []string{"jc", "job-sample", "a", "b", "cfg-1", "cfg-2", "nightly"}[rng.Intn(7)]
	}
}

func (w *crWorld) genJobConfig(rng *rand.Rand, id int, ns, name, uid string) *crJC {
	jc := &execution.JobConfig{
		TypeMeta:   metav1.TypeMeta{Kind: execution.KindJobConfig, APIVersion: execution.SchemeGroupVersion.String()},
		ObjectMeta: metav1.ObjectMeta{Namespace: ns, Name: name, UID: types.UID(uid)},
	}
	jc.Spec.Concurrency.Policy = []execution.ConcurrencyPolicy{execution.ConcurrencyPolicyAllow, execution.ConcurrencyPolicyForbid,
		execution.ConcurrencyPolicyForbid, execution.ConcurrencyPolicyEnqueue, "", "Bogus"}[rng.Intn(6)]
	if rng.Intn(2) == 0 {
		v := []int64{0, 1, 2, 3, 5, -1}[rng.Intn(6)]
		jc.Spec.Concurrency.MaxConcurrency = &v
	}
	if rng.Intn(2) == 0 {
		jc.Status.Queued = []int64{0, 1, 2, 3, 4, 5, 6, 19, 20, 21, -1}[rng.Intn(11)]
	}
	jc.Spec.Template.Labels = genKVMap(rng, crLabelUID)
	jc.Spec.Template.Annotations = genKVMap(rng, crAnnSchedule)
	if rng.Intn(3) != 0 {
		v := int64(1 + rng.Intn(5))
		jc.Spec.Template.Spec.MaxAttempts = &v
	}
	subs := map[string]string{}
	switch rng.Intn(8) {
	case 0, 1: // string options with defaults
		jc.Spec.Option = &execution.OptionSpec{}
		for i, n := 0, 1+rng.Intn(3); i < n; i++ {
			nm := fmt.Sprintf("opt%d", i)
			def := []string{"", "x", "hello world", "a=b", "é"}[rng.Intn(5)]
			jc.Spec.Option.Options = append(jc.Spec.Option.Options, execution.Option{
				Type: execution.OptionTypeString, Name: nm, String: &execution.StringOptionConfig{Default: def}})
			subs["option."+nm] = def
		}
	case 2: // unsupported option type: MakeDefaultOptions must fail
		jc.Spec.Option = &execution.OptionSpec{Options: []execution.Option{{Type: "Bogus", Name: "bad"}}}
		subs = nil
	case 3:
		jc.Spec.Option = &execution.OptionSpec{}
	}
	return &crJC{id: id, obj: jc, subs: subs}
}

func (w *crWorld) emitJC(v *crJC) {
	jc := v.obj
	mc := "-"
	if jc.Spec.Concurrency.MaxConcurrency != nil {
		mc = fmt.Sprint(*jc.Spec.Concurrency.MaxConcurrency)
	}
	tm := "-"
	if jc.Spec.Template.Spec.MaxAttempts != nil {
		tm = fmt.Sprint(*jc.Spec.Template.Spec.MaxAttempts)
	}
	sub := "err"
	if v.subs != nil {
		sub = qKV(v.subs)
	}
	w.c.Emit(fmt.Sprintf("cronrec.jc %d %s %s %s %s %s %d %s %s %s %s", v.id, Q(jc.Namespace), Q(jc.Name), Q(string(jc.UID)),
		Q(string(jc.Spec.Concurrency.Policy)), mc, jc.Status.Queued, qKV(jc.Spec.Template.Labels), qKV(jc.Spec.Template.Annotations), sub, tm), "ok")
}

// ---------------------------------------------------------------- newjob stream

func (w *crWorld) newJobCase(rng *rand.Rand) {
	c := w.c
	c.Emit("cronrec.reset -", "ok")
	c.Nontrivial()
	for k, n := 0, 1+rng.Intn(3); k < n; k++ {
		ns := []string{"default", "ns", "prod"}[rng.Intn(3)]
		v := w.genJobConfig(rng, k+1, ns, genCfgName(rng), fmt.Sprintf("uid-%d", rng.Intn(1000)))
		w.emitJC(v)
		for _, ty := range []execution.JobType{execution.JobTypeScheduled, execution.JobTypeAdhoc, "", "Bogus"} {
			if ty != execution.JobTypeScheduled && rng.Intn(2) == 0 {
				continue
			}
			t := genTime(rng)
			if t == crZeroUnix {
				t++
			}
			var job *execution.Job
			before := v.obj.DeepCopy()
			out := Guard(func() string {
				j, err := jobconfig.NewJobFromJobConfig(v.obj, ty, time.Unix(t, 0))
				if err != nil {
					return "err"
				}
				job = j
				return crShowJob(j, j.Name)
			})
			c.Emit(fmt.Sprintf("cronrec.newjob %d %s %d 0", v.id, Q(string(ty)), t), out)
			c.Count("newjob.type." + string(ty))
			if (out == "err") != (v.subs == nil) {
				c.Violate("C02", "newjob-error", "NewJobFromJobConfig error=%v but option defaults valid=%v", out == "err", v.subs != nil)
			}
			if job == nil {
				c.Count("newjob.err")
				continue
			}
			// "a pure function of the JobConfig and the schedule time": the (informer-cached)
			// JobConfig must come out unchanged, and the Job must not alias its maps — otherwise a
			// second worker building another schedule time of the same JobConfig rewrites what this
			// Job records before it is serialised.
			if !reflect.DeepEqual(before, v.obj) {
				c.Violate("C02", "pure-function", "NewJobFromJobConfig(%s, %d) modified the JobConfig it was given (cached object)", ty, t)
				*v.obj = *before.DeepCopy()
			}
			for k := range job.Annotations {
				job.Annotations[k] += "~probe"
			}
			for k := range job.Labels {
				job.Labels[k] += "~probe"
			}
			if !reflect.DeepEqual(before, v.obj) {
				c.Violate("C02", "pure-function", "the Job built for (%s, %d) shares its label/annotation maps with the JobConfig", ty, t)
				*v.obj = *before.DeepCopy()
			}
			for k, val := range job.Annotations {
				job.Annotations[k] = strings.TrimSuffix(val, "~probe")
			}
			for k, val := range job.Labels {
				job.Labels[k] = strings.TrimSuffix(val, "~probe")
			}
			w.checkIdentity(job, v.obj, ty, t, "newjob")
			if job.Spec.Template == &v.obj.Spec.Template.Spec || !reflect.DeepEqual(job.Spec.Template, &v.obj.Spec.Template.Spec) {
				c.Violate("C02", "job-records-identity", "template not copied by value")
			}
			_, tmplHas := v.obj.Spec.Template.Annotations[crAnnSchedule]
			if ty != execution.JobTypeScheduled && tmplHas {
				c.Count("newjob.nonscheduled-inherits-template-schedule-annotation")
			}
			if tmplHas && ty == execution.JobTypeScheduled {
				c.Count("newjob.template-annotation-collision-overridden")
			}
			if _, has := v.obj.Spec.Template.Labels[crLabelUID]; has {
				c.Count("newjob.template-label-collision-overridden")
			}
		}
	}
}

// checkIdentity: the clause "the Job's name is a function of (JobConfig name, time), it records
// that time, and is owned by and labelled with exactly that JobConfig" on one produced Job.
func (w *crWorld) checkIdentity(job *execution.Job, jc *execution.JobConfig, ty execution.JobType, t int64, where string) {
	c := w.c
	ts := strconv.FormatInt(t, 10)
	if t != crZeroUnix && job.Name != jc.Name+"-"+ts {
		c.Violate("C02", "name-function", "%s: Job name %q for (%q,%d)", where, job.Name, jc.Name, t)
	}
	if job.Namespace != jc.Namespace {
		c.Violate("C02", "job-records-identity", "%s: namespace %q, JobConfig in %q", where, job.Namespace, jc.Namespace)
	}
	if ty == execution.JobTypeScheduled {
		if a, ok := job.Annotations[crAnnSchedule]; !ok || a != ts {
			c.Violate("C02", "job-records-identity", "%s: schedule-time annotation %q (present=%v) for t=%d", where, a, ok, t)
		}
	}
	if l, ok := job.Labels[crLabelUID]; !ok || l != string(jc.UID) {
		c.Violate("C02", "job-records-identity", "%s: uid label %q (present=%v), JobConfig uid %q", where, l, ok, jc.UID)
	}
	ref := metav1.GetControllerOf(job)
	if ref == nil || ref.UID != jc.UID || ref.Name != jc.Name || ref.Kind != execution.KindJobConfig || len(job.OwnerReferences) != 1 {
		c.Violate("C02", "job-records-identity", "%s: controller reference %+v for JobConfig %q/%q", where, ref, jc.Name, jc.UID)
	}
	for k, v := range jc.Spec.Template.Labels {
		if k != crLabelUID && job.Labels[k] != v {
			c.Violate("C02", "job-records-identity", "%s: template label %q lost", where, k)
		}
	}
	for k, v := range jc.Spec.Template.Annotations {
		if k != crAnnSchedule && job.Annotations[k] != v {
			c.Violate("C02", "job-records-identity", "%s: template annotation %q lost", where, k)
		}
	}
	if job.Spec.Type != ty {
		c.Violate("C02", "job-records-identity", "%s: type %q, requested %q", where, job.Spec.Type, ty)
	}
}

// ---------------------------------------------------------------- history stream

type crStore struct{ counts map[types.UID]int64 }

func (s *crStore) Name() string { return "StubActiveJobStore" }
func (s *crStore) CountActiveJobsForConfig(rjc *execution.JobConfig) int64 {
	return s.counts[rjc.UID]
}
func (s *crStore) CheckAndAdd(*execution.JobConfig, int64) bool { return true }
func (s *crStore) Delete(*execution.JobConfig)                  {}

type crRecorder struct{ events []string }

func (r *crRecorder) CreatedJob(context.Context, *execution.JobConfig, *execution.Job) {
	r.events = append(r.events, "created")
}
func (r *crRecorder) CreateJobFailed(context.Context, *execution.JobConfig, *execution.Job, string) {
	r.events = append(r.events, "createFailed")
}
func (r *crRecorder) SkippedJobSchedule(context.Context, *execution.JobConfig, time.Time, string) {
	r.events = append(r.events, "skipped")
}

// crWorld is shared by all cases of a run: one sim context and one croncontroller.Context
// (NewContext starts work-queue goroutines, so it is created once); everything else is per case.
type crWorld struct {
	c    *Ctx
	sctx *sim.Context
	cctx *croncontroller.Context
}

type crHist struct {
	w        *crWorld
	cs       *furikofake.Clientset
	rec      *croncontroller.Reconciler
	store    *crStore
	recorder *crRecorder
	inject   string
	resp     string
	created  *execution.Job // object of the create action of the current sync
	applied  bool           // whether it reached the tracker
	versions []*crJC
	cached   map[string]*crJC // store key -> version currently in the JobConfig cache
	byUID    map[string][]*crJC
	zeroNow  map[int64]int     // observed wall-clock second -> token
	zeroName map[string]string // real job name -> normalised name
	nCreated int
	nRepeat  int
	outside  bool // a fault outside E-ErrNotApplied was injected
}

func (h *crHist) norm(name string) string {
	if n, ok := h.zeroName[name]; ok {
		return n
	}
	return name
}

func newCrHist(w *crWorld) *crHist {
	h := &crHist{w: w, store: &crStore{counts: map[types.UID]int64{}}, recorder: &crRecorder{},
		cached: map[string]*crJC{}, byUID: map[string][]*crJC{}, zeroNow: map[int64]int{}, zeroName: map[string]string{}}
	_ = w.sctx.Sim().Jobs().GetStore().Replace(nil, "")
	_ = w.sctx.Sim().JobConfigs().GetStore().Replace(nil, "")
	h.cs = furikofake.NewSimpleClientset()
	// The reactor plays the API server's answer: truthful (tracker = name uniqueness), or an
	// injected fault.  It always handles the action so that the answer class is observable.
	h.cs.PrependReactor("create", "jobs", func(action ktesting.Action) (bool, runtime.Object, error) {
		ca := action.(ktesting.CreateAction)
		obj := ca.GetObject().(*execution.Job)
		h.created = obj.DeepCopy()
		switch h.inject {
		case "err":
			h.resp = "err"
			return true, nil, errors.New("injected transient error")
		case "invalid":
			h.resp = "invalid"
			return true, nil, kerrors.NewInvalid(execution.GVKJob.GroupKind(), obj.Name,
				field.ErrorList{field.Invalid(field.NewPath("metadata", "name"), obj.Name, "injected")})
		}
		err := h.cs.Tracker().Create(crGVRJobs, obj, action.GetNamespace())
		if err != nil {
			if kerrors.IsAlreadyExists(err) {
				h.resp = "exists"
			} else {
				h.resp = "err"
			}
			return true, nil, err
		}
		h.applied = true
		if h.inject == "errApplied" {
			h.resp = "err"
			return true, nil, errors.New("injected timeout after apply")
		}
		h.resp = "ok"
		stored, gerr := h.cs.Tracker().Get(crGVRJobs, action.GetNamespace(), obj.Name)
		return true, stored, gerr
	})
	name := (&croncontroller.Reconciler{}).Name()
	h.rec = croncontroller.NewReconciler(w.cctx, croncontroller.NewExecutionControl(name, h.cs.ExecutionV1alpha1(), h.recorder),
		h.recorder, h.store, nil)
	return h
}

func (h *crHist) trackerJobs() []*execution.Job {
	objs, err := h.cs.Tracker().List(crGVRJobs, execution.GVKJob, "")
	if err != nil {
		return nil
	}
	list, ok := objs.(*execution.JobList)
	if !ok {
		return nil
	}
	out := make([]*execution.Job, 0, len(list.Items))
	for i := range list.Items {
		out = append(out, &list.Items[i])
	}
	sort.Slice(out, func(i, j int) bool {
		if out[i].Namespace != out[j].Namespace {
			return out[i].Namespace < out[j].Namespace
		}
		return out[i].Name < out[j].Name
	})
	return out
}

func ownerUID(j *execution.Job) string {
	if ref := metav1.GetControllerOf(j); ref != nil {
		return string(ref.UID)
	}
	return ""
}

type crPair struct{ uid, ann string }

// checkServer: the at-most-one clause and the identity clauses on the server's Job collection.
func (h *crHist) checkServer() {
	c := h.w.c
	groups := map[crPair][]string{}
	for _, j := range h.trackerJobs() {
		ann, has := j.Annotations[crAnnSchedule]
		uid := ownerUID(j)
		if !has || uid == "" {
			c.Violate("C02", "job-records-identity", "Job %s/%s on the server has no schedule-time annotation or controller owner", j.Namespace, j.Name)
			continue
		}
		groups[crPair{uid, ann}] = append(groups[crPair{uid, ann}], j.Namespace+"/"+j.Name)
		if j.Labels[crLabelUID] != uid {
			c.Violate("C02", "job-records-identity", "Job %s/%s: uid label %q, controller owner %q", j.Namespace, j.Name, j.Labels[crLabelUID], uid)
		}
		vs := h.byUID[uid]
		if len(vs) == 0 {
			c.Violate("C02", "job-records-identity", "Job %s/%s owned by unknown uid %q", j.Namespace, j.Name, uid)
			continue
		}
		jc := vs[0].obj
		if ann == strconv.FormatInt(crZeroUnix, 10) {
			continue // name of the zero time is the known finding C02-F1 (judged in its own scenario)
		}
		if j.Name != jc.Name+"-"+ann || j.Namespace != jc.Namespace {
			c.Violate("C02", "name-function", "Job %s/%s owned by %s/%s with schedule time %s", j.Namespace, j.Name, jc.Namespace, jc.Name, ann)
		}
		if v, ok := oracleAtoi(ann); !ok || strconv.FormatInt(v, 10) != ann {
			c.Violate("C02", "job-records-identity", "Job %s/%s: schedule-time annotation %q is not a canonical integer", j.Namespace, j.Name, ann)
		}
	}
	for p, names := range groups {
		if len(names) > 1 {
			sort.Strings(names)
			if p.ann == strconv.FormatInt(crZeroUnix, 10) {
				// outside the property's domain: the zero time.Time never reaches the
				// reconciler (CronWorker.Work skips it); GenerateName substitutes the wall
				// clock for it. Reported as an observation, see DESIGN.md (C02).
				c.Count("hist.zero-time-duplicate(observation, out of domain)")
				continue
			}
			c.Violate("C02", "at-most-one", "%d Jobs for JobConfig uid %q and schedule time %s: %s", len(names), p.uid, p.ann, strings.Join(names, " "))
		}
	}
}

func (h *crHist) existsFor(uid string, t int64) bool {
	ann := strconv.FormatInt(t, 10)
	for _, j := range h.trackerJobs() {
		if ownerUID(j) == uid && j.Annotations[crAnnSchedule] == ann {
			return true
		}
	}
	return false
}

func (h *crHist) snapshot() string {
	var b strings.Builder
	for _, j := range h.trackerJobs() {
		b.WriteString(crShowJob(j, j.Name))
		b.WriteByte('\n')
	}
	return b.String()
}

// sync runs one SyncOne (direct) or one work item (key through SplitMetaNamespaceKey first).
// want: the (JobConfig version, time) this request stands for, if well-formed (nil otherwise).
func (h *crHist) sync(viaItem bool, ns, name, inject string, want *crJC, t int64) {
	c := h.w.c
	h.inject, h.resp, h.created, h.applied = inject, "-", nil, false
	h.recorder.events = nil
	h.cs.ClearActions()
	if inject == "errApplied" {
		h.outside = true
	}
	zero := want != nil && t == crZeroUnix
	tok := crNowBase
	zeroSec := int64(0)
	if zero {
		for time.Now().Nanosecond() > 900_000_000 {
			time.Sleep(10 * time.Millisecond)
		}
		sec := time.Now().Unix()
		zeroSec = sec
		if _, ok := h.zeroNow[sec]; !ok {
			h.zeroNow[sec] = len(h.zeroNow)
		}
		tok = crNowBase + int64(h.zeroNow[sec])
	}
	var cachedV *crJC
	if want != nil {
		cachedV = h.cached[storeKey(want.obj)]
	}
	existed := want != nil && cachedV != nil && h.existsFor(string(cachedV.obj.UID), t)
	if existed {
		h.nRepeat++
	}
	before := ""
	if existed {
		before = h.snapshot()
	}
	res := Guard(func() string {
		var err error
		if viaItem {
			key := name
			var n2, nm2 string
			n2, nm2, err = cache.SplitMetaNamespaceKey(key)
			if err == nil {
				err = h.rec.SyncOne(context.Background(), n2, nm2, 0)
			} else {
				return "invalid"
			}
		} else {
			err = h.rec.SyncOne(context.Background(), ns, name, 0)
		}
		switch {
		case err == nil:
			return "ok"
		case strings.HasPrefix(err.Error(), "could not split key"):
			return "invalid"
		}
		return "err"
	})
	// create actions issued, from the clientset's action log
	nCreate := 0
	for _, a := range h.cs.Actions() {
		if a.Matches("create", "jobs") {
			nCreate++
		} else {
			c.Violate("C02", "unexpected-api-call", "%s %s", a.GetVerb(), a.GetResource().Resource)
		}
	}
	if nCreate > 1 {
		c.Violate("C02", "at-most-one", "%d create calls in one sync", nCreate)
	}
	call := "-"
	if h.created != nil {
		nm := h.created.Name
		if zero && (nm == fmt.Sprintf("%s-%d", want.obj.Name, zeroSec) || nm == fmt.Sprintf("%s-%d", want.obj.Name, zeroSec+1)) {
			nm = fmt.Sprintf("%s-%d", want.obj.Name, tok)
			h.zeroName[h.created.Name] = nm
		}
		call = crShowJob(h.created, nm)
	}
	ev := "-"
	if len(h.recorder.events) > 0 {
		ev = strings.Join(h.recorder.events, ",")
	}
	out := res
	if res != "panic" {
		out = fmt.Sprintf("%s ev=%s resp=%s call=%s", res, ev, h.resp, call)
	}
	if viaItem {
		c.Emit(fmt.Sprintf("cronrec.item %s %s %d", Q(name), inject, tok), out)
	} else {
		c.Emit(fmt.Sprintf("cronrec.sync %s %s %s %d", Q(ns), Q(name), inject, tok), out)
	}
	c.Count("hist.sync." + res)
	c.Count("hist.resp." + h.resp)
	if ev != "-" {
		c.Count("hist.event." + ev)
	}
	// which branch of processCronForConfig was taken, from the harness's own knowledge
	switch {
	case res == "invalid":
		c.Count("hist.branch.key-rejected")
	case h.created != nil:
		c.Count("hist.branch.create-call")
	case want == nil:
		c.Count("hist.branch.other")
	case cachedV == nil:
		c.Count("hist.branch.jobconfig-not-in-cache")
	case ev == "skipped":
		jc := cachedV.obj
		if jc.Spec.Concurrency.Policy == execution.ConcurrencyPolicyForbid &&
			h.store.counts[jc.UID]+1 > jc.Spec.Concurrency.GetMaxConcurrency() {
			c.Count("hist.branch.skipped-forbid")
		} else {
			c.Count("hist.branch.skipped-queue-full")
		}
	case res == "err":
		c.Count("hist.branch.option-defaults-error")
	default:
		c.Count("hist.branch.job-cache-hit")
	}

	// ---- monitors
	if h.applied {
		h.nCreated++
		if want != nil && cachedV != nil {
			if existed && !zero {
				c.Violate("C02", "second-create", "a second create succeeded for JobConfig uid %q and time %d", cachedV.obj.UID, t)
			}
			h.w.checkIdentity(h.created, cachedV.obj, execution.JobTypeScheduled, t, "sync")
		}
	}
	if (inject == "err" || inject == "invalid") && h.applied {
		c.Violate("C02", "harness", "fault injected but the create was applied")
	}
	if existed && !zero && before != h.snapshot() {
		c.Violate("C02", "process-idempotent", "server changed by re-processing (uid %q, t %d) although its Job existed", cachedV.obj.UID, t)
	}
	if existed && !zero && h.created != nil && h.resp != "exists" && inject == "none" {
		c.Violate("C02", "process-idempotent", "re-processing an existing (uid %q, t %d) was answered %s", cachedV.obj.UID, t, h.resp)
	}
	h.checkServer()
}

func storeKey(jc *execution.JobConfig) string {
	k, _ := cache.MetaNamespaceKeyFunc(jc)
	return k
}

func (h *crHist) addVersion(v *crJC) {
	h.versions = append(h.versions, v)
	h.byUID[string(v.obj.UID)] = append(h.byUID[string(v.obj.UID)], v)
	h.w.emitJC(v)
}

func (h *crHist) jcSet(v *crJC) {
	h.w.sctx.Sim().JobConfigs().CacheSet(v.obj)
	h.cached[storeKey(v.obj)] = v
	h.w.c.Emit(fmt.Sprintf("cronrec.jcset %d", v.id), "ok")
	h.w.c.Count("hist.jcset")
}

func (h *crHist) jcDel(v *crJC) {
	h.w.sctx.Sim().JobConfigs().CacheDel(v.obj)
	delete(h.cached, storeKey(v.obj))
	h.w.c.Emit(fmt.Sprintf("cronrec.jcdel %d", v.id), "ok")
	h.w.c.Count("hist.jcdel")
}

func (h *crHist) setActive(uid string, n int64) {
	h.store.counts[types.UID(uid)] = n
	h.w.c.Emit(fmt.Sprintf("cronrec.active %s %d", Q(uid), n), "ok")
}

func (h *crHist) setMaxEnqueued(v *int64) {
	cfg := &configv1alpha1.JobConfigExecutionConfig{MaxEnqueuedJobs: v}
	h.w.sctx.MockConfigs().SetConfigs(map[configv1alpha1.ConfigName]runtime.Object{configv1alpha1.JobConfigExecutionConfigName: cfg})
	h.w.c.Emit("cronrec.reset "+OptI(v), "ok")
}

// deliver: the Job informer catches up on one Job (server -> cache).
func (h *crHist) deliver(ns, name string) {
	c := h.w.c
	obj, err := h.cs.Tracker().Get(crGVRJobs, ns, name)
	out := "nojob"
	if err == nil {
		h.w.sctx.Sim().Jobs().CacheSet(obj)
		out = "ok"
	}
	c.Emit(fmt.Sprintf("cronrec.deliver %s %s", Q(ns), Q(h.norm(name))), out)
	c.Count("hist.deliver." + out)
}

func (h *crHist) deliverAll() {
	for _, j := range h.trackerJobs() {
		h.deliver(j.Namespace, j.Name)
	}
}

func (h *crHist) undeliver(ns, name string) {
	h.w.sctx.Sim().Jobs().CacheDel(&execution.Job{ObjectMeta: metav1.ObjectMeta{Namespace: ns, Name: name}})
	h.w.c.Emit(fmt.Sprintf("cronrec.undeliver %s %s", Q(ns), Q(h.norm(name))), "ok")
	h.w.c.Count("hist.undeliver")
}

func (h *crHist) clearJobCache() {
	_ = h.w.sctx.Sim().Jobs().GetStore().Replace(nil, "")
	h.w.c.Emit("cronrec.jobcache.clear", "ok")
	h.w.c.Count("hist.restart(job-cache-empty)")
}

func (h *crHist) jobDel(ns, name string) {
	err := h.cs.Tracker().Delete(crGVRJobs, ns, name)
	out := "ok"
	if err != nil {
		out = "notfound"
	}
	h.w.c.Emit(fmt.Sprintf("cronrec.jobdel %s %s", Q(ns), Q(h.norm(name))), out)
	h.w.c.Count("hist.jobdel." + out)
}

func (h *crHist) dump() {
	rows := []string{}
	for _, j := range h.trackerJobs() {
		u, a := "-", "-"
		if x := ownerUID(j); x != "" {
			u = qI(x)
		}
		if x, ok := j.Annotations[crAnnSchedule]; ok {
			a = qI(x)
		}
		rows = append(rows, fmt.Sprintf("%s/%s|%s|%s", qI(j.Namespace), qI(h.norm(j.Name)), u, a))
	}
	sort.Strings(rows)
	out := "-"
	if len(rows) > 0 {
		out = strings.Join(rows, " ")
	}
	h.w.c.Emit("cronrec.dump", out)
}

// request runs the sync for (version v, time t) through the real key function.
func (h *crHist) request(v *crJC, t int64, inject string, viaItem bool) {
	key, err := croncontroller.JobConfigKeyFunc(v.obj, time.Unix(t, 0))
	if err != nil {
		return
	}
	if viaItem {
		h.sync(true, "", key, inject, v, t)
		return
	}
	name := strings.TrimPrefix(key, v.obj.Namespace+"/")
	h.sync(false, v.obj.Namespace, name, inject, v, t)
}

func (w *crWorld) historyCase(rng *rand.Rand) {
	c := w.c
	h := newCrHist(w)
	maxActions := 40
	if c.Tier == "thorough" {
		maxActions = 200
	}
	var mx *int64
	if rng.Intn(2) == 0 {
		v := []int64{0, 1, 3, 5, 20, 21}[rng.Intn(6)]
		mx = &v
	}
	h.setMaxEnqueued(mx)
	// JobConfig population: distinct (ns, name), distinct uids; plus re-created (new uid) and
	// updated (same uid) versions of some of them.
	nCfg := 1 + rng.Intn(3)
	used := map[string]bool{}
	id := 0
	for k := 0; k < nCfg; k++ {
		ns := []string{"default", "ns", "prod"}[rng.Intn(3)]
		if rng.Intn(40) == 0 {
			ns = ""
		}
		name := genCfgName(rng)
		if used[ns+"/"+name] {
			continue
		}
		used[ns+"/"+name] = true
		id++
		v := w.genJobConfig(rng, id, ns, name, fmt.Sprintf("uid-%d", id))
		if rng.Intn(3) != 0 { // keep most of them creatable
			v.obj.Status.Queued = 0
			if v.subs == nil {
				v.obj.Spec.Option = nil
				v.subs = map[string]string{}
			}
		}
		h.addVersion(v)
		if rng.Intn(8) != 0 {
			h.jcSet(v)
		}
		if rng.Intn(3) == 0 { // updated version, same uid
			id++
			u := w.genJobConfig(rng, id, ns, name, string(v.obj.UID))
			h.addVersion(u)
		}
		if rng.Intn(5) == 0 { // deleted and re-created: same name, new uid
			id++
			u := w.genJobConfig(rng, id, ns, name, fmt.Sprintf("uid-%d", id))
			h.addVersion(u)
		}
	}
	if len(h.versions) == 0 {
		return
	}
	times := []int64{}
	for k, n := 0, 1+rng.Intn(4); k < n; k++ {
		switch rng.Intn(6) {
		case 0:
			times = append(times, genTime(rng))
		case 1:
			if len(times) > 0 {
				times = append(times, times[len(times)-1]+1)
				continue
			}
			fallthrough
		default:
			times = append(times, []int64{100, 101, 1646586360, 1646586660, 0, -5, 5}[rng.Intn(7)])
		}
	}
	if rng.Intn(60) == 0 {
		times = append(times, crZeroUnix)
	}
	pickV := func() *crJC { return h.versions[rng.Intn(len(h.versions))] }
	pickT := func() int64 { return times[rng.Intn(len(times))] }
	pickInject := func() string {
		switch rng.Intn(12) {
		case 0, 1:
			return "err"
		case 2:
			return "invalid"
		case 3:
			if rng.Intn(2) == 0 {
				return "errApplied"
			}
			return "none"
		}
		return "none"
	}
	var lastV *crJC
	var lastT int64
	nAct := 5 + rng.Intn(maxActions-4)
	for a := 0; a < nAct; a++ {
		switch r := rng.Intn(100); {
		case r < 40: // a request (new, duplicate, or out of order)
			lastV, lastT = pickV(), pickT()
			h.request(lastV, lastT, pickInject(), rng.Intn(2) == 0)
		case r < 55: // immediate retry / duplicate firing of the previous request
			if lastV == nil {
				continue
			}
			c.Count("hist.retry")
			h.request(lastV, lastT, pickInject(), rng.Intn(2) == 0)
		case r < 60: // malformed work item
			v := pickV()
			bad := v.obj.Name
			if rng.Intn(3) != 0 {
				bad += "." + []string{"", "abc", "12a", "+", "-", "99999999999999999999", "1_0", " 1"}[rng.Intn(8)]
			}
			if rng.Intn(4) == 0 {
				h.sync(true, "", "a/b/"+bad, "none", nil, 0)
			} else {
				h.sync(false, v.obj.Namespace, bad, "none", nil, 0)
			}
		case r < 70: // Job informer catches up on one Job
			js := h.trackerJobs()
			if len(js) == 0 {
				continue
			}
			j := js[rng.Intn(len(js))]
			h.deliver(j.Namespace, j.Name)
		case r < 75:
			h.deliverAll()
		case r < 80: // restart: Job cache starts empty
			h.clearJobCache()
		case r < 84: // a Job disappears from the server (TTL / GC / user); cache may stay stale
			js := h.trackerJobs()
			if len(js) == 0 {
				continue
			}
			j := js[rng.Intn(len(js))]
			h.jobDel(j.Namespace, j.Name)
			if rng.Intn(2) == 0 {
				h.undeliver(j.Namespace, j.Name)
			}
		case r < 90: // JobConfig cache change
			v := pickV()
			if rng.Intn(3) == 0 {
				h.jcDel(v)
			} else {
				h.jcSet(v)
			}
		case r < 97: // active count reported by the store
			v := pickV()
			h.setActive(string(v.obj.UID), []int64{0, 0, 1, 1, 2, 3, 5}[rng.Intn(7)])
		default:
			h.dump()
		}
	}
	// quiescence: caches catch up, every pair is requested once more; nothing may change
	h.deliverAll()
	h.dump()
	if h.nCreated > 0 && h.nRepeat > 0 {
		c.Nontrivial()
	}
	if h.outside {
		c.Count("hist.case.outside-E-ErrNotApplied")
	} else {
		c.Count("hist.case.inside-envelope")
	}
}

// ---------------------------------------------------------------- corpus scenarios

func (w *crWorld) simpleJC(id int, ns, name, uid string, policy execution.ConcurrencyPolicy) *crJC {
	jc := &execution.JobConfig{
		TypeMeta:   metav1.TypeMeta{Kind: execution.KindJobConfig, APIVersion: execution.SchemeGroupVersion.String()},
		ObjectMeta: metav1.ObjectMeta{Namespace: ns, Name: name, UID: types.UID(uid)},
	}
	jc.Spec.Concurrency.Policy = policy
	return &crJC{id: id, obj: jc, subs: map[string]string{}}
}

func (w *crWorld) scenarios() {
	c := w.c
	c.RunScenario("duplicate-retry-lagging-cache", func() {
		h := newCrHist(w)
		h.setMaxEnqueued(nil)
		v := w.simpleJC(1, "default", "job-sample", "uid-1", execution.ConcurrencyPolicyAllow)
		h.addVersion(v)
		h.jcSet(v)
		h.request(v, 1606987620, "none", true)  // created
		h.request(v, 1606987620, "none", true)  // cache lags: AlreadyExists, error, server unchanged
		h.request(v, 1606987620, "none", false) // again
		h.deliver("default", "job-sample-1606987620")
		h.request(v, 1606987620, "none", true) // cache hit: no call
		h.clearJobCache()                      // restart
		h.request(v, 1606987620, "none", true) // AlreadyExists again
		h.dump()
		c.Nontrivial()
	})
	c.RunScenario("create-fault-then-retry", func() {
		h := newCrHist(w)
		h.setMaxEnqueued(nil)
		v := w.simpleJC(1, "ns", "nightly", "uid-1", execution.ConcurrencyPolicyForbid)
		h.addVersion(v)
		h.jcSet(v)
		h.request(v, 100, "err", true)
		h.request(v, 100, "invalid", true)
		h.request(v, 100, "none", true)
		h.request(v, 100, "err", true)
		h.request(v, 101, "errApplied", true)
		h.request(v, 101, "none", true)
		h.dump()
		c.Nontrivial()
	})
	c.RunScenario("dotted-and-dashed-names", func() {
		h := newCrHist(w)
		h.setMaxEnqueued(nil)
		names := []string{"a", "a.5", "a.5.6", "a-5", "a-"}
		var vs []*crJC
		for i, n := range names {
			v := w.simpleJC(i+1, "ns", n, fmt.Sprintf("uid-%d", i+1), execution.ConcurrencyPolicyAllow)
			h.addVersion(v)
			h.jcSet(v)
			vs = append(vs, v)
		}
		for _, v := range vs {
			for _, t := range []int64{5, 6, 56} {
				h.request(v, t, "none", true)
				h.request(v, t, "none", false)
			}
		}
		h.dump()
		c.Nontrivial()
	})
	c.RunScenario("forbid-at-limit-and-queue-full", func() {
		h := newCrHist(w)
		two := int64(2)
		h.setMaxEnqueued(&two)
		v := w.simpleJC(1, "ns", "jc", "uid-1", execution.ConcurrencyPolicyForbid)
		h.addVersion(v)
		h.jcSet(v)
		h.setActive("uid-1", 1)
		h.request(v, 100, "none", true) // skipped: 1+1 > 1
		h.setActive("uid-1", 0)
		h.request(v, 100, "none", true) // created
		q := w.simpleJC(2, "ns", "jc", "uid-1", execution.ConcurrencyPolicyEnqueue)
		q.obj.Status.Queued = 2
		h.addVersion(q)
		h.jcSet(q)
		h.request(q, 101, "none", true) // skipped: queue full
		q.obj.Status.Queued = 1
		h.addVersion(q)
		h.jcSet(q)
		h.request(q, 101, "none", true) // created
		h.dump()
		c.Nontrivial()
	})
	c.RunScenario("jobconfig-recreated-with-new-uid", func() {
		h := newCrHist(w)
		h.setMaxEnqueued(nil)
		v1 := w.simpleJC(1, "ns", "jc", "uid-old", execution.ConcurrencyPolicyAllow)
		v2 := w.simpleJC(2, "ns", "jc", "uid-new", execution.ConcurrencyPolicyAllow)
		h.addVersion(v1)
		h.addVersion(v2)
		h.jcSet(v1)
		h.request(v1, 100, "none", true)
		h.jcSet(v2)                      // deleted and re-created under the same name
		h.request(v2, 100, "none", true) // the old Job still holds the name: AlreadyExists, retried
		h.jobDel("ns", "jc-100")         // garbage collection of the old owner's Job
		h.request(v2, 100, "none", true)
		h.dump()
		c.Nontrivial()
	})
	// Replay of the Lean witness `name_not_injective_in_general`: a JobConfig name ending in `-`
	// (not a valid object name) with time 5 and the shorter name with time -5 map to one Job
	// name; the second pair is answered AlreadyExists forever.  No clause of C02 is violated
	// (still at most one Job per pair); it shows why `name_injective` needs its side condition.
	c.RunScenario("name-collision-trailing-dash-negative-time", func() {
		h := newCrHist(w)
		h.setMaxEnqueued(nil)
		v1 := w.simpleJC(1, "ns", "a-", "uid-1", execution.ConcurrencyPolicyAllow)
		v2 := w.simpleJC(2, "ns", "a", "uid-2", execution.ConcurrencyPolicyAllow)
		h.addVersion(v1)
		h.addVersion(v2)
		h.jcSet(v1)
		h.jcSet(v2)
		h.request(v1, 5, "none", true)
		h.request(v2, -5, "none", true)
		h.request(v2, -5, "none", false)
		h.dump()
		c.Nontrivial()
	})
	// Known finding C02-F1: a work item for the zero time.Time (unix -62135596800) is named after
	// the wall clock, so every retry one second later creates another Job for the same pair.
	c.RunScenario("zero-time-name", func() {
		h := newCrHist(w)
		h.setMaxEnqueued(nil)
		v := w.simpleJC(1, "ns", "jc", "uid-1", execution.ConcurrencyPolicyAllow)
		h.addVersion(v)
		h.jcSet(v)
		h.request(v, crZeroUnix, "none", true)
		time.Sleep(1100 * time.Millisecond)
		h.request(v, crZeroUnix, "none", true)
		h.dump()
		c.Nontrivial()
	})
}

func runCronRec(c *Ctx) {
	sctx := sim.NewContext()
	w := &crWorld{c: c, sctx: sctx, cctx: croncontroller.NewContext(sctx)}
	w.scenarios()
	c.ForCases(func(i int, rng *rand.Rand) {
		switch i % 10 {
		case 0, 1, 2, 3:
			w.codecCase(rng)
		case 4, 5:
			w.newJobCase(rng)
		default:
			w.historyCase(rng)
		}
	})
}
