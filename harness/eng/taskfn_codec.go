package eng

// Textual codec of the `taskfn` protocol (TaskRef / Task / Pod / Job / status values).  The
// grammar is documented at the top of lean/FurikoModel/Driver/TaskfnD.lean; both sides must be
// kept in step.  Exported so that the job-controller engine can reuse it.

import (
	"fmt"
	"math/big"
	"sort"
	"strings"
	"time"

	corev1 "k8s.io/api/core/v1"
	metav1 "k8s.io/apimachinery/pkg/apis/meta/v1"

	execution "github.com/furiko-io/furiko/apis/execution/v1alpha1"
	"github.com/furiko-io/furiko/pkg/execution/taskexecutor/podtaskexecutor"
	jobutil "github.com/furiko-io/furiko/pkg/execution/util/job"
	"github.com/furiko-io/furiko/pkg/execution/util/parallel"
)

// NanoStr renders any time.Time (including Go's zero time, year 1) as Unix nanoseconds.
func NanoStr(t time.Time) string {
	b := big.NewInt(t.Unix())
	b.Mul(b, big.NewInt(1000000000))
	b.Add(b, big.NewInt(int64(t.Nanosecond())))
	return b.String()
}

// EncTime renders a timestamp; zero time = "-".
func EncTime(t metav1.Time) string {
	if t.IsZero() {
		return "-"
	}
	return NanoStr(t.Time)
}

// EncTimeP renders an optional timestamp; nil or zero = "-".
func EncTimeP(t *metav1.Time) string {
	if t.IsZero() {
		return "-"
	}
	return NanoStr(t.Time)
}

// OptInt renders *int64.
func OptInt(p *int64) string { return OptI(p) }

// IndexVal is the opaque rendering of a ParallelIndex value.
func IndexVal(ix execution.ParallelIndex) string {
	switch {
	case ix.IndexNumber != nil && ix.IndexKey == "" && len(ix.MatrixValues) == 0:
		return fmt.Sprintf("n%d", *ix.IndexNumber)
	case ix.IndexNumber == nil && ix.IndexKey != "" && len(ix.MatrixValues) == 0:
		return "k" + ix.IndexKey
	case ix.IndexNumber == nil && ix.IndexKey == "" && len(ix.MatrixValues) > 0:
		ks := SortedKeys(ix.MatrixValues)
		parts := make([]string, 0, len(ks))
		for _, k := range ks {
			parts = append(parts, k+"="+ix.MatrixValues[k])
		}
		return "m" + strings.Join(parts, ",")
	}
	// mixed / empty shapes
	s := "x"
	if ix.IndexNumber != nil {
		s += fmt.Sprintf("n%d", *ix.IndexNumber)
	}
	s += "k" + ix.IndexKey
	for _, k := range SortedKeys(ix.MatrixValues) {
		s += "," + k + "=" + ix.MatrixValues[k]
	}
	return s
}

// HashOf is parallel.HashIndex (the external hashstructure library behind it is an oracle of
// the model); errors render as "!err".
func HashOf(ix execution.ParallelIndex) string {
	h, err := parallel.HashIndex(ix)
	if err != nil {
		return "!err"
	}
	return h
}

// EncPIndexV renders a ParallelIndex value as <hash>@<val>.
func EncPIndexV(ix execution.ParallelIndex) string {
	return HashOf(ix) + "@" + Q(IndexVal(ix))
}

// EncPIndex renders an optional ParallelIndex.
func EncPIndex(ix *execution.ParallelIndex) string {
	if ix == nil {
		return "-"
	}
	return EncPIndexV(*ix)
}

// EncPIndexes renders a list of indexes.
func EncPIndexes(l []execution.ParallelIndex) string {
	if len(l) == 0 {
		return "-"
	}
	parts := make([]string, len(l))
	for i, ix := range l {
		parts[i] = EncPIndexV(ix)
	}
	return strings.Join(parts, "#")
}

func EncTState(s execution.TaskState) string {
	switch s {
	case execution.TaskStarting:
		return "St"
	case execution.TaskRunning:
		return "Ru"
	case execution.TaskKilling:
		return "Ki"
	case execution.TaskTerminated:
		return "Te"
	case execution.TaskDeletedFinalStateUnknown:
		return "Dl"
	case "":
		return "-"
	}
	return "?" + Q(string(s))
}

func EncTRes(r execution.TaskResult) string {
	switch r {
	case execution.TaskSucceeded:
		return "S"
	case execution.TaskFailed:
		return "F"
	case execution.TaskKilled:
		return "K"
	case "":
		return "-"
	}
	return "?" + Q(string(r))
}

func EncStatus(s execution.TaskStatus) string {
	return EncTState(s.State) + "^" + EncTRes(s.Result) + "^" + Q(s.Reason)
}

func EncDStatus(s *execution.TaskStatus) string {
	if s == nil {
		return "~"
	}
	return EncStatus(*s)
}

// EncTaskRef renders one TaskRef (8 fields).
func EncTaskRef(r execution.TaskRef) string {
	return strings.Join([]string{
		Q(r.Name), EncTime(r.CreationTimestamp), EncTimeP(r.RunningTimestamp), EncTimeP(r.FinishTimestamp),
		fmt.Sprint(r.RetryIndex), EncPIndex(r.ParallelIndex), EncStatus(r.Status), EncDStatus(r.DeletedStatus),
	}, ";")
}

// EncTaskRefs renders a TaskRef list.
func EncTaskRefs(l []execution.TaskRef) string {
	if len(l) == 0 {
		return "-"
	}
	parts := make([]string, len(l))
	for i, r := range l {
		parts[i] = EncTaskRef(r)
	}
	return strings.Join(parts, "#")
}

// TaskLike is the part of tasks.Task the codec needs.
type TaskLike interface {
	GetName() string
	GetTaskRef() execution.TaskRef
	GetDeletionTimestamp() *metav1.Time
}

// EncTask renders a live task (10 fields).
func EncTask(t TaskLike) string {
	return Q(t.GetName()) + ";" + EncTimeP(t.GetDeletionTimestamp()) + ";" + EncTaskRef(t.GetTaskRef())
}

func encTerm(t *corev1.ContainerStateTerminated) string {
	if t == nil {
		return "~"
	}
	return EncTime(t.StartedAt) + "&" + EncTime(t.FinishedAt) + "&" + Q(t.Reason)
}

func encPhase(p corev1.PodPhase) string {
	switch p {
	case corev1.PodPending:
		return "P"
	case corev1.PodRunning:
		return "R"
	case corev1.PodSucceeded:
		return "S"
	case corev1.PodFailed:
		return "F"
	case corev1.PodUnknown:
		return "U"
	}
	return "O"
}

// EncPod renders the Pod fields PodTask reads (12 fields).  GetRetryIndex, GetParallelIndex,
// IsPodConditionScheduled and GetReasonMessage are transmitted as their results (oracle data:
// label / annotation / condition parsing is not modelled).
func EncPod(p *corev1.Pod) string {
	pt := podtaskexecutor.NewPodTask(p, nil)
	retry := "-"
	if ri, ok := pt.GetRetryIndex(); ok {
		retry = fmt.Sprint(ri)
	}
	pidx := "-"
	if pi, ok := pt.GetParallelIndex(); ok {
		pidx = EncPIndex(pi)
	}
	reason, _ := pt.GetReasonMessage()
	conts := "-"
	if len(p.Status.ContainerStatuses) > 0 {
		parts := make([]string, len(p.Status.ContainerStatuses))
		for i, c := range p.Status.ContainerStatuses {
			run := "~"
			if c.State.Running != nil {
				run = EncTime(c.State.Running.StartedAt)
			}
			parts[i] = run + "*" + encTerm(c.State.Terminated) + "*" + encTerm(c.LastTerminationState.Terminated)
		}
		conts = strings.Join(parts, "!")
	}
	return strings.Join([]string{
		Q(p.Name), EncTime(p.CreationTimestamp), EncTimeP(p.DeletionTimestamp), encPhase(p.Status.Phase),
		EncTimeP(p.Status.StartTime), Q(p.Status.Reason), OptI(p.Spec.ActiveDeadlineSeconds), retry, pidx,
		B(podtaskexecutor.IsPodConditionScheduled(p)), Q(reason), conts,
	}, ";")
}

func EncIState(s execution.IndexState) string {
	switch s {
	case execution.IndexNotCreated:
		return "NC"
	case execution.IndexRetryBackoff:
		return "RB"
	case execution.IndexStarting:
		return "St"
	case execution.IndexRunning:
		return "Ru"
	case execution.IndexTerminated:
		return "Te"
	case "":
		return "-"
	}
	return "?" + Q(string(s))
}

func EncIndexStatus(s execution.ParallelIndexStatus) string {
	return strings.Join([]string{EncPIndexV(s.Index), Q(s.Hash), fmt.Sprint(s.CreatedTasks), EncIState(s.State), EncTRes(s.Result)}, "*")
}

func EncIndexStatuses(l []execution.ParallelIndexStatus) string {
	if len(l) == 0 {
		return "-"
	}
	parts := make([]string, len(l))
	for i, s := range l {
		parts[i] = EncIndexStatus(s)
	}
	return strings.Join(parts, "!")
}

func encOptBool(b *bool) string {
	if b == nil {
		return "-"
	}
	return B(*b)
}

func EncPStatus(p *execution.ParallelStatus) string {
	if p == nil {
		return "~"
	}
	return B(p.Complete) + "|" + encOptBool(p.Successful) + "|" + EncIndexStatuses(p.Indexes)
}

func EncJobResult(r execution.JobResult) string {
	switch r {
	case execution.JobResultSuccess:
		return "Su"
	case execution.JobResultFailed:
		return "Fa"
	case execution.JobResultAdmissionError:
		return "AE"
	case execution.JobResultKilled:
		return "Ki"
	case execution.JobResultFinalStateUnknown:
		return "FU"
	}
	return "-"
}

// EncCondition renders a JobCondition (reasons as enums, messages dropped).
func EncCondition(c execution.JobCondition) string {
	q, w, r, f := "~", "~", "~", "~"
	if c.Queueing != nil {
		switch c.Queueing.Reason {
		case "":
			q = "-"
		case "NotYetDue":
			q = "ND"
		case "Queued":
			q = "Qd"
		default:
			q = "?" + Q(c.Queueing.Reason)
		}
	}
	if c.Waiting != nil {
		switch c.Waiting.Reason {
		case "":
			w = "-"
		case "DeletingTasks":
			w = "DT"
		case "PendingCreation":
			w = "PC"
		case "RetryBackoff":
			w = "RB"
		case "WaitingForTasks":
			w = "WT"
		default:
			w = "?" + Q(c.Waiting.Reason)
		}
	}
	if c.Running != nil {
		r = EncTime(c.Running.LatestCreationTimestamp) + ":" + EncTime(c.Running.LatestRunningTimestamp) + ":" + fmt.Sprint(c.Running.TerminatingTasks)
	}
	if c.Finished != nil {
		f = EncTimeP(c.Finished.LatestCreationTimestamp) + ":" + EncTimeP(c.Finished.LatestRunningTimestamp) + ":" +
			EncTime(c.Finished.FinishTimestamp) + ":" + EncJobResult(c.Finished.Result)
	}
	return q + "|" + w + "|" + r + "|" + f
}

func EncJState(s execution.JobState) string {
	switch s {
	case execution.JobStateQueued:
		return "Q"
	case execution.JobStateWaiting:
		return "W"
	case execution.JobStateRunning:
		return "R"
	case execution.JobStateFinished:
		return "F"
	case "":
		return "-"
	}
	return "?" + Q(string(s))
}

func encStrategy(s execution.ParallelCompletionStrategy) string {
	switch s {
	case "":
		return "-"
	case execution.AllSuccessful:
		return "All"
	case execution.AnySuccessful:
		return "Any"
	}
	return "Oth"
}

// HasAdmissionError reports whether the admission-error annotation is present.
func HasAdmissionError(rj *execution.Job) bool {
	_, ok := rj.Annotations[jobutil.LabelKeyAdmissionErrorMessage]
	return ok
}

// EncJob renders a Job as the 20 tokens of the protocol (joined by spaces).
func EncJob(rj *execution.Job) string {
	t := make([]string, 0, 20)
	tm := rj.Spec.Template
	if tm == nil {
		t = append(t, "~", "~", "-", "-", "-", "-", "0")
	} else {
		t = append(t, "T")
		if tm.Parallelism == nil {
			t = append(t, "~", "-")
		} else {
			t = append(t, encStrategy(tm.Parallelism.CompletionStrategy), EncPIndexes(parallel.GenerateIndexes(tm.Parallelism)))
		}
		t = append(t, OptI(tm.MaxAttempts), OptI(tm.RetryDelaySeconds), OptI(tm.TaskPendingTimeoutSeconds), B(tm.ForbidTaskForceDeletion))
	}
	t = append(t, EncTimeP(rj.Spec.KillTimestamp), OptI(rj.Spec.TTLSecondsAfterFinished), B(HasAdmissionError(rj)), EncTimeP(rj.DeletionTimestamp))
	if sp := rj.Spec.StartPolicy; sp == nil {
		t = append(t, "~")
	} else {
		t = append(t, EncTimeP(sp.StartAfter)+":"+B(sp.ConcurrencyPolicy == execution.ConcurrencyPolicyEnqueue))
	}
	st := rj.Status
	t = append(t, EncTimeP(st.StartTime), Q(string(st.Phase)), EncJState(st.State), EncCondition(st.Condition),
		fmt.Sprint(st.CreatedTasks), fmt.Sprint(st.RunningTasks), EncTaskRefs(st.Tasks), EncPStatus(st.ParallelStatus))
	return strings.Join(t, " ")
}

// EncRequests renders the result of ComputeMissingIndexesForCreation.
func EncRequests(l []parallel.IndexCreationRequest) string {
	if len(l) == 0 {
		return "-"
	}
	parts := make([]string, len(l))
	for i, r := range l {
		parts[i] = EncPIndexV(r.ParallelIndex) + "*" + fmt.Sprint(r.RetryIndex) + "*" + NanoStr(r.Earliest)
	}
	return strings.Join(parts, "#")
}

// SortedStrings returns a sorted copy.
func SortedStrings(l []string) []string {
	out := append([]string(nil), l...)
	sort.Strings(out)
	return out
}
