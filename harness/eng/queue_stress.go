package eng

import (
	"sync"
	stdatomic "sync/atomic"
	"time"

	furikoatomic "github.com/furiko-io/furiko/pkg/utils/atomic"
)

// counterConservationStress (C05, monitor only — no op lines, the Lean model treats the counter's
// CAS as atomic): the active-job counter is shared by the queue workers (CheckAndAdd = reserve a
// slot) and the store's informer handler (Remove = a Job became inactive).  Whatever the
// interleaving, no successful reservation may be lost: after all goroutines have finished, the
// counter equals successful adds minus removes.  Two goroutines hammer ONE key so that the count
// keeps returning to zero (the state in which a "release the node at zero" optimisation would
// unlink the node under a concurrent reservation).  A correct counter passes for every schedule,
// so this cannot raise a false alarm; it is a stress test, not a proof.
func counterConservationStress(c *Ctx) {
	// several short trials: on a loaded machine one trial may happen to run the two goroutines
	// almost sequentially; the time bound keeps the check fast
	deadline := time.Now().Add(2500 * time.Millisecond)
	for trial := 0; trial < 8 && time.Now().Before(deadline); trial++ {
		if !counterConservationTrial(c, 400000) {
			return
		}
	}
}

func counterConservationTrial(c *Ctx, rounds int) bool {
	ctr := furikoatomic.NewCounter()
	key := "uid-stress"
	var adds, removes, outstanding int64
	var wg sync.WaitGroup
	start := make(chan struct{})
	wg.Add(3)
	worker := func() { // a per-JobConfig queue worker reserving a slot
		defer wg.Done()
		<-start
		for i := 0; i < rounds; i++ {
			old := ctr.Get(key)
			if old >= 1 { // maxConcurrency 1
				continue
			}
			if ctr.CheckAndAdd(key, old) {
				stdatomic.AddInt64(&adds, 1)
				stdatomic.AddInt64(&outstanding, 1)
			}
		}
	}
	go worker()
	go worker() // (the CAS lets only one of them win each slot)
	go func() { // the store's informer handler: a started Job finishes
		defer wg.Done()
		<-start
		for i := 0; i < 2*rounds; i++ {
			if n := stdatomic.LoadInt64(&outstanding); n > 0 && stdatomic.CompareAndSwapInt64(&outstanding, n, n-1) {
				ctr.Remove(key)
				stdatomic.AddInt64(&removes, 1)
			}
		}
	}()
	close(start)
	wg.Wait()
	c.Count("q.stress.counter-trials")
	if got, want := ctr.Get(key), adds-removes; got != want {
		c.Violate("C05", "counter-conservation", "after %d concurrent reservations and %d releases on one key the counter reads %d, expected %d: a reservation was lost (the store would under-count active Jobs)", adds, removes, got, want)
		return false
	}
	return true
}
