package eng

import (
	"sync"
	stdatomic "sync/atomic"

	furikoatomic "github.com/furiko-io/furiko/pkg/utils/atomic"
)

// counterConservationStress (C05, monitor only — no op lines, the Lean model treats the counter's
// CAS as atomic): the active-job counter is shared by the queue workers (CheckAndAdd = reserve a
// slot) and the store's informer handler (Remove = a Job became inactive).  Whatever the
// interleaving, no successful reservation may be lost: after all goroutines have finished, the
// counter equals successful adds minus removes.  Two goroutines hammer ONE key so that the count
// keeps returning to zero (the state in which a "release the node at zero" optimisation would
// unlink the node under a concurrent reservation).  A correct counter passes for every schedule,
// so this cannot raise a false alarm; it is a stress test, not a proof.
func counterConservationStress(c *Ctx) {
	const rounds = 300000
	ctr := furikoatomic.NewCounter()
	key := "uid-stress"
	var adds, removes, outstanding int64
	var wg sync.WaitGroup
	wg.Add(2)
	go func() { // the per-JobConfig queue worker
		defer wg.Done()
		for i := 0; i < rounds; i++ {
			old := ctr.Get(key)
			if old >= 1 { // maxConcurrency 1
				continue
			}
			if ctr.CheckAndAdd(key, old) {
				stdatomic.AddInt64(&adds, 1)
				stdatomic.AddInt64(&outstanding, 1)
			}
		}
	}()
	go func() { // the store's informer handler: a started Job finishes
		defer wg.Done()
		for i := 0; i < rounds; i++ {
			if stdatomic.LoadInt64(&outstanding) > 0 {
				stdatomic.AddInt64(&outstanding, -1)
				ctr.Remove(key)
				stdatomic.AddInt64(&removes, 1)
			}
		}
	}()
	wg.Wait()
	c.Count("q.stress.counter-rounds")
	if got, want := ctr.Get(key), adds-removes; got != want {
		c.Violate("C05", "counter-conservation", "after %d concurrent reservations and %d releases on one key the counter reads %d, expected %d: a reservation was lost (the store would under-count active Jobs)", adds, removes, got, want)
	}
}
