package eng

// Substitution half of the "options" engine: SubstituteVariables / SubstituteVariableMaps /
// SubstituteEmptyStringForPrefixes / MergeSubstitutions, podtaskexecutor.NewPod and
// mutation.MutateCreateJob on the real code, with the monitors of the substitution clauses of C18.
//
// Map-iteration order (finding F4).  Every real call that ranges over a Go map is repeated
// optReps (30) times; the set of distinct results goes into the op line and the Lean driver
// answers `ok` iff it predicts every observed result (see Driver/OptionsD.lean).  Class flag c=1
// marks inputs built from token templates in which every `$` starts a well-formed `${name}`
// reference, with keys free of `$ { }` and values free of `$`: there the result must be unique
// (monitor subst-deterministic) and equal to the by-construction expectation (monitors
// subst-priority / subst-reserved-empty / subst-untouched).  For c=0 (adversarial strings, maps of
// at most 5 entries) the only judgement is subst-within-orders: every observed result is the
// result of SOME order of the entries (brute force with strings.ReplaceAll of the standard
// library) — unless the probe at start-up finds that the code visits keys in sorted order
// (fix_F4.diff applied), in which case determinism is demanded of every input.

import (
	"encoding/json"
	"fmt"
	"math/rand"
	"sort"
	"strconv"
	"strings"

	corev1 "k8s.io/api/core/v1"
	metav1 "k8s.io/apimachinery/pkg/apis/meta/v1"
	"k8s.io/apimachinery/pkg/types"
	"k8s.io/apimachinery/pkg/util/validation/field"

	execution "github.com/furiko-io/furiko/apis/execution/v1alpha1"
	"github.com/furiko-io/furiko/pkg/core/options"
	"github.com/furiko-io/furiko/pkg/execution/mutation"
	"github.com/furiko-io/furiko/pkg/execution/taskexecutor/podtaskexecutor"
	"github.com/furiko-io/furiko/pkg/execution/tasks"
	"github.com/furiko-io/furiko/pkg/execution/util/jobconfig"
	"verifharness/sim"
)

// ---------------------------------------------------------------- token templates (class c=1)

type stok struct {
	isVar bool
	text  string // literal text, or the variable name
}

func renderToks(ts []stok) string {
	var b strings.Builder
	for _, t := range ts {
		if t.isVar {
			b.WriteString("${" + t.text + "}")
		} else {
			b.WriteString(t.text)
		}
	}
	return b.String()
}

func kvTok(es [][2]string) string {
	var b strings.Builder
	fmt.Fprint(&b, len(es))
	for _, e := range es {
		b.WriteString(" " + Q(e[0]) + " " + Q(e[1]))
	}
	return b.String()
}

func sortedEntries(m map[string]string) [][2]string {
	es := make([][2]string, 0, len(m))
	for _, k := range SortedKeys(m) {
		es = append(es, [2]string{k, m[k]})
	}
	return es
}

func setTok(set map[string]bool) string {
	ks := make([]string, 0, len(set))
	for k := range set {
		ks = append(ks, k)
	}
	sort.Strings(ks)
	return strsTok(ks)
}

// reservedName: `${name}` is a variable of one of the reserved prefixes (prefix, a dot, and a
// non-empty rest).
func reservedName(name string, prefixes []string) bool {
	for _, p := range prefixes {
		p = strings.TrimSuffix(p, ".")
		if strings.HasPrefix(name, p+".") && len(name) > len(p)+1 {
			return true
		}
	}
	return false
}

// expectTok: the by-construction result of one token: highest-priority binding, else empty for
// reserved prefixes, else untouched.
func expectTok(t stok, maps []map[string]string, prefixes []string) (out, clause string) {
	if !t.isVar {
		return t.text, "subst-untouched"
	}
	for _, m := range maps {
		if v, ok := m[t.text]; ok {
			return v, "subst-priority"
		}
	}
	if reservedName(t.text, prefixes) {
		return "", "subst-reserved-empty"
	}
	return "${" + t.text + "}", "subst-untouched"
}

var (
	litPool     = []string{"", "echo ", " ", "--flag=", "{", "}", "{}", "a}", "{b", "日本", "\n", ".", "job.", "%", "\\", "}{", "x", "é=", "/bin/sh -c "}
	inertValues = []string{"", "x", "v1", "a b", "{", "}", "{a}", "}", "é", "job.name", "1", "true", ".", "日本", "a,b", "{x", "-"}
	cleanKeys   = []string{"job.name", "job.uid", "job.type", "task.name", "task.index_num", "option.a", "option.b", "option.user",
		"jobconfig.name", "x", "a", "b", "a b", "", "é", "a.b", "HOME", "job", "option."}
	unboundNames  = []string{"job.unknown", "task.x", "option.missing", "jobconfig.nope", "job.", "option.", "HOME", "x1", "jobs.name", "joboption", "a b c", "é.é", "task.é", ".x"}
	plainPrefixes = []string{"job.", "task", "option.", "jobconfig.", "x", "", "a_b-1", "task.", "é"}
	advAlphabet   = []string{"a", "b", "$", "{", "}", ".", "${", "${a}", "${b}", "}", "x", "", "${a", "b}", "$$", "\n", "job", "${job.x}", "é"}
	advPrefixes   = []string{"job.", "task", "a.b", ".", "a", "", "..", "a.", "option.", "x-y", "A_1", "j.b."}
)

func advString(rng *rand.Rand, maxParts int) string {
	n := rng.Intn(maxParts + 1)
	var b strings.Builder
	for k := 0; k < n; k++ {
		b.WriteString(optPick(rng, advAlphabet))
	}
	return b.String()
}

func inertMap(rng *rand.Rand, n int, marker string) map[string]string {
	m := map[string]string{}
	for k := 0; k < n; k++ {
		key := optPick(rng, cleanKeys)
		if n > len(cleanKeys)/2 {
			key = fmt.Sprintf("%s%d", key, rng.Intn(40))
		}
		v := optPick(rng, inertValues)
		if rng.Intn(2) == 0 {
			v = marker + v // disjoint marker per source: precedence is visible in the output
		}
		m[key] = v
	}
	return m
}

// allOrderResults: results of applying the entries with strings.ReplaceAll in every order.
func allOrderResults(es [][2]string, t string, out map[string]bool) {
	if len(es) == 0 {
		out[t] = true
		return
	}
	for i := range es {
		rest := make([][2]string, 0, len(es)-1)
		rest = append(rest, es[:i]...)
		rest = append(rest, es[i+1:]...)
		allOrderResults(rest, strings.ReplaceAll(t, "${"+es[i][0]+"}", es[i][1]), out)
	}
}

func sortedOrderResult(es [][2]string, t string) string {
	for _, e := range es { // es is sorted by key
		t = strings.ReplaceAll(t, "${"+e[0]+"}", e[1])
	}
	return t
}

// possibleAfterMaps: the strings reachable after the maps (before prefix removal).
func possibleAfterMaps(maps []map[string]string, t string, sorted bool) map[string]bool {
	cur := map[string]bool{t: true}
	for _, m := range maps {
		next := map[string]bool{}
		for s := range cur {
			if sorted {
				next[sortedOrderResult(sortedEntries(m), s)] = true
			} else {
				allOrderResults(sortedEntries(m), s, next)
			}
		}
		cur = next
	}
	return cur
}

// optSorted: does the real SubstituteVariables visit keys in sorted order?  (behavioural probe)
func probeSorted() bool {
	for _, w := range []struct {
		m    map[string]string
		t, r string
	}{
		{map[string]string{"a": "${b}", "b": "x"}, "v=${a}", "v=x"},
		{map[string]string{"b": "${a}", "a": "x"}, "v=${b}", "v=${a}"},
	} {
		for k := 0; k < 300; k++ {
			if options.SubstituteVariables(w.t, w.m) != w.r {
				return false
			}
		}
	}
	return true
}

type optRun struct {
	c      *Ctx
	sorted bool
	simCtx *sim.Context
	mut    *mutation.Mutator
	seq    int
}

// optRepeat calls fn reps times and returns the set of distinct results ("panic" included).
func optRepeat(reps int, fn func() string) map[string]bool {
	set := map[string]bool{}
	for k := 0; k < reps; k++ {
		set[Guard(fn)] = true
	}
	return set
}

// judgeSet applies the determinism / within-orders monitors to an observed result set.
func (r *optRun) judgeSet(what string, cls bool, observed, possible map[string]bool, reps int) {
	c := r.c
	if observed["panic"] && !possible["panic"] {
		c.Violate("C18", "total-no-panic", "%s panicked", what)
		return
	}
	if len(observed) > 1 {
		c.Count("subst.nondeterministic-observed")
		if cls || r.sorted {
			c.Violate("C18", "subst-deterministic", "%s: %d distinct results in %d calls: %s", what, len(observed), reps, setTok(observed))
		}
	}
	if possible != nil {
		for s := range observed {
			if !possible[s] {
				c.Violate("C18", "subst-within-orders", "%s: result %s is not produced by any order of the entries (possible: %s)", what, Q(s), setTok(possible))
			}
		}
	}
}

// ---------------------------------------------------------------- substitution cases

func (r *optRun) substInClass(rng *rand.Rand) {
	c := r.c
	nmaps := 1 + rng.Intn(3)
	maps := make([]map[string]string, nmaps)
	for i := range maps {
		n := rng.Intn(6)
		if rng.Intn(10) == 0 {
			n = 10 + rng.Intn(25)
		}
		maps[i] = inertMap(rng, n, fmt.Sprintf("<%d>", i))
	}
	var prefixes []string
	for k := rng.Intn(4); k > 0; k-- {
		prefixes = append(prefixes, optPick(rng, plainPrefixes))
	}
	if rng.Intn(3) == 0 {
		prefixes = []string{"jobconfig.", "job.", "task.", "option."}
	}
	var toks []stok
	for k := rng.Intn(9); k > 0; k-- {
		switch rng.Intn(4) {
		case 0:
			toks = append(toks, stok{false, optPick(rng, litPool)})
		case 1:
			toks = append(toks, stok{true, optPick(rng, unboundNames)})
		default: // a key of one of the maps
			m := maps[rng.Intn(nmaps)]
			if len(m) == 0 {
				toks = append(toks, stok{true, optPick(rng, cleanKeys)})
			} else {
				toks = append(toks, stok{true, SortedKeys(m)[rng.Intn(len(m))]})
			}
		}
	}
	target := renderToks(toks)
	c.Count(fmt.Sprintf("subst.c1.maps-%d", nmaps))
	if len(toks) >= 3 {
		c.Nontrivial()
	}

	// SubstituteVariables on the first map alone
	obs := optRepeat(optReps, func() string { return options.SubstituteVariables(target, maps[0]) })
	c.Emit(fmt.Sprintf("opt.subst 1 %s %s %s", Q(target), kvTok(sortedEntries(maps[0])), setTok(obs)), "ok")
	r.judgeSet("SubstituteVariables("+Q(target)+", "+mapTok(maps[0])+")", true, obs, nil, optReps)
	r.expect(obs, toks, maps[:1], nil, func(t string) string { return options.SubstituteVariables(t, maps[0]) })

	// SubstituteVariableMaps on all maps and prefixes
	obs = optRepeat(optReps, func() string { return options.SubstituteVariableMaps(target, maps, prefixes) })
	var mt strings.Builder
	fmt.Fprint(&mt, len(maps))
	for _, m := range maps {
		mt.WriteString(" " + kvTok(sortedEntries(m)))
	}
	c.Emit(fmt.Sprintf("opt.substmaps 1 %s %s %s %s", Q(target), mt.String(), strsTok(prefixes), setTok(obs)), "ok")
	r.judgeSet("SubstituteVariableMaps("+Q(target)+")", true, obs, nil, optReps)
	r.expect(obs, toks, maps, prefixes, func(t string) string { return options.SubstituteVariableMaps(t, maps, prefixes) })
}

// expect compares the observed results with the by-construction expectation; on a mismatch the
// tokens are substituted one by one to name the clause that fails.
func (r *optRun) expect(obs map[string]bool, toks []stok, maps []map[string]string, prefixes []string, sub func(string) string) {
	c := r.c
	var want strings.Builder
	for _, t := range toks {
		s, clause := expectTok(t, maps, prefixes)
		want.WriteString(s)
		c.Count("subst.token." + clause)
	}
	for got := range obs {
		if got == want.String() || got == "panic" {
			continue
		}
		for _, t := range toks {
			s, clause := expectTok(t, maps, prefixes)
			if one := Guard(func() string { return sub(renderToks([]stok{t})) }); one != s {
				c.Violate("C18", clause, "token %s alone gives %s, want %s (maps most important first: %s; prefixes %s)", Q(renderToks([]stok{t})), Q(one), Q(s), mapsTok(maps), strsTok(prefixes))
				return
			}
		}
		c.Violate("C18", "subst-compositional", "template %s gives %s, want %s (maps %s; prefixes %s)", Q(renderToks(toks)), Q(got), Q(want.String()), mapsTok(maps), strsTok(prefixes))
		return
	}
}

func mapsTok(maps []map[string]string) string {
	var b strings.Builder
	fmt.Fprint(&b, len(maps))
	for _, m := range maps {
		b.WriteString(" " + mapTok(m))
	}
	return b.String()
}

func advMap(rng *rand.Rand, max int) map[string]string {
	m := map[string]string{}
	for k := rng.Intn(max + 1); k > 0; k-- {
		key := optPick(rng, []string{"a", "b", "c", "a1", "", "job.x", "a}", "${a}", "b$", "é"})
		m[key] = advString(rng, 3)
	}
	return m
}

func (r *optRun) substAdversarial(rng *rand.Rand) {
	c := r.c
	target := advString(rng, 8)
	c.Nontrivial()

	// strings.ReplaceAll itself (library contract the model re-implements), incl. empty / overlapping
	s, old, nw := advString(rng, 6), advString(rng, 2), advString(rng, 2)
	if rng.Intn(3) == 0 {
		s, old = strings.Repeat(optPick(rng, []string{"a", "ab", "$"}), rng.Intn(6)), strings.Repeat("a", rng.Intn(3))
	}
	c.Emit(fmt.Sprintf("opt.replace %s %s %s", Q(s), Q(old), Q(nw)), Q(strings.ReplaceAll(s, old, nw)))

	// controlled order: single-entry maps through the real SubstituteVariableMaps
	var chain [][2]string
	var chainMaps []map[string]string
	for k := rng.Intn(6); k > 0; k-- {
		e := [2]string{optPick(rng, []string{"a", "b", "c", "a1", "", "job.x", "a}", "${a}", "é"}), advString(rng, 3)}
		chain = append(chain, e)
		chainMaps = append(chainMaps, map[string]string{e[0]: e[1]})
	}
	var prefixes []string
	for k := rng.Intn(3); k > 0; k-- {
		prefixes = append(prefixes, optPick(rng, advPrefixes))
	}
	out := Guard(func() string { return Q(options.SubstituteVariableMaps(target, chainMaps, prefixes)) })
	c.Emit(fmt.Sprintf("opt.chain %s %s %s", Q(target), kvTok(chain), strsTok(prefixes)), out)
	if out == "panic" {
		c.Violate("C18", "total-no-panic", "SubstituteVariableMaps panicked on %s", Q(target))
	}
	if out != Q(target) {
		c.Count("chain.changed")
	} else {
		c.Count("chain.unchanged")
	}
	// same fold with the library, as the harness's own ground truth for the fixed order
	want := target
	for _, e := range chain {
		want = strings.ReplaceAll(want, "${"+e[0]+"}", e[1])
	}
	if len(prefixes) == 0 && out != "panic" && out != Q(want) {
		c.Violate("C18", "subst-within-orders", "single-entry maps %s on %s give %s, sequential replacement gives %s", kvTok(chain), Q(target), out, Q(want))
	}

	// prefix cleanup alone
	t2 := advString(rng, 4) + optPick(rng, []string{"${job.x}", "${task.a b}", "${a.b.c}", "${aXb.c}", "${job.}", "${job.x", "${.x}", "${j.b.q}", "${a\nb.c}", "${job.${x}}"}) + advString(rng, 4)
	out = Guard(func() string { return Q(options.SubstituteEmptyStringForPrefixes(t2, prefixes)) })
	c.Emit(fmt.Sprintf("opt.rmprefix %s %s", Q(t2), strsTok(prefixes)), out)
	if out != Q(t2) {
		c.Count("rmprefix.removed-something")
	} else {
		c.Count("rmprefix.unchanged")
	}
	if out == "panic" {
		c.Violate("C18", "total-no-panic", "SubstituteEmptyStringForPrefixes panicked on %s %s", Q(t2), strsTok(prefixes))
	}

	// a real multi-entry map
	m := advMap(rng, 5)
	obs := optRepeat(optReps, func() string { return options.SubstituteVariables(target, m) })
	c.Emit(fmt.Sprintf("opt.subst 0 %s %s %s", Q(target), kvTok(sortedEntries(m)), setTok(obs)), "ok")
	r.judgeSet("SubstituteVariables("+Q(target)+", "+mapTok(m)+")", false, obs, possibleAfterMaps([]map[string]string{m}, target, r.sorted), optReps)

	// several real maps + prefixes
	maps := []map[string]string{advMap(rng, 4), advMap(rng, 4)}
	if rng.Intn(2) == 0 {
		maps = append(maps, advMap(rng, 3))
	}
	obs = optRepeat(optReps, func() string { return options.SubstituteVariableMaps(target, maps, prefixes) })
	var mt strings.Builder
	fmt.Fprint(&mt, len(maps))
	for _, mm := range maps {
		mt.WriteString(" " + kvTok(sortedEntries(mm)))
	}
	c.Emit(fmt.Sprintf("opt.substmaps 0 %s %s %s %s", Q(target), mt.String(), strsTok(prefixes), setTok(obs)), "ok")
	poss := map[string]bool{}
	for s := range possibleAfterMaps(maps, target, r.sorted) {
		poss[options.SubstituteEmptyStringForPrefixes(s, prefixes)] = true // cleanup is order-free; tied exactly by opt.rmprefix
	}
	r.judgeSet("SubstituteVariableMaps("+Q(target)+")", false, obs, poss, optReps)

	// MergeSubstitutions: later maps win
	merged := map[string]string{}
	out = Guard(func() string { merged = options.MergeSubstitutions(maps...); return mapTok(merged) })
	c.Emit("opt.merge "+mt.String(), out)
	wantM := map[string]string{}
	for _, mm := range maps {
		for k, v := range mm {
			wantM[k] = v
		}
	}
	if out != mapTok(wantM) {
		c.Violate("C18", "merge-last-wins", "MergeSubstitutions(%s) = %s want %s", mt.String(), out, mapTok(wantM))
	}
}

// ---------------------------------------------------------------- pods

func flattenPodSpec(spec corev1.PodSpec) []string {
	var out []string
	for _, cs := range [][]corev1.Container{spec.InitContainers, spec.Containers} {
		for _, ct := range cs {
			out = append(out, ct.Image)
			for _, e := range ct.Env {
				out = append(out, e.Value)
			}
			out = append(out, ct.Command...)
			out = append(out, ct.Args...)
		}
	}
	return out
}

func (r *optRun) podCase(rng *rand.Rand) {
	c := r.c
	cls := rng.Intn(3) > 0
	rj := &execution.Job{ObjectMeta: metav1.ObjectMeta{
		Name:      optPick(rng, []string{"job-1", "jobconfig-sample.1650645000", "j", ""}),
		Namespace: optPick(rng, []string{"default", "ns-1", ""}),
		UID:       types.UID(optPick(rng, []string{"0ed1bb76-07ca-4cf7-9a47-a0cc4aec48b9", "uid-1", ""})),
	}}
	rj.Spec.Type = execution.JobType(optPick(rng, []string{"Adhoc", "Scheduled", ""}))
	if rng.Intn(5) > 0 {
		rj.Spec.Template = &execution.JobTemplate{}
		if rng.Intn(3) > 0 {
			n := int64(rng.Intn(5) - 1)
			rj.Spec.Template.MaxAttempts = &n
		}
	}
	index := tasks.TaskIndex{Retry: int64(rng.Intn(4) - 1)}
	mkVal := func() string {
		if cls {
			return optPick(rng, inertValues)
		}
		return advString(rng, 3)
	}
	switch rng.Intn(5) {
	case 0:
		n := int64(rng.Intn(100))
		index.Parallel.IndexNumber = &n
	case 1:
		index.Parallel.IndexKey = optPick(rng, []string{"k1", "a b", "é"})
	case 2:
		index.Parallel.MatrixValues = map[string]string{"os": mkVal()}
		if rng.Intn(2) == 0 {
			index.Parallel.MatrixValues[optPick(rng, []string{"arch", "a b", "é"})] = mkVal()
		}
	case 3: // several set at once: precedence number > key > matrix (outside the expectation)
		if !cls {
			n := int64(1)
			if rng.Intn(2) == 0 {
				index.Parallel.IndexNumber = &n
			}
			index.Parallel.IndexKey = "k"
			index.Parallel.MatrixValues = map[string]string{"os": "x"}
		}
	}
	if cls {
		rj.Spec.Substitutions = inertMap(rng, rng.Intn(6), "<s>")
		if len(rj.Spec.Substitutions) == 0 && rng.Intn(2) == 0 {
			rj.Spec.Substitutions = nil
		}
	} else {
		rj.Spec.Substitutions = map[string]string{}
		for k := rng.Intn(5); k > 0; k-- {
			rj.Spec.Substitutions[optPick(rng, []string{"option.a", "option.b", "job.name", "x", "task.name", "a"})] =
				optPick(rng, []string{"${option.b}", "${job.name}", "${task.retry_index}", "x", "", "${option.a}", "$", "${job.", "name}", "${x}"})
		}
	}

	// the job / task context the documentation promises (harness-owned)
	jobVars := map[string]string{"job.uid": string(rj.UID), "job.name": rj.Name, "job.namespace": rj.Namespace, "job.type": string(rj.Spec.Type)}
	if rj.Spec.Template != nil && rj.Spec.Template.MaxAttempts != nil {
		jobVars["job.max_attempts"] = strconv.FormatInt(*rj.Spec.Template.MaxAttempts, 10)
	}

	var toksPerField [][]stok
	mkField := func() string {
		if !cls {
			toksPerField = append(toksPerField, nil)
			return advString(rng, 3) + optPick(rng, []string{"${option.a}", "${job.name}", "${task.name}", "${option.b}", "${x}", ""}) + advString(rng, 2)
		}
		var toks []stok
		for k := rng.Intn(5); k > 0; k-- {
			switch rng.Intn(4) {
			case 0:
				toks = append(toks, stok{false, optPick(rng, litPool)})
			case 1:
				toks = append(toks, stok{true, optPick(rng, unboundNames)})
			case 2:
				toks = append(toks, stok{true, optPick(rng, []string{"job.uid", "job.name", "job.namespace", "job.type", "job.max_attempts",
					"task.name", "task.namespace", "task.retry_index", "task.index_num", "task.index_key", "task.index_matrix.os", "task.index_matrix.arch"})})
			default:
				if len(rj.Spec.Substitutions) > 0 {
					toks = append(toks, stok{true, SortedKeys(rj.Spec.Substitutions)[rng.Intn(len(rj.Spec.Substitutions))]})
				} else {
					toks = append(toks, stok{true, optPick(rng, cleanKeys)})
				}
			}
		}
		toksPerField = append(toksPerField, toks)
		return renderToks(toks)
	}
	mkContainer := func(name string) corev1.Container {
		ct := corev1.Container{Name: name, Image: mkField()}
		for k := rng.Intn(3); k > 0; k-- {
			ct.Env = append(ct.Env, corev1.EnvVar{Name: fmt.Sprintf("E%d", k), Value: mkField()})
		}
		for k := rng.Intn(3); k > 0; k-- {
			ct.Command = append(ct.Command, mkField())
		}
		for k := rng.Intn(3); k > 0; k-- {
			ct.Args = append(ct.Args, mkField())
		}
		return ct
	}
	template := &corev1.PodTemplateSpec{}
	if rng.Intn(3) == 0 {
		template.Spec.InitContainers = append(template.Spec.InitContainers, mkContainer("init"))
	}
	for k := 1 + rng.Intn(2); k > 0; k-- {
		template.Spec.Containers = append(template.Spec.Containers, mkContainer(fmt.Sprintf("c%d", k)))
	}
	fields := flattenPodSpec(template.Spec)

	podName := ""
	observed := make([]map[string]bool, len(fields))
	for i := range observed {
		observed[i] = map[string]bool{}
	}
	status := "ok"
	for k := 0; k < optReps; k++ {
		st := Guard(func() string {
			pod, err := podtaskexecutor.NewPod(rj, template, index)
			if err != nil {
				return "err"
			}
			podName = pod.Name
			got := flattenPodSpec(pod.Spec)
			if len(got) != len(fields) {
				return "shape"
			}
			for i, s := range got {
				observed[i][s] = true
			}
			return "ok"
		})
		if st != "ok" {
			status = st
			break
		}
	}
	if status != "ok" {
		c.Count("pod." + status)
		if status == "panic" {
			c.Violate("C18", "total-no-panic", "NewPod panicked")
		}
		if status == "shape" {
			c.Violate("C18", "subst-untouched", "NewPod changed the number of containers/env/command/args entries")
		}
		return
	}
	c.Count(fmt.Sprintf("pod.c%s", B(cls)))
	switch {
	case index.Parallel.IndexNumber != nil:
		c.Count("pod.index.number")
	case index.Parallel.IndexKey != "":
		c.Count("pod.index.key")
	case len(index.Parallel.MatrixValues) > 0:
		c.Count("pod.index.matrix")
	default:
		c.Count("pod.index.none")
	}
	if len(rj.Spec.Substitutions) == 0 {
		c.Count("pod.substitutions.empty")
	}
	c.Nontrivial()

	taskVars := map[string]string{"task.name": podName, "task.namespace": rj.Namespace, "task.retry_index": strconv.FormatInt(index.Retry, 10)}
	switch {
	case index.Parallel.IndexNumber != nil:
		taskVars["task.index_num"] = strconv.FormatInt(*index.Parallel.IndexNumber, 10)
	case index.Parallel.IndexKey != "":
		taskVars["task.index_key"] = index.Parallel.IndexKey
	default:
		for k, v := range index.Parallel.MatrixValues {
			taskVars["task.index_matrix."+k] = v
		}
	}

	// op line
	var b strings.Builder
	ma := "-"
	if v, ok := jobVars["job.max_attempts"]; ok {
		ma = v
	}
	num := "-"
	if index.Parallel.IndexNumber != nil {
		num = strconv.FormatInt(*index.Parallel.IndexNumber, 10)
	}
	fmt.Fprintf(&b, "opt.pod %s %s %s %s %s %s", B(cls), Q(string(rj.UID)), Q(rj.Name), Q(rj.Namespace), Q(string(rj.Spec.Type)), ma)
	fmt.Fprintf(&b, " %s %s %d %s %s %s", Q(podName), Q(rj.Namespace), index.Retry, num, Q(index.Parallel.IndexKey), kvTok(sortedEntries(index.Parallel.MatrixValues)))
	fmt.Fprintf(&b, " %s %d", kvTok(sortedEntries(rj.Spec.Substitutions)), len(fields))
	for i, f := range fields {
		fmt.Fprintf(&b, " %s %s", Q(f), setTok(observed[i]))
	}
	c.Emit(b.String(), "ok")

	// monitors
	var maps []map[string]string
	if len(rj.Spec.Substitutions) > 0 {
		maps = append(maps, rj.Spec.Substitutions)
	}
	maps = append(maps, jobVars, taskVars)
	prefixes := []string{"jobconfig.", "job.", "task.", "option."}
	for i, f := range fields {
		var poss map[string]bool
		if !cls {
			poss = map[string]bool{}
			for s := range possibleAfterMaps(maps, f, r.sorted) {
				poss[options.SubstituteEmptyStringForPrefixes(s, prefixes)] = true
			}
		}
		r.judgeSet("NewPod field "+Q(f), cls, observed[i], poss, optReps)
		if cls {
			ts := toksPerField[i]
			r.expect(observed[i], ts, maps, prefixes, func(t string) string {
				// a single token through the same job: one container whose image is the token
				pod, err := podtaskexecutor.NewPod(rj, &corev1.PodTemplateSpec{Spec: corev1.PodSpec{Containers: []corev1.Container{{Image: t}}}}, index)
				if err != nil {
					return "err"
				}
				return pod.Spec.Containers[0].Image
			})
		}
	}
}

// ---------------------------------------------------------------- admission (merge order)

func jsonable(rng *rand.Rand, o execution.Option) (interface{}, string) {
	for {
		v, class := optGenValue(rng, o)
		switch x := v.(type) {
		case nil, bool, string, float64:
			return v, class
		case map[string]interface{}:
			return v, class
		case []interface{}:
			ok := true
			for _, e := range x {
				switch e.(type) {
				case nil, bool, string, float64:
				default:
					ok = false
				}
			}
			if ok {
				return v, class
			}
		}
	}
}

func (r *optRun) admitCase(rng *rand.Rand) {
	c := r.c
	r.seq++
	rjc := &execution.JobConfig{ObjectMeta: metav1.ObjectMeta{
		Name: fmt.Sprintf("jc-%d", r.seq), Namespace: "ns", UID: types.UID(fmt.Sprintf("uid-%d", r.seq))}}
	allGood := true
	if rng.Intn(8) > 0 {
		rjc.Spec.Option = &execution.OptionSpec{}
		names := append([]string(nil), optNamesGood...)
		rng.Shuffle(len(names), func(i, j int) { names[i], names[j] = names[j], names[i] })
		for k := rng.Intn(5); k > 0; k-- {
			if rng.Intn(10) == 0 {
				rjc.Spec.Option.Options = append(rjc.Spec.Option.Options, genBadOption(rng, names[k]))
			} else {
				rjc.Spec.Option.Options = append(rjc.Spec.Option.Options, genGoodOption(rng, names[k]))
			}
		}
		for _, o := range rjc.Spec.Option.Options {
			allGood = allGood && wellFormed(o)
		}
	}
	r.simCtx.Sim().JobConfigs().CacheSet(rjc)

	vals := map[string]interface{}{}
	orc := newDateOracle()
	if rjc.Spec.Option != nil {
		for _, o := range rjc.Spec.Option.Options {
			if rng.Intn(3) > 0 {
				v, class := jsonable(rng, o)
				vals[o.Name] = v
				c.Count("admit.value." + class)
			}
		}
		for _, o := range rjc.Spec.Option.Options {
			orc.add(o, vals[o.Name])
		}
	}
	if orc.broken {
		return
	}
	optionValues := ""
	if len(vals) > 0 {
		js, err := json.Marshal(vals)
		if err != nil {
			return
		}
		optionValues = string(js)
		// what a JSON decoder hands to the evaluators (numbers are float64)
		vals = map[string]interface{}{}
		if err := json.Unmarshal(js, &vals); err != nil {
			return
		}
	}
	explicit := map[string]string{}
	for k := rng.Intn(4); k > 0; k-- {
		key := optPick(rng, []string{"jobconfig.name", "jobconfig.uid", "x", "job.name", "custom"})
		if rjc.Spec.Option != nil && len(rjc.Spec.Option.Options) > 0 && rng.Intn(2) == 0 {
			key = "option." + rjc.Spec.Option.Options[rng.Intn(len(rjc.Spec.Option.Options))].Name
		}
		explicit[key] = "<explicit>" + optPick(rng, optWordPool)
	}
	isController := true
	rj := &execution.Job{ObjectMeta: metav1.ObjectMeta{
		Name: fmt.Sprintf("job-%d", r.seq), Namespace: "ns",
		Labels: map[string]string{jobconfig.LabelKeyJobConfigUID: string(rjc.UID)},
		OwnerReferences: []metav1.OwnerReference{{APIVersion: execution.GroupVersion.String(), Kind: execution.KindJobConfig,
			Name: rjc.Name, UID: rjc.UID, Controller: &isController}},
	}}
	rj.Spec.OptionValues = optionValues
	if len(explicit) > 0 || rng.Intn(2) == 0 {
		rj.Spec.Substitutions = map[string]string{}
		for k, v := range explicit {
			rj.Spec.Substitutions[k] = v
		}
	}

	var errs field.ErrorList
	out := Guard(func() string {
		res := r.mut.MutateCreateJob(rj)
		errs = res.Errors
		if len(errs) > 0 {
			var b strings.Builder
			fmt.Fprintf(&b, "rejected %d", len(errs))
			for _, e := range errs {
				b.WriteString(" " + optErrKind(e))
			}
			return b.String()
		}
		return "ok " + mapTok(rj.Spec.Substitutions)
	})
	c.Emit(fmt.Sprintf("opt.admit %s %s %s %s %s %s %s", Q(string(rjc.UID)), Q(rjc.Name), Q(rjc.Namespace),
		specTok(rjc.Spec.Option), valuesTok(vals), orc.tok(), kvTok(sortedEntries(explicit))), out)
	r.simCtx.Sim().JobConfigs().CacheDel(rjc)
	if out == "panic" {
		c.Violate("C18", "total-no-panic", "MutateCreateJob panicked: spec %s values %s", specTok(rjc.Spec.Option), optionValues)
		return
	}
	if strings.HasPrefix(out, "rejected") {
		c.Count("admit.rejected")
	} else {
		c.Count("admit.accepted")
	}
	if !allGood {
		return
	}
	c.Nontrivial()
	want := map[string]string{"jobconfig.uid": string(rjc.UID), "jobconfig.name": rjc.Name, "jobconfig.namespace": rjc.Namespace}
	reject := false
	if rjc.Spec.Option != nil {
		for _, o := range rjc.Spec.Option.Options {
			kind, s, _ := specEval(o, vals[o.Name])
			if kind != "ok" {
				reject = true
			}
			want["option."+o.Name] = s
		}
	}
	for k, v := range explicit {
		want[k] = v
	}
	if reject != (len(errs) > 0) {
		c.Violate("C18", "rejects-iff-some-option-invalid", "admission %s; specification rejects=%v: spec %s values %s", out, reject, specTok(rjc.Spec.Option), optionValues)
		return
	}
	if !reject && mapTok(rj.Spec.Substitutions) != mapTok(want) {
		c.Violate("C18", "admit-priority", "admitted substitutions %s, want explicit > option value/default > jobconfig context = %s", mapTok(rj.Spec.Substitutions), mapTok(want))
	}
}

// ---------------------------------------------------------------- corpus scenarios and entry point

// orderScenario replays one order-dependence witness `reps` times on the real code.
func (r *optRun) orderWitness(target string, m map[string]string, reps int) {
	c := r.c
	obs := optRepeat(reps, func() string { return options.SubstituteVariables(target, m) })
	c.Emit(fmt.Sprintf("opt.subst 0 %s %s %s", Q(target), kvTok(sortedEntries(m)), setTok(obs)), "ok")
	c.Count(fmt.Sprintf("f4.distinct-results-%d", len(obs)))
	if len(obs) > 1 {
		c.Violate("C18", "subst-deterministic", "SubstituteVariables(%s, %s): %d distinct results in %d calls: %s (map iteration order; finding F4)",
			Q(target), mapTok(m), len(obs), reps, setTok(obs))
	}
	poss := possibleAfterMaps([]map[string]string{m}, target, r.sorted)
	for s := range obs {
		if !poss[s] {
			c.Violate("C18", "subst-within-orders", "result %s is not produced by any order", Q(s))
		}
	}
}

func runOptions(c *Ctx) {
	r := &optRun{c: c, sorted: probeSorted()}
	r.simCtx = sim.NewContext()
	r.mut = mutation.NewMutator(r.simCtx)
	if r.sorted {
		c.Count("probe.substitute-variables-sorted")
	} else {
		c.Count("probe.substitute-variables-map-order")
	}

	// F4, the witness of Props/C18.lean `subst_order_dependent_witness`: a value that contains
	// another variable of the same map.
	c.RunScenario("f4-subst-order", func() {
		r.orderWitness("v=${a}", map[string]string{"a": "${b}", "b": "x"}, 200)
	})
	// same root cause, inert values: a nested reference in the template, and an empty value
	// that glues `$` to `{b}`.
	c.RunScenario("f4-inert-values", func() {
		r.orderWitness("${a${b}}", map[string]string{"b": "1", "a1": "x"}, 200)
		r.orderWitness("$${a}{b}", map[string]string{"a": "", "b": "x"}, 200)
	})
	// examples of the documentation comments and the priority chain
	c.RunScenario("doc-examples", func() {
		check := func(got, want string) {
			if got != want {
				c.Violate("C18", "subst-priority", "documented example gives %s want %s", Q(got), Q(want))
			}
		}
		got := options.SubstituteVariables("echo ${job.name}", map[string]string{"job.name": "jobconfig-sample.1650645000"})
		c.Emit(fmt.Sprintf("opt.chain %s 1 job.name jobconfig-sample.1650645000 0", Q("echo ${job.name}")), Q(got))
		check(got, "echo jobconfig-sample.1650645000")
		got = options.SubstituteEmptyStringForPrefixes("echo ${job.unknown_variable};", []string{"job."})
		c.Emit(fmt.Sprintf("opt.rmprefix %s 1 job.", Q("echo ${job.unknown_variable};")), Q(got))
		check(got, "echo ;")
		maps := []map[string]string{{"option.a": "explicit"}, {"option.a": "low", "job.name": "j"}, {"job.name": "lower", "task.name": "t"}}
		tpl := "${option.a} ${job.name} ${task.name} ${task.none} ${HOME} $HOME"
		got = options.SubstituteVariableMaps(tpl, maps, []string{"job.", "task.", "option."})
		c.Emit(fmt.Sprintf("opt.substmaps 0 %s 3 1 option.a explicit 2 job.name j option.a low 2 job.name lower task.name t 3 job. task. option. 1 %s", Q(tpl), Q(got)), "ok")
		check(got, "explicit j t  ${HOME} $HOME")
	})

	c.ForCases(func(i int, rng *rand.Rand) {
		switch i % 8 {
		case 0, 1:
			optionCase(c, rng)
		case 2:
			specCase(c, rng)
		case 3, 4:
			r.substInClass(rng)
		case 5:
			r.substAdversarial(rng)
		case 6:
			r.podCase(rng)
		default:
			r.admitCase(rng)
		}
	})
}
