package eng

import (
	"context"
	"encoding/json"
	"fmt"
	"hash/fnv"
	"math/rand"
	"sort"
	"strings"
	"time"

	jsonpatch "github.com/evanphx/json-patch"
	admissionv1 "k8s.io/api/admission/v1"
	corev1 "k8s.io/api/core/v1"
	kerrors "k8s.io/apimachinery/pkg/api/errors"
	metav1 "k8s.io/apimachinery/pkg/apis/meta/v1"
	"k8s.io/apimachinery/pkg/runtime"
	"k8s.io/client-go/tools/record"
	fakeclock "k8s.io/utils/clock/testing"

	configv1alpha1 "github.com/furiko-io/furiko/apis/config/v1alpha1"
	execution "github.com/furiko-io/furiko/apis/execution/v1alpha1"
	"github.com/furiko-io/furiko/pkg/execution/controllers/croncontroller"
	"github.com/furiko-io/furiko/pkg/execution/controllers/jobconfigcontroller"
	"github.com/furiko-io/furiko/pkg/execution/controllers/jobcontroller"
	"github.com/furiko-io/furiko/pkg/execution/controllers/jobqueuecontroller"
	"github.com/furiko-io/furiko/pkg/execution/mutation"
	"github.com/furiko-io/furiko/pkg/execution/stores/activejobstore"
	"github.com/furiko-io/furiko/pkg/execution/validation"
	"github.com/furiko-io/furiko/pkg/execution/webhooks/jobconfigmutatingwebhook"
	"github.com/furiko-io/furiko/pkg/execution/webhooks/jobconfigvalidatingwebhook"
	"github.com/furiko-io/furiko/pkg/execution/webhooks/jobmutatingwebhook"
	"github.com/furiko-io/furiko/pkg/execution/webhooks/jobvalidatingwebhook"
	"github.com/furiko-io/furiko/pkg/runtime/reconciler"
	"github.com/furiko-io/furiko/pkg/utils/ktime"

	"verifharness/sim"
)

// Engine "system" (property C20): ALL controllers of the execution controller manager composed
// on ONE API simulation: cron controller (real InformerWorker + CronWorker + Reconciler),
// job-queue controller (both reconcilers + the real activejobstore.Store), job controller,
// jobconfig controller, and the four real admission webhooks on every create/update of Jobs
// and JobConfigs (the webhooks are a process of their own: sysWorld.hookCtx, with a JobConfig
// informer fed from the same watch stream through its own cursor).  Every reconciler runs under the REAL reconciler.Controller retry loop, stepped
// with VerifStep on injected deterministic work queues; no goroutines of our own.
//
// A world is driven by a deterministic scheduler.  A workload is a list of *stimuli* (clock
// advance + cron tick, user operations, kubelet progress) each followed by a PRNG-chosen
// interleaving of single deliveries / handler notifications / controller steps / cron ticks and
// then a barrier that drains the system to quiescence.  The same workload is executed
//   - twice without faults (two different interleavings: the outcome at every barrier must not
//     depend on the interleaving, otherwise the workload is not a valid reference),
//   - N times with a fault plan (chosen controller API calls fail: server error / conflict /
//     timeout-not-applied; single, repeated-same-call, bursts) and the same kubelet ground truth.
// Monitors (system_monitors.go) judge convergence, retry-until-success, no-stuck-work and re-run
// the safety monitors of C02, C05, C06, C07, C08-C13 on the faulty runs.
//
// Queue-level observations of every controller step (Add/AddAfter issued by handlers, the sync
// result seen by a spy around the real Reconciler, the queue contents afterwards) are emitted in
// the `retry.` line protocol and compared with Model/Retry.lean.

func init() { Register("system", runSystem) }

// ---------------------------------------------------------------- controllers

// spyReconciler wraps a real reconciler and records what SyncOne returned (ground truth of
// the retry monitors, independent of the work queue).
type spyReconciler struct {
	inner   reconciler.Reconciler
	called  bool
	lastErr error
	lastKey string
	syncs   int
	errs    int
}

func (s *spyReconciler) Name() string     { return s.inner.Name() }
func (s *spyReconciler) Concurrency() int { return s.inner.Concurrency() }
func (s *spyReconciler) MaxRequeues() int { return s.inner.MaxRequeues() }
func (s *spyReconciler) SyncOne(ctx context.Context, namespace, name string, n int) error {
	s.called = true
	s.syncs++
	s.lastKey = namespace + "/" + name
	s.lastErr = s.inner.SyncOne(ctx, namespace, name, n)
	if s.lastErr != nil {
		s.errs++
	}
	return s.lastErr
}

type sysCtrl struct {
	name string // cron | qcfg | qind | job | jcc
	q    *logQueue
	rc   *reconciler.Controller
	spy  *spyReconciler
}

// sysEnqueue is croncontroller's (unexported) enqueueHandler: custom key, plain Add.
type sysEnqueue struct{ q *logQueue }

func (h *sysEnqueue) EnqueueJobConfig(jc *execution.JobConfig, t time.Time) error {
	key, err := croncontroller.JobConfigKeyFunc(jc, t)
	if err != nil {
		return err
	}
	h.q.Add(key)
	return nil
}

// handler indexes on the shared fake informers (registration order in boot)
var sysHandlers = []struct {
	res string
	h   int
	who string
}{
	{"jobs", 0, "store"}, {"jobs", 1, "queue"}, {"jobs", 2, "job"}, {"jobs", 3, "jcc"},
	{"jobconfigs", 0, "jcc"}, {"jobconfigs", 1, "cron"}, {"pods", 0, "job"},
}

type sysWorld struct {
	c   *Ctx
	wl  *sysWorkload
	ctx *sim.Context
	clk *fakeclock.FakeClock
	api *sim.SimAPI

	// the admission webhooks run in ANOTHER process (cmd/execution-webhook) with their own
	// JobConfig informer: hookCtx is that process' context; its JobConfig cache is fed from the
	// same watch stream as the controllers' (SimAPI.Mirror) through its own cursor.
	//   hookFree = false (default): the webhook's cursor moves in lock-step with the controllers'
	//     JobConfig informer (every deliverOne("jobconfigs") delivers to both): the webhooks see
	//     exactly what the controllers' cache holds, as when they shared one cache.
	//   hookFree = true: deliveries to the webhook's cache are scheduler actions of their own
	//     (deliverHook); a barrier catches the webhook up unless hookHold (its watch is stalled).
	hookCtx         *sim.Context
	hookFree        bool
	hookHold        bool
	hookLagRefusals int // admissions refused while the webhook's copy of the owner differed from the server's

	ctrls      []*sysCtrl
	byName     map[string]*sysCtrl
	cronCtx    *croncontroller.Context
	cronWorker *croncontroller.CronWorker
	store      *activejobstore.Store
	jobsCfg    *configv1alpha1.JobExecutionConfig

	hookJobMut *jobmutatingwebhook.Webhook
	hookJobVal *jobvalidatingwebhook.Webhook
	hookJCMut  *jobconfigmutatingwebhook.Webhook
	hookJCVal  *jobconfigvalidatingwebhook.Webhook

	// fault injection
	plan      *sysFaultPlan
	curCtrl   string
	inBatch   bool
	batchKind string
	emit      bool // emit retry.* protocol lines for this run

	// bookkeeping
	label     string // run label for messages
	roundT    int64  // whole-second start of the current round (ns)
	actions   int
	mon       *sysMonitors
	trace     []string // compact action trace of this run (for violation messages)
	digests   []uint64 // cheap state digest after every scheduler action
	overrun   bool
	admitErrs int
}

func (w *sysWorld) now() int64 { return w.clk.Now().UnixNano() }

func (w *sysWorld) tr(format string, args ...interface{}) {
	if len(w.trace) < 4000 {
		w.trace = append(w.trace, fmt.Sprintf(format, args...))
	}
}

func newSysWorld(c *Ctx, wl *sysWorkload, label string, plan *sysFaultPlan, emit bool) *sysWorld {
	w := &sysWorld{c: c, wl: wl, label: label, plan: plan, emit: emit, byName: map[string]*sysCtrl{}}
	w.ctx = sim.NewContext()
	w.clk = fakeclock.NewFakeClock(time.Unix(wl.t0, 0))
	ktime.Clock = w.clk
	croncontroller.Clock = w.clk
	mutation.Clock = w.clk
	validation.Clock = w.clk
	w.roundT = wl.t0 * 1e9
	w.api = sim.NewSimAPI(w.clk)
	w.api.Install(w.ctx)
	w.ctx.MockConfigs().SetConfigs(map[configv1alpha1.ConfigName]runtime.Object{
		configv1alpha1.JobExecutionConfigName: &configv1alpha1.JobExecutionConfig{
			DefaultTTLSecondsAfterFinished: i64p(wl.defTTL),
			DefaultPendingTimeoutSeconds:   i64p(wl.defPending),
			ForceDeleteTaskTimeoutSeconds:  i64p(wl.forceDelete),
		},
	})
	w.jobsCfg, _ = w.ctx.Configs().Jobs()
	w.mon = newSysMonitors(w)

	// webhooks: a process of their own (own informers, same dynamic configuration)
	w.hookCtx = sim.NewContext()
	w.hookCtx.MockConfigs().SetConfigs(map[configv1alpha1.ConfigName]runtime.Object{
		configv1alpha1.JobExecutionConfigName: w.jobsCfg.DeepCopy(),
	})
	w.api.MirrorOn["jobconfigs"] = true
	w.hookJobMut, _ = jobmutatingwebhook.NewWebhook(w.hookCtx)
	w.hookJobVal, _ = jobvalidatingwebhook.NewWebhook(w.hookCtx)
	w.hookJCMut, _ = jobconfigmutatingwebhook.NewWebhook(w.hookCtx)
	w.hookJCVal, _ = jobconfigvalidatingwebhook.NewWebhook(w.hookCtx)
	w.api.Admit = w.admit
	w.api.Fault = w.fault
	w.api.Observe = w.mon.observe

	mk := func(name string) *logQueue { return &logQueue{DetQueue: sim.NewDetQueue(w.clk)} }
	add := func(name string, q *logQueue, r reconciler.Reconciler) {
		spy := &spyReconciler{inner: r}
		ct := &sysCtrl{name: name, q: q, spy: spy, rc: reconciler.NewController(spy, q)}
		w.ctrls = append(w.ctrls, ct)
		w.byName[name] = ct
	}

	// active job store: Jobs handler 0
	store, _ := activejobstore.NewStore(w.ctx)
	w.ctx.Stores().Register(store)
	cctx, cancel := context.WithCancel(context.Background())
	_ = store.Recover(cctx)
	cancel()
	w.store = store

	rec := &record.FakeRecorder{}
	// job-queue controller: Jobs handler 1
	cfgQ, indQ := mk("qcfg"), mk("qind")
	qctx := jobqueuecontroller.NewContextWithRecorder(w.ctx, rec)
	qctx.VerifSetQueues(cfgQ, indQ)
	jc := jobqueuecontroller.NewJobControl(w.ctx.Clientsets().Furiko().ExecutionV1alpha1(), rec)
	jobqueuecontroller.NewInformerWorker(qctx)
	// job controller: Pods handler 0, Jobs handler 2
	jobQ := mk("job")
	jctx := jobcontroller.NewContextWithRecorder(w.ctx, rec)
	jctx.VerifSetQueue(jobQ)
	jobcontroller.NewInformerWorker(jctx)
	// A handler that joins an informer is notified of the objects that already exist with add
	// events (client-go); the JobConfig handlers get theirs queued on registration.
	w.ctx.Sim().JobConfigs().ReplayOnRegister = true
	// jobconfig controller: JobConfigs handler 0, Jobs handler 3
	jccQ := mk("jcc")
	cctx2 := jobconfigcontroller.NewContextWithRecorder(w.ctx, rec)
	cctx2.VerifSetQueue(jccQ)
	jobconfigcontroller.NewInformerWorker(cctx2)
	// cron controller: JobConfigs handler 1
	cronQ := mk("cron")
	w.cronCtx = croncontroller.NewContext(w.ctx)
	w.cronCtx.VerifSetQueue(cronQ)
	croncontroller.NewInformerWorker(w.cronCtx, croncontroller.NewUpdateHandler(w.cronCtx)).Init()
	w.cronWorker = croncontroller.NewCronWorker(w.cronCtx, &sysEnqueue{q: cronQ})
	_ = w.cronWorker.Init()
	// the typical production order: the cron handler runs the add notifications of the existing
	// JobConfigs right after the schedule was initialised (F24); the JobConfig controller's
	// handler runs its own as well
	for h := 0; h < w.ctx.Sim().JobConfigs().NumHandlers(); h++ {
		for w.ctx.Sim().JobConfigs().NotifyNext(h) {
			c.Count("sys.boot.initial-add")
		}
	}
	crRec := &crRecorder{}
	cronRec := croncontroller.NewReconciler(w.cronCtx,
		croncontroller.NewExecutionControl("cron", w.ctx.Clientsets().Furiko().ExecutionV1alpha1(), crRec), crRec, store, nil)

	add("cron", cronQ, cronRec)
	add("qcfg", cfgQ, jobqueuecontroller.NewPerConfigReconciler(qctx, nil, jc))
	add("qind", indQ, jobqueuecontroller.NewIndependentReconciler(qctx, nil, jc))
	add("job", jobQ, jobcontroller.NewReconciler(jctx, nil))
	add("jcc", jccQ, jobconfigcontroller.NewReconciler(cctx2, nil))

	if w.emit {
		c.Emit("retry.reset", "ok")
		for _, ct := range w.ctrls {
			c.Emit(fmt.Sprintf("retry.new %s %d", ct.name, ct.spy.MaxRequeues()), retryDigest(ct.q.DetQueue))
		}
	}
	return w
}

// ---------------------------------------------------------------- admission

func sysKind(resource string) metav1.GroupVersionKind {
	k := execution.KindJob
	if resource == "jobconfigs" {
		k = execution.KindJobConfig
	}
	return metav1.GroupVersionKind{Group: execution.GroupVersion.Group, Version: execution.GroupVersion.Version, Kind: k}
}

type sysHook interface {
	Handle(context.Context, *admissionv1.AdmissionRequest) (*admissionv1.AdmissionResponse, error)
}

// admit runs the real mutating webhook (JSON patch applied with evanphx/json-patch like the
// API server does) and then the real validating webhook.
func (w *sysWorld) admit(resource, verb string, old, obj runtime.Object) (runtime.Object, error) {
	raw, err := json.Marshal(obj)
	if err != nil {
		return nil, err
	}
	req := &admissionv1.AdmissionRequest{Kind: sysKind(resource), Operation: admissionv1.Create, Object: runtime.RawExtension{Raw: raw}}
	if verb == "update" {
		req.Operation = admissionv1.Update
		oraw, _ := json.Marshal(old)
		req.OldObject = runtime.RawExtension{Raw: oraw}
	}
	var mut, val sysHook = w.hookJobMut, w.hookJobVal
	if resource == "jobconfigs" {
		mut, val = w.hookJCMut, w.hookJCVal
	}
	if len(w.api.Mirror["jobconfigs"]) > 0 {
		w.c.Count("sys.hook.admit-with-backlog")
	}
	refuse := func(resp *admissionv1.AdmissionResponse) error {
		w.admitErrs++
		if resource == "jobs" {
			switch w.hookBehindFor(obj) {
			case "incarnation":
				// outside E-WebhookCacheFresh: the webhook judged the Job without its JobConfig, or
				// against another incarnation of it (known finding F34 when the refusal is final)
				w.hookLagRefusals++
				w.c.Count("sys.envelope.outside-E-WebhookCacheFresh")
				w.tr("  admission refused while the webhook's JobConfig cache lags")
			case "version":
				w.c.Count("sys.hook.refused-with-older-version-of-jobconfig")
			}
		}
		if resp.Result != nil {
			return &kerrors.StatusError{ErrStatus: *resp.Result}
		}
		return kerrors.NewBadRequest("admission refused")
	}
	resp, err := mut.Handle(context.Background(), req)
	if err != nil {
		return nil, kerrors.NewInternalError(err)
	}
	if !resp.Allowed {
		return nil, refuse(resp)
	}
	if len(resp.Patch) > 0 {
		p, err := jsonpatch.DecodePatch(resp.Patch)
		if err != nil {
			return nil, kerrors.NewInternalError(err)
		}
		raw, err = p.Apply(raw)
		if err != nil {
			return nil, kerrors.NewInternalError(err)
		}
		w.c.Count("sys.admit.patched")
	}
	req.Object = runtime.RawExtension{Raw: raw}
	resp, err = val.Handle(context.Background(), req)
	if err != nil {
		return nil, kerrors.NewInternalError(err)
	}
	if !resp.Allowed {
		return nil, refuse(resp)
	}
	var out runtime.Object = &execution.Job{}
	if resource == "jobconfigs" {
		out = &execution.JobConfig{}
	}
	if err := json.Unmarshal(raw, out); err != nil {
		return nil, kerrors.NewInternalError(err)
	}
	w.c.Count("sys.admit." + resource + "." + verb)
	return out, nil
}

// ---------------------------------------------------------------- faults

type sysFault struct {
	Call string // "" = any call; otherwise the call kind (e.g. "create:pods"): At counts calls of that kind only
	At   int    // index (1-based) of the controller API call that fails first
	Kind string // err | conflict | timeout
	Mode string // single | same (the same call fails N times in a row) | burst (N consecutive calls fail)
	N    int
}

func (f sysFault) String() string {
	if f.Call != "" {
		return fmt.Sprintf("%s@%s#%d/%s*%d", f.Kind, f.Call, f.At, f.Mode, f.N)
	}
	return fmt.Sprintf("%s@%d/%s*%d", f.Kind, f.At, f.Mode, f.N)
}

type sysFaultPlan struct {
	Faults []sysFault
	// random sprinkling (free mode): each call fails with probability P/1000 while Budget > 0
	P, Budget int
	rng       *rand.Rand

	callNo    int
	kindNo    map[string]int
	sameLeft  map[string]int
	sameKind  map[string]string
	burstLeft int
	burstKind string
	injected  int
	stopped   bool // fault-free suffix
}

func (p *sysFaultPlan) String() string {
	if p == nil {
		return "none"
	}
	var s []string
	for _, f := range p.Faults {
		s = append(s, f.String())
	}
	if p.P > 0 {
		s = append(s, fmt.Sprintf("random p=%d/1000 budget=%d", p.P, p.Budget))
	}
	return strings.Join(s, ",")
}

func sysCallKind(c sim.Call) string {
	k := c.Verb + ":" + c.Resource
	if c.Subresource != "" {
		k += ":" + c.Subresource
	}
	return k
}

func (p *sysFaultPlan) decide(c sim.Call) string {
	p.callNo++
	if p.stopped {
		return ""
	}
	if p.kindNo == nil {
		p.kindNo = map[string]int{}
	}
	p.kindNo[sysCallKind(c)]++
	sig := sysCallKind(c) + ":" + c.Key
	if n := p.sameLeft[sig]; n > 0 {
		p.sameLeft[sig] = n - 1
		return p.sameKind[sig]
	}
	if p.burstLeft > 0 {
		p.burstLeft--
		return p.burstKind
	}
	for _, f := range p.Faults {
		if f.Call == "" && f.At != p.callNo || f.Call != "" && (f.Call != sysCallKind(c) || f.At != p.kindNo[f.Call]) {
			continue
		}
		switch f.Mode {
		case "same":
			if p.sameLeft == nil {
				p.sameLeft, p.sameKind = map[string]int{}, map[string]string{}
			}
			p.sameLeft[sig], p.sameKind[sig] = f.N-1, f.Kind
		case "burst":
			p.burstLeft, p.burstKind = f.N-1, f.Kind
		}
		return f.Kind
	}
	if p.P > 0 && p.Budget > 0 && p.rng.Intn(1000) < p.P {
		p.Budget--
		return []string{sim.FaultErr, sim.FaultConflict, sim.FaultTimeout}[p.rng.Intn(3)]
	}
	return ""
}

// fault is SimAPI's fault hook.  The pod deletes of one sync are issued concurrently
// (ConcurrentTasks): all deletes of one contiguous batch share one decision.
func (w *sysWorld) fault(c sim.Call) string {
	if w.plan == nil {
		if c.Verb == "delete" && c.Resource == "pods" {
			return ""
		}
		w.inBatch = false
		return ""
	}
	var f string
	if c.Verb == "delete" && c.Resource == "pods" {
		if !w.inBatch {
			w.inBatch, w.batchKind = true, w.plan.decide(c)
		}
		f = w.batchKind
	} else {
		w.inBatch = false
		f = w.plan.decide(c)
	}
	if f != "" {
		w.plan.injected++
		w.c.Count("sys.fault.kind." + f)
		w.c.Count("sys.fault.call." + sysCallKind(c))
		w.c.Count("sys.fault.ctrl." + w.curCtrl)
		w.tr("  fault %s on %s %s by %s (call #%d)", f, sysCallKind(c), c.Key, w.curCtrl, w.plan.callNo)
	}
	return f
}

// ---------------------------------------------------------------- scheduler actions

func (w *sysWorld) informer(res string) *sim.FakeInformer {
	switch res {
	case "jobs":
		return w.ctx.Sim().Jobs()
	case "jobconfigs":
		return w.ctx.Sim().JobConfigs()
	}
	return w.ctx.Sim().Pods()
}

func (w *sysWorld) afterAction() {
	w.actions++
	w.digests = append(w.digests, w.cheapDigest())
}

// hookBehindFor compares the webhook's cached copy of the JobConfig the Job refers to
// (spec.configName or controller owner reference) with the server's: "incarnation" = present on
// one side only, or another UID; "version" = same object, another resourceVersion; "" = same.
func (w *sysWorld) hookBehindFor(obj runtime.Object) string {
	j, ok := obj.(*execution.Job)
	if !ok {
		return ""
	}
	name := j.Spec.ConfigName
	if ref := metav1.GetControllerOf(j); ref != nil && ref.Kind == execution.KindJobConfig {
		name = ref.Name
	}
	if name == "" {
		return ""
	}
	truth := w.api.Get("jobconfigs", j.Namespace+"/"+name)
	cached, has := w.hookCtx.Sim().JobConfigs().CacheGet(&execution.JobConfig{ObjectMeta: metav1.ObjectMeta{Namespace: j.Namespace, Name: name}})
	if truth == nil || !has {
		if (truth == nil) != !has {
			return "incarnation"
		}
		return ""
	}
	t, c := truth.(*execution.JobConfig), cached.(*execution.JobConfig)
	switch {
	case t.UID != c.UID:
		return "incarnation"
	case t.ResourceVersion != c.ResourceVersion:
		return "version"
	}
	return ""
}

// deliverHook applies the next JobConfig watch event to the webhook process' cache.
func (w *sysWorld) deliverHook() bool {
	ok := w.api.DeliverOneMirror("jobconfigs", w.hookCtx.Sim().JobConfigs())
	if ok {
		w.c.Count("sys.act.deliver.hook-jobconfigs")
		if w.hookFree {
			w.afterAction()
		}
	}
	return ok
}

func (w *sysWorld) deliverOne(res string) bool {
	ok := w.api.DeliverOne(res, w.informer(res))
	if ok && res == "jobconfigs" && !w.hookFree {
		w.deliverHook() // lock-step: the webhooks see what the controllers' cache holds
	}
	if ok {
		w.c.Count("sys.act.deliver." + res)
		w.afterAction()
	}
	return ok
}

func (w *sysWorld) notifyOne(res string, h int) bool {
	inf := w.informer(res)
	if h >= inf.NumHandlers() {
		return false
	}
	ok := inf.NotifyNext(h)
	if ok {
		w.c.Count("sys.act.notify." + res)
		w.replayQueueLogs()
		w.afterAction()
	}
	return ok
}

// replayQueueLogs: handler-issued queue operations were applied to the real queues already;
// they are emitted one by one with the digest the queue had right after each of them.  To keep
// that exact, logQueue records the digest at the time of the call.
func (w *sysWorld) replayQueueLogs() {
	for _, ct := range w.ctrls {
		if w.emit {
			for i, l := range ct.q.log {
				w.c.Emit(fmt.Sprintf("retry.ext %s %d %s", ct.name, ct.q.logNow[i], l), ct.q.logDigest[i])
			}
		}
		ct.q.resetLog()
	}
}

func (w *sysWorld) tick() {
	w.cronWorker.Work()
	w.c.Count("sys.act.tick")
	w.replayQueueLogs()
	w.afterAction()
}

// step advances the controller's queue (due timers) and processes one item with the real
// reconciler.Controller.  Returns false when the queue had nothing ready.
func (w *sysWorld) step(ct *sysCtrl) bool {
	ct.q.DetQueue.Advance()
	if w.emit {
		w.c.Emit(fmt.Sprintf("retry.adv %s %d", ct.name, w.now()), retryDigest(ct.q.DetQueue))
	}
	if ct.q.Len() == 0 {
		return false
	}
	key := ct.q.Ready()[0]
	ct.q.resetLog()
	ct.spy.called, ct.spy.lastErr = false, nil
	w.curCtrl = ct.name
	w.inBatch = false
	w.api.Calls = nil
	w.mon.beforeStep(ct, key)
	podEv0 := len(w.api.Pending["pods"])
	out := Guard(func() string { ct.rc.VerifStep(context.Background()); return "" })
	w.api.SortDeleteRuns("pods", podEv0)
	w.curCtrl = ""
	res := "-"
	if ct.spy.called {
		res = "ok"
		if ct.spy.lastErr != nil {
			res = "err"
		}
	}
	if out == "panic" {
		res = "panic"
		w.c.Violate("C20", "no-panic", "%s: controller %s panicked on key %s", w.label, ct.name, key)
	}
	if w.emit {
		w.c.Emit(fmt.Sprintf("retry.step %s %d %s %s", ct.name, w.now(), res, strings.Join(ct.q.log, " ")), retryDigest(ct.q.DetQueue))
	}
	ct.q.resetLog()
	w.c.Count("sys.act.step." + ct.name)
	w.c.Count("sys.sync." + ct.name + "." + res)
	for _, call := range w.api.Calls {
		w.c.Count("sys.call." + sysCallKind(call) + "." + call.Result)
	}
	w.tr("step %s %s => %s calls=%s", ct.name, key, res, jcCallsStr(w.api.Calls))
	w.mon.afterStep(ct, key, res)
	w.afterAction()
	return true
}

// chaos runs n PRNG-chosen scheduler actions (single deliveries, single handler notifications,
// single controller steps, cron ticks at the current clock).
func (w *sysWorld) chaos(rng *rand.Rand, n int) {
	for i := 0; i < n; i++ {
		if w.hookFree && !w.hookHold && rng.Intn(8) == 0 {
			w.deliverHook()
			continue
		}
		switch r := rng.Intn(100); {
		case r < 28:
			w.deliverOne([]string{"jobs", "jobs", "pods", "jobconfigs"}[rng.Intn(4)])
		case r < 56:
			h := sysHandlers[rng.Intn(len(sysHandlers))]
			w.notifyOne(h.res, h.h)
		case r < 94:
			w.step(w.ctrls[rng.Intn(len(w.ctrls))])
		default:
			w.tick()
		}
	}
}

// drainOnce: deliver everything, run every notification, step every queue until nothing is
// ready, tick the cron worker if JobConfig flushes are pending.  Returns whether anything
// happened.
func (w *sysWorld) drainOnce() bool {
	progressed := false
	for iter := 0; iter < 400; iter++ {
		p := false
		for _, res := range []string{"jobconfigs", "jobs", "pods"} {
			for w.deliverOne(res) {
				p = true
			}
		}
		if w.hookFree && !w.hookHold {
			for w.deliverHook() {
				p = true
			}
		}
		for _, h := range sysHandlers {
			for w.notifyOne(h.res, h.h) {
				p = true
			}
		}
		for _, ct := range w.ctrls {
			for n := 0; n < 60 && w.step(ct); n++ {
				p = true
			}
		}
		if w.cronCtx.VerifUpdatedConfigsLen() > 0 {
			w.tick()
			p = true
		}
		if !p {
			return progressed
		}
		progressed = true
	}
	w.c.Violate("C20", "drain-terminates", "%s: no quiescence after 400 drain iterations", w.label)
	return progressed
}

// earliestDeadline returns the earliest delayed deadline over all queues (0 = none).
func (w *sysWorld) earliestDeadline() int64 {
	var m int64
	for _, ct := range w.ctrls {
		if d := ct.q.NextDeadline(); d != 0 && (m == 0 || d < m) {
			m = d
		}
	}
	return m
}

const sysRoundBudget = int64(950 * time.Millisecond)

// barrier drains to quiescence inside the current round: rate-limited retries whose deadline
// falls inside the round are waited for by moving the clock to that deadline (never past the
// round's budget), then one informer resync round (the 10-minute resync of production).
func (w *sysWorld) barrier() {
	for pass := 0; pass < 2; pass++ {
		for guard := 0; guard < 200; guard++ {
			w.drainOnce()
			d := w.earliestDeadline()
			if d == 0 || d > w.roundT+sysRoundBudget {
				break
			}
			if d > w.now() {
				w.clk.SetTime(time.Unix(0, d))
			}
		}
		if pass == 0 {
			w.ctx.Sim().Jobs().Resync()
			w.ctx.Sim().Pods().Resync()
			w.ctx.Sim().JobConfigs().Resync()
			w.c.Count("sys.act.resync")
		}
	}
	// a retry deadline that does not fit into the round: the round overruns (plans are built
	// so that this does not happen; counted so that it would be visible)
	for _, ct := range w.ctrls {
		if len(ct.q.Requeues()) > 0 {
			w.overrun = true
		}
	}
	if w.overrun {
		w.c.Count("sys.round-overrun")
		for guard := 0; guard < 200 && w.pendingRequeues(); guard++ {
			if d := w.earliestDeadline(); d > w.now() {
				w.clk.SetTime(time.Unix(0, d))
			}
			w.drainOnce()
		}
	}
	w.mon.atQuiescence()
}

func (w *sysWorld) pendingRequeues() bool {
	for _, ct := range w.ctrls {
		if len(ct.q.Requeues()) > 0 {
			return true
		}
	}
	return false
}

// advance moves the clock to the next whole second + (d-1) s: rounds start on whole seconds.
func (w *sysWorld) advance(dSec int64) {
	t := w.roundT/1e9 + dSec
	w.clk.SetTime(time.Unix(t, 0))
	w.roundT = t * 1e9
	w.overrun = false
	w.c.Count("sys.act.advance")
}

// ---------------------------------------------------------------- API helpers

func (w *sysWorld) job(name string) *execution.Job {
	if o := w.api.Get("jobs", "ns/"+name); o != nil {
		return o.(*execution.Job)
	}
	return nil
}

func (w *sysWorld) jobs() []*execution.Job {
	var out []*execution.Job
	for _, k := range w.api.Keys("jobs") {
		out = append(out, w.api.Get("jobs", k).(*execution.Job))
	}
	return out
}

func (w *sysWorld) pods() []*corev1.Pod {
	var out []*corev1.Pod
	for _, k := range w.api.Keys("pods") {
		out = append(out, w.api.Get("pods", k).(*corev1.Pod))
	}
	return out
}

func (w *sysWorld) jobconfigs() []*execution.JobConfig {
	var out []*execution.JobConfig
	for _, k := range w.api.Keys("jobconfigs") {
		out = append(out, w.api.Get("jobconfigs", k).(*execution.JobConfig))
	}
	return out
}

func (w *sysWorld) podsOf(j *execution.Job) []*corev1.Pod {
	var out []*corev1.Pod
	for _, p := range w.pods() {
		if ref := metav1.GetControllerOf(p); ref != nil && ref.Kind == execution.KindJob && ref.UID == j.UID {
			out = append(out, p)
		}
	}
	return out
}

// cheapDigest: a hash of the coarse observable state (used only to measure whether a faulty
// run diverged from the reference in the middle of the run).
func (w *sysWorld) cheapDigest() uint64 {
	h := fnv.New64a()
	for _, j := range w.jobs() {
		fmt.Fprintf(h, "j:%s:%s:%v:%d:%v;", j.Name, j.Status.Phase, j.Status.StartTime != nil, len(j.Status.Tasks), j.DeletionTimestamp != nil)
	}
	for _, p := range w.pods() {
		fmt.Fprintf(h, "p:%s:%s:%v;", p.Name, p.Status.Phase, p.DeletionTimestamp != nil)
	}
	for _, jc := range w.jobconfigs() {
		fmt.Fprintf(h, "c:%s:%d:%d;", jc.Name, jc.Status.Queued, jc.Status.Active)
	}
	return h.Sum64()
}

func sortedStrings(m map[string]bool) []string {
	var out []string
	for k := range m {
		out = append(out, k)
	}
	sort.Strings(out)
	return out
}
