package eng

// Engine "admission" (property C16): the two mutating webhooks' Handle
// (pkg/execution/webhooks/{jobmutatingwebhook,jobconfigmutatingwebhook}), i.e.
// mutation.JobPatcher / JobConfigPatcher / Mutator, cmp.CreateJSONPatch, driven in-process on
// generated AdmissionRequests with a virtual mutation.Clock, a JobConfig informer cache and
// dynamic configuration owned by the harness.
//
// Files: admission.go (world, wire format, the request pipeline and the monitors),
// admission_gen.go (generators of JobConfigs / Jobs / raw JSON variants, corpus scenarios).
//
// Wire format: see lean/FurikoModel/Driver/MutationD.lean.  For every request one op line
// carries the typed projection of the request (what json.Unmarshal hands to the patcher), the
// clock, the effective dynamic configuration, the JobConfig cache and the oracle tables
// (optionValues parse results, option-spec hashes, date library results); the implementation's
// output line is the same projection of the DEFAULTED object, obtained by applying the
// response patch (evanphx/json-patch, the library the API server uses) to the typed re-encoding
// of the request and decoding the result.  The resubmission of the defaulted object (second
// pass) is emitted as an op line of its own.
//
// Monitors (independent of the Lean model; C16/<name>):
//   patch-faithful          response patch applied to the RAW submitted bytes = the defaulted object
//   patch-contract          response patch applied to the typed re-encoding = the mutator's object
//   idempotent              resubmitting the defaulted object yields no patch
//   configname-expansion    template / owner reference / uid label / policy / configName cleared /
//                           explicit labels+annotations win, from the JobConfig and the request
//   substitution-precedence explicit > evaluated option > jobconfig context (disjoint markers)
//   defaults-present        finalizer (create), type, maxAttempts, pending timeout, restartPolicy,
//                           completion strategy present and never overwritten when given
//   lastupdated-stamped-iff JobConfig create with schedule ⇒ now; update ⇒ now iff schedule changed
//   other-ops-untouched     DELETE / CONNECT are allowed without a patch
//   no-panic                Handle never panics

import (
	"bytes"
	"context"
	"encoding/json"
	"fmt"
	"hash/fnv"
	"os"
	"reflect"
	"sort"
	"strings"
	"time"

	jsonpatch "github.com/evanphx/json-patch"
	admissionv1 "k8s.io/api/admission/v1"
	metav1 "k8s.io/apimachinery/pkg/apis/meta/v1"
	"k8s.io/apimachinery/pkg/runtime"
	k8syaml "k8s.io/apimachinery/pkg/util/yaml"
	fakeclock "k8s.io/utils/clock/testing"

	configv1alpha1 "github.com/furiko-io/furiko/apis/config/v1alpha1"
	executiongroup "github.com/furiko-io/furiko/apis/execution"
	execution "github.com/furiko-io/furiko/apis/execution/v1alpha1"
	"github.com/furiko-io/furiko/pkg/core/options"
	"github.com/furiko-io/furiko/pkg/execution/mutation"
	"github.com/furiko-io/furiko/pkg/execution/util/jobconfig"
	"github.com/furiko-io/furiko/pkg/execution/webhooks/jobconfigmutatingwebhook"
	"github.com/furiko-io/furiko/pkg/execution/webhooks/jobmutatingwebhook"
	"github.com/furiko-io/furiko/pkg/runtime/configloader"
	"github.com/furiko-io/furiko/pkg/runtime/controllercontext"
	"github.com/furiko-io/furiko/pkg/runtime/controllercontext/mock"

	"verifharness/sim"
)

func init() { Register("admission", runAdmission) }

// ---------------------------------------------------------------- world

// admConfigs is the dynamic configuration seen by the webhooks: a real ConfigManager (with or
// without the built-in defaults layer) over an in-memory loader, or a load error.
type admConfigs struct {
	controllercontext.Configs
	fail bool
}

func (c *admConfigs) Jobs() (*configv1alpha1.JobExecutionConfig, error) {
	if c.fail {
		return nil, fmt.Errorf("injected config load error")
	}
	return c.Configs.Jobs()
}

type admCtx struct {
	*sim.Context
	cfgs *admConfigs
}

func (c *admCtx) Configs() controllercontext.Configs { return c.cfgs }

type admWorld struct {
	c     *Ctx
	ctx   *admCtx
	clk   *fakeclock.FakeClock
	jw    *jobmutatingwebhook.Webhook
	jcw   *jobconfigmutatingwebhook.Webhook
	store []*execution.JobConfig
	cached []*execution.JobConfig // the copies in the webhooks' informer cache
	seq   int
	// f16open: the known finding F20 (patch addresses a parent that the submitted JSON lacks)
	// still reproduces on its witness; generated cases of that input class are then counted,
	// not judged, by patch-faithful (the class is judged through the named scenarios)
	f16open bool
}

func newAdmWorld(c *Ctx) *admWorld {
	w := &admWorld{c: c}
	w.ctx = &admCtx{Context: sim.NewContext(), cfgs: &admConfigs{}}
	w.setConfig(true, nil, false)
	w.clk = fakeclock.NewFakeClock(time.Unix(1700000000, 0))
	mutation.Clock = w.clk
	var err error
	if w.jw, err = jobmutatingwebhook.NewWebhook(w.ctx); err != nil {
		panic(err)
	}
	if w.jcw, err = jobconfigmutatingwebhook.NewWebhook(w.ctx); err != nil {
		panic(err)
	}
	admCheckShapes()
	return w
}

// setConfig installs the dynamic configuration: built-in defaults layer on/off, an override
// layer, or a load failure.
func (w *admWorld) setConfig(withDefaults bool, over *configv1alpha1.JobExecutionConfig, fail bool) {
	mgr := configloader.NewConfigManager()
	loader := mock.NewMockConfigLoader()
	if withDefaults {
		mgr.AddConfigLoaders(configloader.NewDefaultsLoader(), loader)
	} else {
		mgr.AddConfigLoaders(loader)
	}
	if over != nil {
		loader.SetConfig(configv1alpha1.JobExecutionConfigName, over)
	}
	cfgs := controllercontext.NewContextConfigs(mgr)
	_ = cfgs.Start(context.Background())
	w.ctx.cfgs = &admConfigs{Configs: cfgs, fail: fail}
}

func (w *admWorld) setNow(ns int64) { w.clk.SetTime(time.Unix(0, ns)) }
func (w *admWorld) nowNs() int64    { return w.clk.Now().UnixNano() }

func (w *admWorld) setStore(jcs []*execution.JobConfig) {
	for _, old := range w.cached {
		w.ctx.Sim().JobConfigs().CacheDel(old)
	}
	// w.store is the harness' own record of the JobConfigs as they are STORED (what op lines, the model and the
	// monitors read); the informer cache the webhooks read gets separate copies, so a webhook that writes
	// through a cached object (seed C16w4-1: the expanded Job shared the cached JobConfig's template and was
	// defaulted in place) cannot also rewrite the expectation
	w.store = jcs
	w.cached = nil
	for _, jc := range jcs {
		cp := jc.DeepCopy()
		w.cached = append(w.cached, cp)
		w.ctx.Sim().JobConfigs().CacheSet(cp)
	}
}

// cacheDrift counts the cached JobConfigs that no longer equal the stored ones (observation, not a verdict:
// the property speaks about what later Jobs receive, which the following requests of the case judge)
func (w *admWorld) cacheDrift() {
	for i, jc := range w.store {
		if i < len(w.cached) && !reflect.DeepEqual(jc, w.cached[i]) {
			w.c.Count("observed.cached-jobconfig-modified-by-webhook")
		}
	}
}

func (w *admWorld) storeHasUnescapableOptionName() bool {
	for _, jc := range w.store {
		if jc.Spec.Option == nil {
			continue
		}
		for _, o := range jc.Spec.Option.Options {
			for _, ch := range o.Name {
				if ch < 0x20 || ch == '"' || ch == '\\' {
					return true
				}
			}
		}
	}
	return false
}

func (w *admWorld) lookup(ns, name string) *execution.JobConfig {
	for _, jc := range w.store {
		if jc.Namespace == ns && jc.Name == name {
			return jc
		}
	}
	return nil
}

// admCheckShapes fails loudly when a type grew a field the model and the rest-tags do not know.
func admCheckShapes() {
	want := map[reflect.Type]int{
		reflect.TypeOf(execution.JobSpec{}):            8,
		reflect.TypeOf(execution.JobTemplate{}):        6,
		reflect.TypeOf(execution.StartPolicySpec{}):    2,
		reflect.TypeOf(execution.TaskTemplate{}):       1,
		reflect.TypeOf(execution.ParallelismSpec{}):    4,
		reflect.TypeOf(execution.JobConfigSpec{}):      4,
		reflect.TypeOf(execution.ConcurrencySpec{}):    2,
		reflect.TypeOf(execution.ScheduleSpec{}):       4,
		reflect.TypeOf(execution.CronSchedule{}):       3,
		reflect.TypeOf(execution.ScheduleContraints{}): 2,
		reflect.TypeOf(execution.JobTemplateSpec{}):    2,
	}
	for t, n := range want {
		if t.NumField() != n {
			panic(fmt.Sprintf("admission engine: %v has %d fields, the model knows %d", t, t.NumField(), n))
		}
	}
}

// ---------------------------------------------------------------- wire format

func admHash(v interface{}) string {
	b, err := json.Marshal(v)
	if err != nil {
		return "marshal-error"
	}
	h := fnv.New64a()
	h.Write(b)
	return fmt.Sprintf("%016x", h.Sum64())
}

func admOptT(t *metav1.Time) string {
	if t == nil {
		return "-"
	}
	return fmt.Sprint(t.Unix())
}

func admOptB(b *bool) string {
	if b == nil {
		return "-"
	}
	return B(*b)
}

func admTemplateTok(t *execution.JobTemplate) string {
	var b strings.Builder
	if p := t.TaskTemplate.Pod; p != nil {
		cp := p.DeepCopy()
		cp.Spec.RestartPolicy = ""
		fmt.Fprintf(&b, "p+ %s %s", Q(string(p.Spec.RestartPolicy)), Q(admHash(cp)))
	} else {
		b.WriteString("p-")
	}
	if p := t.Parallelism; p != nil {
		cp := p.DeepCopy()
		cp.CompletionStrategy = ""
		fmt.Fprintf(&b, " r+ %s %s", Q(string(p.CompletionStrategy)), Q(admHash(cp)))
	} else {
		b.WriteString(" r-")
	}
	fmt.Fprintf(&b, " %s %s %s %s", OptI(t.MaxAttempts), OptI(t.RetryDelaySeconds), OptI(t.TaskPendingTimeoutSeconds), B(t.ForbidTaskForceDeletion))
	return b.String()
}

func admJobRest(rj *execution.Job) string {
	cp := rj.DeepCopy()
	cp.Namespace = ""
	cp.CreationTimestamp = metav1.Time{}
	cp.Finalizers, cp.Labels, cp.Annotations, cp.OwnerReferences = nil, nil, nil, nil
	cp.Spec = execution.JobSpec{KillTimestamp: rj.Spec.KillTimestamp}
	return admHash(cp)
}

func admJobTok(rj *execution.Job) string {
	var b strings.Builder
	fmt.Fprintf(&b, "J %s %d %s F %s L %s A %s O %d", Q(rj.Namespace), rj.CreationTimestamp.Unix(), Q(admJobRest(rj)),
		strsTok(rj.Finalizers), mapTok(rj.Labels), mapTok(rj.Annotations), len(rj.OwnerReferences))
	for _, r := range rj.OwnerReferences {
		fmt.Fprintf(&b, " %s %s %s %s %s %s", Q(r.APIVersion), Q(r.Kind), Q(r.Name), Q(string(r.UID)), admOptB(r.Controller), admOptB(r.BlockOwnerDeletion))
	}
	fmt.Fprintf(&b, " %s %s", Q(rj.Spec.ConfigName), Q(string(rj.Spec.Type)))
	if sp := rj.Spec.StartPolicy; sp != nil {
		fmt.Fprintf(&b, " sp+ %s %s", Q(string(sp.ConcurrencyPolicy)), admOptT(sp.StartAfter))
	} else {
		b.WriteString(" sp-")
	}
	if t := rj.Spec.Template; t != nil {
		b.WriteString(" t+ " + admTemplateTok(t))
	} else {
		b.WriteString(" t-")
	}
	fmt.Fprintf(&b, " %s S %s %s", Q(rj.Spec.OptionValues), mapTok(rj.Spec.Substitutions), OptI(rj.Spec.TTLSecondsAfterFinished))
	return b.String()
}

func admSchedTok(s *execution.ScheduleSpec) string {
	if s == nil {
		return "s-"
	}
	var b strings.Builder
	b.WriteString("s+")
	if c := s.Cron; c != nil {
		fmt.Fprintf(&b, " c+ %s %s %s", Q(c.Expression), strsTok(c.Expressions), Q(c.Timezone))
	} else {
		b.WriteString(" c-")
	}
	b.WriteString(" " + B(s.Disabled))
	if k := s.Constraints; k != nil {
		fmt.Fprintf(&b, " k+ %s %s", admOptT(k.NotBefore), admOptT(k.NotAfter))
	} else {
		b.WriteString(" k-")
	}
	b.WriteString(" " + admOptT(s.LastUpdated))
	return b.String()
}

func admJCRest(jc *execution.JobConfig) string {
	cp := jc.DeepCopy()
	cp.Namespace, cp.Name, cp.UID = "", "", ""
	cp.Spec.Template.Labels, cp.Spec.Template.Annotations = nil, nil
	cp.Spec.Template.Spec = execution.JobTemplate{}
	cp.Spec.Concurrency.Policy = ""
	cp.Spec.Schedule, cp.Spec.Option = nil, nil
	return admHash(cp)
}

// admOptOutTok mirrors Lean's showOpt: as optTok, with a type outside the known five as "?".
func admOptOutTok(o execution.Option) string {
	t := optTok(o)
	if !o.Type.IsValid() {
		rest := strings.SplitN(t, " ", 3)
		return "O ? " + rest[2]
	}
	return t
}

func admSpecTok(spec *execution.OptionSpec, out bool) string {
	if !out {
		return specTok(spec)
	}
	if spec == nil {
		return "-"
	}
	var b strings.Builder
	fmt.Fprint(&b, len(spec.Options))
	for _, o := range spec.Options {
		b.WriteString(" " + admOptOutTok(o))
	}
	return b.String()
}

// admJCTok renders a JobConfig; in = as an op-line argument (with the option-spec hash oracle),
// otherwise as an output line.
func admJCTok(jc *execution.JobConfig, in bool) string {
	var b strings.Builder
	fmt.Fprintf(&b, "C %s %s %s %s L %s A %s %s %s %s %s", Q(jc.Namespace), Q(jc.Name), Q(string(jc.UID)), Q(admJCRest(jc)),
		mapTok(jc.Spec.Template.Labels), mapTok(jc.Spec.Template.Annotations), admTemplateTok(&jc.Spec.Template.Spec),
		Q(string(jc.Spec.Concurrency.Policy)), admSchedTok(jc.Spec.Schedule), admSpecTok(jc.Spec.Option, !in))
	if in {
		h, err := options.HashOptionSpec(jc.Spec.Option)
		if err != nil {
			h = "hash-error"
		}
		b.WriteString(" " + Q(h))
	}
	return b.String()
}

func (w *admWorld) envTok() string {
	cfg, err := w.ctx.Configs().Jobs()
	if err != nil {
		return fmt.Sprintf("%d 0 - -", w.nowNs())
	}
	return fmt.Sprintf("%d 1 %s %s", w.nowNs(), OptI(cfg.DefaultTTLSecondsAfterFinished), OptI(cfg.DefaultPendingTimeoutSeconds))
}

// admParseOV is the optionValues oracle: the YAML-or-JSON decoder and encoding/json called
// directly (what jsonyaml.UnmarshalString wraps).
func admParseOV(s string) (norm string, vals map[string]interface{}, ok bool) {
	vals = map[string]interface{}{}
	if err := k8syaml.NewYAMLOrJSONDecoder(bytes.NewBufferString(s), 4096).Decode(&vals); err != nil {
		return "", nil, false
	}
	js, err := json.Marshal(vals)
	if err != nil {
		return "", nil, false
	}
	return string(js), vals, true
}

// ovTable renders the parse oracle for the strings and feeds the date oracle.
func (w *admWorld) ovTable(strs []string, orc *dateOracle) string {
	seen := map[string]bool{}
	var parts []string
	for _, s := range strs {
		if s == "" || seen[s] {
			continue
		}
		seen[s] = true
		norm, vals, ok := admParseOV(s)
		if !ok {
			parts = append(parts, Q(s)+" e")
			continue
		}
		parts = append(parts, fmt.Sprintf("%s p %s %s", Q(s), Q(norm), valuesTok(vals)))
		// the contract Job-create idempotence rests on (ParseStable in Props/C16.lean), sampled
		if norm2, vals2, ok2 := admParseOV(norm); !ok2 || norm == "" || norm2 != norm || valuesTok(vals2) != valuesTok(vals) {
			w.c.Violate("C16", "oracle-parse-stable", "normalised optionValues %q does not parse to itself (%q, ok=%v)", norm, norm2, ok2)
		}
		w.c.Count("oracle.parse-stable-sampled")
		for _, jc := range w.store {
			if jc.Spec.Option != nil {
				for _, o := range jc.Spec.Option.Options {
					orc.add(o, vals[o.Name])
				}
			}
		}
	}
	return fmt.Sprintf("V %d", len(parts)) + joinLead(parts)
}

func joinLead(parts []string) string {
	var b strings.Builder
	for _, p := range parts {
		b.WriteString(" " + p)
	}
	return b.String()
}

func (w *admWorld) storeTok() string {
	var b strings.Builder
	fmt.Fprint(&b, len(w.store))
	for _, jc := range w.store {
		b.WriteString(" " + admJCTok(jc, true))
	}
	return b.String()
}

// ---------------------------------------------------------------- requests

var (
	admGVKJob = metav1.GroupVersionKind{Group: executiongroup.GroupName, Version: execution.Version, Kind: execution.KindJob}
	admGVKJC  = metav1.GroupVersionKind{Group: executiongroup.GroupName, Version: execution.Version, Kind: execution.KindJobConfig}
)

type admReq struct {
	kind   string // job | jc
	op     admissionv1.Operation
	raw    []byte
	oldRaw []byte
	label  string // generator's class label (statistics)
}

type admOutcome struct {
	panicked  bool
	handleErr bool
	rejected  []string // error kinds
	warnings  []string
	patch     []byte
	resp      *admissionv1.AdmissionResponse
	errText   string
}

func (w *admWorld) handle(r *admReq) (o admOutcome) {
	req := &admissionv1.AdmissionRequest{Operation: r.op, Object: runtime.RawExtension{Raw: r.raw}}
	if r.oldRaw != nil {
		req.OldObject = runtime.RawExtension{Raw: r.oldRaw}
	}
	var resp *admissionv1.AdmissionResponse
	var err error
	func() {
		defer func() {
			if rec := recover(); rec != nil {
				o.panicked = true
			}
		}()
		if r.kind == "job" {
			req.Kind = admGVKJob
			resp, err = w.jw.Handle(context.Background(), req)
		} else {
			req.Kind = admGVKJC
			resp, err = w.jcw.Handle(context.Background(), req)
		}
	}()
	if o.panicked {
		return o
	}
	if err != nil || resp == nil {
		o.handleErr = true
		if err != nil {
			o.errText = err.Error()
		}
		return o
	}
	o.resp = resp
	if resp.Result != nil {
		if resp.Result.Details != nil {
			for _, c := range resp.Result.Details.Causes {
				o.rejected = append(o.rejected, admCauseKind(c.Type))
			}
		}
		if len(o.rejected) == 0 {
			o.rejected = []string{"err"}
		}
		return o
	}
	for _, wn := range resp.Warnings {
		switch {
		case strings.HasPrefix(wn, "JobTemplateSpec was overwritten"):
			o.warnings = append(o.warnings, "tmpl")
		case strings.HasPrefix(wn, "optionValues will be ignored"):
			o.warnings = append(o.warnings, "ovignored")
		default:
			o.warnings = append(o.warnings, "other")
		}
	}
	o.patch = resp.Patch
	return o
}

func admCauseKind(t metav1.CauseType) string {
	switch t {
	case metav1.CauseTypeFieldValueNotFound:
		return "notfound"
	case metav1.CauseTypeFieldValueRequired:
		return "required"
	case metav1.CauseTypeFieldValueDuplicate:
		return "duplicate"
	case metav1.CauseTypeFieldValueInvalid:
		return "invalid"
	case metav1.CauseTypeFieldValueNotSupported:
		return "unsupported"
	case metav1.CauseType("InternalError"):
		return "internal"
	}
	return "err"
}

func admApply(patch, doc []byte) ([]byte, error) {
	if len(patch) == 0 {
		return doc, nil
	}
	p, err := jsonpatch.DecodePatch(patch)
	if err != nil {
		return nil, err
	}
	return p.Apply(doc)
}

func admJSONEqual(a, b []byte) bool {
	var x, y interface{}
	if json.Unmarshal(a, &x) != nil || json.Unmarshal(b, &y) != nil {
		return false
	}
	return reflect.DeepEqual(x, y)
}

func admPatchOps(patch []byte) int {
	if len(patch) == 0 {
		return 0
	}
	var ops []interface{}
	if json.Unmarshal(patch, &ops) != nil {
		return -1
	}
	return len(ops)
}

// admResult is what one request produced, for the monitors.
type admResult struct {
	ok       bool // accepted and projected
	rejected bool
	inJob    *execution.Job // typed decode of the request
	outJob   *execution.Job // defaulted object (patch applied to the typed re-encoding)
	inJC     *execution.JobConfig
	oldJC    *execution.JobConfig
	outJC    *execution.JobConfig
	outRaw   []byte // patch applied to the raw bytes (nil if that failed)
	kinds    []string
	warnings []string
	patchOps int
}

// run pushes one request through the real webhook, emits the op line, and returns the result.
func (w *admWorld) run(r *admReq) *admResult {
	c := w.c
	res := &admResult{}
	out := w.handle(r)
	c.Count("op." + r.kind + "." + strings.ToLower(string(r.op)))
	if r.label != "" {
		c.Count("class." + r.label)
	}

	// typed projection of the request = what the webhook decodes
	var opLine string
	var typedDoc []byte
	decodeOK := true
	switch r.kind {
	case "job":
		res.inJob = &execution.Job{}
		if json.Unmarshal(r.raw, res.inJob) != nil {
			decodeOK = false
		}
		if r.op == admissionv1.Update {
			old := &execution.Job{}
			if json.Unmarshal(r.oldRaw, old) != nil {
				decodeOK = false
			}
		}
		if decodeOK {
			typedDoc, _ = json.Marshal(res.inJob)
			if r.op == admissionv1.Create {
				orc := newDateOracle()
				ovt := w.ovTable([]string{res.inJob.Spec.OptionValues}, orc)
				if orc.broken {
					c.Count("skip.date-oracle-broken")
					return res
				}
				opLine = fmt.Sprintf("adm.job.create %s %s %s %s %s", w.envTok(), w.storeTok(), admJobTok(res.inJob), ovt, orc.tok())
			} else {
				opLine = fmt.Sprintf("adm.job.update %s %s", w.envTok(), admJobTok(res.inJob))
			}
		}
	default:
		res.inJC = &execution.JobConfig{}
		if json.Unmarshal(r.raw, res.inJC) != nil {
			decodeOK = false
		}
		if r.op == admissionv1.Update {
			res.oldJC = &execution.JobConfig{}
			if json.Unmarshal(r.oldRaw, res.oldJC) != nil {
				decodeOK = false
			}
		}
		if decodeOK {
			typedDoc, _ = json.Marshal(res.inJC)
			if r.op == admissionv1.Create {
				opLine = fmt.Sprintf("adm.jc.create %s %s", w.envTok(), admJCTok(res.inJC, true))
			} else {
				opLine = fmt.Sprintf("adm.jc.update %s %s %s", w.envTok(), admJCTok(res.oldJC, true), admJCTok(res.inJC, true))
			}
		}
	}
	if out.panicked {
		c.Count("outcome.panic")
		if decodeOK {
			c.Emit(opLine, "panic")
		}
		c.Violate("C16", "no-panic", "Webhook.Handle panicked on %s %s: %s", r.kind, r.op, string(r.raw))
		return res
	}
	if !decodeOK {
		c.Count("outcome.decode-error")
		if !out.handleErr {
			c.Violate("C16", "decode-error-reported", "request does not decode into the typed object but Handle returned no error: %s", string(r.raw))
		}
		return res
	}
	if out.handleErr {
		// gomodules.xyz/jsonpatch (CreatePatch) writes the path of an operation into JSON
		// without escaping it: a changed map key that needs JSON escaping (quote, backslash,
		// control character) makes Handle fail.  Mutation adds only option.<name> and
		// jobconfig.* keys, so this needs an option name that JobConfig validation rejects
		// (C17); such requests are outside the model's domain and are only counted.
		if strings.Contains(out.errText, "cannot create jsonpatch") && w.storeHasUnescapableOptionName() {
			c.Count("outcome.jsonpatch-library-error(invalid-option-name)")
			return res
		}
		c.Count("outcome.handle-error")
		if os.Getenv("ADM_DEBUG") != "" {
			fmt.Fprintf(os.Stderr, "handle-error: %s\n raw: %s\n", out.errText, string(r.raw))
		}
		c.Emit(opLine, "handle-error")
		c.Violate("C16", "no-handle-error", "Webhook.Handle failed on a decodable request: %s\n submitted: %s", out.errText, string(r.raw))
		return res
	}
	if out.rejected != nil {
		res.rejected = true
		res.kinds = out.rejected
		c.Count("outcome.rejected")
		for _, k := range out.rejected {
			c.Count("error." + k)
		}
		if len(out.patch) > 0 || out.resp.Allowed {
			c.Violate("C16", "rejected-has-no-patch", "rejected response is allowed=%v with patch %s", out.resp.Allowed, string(out.patch))
		}
		c.Emit(opLine, fmt.Sprintf("rejected %d%s", len(out.rejected), joinLead(out.rejected)))
		return res
	}
	if !out.resp.Allowed {
		c.Violate("C16", "accepted-is-allowed", "response without errors is not allowed")
	}
	res.warnings = out.warnings
	res.patchOps = admPatchOps(out.patch)
	for _, wn := range out.warnings {
		c.Count("warning." + wn)
	}
	if len(out.patch) > 0 {
		c.Count("outcome.patched")
		if out.resp.PatchType == nil || *out.resp.PatchType != admissionv1.PatchTypeJSONPatch {
			c.Violate("C16", "patch-type", "patch without PatchType JSONPatch")
		}
	} else {
		c.Count("outcome.no-patch")
	}
	// defaulted object: the response patch applied to the SUBMITTED bytes (what the API server does).
	// Submitted documents outside the CRD schema (null / wrong-typed optional objects: a real API
	// server would have rejected or pruned them before the webhook) are not judged: for those the
	// patch is applied to the typed re-encoding, and if that fails too the case is only counted.
	var rawDoc map[string]interface{}
	inEnvelope := json.Unmarshal(r.raw, &rawDoc) == nil && admCRDValid(r.kind, rawDoc)
	patched, err := admApply(out.patch, r.raw)
	if err != nil && !inEnvelope {
		c.Count("raw.outside-crd-envelope-patch-not-applicable")
		patched, err = admApply(out.patch, typedDoc)
		if err != nil {
			c.Emit(opLine, "not-judged")
			return res
		}
	}
	if err != nil {
		known := admF20Class(r.kind, rawDoc)
		if known && w.f16open && w.c.curScenario == "" {
			c.Count("raw.f20-class-not-judged")
			if patched, err = admApply(out.patch, typedDoc); err != nil {
				c.Emit(opLine, "not-judged")
				return res
			}
		} else {
			c.Emit(opLine, "patch-does-not-apply")
			c.Violate("C16", "patch-faithful", "response patch does not apply to the submitted object: %v\n submitted: %s\n patch: %s", err, string(r.raw), string(out.patch))
			return res
		}
	}
	var implOut string
	switch r.kind {
	case "job":
		res.outJob = &execution.Job{}
		if err := json.Unmarshal(patched, res.outJob); err != nil {
			c.Emit(opLine, "patched-does-not-decode")
			c.Violate("C16", "patch-contract", "patched object does not decode: %v", err)
			return res
		}
		implOut = fmt.Sprintf("ok %d%s %s", len(out.warnings), joinLead(out.warnings), admJobTok(res.outJob))
	default:
		res.outJC = &execution.JobConfig{}
		if err := json.Unmarshal(patched, res.outJC); err != nil {
			c.Emit(opLine, "patched-does-not-decode")
			c.Violate("C16", "patch-contract", "patched object does not decode: %v", err)
			return res
		}
		implOut = "ok " + admJCTok(res.outJC, false)
	}
	res.ok = true
	c.Emit(opLine, implOut)

	// patch-contract: the typed route equals what the mutator produces when called directly
	direct := w.direct(r, res)
	// compared as typed objects (an explicit null the submitter wrote for an optional field is the
	// same object as the field omitted)
	var patchedTyped []byte
	if r.kind == "job" {
		patchedTyped, _ = json.Marshal(res.outJob)
	} else {
		patchedTyped, _ = json.Marshal(res.outJC)
	}
	if direct != nil && !admJSONEqual(direct, patchedTyped) {
		c.Violate("C16", "patch-contract", "patch applied to the submitted object differs from the patcher's object\n patched: %s\n patcher: %s", string(patched), string(direct))
	}

	// patch-faithful: the patch applied to the RAW submitted bytes
	w.patchFaithful(r, res, out.patch, patched)
	return res
}

// direct calls the patcher on a copy of the typed decode (cross-check of the patch route).
func (w *admWorld) direct(r *admReq, res *admResult) []byte {
	var b []byte
	func() {
		defer func() { _ = recover() }()
		switch r.kind {
		case "job":
			cp := res.inJob.DeepCopy()
			var old *execution.Job
			if r.op == admissionv1.Update {
				old = &execution.Job{}
				_ = json.Unmarshal(r.oldRaw, old)
			}
			if rr := mutation.NewJobPatcher(w.ctx).Patch(r.op, old, cp); len(rr.Errors) == 0 {
				b, _ = json.Marshal(cp)
			}
		default:
			cp := res.inJC.DeepCopy()
			if rr := mutation.NewJobConfigPatcher(w.ctx).Patch(r.op, res.oldJC, cp); len(rr.Errors) == 0 {
				b, _ = json.Marshal(cp)
			}
		}
	}()
	return b
}

// ---------------------------------------------------------------- raw-document envelope

func admGet(m map[string]interface{}, path ...string) (interface{}, bool) {
	var cur interface{} = m
	for _, p := range path {
		mm, ok := cur.(map[string]interface{})
		if !ok {
			return nil, false
		}
		cur, ok = mm[p]
		if !ok {
			return nil, false
		}
	}
	return cur, true
}

func admHasNull(v interface{}, top bool, key string) bool {
	switch x := v.(type) {
	case nil:
		return !(key == "creationTimestamp")
	case map[string]interface{}:
		for k, e := range x {
			if top && (k == "status") {
				continue
			}
			if admHasNull(e, false, k) {
				return true
			}
		}
	case []interface{}:
		for _, e := range x {
			if admHasNull(e, false, "") {
				return true
			}
		}
	}
	return false
}

// admCRDValid: the raw document satisfies the `required` lists of the CRD's structural schema
// (config/crd/bases) on the paths mutation touches and holds no null for a non-nullable field
// (the API server prunes those before admission).  Outside this envelope the API server either
// never sends the document or rejects the request whatever the webhook answers.
func admCRDValid(kind string, m map[string]interface{}) bool {
	if admHasNull(m, true, "") {
		return false
	}
	if _, ok := admGet(m, "metadata"); !ok {
		return false
	}
	need := func(parent []string, keys ...string) bool {
		p, ok := admGet(m, parent...)
		if !ok {
			return true // parent absent: nothing required
		}
		pm, ok := p.(map[string]interface{})
		if !ok {
			return false
		}
		for _, k := range keys {
			if _, ok := pm[k]; !ok {
				return false
			}
		}
		return true
	}
	if kind == "job" {
		return need([]string{"spec", "startPolicy"}, "concurrencyPolicy") && need([]string{"spec", "template"}, "taskTemplate")
	}
	if !need([]string{"spec"}, "concurrency", "template") || !need([]string{"spec", "concurrency"}, "policy") ||
		!need([]string{"spec", "template"}, "spec") || !need([]string{"spec", "template", "spec"}, "taskTemplate") {
		return false
	}
	if opts, ok := admGet(m, "spec", "option", "options"); ok {
		if arr, ok := opts.([]interface{}); ok {
			for _, e := range arr {
				om, ok := e.(map[string]interface{})
				if !ok {
					return false
				}
				if _, ok := om["name"]; !ok {
					return false
				}
				if _, ok := om["type"]; !ok {
					return false
				}
				if bm, ok := om["bool"].(map[string]interface{}); ok {
					if _, ok := bm["default"]; !ok {
						return false
					}
				}
				if mm, ok := om["multi"].(map[string]interface{}); ok {
					if _, ok := mm["delimiter"]; !ok {
						return false
					}
					if _, ok := mm["values"]; !ok {
						return false
					}
				}
			}
		}
	}
	return true
}

// admF20Class: the input class of known finding F20 — an object that the typed re-encoding
// always emits is absent from the submitted document while mutation writes below it: no `spec`;
// (Jobs) a pod template without `spec` (restartPolicy is defaulted below it); (Jobs with
// configName) an own pod template, which is replaced by the JobConfig's so that the patch
// descends into whatever the typed encoding of the own pod template contains (`metadata`,
// `resources`, ...).
func admF20Class(kind string, m map[string]interface{}) bool {
	if _, ok := admGet(m, "spec"); !ok {
		return true
	}
	if kind == "job" {
		if pod, ok := admGet(m, "spec", "template", "taskTemplate", "pod"); ok {
			if pm, ok := pod.(map[string]interface{}); ok {
				if _, ok := pm["spec"]; !ok {
					return true
				}
				if cn, ok := admGet(m, "spec", "configName"); ok && cn != "" {
					return true
				}
			}
		}
	}
	return false
}

func (w *admWorld) patchFaithful(r *admReq, res *admResult, patch, patchedTyped []byte) {
	c := w.c
	var m map[string]interface{}
	if json.Unmarshal(r.raw, &m) != nil {
		return
	}
	if !admCRDValid(r.kind, m) {
		c.Count("raw.outside-crd-envelope")
		// still useful for the second pass
		if b, err := admApply(patch, r.raw); err == nil {
			res.outRaw = b
		}
		return
	}
	c.Count("raw.in-envelope")
	known := admF20Class(r.kind, m)
	if known {
		c.Count("raw.f20-class")
	}
	patchedRaw, err := admApply(patch, r.raw)
	if err != nil {
		if known && w.f16open && w.c.curScenario == "" {
			c.Count("raw.f20-class-not-judged")
			return
		}
		c.Violate("C16", "patch-faithful", "response patch does not apply to the submitted object: %v\n submitted: %s\n patch: %s", err, string(r.raw), string(patch))
		return
	}
	res.outRaw = patchedRaw
	// decode the raw route and compare with the typed route after a JSON round trip
	var a, b []byte
	switch r.kind {
	case "job":
		o := &execution.Job{}
		if err := json.Unmarshal(patchedRaw, o); err != nil {
			c.Violate("C16", "patch-faithful", "patched submitted object does not decode: %v", err)
			return
		}
		a, _ = json.Marshal(o)
		b, _ = json.Marshal(res.outJob)
	default:
		o := &execution.JobConfig{}
		if err := json.Unmarshal(patchedRaw, o); err != nil {
			c.Violate("C16", "patch-faithful", "patched submitted object does not decode: %v", err)
			return
		}
		a, _ = json.Marshal(o)
		b, _ = json.Marshal(res.outJC)
	}
	if !admJSONEqual(a, b) {
		if known && w.f16open && w.c.curScenario == "" {
			c.Count("raw.f20-class-not-judged")
			return
		}
		c.Violate("C16", "patch-faithful", "patch applied to the submitted object differs from the defaulted object\n submitted: %s\n patch: %s\n got:  %s\n want: %s",
			string(r.raw), string(patch), string(a), string(b))
	}
}

// ---------------------------------------------------------------- second pass

// resubmit sends the defaulted object again (same operation, clock, cache, configuration).
func (w *admWorld) resubmit(r *admReq, res *admResult) {
	c := w.c
	if !res.ok {
		return
	}
	raw := res.outRaw
	if raw == nil {
		switch r.kind {
		case "job":
			raw, _ = json.Marshal(res.outJob)
		default:
			raw, _ = json.Marshal(res.outJC)
		}
	}
	r2 := &admReq{kind: r.kind, op: r.op, raw: raw, oldRaw: r.oldRaw}
	res2 := w.run(r2)
	c.Count("second-pass")
	if res2.rejected {
		c.Violate("C16", "idempotent", "resubmitting the defaulted object is rejected (%v)\n object: %s", res2.kinds, string(raw))
		return
	}
	if !res2.ok {
		return
	}
	if res2.patchOps != 0 {
		var got []byte
		if r.kind == "job" {
			got, _ = json.Marshal(res2.outJob)
		} else {
			got, _ = json.Marshal(res2.outJC)
		}
		c.Violate("C16", "idempotent", "resubmitting the defaulted object yields a further patch (%d ops)\n first:  %s\n second: %s", res2.patchOps, string(raw), string(got))
	}
}

// ---------------------------------------------------------------- monitors on the defaulted object

func admHas(xs []string, x string) bool {
	for _, y := range xs {
		if y == x {
			return true
		}
	}
	return false
}

func admSameOwners(a, b []metav1.OwnerReference) bool {
	return len(a) == 0 && len(b) == 0 || reflect.DeepEqual(a, b)
}

func admI64Eq(a, b *int64) bool {
	if a == nil || b == nil {
		return a == b
	}
	return *a == *b
}

// expectTemplate: what the statement demands of a template after defaulting: every given field
// kept, absent maxAttempts / pending timeout / completion strategy / restart policy filled in.
func (w *admWorld) expectTemplate(in *execution.JobTemplate, taskTemplate bool) *execution.JobTemplate {
	t := &execution.JobTemplate{}
	if in != nil {
		t = in.DeepCopy()
	}
	if t.MaxAttempts == nil {
		one := int64(1)
		t.MaxAttempts = &one
	}
	if t.TaskPendingTimeoutSeconds == nil {
		if cfg, err := w.ctx.Configs().Jobs(); err == nil && cfg.DefaultPendingTimeoutSeconds != nil {
			v := *cfg.DefaultPendingTimeoutSeconds
			t.TaskPendingTimeoutSeconds = &v
		}
	}
	if t.Parallelism != nil && t.Parallelism.CompletionStrategy == "" {
		t.Parallelism.CompletionStrategy = execution.AllSuccessful
	}
	if taskTemplate && t.TaskTemplate.Pod != nil && t.TaskTemplate.Pod.Spec.RestartPolicy == "" {
		t.TaskTemplate.Pod.Spec.RestartPolicy = "Never"
	}
	return t
}

func (w *admWorld) monitorJob(r *admReq, res *admResult) {
	c := w.c
	in, out := res.inJob, res.outJob
	create := r.op == admissionv1.Create
	expanded := create && in.Spec.ConfigName != ""

	// ---- defaults-present
	if create && !admHas(out.Finalizers, executiongroup.DeleteDependentsFinalizer) {
		c.Violate("C16", "defaults-present", "created Job lacks the delete-dependents finalizer: %v", out.Finalizers)
	}
	for _, f := range in.Finalizers {
		if !admHas(out.Finalizers, f) {
			c.Violate("C16", "defaults-present", "finalizer %q given but dropped: %v", f, out.Finalizers)
		}
	}
	if !create && len(out.Finalizers) != len(in.Finalizers) {
		c.Violate("C16", "defaults-present", "update changed the finalizers: %v -> %v", in.Finalizers, out.Finalizers)
	}
	switch {
	case in.Spec.Type != "" && out.Spec.Type != in.Spec.Type:
		c.Violate("C16", "defaults-present", "given type %q overwritten with %q", in.Spec.Type, out.Spec.Type)
	case in.Spec.Type == "" && out.Spec.Type != execution.JobTypeAdhoc:
		c.Violate("C16", "defaults-present", "type defaulted to %q, want Adhoc", out.Spec.Type)
	}
	cfg, _ := w.ctx.Configs().Jobs()
	switch {
	case in.Spec.TTLSecondsAfterFinished != nil && !admI64Eq(in.Spec.TTLSecondsAfterFinished, out.Spec.TTLSecondsAfterFinished):
		c.Violate("C16", "defaults-present", "given ttlSecondsAfterFinished overwritten")
	case in.Spec.TTLSecondsAfterFinished == nil && cfg != nil && !admI64Eq(cfg.DefaultTTLSecondsAfterFinished, out.Spec.TTLSecondsAfterFinished):
		c.Violate("C16", "defaults-present", "ttlSecondsAfterFinished %s, configured default %s", OptI(out.Spec.TTLSecondsAfterFinished), OptI(cfg.DefaultTTLSecondsAfterFinished))
	}
	if out.Spec.Template == nil {
		c.Violate("C16", "defaults-present", "defaulted Job has no template")
		return
	}
	if out.Spec.Template.MaxAttempts == nil {
		c.Violate("C16", "defaults-present", "maxAttempts not set")
	}
	if cfg != nil && cfg.DefaultPendingTimeoutSeconds != nil && out.Spec.Template.TaskPendingTimeoutSeconds == nil {
		c.Violate("C16", "defaults-present", "taskPendingTimeoutSeconds not set although a default is configured")
	}
	if p := out.Spec.Template.TaskTemplate.Pod; p != nil && p.Spec.RestartPolicy == "" {
		c.Violate("C16", "defaults-present", "pod restartPolicy not set")
	}
	if p := out.Spec.Template.Parallelism; p != nil && p.CompletionStrategy == "" {
		c.Violate("C16", "defaults-present", "parallelism completionStrategy not set")
	}
	if !expanded {
		// the submitter's template: every given field kept, absent ones defaulted
		want := w.expectTemplate(in.Spec.Template, true)
		if admHash(want) != admHash(out.Spec.Template) {
			a, _ := json.Marshal(out.Spec.Template)
			b, _ := json.Marshal(want)
			c.Violate("C16", "defaults-present", "template after defaulting %s, want (given fields kept, defaults filled) %s", a, b)
		}
		c.Count("branch.template-own")
	}
	if !create {
		// an update defaults, nothing else
		if !reflect.DeepEqual(in.Labels, out.Labels) && !(len(in.Labels) == 0 && len(out.Labels) == 0) ||
			!reflect.DeepEqual(in.Annotations, out.Annotations) && !(len(in.Annotations) == 0 && len(out.Annotations) == 0) ||
			!admSameOwners(in.OwnerReferences, out.OwnerReferences) || in.Spec.ConfigName != out.Spec.ConfigName ||
			in.Spec.OptionValues != out.Spec.OptionValues || mapTok(in.Spec.Substitutions) != mapTok(out.Spec.Substitutions) ||
			admHash(in.Spec.StartPolicy) != admHash(out.Spec.StartPolicy) {
			c.Violate("C16", "defaults-present", "update changed more than defaults")
		}
		return
	}

	// ---- configname-expansion
	owner := (*execution.JobConfig)(nil)
	if expanded {
		c.Count("branch.configname-present")
		rjc := w.lookup(in.Namespace, in.Spec.ConfigName)
		if rjc == nil {
			c.Violate("C16", "configname-expansion", "configName %q names no JobConfig of namespace %q but the Job was accepted", in.Spec.ConfigName, in.Namespace)
			return
		}
		owner = rjc
		c.Count("branch.configname-found")
		if out.Spec.ConfigName != "" {
			c.Violate("C16", "configname-expansion", "configName not cleared: %q", out.Spec.ConfigName)
		}
		want := w.expectTemplate(&rjc.Spec.Template.Spec, true)
		if admHash(want) != admHash(out.Spec.Template) {
			a, _ := json.Marshal(out.Spec.Template)
			b, _ := json.Marshal(want)
			c.Violate("C16", "configname-expansion", "template %s, want the JobConfig's (with defaults) %s", a, b)
		}
		isTrue := func(b *bool) bool { return b != nil && *b }
		if len(out.OwnerReferences) != 1 || out.OwnerReferences[0].Kind != execution.KindJobConfig || out.OwnerReferences[0].Name != rjc.Name ||
			out.OwnerReferences[0].UID != rjc.UID || !isTrue(out.OwnerReferences[0].Controller) ||
			out.OwnerReferences[0].APIVersion != execution.GroupVersion.String() {
			c.Violate("C16", "configname-expansion", "owner references %+v, want one controller reference to JobConfig %s/%s", out.OwnerReferences, rjc.Name, rjc.UID)
		}
		if out.Labels[jobconfig.LabelKeyJobConfigUID] != string(rjc.UID) {
			c.Violate("C16", "configname-expansion", "uid label %q, want %q", out.Labels[jobconfig.LabelKeyJobConfigUID], rjc.UID)
		}
		// labels: explicit > template's, except the uid label
		wantLabels := map[string]string{}
		for k, v := range rjc.Spec.Template.Labels {
			wantLabels[k] = v
		}
		for k, v := range in.Labels {
			wantLabels[k] = v
		}
		wantLabels[jobconfig.LabelKeyJobConfigUID] = string(rjc.UID)
		if mapTok(wantLabels) != mapTok(out.Labels) {
			c.Violate("C16", "configname-expansion", "labels %s, want (template's, explicit on top, uid label forced) %s", mapTok(out.Labels), mapTok(wantLabels))
		}
		// policy
		given := execution.ConcurrencyPolicy("")
		if in.Spec.StartPolicy != nil {
			given = in.Spec.StartPolicy.ConcurrencyPolicy
		}
		wantPolicy := given
		if given == "" {
			wantPolicy = rjc.Spec.Concurrency.Policy
			c.Count("branch.policy-inherited")
		} else {
			c.Count("branch.policy-given")
		}
		if out.Spec.StartPolicy == nil || out.Spec.StartPolicy.ConcurrencyPolicy != wantPolicy {
			c.Violate("C16", "configname-expansion", "concurrency policy %+v, want %q (given %q, JobConfig's %q)", out.Spec.StartPolicy, wantPolicy, given, rjc.Spec.Concurrency.Policy)
		}
		if in.Spec.StartPolicy != nil && (out.Spec.StartPolicy == nil || admOptT(in.Spec.StartPolicy.StartAfter) != admOptT(out.Spec.StartPolicy.StartAfter)) {
			c.Violate("C16", "configname-expansion", "startAfter changed")
		}
	} else {
		c.Count("branch.configname-absent")
		if !admSameOwners(in.OwnerReferences, out.OwnerReferences) {
			c.Violate("C16", "configname-expansion", "owner references changed without configName")
		}
		if mapTok(in.Labels) != mapTok(out.Labels) {
			c.Violate("C16", "configname-expansion", "labels changed without configName: %s -> %s", mapTok(in.Labels), mapTok(out.Labels))
		}
		if admHash(in.Spec.StartPolicy) != admHash(out.Spec.StartPolicy) {
			c.Violate("C16", "configname-expansion", "startPolicy changed without configName")
		}
		// the owner by reference (what evaluates the options)
		for _, ref := range out.OwnerReferences {
			if ref.Controller != nil && *ref.Controller {
				if ref.Kind == execution.KindJobConfig {
					owner = w.lookup(in.Namespace, ref.Name)
				}
				break
			}
		}
		if owner != nil {
			c.Count("branch.owner-by-reference")
		} else {
			c.Count("branch.no-owner")
		}
	}

	// annotations: explicit > template's (+ schedule time for Scheduled jobs, + option-spec hash)
	wantAnn := map[string]string{}
	if expanded {
		for k, v := range owner.Spec.Template.Annotations {
			wantAnn[k] = v
		}
		if in.Spec.Type == execution.JobTypeScheduled {
			wantAnn[jobconfig.AnnotationKeyScheduleTime] = fmt.Sprint(in.CreationTimestamp.Unix())
			c.Count("branch.scheduled-annotation")
		}
	}
	for k, v := range in.Annotations {
		wantAnn[k] = v
	}
	if owner != nil && in.Spec.OptionValues != "" {
		if h, err := options.HashOptionSpec(owner.Spec.Option); err == nil {
			wantAnn[jobconfig.AnnotationKeyOptionSpecHash] = h
		}
		c.Count("branch.option-values-given")
	}
	if mapTok(wantAnn) != mapTok(out.Annotations) {
		c.Violate("C16", "configname-expansion", "annotations %s, want (template's, explicit on top) %s", mapTok(out.Annotations), mapTok(wantAnn))
	}

	// ---- substitution-precedence: explicit > evaluated option > jobconfig context
	want := map[string]string{}
	if owner != nil {
		want["jobconfig.uid"], want["jobconfig.name"], want["jobconfig.namespace"] = string(owner.UID), owner.Name, owner.Namespace
		allGood := true
		vals := map[string]interface{}{}
		if in.Spec.OptionValues != "" {
			_, v, ok := admParseOV(in.Spec.OptionValues)
			if !ok {
				c.Violate("C16", "substitution-precedence", "optionValues %q is not a JSON/YAML object but the Job was accepted", in.Spec.OptionValues)
				return
			}
			vals = v
		}
		if owner.Spec.Option != nil {
			for _, o := range owner.Spec.Option.Options {
				if !wellFormed(o) {
					allGood = false
					break
				}
				kind, s, _ := specEval(o, vals[o.Name])
				if kind != "ok" {
					c.Violate("C16", "substitution-precedence", "option %s: value %v is %s by the option's specification but the Job was accepted", o.Name, vals[o.Name], kind)
					return
				}
				want["option."+o.Name] = s
				c.Count("option-type." + string(o.Type))
			}
		}
		if !allGood {
			c.Count("branch.malformed-option-spec")
			// explicit values still win, whatever the options evaluate to
			for k, v := range in.Spec.Substitutions {
				if out.Spec.Substitutions[k] != v {
					c.Violate("C16", "substitution-precedence", "explicit substitution %s=%q lost: %q", k, v, out.Spec.Substitutions[k])
				}
			}
			return
		}
	}
	for k, v := range in.Spec.Substitutions {
		want[k] = v
	}
	if mapTok(want) != mapTok(out.Spec.Substitutions) {
		c.Violate("C16", "substitution-precedence", "substitutions %s, want explicit > option value/default > jobconfig context = %s", mapTok(out.Spec.Substitutions), mapTok(want))
	}
}

func admSchedSansLU(s *execution.ScheduleSpec) string {
	if s == nil {
		return "nil"
	}
	cp := s.DeepCopy()
	cp.LastUpdated = nil
	if cp.Cron != nil && len(cp.Cron.Expressions) == 0 {
		cp.Cron.Expressions = nil
	}
	b, _ := json.Marshal(cp)
	// a nil and an empty cron / constraints object are different schedules
	return fmt.Sprintf("%s cron=%v cons=%v", b, cp.Cron != nil, cp.Constraints != nil)
}

func (w *admWorld) monitorJC(r *admReq, res *admResult) {
	c := w.c
	in, out, old := res.inJC, res.outJC, res.oldJC
	nowSec := w.clk.Now().Unix()

	// ---- defaults-present (template and option defaults; never a restart policy: that is the Job's)
	want := w.expectTemplate(&in.Spec.Template.Spec, false)
	if admHash(want) != admHash(&out.Spec.Template.Spec) {
		a, _ := json.Marshal(out.Spec.Template.Spec)
		b, _ := json.Marshal(want)
		c.Violate("C16", "defaults-present", "JobConfig template after defaulting %s, want %s", a, b)
	}
	if (in.Spec.Option == nil) != (out.Spec.Option == nil) {
		c.Violate("C16", "defaults-present", "option spec created or removed")
	} else if in.Spec.Option != nil {
		if len(in.Spec.Option.Options) != len(out.Spec.Option.Options) {
			c.Violate("C16", "defaults-present", "number of options changed")
		} else {
			for i, o := range in.Spec.Option.Options {
				wantO := o.DeepCopy()
				if o.Type == execution.OptionTypeBool {
					if wantO.Bool == nil {
						wantO.Bool = &execution.BoolOptionConfig{}
					}
					if wantO.Bool.Format == "" {
						wantO.Bool.Format = execution.BoolOptionFormatTrueFalse
						c.Count("branch.bool-format-defaulted")
					}
				}
				if admHash(wantO) != admHash(out.Spec.Option.Options[i]) {
					c.Violate("C16", "defaults-present", "option %d after defaulting %s, want %s", i, optTok(out.Spec.Option.Options[i]), optTok(*wantO))
				}
			}
		}
	}

	// ---- lastupdated-stamped-iff
	if (in.Spec.Schedule == nil) != (out.Spec.Schedule == nil) {
		c.Violate("C16", "lastupdated-stamped-iff", "schedule created or removed by the webhook")
		return
	}
	if in.Spec.Schedule == nil {
		c.Count("lastupdated.no-schedule")
		return
	}
	if admSchedSansLU(in.Spec.Schedule) != admSchedSansLU(out.Spec.Schedule) {
		c.Violate("C16", "lastupdated-stamped-iff", "schedule fields other than lastUpdated changed")
	}
	inLU, outLU := in.Spec.Schedule.LastUpdated, out.Spec.Schedule.LastUpdated
	future := inLU != nil && !inLU.IsZero() && inLU.Time.After(w.clk.Now())
	must := r.op == admissionv1.Create
	if r.op == admissionv1.Update {
		must = admSchedSansLU(old.Spec.Schedule) != admSchedSansLU(in.Spec.Schedule)
		if must {
			c.Count("lastupdated.update-schedule-changed")
		} else {
			c.Count("lastupdated.update-schedule-unchanged")
		}
	} else {
		c.Count("lastupdated.create-with-schedule")
	}
	switch {
	case must && future:
		// a value later than now is never moved backwards (DESIGN.md §6/C16)
		c.Count("lastupdated.future-kept")
		if admOptT(outLU) != admOptT(inLU) {
			c.Violate("C16", "lastupdated-stamped-iff", "lastUpdated %s lies after now (%d) but was changed to %s", admOptT(inLU), nowSec, admOptT(outLU))
		}
	case must:
		c.Count("lastupdated.stamped")
		if outLU == nil || outLU.Unix() != nowSec {
			c.Violate("C16", "lastupdated-stamped-iff", "schedule created or changed at %d but lastUpdated is %s (was %s)", nowSec, admOptT(outLU), admOptT(inLU))
		}
	default:
		c.Count("lastupdated.untouched")
		if admOptT(outLU) != admOptT(inLU) {
			c.Violate("C16", "lastupdated-stamped-iff", "schedule unchanged but lastUpdated moved %s -> %s (now %d)", admOptT(inLU), admOptT(outLU), nowSec)
		}
	}
}

// submit runs one request with all monitors and the second pass.
func (w *admWorld) submit(r *admReq) *admResult {
	res := w.run(r)
	if res.ok {
		w.c.Nontrivial()
		if r.kind == "job" {
			w.monitorJob(r, res)
		} else {
			w.monitorJC(r, res)
		}
		w.resubmit(r, res)
	} else if res.rejected && r.kind == "job" && r.op == admissionv1.Create {
		w.monitorRejected(r, res)
	}
	return res
}

// monitorRejected: a Job naming a JobConfig that exists in its namespace, with well-formed
// options and acceptable values, must not be rejected for the expansion's sake.
func (w *admWorld) monitorRejected(r *admReq, res *admResult) {
	c := w.c
	in := res.inJob
	if in.Spec.ConfigName != "" {
		if rjc := w.lookup(in.Namespace, in.Spec.ConfigName); rjc != nil {
			// "A Job created with configName receives ...": it must not be turned away when the
			// JobConfig exists, its options are well-formed and the submitted values acceptable
			_, cfgErr := w.ctx.Configs().Jobs()
			good := cfgErr == nil
			vals := map[string]interface{}{}
			if in.Spec.OptionValues != "" {
				_, v, ok := admParseOV(in.Spec.OptionValues)
				good = good && ok
				vals = v
			}
			if good && rjc.Spec.Option != nil {
				for _, o := range rjc.Spec.Option.Options {
					if !wellFormed(o) {
						good = false
						break
					}
					if kind, _, _ := specEval(o, vals[o.Name]); kind != "ok" {
						good = false
						break
					}
				}
			}
			if good {
				c.Violate("C16", "configname-expansion", "Job naming the existing JobConfig %s/%s with acceptable option values was rejected: %v", rjc.Namespace, rjc.Name, res.kinds)
			} else {
				c.Count("branch.configname-found-but-rejected")
			}
		}
		if w.lookup(in.Namespace, in.Spec.ConfigName) == nil {
			c.Count("branch.configname-notfound")
			if !admHas(res.kinds, "notfound") {
				c.Violate("C16", "configname-expansion", "unknown configName rejected without a not-found cause: %v", res.kinds)
			}
			for _, jc := range w.store {
				if jc.Name == in.Spec.ConfigName && jc.Namespace != in.Namespace {
					c.Count("branch.configname-other-namespace")
				}
			}
		}
	}
}

// otherOps: operations the webhooks do not handle are allowed without a patch.
func (w *admWorld) otherOps(kind string, raw []byte) {
	for _, op := range []admissionv1.Operation{admissionv1.Delete, admissionv1.Connect} {
		out := w.handle(&admReq{kind: kind, op: op, raw: raw})
		w.c.Count("op." + kind + "." + strings.ToLower(string(op)))
		if out.panicked || out.handleErr || out.rejected != nil || len(out.patch) > 0 || out.resp == nil || !out.resp.Allowed {
			w.c.Violate("C16", "other-ops-untouched", "%s of a %s: panicked=%v err=%v rejected=%v patch=%s", op, kind, out.panicked, out.handleErr, out.rejected, string(out.patch))
		}
	}
}

func sortedCopy(xs []string) []string {
	out := append([]string(nil), xs...)
	sort.Strings(out)
	return out
}
