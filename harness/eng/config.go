package eng

// Engine "config" (property C19): drives the REAL controllercontext.SetUpConfigManager /
// configloader.ConfigManager with the REAL DefaultsLoader, ConfigMapLoader and SecretLoader.
// The two informer-backed loaders are started through the verif hook on deterministic fake
// informers (sim.FakeInformer), so that their registered Add/Update/Delete callbacks run
// synchronously when the harness delivers an event; no goroutines are involved.
//
// Oracle data sent to the Lean model: the parse result of every ConfigMap/Secret entry (obtained
// here with the same YAML/JSON and base64 libraries), mergo's emptiness flag of every value, and
// the mapstructure decode result of every (config kind, key, value) triple (obtained here by
// calling the mapstructure library on a one-entry map).
//
// Monitors (ground truth owned by the harness = the generator's INTENT, never the code under
// test, never the Lean model):
//   field-priority   per field, the highest-priority source (Secret > ConfigMap > defaults)
//                    whose last good content sets it wins, zero/false/empty/null included
//   source-atomic    an event that must not change a source (malformed entry, delete, other
//                    object) leaves every Load() of that source unchanged / is invisible to reads
//   source-update    a well-formed update replaces the source's content by exactly the new one
//   last-known-good  an undecodable layered result yields the value of the last successful read
//                    of that config (error only if there was none)
//   recovers         the first read after the layered result became decodable again is fresh
//   alias.fresh      mutating a returned struct does not affect the next successful decode
//   alias.lkg        mutating a returned struct does not affect a later fallback (known: F-C19-1)
//   secret.wire-format  a Secret as client-go delivers it (data already base64-decoded) is applied
//                    (known: F-C19-3)

import (
	"context"
	"encoding/base64"
	"encoding/json"
	"fmt"
	"math/rand"
	"reflect"
	"sort"
	"strconv"
	"strings"

	"github.com/mitchellh/mapstructure"
	corev1 "k8s.io/api/core/v1"
	metav1 "k8s.io/apimachinery/pkg/apis/meta/v1"
	"k8s.io/apimachinery/pkg/apis/meta/v1/unstructured"
	"k8s.io/apimachinery/pkg/runtime"
	"k8s.io/apimachinery/pkg/util/yaml"
	"k8s.io/client-go/informers"
	"k8s.io/client-go/tools/cache"

	configv1alpha1 "github.com/furiko-io/furiko/apis/config/v1alpha1"
	"github.com/furiko-io/furiko/pkg/config"
	"github.com/furiko-io/furiko/pkg/runtime/configloader"
	"github.com/furiko-io/furiko/pkg/runtime/controllercontext"

	"verifharness/sim"
)

func init() { Register("config", runConfig) }

// ---------------------------------------------------------------- kinds and fields (reflection)

type cfgField struct {
	key  string // json key
	kind string // int | bool | string
	ptr  bool
	idx  int
}

type cfgKind struct {
	name   string
	newPtr func() interface{}
	fields []cfgField // monitored fields (TypeMeta excluded)
	def    runtime.Object
}

var cfgKinds = func() []*cfgKind {
	ks := []*cfgKind{
		{name: string(configv1alpha1.JobExecutionConfigName), newPtr: func() interface{} { return &configv1alpha1.JobExecutionConfig{} }, def: config.DefaultJobExecutionConfig},
		{name: string(configv1alpha1.JobConfigExecutionConfigName), newPtr: func() interface{} { return &configv1alpha1.JobConfigExecutionConfig{} }, def: config.DefaultJobConfigExecutionConfig},
		{name: string(configv1alpha1.CronExecutionConfigName), newPtr: func() interface{} { return &configv1alpha1.CronExecutionConfig{} }, def: config.DefaultCronExecutionConfig},
	}
	for _, k := range ks {
		t := reflect.TypeOf(k.newPtr()).Elem()
		for i := 0; i < t.NumField(); i++ {
			f := t.Field(i)
			if f.Anonymous {
				continue
			}
			key := strings.Split(f.Tag.Get("json"), ",")[0]
			ft := f.Type
			cf := cfgField{key: key, idx: i}
			if ft.Kind() == reflect.Ptr {
				cf.ptr = true
				ft = ft.Elem()
			}
			switch ft.Kind() {
			case reflect.Int64:
				cf.kind = "int"
			case reflect.Bool:
				cf.kind = "bool"
			case reflect.String:
				cf.kind = "string"
			default:
				panic("config engine: unsupported field type " + f.Name)
			}
			k.fields = append(k.fields, cf)
		}
	}
	return ks
}()

func cfgKindByName(name string) *cfgKind {
	for _, k := range cfgKinds {
		if k.name == name {
			return k
		}
	}
	return nil
}

func (k *cfgKind) field(key string) *cfgField {
	for i := range k.fields {
		if k.fields[i].key == key {
			return &k.fields[i]
		}
	}
	return nil
}

func scalarRepr(v reflect.Value) string {
	switch v.Kind() {
	case reflect.Int64:
		return strconv.FormatInt(v.Int(), 10)
	case reflect.Bool:
		return strconv.FormatBool(v.Bool())
	case reflect.String:
		return Q(v.String())
	}
	return "?"
}

func fieldRepr(v reflect.Value) string {
	if v.Kind() == reflect.Ptr {
		if v.IsNil() {
			return "nil"
		}
		return scalarRepr(v.Elem())
	}
	return scalarRepr(v)
}

func typeMetaRepr(tm metav1.TypeMeta) string { return Q(tm.Kind) + "/" + Q(tm.APIVersion) }

// renderTyped prints every field of a decoded config in declaration order.
func renderTyped(p interface{}) string {
	v := reflect.ValueOf(p).Elem()
	t := v.Type()
	var parts []string
	for i := 0; i < t.NumField(); i++ {
		f := t.Field(i)
		if f.Anonymous {
			parts = append(parts, "TypeMeta="+typeMetaRepr(v.Field(i).Interface().(metav1.TypeMeta)))
			continue
		}
		parts = append(parts, strings.Split(f.Tag.Get("json"), ",")[0]+"="+fieldRepr(v.Field(i)))
	}
	return strings.Join(parts, ";")
}

// mutateAll changes every field of a decoded config, through pointers where there are any.
func mutateAll(p interface{}) {
	v := reflect.ValueOf(p).Elem()
	for i := 0; i < v.NumField(); i++ {
		f := v.Field(i)
		if v.Type().Field(i).Anonymous {
			continue
		}
		target := f
		if f.Kind() == reflect.Ptr {
			if f.IsNil() {
				f.Set(reflect.New(f.Type().Elem()))
			}
			target = f.Elem()
		}
		switch target.Kind() {
		case reflect.Int64:
			target.SetInt(target.Int() + 424242)
		case reflect.Bool:
			target.SetBool(!target.Bool())
		case reflect.String:
			target.SetString(target.String() + "~MUTATED")
		}
	}
}

// ---------------------------------------------------------------- values and tokens

type M = map[string]interface{}

func jsonText(v interface{}) string {
	b, err := json.Marshal(v)
	if err != nil {
		panic(err)
	}
	return string(b)
}

// valToken classifies a JSON value the way mergo sees the interface element.
func valToken(v interface{}) string {
	e := func(b bool) string {
		if b {
			return "1"
		}
		return "0"
	}
	switch x := v.(type) {
	case nil:
		return "z"
	case map[string]interface{}:
		return "o" + e(len(x) == 0) + ":" + Q(jsonText(x))
	case []interface{}:
		return "a" + e(len(x) == 0) + ":" + Q(jsonText(x))
	case float64:
		return "a" + e(x == 0) + ":" + Q(jsonText(x))
	case string:
		return "a" + e(x == "") + ":" + Q(jsonText(x))
	case bool:
		return "a" + e(!x) + ":" + Q(jsonText(x))
	}
	panic(fmt.Sprintf("config engine: unexpected value type %T", v))
}

func cmapToken(m M) string {
	if len(m) == 0 {
		return "{}"
	}
	type kv struct{ k, v string }
	var kvs []kv
	for k, v := range m {
		kvs = append(kvs, kv{Q(k), valToken(v)})
	}
	sort.Slice(kvs, func(i, j int) bool { return kvs[i].k < kvs[j].k })
	parts := make([]string, len(kvs))
	for i, x := range kvs {
		parts[i] = x.k + "~" + x.v
	}
	return strings.Join(parts, ";")
}

// parseEntryText is the harness' own call of the YAML-or-JSON library (what `unmarshal` relies on).
func parseEntryText(s string) (M, error) {
	var m M
	err := yaml.NewYAMLOrJSONDecoder(strings.NewReader(s), 4096).Decode(&m)
	return m, err
}

// decodeOracle: mapstructure (same DecoderConfig as the manager) on the one-entry map {key: v}.
func decodeOracle(k *cfgKind, key string, v interface{}) string {
	out := k.newPtr()
	d, err := mapstructure.NewDecoder(&mapstructure.DecoderConfig{TagName: "json", Result: out})
	if err != nil {
		panic(err)
	}
	if err := d.Decode(M{key: v}); err != nil {
		return "bad"
	}
	if key == "TypeMeta" {
		return "ok:" + typeMetaRepr(reflect.ValueOf(out).Elem().Field(0).Interface().(metav1.TypeMeta))
	}
	f := k.field(key)
	if f == nil {
		return "ign"
	}
	return "ok:" + fieldRepr(reflect.ValueOf(out).Elem().Field(f.idx))
}

// ---------------------------------------------------------------- intent (ground truth)

// ival is the generator's intent for one key: its class and the JSON value it stands for.
type ival struct {
	class string // zero | nonzero | null | wrongScalar | wrongList | wrongObj | unknown
	v     interface{}
}

type ientry struct {
	name    string
	kvs     M                 // intended parsed content (when !bad)
	classes map[string]string // key -> class
	bad     string            // "" | "yaml" | "b64"
	text    string
}

type iobj struct {
	entries []ientry
	target  string // match | othername | otherns | wrongtype | tombstone
}

func (o *iobj) isBad() bool {
	for _, e := range o.entries {
		if e.bad != "" {
			return true
		}
	}
	return false
}

var malformedTexts = []string{"", "{", "- a\n- b", "5", "abc", "a: b: c", "a: [", "\t", "\"x", "[1,2]", "? [1]\n: 2", "a: 1\n  b: 2"}

func zeroOf(kind string) interface{} {
	switch kind {
	case "int":
		return 0.0
	case "bool":
		return false
	}
	return ""
}

func nonzeroOf(kind string, rng *rand.Rand) interface{} {
	switch kind {
	case "int":
		return float64([]int64{1, 2, 7, 60, 899, 901, 3601, 86400, -1, 1 << 40}[rng.Intn(10)])
	case "bool":
		return true
	}
	return []string{"quartz", "standard", "Asia/Singapore", "UTC", "x y", "ü", "0", "true", "null"}[rng.Intn(9)]
}

func wrongScalarOf(kind string, rng *rand.Rand) interface{} {
	switch kind {
	case "int":
		return []interface{}{"5", "", true, false, "x"}[rng.Intn(5)]
	case "bool":
		return []interface{}{0.0, 1.0, "true", "", "no!"}[rng.Intn(5)]
	}
	return []interface{}{0.0, 5.0, true, false}[rng.Intn(4)]
}

func valueOfClass(class, kind string, rng *rand.Rand) interface{} {
	switch class {
	case "zero":
		return zeroOf(kind)
	case "nonzero":
		return nonzeroOf(kind, rng)
	case "null":
		return nil
	case "wrongScalar":
		return wrongScalarOf(kind, rng)
	case "wrongList":
		return [][]interface{}{{}, {1.0}, {"a", "b"}}[rng.Intn(3)]
	case "wrongObj":
		return []M{{}, {"a": 1.0}, {"kind": "K"}}[rng.Intn(3)]
	}
	panic("class " + class)
}

// expectedRepr: what the field must read as when the winning binding has this class/value.
func expectedRepr(f *cfgField, class string, v interface{}) string {
	switch class {
	case "unset", "null":
		if f.ptr {
			return "nil"
		}
		return scalarRepr(reflect.ValueOf(map[string]interface{}{"int": int64(0), "bool": false, "string": ""}[f.kind]))
	case "zero", "nonzero":
		switch f.kind {
		case "int":
			return strconv.FormatInt(int64(v.(float64)), 10)
		case "bool":
			return strconv.FormatBool(v.(bool))
		}
		return Q(v.(string))
	}
	return "undecodable"
}

// renderEntryText serialises an intended entry as JSON or as block YAML with YAML-only spellings.
func renderEntryText(kvs M, rng *rand.Rand) string {
	if len(kvs) == 0 {
		return []string{"{}", "null", "~", " ", "# nothing here\n", "---\n"}[rng.Intn(6)]
	}
	if rng.Intn(3) == 0 {
		return jsonText(kvs)
	}
	var b strings.Builder
	for _, k := range SortedKeys(kvs) {
		b.WriteString(jsonText(k))
		b.WriteString(":")
		switch v := kvs[k].(type) {
		case nil:
			b.WriteString([]string{"", " ~", " null", " Null"}[rng.Intn(4)])
		case bool:
			if v {
				b.WriteString([]string{" true", " yes", " on", " True"}[rng.Intn(4)])
			} else {
				b.WriteString([]string{" false", " no", " off", " False"}[rng.Intn(4)])
			}
		case string:
			if v == "" {
				b.WriteString([]string{" ''", " \"\""}[rng.Intn(2)])
			} else {
				b.WriteString(" " + jsonText(v))
			}
		default:
			b.WriteString(" " + jsonText(v))
		}
		b.WriteString("\n")
	}
	return b.String()
}

func sameJSON(a, b M) bool {
	if len(a) == 0 && len(b) == 0 {
		return true
	}
	return jsonText(a) == jsonText(b)
}

// ---------------------------------------------------------------- the real system under test

type cfgFakeFactory struct {
	informers.SharedInformerFactory
}

func (cfgFakeFactory) Start(<-chan struct{}) {}

type cfgWrapLoader struct {
	configloader.Loader
	start func(ctx context.Context) error
}

func (w cfgWrapLoader) Start(ctx context.Context) error { return w.start(ctx) }

type cfgSys struct {
	cc                  *controllercontext.ContextConfigs
	def                 *configloader.DefaultsLoader
	cm                  *configloader.ConfigMapLoader
	sec                 *configloader.SecretLoader
	cmInf, secInf       *sim.FakeInformer
	ns, cmName, secName string
	order               []string
}

func newCfgSys(customRef bool) *cfgSys {
	s := &cfgSys{ns: "furiko-system", cmName: "execution-dynamic-config", secName: "execution-dynamic-config",
		cmInf: sim.NewFakeInformer(), secInf: sim.NewFakeInformer()}
	spec := &configv1alpha1.BootstrapConfigSpec{}
	if customRef {
		s.ns, s.cmName, s.secName = "ns1", "dyn-cm", "dyn-secret"
		spec.DynamicConfigs = &configv1alpha1.DynamicConfigsSpec{
			ConfigMap: &configv1alpha1.ObjectReference{Namespace: s.ns, Name: s.cmName},
			Secret:    &configv1alpha1.ObjectReference{Namespace: s.ns, Name: s.secName},
		}
	}
	s.cc = controllercontext.SetUpConfigManager(spec, nil).(*controllercontext.ContextConfigs)
	s.cc.ConfigManager.VerifWrapLoaders(func(l configloader.Loader) configloader.Loader {
		s.order = append(s.order, l.Name())
		switch t := l.(type) {
		case *configloader.SecretLoader:
			s.sec = t
			return cfgWrapLoader{l, func(ctx context.Context) error { return t.VerifStartWithInformer(ctx, cfgFakeFactory{}, s.secInf) }}
		case *configloader.ConfigMapLoader:
			s.cm = t
			return cfgWrapLoader{l, func(ctx context.Context) error { return t.VerifStartWithInformer(ctx, cfgFakeFactory{}, s.cmInf) }}
		case *configloader.DefaultsLoader:
			s.def = t
		}
		return l
	})
	if s.cm == nil || s.sec == nil || s.def == nil {
		panic("config engine: SetUpConfigManager no longer registers the three loaders")
	}
	return s
}

func (s *cfgSys) readKind(name string) (interface{}, error) {
	switch name {
	case "jobs":
		return s.cc.Jobs()
	case "jobConfigs":
		return s.cc.JobConfigs()
	case "cron":
		return s.cc.Cron()
	}
	panic("kind " + name)
}

// ---------------------------------------------------------------- one case

type cfgSrcTruth struct {
	lastGood  map[string]M                 // config name -> intended content of the last good object
	classes   map[string]map[string]string // config name -> key -> class
	disturbed bool                         // the latest event aimed at this source did not (must not) change it
}

type cfgCase struct {
	c       *Ctx
	rng     *rand.Rand
	sys     *cfgSys
	started bool

	defaults                      map[string]M
	defClasses                    map[string]map[string]string
	src                           map[string]*cfgSrcTruth // "cm" | "sec"
	decSeen                       map[string]bool
	objOwner                      map[string]string // name/key -> layer allowed to hold an object value
	lastServed                    map[string]string // config name -> typed of the last ok read
	lastFallback                  map[string]bool   // config name -> the previous read was judged undecodable
	prevLoads                     map[string]string // src -> last observed Load() line
	namesSeen                     []string
	lastBadObj                    map[string]*iobj
	lastDelivered                 map[string]interface{} // src -> the object of the previous notification (the "old" object of an update)
	judge                         bool                   // monitors on (off for correspondence-only cases outside the property's domain)
	sawGood, sawBad, readAfterBad bool
}

func newCfgCase(c *Ctx, rng *rand.Rand, customRef bool) *cfgCase {
	cs := &cfgCase{c: c, rng: rng, sys: newCfgSys(customRef), judge: true,
		defaults: map[string]M{}, defClasses: map[string]map[string]string{},
		src:     map[string]*cfgSrcTruth{"cm": {lastGood: map[string]M{}, classes: map[string]map[string]string{}}, "sec": {lastGood: map[string]M{}, classes: map[string]map[string]string{}}},
		decSeen: map[string]bool{}, objOwner: map[string]string{}, lastServed: map[string]string{}, lastFallback: map[string]bool{},
		prevLoads: map[string]string{}, lastBadObj: map[string]*iobj{}, lastDelivered: map[string]interface{}{}}
	c.Emit("cfg.reset", "ok")
	return cs
}

func (cs *cfgCase) emitDec(name string, m M) {
	k := cfgKindByName(name)
	if k == nil {
		return
	}
	for _, key := range SortedKeys(m) {
		tok := valToken(m[key])
		id := name + " " + Q(key) + " " + tok
		if cs.decSeen[id] {
			continue
		}
		cs.decSeen[id] = true
		r := decodeOracle(k, key, m[key])
		cs.c.Count("dec." + strings.SplitN(r, ":", 2)[0])
		cs.c.Emit("cfg.dec "+id+" "+r, "ok")
	}
}

// setDefaultsBuiltin leaves DefaultsLoader.Defaults as NewDefaultsLoader built it.
func (cs *cfgCase) setDefaultsBuiltin() {
	for _, k := range cfgKinds {
		m := M{}
		b, _ := json.Marshal(k.def)
		_ = json.Unmarshal(b, &m)
		// intent: read the built-in object's fields directly
		intent := M{}
		cl := map[string]string{}
		v := reflect.ValueOf(k.def).Elem()
		for _, f := range k.fields {
			fv := v.Field(f.idx)
			if fv.Kind() == reflect.Ptr {
				if fv.IsNil() {
					continue
				}
				fv = fv.Elem()
			} else if fv.IsZero() {
				continue // omitempty: a zero non-pointer built-in default is "unset"
			}
			var val interface{}
			switch f.kind {
			case "int":
				val = float64(fv.Int())
			case "bool":
				val = fv.Bool()
			default:
				val = fv.String()
			}
			intent[f.key] = val
			if reflect.ValueOf(val).IsZero() {
				cl[f.key] = "zero"
			} else {
				cl[f.key] = "nonzero"
			}
		}
		if !sameJSON(intent, m) {
			panic("config engine: built-in defaults do not marshal to their field values: " + jsonText(m))
		}
		cs.defaults[k.name] = intent
		cs.defClasses[k.name] = cl
	}
	cs.c.Emit("cfg.defaults builtin", "ok")
	for _, k := range cfgKinds {
		cs.emitDec(k.name, cs.defaults[k.name])
	}
}

// setDefaultsCustom installs Defaults objects (typed when possible, unstructured otherwise).
func (cs *cfgCase) setDefaultsCustom(content map[string]M, classes map[string]map[string]string) {
	objs := map[configv1alpha1.ConfigName]runtime.Object{}
	var toks []string
	for _, name := range SortedKeys(content) {
		m := content[name]
		k := cfgKindByName(name)
		typedOK := k != nil
		if k != nil {
			for key, cl := range classes[name] {
				if k.field(key) == nil || (cl != "zero" && cl != "nonzero") {
					typedOK = false
				}
			}
		}
		var obj runtime.Object
		intent := M{}
		for key, v := range m {
			intent[key] = v
		}
		if typedOK {
			p := k.newPtr()
			v := reflect.ValueOf(p).Elem()
			for key, val := range m {
				f := k.field(key)
				fv := v.Field(f.idx)
				var sv reflect.Value
				switch f.kind {
				case "int":
					sv = reflect.ValueOf(int64(val.(float64)))
				case "bool":
					sv = reflect.ValueOf(val.(bool))
				default:
					sv = reflect.ValueOf(val.(string))
				}
				if f.ptr {
					np := reflect.New(fv.Type().Elem())
					np.Elem().Set(sv)
					fv.Set(np)
				} else {
					fv.Set(sv)
					if sv.IsZero() {
						delete(intent, key) // omitempty drops it: the defaults layer cannot set a zero here
						classes[name][key] = "unset"
					}
				}
			}
			obj = p.(runtime.Object)
			cs.c.Count("defaults.custom-typed")
		} else {
			cp := M{}
			_ = json.Unmarshal([]byte(jsonText(m)), &cp)
			obj = &unstructured.Unstructured{Object: cp}
			cs.c.Count("defaults.custom-unstructured")
		}
		// what DefaultsLoader.marshal will produce (library call, used as the model's input)
		mm := M{}
		b, err := json.Marshal(obj)
		if err != nil {
			panic(err)
		}
		_ = json.Unmarshal(b, &mm)
		if !sameJSON(mm, intent) {
			panic("config engine: custom defaults do not marshal to the intent: " + jsonText(mm) + " vs " + jsonText(intent))
		}
		objs[configv1alpha1.ConfigName(name)] = obj
		cs.defaults[name] = intent
		cs.defClasses[name] = classes[name]
		toks = append(toks, Q(name)+"|"+cmapToken(mm))
	}
	cs.sys.def.Defaults = objs
	cs.c.Emit(strings.TrimSpace("cfg.defaults "+strings.Join(toks, " ")), "ok")
	for _, name := range SortedKeys(content) {
		cs.emitDec(name, cs.defaults[name])
	}
}

func (cs *cfgCase) start() {
	out := Guard(func() string {
		if err := cs.sys.cc.Start(context.Background()); err != nil {
			return "err"
		}
		return "ok"
	})
	cs.started = true
	cs.c.Emit("cfg.start", out)
	want := []string{"DefaultsLoader", "ConfigMapLoader", "SecretLoader"}
	if cs.judge && !reflect.DeepEqual(cs.sys.order, want) {
		cs.c.Violate("C19", "field-priority", "loaders are registered in the order %v, the property requires defaults < ConfigMap < Secret", cs.sys.order)
	}
}

func (cs *cfgCase) noteName(n string) {
	for _, x := range cs.namesSeen {
		if x == n {
			return
		}
	}
	cs.namesSeen = append(cs.namesSeen, n)
	sort.Strings(cs.namesSeen)
}

func threeNames() []string { return []string{"jobs", "jobConfigs", "cron"} }

func isThree(n string) bool { return n == "jobs" || n == "jobConfigs" || n == "cron" }

// loadNames: the three kinds, then the other names sorted by their encoded form, without duplicates.
func loadNames(extra []string) []string {
	names := threeNames()
	var others []string
	seen := map[string]bool{}
	for _, n := range extra {
		if !isThree(n) && !seen[n] {
			seen[n] = true
			others = append(others, Q(n))
		}
	}
	sort.Strings(others)
	return append(names, others...)
}

func unQ(s string) string {
	if s == "%-" {
		return ""
	}
	var b strings.Builder
	for i := 0; i < len(s); i++ {
		if s[i] == '%' && i+2 < len(s) {
			v, err := strconv.ParseUint(s[i+1:i+3], 16, 8)
			if err == nil {
				b.WriteByte(byte(v))
				i += 2
				continue
			}
		}
		b.WriteByte(s[i])
	}
	return b.String()
}

// loadsLine prints Load(name) of a loader for the three kinds plus the given extra names.
func loadsLine(l configloader.Loader, extra []string) string {
	names := loadNames(extra)
	parts := make([]string, len(names))
	for i, qn := range names {
		cfg, err := l.Load(configv1alpha1.ConfigName(unQ(qn)))
		if err != nil {
			parts[i] = qn + "=err"
			continue
		}
		parts[i] = qn + "=" + cmapToken(M(cfg))
	}
	return strings.Join(parts, " ")
}

func truthLoadsLine(t *cfgSrcTruth, extra []string) string {
	names := loadNames(extra)
	parts := make([]string, len(names))
	for i, qn := range names {
		parts[i] = qn + "=" + cmapToken(t.lastGood[unQ(qn)])
	}
	return strings.Join(parts, " ")
}

// deliver sends one informer notification to the real loader and checks the source-level clauses.
func (cs *cfgCase) deliver(src, kind string, o *iobj) {
	sys := cs.sys
	ns, name := sys.ns, sys.cmName
	if src == "sec" {
		name = sys.secName
	}
	switch o.target {
	case "othername":
		name += "-other"
	case "otherns":
		ns += "-other"
	}
	// build the entries: text, library parse (model input), self-check against the intent
	var toks []string
	var evNames []string
	cmData := map[string]string{}
	secData := map[string][]byte{}
	for i := range o.entries {
		e := &o.entries[i]
		evNames = append(evNames, e.name)
		var parsed M
		var perr error
		switch e.bad {
		case "b64":
			secData[e.name] = []byte(e.text)
			_, perr = base64.StdEncoding.DecodeString(e.text)
			if perr == nil {
				panic("config engine: intended-bad base64 decodes: " + e.text)
			}
		default:
			cmData[e.name] = e.text
			secData[e.name] = []byte(base64.StdEncoding.EncodeToString([]byte(e.text)))
			parsed, perr = parseEntryText(e.text)
			if (perr != nil) != (e.bad != "") {
				panic(fmt.Sprintf("config engine: intent bad=%q but library parse error=%v for %q", e.bad, perr, e.text))
			}
			if perr == nil && !sameJSON(parsed, e.kvs) {
				panic(fmt.Sprintf("config engine: entry %q parses to %s, intent %s", e.text, jsonText(parsed), jsonText(e.kvs)))
			}
		}
		if perr != nil {
			toks = append(toks, Q(e.name)+"|!")
			cs.c.Count("entry.bad." + e.bad)
		} else {
			toks = append(toks, Q(e.name)+"|"+cmapToken(parsed))
			cs.c.Count("entry.good")
			cs.emitDec(e.name, parsed)
			for _, cl := range e.classes {
				cs.c.Count("val." + cl)
			}
		}
		cs.noteName(e.name)
	}
	sort.Strings(toks)
	var obj interface{}
	if src == "cm" {
		obj = &corev1.ConfigMap{ObjectMeta: metav1.ObjectMeta{Namespace: ns, Name: name}, Data: cmData}
	} else {
		obj = &corev1.Secret{ObjectMeta: metav1.ObjectMeta{Namespace: ns, Name: name}, Data: secData}
	}
	isTarget := true
	switch o.target {
	case "othername", "otherns":
		isTarget = false
	case "wrongtype":
		obj = &corev1.Pod{ObjectMeta: metav1.ObjectMeta{Namespace: ns, Name: name}}
		isTarget = false
	case "tombstone":
		obj = cache.DeletedFinalStateUnknown{Key: ns + "/" + name, Obj: obj}
	}
	inf, loader := sys.cmInf, configloader.Loader(sys.cm)
	if src == "sec" {
		inf, loader = sys.secInf, sys.sec
	}
	before := loadsLine(loader, cs.namesSeen)
	out := Guard(func() string {
		switch kind {
		case "add":
			inf.NotifyAdd(-1, obj)
		case "update":
			// the old object is the previously delivered one (an empty object of the watched name at first)
			old := cs.lastDelivered[src]
			if old == nil {
				if src == "cm" {
					old = &corev1.ConfigMap{ObjectMeta: metav1.ObjectMeta{Namespace: sys.ns, Name: sys.cmName}}
				} else {
					old = &corev1.Secret{ObjectMeta: metav1.ObjectMeta{Namespace: sys.ns, Name: sys.secName}}
				}
			}
			inf.NotifyUpdate(-1, old, obj)
		case "delete":
			inf.NotifyDelete(-1, obj)
		}
		return loadsLine(loader, evNames)
	})
	cs.lastDelivered[src] = obj
	cs.c.Count("ev." + src + "." + kind + "." + o.target)
	cs.c.Emit(strings.TrimSpace(fmt.Sprintf("cfg.ev %s %s %s %s", src, kind, B(isTarget), strings.Join(toks, " "))), out)

	// ground truth
	t := cs.src[src]
	applies := kind != "delete" && isTarget
	switch {
	case applies && !o.isBad():
		t.lastGood = map[string]M{}
		t.classes = map[string]map[string]string{}
		for _, e := range o.entries {
			t.lastGood[e.name] = e.kvs
			t.classes[e.name] = e.classes
		}
		t.disturbed = false
		cs.sawGood = true
		cs.c.Count("ev.effect.replaced")
	case applies:
		t.disturbed = true
		cs.sawBad = true
		cs.lastBadObj[src] = o
		cs.c.Count("ev.effect.rejected-malformed")
	case kind == "delete":
		t.disturbed = true
		cs.c.Count("ev.effect.delete-ignored")
	default:
		cs.c.Count("ev.effect.not-target")
	}
	if !cs.judge || out == "panic" {
		if out == "panic" && cs.judge {
			cs.c.Violate("C19", "source-atomic", "event handler panicked")
		}
		return
	}
	after := loadsLine(loader, cs.namesSeen)
	want := truthLoadsLine(t, cs.namesSeen)
	if applies && !o.isBad() {
		if after != want {
			cs.c.Violate("C19", "source-update", "%s after a well-formed %s: Load() = %s, expected exactly the new content %s", src, kind, after, want)
		}
	} else if after != before || after != want {
		cs.c.Violate("C19", "source-atomic", "%s changed on an event that must not change it (%s, target=%s, malformed=%v): before %s after %s expected %s",
			src, kind, o.target, o.isBad(), before, after, want)
	}
}

// expectation computes, from the intent only, what a read of this config must return.
// ok=false: the layered result is undecodable (some winning binding has a wrong-typed value).
// known=true: the state has the shape of known finding F-C19-2 (a wrong-typed OBJECT value above
// a non-empty lower value); then, unless strict is set, the expectation is computed as if such an
// object binding were absent (which is what the code does), so that everything else in that
// state is still judged. The named scenario objwrong-partial-apply judges strictly.
func (cs *cfgCase) expectation(k *cfgKind, strict bool) (typed string, ok bool, known bool) {
	layers := []struct {
		m  M
		cl map[string]string
	}{ // lowest priority first, by the property's sentence
		{cs.defaults[k.name], cs.defClasses[k.name]},
		{cs.src["cm"].lastGood[k.name], cs.src["cm"].classes[k.name]},
		{cs.src["sec"].lastGood[k.name], cs.src["sec"].classes[k.name]},
	}
	ok = true
	parts := []string{"TypeMeta=" + typeMetaRepr(metav1.TypeMeta{})}
	for i := range k.fields {
		f := &k.fields[i]
		class, val := "unset", interface{}(nil)
		for _, l := range layers {
			v, bound := l.m[f.key]
			if !bound {
				continue // unset falls through
			}
			if l.cl[f.key] == "wrongObj" && class != "unset" && !isEmptyJSON(val) {
				known = true
				if !strict {
					continue
				}
			}
			class, val = l.cl[f.key], v // a higher layer that sets the field wins, whatever the value
		}
		r := expectedRepr(f, class, val)
		if r == "undecodable" {
			ok = false
		}
		parts = append(parts, f.key+"="+r)
	}
	return strings.Join(parts, ";"), ok, known
}

func isEmptyJSON(v interface{}) bool {
	switch x := v.(type) {
	case nil:
		return true
	case float64:
		return x == 0
	case bool:
		return !x
	case string:
		return x == ""
	case []interface{}:
		return len(x) == 0
	case map[string]interface{}:
		return len(x) == 0
	}
	return false
}

// read calls the real Jobs()/JobConfigs()/Cron() and judges the result.
func (cs *cfgCase) read(name string) (string, interface{}) {
	k := cfgKindByName(name)
	var got interface{}
	out := Guard(func() string {
		p, err := cs.sys.readKind(name)
		if err != nil {
			return "err"
		}
		got = p
		return "ok " + renderTyped(p)
	})
	cs.c.Emit("cfg.read "+name, out)
	if cs.sawBad {
		cs.readAfterBad = true
	}
	if !cs.started {
		cs.c.Count("read.not-started")
		if cs.judge && out != "err" {
			cs.c.Violate("C19", "last-known-good", "read before Start returned %s", out)
		}
		return out, got
	}
	want, decodable, known := cs.expectation(k, false)
	if known {
		cs.c.Count("read.judged-modulo-known-F-C19-2")
	}
	if !cs.judge {
		cs.c.Count("read.unjudged")
	} else if decodable {
		cs.c.Count("read.expect-fresh")
		if out != "ok "+want {
			mon := "field-priority"
			if cs.src["cm"].disturbed || cs.src["sec"].disturbed {
				mon = "source-atomic"
			} else if cs.lastFallback[name] {
				mon = "recovers"
			}
			cs.c.Violate("C19", mon, "read %s = %s, expected ok %s (defaults %s | cm %s | secret %s)", name, out, want,
				jsonText(cs.defaults[name]), jsonText(cs.src["cm"].lastGood[name]), jsonText(cs.src["sec"].lastGood[name]))
		}
		cs.lastFallback[name] = false
	} else {
		prev, had := cs.lastServed[name]
		if had {
			cs.c.Count("read.expect-lkg")
			if out != "ok "+prev {
				cs.c.Violate("C19", "last-known-good", "read %s = %s while the layered result is undecodable; expected the last served value ok %s", name, out, prev)
			}
		} else {
			cs.c.Count("read.expect-err")
			if out != "err" {
				cs.c.Violate("C19", "last-known-good", "read %s = %s while the layered result is undecodable and nothing was served before; expected err", name, out)
			}
		}
		cs.lastFallback[name] = true
	}
	if strings.HasPrefix(out, "ok ") {
		cs.lastServed[name] = strings.TrimPrefix(out, "ok ")
	}
	return out, got
}

// readAll: three single reads; when all succeeded, AllConfigs() must agree with them.
func (cs *cfgCase) readAll() {
	var outs []string
	for _, n := range threeNames() {
		o, _ := cs.read(n)
		if !strings.HasPrefix(o, "ok ") {
			return
		}
		outs = append(outs, strings.TrimPrefix(o, "ok "))
	}
	out := Guard(func() string {
		all, err := cs.sys.cc.AllConfigs()
		if err != nil {
			return "err"
		}
		var parts []string
		for _, n := range threeNames() {
			parts = append(parts, renderTyped(all[configv1alpha1.ConfigName(n)]))
		}
		return "ok " + strings.Join(parts, " | ")
	})
	cs.c.Count("read.all")
	cs.c.Emit("cfg.readall", out)
	if cs.judge && out != "ok "+strings.Join(outs, " | ") {
		cs.c.Violate("C19", "last-known-good", "AllConfigs() = %s differs from the three single reads %v", out, outs)
	}
}

// aliasFreshProbe (not part of the op stream; the case ends afterwards): mutate a returned
// struct; the next successful decode must be unaffected.
func (cs *cfgCase) aliasFreshProbe() {
	for _, k := range cfgKinds {
		_, decodable, _ := cs.expectation(k, false)
		if !decodable || !cs.started {
			continue
		}
		p1, err := cs.sys.readKind(k.name)
		if err != nil {
			continue
		}
		s1 := renderTyped(p1)
		mutateAll(p1)
		p2, err := cs.sys.readKind(k.name)
		cs.c.Count("alias.fresh-probe")
		if err != nil || renderTyped(p2) != s1 {
			got := "err"
			if err == nil {
				got = renderTyped(p2)
			}
			cs.c.Violate("C19", "alias.fresh", "after mutating the struct returned for %s the next read gives %s, before %s", k.name, got, s1)
		}
	}
}

// ---------------------------------------------------------------- generators

func (cs *cfgCase) genEntry(layer, name string, bad bool) ientry {
	rng := cs.rng
	e := ientry{name: name, kvs: M{}, classes: map[string]string{}}
	if bad {
		e.bad = "yaml"
		e.text = malformedTexts[rng.Intn(len(malformedTexts))]
		if layer == "sec" && rng.Intn(3) == 0 {
			e.bad = "b64"
			e.text = []string{"!!", "a", "abc", "Zm9v*", "Y3Jvbg=", "%%%"}[rng.Intn(6)]
		}
		return e
	}
	k := cfgKindByName(name)
	if k == nil {
		for i, n := 0, rng.Intn(3); i < n; i++ {
			e.kvs[fmt.Sprintf("k%d", rng.Intn(3))] = []interface{}{1.0, "x", nil, false, M{"n": 1.0}}[rng.Intn(5)]
		}
	} else {
		n := rng.Intn(len(k.fields) + 2)
		if rng.Intn(3) == 0 {
			n = 1
		}
		for i := 0; i < n; i++ {
			if rng.Intn(8) == 0 {
				key := []string{"unknownKey", "x-extra", "kind", "apiVersion"}[rng.Intn(4)]
				e.kvs[key] = []interface{}{1.0, "K", nil, true}[rng.Intn(4)]
				e.classes[key] = "unknown"
				continue
			}
			f := k.fields[rng.Intn(len(k.fields))]
			class := "nonzero"
			switch r := rng.Intn(100); {
			case r < 38:
			case r < 64:
				class = "zero"
			case r < 76:
				class = "null"
			case r < 88:
				class = "wrongScalar"
			case r < 94:
				class = "wrongList"
			default:
				class = "wrongObj"
				// an object value for one key in at most one layer per case (the model does not
				// cover mergo's in-place deep merge of two non-empty objects)
				id := name + "/" + f.key
				if o := cs.objOwner[id]; o != "" && o != layer {
					class = "wrongScalar"
				} else {
					cs.objOwner[id] = layer
				}
			}
			e.kvs[f.key] = valueOfClass(class, f.kind, rng)
			e.classes[f.key] = class
		}
	}
	e.text = renderEntryText(e.kvs, rng)
	return e
}

func (cs *cfgCase) genObject(layer string, bad bool) *iobj {
	rng := cs.rng
	o := &iobj{target: "match"}
	pool := []string{"jobs", "jobConfigs", "cron", "cron", "jobs", "other", "zz-extra"}
	n := rng.Intn(4)
	used := map[string]bool{}
	for i := 0; i < n; i++ {
		nm := pool[rng.Intn(len(pool))]
		if used[nm] {
			continue
		}
		used[nm] = true
		o.entries = append(o.entries, cs.genEntry(layer, nm, false))
	}
	if bad {
		if len(o.entries) == 0 || rng.Intn(2) == 0 {
			nm := pool[rng.Intn(len(pool))]
			if !used[nm] {
				o.entries = append(o.entries, cs.genEntry(layer, nm, false))
			}
		}
		i := rng.Intn(len(o.entries))
		o.entries[i] = cs.genEntry(layer, o.entries[i].name, true)
		if rng.Intn(4) == 0 {
			j := rng.Intn(len(o.entries))
			o.entries[j] = cs.genEntry(layer, o.entries[j].name, true)
		}
	}
	return o
}

func (cs *cfgCase) genCustomDefaults() (map[string]M, map[string]map[string]string) {
	rng := cs.rng
	content := map[string]M{}
	classes := map[string]map[string]string{}
	for _, k := range cfgKinds {
		if rng.Intn(5) == 0 {
			continue // no default object for this kind
		}
		m, cl := M{}, map[string]string{}
		unstructuredOK := rng.Intn(3) == 0
		for _, f := range k.fields {
			switch r := rng.Intn(10); {
			case r < 2:
			case r < 5:
				m[f.key], cl[f.key] = zeroOf(f.kind), "zero"
			case r < 9 || !unstructuredOK:
				m[f.key], cl[f.key] = nonzeroOf(f.kind, rng), "nonzero"
			default:
				class := []string{"null", "wrongScalar", "wrongList"}[rng.Intn(3)]
				m[f.key], cl[f.key] = valueOfClass(class, f.kind, rng), class
			}
		}
		content[k.name], classes[k.name] = m, cl
	}
	return content, classes
}

func runConfig(c *Ctx) {
	runConfigCorpus(c)
	maxSteps := 30
	if c.Tier == "thorough" {
		maxSteps = 120
	}
	c.ForCases(func(i int, rng *rand.Rand) {
		cs := newCfgCase(c, rng, rng.Intn(4) == 0)
		switch r := rng.Intn(10); {
		case r < 6:
			cs.setDefaultsBuiltin()
		default:
			cs.setDefaultsCustom(cs.genCustomDefaults())
		}
		if rng.Intn(6) == 0 {
			cs.read(threeNames()[rng.Intn(3)])
		}
		cs.start()
		steps := 1 + rng.Intn(maxSteps)
		for s := 0; s < steps; s++ {
			switch r := rng.Intn(100); {
			case r < 55:
				src := []string{"cm", "sec"}[rng.Intn(2)]
				kind := "update"
				switch k := rng.Intn(10); {
				case k < 3:
					kind = "add"
				case k < 4:
					kind = "delete"
				}
				o := cs.genObject(src, rng.Intn(100) < 30)
				switch t := rng.Intn(20); {
				case t == 0:
					o.target = "othername"
				case t == 1:
					o.target = "otherns"
				case t == 2:
					o.target = "wrongtype"
				case t == 3:
					o.target = "tombstone"
				}
				cs.deliver(src, kind, o)
			case r < 60:
				// repair: resend the last malformed object with its bad entries fixed
				src := []string{"cm", "sec"}[rng.Intn(2)]
				if bo := cs.lastBadObj[src]; bo != nil {
					fixed := &iobj{target: "match"}
					for _, e := range bo.entries {
						if e.bad != "" {
							e = cs.genEntry(src, e.name, false)
						}
						fixed.entries = append(fixed.entries, e)
					}
					cs.c.Count("ev.repair")
					cs.deliver(src, "update", fixed)
				}
			case r < 95:
				cs.read(threeNames()[rng.Intn(3)])
			default:
				cs.readAll()
			}
		}
		if cs.sawGood && cs.sawBad && cs.readAfterBad {
			c.Nontrivial()
		}
		cs.aliasFreshProbe()
	})
}
