package eng

// Hand-written corpus scenarios of engine "taskfn" (run first) and the exhaustive outcome table
// (all outcome assignments for <= 3 indexes x <= 3 attempts x both strategies x kill/no-kill;
// a finite table used as a test, not as the proof).

import (
	"fmt"
	"math/rand"
	"time"

	corev1 "k8s.io/api/core/v1"
	metav1 "k8s.io/apimachinery/pkg/apis/meta/v1"

	execution "github.com/furiko-io/furiko/apis/execution/v1alpha1"
	jobtasks "github.com/furiko-io/furiko/pkg/execution/tasks"
	jobutil "github.com/furiko-io/furiko/pkg/execution/util/job"
	"github.com/furiko-io/furiko/pkg/execution/util/parallel"
)

func tfScenario(c *Ctx, name string, fn func(g *tfGen)) {
	c.RunScenario(name, func() {
		g := newTfGen(c, rand.New(rand.NewSource(1)))
		g.setNow(time.Unix(tfBase, 0))
		c.Nontrivial()
		fn(g)
	})
}

func tfAt(g *tfGen, offSec int) *metav1.Time {
	t := metav1.NewTime(g.now.Add(time.Duration(offSec) * time.Second))
	return &t
}

func tfStartedJob(g *tfGen, spec *execution.ParallelismSpec, maxAttempts int64) *execution.Job {
	rj := &execution.Job{ObjectMeta: metav1.ObjectMeta{Name: "j", Namespace: "ns"}}
	rj.Spec.Template = &execution.JobTemplate{Parallelism: spec, MaxAttempts: i64(maxAttempts)}
	rj.Status.StartTime = tfAt(g, -3600)
	return rj
}

func tfCorpus(c *Ctx) {
	// F13 (KNOWN_FINDINGS.jsonl, fixed by commit 4c102ea; regression replay): a started Job with one
	// running task gets a deletion timestamp.  The condition is overridden to Finished(Killed), the
	// phase is Killed and the state must be Finished (before the fix it stayed "Running"/"Waiting").
	tfScenario(c, "f13-deleting-state", func(g *tfGen) {
		rj := tfStartedJob(g, nil, 1)
		ix := tfDefaultIndex
		rj.Status.Tasks = []execution.TaskRef{{
			Name: "j-gezdqo-0", CreationTimestamp: *tfAt(g, -60), RunningTimestamp: tfAt(g, -50), ParallelIndex: &ix,
			Status: execution.TaskStatus{State: execution.TaskRunning},
		}}
		rj.Status.CreatedTasks = 1
		rj.DeletionTimestamp = tfAt(g, -1)
		g.opUpdate(rj)
		// same Job, no task yet (computed condition Waiting)
		rj2 := tfStartedJob(g, nil, 1)
		rj2.DeletionTimestamp = tfAt(g, -1)
		g.opUpdate(rj2)
		// not started (computed condition Queueing)
		rj3 := tfStartedJob(g, nil, 1)
		rj3.Status.StartTime = nil
		rj3.DeletionTimestamp = tfAt(g, -1)
		g.opUpdate(rj3)
		// not deleted
		rj.DeletionTimestamp = nil
		g.opUpdate(rj)
	})

	// Appendix A item 5: no finished ref, positive delay => Earliest = Go zero time + delay.
	tfScenario(c, "zero-time-earliest", func(g *tfGen) {
		rj := tfStartedJob(g, &execution.ParallelismSpec{WithCount: i64(2)}, 3)
		rj.Spec.Template.RetryDelaySeconds = i64(60)
		g.opMissing(rj, specIndexes(rj))
		ix := execution.ParallelIndex{IndexNumber: i64(1)}
		rj.Status.Tasks = []execution.TaskRef{g.mkRef("j-x-0", &ix, 0, g.now.Add(-100*time.Second), roFailed)}
		g.opMissing(rj, specIndexes(rj))
	})

	// Appendix A item 8: a Killed tombstone is overwritten by the pod's real terminal status; and
	// retained timestamps survive a task that stops reporting them.
	tfScenario(c, "deleted-status-overwrite", func(g *tfGen) {
		ix := tfDefaultIndex
		ex := execution.TaskRef{Name: "t", CreationTimestamp: *tfAt(g, -100), RunningTimestamp: tfAt(g, -90), ParallelIndex: &ix,
			Status:        execution.TaskStatus{State: execution.TaskKilling},
			DeletedStatus: &execution.TaskStatus{State: execution.TaskTerminated, Result: execution.TaskKilled, Reason: "Killed"}}
		obs := execution.TaskRef{Name: "t", CreationTimestamp: *tfAt(g, -100), ParallelIndex: &ix, FinishTimestamp: tfAt(g, -5),
			Status: execution.TaskStatus{State: execution.TaskTerminated, Result: execution.TaskSucceeded}}
		g.opGetTaskRef(&ex, &StubTask{Name: "t", Ref: obs})
		obs2 := execution.TaskRef{Name: "t", CreationTimestamp: *tfAt(g, -100), ParallelIndex: &ix, Status: execution.TaskStatus{State: execution.TaskStarting}}
		g.opGetTaskRef(&ex, &StubTask{Name: "t", Ref: obs2})
		g.opGenRefs([]execution.TaskRef{ex}, nil)
		ex.DeletedStatus = nil
		g.opGenRefs([]execution.TaskRef{ex}, nil)
	})

	// Observation (outside the envelope: a ref whose index is not in the spec): an unfinished ref
	// with a foreign hash marks position 0 as found, so index 0 is not requested.
	tfScenario(c, "foreign-hash-hides-index0", func(g *tfGen) {
		rj := tfStartedJob(g, &execution.ParallelismSpec{WithCount: i64(2)}, 3)
		fx := execution.ParallelIndex{IndexKey: "foreign"}
		rj.Status.Tasks = []execution.TaskRef{g.mkRef("j-f-0", &fx, 0, g.now.Add(-100*time.Second), roRunning)}
		g.opMissing(rj, specIndexes(rj))
		// empty index list with a live ref: index out of range
		g.opMissing(rj, nil)
		rj.Status.Tasks = nil
		g.opMissing(rj, nil)
	})

	// nil template: UpdateJobStatusFromTaskRefs and GetPendingTimeout dereference it.
	tfScenario(c, "nil-template", func(g *tfGen) {
		rj := &execution.Job{}
		rj.Status.StartTime = tfAt(g, -10)
		g.opUpdate(rj)
		g.opCond(rj)
		g.opPStatus(rj)
		g.opTimeouts(rj)
		g.opMissing(rj, specIndexes(rj))
	})

	// a kill timestamp in the future: all tasks succeed first => result Killed, not Success.
	tfScenario(c, "future-kill-finished", func(g *tfGen) {
		rj := tfStartedJob(g, &execution.ParallelismSpec{WithCount: i64(2)}, 1)
		rj.Spec.KillTimestamp = tfAt(g, 500)
		for k := int64(0); k < 2; k++ {
			ix := execution.ParallelIndex{IndexNumber: i64(k)}
			rj.Status.Tasks = append(rj.Status.Tasks, g.mkRef(fmt.Sprintf("j-%d-0", k), &ix, 0, g.now.Add(-100*time.Second), roSucceeded))
		}
		g.opUpdate(rj)
		rj.Spec.KillTimestamp = tfAt(g, 0) // equal to now
		g.opUpdate(rj)
		rj.Spec.KillTimestamp = &metav1.Time{Time: g.now.Add(time.Nanosecond)}
		g.opUpdate(rj)
	})

	// PodTask: DeadlineExceeded without start time panics; OOMKilled in LastTerminationState.
	tfScenario(c, "pod-shapes", func(g *tfGen) {
		p := &corev1.Pod{ObjectMeta: metav1.ObjectMeta{Name: "p", CreationTimestamp: *tfAt(g, -100)}}
		p.Status.Phase = corev1.PodFailed
		p.Status.Reason = "DeadlineExceeded"
		p.Spec.ActiveDeadlineSeconds = i64(30)
		g.opPod(p)
		p.Status.StartTime = tfAt(g, -90)
		g.opPod(p)
		p.Status.Reason = ""
		p.Status.Phase = corev1.PodSucceeded
		p.Status.ContainerStatuses = []corev1.ContainerStatus{{
			State:                corev1.ContainerState{Running: &corev1.ContainerStateRunning{StartedAt: *tfAt(g, -80)}},
			LastTerminationState: corev1.ContainerState{Terminated: &corev1.ContainerStateTerminated{Reason: "OOMKilled", FinishedAt: *tfAt(g, -85)}},
		}}
		g.opPod(p)
		p.Status.ContainerStatuses[0].LastTerminationState.Terminated.FinishedAt = metav1.NewTime(time.Unix(0, 0))
		g.opPod(p)
	})
}

// ---------------------------------------------------------------- exhaustive outcome table

// per-index history: number of attempts k (0..m); attempts 0..k-2 failed; the last one has one
// of these outcomes.
var exhLast = []refOutcome{roStarting, roRunning, roSucceeded, roFailed, roLost}

type exhHist struct {
	k    int
	last refOutcome
}

func exhHistories(m int) []exhHist {
	out := []exhHist{{0, roFailed}}
	for k := 1; k <= m; k++ {
		for _, l := range exhLast {
			out = append(out, exhHist{k, l})
		}
	}
	return out
}

// exhChunk: Jobs per corpus scenario of the exhaustive table (keeps replays small).
const exhChunk = 64

func tfExhaustive(c *Ctx) {
	for n := 1; n <= 3; n++ {
		for m := 1; m <= 3; m++ {
			for _, strat := range []execution.ParallelCompletionStrategy{execution.AllSuccessful, execution.AnySuccessful} {
				for _, kill := range []bool{false, true} {
					hs := exhHistories(m)
					total := 1
					for i := 0; i < n; i++ {
						total *= len(hs)
					}
					for from := 0; from < total; from += exhChunk {
						name := fmt.Sprintf("exhaustive-n%d-m%d-%s-kill%v-%d", n, m, strat, kill, from/exhChunk)
						n, m, strat, kill, from := n, m, strat, kill, from
						to := from + exhChunk
						if to > total {
							to = total
						}
						tfScenario(c, name, func(g *tfGen) { exhRun(g, n, m, strat, kill, from, to) })
					}
				}
			}
		}
	}
}

// exhRun runs the assignments number from..to-1 (mixed radix over the per-index histories).
func exhRun(g *tfGen, n, m int, strat execution.ParallelCompletionStrategy, kill bool, from, to int) {
	c := g.c
	hs := exhHistories(m)
	choice := make([]int, n)
	spec := &execution.ParallelismSpec{WithCount: i64(int64(n)), CompletionStrategy: strat}
	idxs := parallel.GenerateIndexes(spec)
	for num := from; num < to; num++ {
		x := num
		for i := 0; i < n; i++ {
			choice[i] = x % len(hs)
			x /= len(hs)
		}
		rj := tfStartedJob(g, spec, int64(m))
		if kill {
			rj.Spec.KillTimestamp = tfAt(g, -10)
		}
		base := g.now.Add(-1000 * time.Second)
		for i := 0; i < n; i++ {
			h := hs[choice[i]]
			ix := idxs[i]
			for r := 0; r < h.k; r++ {
				oc := roFailed
				if r == h.k-1 {
					oc = h.last
				}
				ref := exhRef(fmt.Sprintf("j-%s-%d", HashOf(ix), r), ix, int64(r), base.Add(time.Duration(100*r+i)*time.Second), oc)
				rj.Status.Tasks = append(rj.Status.Tasks, ref)
			}
		}
		jobutil.SortTaskRefs(rj.Status.Tasks)
		rj.Status.CreatedTasks = int64(len(rj.Status.Tasks))
		nj := g.opUpdate(rj)
		g.opMissing(rj, idxs)
		c.Count("exhaustive")
		if nj != nil {
			exhOracle(g, rj, nj, hs, choice, m, strat, kill)
		}
	}
}

func exhRef(name string, ix execution.ParallelIndex, retry int64, created time.Time, oc refOutcome) execution.TaskRef {
	r := execution.TaskRef{Name: name, CreationTimestamp: metav1.NewTime(created), RetryIndex: retry, ParallelIndex: &ix}
	run := metav1.NewTime(created.Add(2 * time.Second))
	fin := metav1.NewTime(created.Add(50 * time.Second))
	switch oc {
	case roStarting:
		r.Status.State = execution.TaskStarting
	case roRunning:
		r.Status.State = execution.TaskRunning
		r.RunningTimestamp = &run
	case roSucceeded:
		r.Status = execution.TaskStatus{State: execution.TaskTerminated, Result: execution.TaskSucceeded}
		r.RunningTimestamp, r.FinishTimestamp = &run, &fin
	case roFailed:
		r.Status = execution.TaskStatus{State: execution.TaskTerminated, Result: execution.TaskFailed}
		r.RunningTimestamp, r.FinishTimestamp = &run, &fin
	case roLost:
		r.Status.State = execution.TaskDeletedFinalStateUnknown
		r.FinishTimestamp = &fin
	}
	return r
}

// exhOracle: the expected outcome of a well-formed history table, derived from the property
// text (C08/C10/C12), not from the code.
func exhOracle(g *tfGen, rj, nj *execution.Job, hs []exhHist, choice []int, m int, strat execution.ParallelCompletionStrategy, kill bool) {
	_ = g.c
	n := len(choice)
	nSucc, nExh, nLive, nNotCreated, nBackoff, nStarting := 0, 0, 0, 0, 0, 0
	for _, ci := range choice {
		h := hs[ci]
		live := h.k > 0 && (h.last == roStarting || h.last == roRunning)
		succ := h.k > 0 && h.last == roSucceeded
		finished := h.k
		if live {
			finished--
		}
		exh := !succ && finished >= m
		switch {
		case succ:
			nSucc++
		case exh:
			nExh++
		}
		if live {
			nLive++
			if h.last == roStarting {
				nStarting++
			}
		}
		if h.k == 0 {
			nNotCreated++
		}
		if h.k > 0 && !live && !succ && !exh {
			nBackoff++
		}
	}
	var succ, fail bool
	if strat == execution.AllSuccessful {
		succ, fail = nSucc == n, nExh > 0
	} else {
		succ, fail = nSucc > 0, nExh == n
	}
	wantState := execution.JobStateRunning
	var wantResult execution.JobResult
	switch {
	case kill && nLive == 0:
		wantState, wantResult = execution.JobStateFinished, execution.JobResultKilled
	case kill:
		wantState = execution.JobStateWaiting
	case !(succ || fail):
		if nNotCreated > 0 || nBackoff > 0 || nStarting > 0 {
			wantState = execution.JobStateWaiting
		}
	case nLive > 0:
		wantState = execution.JobStateRunning
	case succ:
		wantState, wantResult = execution.JobStateFinished, execution.JobResultSuccess
	default:
		wantState, wantResult = execution.JobStateFinished, execution.JobResultFailed
	}
	if nj.Status.State != wantState {
		g.violate("C10", "exh.state", "outcome table %v (m=%d %s kill=%v): state %q, expected %q", choice, m, strat, kill, nj.Status.State, wantState)
	}
	var got execution.JobResult
	if f := nj.Status.Condition.Finished; f != nil {
		got = f.Result
	}
	if got != wantResult {
		g.violate("C10", "exh.result", "outcome table %v (m=%d %s kill=%v): result %q, expected %q", choice, m, strat, kill, got, wantResult)
	}
	// C08 on the same table: which (index, retry) may be created
	reqs, err := parallel.ComputeMissingIndexesForCreation(rj, specIndexes(rj))
	if err == nil {
		want := map[int64]int64{}
		for i, ci := range choice {
			h := hs[ci]
			live := h.k > 0 && (h.last == roStarting || h.last == roRunning)
			succ := h.k > 0 && h.last == roSucceeded
			if !live && !succ && h.k < m {
				want[int64(i)] = int64(h.k)
			}
		}
		gotm := map[int64]int64{}
		for _, r := range reqs {
			gotm[*r.ParallelIndex.IndexNumber] = r.RetryIndex
		}
		if fmt.Sprint(want) != fmt.Sprint(gotm) {
			g.violate("C08", "exh.missing", "outcome table %v (m=%d): creatable (index:retry) %v, expected %v", choice, m, gotm, want)
		}
	}
}

var _ jobtasks.Task = (*StubTask)(nil)
