package eng

import (
	"context"
	"encoding/json"
	"fmt"
	"math/rand"
	"reflect"
	"regexp"
	"sort"
	"strconv"
	"strings"
	"time"

	"github.com/furiko-io/cronexpr"
	admissionv1 "k8s.io/api/admission/v1"
	corev1 "k8s.io/api/core/v1"
	metav1 "k8s.io/apimachinery/pkg/apis/meta/v1"
	"k8s.io/apimachinery/pkg/runtime"
	"k8s.io/apimachinery/pkg/types"
	"k8s.io/apimachinery/pkg/util/validation/field"
	fakeclock "k8s.io/utils/clock/testing"

	configv1alpha1 "github.com/furiko-io/furiko/apis/config/v1alpha1"
	execution "github.com/furiko-io/furiko/apis/execution/v1alpha1"
	"github.com/furiko-io/furiko/pkg/core/tzutils"
	"github.com/furiko-io/furiko/pkg/execution/mutation"
	"github.com/furiko-io/furiko/pkg/execution/taskexecutor/podtaskexecutor"
	"github.com/furiko-io/furiko/pkg/execution/tasks"
	"github.com/furiko-io/furiko/pkg/execution/util/cron"
	"github.com/furiko-io/furiko/pkg/execution/util/cronschedule"
	"github.com/furiko-io/furiko/pkg/execution/util/jobconfig"
	"github.com/furiko-io/furiko/pkg/execution/util/parallel"
	"github.com/furiko-io/furiko/pkg/execution/validation"
	"github.com/furiko-io/furiko/pkg/execution/webhooks/jobconfigvalidatingwebhook"
	"github.com/furiko-io/furiko/pkg/execution/webhooks/jobvalidatingwebhook"
	"github.com/furiko-io/furiko/pkg/runtime/controllercontext"

	"verifharness/sim"
)

// Engine "validate" (property C17): the two real validating webhooks (`Handle` on AdmissionRequests,
// i.e. validation.NewValidator(...).Validate*), the real cronschedule.New / Bump, the real
// jobconfig.NewJobFromJobConfig, the real Job mutator and the real podtaskexecutor.NewPod against
// Model/Validation.lean.
//
// Oracles transmitted to the model (external libraries / opaque predicates): the result of
// cronexpr.ParseForFormat for every (format, hash options, hash id) combination of every cron line
// (computed with cronexpr directly, not through the in-repo Parser), tzutils.ParseTimezone per
// timezone string, parallel.HashIndex per generated index, Kubernetes' verdict on the pod template.
//
// Monitors (ground truth owned by the harness, independent of the Lean model):
//   accepted-loadable       every ACCEPTED JobConfig goes to the real cronschedule.New (alone and
//                           together with the other accepted ones of the case) and Bump: error = violation
//   accepted-instantiable   accepted JobConfig -> NewJobFromJobConfig (Scheduled, Adhoc) -> mutator
//                           (with values for its required options) -> ValidateJob + ValidateJobCreate ->
//                           NewPod for every parallel index: any error = violation
//   immutable-fields        accepted update -> the harness compares old/new itself
//   parse-hash-independent  the sampled cronexpr contract "parse success does not depend on the hash id"
//
// Envelopes (evaluated at run time on ground truth; out-of-envelope cases are counted, not raised;
// their witnesses are the corpus scenarios f-c17-*):
//   E-HashStable   ONLY for JobConfigs admitted with an empty name (generateName: the final name, hence
//                  the scheduler's hash id, is not known at admission): for every cron line the library
//                  gives the same verdict for the hash id "" and for the object's key.  Named JobConfigs are
//                  judged at full strength since fix d9dad79 (F-C17-1: the validator now re-parses with the
//                  namespaced name; the library's verdict depends on the id for H/n in a field whose
//                  minimum is 1 and for H(a-b)/n)
//   E-DefaultTz    the effective default timezone of the dynamic configuration parses (F-C17-2)
//   E-HashRange    no cron line contains a hash range H(a-b) with a > b, where day-of-week 7 counts as 0
//                  (finding F-C17-3: the library accepts it and materialises a value outside the field's
//                  range; a month <= 0 makes Expression.Next spin forever, a negative day-of-week makes it
//                  panic with an index out of range: the real cronschedule.New is NOT called on such a
//                  JobConfig by the generated cases; the scenario f-c17-3-* runs it, the hang in a child process)
//   E-API          a spec update carries the stored status (status subresource semantics)

func init() { Register("validate", runValidate) }

// ---------------------------------------------------------------- context with raw configs

// rawConfigs hands out exactly the configuration objects the case generated (no merging over
// defaults), so that nil pointers reach NewParserFromConfig / getTimezone.
type rawConfigs struct {
	controllercontext.Configs
	cron *configv1alpha1.CronExecutionConfig
	jobs *configv1alpha1.JobExecutionConfig
	jcs  *configv1alpha1.JobConfigExecutionConfig
}

func (r *rawConfigs) Cron() (*configv1alpha1.CronExecutionConfig, error) { return r.cron, nil }
func (r *rawConfigs) Jobs() (*configv1alpha1.JobExecutionConfig, error)  { return r.jobs, nil }
func (r *rawConfigs) JobConfigs() (*configv1alpha1.JobConfigExecutionConfig, error) {
	return r.jcs, nil
}

type valContext struct {
	*sim.Context
	cfgs *rawConfigs
}

func (v *valContext) Configs() controllercontext.Configs { return v.cfgs }

// ---------------------------------------------------------------- world

type valWorld struct {
	c    *Ctx
	rng  *rand.Rand
	ctx  *valContext
	cron *configv1alpha1.CronExecutionConfig
	now  time.Time
	clk  *fakeclock.FakeClock
	// liveSched is a Schedule that was created while a DIFFERENT cron configuration was in force
	// (the controller keeps one Schedule for its lifetime while the dynamic configuration changes):
	// what the webhook accepts under the current configuration must be loadable into it too.
	liveSched *cronschedule.Schedule
	jcHook    *jobconfigvalidatingwebhook.Webhook
	jHook     *jobvalidatingwebhook.Webhook
	nextID    int
	podIDs    map[string]int
	sentTZ    map[string]bool
	sentP     map[string]bool
	sentH     map[string]bool

	defaultTzOK bool // ground truth by construction (E-DefaultTz)
	accepted    []*acceptedJC
}

type acceptedJC struct {
	id      string
	jc      *execution.JobConfig
	inEnv   bool
	enabled bool
	wraps   bool // some cron line has a hash range H(a-b) with a > b (E-HashRange)
}

var hashRangeRe = regexp.MustCompile(`(?i)h\(([^-()\s]+)-([^-()\s]+)\)`)

// hashRangeWraps: some field of the line contains H(a-b) with a > b, or with bounds that are not plain
// numbers (names: conservatively yes). In the day-of-week field the library reads 7 as 0 (Sunday) before
// comparing, so `H(6-7)` is the wrap-around range 6..0 there.
func hashRangeWraps(line string) bool {
	fields := strings.Fields(line)
	dow := 4
	if len(fields) >= 7 {
		dow = 5
	}
	for i, f := range fields {
		for _, m := range hashRangeRe.FindAllStringSubmatch(f, -1) {
			a, err1 := strconv.Atoi(m[1])
			b, err2 := strconv.Atoi(m[2])
			if err1 != nil || err2 != nil {
				return true
			}
			if i == dow {
				a, b = a%7, b%7
			}
			if a > b {
				return true
			}
		}
	}
	return false
}

// withWatchdog runs fn (real code that is specified to terminate) and gives up after d.
func withWatchdog(d time.Duration, fn func() string) (out string, timedOut bool) {
	done := make(chan string, 1)
	go func() { done <- Guard(fn) }()
	select {
	case out = <-done:
		return out, false
	case <-time.After(d):
		return "", true
	}
}

const loadWatchdog = 60 * time.Second

type tzOpt struct {
	s  string
	ok bool // expected by construction
}

var valDefaultTZs = []tzOpt{
	{"UTC", true}, {"Asia/Singapore", true}, {"America/New_York", true}, {"UTC+8", true}, {"GMT-03:30", true},
	{"", true}, {"Local", true},
	{"Mars/Olympus", false}, {"UTC+", false}, {"utc", false},
}

func newValWorld(c *Ctx, rng *rand.Rand, cronCfg *configv1alpha1.CronExecutionConfig, jobsCfg *configv1alpha1.JobExecutionConfig,
	jcCfg *configv1alpha1.JobConfigExecutionConfig, defaultTzOK bool, now time.Time) *valWorld {
	base := sim.NewContext()
	w := &valWorld{c: c, rng: rng, cron: cronCfg, now: now, defaultTzOK: defaultTzOK,
		podIDs: map[string]int{}, sentTZ: map[string]bool{}, sentP: map[string]bool{}, sentH: map[string]bool{}}
	w.ctx = &valContext{Context: base, cfgs: &rawConfigs{Configs: base.Configs(), cron: cronCfg, jobs: jobsCfg, jcs: jcCfg}}
	w.clk = fakeclock.NewFakeClock(now)
	validation.Clock = w.clk
	mutation.Clock = w.clk
	{
		// the opposite parser settings were in force when the long-lived Schedule was created
		nb := func(b *bool) *bool { v := b == nil || !*b; return &v }
		old := *cronCfg
		old.CronHashNames, old.CronHashSecondsByDefault, old.CronHashFields = nb(cronCfg.CronHashNames), nb(cronCfg.CronHashSecondsByDefault), nb(cronCfg.CronHashFields)
		if strings.EqualFold(string(cronCfg.CronFormat), "quartz") {
			old.CronFormat = "standard"
		} else {
			old.CronFormat = "quartz"
		}
		utc := "UTC"
		old.DefaultTimezone = &utc
		w.ctx.cfgs.cron = &old
		w.liveSched, _ = w.newSchedule(nil)
		w.ctx.cfgs.cron = cronCfg
	}
	w.jcHook, _ = jobconfigvalidatingwebhook.NewWebhook(w.ctx)
	w.jHook, _ = jobvalidatingwebhook.NewWebhook(w.ctx)

	c.Emit("val.reset", "ok")
	ob := func(b *bool) string {
		if b == nil {
			return "-"
		}
		return B(*b)
	}
	os := func(s *string) string {
		if s == nil {
			return "-"
		}
		return Q(*s)
	}
	op := fmt.Sprintf("val.cfg %s %s %s %s %s %d %s %s %s", Q(cronCfg.CronFormat), ob(cronCfg.CronHashNames),
		ob(cronCfg.CronHashSecondsByDefault), ob(cronCfg.CronHashFields), os(cronCfg.DefaultTimezone), now.UnixNano(),
		OptI(jcCfg.MaxEnqueuedJobs), OptI(jobsCfg.DefaultPendingTimeoutSeconds), OptI(jobsCfg.DefaultTTLSecondsAfterFinished))
	c.Emit(op, Guard(func() string {
		p := cron.NewParserFromConfig(cronCfg)
		s, f := false, false
		for _, o := range p.ParseOptions {
			switch fmt.Sprintf("%T", o) {
			case "*cronexpr.hashSecondsParseOption":
				s = true
			case "*cronexpr.hashFieldsParseOption":
				f = true
			default:
				return "unknown-parse-option"
			}
		}
		return "q" + B(p.Format == cronexpr.CronFormatQuartz) + "n" + B(p.HashNames) + "s" + B(s) + "f" + B(f)
	}))
	// the timezone strings the scheduler may fall back to
	w.sendTZ("UTC")
	if cronCfg.DefaultTimezone != nil {
		w.sendTZ(*cronCfg.DefaultTimezone)
	}
	return w
}

// ---------------------------------------------------------------- oracles

func (w *valWorld) sendTZ(tz string) {
	if w.sentTZ[tz] {
		return
	}
	w.sentTZ[tz] = true
	ok := Guard(func() string {
		_, err := tzutils.ParseTimezone(tz)
		return B(err == nil)
	})
	w.c.Emit(fmt.Sprintf("val.orc.tz %s %s", Q(tz), ok), "ok")
}

func rawParse(format cronexpr.CronFormat, line string, opts ...cronexpr.ParseOption) (out byte) {
	defer func() {
		if r := recover(); r != nil {
			out = 'p'
		}
	}()
	if _, err := cronexpr.ParseForFormat(format, line, opts...); err != nil {
		return 'e'
	}
	return 'o'
}

// parseTrits: cronexpr's verdicts for one line: without WithHash (2: standard, quartz) or with the
// given hash id (8: index q*4 + hashEmptySeconds*2 + hashFields).
func parseTrits(line string, hashID *string) string {
	formats := []cronexpr.CronFormat{cronexpr.CronFormatStandard, cronexpr.CronFormatQuartz}
	var b []byte
	for _, f := range formats {
		if hashID == nil {
			b = append(b, rawParse(f, line))
			continue
		}
		for s := 0; s < 2; s++ {
			for hf := 0; hf < 2; hf++ {
				opts := []cronexpr.ParseOption{cronexpr.WithHash(*hashID)}
				if s == 1 {
					opts = append(opts, cronexpr.WithHashEmptySeconds())
				}
				if hf == 1 {
					opts = append(opts, cronexpr.WithHashFields())
				}
				b = append(b, rawParse(f, line, opts...))
			}
		}
	}
	return string(b)
}

func (w *valWorld) sendParse(line string, hashID *string) {
	key := "~\n" + line
	tok := "~"
	if hashID != nil {
		key = *hashID + "\n" + line
		tok = Q(*hashID)
	}
	if w.sentP[key] {
		return
	}
	w.sentP[key] = true
	w.c.Emit(fmt.Sprintf("val.orc.parse %s %s %s", tok, Q(line), parseTrits(line, hashID)), "ok")
}

// effectiveTrit: the harness' own reading of the documented configuration semantics (format "quartz"
// selects Quartz, anything else standard; hashing on unless CronHashNames=false; seconds hashing off
// unless set; field hashing on unless unset) applied to the library directly.
func (w *valWorld) effectiveTrit(line, hashID string) byte {
	format := cronexpr.CronFormatStandard
	if w.cron.CronFormat == "quartz" {
		format = cronexpr.CronFormatQuartz
	}
	var opts []cronexpr.ParseOption
	if deref(w.cron.CronHashNames, true) {
		opts = append(opts, cronexpr.WithHash(hashID))
		if deref(w.cron.CronHashSecondsByDefault, false) {
			opts = append(opts, cronexpr.WithHashEmptySeconds())
		}
		if deref(w.cron.CronHashFields, true) {
			opts = append(opts, cronexpr.WithHashFields())
		}
	}
	return rawParse(format, line, opts...)
}

var hashDependentClass = regexp.MustCompile(`(?i)h/\d|h\(\d+-\d+\)/\d`)

func jcKey(jc *execution.JobConfig) string {
	if jc.Namespace != "" {
		return jc.Namespace + "/" + jc.Name
	}
	return jc.Name
}

func cronLines(jc *execution.JobConfig) []string {
	var out []string
	if s := jc.Spec.Schedule; s != nil && s.Cron != nil {
		if s.Cron.Expression != "" {
			out = append(out, s.Cron.Expression)
		}
		out = append(out, s.Cron.Expressions...)
	}
	return out
}

// sendJCOracles transmits every oracle the model may consult for this JobConfig and samples the
// library contract (monitor parse-hash-independent). Returns whether the JobConfig is hash-stable.
func (w *valWorld) sendJCOracles(jc *execution.JobConfig) (hashStable bool) {
	hashStable = true
	key := jcKey(jc)
	empty := ""
	for _, line := range cronLines(jc) {
		w.sendParse(line, nil)
		w.sendParse(line, &empty)
		w.sendParse(line, &key)
		a, b := w.effectiveTrit(line, ""), w.effectiveTrit(line, key)
		w.c.Count("contract.parse-hash-independent.samples")
		if a != b {
			hashStable = false
			if hashDependentClass.MatchString(line) {
				w.c.Count("contract.parse-hash-independent.known-class-F-C17-1")
			} else {
				w.c.Violate("C17", "parse-hash-independent", "cron line %q: verdict %c with hash id \"\" but %c with %q, and the line is not of the known class H/n or H(a-b)/n",
					line, a, b, key)
			}
		}
	}
	if s := jc.Spec.Schedule; s != nil && s.Cron != nil {
		w.sendTZ(s.Cron.Timezone)
	}
	w.sendTemplateOracles(&jc.Spec.Template.Spec)
	return hashStable
}

func (w *valWorld) sendTemplateOracles(t *execution.JobTemplate) {
	if t == nil || t.Parallelism == nil {
		return
	}
	sp := t.Parallelism
	tok := parTok(sp)
	if w.sentH[tok] {
		return
	}
	w.sentH[tok] = true
	hs := "-"
	func() {
		defer func() { _ = recover() }()
		if sp.WithCount != nil && *sp.WithCount > 400 {
			return
		}
		ixs := parallel.GenerateIndexes(sp)
		if len(ixs) > 400 {
			return
		}
		var l []string
		for _, ix := range ixs {
			l = append(l, hashOf(ix))
		}
		hs = rawList(l, ";")
	}()
	w.c.Emit(fmt.Sprintf("val.orc.hashes %s %s", tok, hs), "ok")
}

// ---------------------------------------------------------------- wire format

// parTok: `<cnt> <keys> <matrix> <strategy>` (matrix columns in sorted key order)
func parTok(sp *execution.ParallelismSpec) string {
	var cols []string
	for _, k := range SortedKeys(sp.WithMatrix) {
		cols = append(cols, ex(k)+"|"+exList(sp.WithMatrix[k], ";"))
	}
	m := "~"
	if len(cols) > 0 {
		m = strings.Join(cols, "&")
	}
	return fmt.Sprintf("%s %s %s %s", OptI(sp.WithCount), exList(sp.WithKeys, ";"), m, ex(string(sp.CompletionStrategy)))
}

func canonJSON(v interface{}) string {
	b, err := json.Marshal(v)
	if err != nil {
		return "!" + err.Error()
	}
	return string(b)
}

func (w *valWorld) podTok(p *execution.PodTemplateSpec, prefix string) string {
	if p == nil {
		return "-"
	}
	js := canonJSON(p)
	id, ok := w.podIDs[js]
	if !ok {
		id = len(w.podIDs) + 1
		w.podIDs[js] = id
	}
	valid := len(k8sPodErrors(p, prefix)) == 0
	return fmt.Sprintf("p%s%s%s:%d", B(valid), B(p.Spec.RestartPolicy == corev1.RestartPolicyAlways), B(p.Spec.RestartPolicy == ""), id)
}

// k8sPodErrors: Kubernetes' own verdict on the pod template (defaulting + core validation), at the path
// the furiko validator would report it.
func k8sPodErrors(p *execution.PodTemplateSpec, prefix string) (out field.ErrorList) {
	defer func() {
		if r := recover(); r != nil {
			out = field.ErrorList{field.InternalError(field.NewPath(prefix), fmt.Errorf("panic"))}
		}
	}()
	tpl := &corev1.PodTemplateSpec{ObjectMeta: p.ObjectMeta, Spec: p.Spec}
	return validation.ValidatePodTemplateSpec(tpl, field.NewPath(prefix))
}

func (w *valWorld) templateTok(t *execution.JobTemplate, prefix string) string {
	par := "-"
	if t.Parallelism != nil {
		par = "P " + parTok(t.Parallelism)
	}
	return fmt.Sprintf("T %s %s %s %s %s %s", w.podTok(t.TaskTemplate.Pod, prefix+".taskTemplate.pod"), par,
		OptI(t.MaxAttempts), OptI(t.RetryDelaySeconds), OptI(t.TaskPendingTimeoutSeconds), B(t.ForbidTaskForceDeletion))
}

func (w *valWorld) jcTok(jc *execution.JobConfig) string {
	sched := "-"
	if s := jc.Spec.Schedule; s != nil {
		if s.Cron == nil {
			sched = fmt.Sprintf("S %s -", B(s.Disabled))
		} else {
			var es []string
			for _, e := range s.Cron.Expressions {
				es = append(es, Q(e))
			}
			sched = strings.TrimSpace(fmt.Sprintf("S %s c %s %d %s", B(s.Disabled), Q(s.Cron.Expression), len(es), strings.Join(es, " "))) +
				" " + Q(s.Cron.Timezone)
		}
	}
	return fmt.Sprintf("JC %s %s %s %s C %s %s %s %s", Q(jc.Namespace), Q(jc.Name), Q(string(jc.UID)),
		w.templateTok(&jc.Spec.Template.Spec, "spec.template.spec"),
		Q(string(jc.Spec.Concurrency.Policy)), OptI(jc.Spec.Concurrency.MaxConcurrency), sched, specTok(jc.Spec.Option))
}

func optTimeSec(t *metav1.Time) string {
	if t == nil {
		return "-"
	}
	return fmt.Sprint(t.Unix())
}

func (w *valWorld) jobTok(j *execution.Job) string {
	var owners []string
	for _, o := range j.OwnerReferences {
		owners = append(owners, fmt.Sprintf("%s %s %s %s", Q(o.Kind), Q(o.Name), Q(string(o.UID)), B(o.Controller != nil && *o.Controller)))
	}
	sp := "-"
	if p := j.Spec.StartPolicy; p != nil {
		sp = fmt.Sprintf("sp %s %s", Q(string(p.ConcurrencyPolicy)), optTimeSec(p.StartAfter))
	}
	tpl := "-"
	if j.Spec.Template != nil {
		tpl = w.templateTok(j.Spec.Template, "spec.template")
	}
	var subs []string
	for _, k := range SortedKeys(j.Spec.Substitutions) {
		subs = append(subs, Q(k)+" "+Q(j.Spec.Substitutions[k]))
	}
	return strings.Join(strings.Fields(fmt.Sprintf("JOB %s %s %d %s %s %s %s %s %s %d %s %s %s %s",
		Q(j.Name), Q(j.Labels[jobconfig.LabelKeyJobConfigUID]), len(owners), strings.Join(owners, " "),
		Q(j.Spec.ConfigName), Q(string(j.Spec.Type)), sp, tpl, Q(j.Spec.OptionValues), len(subs), strings.Join(subs, " "),
		optTimeSec(j.Spec.KillTimestamp), OptI(j.Spec.TTLSecondsAfterFinished), B(!j.Status.StartTime.IsZero()))), " ")
}

// ---------------------------------------------------------------- running the real webhooks

var causeKinds = map[metav1.CauseType]string{
	metav1.CauseTypeFieldValueInvalid:          "I",
	metav1.CauseTypeFieldValueRequired:         "R",
	metav1.CauseType(field.ErrorTypeForbidden): "F",
	metav1.CauseTypeFieldValueNotSupported:     "N",
	metav1.CauseType(field.ErrorTypeTooMany):   "M",
	metav1.CauseTypeFieldValueNotFound:         "NF",
	metav1.CauseTypeFieldValueDuplicate:        "D",
	metav1.CauseType(field.ErrorTypeInternal):  "X",
}

var optionPathRe = regexp.MustCompile(`^(spec\.option\.options\[\d+\])`)

// canonResponse renders an admission response: ok | rej <sorted path:kind list>. Canonicalisation: every
// cause under <tpl>.parallelism is reported at <tpl>.parallelism (sub-paths are C14's business), every
// cause under spec.option.options[i] as `spec.option.options[i]:O` (C18), and the causes that Kubernetes'
// own pod validation produces (recomputed here) collapse to one `<tpl>.taskTemplate.pod:K`.
func (w *valWorld) canonResponse(resp *admissionv1.AdmissionResponse, err error, tplPrefix string, pod *execution.PodTemplateSpec) string {
	if err != nil {
		return "err"
	}
	if resp.Allowed {
		return "ok"
	}
	if resp.Result == nil || resp.Result.Details == nil {
		return "rej-without-causes"
	}
	k8s := map[string]int{}
	podPath := tplPrefix + ".taskTemplate.pod"
	if pod != nil {
		for _, e := range k8sPodErrors(pod, podPath) {
			k8s[string(e.Type)+"|"+e.Field]++
		}
	}
	var out []string
	k8sSeen := false
	parPath := tplPrefix + ".parallelism"
	for _, cause := range resp.Result.Details.Causes {
		f := cause.Field
		kind, ok := causeKinds[cause.Type]
		if !ok {
			kind = "?" + string(cause.Type)
		}
		w.c.Count("rejected-kind." + kind)
		if k := string(cause.Type) + "|" + f; k8s[k] > 0 {
			k8s[k]--
			k8sSeen = true
			continue
		}
		if f == parPath || strings.HasPrefix(f, parPath+".") || strings.HasPrefix(f, parPath+"[") {
			f = parPath
		} else if m := optionPathRe.FindStringSubmatch(f); m != nil {
			f, kind = m[1], "O"
		}
		out = append(out, f+":"+kind)
	}
	if k8sSeen {
		out = append(out, podPath+":K")
	}
	sort.Strings(out)
	for _, o := range out {
		w.c.Count("rejected-path." + pathClass(o))
	}
	return "rej " + strings.Join(out, ",")
}

var idxRe = regexp.MustCompile(`\[\d+\]`)

func pathClass(s string) string { return idxRe.ReplaceAllString(s, "[i]") }

func admissionReq(kind string, op admissionv1.Operation, obj, old interface{}) *admissionv1.AdmissionRequest {
	req := &admissionv1.AdmissionRequest{
		Kind:      metav1.GroupVersionKind{Group: execution.GroupVersion.Group, Version: execution.GroupVersion.Version, Kind: kind},
		Operation: op,
	}
	b, _ := json.Marshal(obj)
	req.Object = runtime.RawExtension{Raw: b}
	if old != nil {
		ob, _ := json.Marshal(old)
		req.OldObject = runtime.RawExtension{Raw: ob}
	}
	return req
}

func roundTripJC(jc *execution.JobConfig) *execution.JobConfig {
	b, _ := json.Marshal(jc)
	out := &execution.JobConfig{}
	_ = json.Unmarshal(b, out)
	return out
}

func roundTripJob(j *execution.Job) *execution.Job {
	b, _ := json.Marshal(j)
	out := &execution.Job{}
	_ = json.Unmarshal(b, out)
	return out
}

// admitJC sends the JobConfig through the real validating webhook, emits the op and runs the
// monitors on it if it was accepted. `expect` (scenarios only): "" or the exact expected output.
func (w *valWorld) admitJC(jcIn *execution.JobConfig, update bool) (id string, out string) {
	jc := roundTripJC(jcIn)
	w.nextID++
	id = fmt.Sprintf("j%d", w.nextID)
	hashStable := w.sendJCOracles(jc)
	op := admissionv1.Create
	var old interface{}
	if update {
		op = admissionv1.Update
		o := jc.DeepCopy()
		o.Spec.Concurrency.Policy = execution.ConcurrencyPolicyAllow
		o.Spec.Concurrency.MaxConcurrency = nil
		old = o
		w.c.Count("op.jobconfig-update")
	} else {
		w.c.Count("op.jobconfig-create")
	}
	req := admissionReq("JobConfig", op, jc, old)
	out = Guard(func() string {
		resp, err := w.jcHook.Handle(context.Background(), req)
		return w.canonResponse(resp, err, "spec.template.spec", jc.Spec.Template.Spec.TaskTemplate.Pod)
	})
	w.c.Emit("val.jc "+id+" "+w.jcTok(jc), out)
	switch {
	case out == "ok":
		w.c.Count("jobconfig.accepted")
	case out == "panic":
		w.c.Count("jobconfig.panic")
	default:
		w.c.Count("jobconfig.rejected")
	}
	if out != "ok" {
		return id, out
	}
	inEnv := true
	if !hashStable {
		w.c.Count("hash-dependent-line.accepted")
		if jc.Name == "" {
			inEnv = false
			w.c.Count("envelope-out.E-HashStable(generateName)")
		}
	}
	usesDefaultTz := jc.Spec.Schedule != nil && jc.Spec.Schedule.Cron != nil && jc.Spec.Schedule.Cron.Timezone == "" && !jc.Spec.Schedule.Disabled
	if usesDefaultTz && !w.defaultTzOK {
		inEnv = false
		w.c.Count("envelope-out.E-DefaultTz")
	}
	wraps := false
	for _, l := range cronLines(jc) {
		wraps = wraps || hashRangeWraps(l)
	}
	if wraps {
		inEnv = false
		w.c.Count("envelope-out.E-HashRange")
	}
	a := &acceptedJC{id: id, jc: jc, inEnv: inEnv, wraps: wraps,
		enabled: jc.Spec.Schedule != nil && !jc.Spec.Schedule.Disabled && jc.Spec.Schedule.Cron != nil}
	w.accepted = append(w.accepted, a)
	w.monitorLoadable([]*acceptedJC{a})
	if jc.Name != "" {
		w.monitorInstantiable(a)
	} else {
		w.c.Count("jobconfig.accepted-with-generateName")
	}
	return id, out
}

// ---------------------------------------------------------------- monitor: accepted-loadable

func (w *valWorld) newSchedule(jcs []*execution.JobConfig) (s *cronschedule.Schedule, out string) {
	var sched *cronschedule.Schedule
	out, timedOut := withWatchdog(loadWatchdog, func() string {
		var err error
		sched, err = cronschedule.New(jcs, cronschedule.WithClock(w.clk), cronschedule.WithConfigLoader(w.ctx.Configs()))
		if err != nil {
			return "error"
		}
		return "ok"
	})
	if timedOut {
		return nil, "hang"
	}
	return sched, out
}

func (w *valWorld) monitorLoadable(as []*acceptedJC) {
	var jcs []*execution.JobConfig
	var ids []string
	inEnv := true
	for _, a := range as {
		if a.wraps {
			// the real scheduler may never return on this one (F-C17-3): not called
			w.c.Count("load.skipped-E-HashRange")
			continue
		}
		jcs = append(jcs, a.jc)
		ids = append(ids, a.id)
		inEnv = inEnv && a.inEnv
	}
	if len(jcs) == 0 {
		return
	}
	sched, out := w.newSchedule(jcs)
	if out == "hang" {
		// outside the model (the library's Next is specified to be total): no op line
		w.c.Count("load.hang")
		w.c.Violate("C17", "accepted-loadable", "cronschedule.New did not return within %v on accepted JobConfig(s) %v (cron lines %q)", loadWatchdog, ids, func() (l []string) {
			for _, jc := range jcs {
				l = append(l, cronLines(jc)...)
			}
			return
		}())
		return
	}
	w.c.Emit("val.load "+strings.Join(ids, ","), out)
	w.c.Count("load." + out)
	if out != "ok" {
		if inEnv {
			w.c.Violate("C17", "accepted-loadable", "cronschedule.New returned %s on %d accepted JobConfig(s) %v (every one was admitted by the validating webhook under the same dynamic configuration)", out, len(jcs), ids)
		} else {
			w.c.Count("envelope-out.load-failed-on-accepted")
			if w.c.curScenario != "" {
				// the known-finding scenarios raise their violation here (matched by scenario name in bin/check)
				w.c.Violate("C17", "accepted-loadable", "cronschedule.New returned %s on accepted JobConfig(s) %v (outside the envelope: unparsable default timezone, or hash-dependent cron line of an unnamed JobConfig)", out, ids)
			}
		}
		return
	}
	if len(as) != 1 {
		return
	}
	a := as[0]
	bump, timedOut := withWatchdog(loadWatchdog, func() string {
		if _, err := sched.Bump(a.jc, w.now); err != nil {
			return "error"
		}
		return "ok"
	})
	if timedOut {
		w.c.Violate("C17", "accepted-loadable", "Schedule.Bump did not return within %v on accepted JobConfig %s (cron lines %q)", loadWatchdog, a.id, cronLines(a.jc))
		return
	}
	w.c.Emit("val.bump "+a.id, bump)
	if bump != "ok" && a.inEnv {
		w.c.Violate("C17", "accepted-loadable", "Schedule.Bump returned %s on accepted JobConfig %s", bump, a.id)
	}
	// the same through the Schedule that has existed since before the configuration changed
	if w.liveSched == nil {
		return
	}
	bump, timedOut = withWatchdog(loadWatchdog, func() string {
		if _, err := w.liveSched.Bump(a.jc, w.now); err != nil {
			return "error"
		}
		return "ok"
	})
	if timedOut {
		w.c.Violate("C17", "accepted-loadable", "Schedule.Bump (long-lived Schedule) did not return within %v on accepted JobConfig %s (cron lines %q)", loadWatchdog, a.id, cronLines(a.jc))
		return
	}
	w.c.Emit("val.bump "+a.id, bump)
	w.c.Count("load.bump-live." + bump)
	if bump != "ok" && a.inEnv {
		w.c.Violate("C17", "accepted-loadable", "Schedule.Bump returned %s on accepted JobConfig %s for a Schedule created before the cron configuration changed (the webhook validated it under the current configuration)", bump, a.id)
	}
}

// ---------------------------------------------------------------- monitor: accepted-instantiable

// requiredValues builds option values that satisfy every required option of the spec.
func requiredValues(spec *execution.OptionSpec) string {
	if spec == nil {
		return ""
	}
	vals := map[string]interface{}{}
	for _, o := range spec.Options {
		if !o.Required {
			continue
		}
		switch o.Type {
		case execution.OptionTypeString:
			vals[o.Name] = "value"
		case execution.OptionTypeSelect:
			if o.Select != nil && len(o.Select.Values) > 0 {
				vals[o.Name] = o.Select.Values[0]
			}
		case execution.OptionTypeMulti:
			if o.Multi != nil && len(o.Multi.Values) > 0 {
				vals[o.Name] = []string{o.Multi.Values[0]}
			}
		case execution.OptionTypeDate:
			vals[o.Name] = "2024-05-06T07:08:09Z"
		}
	}
	if len(vals) == 0 {
		return ""
	}
	b, _ := json.Marshal(vals)
	return string(b)
}

func (w *valWorld) monitorInstantiable(a *acceptedJC) {
	jc := a.jc.DeepCopy()
	if jc.UID == "" {
		jc.UID = types.UID("uid-" + jc.Name)
	}
	if jc.Namespace == "" {
		jc.Namespace = "default"
	}
	w.ctx.Sim().JobConfigs().CacheSet(jc)
	defer w.ctx.Sim().JobConfigs().CacheDel(jc)
	jobsCfg, _ := w.ctx.Configs().Jobs()
	jcsCfg, _ := w.ctx.Configs().JobConfigs()
	cfgOK := (jobsCfg.DefaultPendingTimeoutSeconds == nil || *jobsCfg.DefaultPendingTimeoutSeconds >= 0) &&
		(jobsCfg.DefaultTTLSecondsAfterFinished == nil || *jobsCfg.DefaultTTLSecondsAfterFinished >= 0) &&
		(jcsCfg.MaxEnqueuedJobs == nil || *jcsCfg.MaxEnqueuedJobs > 0)
	if !cfgOK {
		w.c.Count("envelope-out.instantiable-job-config")
	}
	for _, typ := range []execution.JobType{execution.JobTypeScheduled, execution.JobTypeAdhoc} {
		ts := w.now.Truncate(time.Second)
		var job *execution.Job
		res := Guard(func() string {
			j, err := jobconfig.NewJobFromJobConfig(jc, typ, ts)
			if err != nil {
				return "err"
			}
			job = j
			var subs []string
			for _, k := range SortedKeys(j.Spec.Substitutions) {
				subs = append(subs, ex(k)+"="+ex(j.Spec.Substitutions[k]))
			}
			return fmt.Sprintf("ok %s %s %s %s %s", ex(j.Name), ex(j.Labels[jobconfig.LabelKeyJobConfigUID]), ex(string(j.Spec.Type)),
				B(reflect.DeepEqual(j.Spec.Template, &jc.Spec.Template.Spec)), rawList(subs, ","))
		})
		// the model sees the JobConfig as admitted (uid/namespace as in the request)
		if string(a.jc.UID) == string(jc.UID) && a.jc.Namespace == jc.Namespace {
			w.c.Emit(fmt.Sprintf("val.newjob %s %s %d", a.id, Q(string(typ)), ts.Unix()), res)
		}
		w.c.Count("instantiate." + strings.Fields(res)[0])
		if job == nil {
			w.c.Violate("C17", "accepted-instantiable", "NewJobFromJobConfig(%s, %s) failed (%s) on an accepted JobConfig", a.id, typ, res)
			continue
		}
		job.Spec.OptionValues = requiredValues(jc.Spec.Option)
		mut := Guard(func() string {
			m := mutation.NewMutator(w.ctx)
			r := m.MutateJob(job)
			if len(r.Errors) > 0 {
				return "MutateJob: " + r.Errors.ToAggregate().Error()
			}
			r = m.MutateCreateJob(job)
			if len(r.Errors) > 0 {
				return "MutateCreateJob: " + r.Errors.ToAggregate().Error()
			}
			return "ok"
		})
		if mut != "ok" {
			if cfgOK {
				w.c.Violate("C17", "accepted-instantiable", "the Job made from accepted JobConfig %s (%s) does not pass defaulting: %s", a.id, typ, mut)
			}
			continue
		}
		val := Guard(func() string {
			v := validation.NewValidator(w.ctx)
			errs := v.ValidateJob(job)
			errs = append(errs, v.ValidateJobCreate(job)...)
			if len(errs) > 0 {
				return errs.ToAggregate().Error()
			}
			return "ok"
		})
		if val != "ok" {
			if cfgOK {
				w.c.Violate("C17", "accepted-instantiable", "the defaulted Job made from accepted JobConfig %s (%s) fails Job validation: %s", a.id, typ, val)
			}
			continue
		}
		w.c.Count("instantiate.job-valid")
		pods := Guard(func() string {
			tpl := job.Spec.Template.TaskTemplate.Pod
			n := 0
			for _, ix := range parallel.GenerateIndexes(job.Spec.Template.Parallelism) {
				if n++; n > 64 {
					break
				}
				p, err := podtaskexecutor.NewPod(job, &corev1.PodTemplateSpec{ObjectMeta: tpl.ObjectMeta, Spec: tpl.Spec},
					tasks.TaskIndex{Retry: 1, Parallel: ix})
				if err != nil || p == nil {
					return fmt.Sprintf("NewPod(%s): %v", showIdx(ix), err)
				}
			}
			return "ok"
		})
		if pods != "ok" {
			w.c.Violate("C17", "accepted-instantiable", "task objects of the Job made from accepted JobConfig %s: %s", a.id, pods)
		} else {
			w.c.Count("instantiate.pods-ok")
		}
	}
}

// ---------------------------------------------------------------- Jobs

func (w *valWorld) listerTok(ns string) string {
	var parts []string
	for _, obj := range w.ctx.Sim().JobConfigs().GetStore().List() {
		jc := obj.(*execution.JobConfig)
		if jc.Namespace != ns {
			continue
		}
		parts = append(parts, fmt.Sprintf("%s %s %d %d %s", Q(jc.Name), Q(string(jc.UID)), jc.Status.Active, jc.Status.Queued, OptI(jc.Spec.Concurrency.MaxConcurrency)))
	}
	return strings.TrimSpace(fmt.Sprintf("%d %s", len(parts), strings.Join(parts, " ")))
}

// mutJob runs the real MutateJob on a copy and emits the defaulted fields the validators read.
func (w *valWorld) mutJob(jIn *execution.Job) {
	j := roundTripJob(jIn)
	tok := w.jobTok(j)
	out := Guard(func() string {
		m := mutation.NewMutator(w.ctx)
		if r := m.MutateJob(j); len(r.Errors) > 0 {
			return "err"
		}
		t := j.Spec.Template
		pod := "-"
		if p := t.TaskTemplate.Pod; p != nil {
			pod = "p" + B(p.Spec.RestartPolicy == corev1.RestartPolicyAlways) + B(p.Spec.RestartPolicy == "")
		}
		strat := "-"
		if t.Parallelism != nil {
			strat = ex(string(t.Parallelism.CompletionStrategy))
		}
		return fmt.Sprintf("%s %s %s %s %s %s %s", ex(string(j.Spec.Type)), OptI(j.Spec.TTLSecondsAfterFinished), pod, strat,
			OptI(t.MaxAttempts), OptI(t.RetryDelaySeconds), OptI(t.TaskPendingTimeoutSeconds))
	})
	w.c.Count("op.job-mutate")
	w.c.Emit("val.mut "+tok, out)
}

func jobPod(j *execution.Job) *execution.PodTemplateSpec {
	if j.Spec.Template == nil {
		return nil
	}
	return j.Spec.Template.TaskTemplate.Pod
}

func (w *valWorld) admitJobCreate(jIn *execution.Job) string {
	j := roundTripJob(jIn)
	w.sendTemplateOracles(j.Spec.Template)
	req := admissionReq("Job", admissionv1.Create, j, nil)
	out := Guard(func() string {
		resp, err := w.jHook.Handle(context.Background(), req)
		return w.canonResponse(resp, err, "spec.template", jobPod(j))
	})
	w.c.Count("op.job-create")
	w.c.Emit("val.jobc "+w.jobTok(j)+" "+w.listerTok(j.Namespace), out)
	w.c.Count("job-create." + strings.Fields(out)[0])
	return out
}

func subsEqual(a, b map[string]string) bool {
	if len(a) == 0 && len(b) == 0 {
		return true
	}
	return reflect.DeepEqual(a, b)
}

func timePtrEqual(a, b *metav1.Time) bool {
	if a == nil || b == nil {
		return a == nil && b == nil
	}
	return a.Time.Equal(b.Time)
}

// admitJobUpdate sends (old,new) through the real webhook and judges an accepted update.
func (w *valWorld) admitJobUpdate(oldIn, newIn *execution.Job) string {
	old, nw := roundTripJob(oldIn), roundTripJob(newIn)
	w.sendTemplateOracles(old.Spec.Template)
	w.sendTemplateOracles(nw.Spec.Template)
	req := admissionReq("Job", admissionv1.Update, nw, old)
	out := Guard(func() string {
		resp, err := w.jHook.Handle(context.Background(), req)
		return w.canonResponse(resp, err, "spec.template", jobPod(nw))
	})
	w.c.Count("op.job-update")
	w.c.Emit("val.jobu "+w.jobTok(old)+" "+w.jobTok(nw), out)
	w.c.Count("job-update." + strings.Fields(out)[0])
	if out != "ok" {
		return out
	}
	// monitor immutable-fields: the harness compares the stored representations itself
	var changed []string
	if old.Spec.Template != nil && nw.Spec.Template != nil {
		ot, nt := old.Spec.Template, nw.Spec.Template
		if canonJSON(ot.TaskTemplate) != canonJSON(nt.TaskTemplate) {
			changed = append(changed, "template.taskTemplate")
		}
		if canonJSON(ot.Parallelism) != canonJSON(nt.Parallelism) {
			changed = append(changed, "template.parallelism")
		}
		if canonJSON(ot.MaxAttempts) != canonJSON(nt.MaxAttempts) {
			changed = append(changed, "template.maxAttempts")
		}
		if canonJSON(ot.RetryDelaySeconds) != canonJSON(nt.RetryDelaySeconds) {
			changed = append(changed, "template.retryDelaySeconds")
		}
	} else if (old.Spec.Template == nil) != (nw.Spec.Template == nil) {
		changed = append(changed, "template")
	}
	if old.Spec.Type != nw.Spec.Type {
		changed = append(changed, "type")
	}
	if old.Spec.OptionValues != nw.Spec.OptionValues {
		changed = append(changed, "optionValues")
	}
	if !subsEqual(old.Spec.Substitutions, nw.Spec.Substitutions) {
		changed = append(changed, "substitutions")
	}
	if old.Spec.ConfigName != nw.Spec.ConfigName {
		changed = append(changed, "configName")
	}
	if old.Labels[jobconfig.LabelKeyJobConfigUID] != nw.Labels[jobconfig.LabelKeyJobConfigUID] {
		changed = append(changed, "labels[job-config-uid]")
	}
	oldStarted := !old.Status.StartTime.IsZero()
	statusKept := timePtrEqual(old.Status.StartTime, nw.Status.StartTime)
	if oldStarted && canonJSON(old.Spec.StartPolicy) != canonJSON(nw.Spec.StartPolicy) {
		if statusKept {
			changed = append(changed, "startPolicy(started)")
		} else {
			w.c.Count("envelope-out.E-API.startPolicy-changed-with-status-dropped")
		}
	}
	if kt := old.Spec.KillTimestamp; kt != nil && !kt.IsZero() && kt.Time.UnixNano() < w.now.UnixNano() &&
		!timePtrEqual(kt, nw.Spec.KillTimestamp) {
		changed = append(changed, "killTimestamp(passed)")
	}
	if kt := old.Spec.KillTimestamp; kt != nil && kt.Time.UnixNano() == w.now.UnixNano() && !timePtrEqual(kt, nw.Spec.KillTimestamp) {
		w.c.Count("boundary.killTimestamp-equal-now-changed-accepted")
	}
	if len(changed) > 0 {
		w.c.Violate("C17", "immutable-fields", "update accepted although %v changed", changed)
	} else {
		w.c.Count("job-update.accepted-nothing-immutable-changed")
	}
	return out
}

// ---------------------------------------------------------------- generators

func vpick[T any](rng *rand.Rand, xs ...T) T { return xs[rng.Intn(len(xs))] }

func genCronField(rng *rand.Rand, lo, hi int, names []string, kind string) string {
	// the library lower-cases directives: `h` is a hash token just like `H`
	hcase := func() string {
		if rng.Intn(5) == 0 {
			return "h"
		}
		return "H"
	}
	val := func() string {
		if len(names) > 0 && rng.Intn(6) == 0 {
			return vpick(rng, names...)
		}
		v := lo + rng.Intn(hi-lo+1)
		if rng.Intn(25) == 0 {
			v = hi + 1 + rng.Intn(3) // out of range
		}
		return fmt.Sprint(v)
	}
	rng2 := func() string {
		a, b := lo+rng.Intn(hi-lo+1), lo+rng.Intn(hi-lo+1)
		if a > b && rng.Intn(8) > 0 {
			a, b = b, a
		}
		return fmt.Sprintf("%d-%d", a, b)
	}
	step := func() string { return fmt.Sprint(vpick(rng, 1, 2, 3, 5, 7, 10, 15, 30, 0, hi, hi+1)) }
	one := func() string {
		switch r := rng.Intn(100); {
		case r < 30:
			return "*"
		case r < 50:
			return val()
		case r < 58:
			return rng2()
		case r < 64:
			return "*/" + step()
		case r < 68:
			return val() + "/" + step()
		case r < 72:
			return rng2() + "/" + step()
		case r < 80:
			return hcase()
		case r < 86:
			return hcase() + "/" + step()
		case r < 90:
			return hcase() + "(" + rng2() + ")"
		case r < 94:
			return hcase() + "(" + rng2() + ")/" + step()
		case r < 95:
			return "/" + step()
		case r < 96:
			return "?"
		default:
			switch kind {
			case "dom":
				return vpick(rng, "L", "LW", "15W", "1W", "32W", "W")
			case "dow":
				return vpick(rng, "5L", "1#3", "0#5", "7#1", "2#6", "L")
			}
			return vpick(rng, "x", "*/", "-", "1-", "h", "**", "??", "1,,2")
		}
	}
	n := 1
	if rng.Intn(6) == 0 {
		n = 2 + rng.Intn(2)
	}
	parts := make([]string, n)
	for i := range parts {
		parts[i] = one()
	}
	return strings.Join(parts, ",")
}

var cronMonths = []string{"JAN", "feb", "Mar", "DEC"}
var cronDows = []string{"SUN", "mon", "Fri", "saturday"}

// genCronLine: a cron line from the library's grammar (5, 6 or 7 fields; rarely 4 or 8), aliases, malformed.
func genCronExpr(rng *rand.Rand) string {
	switch r := rng.Intn(100); {
	case r < 30:
		return genCronLine(rng, rng.Intn(3))
	case r < 35:
		return vpick(rng, "@yearly", "@annually", "@monthly", "@weekly", "@daily", "@hourly", "@reboot", "@every 5m")
	case r < 40:
		return vpick(rng, "", " ", "* * * *", "a b c d e", "*/0 * * * *", "60 * * * *", "* 24 * * *", "* * 0 * *", "* * * 13 *",
			"* * * * 8", "* * * * * 1969", "0 0 H/5 * *", "0 3 h/5 * *", "0 0 1 H/3 *", "H(18-20)/5 * * * *", "H(5-4) * * * *", "H(59-0) * * * *",
			"0 0 ? * *", "0 0 * * ?", "0 0 ? * ?", "\t*  *   * * *\n", "* * * * * * * *", "H H H H H H H", "0 0 31 2 *")
	}
	nf := vpick(rng, 5, 5, 5, 6, 7, 7, 4, 8)
	var f []string
	if nf >= 7 {
		f = append(f, genCronField(rng, 0, 59, nil, "sec"))
	}
	f = append(f, genCronField(rng, 0, 59, nil, "min"), genCronField(rng, 0, 23, nil, "hour"),
		genCronField(rng, 1, 31, nil, "dom"), genCronField(rng, 1, 12, cronMonths, "month"), genCronField(rng, 0, 7, cronDows, "dow"))
	if nf == 4 {
		f = f[:4]
	}
	if nf == 6 || nf >= 7 {
		f = append(f, vpick(rng, "*", "2030", "2020-2040", "*/2", "1969", "2100", "H", "H/2", "H(2030-2040)"))
	}
	if nf == 8 {
		f = append(f, "*")
	}
	return strings.Join(f, " ")
}

func genValTZ(rng *rand.Rand) string {
	switch r := rng.Intn(100); {
	case r < 35:
		return ""
	case r < 85:
		return genTZ(rng).s
	default:
		return vpick(rng, "UTC+8", "UTC-7", "UTC+08", "UTC+0800", "UTC+08:00", "UTC-8:30", "GMT+5", "GMT-11", "GMT+5:45", "UTC+14", "UTC+24",
			"UTC-00:00", "UTC+8:5", "UTC8", "UTC +8", "utc+8", "GMT", "GMT0", "Etc/GMT-14", "EST", "CST", "Asia/Singapura", "Asia/", "../etc/passwd",
			"Local", "local", " UTC", "UTC\n", "UTC+99:99", "UTC+123", "America/Argentina/Buenos_Aires", "Z", "+08:00")
	}
}

type podVariant struct {
	name  string
	build func() *execution.PodTemplateSpec
}

func okContainer(image string) corev1.Container {
	return corev1.Container{Name: "main", Image: image, Args: []string{"echo", "${job.name}"}}
}

var podVariants = []podVariant{
	{"ok", func() *execution.PodTemplateSpec {
		return &execution.PodTemplateSpec{Spec: corev1.PodSpec{Containers: []corev1.Container{okContainer("alpine")}}}
	}},
	{"ok-never", func() *execution.PodTemplateSpec {
		return &execution.PodTemplateSpec{Spec: corev1.PodSpec{RestartPolicy: corev1.RestartPolicyNever, Containers: []corev1.Container{okContainer("alpine")}}}
	}},
	{"ok-onfailure", func() *execution.PodTemplateSpec {
		return &execution.PodTemplateSpec{Spec: corev1.PodSpec{RestartPolicy: corev1.RestartPolicyOnFailure, Containers: []corev1.Container{okContainer("busybox")}}}
	}},
	{"ok-labels", func() *execution.PodTemplateSpec {
		return &execution.PodTemplateSpec{ObjectMeta: metav1.ObjectMeta{Labels: map[string]string{"app": "x"}},
			Spec: corev1.PodSpec{Containers: []corev1.Container{okContainer("alpine"), {Name: "side", Image: "envoy"}}}}
	}},
	{"always", func() *execution.PodTemplateSpec {
		return &execution.PodTemplateSpec{Spec: corev1.PodSpec{RestartPolicy: corev1.RestartPolicyAlways, Containers: []corev1.Container{okContainer("alpine")}}}
	}},
	{"bogus-restart", func() *execution.PodTemplateSpec {
		return &execution.PodTemplateSpec{Spec: corev1.PodSpec{RestartPolicy: "Sometimes", Containers: []corev1.Container{okContainer("alpine")}}}
	}},
	{"no-containers", func() *execution.PodTemplateSpec { return &execution.PodTemplateSpec{} }},
	{"no-image", func() *execution.PodTemplateSpec {
		return &execution.PodTemplateSpec{Spec: corev1.PodSpec{Containers: []corev1.Container{{Name: "main"}}}}
	}},
	{"dup-names", func() *execution.PodTemplateSpec {
		return &execution.PodTemplateSpec{Spec: corev1.PodSpec{Containers: []corev1.Container{okContainer("a"), okContainer("b")}}}
	}},
	{"bad-name-always", func() *execution.PodTemplateSpec {
		return &execution.PodTemplateSpec{Spec: corev1.PodSpec{RestartPolicy: corev1.RestartPolicyAlways, Containers: []corev1.Container{{Name: "Main_X", Image: "a"}}}}
	}},
	{"bad-label", func() *execution.PodTemplateSpec {
		return &execution.PodTemplateSpec{ObjectMeta: metav1.ObjectMeta{Labels: map[string]string{"a b": "c"}},
			Spec: corev1.PodSpec{Containers: []corev1.Container{okContainer("alpine")}}}
	}},
}

func genPod(rng *rand.Rand, valid bool) *execution.PodTemplateSpec {
	if valid {
		p := podVariants[rng.Intn(4)].build()
		if rng.Intn(3) == 0 {
			p.Spec.Containers[0].Image = vpick(rng, "alpine:3", "busybox", "ubuntu")
		}
		return p
	}
	if rng.Intn(6) == 0 {
		return nil
	}
	return podVariants[4+rng.Intn(len(podVariants)-4)].build()
}

// genParallelism: mostly valid small specs; `bad` draws from the C14 generator (capped).
func genParallelism(rng *rand.Rand, bad bool) *execution.ParallelismSpec {
	if !bad {
		sp := &execution.ParallelismSpec{CompletionStrategy: vpick(rng, execution.AllSuccessful, execution.AnySuccessful)}
		switch rng.Intn(3) {
		case 0:
			sp.WithCount = i64(int64(vpick(rng, 1, 2, 3, 5, 12)))
		case 1:
			sp.WithKeys = vpick(rng, []string{"a"}, []string{"a", "b", "c"}, []string{"x-1", "x-2"})
		default:
			sp.WithMatrix = vpick(rng, map[string][]string{"os": {"linux", "mac"}}, map[string][]string{"a": {"1", "2"}, "b": {"x", "y", "z"}})
		}
		return sp
	}
	h := genSpec(rng, false)
	if h.isNil {
		h.isNil = false
	}
	if h.count != nil && *h.count > 150 {
		*h.count = vpick(rng, int64(70), 71, 150)
	}
	if len(h.keys) > 40 {
		h.keys = h.keys[:40]
	}
	return h.build(nil)
}

type jcGen struct {
	malformed bool
}

func (w *valWorld) genTemplate(bad bool) execution.JobTemplate {
	rng := w.rng
	defect := func() bool { return bad && rng.Intn(4) == 0 }
	t := execution.JobTemplate{}
	t.TaskTemplate.Pod = genPod(rng, !defect())
	if rng.Intn(3) == 0 || defect() {
		t.Parallelism = genParallelism(rng, defect())
	}
	if rng.Intn(2) == 0 {
		t.MaxAttempts = i64(int64(vpick(rng, 1, 1, 2, 3, 49, 50)))
		if defect() || rng.Intn(30) == 0 {
			t.MaxAttempts = i64(int64(vpick(rng, 0, -1, 51, 52, 1000)))
		}
	}
	if rng.Intn(3) == 0 {
		t.RetryDelaySeconds = i64(int64(vpick(rng, 0, 1, 10, 3600)))
		if defect() || rng.Intn(30) == 0 {
			t.RetryDelaySeconds = i64(int64(vpick(rng, -1, -60)))
		}
	}
	if rng.Intn(3) == 0 {
		t.TaskPendingTimeoutSeconds = i64(int64(vpick(rng, 0, 1, 900)))
		if defect() || rng.Intn(30) == 0 {
			t.TaskPendingTimeoutSeconds = i64(int64(vpick(rng, -1, -900)))
		}
	}
	t.ForbidTaskForceDeletion = rng.Intn(5) == 0
	return t
}

func nameOfLen(rng *rand.Rand, n int) string {
	var b strings.Builder
	b.WriteString("jc")
	for b.Len() < n {
		b.WriteByte("abcdefghijklmnopqrstuvwxyz0123456789-"[rng.Intn(37)])
	}
	s := b.String()
	if n < 2 {
		s = s[:n]
	}
	return strings.TrimRight(s, "-") + strings.Repeat("x", len(s)-len(strings.TrimRight(s, "-")))
}

func (w *valWorld) genOptionSpec(bad bool) *execution.OptionSpec {
	rng := w.rng
	if rng.Intn(3) == 0 {
		return nil
	}
	spec := &execution.OptionSpec{}
	n := rng.Intn(4)
	for i := 0; i < n; i++ {
		name := fmt.Sprintf("opt%d", i)
		if bad && rng.Intn(3) == 0 {
			spec.Options = append(spec.Options, genBadOption(rng, name))
		} else {
			spec.Options = append(spec.Options, genGoodOption(rng, name))
		}
	}
	if bad && n >= 2 && rng.Intn(3) == 0 {
		spec.Options[n-1].Name = spec.Options[0].Name // duplicate name
	}
	return spec
}

func (w *valWorld) genSchedule(bad bool) *execution.ScheduleSpec {
	rng := w.rng
	if rng.Intn(6) == 0 {
		return nil
	}
	s := &execution.ScheduleSpec{Disabled: rng.Intn(5) == 0}
	if bad && rng.Intn(8) == 0 {
		return s // no schedule type
	}
	c := &execution.CronSchedule{}
	goodLine := func() string {
		for k := 0; k < 50; k++ {
			l := genCronExpr(rng)
			if w.effectiveTrit(l, "") == 'o' {
				return l
			}
		}
		return "0 * * * *"
	}
	line := goodLine
	if bad && rng.Intn(2) == 0 {
		line = func() string { return genCronExpr(rng) }
	}
	switch r := rng.Intn(20); {
	case r < 11:
		c.Expression = line()
	case r < 18:
		for k := 1 + rng.Intn(3); k > 0; k-- {
			c.Expressions = append(c.Expressions, line())
		}
		if bad && rng.Intn(4) == 0 {
			c.Expressions = append(c.Expressions, "")
		}
	case r < 19:
		if bad {
			c.Expression = line()
			c.Expressions = []string{line()}
		} else {
			c.Expression = line()
		}
	default:
		if !bad {
			c.Expression = line()
		}
	}
	if bad {
		c.Timezone = genValTZ(rng)
	} else {
		for k := 0; k < 20; k++ {
			tz := genValTZ(rng)
			if _, err := tzutils.ParseTimezone(tz); err == nil {
				c.Timezone = tz
				break
			}
		}
	}
	s.Cron = c
	if rng.Intn(5) == 0 {
		s.Constraints = &execution.ScheduleContraints{NotBefore: mt(w.now.Unix() + int64(rng.Intn(7200)) - 3600)}
		if rng.Intn(2) == 0 {
			s.Constraints.NotAfter = mt(w.now.Unix() + int64(rng.Intn(72000)))
		}
	}
	if rng.Intn(3) == 0 {
		s.LastUpdated = mt(w.now.Unix() - int64(rng.Intn(600)))
	}
	return s
}

func (w *valWorld) genJobConfig(k int, bad bool) *execution.JobConfig {
	rng := w.rng
	defect := func() bool { return bad && rng.Intn(5) == 0 }
	jc := &execution.JobConfig{
		TypeMeta:   metav1.TypeMeta{APIVersion: execution.GroupVersion.String(), Kind: execution.KindJobConfig},
		ObjectMeta: metav1.ObjectMeta{Namespace: vpick(rng, "default", "default", "prod", "team-a"), UID: types.UID(fmt.Sprintf("uid-%d", k))},
	}
	jc.Name = fmt.Sprintf("%s-%d", vpick(rng, "job", "report", "sync", "b", "nightly.batch"), k)
	switch rng.Intn(12) {
	case 0:
		jc.Name = nameOfLen(rng, 49)
	case 1:
		jc.Name = nameOfLen(rng, 48)
	case 2:
		if bad || rng.Intn(4) == 0 {
			jc.Name = nameOfLen(rng, vpick(rng, 50, 51, 63))
		}
	}
	if rng.Intn(30) == 0 {
		// generateName: the object reaches admission without a name
		jc.GenerateName, jc.Name = jc.Name+"-", ""
	}
	jc.Spec.Template.Spec = w.genTemplate(bad)
	if rng.Intn(4) == 0 {
		jc.Spec.Template.Labels = map[string]string{"team": "x"}
		jc.Spec.Template.Annotations = map[string]string{"note": "y"}
		if rng.Intn(2) == 0 {
			// a template pasted from an existing Job carries the controller-managed keys with stale
			// values (template metadata is not validated): the instantiated Job must still carry its own
			jc.Spec.Template.Labels["execution.furiko.io/job-config-uid"] = "stale-uid-of-another-jobconfig"
			jc.Spec.Template.Annotations["execution.furiko.io/schedule-time"] = "1600000000"
			w.c.Count("jobconfig.template-with-reserved-keys")
		}
	}
	jc.Spec.Concurrency.Policy = vpick(rng, execution.ConcurrencyPolicyAllow, execution.ConcurrencyPolicyForbid, execution.ConcurrencyPolicyEnqueue)
	if defect() {
		jc.Spec.Concurrency.Policy = vpick(rng, execution.ConcurrencyPolicy(""), "allow", "Replace")
	}
	if rng.Intn(3) == 0 {
		if jc.Spec.Concurrency.Policy != execution.ConcurrencyPolicyAllow || defect() {
			jc.Spec.Concurrency.MaxConcurrency = i64(int64(vpick(rng, 1, 1, 2, 5)))
		}
		if jc.Spec.Concurrency.MaxConcurrency != nil && (defect() || rng.Intn(20) == 0) {
			jc.Spec.Concurrency.MaxConcurrency = i64(int64(vpick(rng, 0, -1)))
		}
	}
	jc.Spec.Schedule = w.genSchedule(bad)
	jc.Spec.Option = w.genOptionSpec(bad)
	return jc
}

func (w *valWorld) genJob(k int, owner *execution.JobConfig, bad bool) *execution.Job {
	rng := w.rng
	defect := func() bool { return bad && rng.Intn(5) == 0 }
	j := &execution.Job{
		TypeMeta:   metav1.TypeMeta{APIVersion: execution.GroupVersion.String(), Kind: execution.KindJob},
		ObjectMeta: metav1.ObjectMeta{Namespace: "default", Name: fmt.Sprintf("job-%d", k), UID: types.UID(fmt.Sprintf("juid-%d", k))},
	}
	switch rng.Intn(12) {
	case 0:
		j.Name = nameOfLen(rng, 60)
	case 1:
		if bad || rng.Intn(4) == 0 {
			j.Name = nameOfLen(rng, vpick(rng, 61, 62, 70))
		}
	}
	j.Spec.Type = vpick(rng, execution.JobTypeAdhoc, execution.JobTypeScheduled)
	if defect() {
		j.Spec.Type = vpick(rng, execution.JobType(""), "adhoc", "Manual")
	}
	t := w.genTemplate(bad)
	j.Spec.Template = &t
	if bad && rng.Intn(12) == 0 {
		j.Spec.Template = nil
	}
	if rng.Intn(2) == 0 {
		j.Spec.StartPolicy = &execution.StartPolicySpec{ConcurrencyPolicy: vpick(rng, execution.ConcurrencyPolicyAllow, execution.ConcurrencyPolicyForbid, execution.ConcurrencyPolicyEnqueue)}
		if defect() {
			j.Spec.StartPolicy.ConcurrencyPolicy = vpick(rng, execution.ConcurrencyPolicy(""), "forbid")
		}
		if rng.Intn(3) == 0 {
			j.Spec.StartPolicy.StartAfter = mt(w.now.Unix() + int64(rng.Intn(600)))
		}
	}
	if rng.Intn(3) == 0 {
		j.Spec.OptionValues = vpick(rng, `{"a":"b"}`, `{}`, `a: b`)
	}
	if rng.Intn(3) == 0 {
		j.Spec.Substitutions = vpick(rng, map[string]string{"option.a": "1"}, map[string]string{"option.a": "1", "x": ""}, map[string]string{})
	}
	if rng.Intn(3) == 0 {
		j.Spec.TTLSecondsAfterFinished = i64(int64(vpick(rng, 0, 60, 3600)))
		if defect() {
			j.Spec.TTLSecondsAfterFinished = i64(-1)
		}
	}
	if owner != nil {
		tr := true
		j.Namespace = owner.Namespace
		j.OwnerReferences = []metav1.OwnerReference{{APIVersion: execution.GroupVersion.String(), Kind: execution.KindJobConfig, Name: owner.Name, UID: owner.UID, Controller: &tr}}
		j.Labels = map[string]string{jobconfig.LabelKeyJobConfigUID: string(owner.UID)}
		if bad {
			switch rng.Intn(8) {
			case 0:
				j.OwnerReferences[0].UID = "other-uid"
			case 1:
				j.OwnerReferences[0].Name = "missing"
			case 2:
				delete(j.Labels, jobconfig.LabelKeyJobConfigUID)
			case 3:
				j.Labels[jobconfig.LabelKeyJobConfigUID] = "wrong"
			case 4:
				fl := false
				j.OwnerReferences = append([]metav1.OwnerReference{{APIVersion: "v1", Kind: "Pod", Name: "p", UID: "u", Controller: &fl}}, j.OwnerReferences...)
			case 5:
				j.OwnerReferences[0].Kind = "CronJob"
			}
		}
	}
	return j
}

// mutators of a Job for (old,new) pairs; name = the field changed
type jobMut struct {
	name string
	f    func(w *valWorld, j *execution.Job)
}

var jobMuts = []jobMut{
	{"taskTemplate", func(w *valWorld, j *execution.Job) {
		if j.Spec.Template != nil {
			if p := j.Spec.Template.TaskTemplate.Pod; p != nil && len(p.Spec.Containers) > 0 {
				p.Spec.Containers[0].Image += "-v2"
			} else {
				j.Spec.Template.TaskTemplate.Pod = podVariants[0].build()
			}
		}
	}},
	{"taskTemplate.meta", func(w *valWorld, j *execution.Job) {
		if j.Spec.Template != nil && j.Spec.Template.TaskTemplate.Pod != nil {
			j.Spec.Template.TaskTemplate.Pod.Annotations = map[string]string{"changed": "1"}
		}
	}},
	{"parallelism", func(w *valWorld, j *execution.Job) {
		if j.Spec.Template != nil {
			if sp := j.Spec.Template.Parallelism; sp == nil {
				j.Spec.Template.Parallelism = &execution.ParallelismSpec{WithCount: i64(2), CompletionStrategy: execution.AllSuccessful}
			} else if w.rng.Intn(3) == 0 {
				j.Spec.Template.Parallelism = nil
			} else if sp.CompletionStrategy == execution.AnySuccessful {
				sp.CompletionStrategy = execution.AllSuccessful
			} else {
				sp.CompletionStrategy = execution.AnySuccessful
			}
		}
	}},
	{"maxAttempts", func(w *valWorld, j *execution.Job) {
		if j.Spec.Template != nil {
			if j.Spec.Template.MaxAttempts == nil {
				j.Spec.Template.MaxAttempts = i64(3)
			} else if w.rng.Intn(3) == 0 {
				j.Spec.Template.MaxAttempts = nil
			} else {
				j.Spec.Template.MaxAttempts = i64(*j.Spec.Template.MaxAttempts%50 + 1)
			}
		}
	}},
	{"retryDelaySeconds", func(w *valWorld, j *execution.Job) {
		if j.Spec.Template != nil {
			if j.Spec.Template.RetryDelaySeconds == nil {
				j.Spec.Template.RetryDelaySeconds = i64(0)
			} else {
				j.Spec.Template.RetryDelaySeconds = i64(*j.Spec.Template.RetryDelaySeconds + 5)
			}
		}
	}},
	{"type", func(w *valWorld, j *execution.Job) {
		if j.Spec.Type == execution.JobTypeAdhoc {
			j.Spec.Type = execution.JobTypeScheduled
		} else {
			j.Spec.Type = execution.JobTypeAdhoc
		}
	}},
	{"optionValues", func(w *valWorld, j *execution.Job) { j.Spec.OptionValues += " " }},
	{"substitutions", func(w *valWorld, j *execution.Job) {
		m := map[string]string{}
		for k, v := range j.Spec.Substitutions {
			m[k] = v
		}
		if _, ok := m["option.a"]; ok && w.rng.Intn(2) == 0 {
			delete(m, "option.a")
		} else {
			m["option.a"] += "x"
		}
		j.Spec.Substitutions = m
	}},
	{"configName", func(w *valWorld, j *execution.Job) { j.Spec.ConfigName += "cfg" }},
	{"uidLabel", func(w *valWorld, j *execution.Job) {
		if j.Labels == nil {
			j.Labels = map[string]string{}
		}
		j.Labels[jobconfig.LabelKeyJobConfigUID] += "z"
	}},
	{"startPolicy", func(w *valWorld, j *execution.Job) {
		switch {
		case j.Spec.StartPolicy == nil:
			j.Spec.StartPolicy = &execution.StartPolicySpec{ConcurrencyPolicy: execution.ConcurrencyPolicyAllow}
		case w.rng.Intn(3) == 0:
			j.Spec.StartPolicy.StartAfter = mt(w.now.Unix() + 1000 + int64(w.rng.Intn(100)))
		case j.Spec.StartPolicy.ConcurrencyPolicy == execution.ConcurrencyPolicyEnqueue:
			j.Spec.StartPolicy.ConcurrencyPolicy = execution.ConcurrencyPolicyForbid
		default:
			j.Spec.StartPolicy.ConcurrencyPolicy = execution.ConcurrencyPolicyEnqueue
		}
	}},
	{"killTimestamp", func(w *valWorld, j *execution.Job) {
		switch {
		case j.Spec.KillTimestamp == nil:
			j.Spec.KillTimestamp = mt(w.now.Unix() + int64(w.rng.Intn(5)) - 2)
		case w.rng.Intn(3) == 0:
			j.Spec.KillTimestamp = nil
		default:
			j.Spec.KillTimestamp = mt(j.Spec.KillTimestamp.Unix() + int64(vpick(w.rng, -1, 1, 60)))
		}
	}},
	// mutable fields (no clause of the property forbids these)
	{"~pendingTimeout", func(w *valWorld, j *execution.Job) {
		if j.Spec.Template != nil {
			j.Spec.Template.TaskPendingTimeoutSeconds = i64(int64(w.rng.Intn(100)))
		}
	}},
	{"~ttl", func(w *valWorld, j *execution.Job) { j.Spec.TTLSecondsAfterFinished = i64(int64(w.rng.Intn(100))) }},
	{"~forbidForce", func(w *valWorld, j *execution.Job) {
		if j.Spec.Template != nil {
			j.Spec.Template.ForbidTaskForceDeletion = !j.Spec.Template.ForbidTaskForceDeletion
		}
	}},
	{"~annotation", func(w *valWorld, j *execution.Job) { j.Annotations = map[string]string{"touched": "1"} }},
	{"~statusStart", func(w *valWorld, j *execution.Job) {
		if j.Status.StartTime == nil {
			j.Status.StartTime = mt(w.now.Unix() - 5)
		} else {
			j.Status.StartTime = nil
		}
	}},
}

// ---------------------------------------------------------------- cases

func genValConfigs(rng *rand.Rand) (*configv1alpha1.CronExecutionConfig, *configv1alpha1.JobExecutionConfig, *configv1alpha1.JobConfigExecutionConfig, bool) {
	pb := func() *bool {
		switch rng.Intn(3) {
		case 0:
			return nil
		case 1:
			b := true
			return &b
		}
		b := false
		return &b
	}
	cronCfg := &configv1alpha1.CronExecutionConfig{
		CronFormat:    vpick(rng, "standard", "standard", "quartz", "quartz", "", "Quartz", "bogus"),
		CronHashNames: pb(), CronHashSecondsByDefault: pb(), CronHashFields: pb(),
	}
	tzOK := true
	switch r := rng.Intn(10); {
	case r < 3:
	case r < 9:
		z := valDefaultTZs[rng.Intn(7)]
		cronCfg.DefaultTimezone, tzOK = &z.s, z.ok
	default:
		z := valDefaultTZs[7+rng.Intn(len(valDefaultTZs)-7)]
		cronCfg.DefaultTimezone, tzOK = &z.s, z.ok
	}
	jobsCfg := &configv1alpha1.JobExecutionConfig{}
	if rng.Intn(4) > 0 {
		jobsCfg.DefaultPendingTimeoutSeconds = i64(int64(vpick(rng, 0, 900, 900, 60)))
	}
	if rng.Intn(4) > 0 {
		jobsCfg.DefaultTTLSecondsAfterFinished = i64(int64(vpick(rng, 0, 3600, 3600)))
	}
	jcCfg := &configv1alpha1.JobConfigExecutionConfig{}
	if rng.Intn(4) > 0 {
		jcCfg.MaxEnqueuedJobs = i64(int64(vpick(rng, 20, 20, 20, 20, 20, 1, 2, 0)))
	}
	return cronCfg, jobsCfg, jcCfg, tzOK
}

func genNow(rng *rand.Rand) time.Time {
	sec := time.Date(2022+rng.Intn(8), time.Month(1+rng.Intn(12)), 1+rng.Intn(28), rng.Intn(24), rng.Intn(60), rng.Intn(60), 0, time.UTC).Unix()
	ns := int64(0)
	if rng.Intn(2) == 0 {
		ns = vpick(rng, int64(1), 999999999, 500000000, rng.Int63n(1e9))
	}
	return time.Unix(sec, ns).UTC()
}

func valCase(c *Ctx, rng *rand.Rand) {
	cronCfg, jobsCfg, jcCfg, tzOK := genValConfigs(rng)
	w := newValWorld(c, rng, cronCfg, jobsCfg, jcCfg, tzOK, genNow(rng))
	c.Count("cfg.format." + map[string]string{"": "empty"}[cronCfg.CronFormat] + cronCfg.CronFormat)
	malformed := rng.Intn(4) == 0
	if malformed {
		c.Count("stream.malformed")
	} else {
		c.Count("stream.mostly-valid")
	}

	// JobConfigs
	nJC := 2 + rng.Intn(4)
	var owners []*execution.JobConfig
	for k := 0; k < nJC; k++ {
		jc := w.genJobConfig(k, malformed)
		_, out := w.admitJC(jc, rng.Intn(4) == 0)
		if out == "ok" {
			owners = append(owners, roundTripJC(jc))
		}
	}
	// all accepted ones together (one bad element aborts the whole load)
	if len(w.accepted) > 1 {
		w.monitorLoadable(w.accepted)
	}
	if len(w.accepted) > 0 {
		c.Nontrivial()
	}

	// lister population for Job creation
	for i, o := range owners {
		o.Status.Active = int64(vpick(rng, 0, 0, 1, 2))
		o.Status.Queued = int64(vpick(rng, 0, 0, 1, 20))
		_ = i
		w.ctx.Sim().JobConfigs().CacheSet(o)
	}
	nJ := 1 + rng.Intn(3)
	for k := 0; k < nJ; k++ {
		var owner *execution.JobConfig
		if len(owners) > 0 && rng.Intn(2) == 0 {
			owner = owners[rng.Intn(len(owners))]
		}
		j := w.genJob(k, owner, malformed)
		w.admitJobCreate(j)
		w.mutJob(j)
	}

	// update pairs
	nU := 3 + rng.Intn(5)
	for k := 0; k < nU; k++ {
		old := w.genJob(100+k, nil, false)
		if rng.Intn(2) == 0 {
			old.Status.StartTime = mt(w.now.Unix() - int64(rng.Intn(100)))
		}
		switch rng.Intn(5) {
		case 0: // before the clock
			old.Spec.KillTimestamp = mt(w.now.Unix() - int64(vpick(rng, 1, 2, 60, 0)))
		case 1: // the clock's second (before/equal depending on the nanoseconds)
			old.Spec.KillTimestamp = mt(w.now.Unix())
		case 2: // after
			old.Spec.KillTimestamp = mt(w.now.Unix() + int64(vpick(rng, 1, 2, 60)))
		}
		nw := old.DeepCopy()
		nmut := vpick(rng, 0, 1, 1, 1, 1, 2, 3)
		var names []string
		for m := 0; m < nmut; m++ {
			mu := jobMuts[rng.Intn(len(jobMuts))]
			mu.f(w, nw)
			names = append(names, mu.name)
		}
		if malformed && rng.Intn(6) == 0 {
			if rng.Intn(2) == 0 {
				nw.Spec.Template = nil
			} else {
				old.Spec.Template = nil
			}
			names = append(names, "nil-template")
		}
		for _, n := range names {
			c.Count("update-mut." + n)
		}
		c.Count(fmt.Sprintf("update-nmut.%d", nmut))
		w.admitJobUpdate(old, nw)
	}
}

func runValidate(c *Ctx) {
	runValidateScenarios(c)
	c.ForCases(func(i int, rng *rand.Rand) { valCase(c, rng) })
}
