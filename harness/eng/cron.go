package eng

import (
	"encoding/json"
	"fmt"
	"math/rand"
	"sort"
	"strings"
	"time"

	"github.com/furiko-io/cronexpr"
	metav1 "k8s.io/apimachinery/pkg/apis/meta/v1"
	"k8s.io/apimachinery/pkg/runtime"
	"k8s.io/apimachinery/pkg/types"
	fakeclock "k8s.io/utils/clock/testing"

	configv1alpha1 "github.com/furiko-io/furiko/apis/config/v1alpha1"
	execution "github.com/furiko-io/furiko/apis/execution/v1alpha1"
	"github.com/furiko-io/furiko/pkg/execution/controllers/croncontroller"

	"verifharness/sim"
)

// Engine "cron": the real cronschedule.Schedule + croncontroller.CronWorker + InformerWorker
// (through public constructors, on the deterministic informers of package sim) against
// Model/Cron.lean.  The cron library is an oracle: for every JobConfig version the harness
// sends, per cron line, the sorted match seconds in the explored window, computed with
// cronexpr directly (independently of the in-repo Parser / multiExpression / tzutils).

func init() { Register("cron", runCron) }

type fired struct {
	key string
	ts  int64
}

type captureHandler struct{ got []fired }

func (h *captureHandler) EnqueueJobConfig(jc *execution.JobConfig, t time.Time) error {
	h.got = append(h.got, fired{jc.Namespace + "/" + jc.Name, t.Unix()})
	return nil
}

type tzChoice struct {
	s   string
	loc *time.Location // nil = expected parse error
}

func genTZ(rng *rand.Rand) tzChoice {
	fixed := func(h, m int) *time.Location {
		sign := 1
		if h < 0 || (h == 0 && m < 0) {
			sign = -1
		}
		if h < 0 {
			h = -h
		}
		if m < 0 {
			m = -m
		}
		return time.FixedZone("x", sign*(h*3600+m*60))
	}
	switch rng.Intn(12) {
	case 0, 1, 2:
		return tzChoice{"", nil} // use default (resolved by caller)
	case 3:
		names := []string{"Asia/Singapore", "America/New_York", "Europe/London", "Australia/Lord_Howe", "Asia/Kolkata", "UTC", "Etc/GMT+5", "America/Sao_Paulo"}
		n := names[rng.Intn(len(names))]
		loc, err := time.LoadLocation(n)
		if err != nil {
			return tzChoice{"UTC", time.UTC}
		}
		return tzChoice{n, loc}
	case 4:
		h := rng.Intn(10)
		neg := rng.Intn(2) == 0
		p := "UTC"
		if rng.Intn(2) == 0 {
			p = "GMT"
		}
		if neg {
			return tzChoice{fmt.Sprintf("%s-%d", p, h), fixed(-h, 0)}
		}
		return tzChoice{fmt.Sprintf("%s+%d", p, h), fixed(h, 0)}
	case 5:
		h := rng.Intn(13)
		m := []int{0, 30, 45}[rng.Intn(3)]
		if rng.Intn(2) == 0 {
			if h == 0 {
				return tzChoice{fmt.Sprintf("UTC-%02d:%02d", h, m), fixed(0, -m)}
			}
			return tzChoice{fmt.Sprintf("UTC-%02d:%02d", h, m), fixed(-h, -m)}
		}
		return tzChoice{fmt.Sprintf("UTC+%02d:%02d", h, m), fixed(h, m)}
	case 6:
		h := 1 + rng.Intn(9)
		m := []int{0, 30}[rng.Intn(2)]
		return tzChoice{fmt.Sprintf("UTC+%d:%02d", h, m), fixed(h, m)}
	case 7:
		h := rng.Intn(13)
		return tzChoice{fmt.Sprintf("UTC+%02d00", h), fixed(h, 0)}
	case 8:
		return tzChoice{"GMT", time.UTC}
	case 9:
		return tzChoice{"Local", time.UTC}
	case 10:
		bad := []string{"Foo/Bar", "UTC+", "UTC+25:99x", "GMT+abc", "Mars/Olympus"}
		return tzChoice{bad[rng.Intn(len(bad))], nil}
	default:
		return tzChoice{"UTC", time.UTC}
	}
}

// scale: 0 seconds, 1 minutes, 2 days
func genCronLine(rng *rand.Rand, scale int) string {
	pick := func(xs ...string) string { return xs[rng.Intn(len(xs))] }
	if rng.Intn(25) == 0 {
		return pick("bad", "* * *", "61 * * * *", "* * * * * * * *", "H(1-2 * * * *", "0 0 0 ? * 1")
	}
	switch scale {
	case 0:
		return pick("* * * * * * *", "*/2 * * * * * *", "*/5 * * * * * *", "H/7 * * * * * *", "0,15,30,45 * * * * * *",
			"10-20 * * * * * *", "* * * * *", "H * * * * * *", "*/20 * * * * * *", "0 * * * * * *", "30 */2 * * * * *", "59 * * * * * *")
	case 1:
		return pick("* * * * *", "*/5 * * * *", "H/10 * * * *", "0 * * * *", "H * * * *", "15,45 * * * *", "0 */2 * * *",
			"30 * * * * * *", "0-10 * * * *", "H/3 * * * *", "0 0 * * * * *", "*/15 * * * * 2020-2040", "@hourly", "* * * * * 2019")
	default:
		return pick("0 0 * * *", "H H * * *", "0 */6 * * *", "0 9 * * 1-5", "0 0 L * *", "0 0 15W * *", "0 0 * * 5#3",
			"@daily", "@weekly", "0 12 1,15 * *", "H H(0-5) * * *", "30 2 * * *", "0 0 * * 7", "0 0 1 * *", "0 3 * * 6L", "@hourly", "0 0 29 2 *")
	}
}

type cronCfg struct {
	format      string
	hashNames   *bool
	hashSeconds *bool
	hashFields  *bool
	defaultTZ   *string
	maxMissed   *int64
	downtime    int64
}

func deref(b *bool, d bool) bool {
	if b == nil {
		return d
	}
	return *b
}

// oracleParse parses one cron line the way the scheduler is specified to (format and hash
// options from the dynamic config), using cronexpr directly.
func oracleParse(cfg *configv1alpha1.CronExecutionConfig, line, hashID string) (*cronexpr.Expression, error) {
	format := cronexpr.CronFormatStandard
	if cfg.CronFormat == string(cronexpr.CronFormatQuartz) {
		format = cronexpr.CronFormatQuartz
	}
	var opts []cronexpr.ParseOption
	if deref(cfg.CronHashNames, true) {
		opts = append(opts, cronexpr.WithHash(hashID))
		if deref(cfg.CronHashSecondsByDefault, false) {
			opts = append(opts, cronexpr.WithHashEmptySeconds())
		}
		if deref(cfg.CronHashFields, true) {
			opts = append(opts, cronexpr.WithHashFields())
		}
	}
	return cronexpr.ParseForFormat(format, line, opts...)
}

type jcVersion struct {
	id        int
	obj       *execution.JobConfig
	key       string
	enabled   bool
	parseErr  bool
	exprs     []*cronexpr.Expression
	loc       *time.Location
	lists     [][]int64
	nbf, naf  *int64
	lu, ls    *int64
	specID    int
	brokenLib bool
}

type cronWorld struct {
	c        *Ctx
	rng      *rand.Rand
	scale    int
	cfg      *configv1alpha1.CronExecutionConfig // merged (as the controller reads it)
	w0, w1   int64                               // oracle window (seconds)
	specIDs  map[string]int
	nextVer  int
	uidSeq   int
	maxList  int
	tooDense bool
}

func (w *cronWorld) effectiveTZ(spec *execution.CronSchedule, choice tzChoice) *time.Location {
	if spec.Timezone != "" {
		return choice.loc
	}
	// controller default: dynamic config, else "UTC"
	if tz := w.cfg.DefaultTimezone; tz != nil && *tz != "" {
		loc, err := time.LoadLocation(*tz)
		if err != nil {
			return nil
		}
		return loc
	}
	return time.UTC
}

func (w *cronWorld) matchList(e *cronexpr.Expression, loc *time.Location) ([]int64, bool) {
	var out []int64
	t := time.Unix(w.w0, 0).In(loc)
	for {
		n := e.Next(t)
		if n.IsZero() {
			return out, true
		}
		out = append(out, n.Unix())
		if len(out) > w.maxList {
			return nil, false
		}
		if n.Unix() > w.w1 {
			return out, true
		}
		if !n.After(t) {
			return nil, false
		}
		t = n
	}
}

// describe builds the oracle view of a JobConfig version and emits its `cron.jc` line.
func (w *cronWorld) describe(jc *execution.JobConfig, tz tzChoice) *jcVersion {
	w.nextVer++
	v := &jcVersion{id: w.nextVer, obj: jc, key: jc.Namespace + "/" + jc.Name}
	s := jc.Spec.Schedule
	b, _ := json.Marshal(s)
	if id, ok := w.specIDs[string(b)]; ok {
		v.specID = id
	} else {
		v.specID = len(w.specIDs) + 1
		w.specIDs[string(b)] = v.specID
	}
	sec := func(t *metav1.Time) *int64 {
		if t.IsZero() {
			return nil
		}
		x := t.Unix()
		return &x
	}
	v.ls = sec(jc.Status.LastScheduled)
	if s != nil {
		v.lu = sec(s.LastUpdated)
		if s.Constraints != nil {
			v.nbf = sec(s.Constraints.NotBefore)
			v.naf = sec(s.Constraints.NotAfter)
		}
	}
	v.enabled = s != nil && !s.Disabled && s.Cron != nil
	if v.enabled {
		var lines []string
		if s.Cron.Expression != "" {
			lines = []string{s.Cron.Expression}
		} else {
			lines = s.Cron.Expressions
		}
		for _, l := range lines {
			e, err := oracleParse(w.cfg, l, v.key)
			if err != nil {
				v.parseErr = true
				break
			}
			v.exprs = append(v.exprs, e)
		}
		v.loc = w.effectiveTZ(s.Cron, tz)
		if v.loc == nil {
			v.parseErr = true
		}
		if !v.parseErr {
			for _, e := range v.exprs {
				l, ok := w.matchList(e, v.loc)
				if !ok {
					w.tooDense = true
					l = nil
				}
				v.lists = append(v.lists, l)
			}
			// sample the library contract on this window: Next(s) = first listed match > floor(s)
			for k := 0; k < 6 && !w.tooDense; k++ {
				for i, e := range v.exprs {
					s := w.w0 + w.rng.Int63n(w.w1-w.w0+1)
					got := e.Next(time.Unix(s, int64(w.rng.Intn(2))*999999999).In(v.loc))
					var want int64
					for _, m := range v.lists[i] {
						if m > s {
							want = m
							break
						}
					}
					if (got.IsZero() && want != 0) || (!got.IsZero() && got.Unix() != want) {
						v.brokenLib = true
					}
				}
			}
		}
	}
	var ls []string
	for _, l := range v.lists {
		if len(l) == 0 {
			ls = append(ls, "-")
			continue
		}
		var sb strings.Builder
		for i, m := range l {
			if i > 0 {
				sb.WriteByte(',')
			}
			fmt.Fprint(&sb, m)
		}
		ls = append(ls, sb.String())
	}
	lists := "-"
	if len(ls) > 0 {
		lists = strings.Join(ls, "|")
	} else if v.enabled && !v.parseErr {
		lists = "none" // enabled with zero expressions
	}
	w.c.Emit(fmt.Sprintf("cron.jc %d %s %s %s %s %s %s %s %d %s %s", v.id, Q(v.key), B(v.enabled), B(v.parseErr), lists,
		OptI(v.nbf), OptI(v.naf), OptI(v.lu), v.specID, OptI(v.ls), Q(string(jc.UID))), "ok")
	return v
}

func mt(sec int64) *metav1.Time { t := metav1.NewTime(time.Unix(sec, 0)); return &t }

// genJC generates a JobConfig around reference time `now` (seconds).
func (w *cronWorld) genJC(nsname string, now int64) (*execution.JobConfig, tzChoice) {
	rng := w.rng
	ns, name := "ns", nsname
	if i := strings.Index(nsname, "/"); i >= 0 {
		ns, name = nsname[:i], nsname[i+1:]
	}
	// every created object gets a fresh UID, as the API server would give it (a recreation
	// under the same name is another object); the callers override it for the UID-less and
	// same-UID corners
	w.uidSeq++
	jc := &execution.JobConfig{ObjectMeta: metav1.ObjectMeta{Namespace: ns, Name: name, UID: types.UID(fmt.Sprintf("uid-%s-%d", name2uid(nsname), w.uidSeq))}}
	span := []int64{120, 7200, 20 * 86400}[w.scale]
	near := func() int64 {
		switch rng.Intn(6) {
		case 0:
			return now
		case 1:
			return now + 1
		case 2:
			return now - 1
		default:
			return now - span/2 + rng.Int63n(span)
		}
	}
	var tz tzChoice
	if rng.Intn(10) > 0 {
		s := &execution.ScheduleSpec{}
		if rng.Intn(10) > 0 {
			s.Cron = &execution.CronSchedule{}
			tz = genTZ(rng)
			s.Cron.Timezone = tz.s
			switch rng.Intn(4) {
			case 0:
				n := 1 + rng.Intn(3)
				for i := 0; i < n; i++ {
					s.Cron.Expressions = append(s.Cron.Expressions, genCronLine(rng, w.scale))
				}
			case 1:
				s.Cron.Expression = genCronLine(rng, w.scale)
				if rng.Intn(3) == 0 {
					s.Cron.Expressions = []string{genCronLine(rng, w.scale)} // ignored: Expression wins
				}
			default:
				s.Cron.Expression = genCronLine(rng, w.scale)
			}
		}
		s.Disabled = rng.Intn(8) == 0
		if rng.Intn(3) == 0 {
			s.Constraints = &execution.ScheduleContraints{}
			if rng.Intn(2) == 0 {
				s.Constraints.NotBefore = mt(near())
			}
			if rng.Intn(2) == 0 {
				s.Constraints.NotAfter = mt(near() + span/4)
			}
		}
		if rng.Intn(3) == 0 {
			s.LastUpdated = mt(near())
		}
		jc.Spec.Schedule = s
	}
	if rng.Intn(2) == 0 {
		ls := near() - rng.Int63n(span/2+1)
		if rng.Intn(6) == 0 {
			ls = now - w.cfg.MaxDowntimeThresholdSeconds + int64(rng.Intn(3)-1)
		}
		if ls > 0 {
			jc.Status.LastScheduled = mt(ls)
		}
	}
	return jc, tz
}

func name2uid(n string) string { return strings.ReplaceAll(n, "/", "-") }

// firedStr prints the requests of one tick in canonical order (time, then key): the order in
// which different keys due in the same tick are served is the heap's tie order, which the
// property leaves unspecified (the monitors judge per-key order on the raw stream).
func firedStr(f []fired) string {
	if len(f) == 0 {
		return "-"
	}
	f = append([]fired(nil), f...)
	sort.SliceStable(f, func(a, b int) bool {
		if f[a].ts != f[b].ts {
			return f[a].ts < f[b].ts
		}
		return Q(f[a].key) < Q(f[b].key)
	})
	var sb strings.Builder
	for i, x := range f {
		if i > 0 {
			sb.WriteByte(' ')
		}
		fmt.Fprintf(&sb, "%s@%d", Q(x.key), x.ts)
	}
	return sb.String()
}

// specNext: least match of the version strictly after second s (or >= nbf), within notAfter; 0 = none.
// This is the property's own sentence evaluated on the oracle match lists (independent of the
// Lean model and of the in-repo scheduling code).
func specNext(v *jcVersion, s int64) int64 {
	if v.nbf != nil && s < *v.nbf-1 {
		s = *v.nbf - 1
	}
	var best int64
	for _, l := range v.lists {
		j := sort.Search(len(l), func(x int) bool { return l[x] > s })
		if j < len(l) && (best == 0 || l[j] < best) {
			best = l[j]
		}
	}
	if best != 0 && v.naf != nil && best > *v.naf {
		return 0
	}
	return best
}

// specInitial: the first time to request after a start at now0 (ns), per C04's sentence.
func specInitial(v *jcVersion, now0, downtimeSec int64) int64 {
	x := now0
	if v.ls != nil {
		x = *v.ls * 1e9
		if now0-x > downtimeSec*1e9 {
			x = now0 - downtimeSec*1e9
		}
	}
	if v.lu != nil && *v.lu*1e9 > x {
		x = *v.lu * 1e9
	}
	// least whole second m with m*1e9 > x  <=>  m > floor(x/1e9)
	fl := x / 1e9
	if x < 0 && x%1e9 != 0 {
		fl--
	}
	return specNext(v, fl)
}

func runCron(c *Ctx) {
	runCronScenarios(c)
	c.ForCases(func(i int, rng *rand.Rand) { cronCase(c, rng) })
}

func cronCase(c *Ctx, rng *rand.Rand) {
	w := &cronWorld{c: c, rng: rng, specIDs: map[string]int{}, maxList: 6000}
	w.scale = rng.Intn(3)
	maxJC, maxSteps := 6, 25
	if c.Tier == "thorough" {
		maxJC, maxSteps = 30, 150
	}

	// dynamic config
	ctx := sim.NewContext()
	raw := &configv1alpha1.CronExecutionConfig{}
	if rng.Intn(3) == 0 {
		raw.CronFormat = []string{"standard", "quartz", ""}[rng.Intn(3)]
	}
	pb := func() *bool {
		if rng.Intn(2) == 0 {
			return nil
		}
		b := rng.Intn(2) == 0
		return &b
	}
	raw.CronHashNames, raw.CronHashSecondsByDefault, raw.CronHashFields = pb(), pb(), pb()
	if rng.Intn(3) == 0 {
		z := []string{"Asia/Singapore", "America/New_York", "UTC", "Europe/London", ""}[rng.Intn(5)]
		raw.DefaultTimezone = &z
	}
	if rng.Intn(2) == 0 {
		m := []int64{0, 1, 2, 3, 5, 100}[rng.Intn(6)]
		raw.MaxMissedSchedules = &m
	}
	if rng.Intn(2) == 0 {
		raw.MaxDowntimeThresholdSeconds = []int64{-1, 1, 5, 60, 300, 3600, 86400 * 3}[rng.Intn(7)]
		if w.scale == 0 && raw.MaxDowntimeThresholdSeconds > 300 {
			raw.MaxDowntimeThresholdSeconds = 30
		}
	}
	ctx.MockConfigs().SetConfigs(map[configv1alpha1.ConfigName]runtime.Object{configv1alpha1.CronExecutionConfigName: raw})
	merged, err := ctx.Configs().Cron()
	if err != nil {
		c.Count("cron.cfg-error")
		return
	}
	w.cfg = merged
	dEff := merged.MaxDowntimeThresholdSeconds
	if dEff <= 0 {
		dEff = 300
	}
	maxMissed := int64(5)
	if merged.MaxMissedSchedules != nil {
		maxMissed = *merged.MaxMissedSchedules
	}
	_ = maxMissed

	// timeline
	base := time.Date(2021+rng.Intn(9), time.Month(1+rng.Intn(12)), 1+rng.Intn(28), rng.Intn(24), rng.Intn(60), rng.Intn(60), 0, time.UTC).Unix()
	if rng.Intn(4) == 0 { // land near an hour/day boundary
		base = base - base%3600 - int64(rng.Intn(5))
	}
	nsteps := 3 + rng.Intn(maxSteps)
	stepUnit := []int64{1, 45, 7200}[w.scale]
	type step struct {
		kind string
		at   int64 // ns
	}
	nowNs := base*1e9 + int64(rng.Intn(2))*int64(rng.Intn(1e9))
	now0 := nowNs
	var times []int64
	t := nowNs
	for k := 0; k < nsteps; k++ {
		switch rng.Intn(10) {
		case 0:
			t += (1 + rng.Int63n(200)) * stepUnit * 1e9 // stall
		case 1:
			t += rng.Int63n(1e9) // sub-second
		case 2:
			// same instant
		default:
			t += stepUnit*1e9 + rng.Int63n(2e8) - 1e8
		}
		times = append(times, t)
	}
	w.w0 = now0/1e9 - dEff - 2
	w.w1 = t/1e9 + 2
	span := []int64{120, 7200, 20 * 86400}[w.scale]
	if w.w0 > now0/1e9-span {
		w.w0 = now0/1e9 - span
	}
	if w.w1 < now0/1e9+span {
		w.w1 = now0/1e9 + span // lastScheduled / lastUpdated / notBefore in the future
	}

	c.Emit(fmt.Sprintf("cron.reset %d %s", merged.MaxDowntimeThresholdSeconds, OptI(merged.MaxMissedSchedules)), "ok")

	// population
	nJC := 1 + rng.Intn(maxJC)
	cur := map[string]*jcVersion{}
	curTZ := map[string]tzChoice{}
	var initIDs []string
	jcInf := ctx.Sim().JobConfigs()
	for k := 0; k < nJC; k++ {
		name := fmt.Sprintf("jc%02d", k)
		if rng.Intn(6) == 0 {
			name = fmt.Sprintf("jc.%d", k) // dots in names
		}
		if k > 0 && rng.Intn(4) == 0 {
			// the same name in another namespace
			name = fmt.Sprintf("ns2/jc%02d", rng.Intn(k))
			if _, dup := cur[name]; dup {
				name = fmt.Sprintf("ns2/jc.%d", k)
			}
		}
		jc, tz := w.genJC(name, now0/1e9)
		if rng.Intn(12) == 0 {
			jc.UID = "" // an object without UID (never from a real API server; the code compares UIDs)
			c.Count("cron.jc.uidless")
		}
		v := w.describe(jc, tz)
		cur[v.key] = v
		curTZ[v.key] = tz
		jcInf.CacheSet(jc)
	}
	if w.tooDense {
		c.Count("cron.case-too-dense")
		c.Emit("cron.abort", "ok")
		return
	}
	keys := SortedKeys(cur)
	for _, k := range keys {
		initIDs = append(initIDs, fmt.Sprint(cur[k].id))
	}

	clk := fakeclock.NewFakeClock(time.Unix(0, now0))
	croncontroller.Clock = clk
	cctx := croncontroller.NewContext(ctx)
	h := &captureHandler{}
	worker := croncontroller.NewCronWorker(cctx, h)
	infw := croncontroller.NewInformerWorker(cctx, croncontroller.NewUpdateHandler(cctx))
	// The informer notifies the cron handler of every JobConfig that exists at boot with an add
	// event (FakeInformer.ReplayOnRegister); when the handler gets to run each of them is the
	// adversary's choice, per JobConfig: before CronWorker.Init, between Init and the first tick,
	// or after some ticks (slot i+2 = after the i-th tick; beyond the last tick = never).
	jcInf.ReplayOnRegister = true
	infw.Init()
	pendingInit := map[string]*jcVersion{}
	initSlot := map[string]int{}
	allAfterInit := rng.Intn(4) == 0 // the typical production order, for the whole population
	for _, k := range keys {
		pendingInit[k] = cur[k]
		switch r := rng.Intn(8); {
		case allAfterInit || r < 3:
			initSlot[k] = 1
		case r < 5:
			initSlot[k] = 0
		default:
			initSlot[k] = 2 + rng.Intn(nsteps+1)
		}
	}
	deliverInitial := func(k, where string) {
		v := pendingInit[k]
		if v == nil {
			return
		}
		delete(pendingInit, k)
		if !jcInf.NotifyNextFor(0, k) {
			panic("cron engine: no pending initial add for " + k)
		}
		c.Emit(fmt.Sprintf("cron.initial-add %d", v.id), "ok")
		c.Count("cron.initial-add")
		c.Count("cron.initial-add." + where)
	}
	deliverSlot := func(slot int, where string) {
		for _, k := range keys {
			if pendingInit[k] != nil && initSlot[k] == slot {
				deliverInitial(k, where)
			}
		}
	}
	deliverSlot(0, "before-init")
	initErr := worker.Init()
	anyBroken := false
	for _, v := range cur {
		anyBroken = anyBroken || v.brokenLib
	}
	c.Emit(fmt.Sprintf("cron.init %d %s", now0, strings.Join(initIDs, ",")), map[bool]string{true: "ok", false: "err"}[initErr == nil])
	deliverSlot(1, "after-init")
	if initErr != nil {
		c.Count("cron.init-error")
	} else {
		c.Count("cron.init-ok")
	}

	// monitor state: per key, last fired time (for exactly-once / order)
	initVer := map[string]*jcVersion{}
	expEntry := map[string]int64{} // spec-level expectation of the next time to request (0 = none)
	for k, v := range cur {
		initVer[k] = v
		if initErr == nil && v.enabled && !v.parseErr && !v.brokenLib {
			expEntry[k] = specInitial(v, now0, dEff)
		}
	}
	lastFired := map[string]int64{}
	changedAt := map[string]int64{} // ns of the last schedule change of the key
	flushTick := map[string]int64{} // ns of the first tick after the last change (0 = none yet)
	firedAfter := map[string][]int64{}
	capHit := map[string]bool{}
	firedTotal := 0
	lastObj := map[string]*execution.JobConfig{} // the deleted incarnation of a key
	noteChange := func(k string, at int64) {
		changedAt[k] = at
		flushTick[k] = 0
		firedAfter[k] = nil
		capHit[k] = false
	}

	for ti, at := range times {
		// events before the tick
		for rng.Intn(4) == 0 {
			k := keys[rng.Intn(len(keys))]
			old := cur[k]
			// the handler runs its notifications of one object in order: the add for the object
			// that existed at boot comes before any later event of that object
			deliverInitial(k, "forced-by-event")
			switch r := rng.Intn(10); {
			case r < 5 && old != nil: // update spec (new schedule) or status only
				nj := old.obj.DeepCopy()
				tz := curTZ[k]
				if rng.Intn(3) == 0 {
					// status-only update
					nj.Status.LastScheduled = mt(at / 1e9)
					c.Count("cron.ev.update-status")
				} else {
					g, tz2 := w.genJC(nj.Namespace+"/"+nj.Name, at/1e9)
					switch rng.Intn(4) {
					case 0: // toggle disabled
						if nj.Spec.Schedule != nil {
							s := *nj.Spec.Schedule
							s.Disabled = !s.Disabled
							nj.Spec.Schedule = &s
						} else {
							nj.Spec.Schedule = g.Spec.Schedule
							tz = tz2
						}
						c.Count("cron.ev.toggle")
					default:
						nj.Spec.Schedule = g.Spec.Schedule
						tz = tz2
						c.Count("cron.ev.update-spec")
					}
				}
				v := w.describe(nj, tz)
				if v.specID != old.specID {
					noteChange(k, at)
				}
				cur[k], curTZ[k] = v, tz
				jcInf.Apply("update", nj)
				c.Emit(fmt.Sprintf("cron.update %d %d", old.id, v.id), "ok")
			case r < 7 && old != nil: // delete
				jcInf.Apply("delete", old.obj)
				c.Emit(fmt.Sprintf("cron.delete %d", old.id), "ok")
				lastObj[k] = old.obj
				cur[k] = nil
				noteChange(k, at)
				c.Count("cron.ev.delete")
			case old == nil: // (re)create
				name := strings.TrimPrefix(k, "ns/")
				jc, tz := w.genJC(name, at/1e9)
				if prev := lastObj[k]; prev != nil && (prev.UID == "" || rng.Intn(8) == 0) {
					// corner: the recreated object carries the UID of the deleted one (UID-less
					// objects always do)
					jc.UID = prev.UID
					c.Count("cron.ev.add.same-uid")
				}
				v := w.describe(jc, tz)
				cur[k], curTZ[k] = v, tz
				noteChange(k, at)
				jcInf.Apply("add", jc)
				c.Emit(fmt.Sprintf("cron.add %d", v.id), "ok")
				c.Count("cron.ev.add")
			}
			if w.tooDense {
				c.Count("cron.case-too-dense")
				c.Emit("cron.abort", "ok")
				return
			}
		}
		clk.SetTime(time.Unix(0, at))
		h.got = nil
		out := Guard(func() string { worker.Work(); return firedStr(h.got) })
		c.Emit(fmt.Sprintf("cron.tick %d", at), out)
		c.Count("cron.tick")
		if len(h.got) > 0 {
			c.Count("cron.tick.fired")
		}
		firedTotal += len(h.got)
		for k := range changedAt {
			if flushTick[k] == 0 {
				flushTick[k] = at
			}
		}
		if out != "panic" && initErr == nil {
			gotBy := map[string][]int64{}
			for _, f := range h.got {
				gotBy[f.key] = append(gotBy[f.key], f.ts)
			}
			for k, e := range expEntry {
				if _, changed := changedAt[k]; changed {
					delete(expEntry, k)
					continue
				}
				v := initVer[k]
				var want []int64
				capN := maxMissed
				if capN < 0 {
					capN = 0
				}
				for e != 0 && e <= at/1e9 && int64(len(want)) < capN {
					want = append(want, e)
					e = specNext(v, e)
				}
				if e != 0 && e <= at/1e9 {
					e = specNext(v, at/1e9) // fell behind by more than the limit: resume from the present
				}
				expEntry[k] = e
				if fmt.Sprint(want) != fmt.Sprint(gotBy[k]) {
					c.Violate("C01", "requests-exact", "%s at tick %d: requested %v, the schedule implies %v (cap %d)", k, at, gotBy[k], want, maxMissed)
					delete(expEntry, k)
				}
			}
		}
		perKey := map[string]int64{}
		for _, f := range h.got {
			perKey[f.key]++
			// --- monitors (C01/C03/C04 safety clauses judged on the implementation) ---
			if f.ts*1e9 > at {
				c.Violate("C01", "never-early", "%s fired for %d at clock %d ns", f.key, f.ts, at)
			}
			if lf, ok := lastFired[f.key]; ok && f.ts <= lf && changedAt[f.key] == 0 {
				c.Violate("C01", "exactly-once-in-order", "%s fired %d after %d", f.key, f.ts, lf)
			}
			lastFired[f.key] = f.ts
			if perKey[f.key] > maxMissed && maxMissed >= 0 {
				c.Violate("C01", "cap", "%s fired %d times in one tick, cap %d", f.key, perKey[f.key], maxMissed)
			}
			if perKey[f.key] >= maxMissed {
				capHit[f.key] = true
			}
			v := cur[f.key]
			// --- C03: after a change the key follows its current API state only ---
			if ca, changed := changedAt[f.key]; changed && out != "panic" {
				switch {
				case v == nil:
					c.Violate("C03", "deleted-stops", "%s fired %d after it was deleted at %d", f.key, f.ts, ca)
				case !v.enabled:
					c.Violate("C03", "disabled-stops", "%s fired %d although its schedule is disabled/absent since %d", f.key, f.ts, ca)
				case v.parseErr || v.brokenLib:
				default:
					firedAfter[f.key] = append(firedAfter[f.key], f.ts)
					if f.ts*1e9 <= ca {
						c.Violate("C03", "no-backdating", "%s fired %d which is not after the change at %d ns", f.key, f.ts, ca)
					}
					on := false
					for _, l := range v.lists {
						j := sort.Search(len(l), func(x int) bool { return l[x] >= f.ts })
						if j < len(l) && l[j] == f.ts {
							on = true
						}
					}
					if !on {
						c.Violate("C03", "new-schedule-only", "%s fired %d which matches none of its current expressions", f.key, f.ts)
					}
					if v.naf != nil && f.ts > *v.naf {
						c.Violate("C03", "window-after-change", "%s fired %d after notAfter %d", f.key, f.ts, *v.naf)
					}
					if v.nbf != nil && f.ts < *v.nbf {
						c.Violate("C03", "window-after-change", "%s fired %d before notBefore %d", f.key, f.ts, *v.nbf)
					}
				}
			}
			if v == nil || v.brokenLib {
				continue
			}
			if _, changed := changedAt[f.key]; !changed && v.enabled && !v.parseErr {
				on := false
				for _, l := range v.lists {
					j := sort.Search(len(l), func(x int) bool { return l[x] >= f.ts })
					if j < len(l) && l[j] == f.ts {
						on = true
					}
				}
				if !on {
					c.Violate("C01", "on-schedule", "%s fired %d which matches none of its expressions", f.key, f.ts)
				}
				if v.naf != nil && f.ts > *v.naf {
					c.Violate("C01", "not-after", "%s fired %d after notAfter %d", f.key, f.ts, *v.naf)
				}
				if v.nbf != nil && f.ts < *v.nbf {
					c.Violate("C01", "not-before", "%s fired %d before notBefore %d", f.key, f.ts, *v.nbf)
				}
				iv := initVer[f.key]
				if iv != nil && iv.ls != nil && f.ts <= *iv.ls && *iv.ls*1e9 <= now0 {
					c.Violate("C04", "never-rerequest", "%s fired %d <= lastScheduled %d", f.key, f.ts, *iv.ls)
				}
				if iv != nil && iv.ls == nil && f.ts*1e9 <= now0 {
					c.Violate("C04", "no-backfill", "%s never scheduled but fired %d <= start %d", f.key, f.ts, now0)
				}
				if iv != nil && iv.ls != nil && f.ts*1e9 <= now0-dEff*1e9 {
					c.Violate("C04", "downtime-bound", "%s fired %d at or before start-downtime %d", f.key, f.ts, now0-dEff*1e9)
				}
				if iv != nil && iv.lu != nil && f.ts <= *iv.lu {
					c.Violate("C04", "last-updated-bound", "%s fired %d <= lastUpdated %d", f.key, f.ts, *iv.lu)
				}
			}
		}
		deliverSlot(ti+2, "after-ticks")
	}
	c.Stats["cron.initial-add.never"] += int64(len(pendingInit))
	// C03 liveness: a key created / enabled / re-scheduled at run time fires the first match
	// after the tick that followed the change (when the run lasted long enough and cap >= 1).
	if initErr == nil && len(times) > 0 && maxMissed >= 1 {
		last := times[len(times)-1] / 1e9
		for k, ft := range flushTick {
			v := cur[k]
			if ft == 0 || v == nil || !v.enabled || v.parseErr || v.brokenLib {
				continue
			}
			var first int64
			for _, l := range v.lists {
				for _, m := range l {
					if m > ft/1e9 && (v.nbf == nil || m >= *v.nbf) {
						if first == 0 || m < first {
							first = m
						}
						break
					}
				}
			}
			if first == 0 || first > last || (v.naf != nil && first > *v.naf) {
				continue
			}
			found := false
			for _, t := range firedAfter[k] {
				if t == first {
					found = true
				}
			}
			if !found {
				c.Violate("C03", "change-takes-effect", "%s (changed at %d ns, next tick %d ns) never fired its first due match %d although ticks ran until %d", k, changedAt[k], ft, first, last)
			}
		}
	}
	if firedTotal > 0 && !anyBroken {
		c.Nontrivial()
	}
	if anyBroken {
		c.Count("cron.case-library-contract-broken")
	}
}
