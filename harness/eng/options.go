package eng

// Engine "options" (property C18): pkg/core/options (evaluators, defaults, validation,
// substitution), variablecontext, podtaskexecutor.SubstitutePodSpec/NewPod and the merge order
// of mutation.MutateCreateJob, all driven in-process on the real code.
//
// Files: options.go (wire format, option/value generators, evaluation cases and monitors),
// options_subst.go (substitution, pod and admission cases and monitors, corpus scenarios).
//
// Wire format (tokens separated by one space, strings through Q):
//   OPT    := O <type> <name> <label> <req01> (b-|b+ <def01> <format> <true> <false>)
//             (s-|s+ <default> <trim01>) (e-|e+ <default> <allow01> <n> v*)
//             (m-|m+ <delim> <allow01> <nd> d* <nv> v*) (d-|d+ <format>)
//   VAL    := nil | b0 | b1 | s <str> | l <n> (s <str>|x)* | ss <n> str* | t TIME | tp- | tp TIME | x
//   TIME   := z | t <tag>
//   ORACLE := P <n> (<str> (e|z|t <tag>))* F <m> (<tag> <format> <out>)*
//             (time.Parse(RFC3339) results and goment renderings the Date evaluator needs)
//   SPEC   := - | <n> OPT*
//   MAP    := <n> (<key> <value>)*      (entries sorted by key)

import (
	"fmt"
	"math/rand"
	"regexp"
	"sort"
	"strings"
	"time"

	"github.com/nleeper/goment"
	"k8s.io/apimachinery/pkg/util/validation/field"

	execution "github.com/furiko-io/furiko/apis/execution/v1alpha1"
	"github.com/furiko-io/furiko/pkg/core/options"
)

func init() { Register("options", runOptions) }

const optReps = 30 // repetitions of every call that ranges over a Go map

// ---------------------------------------------------------------- wire format

func optTok(o execution.Option) string {
	var b strings.Builder
	fmt.Fprintf(&b, "O %s %s %s %s", Q(string(o.Type)), Q(o.Name), Q(o.Label), B(o.Required))
	if c := o.Bool; c != nil {
		fmt.Fprintf(&b, " b+ %s %s %s %s", B(c.Default), Q(string(c.Format)), Q(c.TrueVal), Q(c.FalseVal))
	} else {
		b.WriteString(" b-")
	}
	if c := o.String; c != nil {
		fmt.Fprintf(&b, " s+ %s %s", Q(c.Default), B(c.TrimSpaces))
	} else {
		b.WriteString(" s-")
	}
	if c := o.Select; c != nil {
		fmt.Fprintf(&b, " e+ %s %s %s", Q(c.Default), B(c.AllowCustom), strsTok(c.Values))
	} else {
		b.WriteString(" e-")
	}
	if c := o.Multi; c != nil {
		fmt.Fprintf(&b, " m+ %s %s %s %s", Q(c.Delimiter), B(c.AllowCustom), strsTok(c.Default), strsTok(c.Values))
	} else {
		b.WriteString(" m-")
	}
	if c := o.Date; c != nil {
		fmt.Fprintf(&b, " d+ %s", Q(c.Format))
	} else {
		b.WriteString(" d-")
	}
	return b.String()
}

func strsTok(xs []string) string {
	var b strings.Builder
	fmt.Fprint(&b, len(xs))
	for _, x := range xs {
		b.WriteString(" " + Q(x))
	}
	return b.String()
}

func timeTag(t time.Time) string {
	return t.Format(time.RFC3339Nano) + "|" + t.Location().String()
}

func timeTok(t time.Time) string {
	if t.IsZero() {
		return "z"
	}
	return "t " + Q(timeTag(t))
}

func valTok(v interface{}) string {
	switch x := v.(type) {
	case nil:
		return "nil"
	case bool:
		return "b" + B(x)
	case string:
		return "s " + Q(x)
	case []interface{}:
		var b strings.Builder
		fmt.Fprintf(&b, "l %d", len(x))
		for _, e := range x {
			if s, ok := e.(string); ok {
				b.WriteString(" s " + Q(s))
			} else {
				b.WriteString(" x")
			}
		}
		return b.String()
	case []string:
		return "ss " + strsTok(x)
	case time.Time:
		return "t " + timeTok(x)
	case *time.Time:
		if x == nil {
			return "tp-"
		}
		return "tp " + timeTok(*x)
	}
	return "x"
}

func specTok(spec *execution.OptionSpec) string {
	if spec == nil {
		return "-"
	}
	var b strings.Builder
	fmt.Fprint(&b, len(spec.Options))
	for _, o := range spec.Options {
		b.WriteString(" " + optTok(o))
	}
	return b.String()
}

func mapTok(m map[string]string) string {
	var b strings.Builder
	fmt.Fprint(&b, len(m))
	for _, k := range SortedKeys(m) {
		b.WriteString(" " + Q(k) + " " + Q(m[k]))
	}
	return b.String()
}

func valuesTok(vals map[string]interface{}) string {
	var b strings.Builder
	fmt.Fprint(&b, len(vals))
	for _, k := range SortedKeys(vals) {
		b.WriteString(" " + Q(k) + " " + valTok(vals[k]))
	}
	return b.String()
}

// momentFormat is the date-format oracle: the goment library called directly (this is what
// options.FormatAsMoment wraps).  ok=false if the library fails or panics.
func momentFormat(t time.Time, format string) (out string, ok bool) {
	defer func() {
		if r := recover(); r != nil {
			ok = false
		}
	}()
	g, err := goment.New(t)
	if err != nil {
		return "", false
	}
	if format == "" {
		return g.Format(), true
	}
	return g.Format(format), true
}

// dateOracle collects the parse and format results the Date evaluator needs for the pairs.
type dateOracle struct {
	parses  map[string]string    // string -> "e" | "z" | "t <tag>"
	formats map[[2]string]string // (tag, format) -> rendering
	broken  bool
}

func newDateOracle() *dateOracle {
	return &dateOracle{parses: map[string]string{}, formats: map[[2]string]string{}}
}

func (d *dateOracle) addTime(t time.Time, format string) {
	if t.IsZero() {
		return
	}
	out, ok := momentFormat(t, format)
	if !ok {
		d.broken = true
		return
	}
	d.formats[[2]string{timeTag(t), format}] = out
}

func (d *dateOracle) add(o execution.Option, v interface{}) {
	if o.Type != execution.OptionTypeDate {
		return
	}
	format := ""
	if o.Date != nil {
		format = o.Date.Format
	}
	switch x := v.(type) {
	case string:
		if x == "" {
			return
		}
		t, err := time.Parse(time.RFC3339, x)
		switch {
		case err != nil:
			d.parses[x] = "e"
		case t.IsZero():
			d.parses[x] = "z"
		default:
			d.parses[x] = "t " + Q(timeTag(t))
			d.addTime(t, format)
		}
	case time.Time:
		d.addTime(x, format)
	case *time.Time:
		if x != nil {
			d.addTime(*x, format)
		}
	}
}

func (d *dateOracle) tok() string {
	var b strings.Builder
	fmt.Fprintf(&b, "P %d", len(d.parses))
	for _, k := range SortedKeys(d.parses) {
		b.WriteString(" " + Q(k) + " " + d.parses[k])
	}
	keys := make([][2]string, 0, len(d.formats))
	for k := range d.formats {
		keys = append(keys, k)
	}
	sort.Slice(keys, func(i, j int) bool {
		if keys[i][0] != keys[j][0] {
			return keys[i][0] < keys[j][0]
		}
		return keys[i][1] < keys[j][1]
	})
	fmt.Fprintf(&b, " F %d", len(keys))
	for _, k := range keys {
		b.WriteString(" " + Q(k[0]) + " " + Q(k[1]) + " " + Q(d.formats[k]))
	}
	return b.String()
}

func optErrKind(e *field.Error) string {
	switch e.Type {
	case field.ErrorTypeRequired:
		return "required"
	case field.ErrorTypeNotSupported:
		return "unsupported"
	case field.ErrorTypeInvalid:
		return "invalid"
	}
	return "err"
}

// ---------------------------------------------------------------- harness-owned specification

var optNameRe = regexp.MustCompile(`^[a-zA-Z_0-9.-]+$`)

var boolFormatTable = map[string][2]string{ // format -> {true, false}
	"TrueFalse": {"true", "false"}, "OneZero": {"1", "0"}, "YesNo": {"yes", "no"},
}

func optContains(xs []string, x string) bool {
	for _, y := range xs {
		if y == x {
			return true
		}
	}
	return false
}

// wellFormed: an option a JobConfig may carry, written from the API documentation of
// jobconfig_types.go (independent of options.ValidateOption).
func wellFormed(o execution.Option) bool {
	if !optNameRe.MatchString(o.Name) {
		return false
	}
	n := 0
	for _, set := range []bool{o.Bool != nil, o.String != nil, o.Select != nil, o.Multi != nil, o.Date != nil} {
		if set {
			n++
		}
	}
	switch o.Type {
	case execution.OptionTypeBool:
		if o.Bool == nil || n != 1 || o.Required {
			return false
		}
		_, ok := boolFormatTable[string(o.Bool.Format)]
		return ok || o.Bool.Format == "Custom"
	case execution.OptionTypeString:
		return n == 0 || (n == 1 && o.String != nil)
	case execution.OptionTypeDate:
		return n == 0 || (n == 1 && o.Date != nil)
	case execution.OptionTypeSelect:
		if o.Select == nil || n != 1 || len(o.Select.Values) == 0 || optContains(o.Select.Values, "") {
			return false
		}
		return o.Select.Default == "" || optContains(o.Select.Values, o.Select.Default)
	case execution.OptionTypeMulti:
		if o.Multi == nil || n != 1 || len(o.Multi.Values) == 0 || optContains(o.Multi.Values, "") {
			return false
		}
		for _, d := range o.Multi.Default {
			if d == "" || !optContains(o.Multi.Values, d) {
				return false
			}
		}
		return true
	}
	return false
}

func specBoolFmt(c *execution.BoolOptionConfig, b bool) string {
	if c.Format == "Custom" {
		if b {
			return c.TrueVal
		}
		return c.FalseVal
	}
	r := boolFormatTable[string(c.Format)]
	if b {
		return r[0]
	}
	return r[1]
}

// specDefault: the rendering of the declared default of a well-formed option.
func specDefault(o execution.Option) string {
	switch o.Type {
	case execution.OptionTypeBool:
		return specBoolFmt(o.Bool, o.Bool.Default)
	case execution.OptionTypeString:
		if o.String == nil {
			return ""
		}
		if o.String.TrimSpaces {
			return strings.TrimSpace(o.String.Default)
		}
		return o.String.Default
	case execution.OptionTypeSelect:
		return o.Select.Default
	case execution.OptionTypeMulti:
		return strings.Join(o.Multi.Default, o.Multi.Delimiter)
	}
	return ""
}

// specEval: what evaluation of value v must give for a well-formed option, as the property
// states it.  kind: ok | invalid (ill-typed / unparsable) | required | unsupported.
// absent reports that no value was given (nil, or an empty Multi list) so the default applies.
func specEval(o execution.Option, v interface{}) (kind, out string, absent bool) {
	req := func(s string) (string, string, bool) {
		if s == "" && o.Required {
			return "required", "", v == nil
		}
		return "ok", s, v == nil
	}
	switch o.Type {
	case execution.OptionTypeBool:
		switch x := v.(type) {
		case nil:
			return "ok", specDefault(o), true
		case bool:
			return "ok", specBoolFmt(o.Bool, x), false
		}
		return "invalid", "", false
	case execution.OptionTypeString:
		var s string
		switch x := v.(type) {
		case nil:
			s = specDefault(o)
		case string:
			s = x
			if o.String != nil && o.String.TrimSpaces {
				s = strings.TrimSpace(s)
			}
		default:
			return "invalid", "", false
		}
		return req(s)
	case execution.OptionTypeSelect:
		var s string
		switch x := v.(type) {
		case nil:
			s = o.Select.Default
		case string:
			s = x
		default:
			return "invalid", "", false
		}
		if s != "" && !o.Select.AllowCustom && !optContains(o.Select.Values, s) {
			return "unsupported", "", false
		}
		return req(s)
	case execution.OptionTypeMulti:
		var xs []string
		switch x := v.(type) {
		case nil:
		case []string:
			xs = x
		case []interface{}:
			for _, e := range x {
				s, ok := e.(string)
				if !ok {
					return "invalid", "", false
				}
				xs = append(xs, s)
			}
		default:
			return "invalid", "", false
		}
		absent = len(xs) == 0
		if absent {
			xs = o.Multi.Default
		}
		if len(xs) == 0 && o.Required {
			return "required", "", absent
		}
		for _, s := range xs {
			if !o.Multi.AllowCustom && !optContains(o.Multi.Values, s) {
				return "unsupported", "", absent
			}
			if s == "" {
				return "required", "", absent
			}
		}
		return "ok", strings.Join(xs, o.Multi.Delimiter), absent
	case execution.OptionTypeDate:
		var t time.Time
		switch x := v.(type) {
		case nil:
		case string:
			if x != "" {
				p, err := time.Parse(time.RFC3339, x)
				if err != nil {
					return "invalid", "", false
				}
				t = p
			}
		case time.Time:
			t = x
		case *time.Time:
			if x != nil {
				t = *x
			}
		default:
			return "invalid", "", false
		}
		if t.IsZero() {
			return req("")
		}
		format := ""
		if o.Date != nil {
			format = o.Date.Format
		}
		s, _ := momentFormat(t, format)
		return "ok", s, false
	}
	return "invalid", "", false
}

// ---------------------------------------------------------------- generators

var (
	optNamesGood = []string{"a", "b", "c", "opt-1", "x.y", "Z_9", "user", "image.tag", "n0", "-", "."}
	optNamesBad  = []string{"", "a b", "é", "a$b", "a/b", "${x}", "a\n"}
	optWordPool  = []string{"", "a", "b", "x", "foo", "bar", "v1", "1", "0", "true", "yes", "é", "日本", "a b", "a,b", "A",
		" ", "  ", " x ", "\tx\n", " x　", "\vz\f", "​x", "x\u0085", "$", "{", "}", "${", "${a}", "${option.a}",
		"${job.name}", "${task.x}", "$HOME", "%", "%-", "'q'", "\"", "a.b", "-"}
	momentFormats = []string{"", "YYYY-MM-DD", "YYYY-MM-DD HH:mm:ss", "X", "x", "dddd, MMMM Do YYYY", "[at] HH:mm Z", "YY/M/D h:m:s a",
		"${job.name}", "DDDD", "ZZ", "Q", "hh A", "é"}
	dateStrings = []string{"", "2021-02-09T04:06:09Z", "2021-02-09T04:06:09+08:00", "2021-02-09T04:06:09.123456789-07:30",
		"0001-01-01T00:00:00Z", "0001-01-01T00:00:00+00:00", "0001-01-01T08:00:00+08:00", "9999-12-31T23:59:59Z",
		"1970-01-01T00:00:00Z", "2024-02-29T12:00:00Z", "2021-02-30T00:00:00Z", "2021-02-09", "2021-02-09 04:06:09",
		"2021-02-09T04:06:09", "now", " 2021-02-09T04:06:09Z", "2021-02-09T04:06:09z", "${job.time}", "1612843569"}
	boolFormats = []execution.BoolOptionFormat{"TrueFalse", "OneZero", "YesNo", "Custom"}
)

func optPick(rng *rand.Rand, xs []string) string { return xs[rng.Intn(len(xs))] }

func optSomeWords(rng *rand.Rand, min, max int, nonEmpty bool) []string {
	n := min + rng.Intn(max-min+1)
	var out []string
	for len(out) < n {
		w := optPick(rng, optWordPool)
		if nonEmpty && w == "" {
			continue
		}
		out = append(out, w)
	}
	return out
}

// genGoodOption builds a well-formed option of a random type.
func genGoodOption(rng *rand.Rand, name string) execution.Option {
	o := execution.Option{Name: name, Label: optPick(rng, []string{"", "Label", "${x}"})}
	switch rng.Intn(5) {
	case 0:
		o.Type = execution.OptionTypeBool
		o.Bool = &execution.BoolOptionConfig{Default: rng.Intn(2) == 0, Format: boolFormats[rng.Intn(4)]}
		if o.Bool.Format == "Custom" || rng.Intn(4) == 0 {
			o.Bool.TrueVal = optPick(rng, optWordPool)
			o.Bool.FalseVal = optPick(rng, optWordPool)
		}
	case 1:
		o.Type = execution.OptionTypeString
		o.Required = rng.Intn(3) == 0
		if rng.Intn(5) > 0 {
			o.String = &execution.StringOptionConfig{TrimSpaces: rng.Intn(2) == 0}
			if rng.Intn(2) == 0 {
				o.String.Default = optPick(rng, optWordPool)
			}
		}
	case 2:
		o.Type = execution.OptionTypeSelect
		o.Required = rng.Intn(3) == 0
		o.Select = &execution.SelectOptionConfig{Values: optSomeWords(rng, 1, 4, true), AllowCustom: rng.Intn(3) == 0}
		if rng.Intn(2) == 0 {
			o.Select.Default = optPick(rng, o.Select.Values)
		}
	case 3:
		o.Type = execution.OptionTypeMulti
		o.Required = rng.Intn(3) == 0
		o.Multi = &execution.MultiOptionConfig{Values: optSomeWords(rng, 1, 4, true), AllowCustom: rng.Intn(3) == 0,
			Delimiter: optPick(rng, []string{",", "", " ", "::", "${d}", "\n"})}
		for k := rng.Intn(3); k > 0; k-- {
			o.Multi.Default = append(o.Multi.Default, optPick(rng, o.Multi.Values))
		}
	default:
		o.Type = execution.OptionTypeDate
		o.Required = rng.Intn(3) == 0
		if rng.Intn(5) > 0 {
			o.Date = &execution.DateOptionConfig{Format: optPick(rng, momentFormats)}
		}
	}
	return o
}

// genBadOption injects one defect into a well-formed option (or builds an arbitrary one).
func genBadOption(rng *rand.Rand, name string) execution.Option {
	o := genGoodOption(rng, name)
	switch rng.Intn(14) {
	case 0:
		o.Type = execution.OptionType(optPick(rng, []string{"", "bool", "Boolean", "Unknown", "string"}))
	case 1:
		o.Name = optPick(rng, optNamesBad)
	case 2: // foreign config
		switch rng.Intn(5) {
		case 0:
			o.Bool = &execution.BoolOptionConfig{Format: "TrueFalse"}
		case 1:
			o.String = &execution.StringOptionConfig{Default: optPick(rng, optWordPool)}
		case 2:
			o.Select = &execution.SelectOptionConfig{Values: []string{"a"}}
		case 3:
			o.Multi = &execution.MultiOptionConfig{Values: []string{"a"}}
		default:
			o.Date = &execution.DateOptionConfig{}
		}
	case 3:
		o.Bool, o.String, o.Select, o.Multi, o.Date = nil, nil, nil, nil, nil
	case 4:
		if o.Bool != nil {
			o.Bool.Format = execution.BoolOptionFormat(optPick(rng, []string{"", "truefalse", "Bad", "custom"}))
		}
	case 5:
		o.Required = true
	case 6:
		if o.Select != nil {
			o.Select.Values = nil
		}
		if o.Multi != nil {
			o.Multi.Values = nil
		}
	case 7:
		if o.Select != nil {
			o.Select.Default = optPick(rng, optWordPool)
		}
		if o.Multi != nil {
			o.Multi.Default = optSomeWords(rng, 1, 3, false)
		}
	case 8:
		if o.Select != nil {
			o.Select.Values = append(o.Select.Values, "")
			o.Select.Default = ""
		}
		if o.Multi != nil {
			o.Multi.Values = append(o.Multi.Values, "")
			o.Multi.Default = append(o.Multi.Default, "")
		}
	case 9:
		o.Type = execution.OptionTypesAll[rng.Intn(5)] // type and config no longer match
	default: // arbitrary configs
		if rng.Intn(2) == 0 {
			o.Bool = &execution.BoolOptionConfig{Default: rng.Intn(2) == 0, Format: execution.BoolOptionFormat(optPick(rng, []string{"", "TrueFalse", "Custom", "Zzz"})), TrueVal: optPick(rng, optWordPool)}
		}
		if rng.Intn(2) == 0 {
			o.Select = &execution.SelectOptionConfig{Default: optPick(rng, optWordPool), Values: optSomeWords(rng, 0, 3, false), AllowCustom: rng.Intn(2) == 0}
		}
		if rng.Intn(2) == 0 {
			o.Multi = &execution.MultiOptionConfig{Default: optSomeWords(rng, 0, 3, false), Values: optSomeWords(rng, 0, 3, false), AllowCustom: rng.Intn(2) == 0, Delimiter: optPick(rng, optWordPool)}
		}
	}
	return o
}

func optGenTime(rng *rand.Rand) time.Time {
	switch rng.Intn(6) {
	case 0:
		return time.Time{}
	case 1:
		return time.Unix(int64(rng.Intn(2000000000)), int64(rng.Intn(1000000000))).UTC()
	case 2:
		return time.Unix(int64(rng.Intn(2000000000)), 0).In(time.FixedZone("X", (rng.Intn(27)-12)*3600+rng.Intn(2)*1800))
	case 3:
		return time.Date(1, 1, 1, 0, 0, 0, 0, time.FixedZone("", 0)) // zero instant, other location
	case 4:
		return time.Date(1, 1, 1, 0, 0, 0, 1, time.UTC) // one nanosecond after zero
	}
	return time.Date(2000+rng.Intn(40), time.Month(1+rng.Intn(12)), 1+rng.Intn(28), rng.Intn(24), rng.Intn(60), rng.Intn(60), 0, time.UTC)
}

// optGenValue draws a submitted value for option o; class names the value class (statistics).
func optGenValue(rng *rand.Rand, o execution.Option) (v interface{}, class string) {
	allowed := []string{}
	if o.Select != nil {
		allowed = append(allowed, o.Select.Values...)
	}
	if o.Multi != nil {
		allowed = append(allowed, o.Multi.Values...)
	}
	str := func() string {
		if len(allowed) > 0 && rng.Intn(2) == 0 {
			return optPick(rng, allowed)
		}
		if o.Type == execution.OptionTypeDate && rng.Intn(4) > 0 {
			return optPick(rng, dateStrings)
		}
		return optPick(rng, optWordPool)
	}
	r := rng.Intn(100)
	if rng.Intn(100) < 55 { // mostly a value of the option's own type
		switch o.Type {
		case execution.OptionTypeBool:
			r = 16 + rng.Intn(8)
		case execution.OptionTypeString, execution.OptionTypeSelect:
			r = 24 + rng.Intn(31)
		case execution.OptionTypeMulti:
			r = 55 + rng.Intn(27)
		case execution.OptionTypeDate:
			r = []int{24, 82, 90}[rng.Intn(3)] + rng.Intn(8)
		}
	}
	switch {
	case r < 10:
		return nil, "null"
	case r < 16:
		return []interface{}{float64(rng.Intn(3)), 7, map[string]interface{}{"a": "b"}, int64(1), 1.5, []int{1}, struct{}{}}[rng.Intn(7)], "other-typed"
	case r < 24:
		return rng.Intn(2) == 0, "bool"
	case r < 55:
		s := str()
		switch {
		case s == "":
			return s, "string-empty"
		case strings.TrimSpace(s) != s:
			return s, "string-whitespace"
		case strings.Contains(s, "${"):
			return s, "string-varsyntax"
		}
		return s, "string"
	case r < 75:
		n := rng.Intn(4)
		xs := make([]interface{}, 0, n)
		for k := 0; k < n; k++ {
			if rng.Intn(8) == 0 {
				xs = append(xs, []interface{}{nil, 1.0, true, []interface{}{"a"}}[rng.Intn(4)])
			} else {
				xs = append(xs, str())
			}
		}
		return xs, fmt.Sprintf("list-%d", n)
	case r < 82:
		n := rng.Intn(4)
		var xs []string
		if rng.Intn(3) == 0 {
			xs = []string{}
		}
		for k := 0; k < n; k++ {
			xs = append(xs, str())
		}
		return xs, "go-strings"
	case r < 90:
		return optGenTime(rng), "go-time"
	default:
		if rng.Intn(3) == 0 {
			return (*time.Time)(nil), "go-timeptr-nil"
		}
		t := optGenTime(rng)
		return &t, "go-timeptr"
	}
}

// ---------------------------------------------------------------- evaluation cases

type evalOut struct {
	kind, out string
}

func realEval(v interface{}, o execution.Option) evalOut {
	var r evalOut
	r.kind = Guard(func() string {
		s, err := options.EvaluateOption(v, o, field.NewPath("spec", "optionValues").Key(o.Name))
		if err != nil {
			return optErrKind(err)
		}
		r.out = s
		return "ok"
	})
	return r
}

func (r evalOut) line() string {
	if r.kind == "ok" {
		return "ok " + Q(r.out)
	}
	return r.kind
}

// checkEval judges one evaluation of a well-formed option against the specification.
func checkEval(c *Ctx, o execution.Option, v interface{}, got evalOut) {
	kind, out, absent := specEval(o, v)
	c.Count("eval.spec." + string(o.Type) + "." + kind)
	if got.kind == "panic" {
		c.Violate("C18", "total-no-panic", "EvaluateOption panicked on %s value %s", optTok(o), valTok(v))
		return
	}
	switch {
	case got.kind == "ok" && kind != "ok":
		c.Violate("C18", "constraints-respected", "option %s value %s evaluated to %q but must be rejected (%s)", optTok(o), valTok(v), got.out, kind)
	case got.kind != "ok" && kind == "ok":
		c.Violate("C18", "accepts-valid-value", "option %s value %s rejected (%s) but must give %q", optTok(o), valTok(v), got.kind, out)
	case got.kind == "ok" && got.out != out:
		if absent {
			c.Violate("C18", "default-when-absent", "option %s, no value given: got %q, declared default gives %q", optTok(o), got.out, out)
		} else {
			c.Violate("C18", "value-used", "option %s value %s: got %q want %q", optTok(o), valTok(v), got.out, out)
		}
	case got.kind != kind:
		c.Violate("C18", "error-kind", "option %s value %s: rejected as %s, want %s", optTok(o), valTok(v), got.kind, kind)
	}
	if got.kind != "ok" {
		return
	}
	// the clauses once more, directly on the returned value
	s := got.out
	bad := ""
	switch o.Type {
	case execution.OptionTypeBool:
		if s != specBoolFmt(o.Bool, true) && s != specBoolFmt(o.Bool, false) {
			bad = "not a rendering of true or false"
		}
	case execution.OptionTypeString:
		if o.Required && s == "" {
			bad = "required but empty"
		}
		if o.String != nil && o.String.TrimSpaces && strings.TrimSpace(s) != s {
			bad = "not trimmed"
		}
	case execution.OptionTypeSelect:
		if o.Required && s == "" {
			bad = "required but empty"
		}
		if s != "" && !o.Select.AllowCustom && !optContains(o.Select.Values, s) {
			bad = "value not allowed"
		}
	case execution.OptionTypeMulti:
		if o.Required && s == "" {
			bad = "required but empty"
		}
	case execution.OptionTypeDate:
		if o.Required && s == "" {
			bad = "required but empty"
		}
	}
	if bad != "" {
		c.Violate("C18", "constraints-respected", "option %s value %s evaluated to %q: %s", optTok(o), valTok(v), s, bad)
	}
}

func optionCase(c *Ctx, rng *rand.Rand) {
	good := rng.Intn(4) > 0
	var o execution.Option
	name := optPick(rng, optNamesGood)
	if good {
		o = genGoodOption(rng, name)
	} else {
		o = genBadOption(rng, name)
	}
	wf := wellFormed(o)
	if wf {
		c.Count("option.wellformed." + string(o.Type))
	} else {
		c.Count("option.malformed")
	}

	// validation / defaulting / default
	nerr := -1
	out := Guard(func() string {
		nerr = len(options.ValidateOption(o, field.NewPath("spec", "option", "options").Index(0)))
		return fmt.Sprint(nerr)
	})
	c.Emit("opt.validate "+optTok(o), out)
	if nerr > 3 {
		c.Count("validate.errors-4+")
	} else {
		c.Count(fmt.Sprintf("validate.errors-%d", nerr))
	}
	if out == "panic" {
		c.Violate("C18", "total-no-panic", "ValidateOption panicked on %s", optTok(o))
	} else if (nerr == 0) != wf {
		c.Violate("C18", "validate-agrees", "ValidateOption gives %d errors, well-formed=%v: %s", nerr, wf, optTok(o))
	}
	c.Emit("opt.defaulting "+optTok(o), Guard(func() string {
		d := options.GetDefaultingOption(o)
		if d.Bool == nil {
			return "-"
		}
		return fmt.Sprintf("%s %s %s %s", B(d.Bool.Default), Q(string(d.Bool.Format)), Q(d.Bool.TrueVal), Q(d.Bool.FalseVal))
	}))
	var def evalOut
	def.kind = Guard(func() string {
		s, err := options.EvaluateOptionDefault(o)
		if err != nil {
			return "err"
		}
		def.out = s
		return "ok"
	})
	c.Emit("opt.default "+optTok(o), def.line())
	c.Count("default." + def.kind)
	if def.kind == "panic" {
		c.Violate("C18", "total-no-panic", "EvaluateOptionDefault panicked on %s", optTok(o))
	}
	if wf {
		if def.kind != "ok" || def.out != specDefault(o) {
			c.Violate("C18", "default-is-declared", "EvaluateOptionDefault(%s) = %s, declared default renders %q", optTok(o), def.line(), specDefault(o))
		}
	}

	// values
	nvals := 4 + rng.Intn(5)
	for k := 0; k < nvals; k++ {
		var v interface{}
		class := "null"
		if k > 0 {
			v, class = optGenValue(rng, o)
		}
		c.Count("value." + class)
		orc := newDateOracle()
		orc.add(o, v)
		if orc.broken {
			c.Count("oracle.goment-failed")
			continue
		}
		got := realEval(v, o)
		c.Count("eval.real." + got.kind)
		c.Emit("opt.eval "+optTok(o)+" "+valTok(v)+" "+orc.tok(), got.line())
		if got.kind == "panic" {
			c.Violate("C18", "total-no-panic", "EvaluateOption panicked on %s value %s", optTok(o), valTok(v))
			continue
		}
		if wf {
			checkEval(c, o, v, got)
			if v == nil {
				// absent == what the JobConfig's defaults produce (unless required-and-empty)
				if got.kind == "ok" && (def.kind != "ok" || def.out != got.out) {
					c.Violate("C18", "absent-equals-default", "option %s: EvaluateOption(nil) = %q but EvaluateOptionDefault = %s", optTok(o), got.out, def.line())
				}
				if got.kind != "ok" && !(got.kind == "required" && o.Required && def.kind == "ok" && def.out == "") {
					c.Violate("C18", "absent-equals-default", "option %s: EvaluateOption(nil) rejected (%s) but default is %s", optTok(o), got.kind, def.line())
				}
			}
		}
	}
}

func specCase(c *Ctx, rng *rand.Rand) {
	var spec *execution.OptionSpec
	allGood := true
	if rng.Intn(12) > 0 {
		spec = &execution.OptionSpec{}
		n := rng.Intn(6)
		names := append([]string(nil), optNamesGood...)
		rng.Shuffle(len(names), func(i, j int) { names[i], names[j] = names[j], names[i] })
		for k := 0; k < n; k++ {
			nm := names[k]
			if rng.Intn(15) == 0 && k > 0 {
				nm = names[rng.Intn(k)] // duplicate name
				allGood = false
			}
			if rng.Intn(8) == 0 {
				spec.Options = append(spec.Options, genBadOption(rng, nm))
			} else {
				spec.Options = append(spec.Options, genGoodOption(rng, nm))
			}
		}
	}
	if spec != nil {
		for _, o := range spec.Options {
			allGood = allGood && wellFormed(o)
		}
	}
	nerr := -1
	out := Guard(func() string {
		nerr = len(options.ValidateOptionSpec(spec, field.NewPath("spec", "option")))
		return fmt.Sprint(nerr)
	})
	c.Emit("opt.validatespec "+specTok(spec), out)
	if out != "panic" && (nerr == 0) != allGood {
		c.Violate("C18", "validate-agrees", "ValidateOptionSpec gives %d errors, well-formed=%v: %s", nerr, allGood, specTok(spec))
	}
	if allGood {
		c.Count("spec.wellformed")
	} else {
		c.Count("spec.malformed")
	}

	// defaults
	var defs map[string]string
	out = Guard(func() string {
		m, err := options.MakeDefaultOptions(spec)
		if err != nil {
			return "err"
		}
		defs = m
		return "ok " + mapTok(m)
	})
	c.Emit("opt.defaults "+specTok(spec), out)
	if out == "panic" {
		c.Violate("C18", "total-no-panic", "MakeDefaultOptions panicked on %s", specTok(spec))
	}
	if allGood && spec != nil {
		want := map[string]string{}
		for _, o := range spec.Options {
			want["option."+o.Name] = specDefault(o)
		}
		if out == "err" || mapTok(defs) != mapTok(want) {
			c.Violate("C18", "default-is-declared", "MakeDefaultOptions(%s) = %s want %s", specTok(spec), out, mapTok(want))
		}
	}

	// values: missing, null, typed, and names that are no option
	vals := map[string]interface{}{}
	orc := newDateOracle()
	if spec != nil {
		for _, o := range spec.Options {
			switch rng.Intn(5) {
			case 0: // missing
				c.Count("value.missing")
			case 1:
				vals[o.Name] = nil
				c.Count("value.null")
			default:
				v, class := optGenValue(rng, o)
				vals[o.Name] = v
				c.Count("value." + class)
			}
		}
	}
	if rng.Intn(3) == 0 {
		vals[optPick(rng, []string{"nosuch", "", "option.a"})] = "stray"
	}
	if spec != nil {
		for _, o := range spec.Options {
			orc.add(o, vals[o.Name])
		}
	}
	if orc.broken {
		c.Count("oracle.goment-failed")
		return
	}
	var m map[string]string
	var errs field.ErrorList
	out = Guard(func() string {
		m, errs = options.EvaluateOptions(vals, spec, field.NewPath("spec", "optionValues"))
		var b strings.Builder
		b.WriteString(mapTok(m))
		fmt.Fprintf(&b, " | %d", len(errs))
		for _, e := range errs {
			b.WriteString(" " + optErrKind(e))
		}
		return b.String()
	})
	c.Emit("opt.evalall "+specTok(spec)+" "+valuesTok(vals)+" "+orc.tok(), out)
	if out == "panic" {
		c.Violate("C18", "total-no-panic", "EvaluateOptions panicked on %s values %s", specTok(spec), valuesTok(vals))
		return
	}
	if len(errs) > 0 {
		c.Count("evalall.rejected")
	} else {
		c.Count("evalall.accepted")
	}
	if allGood && spec != nil {
		c.Nontrivial()
		want := map[string]string{}
		wantErrs := 0
		for _, o := range spec.Options {
			kind, s, _ := specEval(o, vals[o.Name])
			if kind == "ok" {
				want["option."+o.Name] = s
			} else {
				wantErrs++
			}
		}
		if (len(errs) == 0) != (wantErrs == 0) || len(errs) != wantErrs {
			c.Violate("C18", "rejects-iff-some-option-invalid", "EvaluateOptions gives %d errors, specification %d: %s values %s", len(errs), wantErrs, specTok(spec), valuesTok(vals))
		}
		if len(errs) == 0 {
			// exactly one value per option, nothing else
			if len(m) != len(spec.Options) {
				c.Violate("C18", "one-value-per-option", "%d options but %d values: %s", len(spec.Options), len(m), mapTok(m))
			}
			for _, o := range spec.Options {
				if _, ok := m["option."+o.Name]; !ok {
					c.Violate("C18", "one-value-per-option", "no value for option %q in %s", o.Name, mapTok(m))
				}
			}
			if mapTok(m) != mapTok(want) {
				c.Violate("C18", "value-used", "EvaluateOptions(%s, %s) = %s want %s", specTok(spec), valuesTok(vals), mapTok(m), mapTok(want))
			}
		}
	}
}
