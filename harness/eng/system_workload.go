package eng

import (
	"fmt"
	"hash/fnv"
	"math/rand"
	"sort"
	"strings"
	"time"

	corev1 "k8s.io/api/core/v1"
	metav1 "k8s.io/apimachinery/pkg/apis/meta/v1"
	"k8s.io/apimachinery/pkg/runtime"

	execution "github.com/furiko-io/furiko/apis/execution/v1alpha1"
	jobutil "github.com/furiko-io/furiko/pkg/execution/util/job"

	"verifharness/sim"
)

// Workloads of the system engine: JobConfig specs, a kubelet ground-truth table (a pure
// function of the pod name) and a list of stimuli.  The list is *generated* while the first
// fault-free run executes (choices look at the state at the barrier: which pods are alive, which
// Jobs exist) and then *replayed by name* in every other run of the same workload.

type sysJCSpec struct {
	Name        string
	Policy      execution.ConcurrencyPolicy
	Max         int64 // 0 = unset
	Cron        string
	MaxAttempts int64
	RetryDelay  int64 // -1 = unset
	Pending     int64 // -1 = unset
	Parallel    int64 // 0 = none, n = withCount n
	AnySuccess  bool
	TTL         int64 // -1 = unset (global default)
}

type sysStim struct {
	Kind       string // advance | createJC | adhoc | indep | kill | delete | disable | podStart | podFinish | podGone
	D          int64  // advance: seconds
	Tick       bool   // advance: tick the cron worker afterwards
	JC         int    // createJC / adhoc / disable
	Name       string // job or pod name
	StartAfter int64  // adhoc / indep: seconds from now (0 = none)
	Policy     string // adhoc: start policy override ("" = from the JobConfig)
	Chaos      int    // PRNG-chosen scheduler actions after the stimulus, before the barrier
}

func (s sysStim) String() string {
	switch s.Kind {
	case "advance":
		return fmt.Sprintf("advance %ds tick=%v chaos=%d", s.D, s.Tick, s.Chaos)
	case "createJC", "disable":
		return fmt.Sprintf("%s #%d chaos=%d", s.Kind, s.JC, s.Chaos)
	case "adhoc":
		return fmt.Sprintf("adhoc %s of #%d startAfter=+%d policy=%q chaos=%d", s.Name, s.JC, s.StartAfter, s.Policy, s.Chaos)
	case "indep":
		return fmt.Sprintf("indep %s startAfter=+%d chaos=%d", s.Name, s.StartAfter, s.Chaos)
	}
	return fmt.Sprintf("%s %s chaos=%d", s.Kind, s.Name, s.Chaos)
}

type sysWorkload struct {
	seed        int64
	t0          int64 // unix seconds of the first round
	defTTL      int64
	defPending  int64
	forceDelete int64
	jcs         []sysJCSpec
	stims       []sysStim
	maxStims    int
	maxJobs     int
	final       int // number of final-phase iterations the reference needed
}

func (wl *sysWorkload) describe() string {
	var b strings.Builder
	fmt.Fprintf(&b, "workload seed=%d t0=%d ttl=%d pending=%d force=%d;", wl.seed, wl.t0, wl.defTTL, wl.defPending, wl.forceDelete)
	for i, jc := range wl.jcs {
		fmt.Fprintf(&b, " jc#%d{%s %s max=%d cron=%q attempts=%d delay=%d pending=%d par=%d any=%v ttl=%d}", i, jc.Name, jc.Policy, jc.Max, jc.Cron, jc.MaxAttempts, jc.RetryDelay, jc.Pending, jc.Parallel, jc.AnySuccess, jc.TTL)
	}
	b.WriteString("; stimuli:")
	for i, s := range wl.stims {
		fmt.Fprintf(&b, " [%d] %s;", i, s)
	}
	return b.String()
}

// outcome is the kubelet's ground truth for a pod, a pure function of (workload, pod name):
// succeed | fail | hang (runs until it is deleted or until the final phase lets it succeed) |
// stuck (stays Pending until it is deleted or until the final phase).
func (wl *sysWorkload) outcome(pod string) string {
	h := fnv.New64a()
	fmt.Fprintf(h, "%d/%s", wl.seed, pod)
	switch v := h.Sum64() % 100; {
	case v < 50:
		return "succeed"
	case v < 80:
		return "fail"
	case v < 92:
		return "hang"
	default:
		return "stuck"
	}
}

func genSysWorkload(seed int64, rng *rand.Rand, tier string) *sysWorkload {
	wl := &sysWorkload{seed: seed}
	wl.t0 = sim.VirtualBase.Unix() + int64(rng.Intn(100000))*60 + int64([]int{0, 0, 7, 19, 20, 41, 59}[rng.Intn(7)])
	wl.defTTL = []int64{30, 120, 3600}[rng.Intn(3)]
	wl.defPending = []int64{0, 20, 900}[rng.Intn(3)]
	wl.forceDelete = []int64{0, 30, 900}[rng.Intn(3)]
	wl.maxStims, wl.maxJobs = 10+rng.Intn(25), 8
	if tier == "thorough" {
		wl.maxStims, wl.maxJobs = 20+rng.Intn(80), 16
	}
	n := 1 + rng.Intn(3)
	for i := 0; i < n; i++ {
		jc := sysJCSpec{Name: []string{"alpha", "beta", "gamma"}[i], RetryDelay: -1, Pending: -1, TTL: -1}
		jc.Policy = []execution.ConcurrencyPolicy{execution.ConcurrencyPolicyAllow, execution.ConcurrencyPolicyForbid, execution.ConcurrencyPolicyEnqueue, execution.ConcurrencyPolicyEnqueue}[rng.Intn(4)]
		if jc.Policy != execution.ConcurrencyPolicyAllow && rng.Intn(2) == 0 {
			jc.Max = int64(1 + rng.Intn(2))
		}
		if rng.Intn(3) > 0 {
			jc.Cron = []string{"0/20 * * * * * *", "0/30 * * * * * *", "* * * * *", "10/20 * * * * * *"}[rng.Intn(4)]
		}
		jc.MaxAttempts = int64(1 + rng.Intn(3))
		if rng.Intn(2) == 0 {
			jc.RetryDelay = []int64{0, 1, 10}[rng.Intn(3)]
		}
		if rng.Intn(3) == 0 {
			jc.Pending = []int64{0, 5, 20}[rng.Intn(3)]
		}
		if rng.Intn(3) == 0 {
			jc.Parallel = int64(2 + rng.Intn(2))
			jc.AnySuccess = rng.Intn(2) == 0
		}
		if rng.Intn(3) == 0 {
			jc.TTL = []int64{0, 5, 60}[rng.Intn(3)]
		}
		wl.jcs = append(wl.jcs, jc)
	}
	return wl
}

func sysPodTemplate() *execution.PodTemplateSpec {
	return &execution.PodTemplateSpec{Spec: corev1.PodSpec{
		Containers:    []corev1.Container{{Name: "main", Image: "busybox", Command: []string{"true"}}},
		RestartPolicy: corev1.RestartPolicyNever,
	}}
}

func (jc sysJCSpec) template() execution.JobTemplate {
	t := execution.JobTemplate{}
	t.TaskTemplate.Pod = sysPodTemplate()
	t.MaxAttempts = i64p(jc.MaxAttempts)
	if jc.RetryDelay >= 0 {
		t.RetryDelaySeconds = i64p(jc.RetryDelay)
	}
	if jc.Pending >= 0 {
		t.TaskPendingTimeoutSeconds = i64p(jc.Pending)
	}
	if jc.Parallel > 0 {
		t.Parallelism = &execution.ParallelismSpec{WithCount: i64p(jc.Parallel)}
		if jc.AnySuccess {
			t.Parallelism.CompletionStrategy = execution.AnySuccessful
		}
	}
	return t
}

func (jc sysJCSpec) object() *execution.JobConfig {
	o := &execution.JobConfig{ObjectMeta: metav1.ObjectMeta{Namespace: "ns", Name: jc.Name}}
	o.Spec.Concurrency.Policy = jc.Policy
	if jc.Max > 0 {
		o.Spec.Concurrency.MaxConcurrency = i64p(jc.Max)
	}
	o.Spec.Template.Spec = jc.template()
	if jc.Cron != "" {
		o.Spec.Schedule = &execution.ScheduleSpec{Cron: &execution.CronSchedule{Expression: jc.Cron, Timezone: "UTC"}}
	}
	return o
}

// ---------------------------------------------------------------- applying stimuli

func (w *sysWorld) userErr(what string, err error) {
	if err != nil {
		w.c.Count("sys.user." + what + ".refused")
		w.tr("  user %s refused: %v", what, err)
	} else {
		w.c.Count("sys.user." + what)
	}
}

func (w *sysWorld) apply(s sysStim) {
	w.tr("stimulus %s", s)
	now := w.clk.Now()
	switch s.Kind {
	case "advance":
		w.advance(s.D)
		if s.Tick {
			w.tick()
		}
	case "createJC":
		_, err := w.api.Create("jobconfigs", w.wl.jcs[s.JC].object(), false)
		w.userErr("createJC", err)
	case "adhoc":
		jc := w.wl.jcs[s.JC]
		j := &execution.Job{ObjectMeta: metav1.ObjectMeta{Namespace: "ns", Name: s.Name}}
		j.Spec.ConfigName = jc.Name
		if s.StartAfter > 0 || s.Policy != "" {
			j.Spec.StartPolicy = &execution.StartPolicySpec{ConcurrencyPolicy: execution.ConcurrencyPolicy(s.Policy)}
			if s.StartAfter > 0 {
				t := metav1.NewTime(time.Unix(now.Unix()+s.StartAfter, 0))
				j.Spec.StartPolicy.StartAfter = &t
			}
		}
		if jc.TTL >= 0 {
			j.Spec.TTLSecondsAfterFinished = i64p(jc.TTL)
		}
		_, err := w.api.Create("jobs", j, false)
		w.userErr("adhoc", err)
	case "indep":
		j := &execution.Job{ObjectMeta: metav1.ObjectMeta{Namespace: "ns", Name: s.Name}}
		t := execution.JobTemplate{}
		t.TaskTemplate.Pod = sysPodTemplate()
		t.MaxAttempts = i64p(2)
		j.Spec.Template = &t
		if s.StartAfter > 0 {
			st := metav1.NewTime(time.Unix(now.Unix()+s.StartAfter, 0))
			j.Spec.StartPolicy = &execution.StartPolicySpec{ConcurrencyPolicy: execution.ConcurrencyPolicyAllow, StartAfter: &st}
		}
		_, err := w.api.Create("jobs", j, false)
		w.userErr("indep", err)
	case "kill":
		if j := w.job(s.Name); j != nil {
			nj := j.DeepCopy()
			t := metav1.NewTime(time.Unix(now.Unix(), 0))
			nj.Spec.KillTimestamp = &t
			_, err := w.api.Update("jobs", "", nj, false)
			w.userErr("kill", err)
			w.mon.userEdit(s.Name, true)
		} else {
			w.c.Count("sys.user.kill.absent")
		}
	case "delete":
		if j := w.job(s.Name); j != nil {
			err := w.api.Delete("jobs", "ns/"+s.Name, false, false)
			w.userErr("delete", err)
			w.mon.userEdit(s.Name, true)
		} else {
			w.c.Count("sys.user.delete.absent")
		}
	case "disable":
		w.disable(w.wl.jcs[s.JC].Name)
	case "podStart", "podFinish", "podGone":
		w.kubelet(s.Name, s.Kind)
	}
	w.afterAction()
}

func (w *sysWorld) disable(name string) {
	o := w.api.Get("jobconfigs", "ns/"+name)
	if o == nil {
		return
	}
	jc := o.(*execution.JobConfig).DeepCopy()
	if jc.Spec.Schedule == nil || jc.Spec.Schedule.Disabled {
		return
	}
	jc.Spec.Schedule.Disabled = true
	_, err := w.api.Update("jobconfigs", "", jc, false)
	w.userErr("disable", err)
}

// kubelet applies one step of pod progress according to the ground truth.
func (w *sysWorld) kubelet(pod, kind string) {
	key := "ns/" + pod
	o := w.api.Get("pods", key)
	if o == nil {
		w.c.Count("sys.kubelet." + kind + ".absent")
		return
	}
	p := o.(*corev1.Pod)
	now := metav1.NewTime(time.Unix(w.clk.Now().Unix(), 0))
	switch kind {
	case "podGone":
		if p.DeletionTimestamp != nil {
			w.api.Remove("pods", key)
			w.c.Count("sys.kubelet.gone")
		}
	case "podStart":
		if p.Status.Phase == "" || p.Status.Phase == corev1.PodPending {
			w.api.Mutate("pods", key, func(o runtime.Object) {
				pp := o.(*corev1.Pod)
				pp.Status.Phase = corev1.PodRunning
				pp.Status.StartTime = &now
				pp.Status.ContainerStatuses = []corev1.ContainerStatus{{Name: "main", State: corev1.ContainerState{Running: &corev1.ContainerStateRunning{StartedAt: now}}}}
			})
			w.c.Count("sys.kubelet.start")
		}
	case "podFinish":
		if !podAlive(p) {
			return
		}
		out := w.wl.outcome(pod)
		ok := out == "succeed" || out == "hang" || out == "stuck" // hang/stuck pods only finish in the final phase, successfully
		w.api.Mutate("pods", key, func(o runtime.Object) {
			pp := o.(*corev1.Pod)
			started := now
			for _, cs := range pp.Status.ContainerStatuses {
				if cs.State.Running != nil {
					started = cs.State.Running.StartedAt
				}
			}
			if pp.Status.StartTime == nil {
				pp.Status.StartTime = &now
			}
			term := &corev1.ContainerStateTerminated{StartedAt: started, FinishedAt: now, Reason: "Completed"}
			pp.Status.Phase = corev1.PodSucceeded
			if !ok {
				pp.Status.Phase = corev1.PodFailed
				term.Reason, term.ExitCode = "Error", 1
			}
			pp.Status.ContainerStatuses = []corev1.ContainerStatus{{Name: "main", State: corev1.ContainerState{Terminated: term}}}
		})
		w.c.Count("sys.kubelet.finish." + map[bool]string{true: "succeeded", false: "failed"}[ok])
	}
}

// ---------------------------------------------------------------- generating stimuli (reference run 1)

// nextStim chooses the next stimulus from the state at the barrier.
func (w *sysWorld) nextStim(rng *rand.Rand, created map[int]bool, jobN *int) sysStim {
	wl := w.wl
	freeMode := w.plan != nil && w.plan.P > 0
	s := sysStim{Chaos: rng.Intn(12)}
	if rng.Intn(4) == 0 {
		s.Chaos = 0
	}
	var live, deleting []string
	for _, p := range w.pods() {
		if p.DeletionTimestamp != nil {
			deleting = append(deleting, p.Name)
		} else if podAlive(p) {
			live = append(live, p.Name)
		}
	}
	var jobs []string
	for _, j := range w.jobs() {
		if j.DeletionTimestamp == nil {
			jobs = append(jobs, j.Name)
		}
	}
	var existing []int
	for i := range wl.jcs {
		if created[i] {
			existing = append(existing, i)
		}
	}
	total := len(w.mon.jobs)
	allAllow := true
	for _, i := range existing {
		if wl.jcs[i].Policy != execution.ConcurrencyPolicyAllow {
			allAllow = false
		}
	}
	for tries := 0; tries < 50; tries++ {
		switch r := rng.Intn(100); {
		case r < 10 && len(existing) < len(wl.jcs):
			for i := range wl.jcs {
				if !created[i] {
					s.Kind, s.JC = "createJC", i
					created[i] = true
					return s
				}
			}
		case r < 38:
			s.Kind, s.Tick = "advance", true
			s.D = []int64{1, 1, 2, 5, 10, 20}[rng.Intn(6)]
			if allAllow && rng.Intn(5) == 0 {
				// catch-up of several schedule times in one tick: only where the outcome
				// does not depend on the order in which the Jobs are created
				s.D, s.Tick = []int64{30, 45, 61}[rng.Intn(3)], rng.Intn(2) == 0
			}
			return s
		case r < 50 && len(existing) > 0 && total < wl.maxJobs:
			*jobN++
			s.Kind, s.JC, s.Name = "adhoc", existing[rng.Intn(len(existing))], fmt.Sprintf("adhoc-%d", *jobN)
			if rng.Intn(5) == 0 {
				s.Policy = string([]execution.ConcurrencyPolicy{execution.ConcurrencyPolicyAllow, execution.ConcurrencyPolicyEnqueue, execution.ConcurrencyPolicyForbid}[rng.Intn(3)])
			}
			// A Forbid decision (reject / skip) depends on the active count at the instant it is
			// taken.  A startAfter deadline comes due in a clock-advance round, together with the
			// cron tick: which of the two Jobs takes the slot is a race even without faults.  Jobs
			// that are subject to Forbid therefore start in their own creation round only.
			forbid := s.Policy == string(execution.ConcurrencyPolicyForbid) || s.Policy == "" && wl.jcs[s.JC].Policy == execution.ConcurrencyPolicyForbid ||
				wl.jcs[s.JC].Policy == execution.ConcurrencyPolicyForbid && wl.jcs[s.JC].Cron != ""
			if rng.Intn(3) == 0 && (!forbid || freeMode) {
				s.StartAfter = []int64{1, 5, 30}[rng.Intn(3)]
			}
			return s
		case r < 55 && total < wl.maxJobs:
			*jobN++
			s.Kind, s.Name = "indep", fmt.Sprintf("indep-%d", *jobN)
			if rng.Intn(3) == 0 {
				s.StartAfter = []int64{1, 5, 30}[rng.Intn(3)]
			}
			return s
		case r < 82 && len(live)+len(deleting) > 0:
			if len(deleting) > 0 && (len(live) == 0 || rng.Intn(3) == 0) {
				s.Kind, s.Name = "podGone", deleting[rng.Intn(len(deleting))]
				return s
			}
			if len(live) == 0 {
				continue
			}
			s.Name = live[rng.Intn(len(live))]
			out := wl.outcome(s.Name)
			p := w.api.Get("pods", "ns/"+s.Name).(*corev1.Pod)
			switch {
			case out == "stuck":
				continue
			case p.Status.Phase != corev1.PodRunning && (out == "hang" || rng.Intn(2) == 0):
				s.Kind = "podStart"
			case out == "hang":
				continue
			default:
				s.Kind = "podFinish"
			}
			return s
		case r < 87 && len(jobs) > 0:
			s.Kind, s.Name = "kill", jobs[rng.Intn(len(jobs))]
			return s
		case r < 90 && len(jobs) > 0:
			s.Kind, s.Name = "delete", jobs[rng.Intn(len(jobs))]
			return s
		case r < 92 && len(existing) > 0:
			s.Kind, s.JC = "disable", existing[rng.Intn(len(existing))]
			return s
		}
	}
	s.Kind, s.D, s.Tick = "advance", 1, true
	return s
}

// ---------------------------------------------------------------- running a workload

type sysRunResult struct {
	canon    []string // canonical state at every barrier
	calls    int      // controller API calls seen by the fault hook
	digests  []uint64
	injected int
	aborted  bool
	w        *sysWorld
}

// runWorkload executes the workload in a fresh world.  gen != nil: generate the stimuli (first
// reference run).  ref != nil: compare the canonical state at every barrier with the reference
// and stop at the first difference (reported through onDiff).
func runWorkload(c *Ctx, wl *sysWorkload, label string, plan *sysFaultPlan, chaosSeed int64, gen *rand.Rand, ref *sysRunResult,
	onDiff func(w *sysWorld, barrier int, what, diff string), emit bool) *sysRunResult {
	if plan == nil {
		plan = &sysFaultPlan{}
	}
	w := newSysWorld(c, wl, label, plan, emit)
	chaos := rand.New(rand.NewSource(chaosSeed))
	res := &sysRunResult{w: w}
	check := func(what string) bool {
		cn := w.canon()
		res.canon = append(res.canon, cn)
		if ref != nil {
			i := len(res.canon) - 1
			if i >= len(ref.canon) {
				i = len(ref.canon) - 1 // the reference stopped early: its last state persists
			}
			if ref.canon[i] != cn {
				onDiff(w, i, what, canonDiff(ref.canon[i], cn))
				return false
			}
		}
		return true
	}
	finish := func() *sysRunResult {
		res.digests, res.injected = w.digests, plan.injected
		return res
	}
	w.barrier()
	if !check("boot") {
		res.aborted = true
		return finish()
	}
	created := map[int]bool{}
	jobN := 0
	nst := len(wl.stims)
	if gen != nil {
		nst = wl.maxStims
	}
	for i := 0; i < nst; i++ {
		var s sysStim
		if gen != nil {
			s = w.nextStim(gen, created, &jobN)
			wl.stims = append(wl.stims, s)
		} else {
			s = wl.stims[i]
		}
		w.apply(s)
		w.chaos(chaos, s.Chaos)
		w.barrier()
		if !check(fmt.Sprintf("stimulus [%d] %s", i, s)) {
			res.aborted = true
			return finish()
		}
	}
	// final phase: fault-free suffix to the end of all work
	res.calls = plan.callNo
	if !w.finalPhase(check) {
		res.aborted = true
		return finish()
	}
	w.mon.atEnd()
	return finish()
}

// finalPhase: faults stop, schedules are disabled, the kubelet lets every pod reach its end,
// the clock follows a fixed schedule of advances (the same in every run of the workload, so
// that barrier k is reached at the same virtual time everywhere); stops early once nothing
// exists and nothing is pending.  check is called at every barrier.
func (w *sysWorld) finalPhase(check func(what string) bool) bool {
	w.plan.stopped = true
	w.tr("final phase")
	for _, jc := range w.wl.jcs {
		w.disable(jc.Name)
	}
	w.barrier()
	if !check("final: schedules disabled") {
		return false
	}
	for iters := 0; iters < len(sysFinalSchedule); iters++ {
		w.kubeletAll()
		w.barrier()
		if !check(fmt.Sprintf("final iteration %d", iters)) {
			return false
		}
		if len(w.api.Keys("pods")) == 0 && len(w.api.Keys("jobs")) == 0 && w.earliestDeadline() == 0 {
			break
		}
		w.advance(sysFinalSchedule[iters])
		w.tick()
	}
	return true
}

var sysFinalSchedule = []int64{1, 1, 2, 3, 5, 10, 10, 20, 30, 30, 60, 120, 300, 600, 900, 1800, 3600, 3600, 3600, 3600, 3600, 3600, 3600, 3600, 3600, 3600, 3600, 3600, 3600, 3600}

// kubeletAll: the kubelet lets every pod reach the end the ground truth gives it (hang and
// stuck pods are released: they run and succeed), and finishes terminating deleted pods.
func (w *sysWorld) kubeletAll() bool {
	changed := false
	var names []string
	for _, p := range w.pods() {
		names = append(names, p.Name)
	}
	sort.Strings(names)
	for _, n := range names {
		p := w.api.Get("pods", "ns/"+n).(*corev1.Pod)
		switch {
		case p.DeletionTimestamp != nil:
			w.kubelet(n, "podGone")
			changed = true
		case podAlive(p):
			if p.Status.Phase != corev1.PodRunning {
				w.kubelet(n, "podStart")
			}
			w.kubelet(n, "podFinish")
			changed = true
		}
	}
	if changed {
		w.afterAction()
	}
	return changed
}

// atEnd: after the final phase every Job has run to its end and has been cleaned up.
func (m *sysMonitors) atEnd() {
	w := m.w
	for _, j := range w.jobs() {
		if !j.Status.Phase.IsTerminal() {
			m.v("C20", "no-stuck-work", "job %s is %q at the end of the run (started=%v, tasks %s)", j.Name, j.Status.Phase, jobutil.IsStarted(j), sysTaskSummary(j))
		} else {
			m.v("C20", "no-stuck-work", "finished job %s (%s) was never cleaned up", j.Name, j.Status.Phase)
		}
	}
	orphan := map[string]bool{}
	_ = orphan
	for _, p := range w.pods() {
		if ref := metav1.GetControllerOf(p); ref != nil {
			if x, ok := m.jobs[ref.Name]; ok && x.envelopeBroken && w.job(ref.Name) == nil {
				orphan[p.Name] = true // outside E-OrphanVisible (unrecorded task not in the pod cache at the finalizer pass)
				continue
			}
		}
		m.v("C20", "no-stuck-work", "pod %s still exists at the end of the run", p.Name)
	}
	w.c.Count("sys.run-completed")
}
