package eng

// Corpus of the "config" engine (C19): the exhaustive field x value-class x layer grid and the
// hand-written scenarios (including the replays of the known findings F-C19-1..3).

import (
	"encoding/base64"
	"encoding/json"
	"fmt"

	corev1 "k8s.io/api/core/v1"
)

var gridClasses = []string{"unset", "zero", "nonzero", "wrongScalar", "wrongList", "wrongObj", "null"}

// gridValue is deterministic and differs per layer for non-zero values, so that a priority
// mistake cannot hide behind equal values.
func gridValue(class, kind string, layer int) interface{} {
	switch class {
	case "zero":
		return zeroOf(kind)
	case "nonzero":
		switch kind {
		case "int":
			return []float64{11, 22, 33}[layer]
		case "bool":
			return true
		}
		return []string{"dflt", "cmap", "scrt"}[layer]
	case "null":
		return nil
	case "wrongScalar":
		switch kind {
		case "int":
			return "5"
		case "bool":
			return 1.0
		}
		return 5.0
	case "wrongList":
		return []interface{}{1.0}
	case "wrongObj":
		return M{"a": 1.0}
	}
	panic(class)
}

// singleEntryObject builds the source object of one grid cell. variant picks how "unset" is
// expressed: no event at all (nil is returned), an object without the entry, an entry without
// the key.
func (cs *cfgCase) gridObject(k *cfgKind, f *cfgField, class string, layer, variant int) *iobj {
	o := &iobj{target: "match"}
	e := ientry{name: k.name, kvs: M{}, classes: map[string]string{}}
	// a second, well-typed field travels in the same entry: a partially applied update would show
	for i := range k.fields {
		g := &k.fields[i]
		if g.key != f.key {
			e.kvs[g.key] = gridValue("nonzero", g.kind, layer)
			e.classes[g.key] = "nonzero"
			break
		}
	}
	if class == "unset" {
		switch variant % 3 {
		case 0:
			return nil
		case 1:
			return o
		}
	} else {
		e.kvs[f.key] = gridValue(class, f.kind, layer)
		e.classes[f.key] = class
	}
	e.text = renderEntryText(e.kvs, cs.rng)
	o.entries = []ientry{e}
	return o
}

func runConfigGrid(c *Ctx) {
	cell := 0
	for _, k := range cfgKinds {
		for fi := range k.fields {
			f := &k.fields[fi]
			for _, cd := range gridClasses {
				for _, cc := range gridClasses {
					for _, csec := range gridClasses {
						cell++
						k, f, cd, cc, csec, cell := k, f, cd, cc, csec, cell
						c.RunScenario(fmt.Sprintf("grid/%s/%s/%s-%s-%s", k.name, f.key, cd, cc, csec), func() {
							cs := newCfgCase(c, c.Rng, false)
							// defaults: the built-in object of every kind, with this one field replaced
							content := map[string]M{}
							classes := map[string]map[string]string{}
							for _, kk := range cfgKinds {
								m, cl := M{}, map[string]string{}
								b, _ := json.Marshal(kk.def)
								_ = json.Unmarshal(b, &m)
								for key, v := range m {
									cl[key] = "nonzero"
									if isEmptyJSON(v) {
										cl[key] = "zero"
									}
								}
								content[kk.name], classes[kk.name] = m, cl
							}
							if cd == "unset" {
								delete(content[k.name], f.key)
								delete(classes[k.name], f.key)
							} else {
								content[k.name][f.key] = gridValue(cd, f.kind, 0)
								classes[k.name][f.key] = cd
							}
							cs.setDefaultsCustom(content, classes)
							cs.start()
							cs.read(k.name) // defaults only; establishes (or not) a last-known-good value
							if o := cs.gridObject(k, f, cc, 1, cell); o != nil {
								cs.deliver("cm", []string{"add", "update"}[cell%2], o)
							}
							if o := cs.gridObject(k, f, csec, 2, cell/3); o != nil {
								cs.deliver("sec", []string{"add", "update"}[(cell/2)%2], o)
							}
							cs.read(k.name)
							c.Count("grid.cells")
							c.Nontrivial()
						})
					}
				}
			}
		}
	}
}

func entryOf(name string, kvs M, classes map[string]string, cs *cfgCase) ientry {
	e := ientry{name: name, kvs: kvs, classes: classes}
	e.text = renderEntryText(kvs, cs.rng)
	return e
}

func badEntry(name, text string) ientry {
	return ientry{name: name, kvs: M{}, classes: map[string]string{}, bad: "yaml", text: text}
}

func runConfigCorpus(c *Ctx) {
	// ---- known finding F-C19-1: the last-known-good cache holds the very struct handed to a caller
	c.RunScenario("alias-lkg", func() {
		cs := newCfgCase(c, c.Rng, false)
		cs.setDefaultsBuiltin()
		cs.start()
		cs.deliver("cm", "add", &iobj{target: "match", entries: []ientry{entryOf("cron",
			M{"cronFormat": "quartz", "maxMissedSchedules": 7.0}, map[string]string{"cronFormat": "nonzero", "maxMissedSchedules": "nonzero"}, cs)}})
		_, p1 := cs.read("cron")
		served := renderTyped(p1)
		// the reader changes its own copy (plain field and through a pointer field)
		mutateAll(p1)
		// the ConfigMap becomes undecodable: readers must keep receiving the last good configuration
		cs.deliver("cm", "update", &iobj{target: "match", entries: []ientry{entryOf("cron",
			M{"cronFormat": 5.0}, map[string]string{"cronFormat": "wrongScalar"}, cs)}})
		p2, err := cs.sys.readKind("cron") // not emitted: aliasing is outside the model
		if err != nil {
			c.Count("observation.alias.lkg.fallback-read-failed")
			return
		}
		if got := renderTyped(p2); got != served {
			c.Count("observation.alias.lkg.mutation-visible-in-fallback")
		}
		// a fallback result shares its pointer fields with the cache
		before := renderTyped(p2)
		mutateAll(p2)
		p3, err := cs.sys.readKind("cron")
		if err == nil && renderTyped(p3) != before {
			c.Count("observation.alias.lkg.pointer-fields-shared")
		}
		c.Nontrivial()
	})

	// ---- known finding F-C19-2: an object-valued (wrong-typed) entry does not override a non-empty
	// lower value; the config stays decodable and the rest of the update is applied
	c.RunScenario("objwrong-partial-apply", func() {
		cs := newCfgCase(c, c.Rng, false)
		cs.setDefaultsBuiltin()
		cs.start()
		cs.read("cron")
		cs.deliver("cm", "add", &iobj{target: "match", entries: []ientry{entryOf("cron",
			M{"cronFormat": M{"a": 1.0}, "maxMissedSchedules": 7.0}, map[string]string{"cronFormat": "wrongObj", "maxMissedSchedules": "nonzero"}, cs)}})
		// judged like any other wrong-typed value: undecodable => last known good
		k := cfgKindByName("cron")
		_, decodable, known := cs.expectation(k, true)
		if !known || decodable {
			panic("config engine: scenario objwrong-partial-apply lost its shape")
		}
		out := Guard(func() string {
			p, err := cs.sys.readKind("cron")
			if err != nil {
				return "err"
			}
			return "ok " + renderTyped(p)
		})
		c.Emit("cfg.read cron", out)
		if want := "ok " + cs.lastServed["cron"]; out != want {
			c.Violate("C19", "last-known-good", "the ConfigMap sets cronFormat to an object (undecodable for a string field): read = %s, expected the last good configuration %s; the wrong-typed entry was dropped by the merge and the rest of the update applied", out, want)
		}
		c.Nontrivial()
	})

	// ---- known finding F-C19-3: a Secret as the API machinery delivers it (data already decoded)
	c.RunScenario("secret-api-decoded-data", func() {
		cs := newCfgCase(c, c.Rng, false)
		cs.setDefaultsBuiltin()
		cs.start()
		yamlText := "cronFormat: quartz\n"
		manifest := fmt.Sprintf(`{"apiVersion":"v1","kind":"Secret","metadata":{"namespace":%q,"name":%q},"data":{"cron":%q}}`,
			cs.sys.ns, cs.sys.secName, base64.StdEncoding.EncodeToString([]byte(yamlText)))
		var sec corev1.Secret
		if err := json.Unmarshal([]byte(manifest), &sec); err != nil {
			panic(err)
		}
		// what the loader will see is raw YAML where it expects base64: for the model this is an
		// unparsable entry
		if _, err := base64.StdEncoding.DecodeString(string(sec.Data["cron"])); err == nil {
			panic("config engine: scenario secret-api-decoded-data lost its shape")
		}
		out := Guard(func() string {
			cs.sys.secInf.NotifyAdd(-1, &sec)
			return loadsLine(cs.sys.sec, nil)
		})
		c.Emit("cfg.ev sec add 1 cron|!", out)
		read := Guard(func() string {
			p, err := cs.sys.readKind("cron")
			if err != nil {
				return "err"
			}
			return "ok " + renderTyped(p)
		})
		c.Emit("cfg.read cron", read)
		p, err := cs.sys.cc.Cron()
		if err != nil || p.CronFormat != "quartz" {
			c.Count("observation.secret-data-decoded-twice")
		}
		c.Nontrivial()
	})

	// ---- plain scenarios (all monitors on)
	c.RunScenario("lkg-stale-then-fixed", func() {
		cs := newCfgCase(c, c.Rng, false)
		cs.setDefaultsBuiltin()
		cs.read("jobs") // before Start
		cs.start()
		good := func(v float64) *iobj {
			return &iobj{target: "match", entries: []ientry{entryOf("jobs", M{"defaultPendingTimeoutSeconds": v, "defaultTTLSecondsAfterFinished": 0.0},
				map[string]string{"defaultPendingTimeoutSeconds": "nonzero", "defaultTTLSecondsAfterFinished": "zero"}, cs)}}
		}
		cs.deliver("cm", "add", good(60))
		cs.read("jobs")
		cs.deliver("cm", "update", &iobj{target: "match", entries: []ientry{entryOf("jobs",
			M{"defaultPendingTimeoutSeconds": "sixty", "forceDeleteTaskTimeoutSeconds": 5.0},
			map[string]string{"defaultPendingTimeoutSeconds": "wrongScalar", "forceDeleteTaskTimeoutSeconds": "nonzero"}, cs)}})
		cs.read("jobs")
		cs.read("cron")
		cs.deliver("sec", "add", &iobj{target: "match", entries: []ientry{entryOf("jobs", M{"forceDeleteTaskTimeoutSeconds": 1.0},
			map[string]string{"forceDeleteTaskTimeoutSeconds": "nonzero"}, cs)}})
		cs.read("jobs") // still stale: the ConfigMap layer is still undecodable
		cs.deliver("sec", "update", &iobj{target: "match", entries: []ientry{entryOf("jobs", M{"defaultPendingTimeoutSeconds": 30.0},
			map[string]string{"defaultPendingTimeoutSeconds": "nonzero"}, cs)}})
		cs.read("jobs") // the Secret now outranks the bad value: decodable again
		cs.deliver("cm", "update", good(61))
		cs.readAll()
		c.Nontrivial()
	})
	c.RunScenario("malformed-entry-rejects-whole-object", func() {
		cs := newCfgCase(c, c.Rng, true)
		cs.setDefaultsBuiltin()
		cs.start()
		e1 := entryOf("cron", M{"cronFormat": "quartz", "cronHashNames": false}, map[string]string{"cronFormat": "nonzero", "cronHashNames": "zero"}, cs)
		cs.deliver("cm", "add", &iobj{target: "match", entries: []ientry{e1}})
		cs.read("cron")
		e2 := entryOf("cron", M{"cronFormat": "standard", "defaultTimezone": ""}, map[string]string{"cronFormat": "nonzero", "defaultTimezone": "zero"}, cs)
		for _, txt := range malformedTexts {
			cs.deliver("cm", "update", &iobj{target: "match", entries: []ientry{e2, badEntry("unrelated", txt)}})
			cs.read("cron")
		}
		cs.deliver("cm", "delete", &iobj{target: "match"})
		cs.read("cron")
		cs.deliver("cm", "add", &iobj{target: "match", entries: []ientry{e2, entryOf("unrelated", M{}, map[string]string{}, cs)}})
		cs.read("cron")
		cs.deliver("cm", "update", &iobj{target: "match"}) // empty data: the source now sets nothing
		cs.read("cron")
		c.Nontrivial()
	})
	c.RunScenario("secret-base64-and-foreign-objects", func() {
		cs := newCfgCase(c, c.Rng, false)
		cs.setDefaultsBuiltin()
		cs.start()
		e := entryOf("jobConfigs", M{"maxEnqueuedJobs": 0.0}, map[string]string{"maxEnqueuedJobs": "zero"}, cs)
		cs.deliver("sec", "add", &iobj{target: "match", entries: []ientry{e}})
		cs.read("jobConfigs")
		for _, b := range []string{"!!", "a", "Y3Jvbg="} {
			cs.deliver("sec", "update", &iobj{target: "match", entries: []ientry{e, {name: "jobs", kvs: M{}, classes: map[string]string{}, bad: "b64", text: b}}})
			cs.read("jobConfigs")
		}
		e2 := entryOf("jobConfigs", M{"maxEnqueuedJobs": 3.0}, map[string]string{"maxEnqueuedJobs": "nonzero"}, cs)
		for _, tg := range []string{"othername", "otherns", "wrongtype"} {
			cs.deliver("sec", "update", &iobj{target: tg, entries: []ientry{e2}})
			cs.deliver("cm", "add", &iobj{target: tg, entries: []ientry{e2}})
			cs.read("jobConfigs")
		}
		cs.deliver("cm", "add", &iobj{target: "tombstone", entries: []ientry{e2}})
		cs.read("jobConfigs")
		cs.deliver("sec", "delete", &iobj{target: "match"})
		cs.read("jobConfigs")
		c.Nontrivial()
	})
	c.RunScenario("null-and-zero-override-defaults", func() {
		cs := newCfgCase(c, c.Rng, false)
		cs.setDefaultsBuiltin()
		cs.start()
		cs.deliver("cm", "add", &iobj{target: "match", entries: []ientry{entryOf("cron",
			M{"cronFormat": "", "cronHashNames": false, "cronHashFields": nil, "defaultTimezone": nil, "maxMissedSchedules": 0.0, "maxDowntimeThresholdSeconds": 0.0},
			map[string]string{"cronFormat": "zero", "cronHashNames": "zero", "cronHashFields": "null", "defaultTimezone": "null", "maxMissedSchedules": "zero", "maxDowntimeThresholdSeconds": "zero"}, cs)}})
		cs.read("cron")
		cs.deliver("sec", "add", &iobj{target: "match", entries: []ientry{entryOf("cron",
			M{"cronHashFields": true, "maxMissedSchedules": nil}, map[string]string{"cronHashFields": "nonzero", "maxMissedSchedules": "null"}, cs)}})
		cs.read("cron")
		c.Nontrivial()
	})
	// correspondence only: the embedded TypeMeta is looked up by mapstructure under the key "TypeMeta"
	c.RunScenario("typemeta-key", func() {
		cs := newCfgCase(c, c.Rng, false)
		cs.judge = false
		cs.setDefaultsBuiltin()
		cs.start()
		cs.deliver("cm", "add", &iobj{target: "match", entries: []ientry{entryOf("jobs",
			M{"TypeMeta": M{"kind": "K", "apiVersion": "v9"}, "kind": "ignored"}, map[string]string{"TypeMeta": "unknown", "kind": "unknown"}, cs)}})
		cs.read("jobs")
		cs.deliver("sec", "add", &iobj{target: "match", entries: []ientry{entryOf("jobs",
			M{"TypeMeta": 5.0}, map[string]string{"TypeMeta": "unknown"}, cs)}})
		cs.read("jobs")
		cs.deliver("sec", "update", &iobj{target: "match", entries: []ientry{entryOf("jobs",
			M{"TypeMeta": nil}, map[string]string{"TypeMeta": "unknown"}, cs)}})
		cs.read("jobs")
	})
	runConfigGrid(c)
}
