package eng

import (
	"context"
	"fmt"
	"math/rand"
	"sort"
	"strings"
	"time"

	metav1 "k8s.io/apimachinery/pkg/apis/meta/v1"
	"k8s.io/apimachinery/pkg/runtime"
	"k8s.io/apimachinery/pkg/types"
	"k8s.io/client-go/tools/record"
	fakeclock "k8s.io/utils/clock/testing"

	execution "github.com/furiko-io/furiko/apis/execution/v1alpha1"
	"github.com/furiko-io/furiko/pkg/execution/controllers/jobqueuecontroller"
	"github.com/furiko-io/furiko/pkg/execution/stores/activejobstore"
	jobutil "github.com/furiko-io/furiko/pkg/execution/util/job"
	"github.com/furiko-io/furiko/pkg/execution/util/jobconfig"
	"github.com/furiko-io/furiko/pkg/runtime/reconciler"
	"github.com/furiko-io/furiko/pkg/utils/ktime"

	"verifharness/sim"
)

// Engine "queue": the real activejobstore.Store, jobqueuecontroller reconcilers, informer
// worker and JobControl on the API simulation, stepped deterministically (no goroutines),
// against Model/Queue.lean.  Serves C05, C06, C07 and the queue controller's share of C11
// (status.startTime, once set, never changes: monitor start-time-stable).

func init() { Register("queue", runQueue) }

type queueWorld struct {
	c      *Ctx
	rng    *rand.Rand
	ctx    *sim.Context
	clk    *fakeclock.FakeClock
	api    *sim.SimAPI
	store  *activejobstore.Store
	cfgQ   *sim.DetQueue
	indQ   *sim.DetQueue
	rcCfg  *reconciler.Controller
	rcInd  *reconciler.Controller
	faults []string
	uids   []string

	// monitor bookkeeping
	outOfEnvelope map[string]bool // uid -> label/owner mismatch or applied-err seen
	maxSeen       map[string]int64
	jobsSeen      []string
	// C11: last known server-side status.startTime (unix seconds) per Job UID (a name can be taken
	// again by another Job inside a watch outage, q.outage); the external writer q.extstart sets
	// startTime only when it is nil.
	startSeen map[string]int64

	// envBroken: names of the envelopes (DESIGN.md 4.4) this history has left; a monitor that is
	// suppressed for an out-of-envelope JobConfig counts what it would have reported under
	// q.outside.<monitor>[.<envelope>], so that the evidence shows the behaviour is exercised.
	envBroken map[string]bool
	// outage: the Jobs watch is interrupted (q.outage): no Job event reaches the cache until the
	// informer relists (q.relist) or the process restarts.
	outage bool
	// startedByUs: UIDs of the Jobs a start write of this engine's controller was applied for.
	startedByUs map[types.UID]bool
	// judgeOutside: corpus scenarios that replay a known finding leave an envelope on purpose and
	// want the monitors to judge: outside() then only counts.
	judgeOutside bool
	// bootWindow: number of Job watch events that reach the cache between the registration of the
	// store's handler and the lister read inside activejobstore.Recover of the next boot.
	bootWindow int
}

func (w *queueWorld) now() int64 { return w.clk.Now().UnixNano() }

func (w *queueWorld) boot() {
	w.ctx.ResetStores()
	jobsInf := w.ctx.Sim().Jobs()
	jobsInf.ResetHandlers()
	w.cfgQ = sim.NewDetQueue(w.clk)
	w.indQ = sim.NewDetQueue(w.clk)
	// the only instants this controller defers to are Jobs' startAfter times (see
	// DetQueue.Candidates): those of the CACHED versions (what the reconcilers read; the user may
	// have edited startAfter on the server since, q.sa) and the authoritative ones
	cands := func() []int64 {
		var out []int64
		for _, k := range w.api.Keys("jobs") {
			if j, ok := w.api.Get("jobs", k).(*execution.Job); ok && j.Spec.StartPolicy != nil && j.Spec.StartPolicy.StartAfter != nil {
				out = append(out, j.Spec.StartPolicy.StartAfter.UnixNano())
			}
		}
		for _, o := range jobsInf.GetStore().List() {
			if j, ok := o.(*execution.Job); ok && j.Spec.StartPolicy != nil && j.Spec.StartPolicy.StartAfter != nil {
				out = append(out, j.Spec.StartPolicy.StartAfter.UnixNano())
			}
		}
		return out
	}
	w.cfgQ.Candidates, w.indQ.Candidates = cands, cands
	store, _ := activejobstore.NewStore(w.ctx)
	w.ctx.Stores().Register(store)
	cctx, cancel := context.WithCancel(context.Background())
	// Recover is ONE Go call: Start (AddEventHandler), wait for HasSynced, Lister().List(), count.
	// The registration hook opens the window between the first and the third step: bootWindow
	// watch events are applied to the cache there; each is in the lister Recover counts from and
	// is also notified to the store's handler (queued; it runs on q.notify 0 / flush).
	if n := w.bootWindow; n > 0 {
		jobsInf.OnRegister = func(h int) {
			for i := 0; h == 0 && i < n; i++ {
				w.api.DeliverOne("jobs", jobsInf)
			}
		}
	}
	_ = store.Recover(cctx) // handler 0 on the Jobs informer
	jobsInf.OnRegister = nil
	w.bootWindow = 0
	cancel()
	w.store = store
	rec := &record.FakeRecorder{}
	qctx := jobqueuecontroller.NewContextWithRecorder(w.ctx, rec)
	qctx.VerifSetQueues(w.cfgQ, w.indQ)
	jc := jobqueuecontroller.NewJobControl(w.ctx.Clientsets().Furiko().ExecutionV1alpha1(), rec)
	jobqueuecontroller.NewInformerWorker(qctx) // handler 1
	w.rcCfg = reconciler.NewController(jobqueuecontroller.NewPerConfigReconciler(qctx, nil, jc), w.cfgQ)
	w.rcInd = reconciler.NewController(jobqueuecontroller.NewIndependentReconciler(qctx, nil, jc), w.indQ)
}

func qstr(q *sim.DetQueue) string {
	var d []string
	for _, t := range q.Delayed() {
		d = append(d, fmt.Sprintf("%s@%d", t.Key, t.Deadline))
	}
	return "r:" + strings.Join(q.Ready(), ",") + ";d:" + strings.Join(d, ",")
}

func (w *queueWorld) digest() string {
	w.checkStartTimes() // every emitted op is followed by a digest: "any later state"
	var cs []string
	for _, u := range w.uids {
		cs = append(cs, fmt.Sprintf("%s:%d", u, w.store.CountActiveJobsForConfig(&execution.JobConfig{ObjectMeta: metav1.ObjectMeta{UID: types.UID(u)}})))
	}
	ji := w.ctx.Sim().Jobs()
	return fmt.Sprintf("ctr=%s cfg=%s ind=%s ev=%d/%d nq=%d/%d", strings.Join(cs, ","), qstr(w.cfgQ), qstr(w.indQ),
		len(w.api.Pending["jobs"]), len(w.api.Pending["jobconfigs"]), ji.PendingFor(0), ji.PendingFor(1))
}

func callsStr(calls []sim.Call) string {
	var out []string
	for _, c := range calls {
		verb := "start"
		if c.Subresource != "status" {
			verb = "reject"
		}
		_, name, _ := strings.Cut(c.Key, "/")
		out = append(out, fmt.Sprintf("%s:%s:%s", verb, name, c.Result))
	}
	return strings.Join(out, ",")
}

func (w *queueWorld) apiJob(name string) *execution.Job {
	o := w.api.Get("jobs", "ns/"+name)
	if o == nil {
		return nil
	}
	return o.(*execution.Job)
}

func (w *queueWorld) trueActive(uid string, except string) int64 {
	var n int64
	for _, k := range w.api.Keys("jobs") {
		j := w.api.Get("jobs", k).(*execution.Job)
		if j.Name != except && j.Labels[jobconfig.LabelKeyJobConfigUID] == uid && jobutil.IsActive(j) {
			n++
		}
	}
	return n
}

// checkStartTimes is the C11 monitor of this engine: a Job's status.startTime on the server, once
// set, never changes and never disappears (whoever writes: the queue controller's StartJob is the
// only writer that sets it here, the external q.extstart only when it is nil).  Called at every
// controller write (monitorCall) and after every operation (digest).
func (w *queueWorld) checkStartTimes() {
	if w.startSeen == nil {
		w.startSeen = map[string]int64{}
	}
	for _, k := range w.api.Keys("jobs") {
		j := w.api.Get("jobs", k).(*execution.Job)
		id := string(j.UID)
		prev, seen := w.startSeen[id]
		cur := j.Status.StartTime
		if seen && (cur == nil || cur.Unix() != prev) {
			now := "nil"
			if cur != nil {
				now = fmt.Sprint(cur.Unix())
			}
			w.c.Violate("C11", "start-time-stable", "status.startTime of job %s was %d and is now %s (clock %d)", j.Name, prev, now, w.now())
		}
		if cur != nil {
			w.startSeen[id] = cur.Unix()
		} else {
			delete(w.startSeen, id)
		}
	}
}

// staleStartAfter reports whether some queued Job's cached startAfter differs from the server's
// (a user edit not yet delivered), and whether the cached one is due while the server's is not.
func (w *queueWorld) staleStartAfter() (stale, staleDue bool) {
	sa := func(j *execution.Job) int64 {
		if j.Spec.StartPolicy == nil || j.Spec.StartPolicy.StartAfter == nil {
			return 0
		}
		return j.Spec.StartPolicy.StartAfter.UnixNano()
	}
	for _, k := range w.api.Keys("jobs") {
		j := w.api.Get("jobs", k).(*execution.Job)
		co, ok := w.ctx.Sim().Jobs().CacheGet(j)
		if !ok || !jobutil.IsQueued(j) {
			continue
		}
		cj := co.(*execution.Job)
		if !jobutil.IsQueued(cj) || sa(cj) == sa(j) {
			continue
		}
		stale = true
		if sa(cj) <= w.now() && sa(j) > w.now() {
			staleDue = true
		}
	}
	return
}

func (w *queueWorld) work(which string) { w.workMid(which, 0) }

// workMid: mid > 0 lets the environment act in the middle of the pass, just before the
// mid-th API write of this step is applied: every pending Job event is delivered to the cache
// and the store's handler runs all its notifications (the queue controller's handler lags).
func (w *queueWorld) workMid(which string, mid int) {
	if w.outage {
		mid = 0 // nothing can be delivered to the Jobs cache while its watch is down
	}
	q, rc := w.cfgQ, w.rcCfg
	if which == "ind" {
		q, rc = w.indQ, w.rcInd
	}
	q.Advance()
	w.api.Calls = nil
	idle := q.Len() == 0
	res := "idle"
	if !idle {
		key := q.Ready()[0]
		if stale, staleDue := w.staleStartAfter(); stale {
			w.c.Count("q.work.stale-startAfter")
			if staleDue {
				w.c.Count("q.work.stale-startAfter.cached-due-server-later")
			}
		}
		ncall := 0
		w.api.Fault = func(c sim.Call) string {
			ncall++
			if ncall == mid {
				ji := w.ctx.Sim().Jobs()
				for w.api.DeliverOne("jobs", ji) {
				}
				for ji.NotifyNext(0) {
				}
				w.c.Count("q.mid-pass-interleaving")
			}
			if len(w.faults) == 0 {
				return ""
			}
			f := w.faults[0]
			w.faults = w.faults[1:]
			return f
		}
		out := Guard(func() string {
			rc.VerifStep(context.Background())
			return ""
		})
		w.api.Fault = nil
		res = "ok"
		if out == "panic" {
			res = "panic"
		} else if q.NumRequeues(key) > 0 {
			res = "err"
		}
	}
	// the sync result is observed through the queue: Forget on success, AddRateLimited on error
	op := "q.work " + which
	if which == "cfg" && mid > 0 {
		op = fmt.Sprintf("q.work cfg %d", mid)
	}
	w.c.Emit(op, fmt.Sprintf("%s calls=%s %s", res, callsStr(w.api.Calls), w.digest()))
	w.c.Count("q.work." + which)
}

// monitorCall judges one controller write at the instant it was applied.
func (w *queueWorld) monitorCall(c sim.Call) {
	w.checkStartTimes() // C11 start-time-stable, at the instant of the write
	{
		_, name, _ := strings.Cut(c.Key, "/")
		j := w.apiJob(name)
		if j != nil && c.Subresource == "status" && c.Result == "conflict" {
			if sp := j.Spec.StartPolicy; sp != nil && sp.StartAfter != nil && sp.StartAfter.UnixNano() > w.now() {
				// the cache held an older, due startAfter: the resourceVersion precondition refused the start
				w.c.Count("q.start-refused.server-startAfter-later")
			}
			if j.Status.StartTime != nil {
				w.c.Count("q.start-refused.already-started")
			}
		}
		if c.Result != "ok" || j == nil {
			return
		}
		uid := j.Labels[jobconfig.LabelKeyJobConfigUID]
		pol := ""
		if j.Spec.StartPolicy != nil {
			pol = string(j.Spec.StartPolicy.ConcurrencyPolicy)
		}
		if c.Subresource == "status" { // a start write
			w.c.Count("q.start-ok")
			if w.startedByUs == nil {
				w.startedByUs = map[types.UID]bool{}
			}
			w.startedByUs[j.UID] = true
			if sp := j.Spec.StartPolicy; sp != nil && sp.StartAfter != nil && sp.StartAfter.UnixNano() > w.now() {
				w.c.Violate("C07", "never-before-startAfter", "job %s started at %d before startAfter %d", name, w.now(), sp.StartAfter.UnixNano())
			}
			if uid != "" && (pol == "Forbid" || pol == "Enqueue") {
				act := w.trueActive(uid, name)
				if act+1 > w.maxSeen[uid] {
					if w.outOfEnvelope[uid] {
						w.countOutside("never-over-limit")
					} else {
						w.c.Violate("C05", "never-over-limit", "job %s (%s) started while %d Jobs of %s already active, maxConcurrency %d", name, pol, act, uid, w.maxSeen[uid])
					}
				}
			}
			// FIFO among Enqueue jobs
			if uid != "" && pol == "Enqueue" {
				for _, k := range w.api.Keys("jobs") {
					a := w.api.Get("jobs", k).(*execution.Job)
					if a.Name == name || a.Labels[jobconfig.LabelKeyJobConfigUID] != uid || a.Spec.StartPolicy == nil ||
						a.Spec.StartPolicy.ConcurrencyPolicy != "Enqueue" || !jobutil.IsQueued(a) {
						continue
					}
					ca, cached := w.ctx.Sim().Jobs().CacheGet(a)
					if !cached {
						continue
					}
					due := a.Spec.StartPolicy.StartAfter == nil || a.Spec.StartPolicy.StartAfter.UnixNano() <= w.now()
					// FIFO is stated for the pass's snapshot: a startAfter the user has just moved
					// on the server (q.sa) but that the cache does not show yet excuses the pass
					if cj := ca.(*execution.Job); cj.Spec.StartPolicy != nil && cj.Spec.StartPolicy.StartAfter != nil && cj.Spec.StartPolicy.StartAfter.UnixNano() > w.now() {
						due = false
					}
					if due && a.CreationTimestamp.Unix() < j.CreationTimestamp.Unix() && !w.outOfEnvelope[uid] {
						w.c.Violate("C06", "enqueue-fifo", "job %s started while earlier-created due Enqueue job %s is still queued", name, a.Name)
					}
				}
			}
		} else { // a reject write
			w.c.Count("q.reject-ok")
			if pol != "Forbid" {
				w.c.Violate("C06", "only-forbid-rejected", "job %s with policy %q was rejected", name, pol)
			}
			if _, ok := jobutil.GetAdmissionErrorMessage(j); !ok {
				w.c.Violate("C06", "reject-marks", "rejected job %s carries no admission error annotation", name)
			}
			if jobutil.IsStarted(j) {
				w.c.Violate("C06", "rejected-never-runs", "rejected job %s is started", name)
			}
			// C07: the concurrency policy is applied when the Job is due, not while it is still
			// waiting for its startAfter time (it may well be startable once that time has passed)
			if sp := j.Spec.StartPolicy; sp != nil && sp.StartAfter != nil && sp.StartAfter.UnixNano() > w.now() {
				w.c.Violate("C07", "not-rejected-before-due", "job %s was rejected at %d, before its startAfter %d: it can never start although the policy may allow it when due",
					name, w.now(), sp.StartAfter.UnixNano())
			}
		}
	}
}

func runQueue(c *Ctx) {
	queueScenarios(c)
	c.ForCases(func(i int, rng *rand.Rand) {
		if i%6 == 5 {
			queueInterleaveCase(c, rng)
		} else {
			queueCase(c, rng)
		}
	})
}

// queueScenarios: hand-written corpus cases, run first on every check.
func queueScenarios(c *Ctx) {
	c.RunScenario("counter-conservation-stress", func() {
		counterConservationStress(c)
		c.Nontrivial()
	})
	queueEnvScenarios(c)
	// A Forbid Job over the limit stays queued until the job controller makes it terminal, so
	// every pass rejects it again.  RejectJob with the identical annotation (same JobConfig name
	// and active count in the message) is an Update that changes nothing: the API answers ok
	// without a new resourceVersion and without a watch event (so the key is NOT re-queued).
	// Once the active count differs the message differs and the Update is a real one again.
	c.RunScenario("reject-twice-noop", func() {
		w := newQueueWorld(c, c.Rng, []string{"a"})
		pend := func() int { return len(w.api.Pending["jobs"]) }
		w.addJC("a", 1)
		w.flush()
		w.addOwnedJob("j01", "a", 0) // Allow: starts
		w.flush()
		w.work("cfg")
		w.flush()
		w.work("cfg")
		w.addOwnedJob("j02", "a", 1) // Forbid, one active Job, limit 1
		w.flush()
		w.work("cfg") // reject j02: a real update, one event
		if pend() == 1 {
			c.Count("q.scn.reject-applied")
		}
		w.flush()     // that event re-queues the key
		w.work("cfg") // reject j02 again with the identical annotation: no-op, no event
		if pend() == 0 {
			c.Count("q.scn.reject-noop")
		}
		w.work("cfg") // nothing re-queued the key: idle
		w.ctx.Sim().Jobs().Resync()
		c.Emit("q.resync", w.digest())
		w.flush()
		// the answer of a no-op reject is lost: the pass fails, nothing changed, retry is a no-op too
		w.faults = append(w.faults, sim.FaultAppliedErr)
		for _, u := range w.uids {
			w.outOfEnvelope[u] = true
		}
		c.Emit("q.fault "+sim.FaultAppliedErr, w.digest())
		w.work("cfg")
		w.clk.Step(2 * time.Second)
		c.Emit("q.adv 2000000000", w.digest())
		w.work("cfg")
		// a blocking fault on a would-be no-op
		w.ctx.Sim().Jobs().Resync()
		c.Emit("q.resync", w.digest())
		w.flush()
		w.faults = append(w.faults, sim.FaultConflict)
		c.Emit("q.fault "+sim.FaultConflict, w.digest())
		w.work("cfg")
		w.clk.Step(2 * time.Second)
		c.Emit("q.adv 2000000000", w.digest())
		w.work("cfg")
		// a second Allow Job starts in the same pass as the no-op reject; the next pass sees two
		// active Jobs, the message changes and the reject is a real update again
		w.addOwnedJob("j03", "a", 0)
		w.flush()
		w.work("cfg")
		w.flush()
		w.work("cfg")
		if pend() == 1 {
			c.Count("q.scn.reject-new-message")
		}
		w.flush()
		w.work("cfg")
		w.work("cfg")
		w.settle()
		c.Nontrivial()
	})
	// C11 / seeded change C11w2-2: the queue controller syncs the same Job twice while its cache
	// has not seen its own start write.  StartJob submits the CACHED object, so the second
	// UpdateStatus carries the old resourceVersion and is refused (409); status.startTime keeps the
	// first value.  (A StartJob that re-reads the Job from the server first would overwrite it:
	// monitor start-time-stable.)  Both reconcilers.
	c.RunScenario("start-twice-stale-cache", func() {
		w := newQueueWorld(c, c.Rng, []string{"a"})
		w.addJC("a", 3)
		w.flush()
		for _, tc := range []struct{ name, owner, which string }{{"j01", "a", "cfg"}, {"j02", "", "ind"}} {
			if tc.owner != "" {
				w.addOwnedJob(tc.name, tc.owner, 0)
			} else {
				w.addJobSA(tc.name, "", 0, w.now()/1e9-5)
			}
			w.flush()        // created and delivered: the key is queued
			w.work(tc.which) // sync #1 starts it; the update event stays undelivered
			if w.lastCall() == "start:"+tc.name+":ok" {
				c.Count("q.scn.first-start-ok")
			}
			w.adv(3 * time.Second)
			w.requeueByResync() // another event for the Job re-queues the key; the cache is still stale
			w.work(tc.which)    // sync #2 on the cached, unstarted copy
			if w.lastCall() == "start:"+tc.name+":conflict" {
				c.Count("q.scn.second-start-conflict")
			}
			w.adv(2 * time.Second)
			w.work(tc.which) // the rate-limited retry: still stale, refused again
			w.flush()        // now the cache sees the started Job
			w.work(tc.which)
			w.work(tc.which)
		}
		w.settle()
		c.Nontrivial()
	})
	// C07 / seeded change C07w2-2: the user postpones startAfter of a still-queued Job (allowed
	// until the Job is started) while the controller's cache holds the old value; the timer for
	// the old startAfter fires and the reconciler, reading the cache, decides to start.  The start
	// write carries the cached resourceVersion and is refused; after the update is delivered the
	// Job waits for its new startAfter and is started then.  Owned and independent Job.
	c.RunScenario("postpone-startafter-stale-cache", func() {
		w := newQueueWorld(c, c.Rng, []string{"a"})
		w.addJC("a", 2)
		w.flush()
		for _, tc := range []struct{ name, owner, which string }{{"j01", "a", "cfg"}, {"j02", "", "ind"}} {
			t1 := w.now()/1e9 + 4
			w.addJobSA(tc.name, tc.owner, 2*B2I(tc.owner != ""), t1)
			w.flush()
			w.work(tc.which) // not due: timer armed for t1
			t2 := t1 + 3600
			w.editStartAfter(tc.name, &t2) // postponed on the server; the cache still says t1
			w.adv(time.Duration(t1*1e9 - w.now()))
			w.work(tc.which) // the timer fires at t1: cached copy is due, the server's is not
			if w.lastCall() == "start:"+tc.name+":conflict" {
				c.Count("q.scn.stale-start-conflict")
			}
			w.adv(time.Second)
			w.work(tc.which) // retry, still stale
			w.flush()        // the postponement reaches the cache
			w.work(tc.which) // deferred until t2
			w.adv(time.Duration(t2*1e9 - w.now() - 2e9))
			w.work(tc.which) // 2 s before t2 (the pending retry fires): still deferred
			w.adv(2 * time.Second)
			w.work(tc.which) // at t2: started
			if w.lastCall() == "start:"+tc.name+":ok" {
				c.Count("q.scn.start-at-new-startAfter")
			}
			w.flush()
		}
		w.settle()
		c.Nontrivial()
	})
}

// B2I renders a bool as 0/1 (int).
func B2I(b bool) int {
	if b {
		return 1
	}
	return 0
}

func newQueueWorld(c *Ctx, rng *rand.Rand, jcNames []string) *queueWorld {
	w := &queueWorld{c: c, rng: rng, outOfEnvelope: map[string]bool{}, maxSeen: map[string]int64{}}
	w.ctx = sim.NewContext()
	w.clk = fakeclock.NewFakeClock(sim.VirtualBase.Add(time.Duration(rng.Intn(1000)) * time.Second))
	ktime.Clock = w.clk
	w.api = sim.NewSimAPI(w.clk)
	w.api.Install(w.ctx)
	w.api.Observe = w.monitorCall
	for _, n := range jcNames {
		w.uids = append(w.uids, "u-"+n)
	}
	w.uids = append(w.uids, "u-x")
	w.boot()
	c.Emit(fmt.Sprintf("q.reset %d %s", w.now(), strings.Join(w.uids, ",")), w.digest())
	return w
}

func (w *queueWorld) addJC(n string, max int64) {
	jc := &execution.JobConfig{ObjectMeta: metav1.ObjectMeta{Namespace: "ns", Name: n, UID: types.UID("u-" + n)}}
	jc.Spec.Concurrency.MaxConcurrency = &max
	_, _ = w.api.Create("jobconfigs", jc, false)
	w.maxSeen["u-"+n] = max
	w.c.Emit(fmt.Sprintf("q.jc %s %d", n, max), w.digest())
}

// addOwnedJob creates a Job of JobConfig n (label + owner reference) with the given policy
// (0 Allow, 1 Forbid, 2 Enqueue), one second after the previous one.
func (w *queueWorld) addOwnedJob(name, n string, pol int) {
	uid := "u-" + n
	j := &execution.Job{ObjectMeta: metav1.ObjectMeta{Namespace: "ns", Name: name, Labels: map[string]string{jobconfig.LabelKeyJobConfigUID: uid}}}
	t := true
	j.OwnerReferences = []metav1.OwnerReference{{APIVersion: execution.GroupVersion.String(), Kind: execution.KindJobConfig, Name: n, UID: types.UID(uid), Controller: &t}}
	j.Spec.StartPolicy = &execution.StartPolicySpec{ConcurrencyPolicy: []execution.ConcurrencyPolicy{"Allow", "Forbid", "Enqueue"}[pol]}
	w.clk.Step(time.Second)
	w.c.Emit("q.adv 1000000000", w.digest())
	_, _ = w.api.Create("jobs", j, false)
	w.jobsSeen = append(w.jobsSeen, name)
	w.c.Emit(fmt.Sprintf("q.job %s %s %s %s 1 %d -", name, uid, n, uid, pol), w.digest())
}

// queueInterleaveCase: directed histories in which a running Job finishes and the store
// learns about it in the middle of a pass (at an API write of that pass), with mixed policies
// queued behind each other.
func queueInterleaveCase(c *Ctx, rng *rand.Rand) {
	w := newQueueWorld(c, rng, []string{"a"})
	max := int64(1 + rng.Intn(2))
	w.addJC("a", max)
	w.flush()
	starts0 := c.Stats["q.start-ok"]
	n := 0
	mk := func(pol int) string {
		n++
		name := fmt.Sprintf("j%02d", n)
		w.addOwnedJob(name, "a", pol)
		return name
	}
	var running []string
	for i := int64(0); i < max; i++ {
		running = append(running, mk([]int{0, 2}[rng.Intn(2)]))
	}
	w.flush()
	w.work("cfg")
	w.flush()
	// queued Jobs of mixed policies behind the limit
	for i, k := 0, 3+rng.Intn(3); i < k; i++ {
		mk(rng.Intn(3))
	}
	w.flush()
	// one running Job finishes; the event is not delivered yet
	fin := running[rng.Intn(len(running))]
	w.api.Mutate("jobs", "ns/"+fin, func(o runtime.Object) { o.(*execution.Job).Status.Phase = execution.JobSucceeded })
	c.Emit(fmt.Sprintf("q.phase %s 1", fin), w.digest())
	w.workMid("cfg", 1+rng.Intn(2))
	for i, k := 0, 2+rng.Intn(6); i < k; i++ {
		switch rng.Intn(7) {
		case 0:
			w.flush()
		case 1:
			w.finishRejected()
		case 2:
			mk(rng.Intn(3))
		case 3:
			w.workMid("cfg", 1+rng.Intn(2))
		case 4:
			if el := w.eligibleSA(); len(el) > 0 {
				w.postponeRace(el[rng.Intn(len(el))])
			} else {
				w.work("cfg")
			}
		default:
			w.work("cfg")
		}
	}
	w.settle()
	if c.Stats["q.start-ok"] > starts0 {
		c.Nontrivial()
	}
}

func queueCase(c *Ctx, rng *rand.Rand) {
	w := &queueWorld{c: c, rng: rng, outOfEnvelope: map[string]bool{}, maxSeen: map[string]int64{}}
	w.ctx = sim.NewContext()
	defer func() {
		for range w.ctx.Sim().Drifted() {
			c.Count("observed.cache-object-written-through") // code under test modified an object it got from a lister
		}
	}()
	w.clk = fakeclock.NewFakeClock(sim.VirtualBase.Add(time.Duration(rng.Intn(1000)) * time.Second))
	ktime.Clock = w.clk
	w.api = sim.NewSimAPI(w.clk)
	w.api.Install(w.ctx)
	w.api.Observe = w.monitorCall
	nJC := 1 + rng.Intn(3)
	jcNames := []string{"a", "b", "c"}[:nJC]
	for _, n := range jcNames {
		w.uids = append(w.uids, "u-"+n)
	}
	w.uids = append(w.uids, "u-x")
	w.boot()
	c.Emit(fmt.Sprintf("q.reset %d %s", w.now(), strings.Join(w.uids, ",")), w.digest())

	maxSteps := 40
	maxJobs := 8
	if c.Tier == "thorough" {
		maxSteps, maxJobs = 200, 20
	}
	nsteps := 8 + rng.Intn(maxSteps)
	jobN := 0
	mkJC := func(n string) {
		if w.api.Get("jobconfigs", "ns/"+n) != nil {
			return
		}
		jc := &execution.JobConfig{ObjectMeta: metav1.ObjectMeta{Namespace: "ns", Name: n, UID: types.UID("u-" + n)}}
		mc := "-"
		if rng.Intn(3) > 0 {
			m := int64([]int{1, 1, 2, 3, 7}[rng.Intn(5)])
			jc.Spec.Concurrency.MaxConcurrency = &m
			mc = fmt.Sprint(m)
		}
		_, _ = w.api.Create("jobconfigs", jc, false)
		if jc.Spec.Concurrency.GetMaxConcurrency() > w.maxSeen["u-"+n] {
			w.maxSeen["u-"+n] = jc.Spec.Concurrency.GetMaxConcurrency()
		}
		c.Emit(fmt.Sprintf("q.jc %s %s", n, mc), w.digest())
	}
	for _, n := range jcNames {
		if rng.Intn(5) > 0 {
			mkJC(n)
		}
	}
	if rng.Intn(4) > 0 {
		w.flush()
	}
	starts0 := c.Stats["q.start-ok"]
	for step := 0; step < nsteps; step++ {
		if w.envStep(jcNames, &jobN, maxJobs) {
			continue
		}
		switch r := rng.Intn(100); {
		case r < 6: // create a JobConfig
			mkJC(jcNames[rng.Intn(len(jcNames))])
		case r < 9: // change maxConcurrency
			n := jcNames[rng.Intn(len(jcNames))]
			m := int64(1 + rng.Intn(3))
			ok := w.api.Mutate("jobconfigs", "ns/"+n, func(o runtime.Object) { o.(*execution.JobConfig).Spec.Concurrency.MaxConcurrency = &m })
			if ok && m > w.maxSeen["u-"+n] {
				w.maxSeen["u-"+n] = m
			}
			c.Emit(fmt.Sprintf("q.jcmax %s %d", n, m), w.digest())
		case r < 10: // delete a JobConfig
			n := jcNames[rng.Intn(len(jcNames))]
			w.api.Remove("jobconfigs", "ns/"+n)
			w.outOfEnvelope["u-"+n] = true
			c.Emit("q.jcdel "+n, w.digest())
		case r < 13 && len(w.eligibleSA()) > 0: // the user edits startAfter of a not-yet-started Job
			el := w.eligibleSA()
			name := el[rng.Intn(len(el))]
			if rng.Intn(2) == 0 {
				w.postponeRace(name)
				break
			}
			now := w.now() / 1e9
			var t *int64
			switch rng.Intn(7) {
			case 0: // clear
			case 1:
				t = ptrI(now - int64(rng.Intn(100)))
			case 2:
				t = ptrI(now)
			case 3:
				t = ptrI(now + 1)
			case 4, 5: // move the current value (postpone / advance)
				if sp := w.apiJob(name).Spec.StartPolicy; sp.StartAfter != nil {
					t = ptrI(sp.StartAfter.Unix() + int64(rng.Intn(7)) - 2)
				} else {
					t = ptrI(now + 1 + int64(rng.Intn(3)))
				}
			default:
				t = ptrI(now + int64(rng.Intn(120)))
			}
			w.editStartAfter(name, t)
		case r < 30 && jobN < maxJobs: // create a Job
			jobN++
			name := fmt.Sprintf("j%02d", jobN)
			j := &execution.Job{ObjectMeta: metav1.ObjectMeta{Namespace: "ns", Name: name}}
			label, on, ou := "-", "-", "-"
			if rng.Intn(6) > 0 {
				n := jcNames[rng.Intn(len(jcNames))]
				uid := "u-" + n
				kind := rng.Intn(20)
				if kind != 0 { // label
					j.Labels = map[string]string{jobconfig.LabelKeyJobConfigUID: uid}
					label = uid
				}
				if kind != 1 { // owner ref
					ref := metav1.OwnerReference{APIVersion: execution.GroupVersion.String(), Kind: execution.KindJobConfig, Name: n, UID: types.UID(uid)}
					t := true
					ref.Controller = &t
					if kind == 2 {
						ref.UID = "u-x"
					}
					j.OwnerReferences = []metav1.OwnerReference{ref}
					on, ou = n, string(ref.UID)
				}
				if kind <= 2 {
					w.outOfEnvelope[uid] = true
					c.Count("q.job.out-of-envelope")
				}
			}
			hasPol, pol, sa := false, 0, "-"
			if rng.Intn(8) > 0 {
				hasPol = true
				sp := &execution.StartPolicySpec{}
				pol = rng.Intn(4)
				sp.ConcurrencyPolicy = []execution.ConcurrencyPolicy{"Allow", "Forbid", "Enqueue", ""}[pol]
				if pol == 3 {
					pol = 0
				}
				if rng.Intn(3) == 0 {
					var t int64
					switch rng.Intn(5) {
					case 0:
						t = w.now()/1e9 - int64(rng.Intn(100))
					case 1:
						t = w.now() / 1e9
					case 2:
						t = w.now()/1e9 + 1
					default:
						t = w.now()/1e9 + int64(rng.Intn(120))
					}
					mtt := metav1.NewTime(time.Unix(t, 0))
					sp.StartAfter = &mtt
					sa = fmt.Sprint(t)
				}
				j.Spec.StartPolicy = sp
			}
			// distinct creation seconds per history: advance the clock by one second first
			w.clk.Step(time.Second)
			c.Emit("q.adv 1000000000", w.digest())
			_, _ = w.api.Create("jobs", j, false)
			w.jobsSeen = append(w.jobsSeen, name)
			c.Emit(fmt.Sprintf("q.job %s %s %s %s %s %d %s", name, label, on, ou, B(hasPol), pol, sa), w.digest())
		case r < 40 && len(w.jobsSeen) > 0: // finish / flip phase
			name := w.jobsSeen[rng.Intn(len(w.jobsSeen))]
			term := rng.Intn(8) > 0
			ph := execution.JobSucceeded
			if !term {
				ph = execution.JobRunning
			}
			if j := w.apiJob(name); j != nil && !term && j.Status.Phase.IsTerminal() {
				// a finished Job becoming unfinished is outside C11; the counter may lag
				if uid := j.Labels[jobconfig.LabelKeyJobConfigUID]; uid != "" {
					w.outOfEnvelope[uid] = true
				}
			}
			w.api.Mutate("jobs", "ns/"+name, func(o runtime.Object) { o.(*execution.Job).Status.Phase = ph })
			c.Emit(fmt.Sprintf("q.phase %s %s", name, B(term)), w.digest())
		case r < 44 && len(w.jobsSeen) > 0: // delete
			name := w.jobsSeen[rng.Intn(len(w.jobsSeen))]
			if rng.Intn(3) == 0 {
				// deletion of a Job that still has its finalizer: it only gets a deletion timestamp
				now := metav1.NewTime(time.Unix(w.clk.Now().Unix(), 0))
				w.api.Mutate("jobs", "ns/"+name, func(o runtime.Object) {
					j := o.(*execution.Job)
					if j.DeletionTimestamp == nil {
						j.DeletionTimestamp = &now
						j.Finalizers = []string{"execution.furiko.io/delete-dependents-finalizer"}
					}
				})
				c.Emit("q.markdel "+name, w.digest())
			} else {
				w.api.Remove("jobs", "ns/"+name)
				c.Emit("q.del "+name, w.digest())
			}
		case r < 47 && len(w.jobsSeen) > 0: // external start (not through the queue controller)
			name := w.jobsSeen[rng.Intn(len(w.jobsSeen))]
			if j := w.apiJob(name); j != nil {
				if uid := j.Labels[jobconfig.LabelKeyJobConfigUID]; uid != "" && !jobutil.IsStarted(j) {
					w.outOfEnvelope[uid] = true
				}
			}
			w.api.Mutate("jobs", "ns/"+name, func(o runtime.Object) {
				j := o.(*execution.Job)
				if j.Status.StartTime == nil {
					j.Status.StartTime = ktime.Now()
				}
			})
			c.Emit("q.extstart "+name, w.digest())
		case r < 55: // advance time
			d := int64([]int{1, 1, 2, 30, 200}[rng.Intn(5)])*1e9 + int64(rng.Intn(3))*int64(rng.Intn(1e9))
			w.clk.Step(time.Duration(d))
			c.Emit(fmt.Sprintf("q.adv %d", d), w.digest())
		case r < 65:
			res := []string{"jobs", "jobconfigs"}[rng.Intn(2)]
			inf := w.ctx.Sim().Jobs()
			if res == "jobconfigs" {
				inf = w.ctx.Sim().JobConfigs()
			}
			w.api.DeliverOne(res, inf)
			c.Emit("q.deliver "+res, w.digest())
		case r < 75:
			h := rng.Intn(2)
			w.ctx.Sim().Jobs().NotifyNext(h)
			c.Emit(fmt.Sprintf("q.notify %d", h), w.digest())
		case r < 80:
			w.flush()
		case r < 82:
			w.ctx.Sim().Jobs().Resync()
			c.Emit("q.resync", w.digest())
		case r < 93:
			if rng.Intn(4) == 0 {
				w.workMid("cfg", 1+rng.Intn(3))
			} else {
				which := []string{"cfg", "cfg", "ind"}[rng.Intn(3)]
				w.work(which)
				if w.startedInLastStep() && rng.Intn(4) == 0 {
					w.doubleSyncRace(which)
				}
			}
		case r < 96:
			f := []string{sim.FaultErr, sim.FaultConflict, sim.FaultTimeout}[rng.Intn(3)]
			if rng.Intn(20) == 0 {
				f = sim.FaultAppliedErr
				w.outside("E-ErrNotApplied")
			}
			w.faults = append(w.faults, f)
			c.Emit("q.fault "+f, w.digest())
		case r < 98: // restart
			w.restartRandom()
		default:
			w.settle()
		}
	}
	w.settle()
	if c.Stats["q.start-ok"] > starts0 {
		c.Nontrivial()
	}
}

func ptrI(v int64) *int64 { return &v }

// eligibleSA lists the Jobs whose startAfter the user may edit: on the server, with a start
// policy, not started (the validating webhook freezes spec.startPolicy once the Job is started).
func (w *queueWorld) eligibleSA() []string {
	var out []string
	for _, k := range w.api.Keys("jobs") {
		if j := w.api.Get("jobs", k).(*execution.Job); j.Spec.StartPolicy != nil && j.Status.StartTime == nil {
			out = append(out, j.Name)
		}
	}
	return out
}

// editStartAfter (op `q.sa <job> <t|->`): the user sets, clears, postpones or advances
// spec.startPolicy.startAfter (unix seconds) of an existing, not-yet-started Job that has a start
// policy; any other Job is left alone (both sides apply the same guard).
func (w *queueWorld) editStartAfter(name string, t *int64) {
	arg := "-"
	if t != nil {
		arg = fmt.Sprint(*t)
	}
	if j := w.apiJob(name); j != nil && j.Spec.StartPolicy != nil && j.Status.StartTime == nil {
		old := j.Spec.StartPolicy.StartAfter
		kind := "same"
		switch {
		case old == nil && t != nil:
			kind = "set"
		case old != nil && t == nil:
			kind = "clear"
		case old != nil && t != nil && *t > old.Unix():
			kind = "postpone"
		case old != nil && t != nil && *t < old.Unix():
			kind = "advance"
		}
		w.c.Count("q.sa")
		w.c.Count("q.sa.kind." + kind)
		if jobutil.IsQueued(j) {
			w.c.Count("q.sa.queued")
			if co, ok := w.ctx.Sim().Jobs().CacheGet(j); ok {
				// the controller's cache now holds an older startAfter until the event is delivered
				w.c.Count("q.sa.queued.cached")
				if co.(*execution.Job).ResourceVersion != j.ResourceVersion {
					w.c.Count("q.sa.queued.cache-already-stale")
				}
			}
		}
		w.api.Mutate("jobs", "ns/"+name, func(o runtime.Object) {
			sp := o.(*execution.Job).Spec.StartPolicy
			if t == nil {
				sp.StartAfter = nil
			} else {
				mt := metav1.NewTime(time.Unix(*t, 0))
				sp.StartAfter = &mt
			}
		})
	} else {
		w.c.Count("q.sa.not-applicable")
	}
	w.c.Emit(fmt.Sprintf("q.sa %s %s", name, arg), w.digest())
}

// postponeRace: the directed history behind seeded change C07w2-2.  The Job gets a startAfter
// just ahead of the clock and (usually) the controller sees it and arms its timer; then the user
// postpones it and, before that update reaches the cache, time passes the OLD startAfter and the
// workers run: the cached copy says "due", the server says "later".  The start write carries the
// cached resourceVersion and must be refused.
func (w *queueWorld) postponeRace(name string) {
	w.c.Count("q.sa.race")
	near := w.now()/1e9 + 1 + int64(w.rng.Intn(2))
	w.editStartAfter(name, &near)
	if w.rng.Intn(4) > 0 {
		w.flush()
	}
	if w.rng.Intn(3) > 0 {
		w.work("cfg")
		w.work("ind")
	}
	far := near + 1 + int64(w.rng.Intn(100))
	w.editStartAfter(name, &far) // not delivered
	d := near*1e9 - w.now() + []int64{0, 0, 1, 1e9, 2e9}[w.rng.Intn(5)]
	w.clk.Step(time.Duration(d))
	w.c.Emit(fmt.Sprintf("q.adv %d", d), w.digest())
	w.work("cfg")
	w.work("ind")
}

// startedInLastStep: the last worker step applied a start write.
func (w *queueWorld) startedInLastStep() bool {
	for _, c := range w.api.Calls {
		if c.Subresource == "status" && c.Result == "ok" {
			return true
		}
	}
	return false
}

// doubleSyncRace: the directed history behind seeded change C11w2-2.  A worker step has just
// started a Job; its own update event is NOT delivered; at least one second later the key is
// queued again (resync of the stale cache) and the worker runs a second time on the cached,
// still unstarted copy.  The second start write must be refused (stale resourceVersion).
func (w *queueWorld) doubleSyncRace(which string) {
	w.c.Count("q.double-sync-stale")
	d := int64(1+w.rng.Intn(2)) * 1e9
	w.clk.Step(time.Duration(d))
	w.c.Emit(fmt.Sprintf("q.adv %d", d), w.digest())
	ji := w.ctx.Sim().Jobs()
	ji.Resync()
	w.c.Emit("q.resync", w.digest())
	for ji.PendingFor(1) > 0 {
		ji.NotifyNext(1)
		w.c.Emit("q.notify 1", w.digest())
	}
	w.work(which)
}

// lastCall renders the last controller call of the last worker step ("" if none).
func (w *queueWorld) lastCall() string {
	if len(w.api.Calls) == 0 {
		return ""
	}
	return callsStr(w.api.Calls[len(w.api.Calls)-1:])
}

// addJobSA creates Job name (owned by JobConfig n, or independent when n == "") with a start
// policy (0 Allow, 1 Forbid, 2 Enqueue) and startAfter sa, one second after the previous one.
func (w *queueWorld) addJobSA(name, n string, pol int, sa int64) {
	j := &execution.Job{ObjectMeta: metav1.ObjectMeta{Namespace: "ns", Name: name}}
	label, on, ou := "-", "-", "-"
	if n != "" {
		uid := "u-" + n
		j.Labels = map[string]string{jobconfig.LabelKeyJobConfigUID: uid}
		t := true
		j.OwnerReferences = []metav1.OwnerReference{{APIVersion: execution.GroupVersion.String(), Kind: execution.KindJobConfig, Name: n, UID: types.UID(uid), Controller: &t}}
		label, on, ou = uid, n, uid
	}
	mt := metav1.NewTime(time.Unix(sa, 0))
	j.Spec.StartPolicy = &execution.StartPolicySpec{ConcurrencyPolicy: []execution.ConcurrencyPolicy{"Allow", "Forbid", "Enqueue"}[pol], StartAfter: &mt}
	w.clk.Step(time.Second)
	w.c.Emit("q.adv 1000000000", w.digest())
	_, _ = w.api.Create("jobs", j, false)
	w.jobsSeen = append(w.jobsSeen, name)
	w.c.Emit(fmt.Sprintf("q.job %s %s %s %s 1 %d %d", name, label, on, ou, pol, sa), w.digest())
}

func (w *queueWorld) adv(d time.Duration) {
	w.clk.Step(d)
	w.c.Emit(fmt.Sprintf("q.adv %d", int64(d)), w.digest())
}

// requeueByResync re-queues the keys of all cached Jobs without delivering anything new: one
// resync round, run by the queue controller's handler only.
func (w *queueWorld) requeueByResync() {
	ji := w.ctx.Sim().Jobs()
	ji.Resync()
	w.c.Emit("q.resync", w.digest())
	for ji.PendingFor(1) > 0 {
		ji.NotifyNext(1)
		w.c.Emit("q.notify 1", w.digest())
	}
}

// finishRejected plays the job controller's part: a Job carrying the admission-error
// annotation becomes terminal (phase AdmissionError).
func (w *queueWorld) finishRejected() {
	for _, k := range w.api.Keys("jobs") {
		j := w.api.Get("jobs", k).(*execution.Job)
		if _, bad := jobutil.GetAdmissionErrorMessage(j); bad && !j.Status.Phase.IsTerminal() {
			w.api.Mutate("jobs", k, func(o runtime.Object) { o.(*execution.Job).Status.Phase = execution.JobAdmissionError })
			w.c.Emit(fmt.Sprintf("q.phase %s 1", j.Name), w.digest())
		}
	}
}

func (w *queueWorld) flush() {
	w.api.DeliverAll(w.ctx.Sim())
	w.c.Emit("q.flush", w.digest())
}

// settle drives the system to quiescence (deliver, notify, fire timers that are due, work
// until idle, one resync round) and runs the quiescent-state monitors.  A watch outage is ended by
// a relist first.  The fixpoint reached BEFORE the resync round is judged too, by counters only
// (q.settle.stuck-before-resync, q.settle.needed-resync-to-converge): a wake-up that was lost and is
// repaired only by the periodic resync (F10; a Job notification dropped because its JobConfig was
// not cached yet; a relist that pairs two different Jobs) is invisible to the final monitors by
// construction, the counters make it visible in the evidence.
func (w *queueWorld) settle() {
	w.faults = nil
	w.c.Emit("q.clearfaults", w.digest())
	if w.outage {
		w.relist()
	}
	stuckBefore, judgedBefore := 0, false
	for round := 0; round < 3; round++ {
		for iter := 0; iter < 50; iter++ {
			w.flush()
			w.finishRejected()
			progressed := false
			for _, which := range []string{"cfg", "ind"} {
				q := w.cfgQ
				if which == "ind" {
					q = w.indQ
				}
				for n := 0; n < 50; n++ {
					q.Advance()
					if q.Len() == 0 {
						break
					}
					w.work(which)
					progressed = true
				}
			}
			if !progressed && len(w.api.Pending["jobs"]) == 0 && len(w.api.Pending["jobconfigs"]) == 0 {
				break
			}
		}
		if round == 0 {
			// the fixpoint without resync: only judged when no timer or rate-limited retry is
			// still pending (otherwise a queued Job may simply be waiting for it)
			if len(w.cfgQ.Delayed()) == 0 && len(w.indQ.Delayed()) == 0 {
				judgedBefore = true
				stuckBefore = len(w.quiescentLiveness(false))
			} else {
				w.c.Count("q.settle.timers-pending-before-resync")
			}
			w.ctx.Sim().Jobs().Resync()
			w.c.Emit("q.resync", w.digest())
		}
		if round == 1 {
			// let rate-limited retries fire
			w.clk.Step(2 * time.Second)
			w.c.Emit("q.adv 2000000000", w.digest())
		}
	}
	w.c.Count("q.settle")
	// quiescent monitors
	for _, u := range w.uids {
		cnt := w.store.CountActiveJobsForConfig(&execution.JobConfig{ObjectMeta: metav1.ObjectMeta{UID: types.UID(u)}})
		if act := w.trueActive(u, ""); cnt != act {
			if w.outOfEnvelope[u] {
				w.countOutside("quiescent-exact")
				continue
			}
			w.c.Violate("C05", "quiescent-exact", "counter of %s is %d but %d Jobs are active", u, cnt, act)
		}
	}
	stuckAfter := w.quiescentLiveness(true)
	if judgedBefore && stuckBefore > 0 {
		w.c.Count("q.settle.stuck-before-resync")
		if len(stuckAfter) == 0 {
			w.c.Count("q.settle.needed-resync-to-converge")
		}
	}
}

// quiescentLiveness lists the due, still queued Jobs that the liveness clauses of C06/C07 say
// must have been started (or rejected) in a quiescent state; with report it raises the monitors.
func (w *queueWorld) quiescentLiveness(report bool) (stuck []string) {
	v := func(property, monitor, format string, args ...interface{}) {
		if report {
			w.c.Violate(property, monitor, format, args...)
		}
	}
	var names []string
	for _, k := range w.api.Keys("jobs") {
		names = append(names, k)
	}
	sort.Strings(names)
	for _, k := range names {
		j := w.api.Get("jobs", k).(*execution.Job)
		if !jobutil.IsQueued(j) {
			continue
		}
		if _, bad := jobutil.GetAdmissionErrorMessage(j); bad {
			continue
		}
		sp := j.Spec.StartPolicy
		due := sp == nil || sp.StartAfter == nil || sp.StartAfter.UnixNano() <= w.now()
		if !due {
			continue
		}
		uid := j.Labels[jobconfig.LabelKeyJobConfigUID]
		ref := metav1.GetControllerOf(j)
		if ref == nil && uid == "" {
			stuck = append(stuck, j.Name)
			v("C07", "independent-eventually-starts", "independent job %s is due but still queued at quiescence", j.Name)
			continue
		}
		if ref == nil || uid == "" || w.outOfEnvelope[uid] {
			continue
		}
		jco := w.api.Get("jobconfigs", "ns/"+ref.Name)
		if jco == nil {
			continue
		}
		jc := jco.(*execution.JobConfig)
		pol := execution.ConcurrencyPolicy("")
		if sp != nil {
			pol = sp.ConcurrencyPolicy
		}
		// C07 "once the time has passed (and, for JobConfig Jobs, the concurrency policy allows) it
		// is started without further user action": the owned Job's side of eventually-starts
		switch pol {
		case "Enqueue":
			if w.trueActive(uid, "") < jc.Spec.Concurrency.GetMaxConcurrency() {
				stuck = append(stuck, j.Name)
				v("C06", "no-stuck-job", "Enqueue job %s still queued at quiescence with %d/%d active", j.Name, w.trueActive(uid, ""), jc.Spec.Concurrency.GetMaxConcurrency())
				v("C07", "eventually-starts", "Enqueue job %s of %s is due and the policy allows it (%d/%d active) but it is still queued at quiescence", j.Name, ref.Name, w.trueActive(uid, ""), jc.Spec.Concurrency.GetMaxConcurrency())
			}
		case "Forbid":
			stuck = append(stuck, j.Name)
			if w.trueActive(uid, "") < jc.Spec.Concurrency.GetMaxConcurrency() {
				v("C06", "no-stuck-job", "Forbid job %s neither started nor rejected at quiescence with free capacity", j.Name)
				v("C07", "eventually-starts", "Forbid job %s of %s is due and the policy allows it (%d/%d active) but it is still queued at quiescence", j.Name, ref.Name, w.trueActive(uid, ""), jc.Spec.Concurrency.GetMaxConcurrency())
			} else {
				v("C06", "forbid-rejected", "Forbid job %s still queued (not rejected) at quiescence while at the limit", j.Name)
			}
		default:
			stuck = append(stuck, j.Name)
			v("C06", "allow-always-starts", "Allow job %s is due but still queued at quiescence", j.Name)
			v("C07", "eventually-starts", "Allow job %s of %s is due but still queued at quiescence", j.Name, ref.Name)
		}
	}
	return stuck
}
