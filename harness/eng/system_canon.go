package eng

import (
	"fmt"
	"math/rand"
	"os"
	"sort"
	"strings"

	execution "github.com/furiko-io/furiko/apis/execution/v1alpha1"
	jobutil "github.com/furiko-io/furiko/pkg/execution/util/job"
	"github.com/furiko-io/furiko/pkg/execution/util/jobconfig"
	"github.com/furiko-io/furiko/pkg/execution/util/parallel"
)

// canon renders the observable outcome of a world, modulo timestamps, uids and resource
// versions: the set of Jobs (cron Jobs carry their JobConfig and schedule time in their name and
// annotation), per Job phase / result / started / kill / deletion / admission error and, per
// parallel index, the attempts that exist with their coarse outcome (NOT reasons / messages:
// DESIGN Appendix A.2); the pods; per JobConfig the queued / active lists and lastScheduled.
func (w *sysWorld) canon() string {
	var b strings.Builder
	for _, jc := range w.jobconfigs() {
		var q, a []string
		for _, r := range jc.Status.QueuedJobs {
			q = append(q, r.Name)
		}
		for _, r := range jc.Status.ActiveJobs {
			a = append(a, r.Name)
		}
		sort.Strings(q)
		sort.Strings(a)
		ls := "-"
		if jc.Status.LastScheduled != nil {
			ls = fmt.Sprint(jc.Status.LastScheduled.Unix())
		}
		dis := jc.Spec.Schedule != nil && jc.Spec.Schedule.Disabled
		fmt.Fprintf(&b, "jobconfig %s disabled=%v state=%s queued=%d[%s] active=%d[%s] lastScheduled=%s\n", jc.Name, dis, jc.Status.State,
			jc.Status.Queued, strings.Join(q, ","), jc.Status.Active, strings.Join(a, ","), ls)
	}
	for _, j := range w.jobs() {
		res := "-"
		if f := j.Status.Condition.Finished; f != nil {
			res = string(f.Result)
		}
		_, adm := jobutil.GetAdmissionErrorMessage(j)
		byIndex := map[string][]string{}
		for _, r := range j.Status.Tasks {
			h, _ := parallel.HashIndex(parallel.GetDefaultIndex())
			if r.ParallelIndex != nil {
				h, _ = parallel.HashIndex(*r.ParallelIndex)
			}
			byIndex[h] = append(byIndex[h], fmt.Sprintf("%d:%s", r.RetryIndex, canonTask(r)))
		}
		var idx []string
		for _, h := range SortedKeys(byIndex) {
			sort.Strings(byIndex[h])
			idx = append(idx, h+"("+strings.Join(byIndex[h], " ")+")")
		}
		fmt.Fprintf(&b, "job %s cfg=%s sched=%s policy=%s phase=%s result=%s started=%v kill=%v deleting=%v finalizer=%v adm=%v tasks=%s\n", j.Name,
			cd(j.Labels[jobconfig.LabelKeyJobConfigUID] != ""), orDash(j.Annotations["execution.furiko.io/schedule-time"]), orDash(string(sysPolicy(j))),
			orDash(string(j.Status.Phase)), res, jobutil.IsStarted(j), j.Spec.KillTimestamp != nil, j.DeletionTimestamp != nil, hasFinalizer(j), adm, strings.Join(idx, ";"))
	}
	for _, p := range w.pods() {
		fmt.Fprintf(&b, "pod %s phase=%s deleting=%v\n", p.Name, orDash(string(p.Status.Phase)), p.DeletionTimestamp != nil)
	}
	return b.String()
}

// canonTask: the coarse outcome of one attempt.
func canonTask(r execution.TaskRef) string {
	switch {
	case r.FinishTimestamp.IsZero() && r.RunningTimestamp.IsZero():
		return "pending"
	case r.FinishTimestamp.IsZero():
		return "running"
	case r.Status.Result == execution.TaskSucceeded:
		return "succeeded"
	}
	if r.Status.Result == execution.TaskKilled || r.Status.Result == "" {
		// a task the controller killed is recorded Killed only if the status update that carried
		// the marker went through; otherwise it ends as DeletedFinalStateUnknown with no result
		// (DESIGN Appendix A.2).  Both are "ended without success or failure of its own".
		return "ended:killed-or-lost"
	}
	return "ended:" + orDash(string(r.Status.Result))
}

func cd(v interface{}) string {
	switch x := v.(type) {
	case string:
		if x == "" {
			return "_"
		}
		return x
	case bool:
		if x {
			return "y"
		}
		return "n"
	}
	return fmt.Sprint(v)
}

func canonDiff(ref, got string) string {
	rl, gl := strings.Split(strings.TrimSpace(ref), "\n"), strings.Split(strings.TrimSpace(got), "\n")
	rs, gs := map[string]bool{}, map[string]bool{}
	for _, l := range rl {
		rs[l] = true
	}
	for _, l := range gl {
		gs[l] = true
	}
	var out []string
	for _, l := range rl {
		if !gs[l] && l != "" {
			out = append(out, "fault-free: "+l)
		}
	}
	for _, l := range gl {
		if !rs[l] && l != "" {
			out = append(out, "this run:   "+l)
		}
	}
	return strings.Join(out, " | ")
}

// ---------------------------------------------------------------- the engine

func runSystem(c *Ctx) {
	runSystemScenarios(c)
	c.ForCases(func(i int, rng *rand.Rand) {
		if i%4 == 3 || os.Getenv("SYS_FREE") != "" {
			systemFreeCase(c, i, rng)
		} else {
			systemCase(c, i, rng)
		}
	})
}

var sysDebug = os.Getenv("SYS_DEBUG") != ""

func sysKinds() []string { return []string{"err", "conflict", "timeout"} }

// genPlans builds the fault plans of one workload from the number of controller calls M the
// reference run issued.
func genPlans(rng *rand.Rand, M int, tier string) []*sysFaultPlan {
	var plans []*sysFaultPlan
	if M == 0 {
		return nil
	}
	kinds := sysKinds()
	salt := rng.Intn(3)
	single := func(i int) *sysFaultPlan {
		return &sysFaultPlan{Faults: []sysFault{{At: i, Kind: kinds[(i+salt)%3], Mode: "single", N: 1}}}
	}
	nSingle, nSame, nBurst, nMulti, maxRep := 14, 3, 2, 2, 5
	if tier == "thorough" {
		nSingle, nSame, nBurst, nMulti, maxRep = 40, 8, 6, 6, 7
	}
	if M <= 40 && tier != "thorough" || M <= 90 && tier == "thorough" {
		// short workload: every call index is a fault point
		for i := 1; i <= M; i++ {
			plans = append(plans, single(i))
		}
	} else {
		for _, i := range rng.Perm(M)[:min(M, nSingle)] {
			plans = append(plans, single(i+1))
		}
	}
	for k := 0; k < nSame; k++ {
		plans = append(plans, &sysFaultPlan{Faults: []sysFault{{At: 1 + rng.Intn(M), Kind: kinds[rng.Intn(3)], Mode: "same", N: 2 + rng.Intn(maxRep-1)}}})
	}
	for k := 0; k < nBurst; k++ {
		plans = append(plans, &sysFaultPlan{Faults: []sysFault{{At: 1 + rng.Intn(M), Kind: kinds[rng.Intn(3)], Mode: "burst", N: 2 + rng.Intn(3)}}})
	}
	for k := 0; k < nMulti; k++ {
		p := &sysFaultPlan{}
		for n := 3 + rng.Intn(4); n > 0; n-- {
			p.Faults = append(p.Faults, sysFault{At: 1 + rng.Intn(M), Kind: kinds[rng.Intn(3)], Mode: []string{"single", "single", "same"}[rng.Intn(3)], N: 1 + rng.Intn(3)})
		}
		plans = append(plans, p)
	}
	return plans
}

func systemCase(c *Ctx, i int, rng *rand.Rand) {
	seed := rng.Int63()
	wl := genSysWorkload(seed, rng, c.Tier)
	label := fmt.Sprintf("workload %d", i)
	chaosSeed := rng.Int63()
	// reference run 1: generates the stimuli
	ref := runWorkload(c, wl, label+" fault-free", nil, chaosSeed, rand.New(rand.NewSource(rng.Int63())), nil, nil, false)
	c.Count("sys.workloads")
	c.Count(fmt.Sprintf("sys.workload.calls-bucket.%d", min(ref.calls/25*25, 200)))
	if sysDebug {
		fmt.Fprintf(os.Stderr, "== %s: %d calls, %d barriers, %d actions\n%s\n%s\n", label, ref.calls, len(ref.canon), ref.w.actions, wl.describe(), strings.Join(ref.w.trace, "\n"))
		fmt.Fprintf(os.Stderr, "-- final canon:\n%s\n", ref.canon[len(ref.canon)-1])
	}
	// reference run 2: another interleaving; the outcome at every barrier must be the same,
	// otherwise the workload's outcome depends on the schedule and cannot serve as an oracle
	stable := true
	runWorkload(c, wl, label+" fault-free, second interleaving", nil, chaosSeed^0x5bd1e995, nil, ref,
		func(w *sysWorld, b int, what, diff string) {
			stable = false
			c.Count("sys.workload-schedule-dependent")
			if sysDebug {
				fmt.Fprintf(os.Stderr, "!! %s schedule dependent at barrier %d (%s): %s\n%s\n", label, b, what, diff, strings.Join(w.trace, "\n"))
			}
		}, false)
	if !stable {
		return
	}
	if ref.calls > 0 {
		c.Nontrivial()
	}
	plans := genPlans(rng, ref.calls, c.Tier)
	for pi, plan := range plans {
		lbl := fmt.Sprintf("%s faulty run %d plan [%s]", label, pi, plan)
		bad := false
		r := runWorkload(c, wl, lbl, plan, chaosSeed, nil, ref,
			func(w *sysWorld, b int, what, diff string) {
				bad = true
				c.Violate("C20", "converges-same-outcome", "%s: at barrier %d (after %s) the quiescent state differs from the fault-free run: %s || %s || trace: %s",
					lbl, b, what, diff, wl.describe(), strings.Join(tail(w.trace, 60), " ; "))
			}, true)
		c.Count("sys.faulty-runs")
		if r.injected > 0 {
			c.Count("sys.faulty-runs.fault-injected")
		} else {
			c.Count("sys.faulty-runs.fault-not-reached")
		}
		// did the fault bite: did the run differ from the reference in the middle?
		diverged := len(r.digests) != len(ref.digests)
		for k := 0; !diverged && k < len(r.digests); k++ {
			diverged = r.digests[k] != ref.digests[k]
		}
		if diverged {
			c.Count("sys.faulty-runs.diverged-mid-run")
		}
		if bad {
			c.Count("sys.faulty-runs.not-converged")
		}
		if len(c.Violations) > 40 {
			return
		}
	}
}

func tail(l []string, n int) []string {
	if len(l) > n {
		return l[len(l)-n:]
	}
	return l
}

// systemFreeCase: one freely interleaved run.  EVERY action — clock advance, cron tick, single
// watch delivery, single handler notification, single controller step, kubelet progress, user
// operation — is chosen by the PRNG at any moment (no barriers), faults are sprinkled at random
// over the controller API calls, then the fault-free final phase runs.  The outcome of such a
// run depends on the schedule (Forbid, kill-versus-finish, same-second ties), so there is no
// reference run: judged by the safety monitors, retry-until-success, no-stuck-work at every
// quiescent point of the final phase, and "everything finished and cleaned up" at the end.
func systemFreeCase(c *Ctx, i int, rng *rand.Rand) {
	seed := rng.Int63()
	wl := genSysWorkload(seed, rng, c.Tier)
	plan := &sysFaultPlan{P: 20 + rng.Intn(150), Budget: 3 + rng.Intn(30), rng: rand.New(rand.NewSource(rng.Int63()))}
	label := fmt.Sprintf("workload %d (free interleaving) plan [%s]", i, plan)
	w := newSysWorld(c, wl, label, plan, true)
	nact := 80 + rng.Intn(150)
	if c.Tier == "thorough" {
		nact = 150 + rng.Intn(600)
	}
	created := map[int]bool{}
	jobN := 0
	for a := 0; a < nact; a++ {
		if rng.Intn(100) < 72 {
			w.chaos(rng, 1)
			continue
		}
		s := w.nextStim(rng, created, &jobN)
		s.Chaos = 0
		wl.stims = append(wl.stims, s)
		w.apply(s)
	}
	c.Count("sys.free-runs")
	if plan.injected > 0 {
		c.Count("sys.free-runs.fault-injected")
		c.Nontrivial()
	}
	w.finalPhase(func(string) bool { return true })
	w.mon.atEnd()
	if sysDebug {
		fmt.Fprintf(os.Stderr, "== %s\n%s\n%s\n", label, wl.describe(), strings.Join(w.trace, "\n"))
	}
}
