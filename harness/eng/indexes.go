package eng

import (
	"encoding/base32"
	"encoding/json"
	"fmt"
	"math/rand"
	"reflect"
	"regexp"
	"sort"
	"strconv"
	"strings"

	"github.com/mitchellh/hashstructure/v2"
	corev1 "k8s.io/api/core/v1"
	metav1 "k8s.io/apimachinery/pkg/apis/meta/v1"
	"k8s.io/apimachinery/pkg/types"
	"k8s.io/apimachinery/pkg/util/validation/field"

	execution "github.com/furiko-io/furiko/apis/execution/v1alpha1"
	"github.com/furiko-io/furiko/pkg/execution/taskexecutor/podtaskexecutor"
	"github.com/furiko-io/furiko/pkg/execution/tasks"
	jobutil "github.com/furiko-io/furiko/pkg/execution/util/job"
	"github.com/furiko-io/furiko/pkg/execution/util/parallel"
	"github.com/furiko-io/furiko/pkg/execution/validation"
	"github.com/furiko-io/furiko/pkg/execution/variablecontext"
)

// Engine "indexes" (property C14): the real parallel.GenerateIndexes / HashIndex / HashIndexes /
// GetParallelStatus / ComputeMissingIndexesForCreation, job.GenerateTaskName,
// variablecontext MakeVariablesFromTask, podtaskexecutor.NewPod and Validator.ValidateParallelismSpec
// on generated ParallelismSpecs.
//
// Ops (tokens; strings use ex(): every byte outside [A-Za-z0-9_.] is %XX, "" is %-; "~" = empty list):
//   idx.spec <asis|fixed> nil <hashes ;|->                               -> nil
//   idx.spec <asis|fixed> <count|-> <keys ;> <k|v;v&k|v> <strategy> <hashes ;|->   -> ok | invalid F<n>R<n>I<n>N<n>
//   idx.gen          -> all distinct outcomes of GenerateIndexes over repeated calls / map orders, " || "-joined
//   idx.hashes       -> HashIndexes: hashes by position, hashesIdx sorted by hash, first duplicate pair
//   idx.slots <all|p;p;..>  -> GetParallelStatus with one task per listed index position: hash:createdTasks per slot
//   idx.name <name> <retry> <index> <hash>            -> GenerateTaskName
//   idx.vars <name> <ns> <retry> <index>              -> MakeVariablesFromTask, sorted
//   idx.pod <job> <ns> <retry> <index> <hash> <vars;> -> NewPod: name, hash label, retry label, annotation index, env
//   idx.firstdup <hashes ;>                           -> first colliding pair j,i (harness) | -
//   idx.witness70 <hashes ;>                          -> 1 (the model answers 1 iff these are the hashes its F3 witness theorem uses)
// Index token: <num|->/<key>/<k=v,k=v|~> (matrix pairs sorted by key).
//
// Monitors (C14), all judged on the Go outputs against expectations computed here from the spec:
//   expansion-exact, deterministic-order, unexpected-panic, hash-format, hash-stable, hashindexes,
//   distinct-names, status-slot, missing-index, vars-carry-index, pod-carries-index,
//   hash-collision-below-known-threshold, and the admission monitors ("validation accepted AND the
//   clause cannot hold"): admit/hash-collision, admit/duplicate-keys, admit/duplicate-matrix-values,
//   admit/empty-matrix-values, admit/other.
//
// Known defect F3 (validation performs no distinctness check): the four class-specific admission
// monitors are raised ONLY inside the named corpus scenarios f3-*. In generated cases an accepted bad spec
// is attributed to a known class only if the harness itself can explain the badness from the spec:
//   F3a: two DIFFERENT indexes share the 6-character hash while their full 64-bit hashstructure
//        values differ (collision caused by the truncation);
//   F3b: the duplicate indexes are exactly the duplicates present in spec.withKeys;
//   F3c: the duplicate indexes are exactly those produced by duplicate values of a matrix key;
//   F3d: nondeterminism / panic of a withMatrix spec with >= 2 keys one of whose value lists is empty.
// Those are counted (stats known-class.*) and not raised; every accepted bad spec that is not explained
// this way raises admit/other, and all other monitors stay armed on every case.

func init() { Register("indexes", runIndexes) }

func ex(s string) string {
	if s == "" {
		return "%-"
	}
	var b strings.Builder
	for i := 0; i < len(s); i++ {
		ch := s[i]
		if ch >= 'a' && ch <= 'z' || ch >= 'A' && ch <= 'Z' || ch >= '0' && ch <= '9' || ch == '_' || ch == '.' {
			b.WriteByte(ch)
		} else {
			fmt.Fprintf(&b, "%%%02X", ch)
		}
	}
	return b.String()
}

func exList(l []string, sep string) string {
	if len(l) == 0 {
		return "~"
	}
	out := make([]string, len(l))
	for i, s := range l {
		out[i] = ex(s)
	}
	return strings.Join(out, sep)
}

func rawList(l []string, sep string) string {
	if len(l) == 0 {
		return "~"
	}
	return strings.Join(l, sep)
}

func showIdx(ix execution.ParallelIndex) string {
	n := "-"
	if ix.IndexNumber != nil {
		n = strconv.FormatInt(*ix.IndexNumber, 10)
	}
	var kv []string
	for _, k := range SortedKeys(ix.MatrixValues) {
		kv = append(kv, ex(k)+"="+ex(ix.MatrixValues[k]))
	}
	return n + "/" + ex(ix.IndexKey) + "/" + rawList(kv, ",")
}

func idxEqual(a, b execution.ParallelIndex) bool {
	if (a.IndexNumber == nil) != (b.IndexNumber == nil) {
		return false
	}
	if a.IndexNumber != nil && *a.IndexNumber != *b.IndexNumber {
		return false
	}
	if a.IndexKey != b.IndexKey || len(a.MatrixValues) != len(b.MatrixValues) {
		return false
	}
	for k, v := range a.MatrixValues {
		if w, ok := b.MatrixValues[k]; !ok || w != v {
			return false
		}
	}
	return true
}

type mcol struct {
	key  string
	vals []string
}

// hspec is the harness' own description of a spec (matrix columns in insertion order, keys distinct).
type hspec struct {
	isNil    bool
	count    *int64
	keys     []string
	matrix   []mcol
	strategy string
}

func (h *hspec) build(order []int) *execution.ParallelismSpec {
	if h.isNil {
		return nil
	}
	sp := &execution.ParallelismSpec{CompletionStrategy: execution.ParallelCompletionStrategy(h.strategy)}
	if h.count != nil {
		v := *h.count
		sp.WithCount = &v
	}
	if h.keys != nil {
		sp.WithKeys = append([]string{}, h.keys...)
	}
	if len(h.matrix) > 0 {
		sp.WithMatrix = make(map[string][]string)
		for i := range h.matrix {
			j := i
			if order != nil {
				j = order[i]
			}
			sp.WithMatrix[h.matrix[j].key] = append([]string{}, h.matrix[j].vals...)
		}
	}
	return sp
}

func (h *hspec) matrixTok() string {
	if len(h.matrix) == 0 {
		return "~"
	}
	var cols []string
	for _, c := range h.matrix {
		cols = append(cols, ex(c.key)+"|"+exList(c.vals, ";"))
	}
	return strings.Join(cols, "&")
}

func (h *hspec) kinds() int {
	n := 0
	if h.count != nil {
		n++
	}
	if len(h.keys) > 0 {
		n++
	}
	if len(h.matrix) > 0 {
		n++
	}
	return n
}

func hasDup(l []string) bool {
	seen := map[string]bool{}
	for _, s := range l {
		if seen[s] {
			return true
		}
		seen[s] = true
	}
	return false
}

// classD: withMatrix is the effective type, >= 2 keys, some value list empty.
func (h *hspec) classD() bool {
	if h.isNil || h.count != nil || len(h.keys) > 0 || len(h.matrix) < 2 {
		return false
	}
	for _, c := range h.matrix {
		if len(c.vals) == 0 {
			return true
		}
	}
	return false
}

// expected is the harness' own expansion: what the spec asks for (only for single-typed / empty / nil specs).
func (h *hspec) expected() ([]execution.ParallelIndex, bool) {
	zero := int64(0)
	switch {
	case h.isNil || h.kinds() == 0:
		return []execution.ParallelIndex{{IndexNumber: &zero}}, true
	case h.kinds() > 1:
		return nil, false
	case h.count != nil:
		if *h.count < 0 {
			return nil, false
		}
		out := make([]execution.ParallelIndex, 0, *h.count)
		for i := int64(0); i < *h.count; i++ {
			v := i
			out = append(out, execution.ParallelIndex{IndexNumber: &v})
		}
		return out, true
	case len(h.keys) > 0:
		out := make([]execution.ParallelIndex, 0, len(h.keys))
		for _, k := range h.keys {
			out = append(out, execution.ParallelIndex{IndexKey: k})
		}
		return out, true
	default:
		cols := append([]mcol{}, h.matrix...)
		sort.Slice(cols, func(i, j int) bool { return cols[i].key < cols[j].key })
		out := []execution.ParallelIndex{}
		var rec func(d int, cur map[string]string)
		rec = func(d int, cur map[string]string) {
			if d == len(cols) {
				m := make(map[string]string, len(cur))
				for k, v := range cur {
					m[k] = v
				}
				out = append(out, execution.ParallelIndex{MatrixValues: m})
				return
			}
			for _, v := range cols[d].vals {
				cur[cols[d].key] = v
				rec(d+1, cur)
			}
			delete(cur, cols[d].key)
		}
		rec(0, map[string]string{})
		return out, true
	}
}

func showOutcome(ixs []execution.ParallelIndex) string {
	parts := make([]string, len(ixs))
	for i, ix := range ixs {
		parts[i] = showIdx(ix)
	}
	return fmt.Sprintf("%d %s", len(ixs), rawList(parts, ";"))
}

func genOnce(sp *execution.ParallelismSpec) (out string, ixs []execution.ParallelIndex, panicked bool) {
	defer func() {
		if r := recover(); r != nil {
			out, ixs, panicked = "panic", nil, true
		}
	}()
	ixs = parallel.GenerateIndexes(sp)
	return showOutcome(ixs), ixs, false
}

func errKinds(errs field.ErrorList) string {
	if len(errs) == 0 {
		return "ok"
	}
	var f, r, i, n, x int
	for _, e := range errs {
		switch e.Type {
		case field.ErrorTypeForbidden:
			f++
		case field.ErrorTypeRequired:
			r++
		case field.ErrorTypeInvalid:
			i++
		case field.ErrorTypeNotSupported:
			n++
		default:
			x++
		}
	}
	s := fmt.Sprintf("invalid F%dR%dI%dN%d", f, r, i, n)
	if x > 0 {
		s += fmt.Sprintf("X%d", x)
	}
	return s
}

var idxValidator = validation.NewValidator(nil)

func validateSpec(sp *execution.ParallelismSpec) string {
	return Guard(func() string { return errKinds(idxValidator.ValidateParallelismSpec(sp, field.NewPath("parallelism"))) })
}

func hashOf(ix execution.ParallelIndex) string {
	return Guard(func() string {
		h, err := parallel.HashIndex(ix)
		if err != nil {
			return "err"
		}
		return h
	})
}

// fullHash is the untruncated structure hash (library call, not code under test): used only to
// recognise collisions that are caused by the truncation in parallel.HashIndex (class F3a).
func fullHash(ix execution.ParallelIndex) uint64 {
	h, err := hashstructure.Hash(ix, hashstructure.FormatV2, nil)
	if err != nil {
		return 0
	}
	return h
}

var hashFormat = regexp.MustCompile(`^[a-z2-7=]{6}$`)

// validatorVariant probes which validator the tree under test contains: the unchanged one accepts the
// F3a witness withCount=70, the repaired one (fix_F3.diff) rejects it. The answer only selects which of the
// two model definitions the Lean driver compares against on ALL specs.
func validatorVariant() string {
	n := int64(70)
	sp := &execution.ParallelismSpec{WithCount: &n, CompletionStrategy: execution.AllSuccessful}
	if validateSpec(sp) == "ok" {
		return "asis"
	}
	return "fixed"
}

type idxRun struct {
	c        *Ctx
	variant  string
	scenario bool
}

func (r *idxRun) admit(class, format string, args ...interface{}) {
	// class-specific admission monitors are live only in named scenarios (see header)
	if class != "other" && !r.scenario {
		r.c.Count("known-class." + class + ".generated-case")
		return
	}
	r.c.Violate("C14", "admit/"+class, format, args...)
}

func testJob(name, ns string, sp *execution.ParallelismSpec) *execution.Job {
	return &execution.Job{
		ObjectMeta: metav1.ObjectMeta{Name: name, Namespace: ns, UID: types.UID("uid-" + name)},
		Spec: execution.JobSpec{
			Type:     execution.JobTypeAdhoc,
			Template: &execution.JobTemplate{Parallelism: sp},
		},
	}
}

// runSpec drives one spec through every function and monitor.
func (r *idxRun) runSpec(h *hspec, rng *rand.Rand) {
	c := r.c
	nCols := len(h.matrix)
	classD := h.classD()

	// ---- expansion: repeated calls, maps rebuilt in different insertion orders
	reps := 3
	if nCols >= 2 {
		reps = 6
	}
	if classD {
		reps = 240
	}
	if h.count != nil && *h.count > 1500 {
		reps = 2
	}
	outcomes := map[string]bool{}
	var first []execution.ParallelIndex
	firstOK, anyPanic := false, false
	for k := 0; k < reps; k++ {
		var order []int
		if nCols >= 2 && k > 0 {
			order = rng.Perm(nCols)
		}
		out, ixs, p := genOnce(h.build(order))
		outcomes[out] = true
		if p {
			anyPanic = true
		} else if !firstOK {
			first, firstOK = ixs, true
		}
	}
	outs := SortedKeys(outcomes)
	det := len(outs) == 1
	ok := det && !anyPanic

	// ---- validation (real) and hashes (oracle data for the model)
	sp := h.build(nil)
	var verdict string
	if h.isNil {
		verdict = "nil"
	} else {
		verdict = validateSpec(sp)
		if h.matrix != nil && nCols >= 2 {
			// the verdict must not depend on map order either
			if v2 := validateSpec(h.build(rng.Perm(nCols))); v2 != verdict {
				c.Violate("C14", "deterministic-order", "validation verdict depends on map order: %s vs %s", verdict, v2)
			}
		}
	}
	accepted := verdict == "ok"
	var hashes []string
	if ok {
		hashes = make([]string, len(first))
		for i, ix := range first {
			hashes[i] = hashOf(ix)
		}
	}
	if h.isNil {
		ht := "-"
		if ok {
			ht = rawList(hashes, ";")
		}
		c.Emit("idx.spec "+r.variant+" nil "+ht, verdict)
		c.Count("spec.nil")
	} else {
		cnt := "-"
		if h.count != nil {
			cnt = strconv.FormatInt(*h.count, 10)
		}
		ht := "-"
		if ok {
			ht = rawList(hashes, ";")
		}
		c.Emit(fmt.Sprintf("idx.spec %s %s %s %s %s %s", r.variant, cnt, exList(h.keys, ";"), h.matrixTok(), ex(h.strategy), ht), verdict)
		c.Count(fmt.Sprintf("spec.kinds=%d", h.kinds()))
		switch {
		case h.count != nil:
			c.Count("spec.effective=count")
		case len(h.keys) > 0:
			c.Count("spec.effective=keys")
		case nCols > 0:
			c.Count("spec.effective=matrix")
		default:
			c.Count("spec.effective=default")
		}
		c.Count("validate." + strings.SplitN(verdict, " ", 2)[0])
		if verdict != "ok" && verdict != "panic" {
			for _, k := range []string{"F", "R", "I", "N"} {
				if !strings.Contains(verdict, k+"0") {
					c.Count("validate.err." + k)
				}
			}
		}
	}
	c.Emit("idx.gen", strings.Join(outs, " || "))
	switch {
	case !det:
		c.Count("gen.nondeterministic")
	case anyPanic:
		c.Count("gen.panic")
	default:
		c.Count("gen.ok")
		if len(first) > 1 {
			c.Nontrivial()
		}
		if len(first) > 1000 {
			c.Count("gen.size>1000")
		} else if len(first) > 100 {
			c.Count("gen.size>100")
		}
	}

	// ---- monitor: exact expansion / determinism / panics
	exp, judged := h.expected()
	if judged && firstOK {
		for _, o := range outs {
			if o != "panic" && o != showOutcome(exp) {
				c.Violate("C14", "expansion-exact", "spec expands to %.300s, requested %.300s", o, showOutcome(exp))
				break
			}
		}
	}
	negCount := h.count != nil && *h.count < 0
	if !det && !classD {
		c.Violate("C14", "deterministic-order", "%d different outcomes for one spec: %.300s", len(outs), strings.Join(outs, " || "))
	}
	if anyPanic && !classD && !negCount {
		c.Violate("C14", "unexpected-panic", "GenerateIndexes panicked")
	}
	if classD && (!det || anyPanic) {
		if accepted {
			r.admit("empty-matrix-values", "accepted withMatrix with an empty value list: outcomes %.200s", strings.Join(outs, " || "))
		} else {
			c.Count("classD.rejected")
		}
	} else if accepted && (!det || anyPanic) {
		r.admit("other", "accepted spec whose expansion is %.200s", strings.Join(outs, " || "))
	}
	if !ok {
		return
	}
	n := len(first)

	// ---- hashes: format, stability, HashIndexes
	for i, hs := range hashes {
		if !hashFormat.MatchString(hs) {
			c.Violate("C14", "hash-format", "hash %q of index %s is not 6 base32 characters", hs, showIdx(first[i]))
			break
		}
	}
	// ---- encoding half of HashIndex (Model/HashEnc.lean): the model computes the hash from the uint64 that
	// hashstructure.Hash returns; the implementation's output is what the real HashIndex returned
	{
		us := make([]string, 0, n)
		for _, ix := range first {
			us = append(us, strconv.FormatUint(fullHash(ix), 10))
		}
		if n > 0 {
			c.Emit("idx.enc "+rawList(us, ";"), rawList(hashes, ";"))
			c.Stats["enc.real-hashindex"] += int64(n)
		}
		// boundary values no generated index reaches (short decimal renderings → '=' padding, digit
		// boundaries of the fourth byte): the model against the three library calls HashIndex makes, in
		// the order the regenerated fact `hashIndexShape` pins — a check of the model, not of furiko
		bnd := []uint64{0, 7, 9, 10, 42, 99, 100, 123, 999, 1000, 1003, 1004, 1007, 1008, 1009, 9999, 10000, 18446744073709551615,
			uint64(rng.Intn(10000)), rng.Uint64(), rng.Uint64() >> uint(rng.Intn(64))}
		bu, bh := []string{}, []string{}
		for _, u := range bnd {
			e := base32.StdEncoding.EncodeToString([]byte(strconv.FormatUint(u, 10)))
			bu = append(bu, strconv.FormatUint(u, 10))
			bh = append(bh, strings.ToLower(e[:6]))
		}
		c.Emit("idx.enc "+rawList(bu, ";"), rawList(bh, ";"))
		c.Stats["enc.library-boundary"] += int64(len(bnd))
	}
	for _, i := range samplePositions(rng, n, 6) {
		ix := first[i]
		var rt execution.ParallelIndex
		b, _ := json.Marshal(ix)
		_ = json.Unmarshal(b, &rt)
		if len(ix.MatrixValues) > 1 { // rebuild the map in reverse key order
			ks := SortedKeys(ix.MatrixValues)
			rt.MatrixValues = map[string]string{}
			for j := len(ks) - 1; j >= 0; j-- {
				rt.MatrixValues[ks[j]] = ix.MatrixValues[ks[j]]
			}
		}
		if h2 := hashOf(rt); h2 != hashes[i] || hashOf(ix) != hashes[i] {
			c.Violate("C14", "hash-stable", "index %s hashes to %s, an equal copy to %s", showIdx(ix), hashes[i], h2)
		}
	}
	byPos, byHash, herr := func() (m1 map[int]string, m2 map[string]int, e string) {
		defer func() {
			if rec := recover(); rec != nil {
				e = "panic"
			}
		}()
		a, b, err := parallel.HashIndexes(first)
		if err != nil {
			return nil, nil, "err"
		}
		return a, b, ""
	}()
	firstDup := "-"
	dupJ, dupI := -1, -1
	{
		seen := map[string]int{}
		for i, hs := range hashes {
			if j, okk := seen[hs]; okk {
				firstDup, dupJ, dupI = fmt.Sprintf("%d,%d", j, i), j, i
				break
			}
			seen[hs] = i
		}
	}
	if herr != "" {
		c.Emit("idx.hashes", herr)
	} else {
		pos := make([]string, n)
		for i := 0; i < n; i++ {
			pos[i] = byPos[i]
			if byPos[i] != hashes[i] {
				c.Violate("C14", "hashindexes", "HashIndexes[%d]=%s but HashIndex=%s", i, byPos[i], hashes[i])
			}
		}
		var pairs []string
		for _, hs := range SortedKeys(byHash) {
			pairs = append(pairs, fmt.Sprintf("%s:%d", hs, byHash[hs]))
			if p := byHash[hs]; p < 0 || p >= n || hashes[p] != hs {
				c.Violate("C14", "hashindexes", "hashesIdx[%s]=%d does not point to an index with that hash", hs, p)
			}
		}
		if len(byPos) != n {
			c.Violate("C14", "hashindexes", "HashIndexes returned %d entries for %d indexes", len(byPos), n)
		}
		c.Emit("idx.hashes", rawList(pos, ";")+" "+rawList(pairs, ",")+" "+firstDup)
	}

	// ---- distinctness facts owned by the harness
	dupIndexPair := [2]int{-1, -1}
	collidePair := [2]int{-1, -1}
	truncOnly := true
	{
		byH := map[string][]int{}
		for i, hs := range hashes {
			for _, j := range byH[hs] {
				if idxEqual(first[j], first[i]) {
					if dupIndexPair[0] < 0 {
						dupIndexPair = [2]int{j, i}
					}
				} else {
					if collidePair[0] < 0 {
						collidePair = [2]int{j, i}
					}
					if fullHash(first[j]) == fullHash(first[i]) {
						truncOnly = false
					}
				}
			}
			byH[hs] = append(byH[hs], i)
		}
		// equal indexes always share a hash (hash-stable), so scanning within hash classes finds all duplicates
	}
	allDistinct := dupIndexPair[0] < 0 && collidePair[0] < 0
	if allDistinct {
		c.Count("distinct.all")
	}
	if dupIndexPair[0] >= 0 {
		c.Count("distinct.duplicate-indexes")
	}
	if collidePair[0] >= 0 {
		c.Count("distinct.hash-collision")
	}

	// ---- status slots (GetParallelStatus), one task per index
	job := testJob("job", "ns", sp)
	if n <= 1500 {
		taskRefs := make([]execution.TaskRef, n)
		for i := range first {
			ix := first[i]
			taskRefs[i] = execution.TaskRef{Name: fmt.Sprintf("t%d", i), ParallelIndex: &ix}
		}
		r.slots(job, first, hashes, taskRefs, "all", allDistinct)
		if n >= 2 && n <= 200 && rng.Intn(3) == 0 {
			// an arbitrary multiset of tasks
			m := rng.Intn(2 * n)
			var pos []string
			var refs []execution.TaskRef
			for k := 0; k < m; k++ {
				p := rng.Intn(n)
				ix := first[p]
				pos = append(pos, strconv.Itoa(p))
				refs = append(refs, execution.TaskRef{Name: fmt.Sprintf("t%d", k), ParallelIndex: &ix})
			}
			r.slots(job, first, hashes, refs, rawList(pos, ";"), false)
		}
		if allDistinct && n >= 1 && n <= 300 {
			r.missing(job, first, taskRefs, rng)
		}
	}

	// ---- names, variables, pods on sampled indexes
	positions := samplePositions(rng, n, 5)
	if dupI >= 0 {
		positions = append(positions, dupJ, dupI)
	}
	names := map[string]string{} // task name -> hash/retry
	jobName := idxPick(rng, []string{"job", "my-job", "a", "job-1-2", "j.1650000000"})
	for _, p := range positions {
		ix := first[p]
		for _, retry := range []int64{0, idxPick(rng, []int64{1, 2, 10, 11, 49, -1})} {
			r.nameVarsPod(jobName, "ns1", retry, ix, hashes[p], names, exp, judged, p, accepted)
		}
	}
	// ---- the controller creates the tasks of all indexes from ONE in-memory Job (the cached
	// object): every index must still get its own values, and the Job must come out unchanged
	if accepted && n >= 2 {
		r.podsFromSharedJob(jobName, first, positions)
	}
	// distinct (hash, retry) => distinct names, over many indexes
	lim := n
	if lim > 400 {
		lim = 400
	}
	for _, p := range samplePositions(rng, n, lim) {
		for _, retry := range []int64{0, 1, 11} {
			nm := Guard(func() string {
				s, err := jobutil.GenerateTaskName(jobName, tasks.TaskIndex{Retry: retry, Parallel: first[p]})
				if err != nil {
					return "err"
				}
				return s
			})
			id := fmt.Sprintf("%s/%d", hashes[p], retry)
			if prev, okk := names[nm]; okk && prev != id {
				c.Violate("C14", "distinct-names", "task name %q is shared by (hash/retry) %s and %s", nm, prev, id)
			}
			names[nm] = id
		}
	}

	// ---- admission: accepted AND the clauses cannot hold
	if accepted {
		if dupIndexPair[0] >= 0 {
			switch {
			case h.kinds() == 1 && len(h.keys) > 0 && hasDup(h.keys) && judged:
				r.admit("duplicate-keys", "accepted withKeys with duplicate entries: indexes %d and %d are both %s", dupIndexPair[0], dupIndexPair[1], showIdx(first[dupIndexPair[0]]))
			case h.kinds() == 1 && nCols > 0 && matrixHasDupVals(h.matrix):
				r.admit("duplicate-matrix-values", "accepted withMatrix with duplicate values: indexes %d and %d are both %s", dupIndexPair[0], dupIndexPair[1], showIdx(first[dupIndexPair[0]]))
			default:
				r.admit("other", "accepted spec expands to duplicate indexes %d and %d (%s)", dupIndexPair[0], dupIndexPair[1], showIdx(first[dupIndexPair[0]]))
			}
		}
		if collidePair[0] >= 0 {
			if truncOnly {
				r.admit("hash-collision", "accepted spec: different indexes %d (%s) and %d (%s) share hash %s, hence task names and status slot", collidePair[0], showIdx(first[collidePair[0]]), collidePair[1], showIdx(first[collidePair[1]]), hashes[collidePair[0]])
			} else {
				r.admit("other", "accepted spec: different indexes %d and %d have the same full structure hash", collidePair[0], collidePair[1])
			}
		}
		if n == 0 {
			c.Count("accepted.zero-indexes")
		}
	} else if !h.isNil {
		if dupIndexPair[0] >= 0 || collidePair[0] >= 0 {
			c.Count("rejected.bad-spec")
		}
	}
}

func matrixHasDupVals(cols []mcol) bool {
	for _, col := range cols {
		if hasDup(col.vals) {
			return true
		}
	}
	return false
}

func idxPick[T any](rng *rand.Rand, l []T) T { return l[rng.Intn(len(l))] }

// samplePositions returns up to k distinct positions of 0..n-1, always including first and last.
func samplePositions(rng *rand.Rand, n, k int) []int {
	if n == 0 {
		return nil
	}
	if k >= n {
		out := make([]int, n)
		for i := range out {
			out[i] = i
		}
		return out
	}
	set := map[int]bool{0: true, n - 1: true}
	for len(set) < k {
		set[rng.Intn(n)] = true
	}
	out := make([]int, 0, len(set))
	for p := range set {
		out = append(out, p)
	}
	sort.Ints(out)
	return out
}

func (r *idxRun) slots(job *execution.Job, ixs []execution.ParallelIndex, hashes []string, refs []execution.TaskRef, tok string, judge bool) {
	c := r.c
	var st execution.ParallelStatus
	out := Guard(func() string {
		var err error
		st, err = parallel.GetParallelStatus(job, refs)
		if err != nil {
			return "err"
		}
		parts := make([]string, len(st.Indexes))
		for i, s := range st.Indexes {
			parts[i] = fmt.Sprintf("%s:%d", s.Hash, s.CreatedTasks)
		}
		return rawList(parts, ",")
	})
	c.Emit("idx.slots "+tok, out)
	c.Count("op.slots")
	if !judge {
		return
	}
	if out == "panic" || out == "err" || len(st.Indexes) != len(ixs) {
		c.Violate("C14", "status-slot", "GetParallelStatus gave %d slots for %d indexes (%s)", len(st.Indexes), len(ixs), out[:min(len(out), 40)])
		return
	}
	for i, s := range st.Indexes {
		if !idxEqual(s.Index, ixs[i]) || s.Hash != hashes[i] || s.CreatedTasks != 1 {
			c.Violate("C14", "status-slot", "slot %d: index %s hash %s createdTasks %d; expected index %s hash %s and exactly its own task",
				i, showIdx(s.Index), s.Hash, s.CreatedTasks, showIdx(ixs[i]), hashes[i])
			return
		}
	}
}

// missing: monitor only (ComputeMissingIndexesForCreation is modelled in the C08 slice): with one live
// task per index nothing is requested; without the task of index j exactly (j, retry 0) is requested.
func (r *idxRun) missing(job *execution.Job, ixs []execution.ParallelIndex, refs []execution.TaskRef, rng *rand.Rand) {
	c := r.c
	c.Count("op.missing")
	j := rng.Intn(len(ixs))
	full := job.DeepCopy()
	full.Status.Tasks = refs
	part := job.DeepCopy()
	part.Status.Tasks = append(append([]execution.TaskRef{}, refs[:j]...), refs[j+1:]...)
	res := Guard(func() string {
		a, err := parallel.ComputeMissingIndexesForCreation(full, ixs)
		if err != nil {
			return "err"
		}
		b, err := parallel.ComputeMissingIndexesForCreation(part, ixs)
		if err != nil {
			return "err"
		}
		if len(a) != 0 {
			return fmt.Sprintf("with a live task per index, %d indexes are requested again", len(a))
		}
		if len(b) != 1 || !idxEqual(b[0].ParallelIndex, ixs[j]) || b[0].RetryIndex != 0 {
			return fmt.Sprintf("without the task of index %d the requests are %d entries", j, len(b))
		}
		return ""
	})
	if res != "" {
		c.Violate("C14", "missing-index", "%s", res)
	}
}

func (r *idxRun) nameVarsPod(jobName, ns string, retry int64, ix execution.ParallelIndex, hash string,
	names map[string]string, exp []execution.ParallelIndex, judged bool, pos int, accepted bool) {
	c := r.c
	ti := tasks.TaskIndex{Retry: retry, Parallel: ix}
	name := Guard(func() string {
		s, err := jobutil.GenerateTaskName(jobName, ti)
		if err != nil {
			return "err"
		}
		return s
	})
	c.Emit(fmt.Sprintf("idx.name %s %d %s %s", ex(jobName), retry, showIdx(ix), hash), ex(name))
	c.Count("op.name")
	id := fmt.Sprintf("%s/%d", hash, retry)
	if prev, ok := names[name]; ok && prev != id {
		c.Violate("C14", "distinct-names", "task name %q is shared by (hash/retry) %s and %s", name, prev, id)
	}
	names[name] = id
	if !strings.HasPrefix(name, jobName+"-") || !strings.Contains(name, hash) {
		c.Violate("C14", "distinct-names", "task name %q does not carry job name %q and index hash %s", name, jobName, hash)
	}

	// variables
	var vars map[string]string
	vout := Guard(func() string {
		vars = variablecontext.ContextProvider.MakeVariablesFromTask(variablecontext.TaskSpec{
			Name: name, Namespace: ns, RetryIndex: retry, ParallelIndex: ix})
		var kv []string
		for _, k := range SortedKeys(vars) {
			kv = append(kv, ex(k)+"="+ex(vars[k]))
		}
		return rawList(kv, ",")
	})
	c.Emit(fmt.Sprintf("idx.vars %s %s %d %s", ex(name), ex(ns), retry, showIdx(ix)), vout)
	c.Count("op.vars")
	// what the index asks for, from the harness' own expansion of the spec (position pos)
	want := map[string]string{}
	src := ix
	if judged && pos < len(exp) {
		src = exp[pos]
	}
	carried := true
	switch {
	case src.IndexNumber != nil:
		want["task.index_num"] = strconv.FormatInt(*src.IndexNumber, 10)
	case len(src.MatrixValues) > 0 && src.IndexKey == "":
		for k, v := range src.MatrixValues {
			want["task.index_matrix."+k] = v
		}
	default:
		want["task.index_key"] = src.IndexKey
	}
	for k, v := range want {
		if got, ok := vars[k]; !ok || got != v {
			carried = false
		}
	}
	for k := range vars {
		if strings.HasPrefix(k, "task.index_") {
			if _, ok := want[k]; !ok {
				carried = false
			}
		}
	}
	if vars["task.name"] != name || vars["task.namespace"] != ns || vars["task.retry_index"] != strconv.FormatInt(retry, 10) {
		c.Violate("C14", "vars-carry-index", "task variables %v do not carry name/namespace/retry %s/%s/%d", vars, name, ns, retry)
	}
	if !carried {
		// an index whose value is the empty key cannot be carried; that is only a violation if admission let it through
		emptyKey := src.IndexNumber == nil && len(src.MatrixValues) == 0 && src.IndexKey == ""
		if !emptyKey {
			c.Violate("C14", "vars-carry-index", "variables of index %s are %v, expected exactly %v", showIdx(src), vars, want)
		} else if accepted {
			r.admit("other", "accepted spec has an index with an empty key: no variable carries it")
		} else {
			c.Count("vars.empty-key-rejected")
		}
	}

	// pod (values containing '$' or '}' are left to C18's substitution model)
	clean := !strings.ContainsAny(ix.IndexKey, "$}") && !strings.ContainsAny(jobName, "$}")
	var envVars []string
	envVars = append(envVars, "task.index_num", "task.index_key", "task.retry_index", "task.index_matrix.zz-absent")
	for _, k := range SortedKeys(ix.MatrixValues) {
		if strings.ContainsAny(k, "$}") || strings.ContainsAny(ix.MatrixValues[k], "$}") {
			clean = false
		}
		envVars = append(envVars, "task.index_matrix."+k)
	}
	if !clean {
		c.Count("op.pod.skipped-dollar")
		return
	}
	tmpl := &corev1.PodTemplateSpec{
		ObjectMeta: metav1.ObjectMeta{Labels: map[string]string{"app": "x"}},
		Spec:       corev1.PodSpec{Containers: []corev1.Container{{Name: "c", Image: "img"}}},
	}
	for i, v := range envVars {
		tmpl.Spec.Containers[0].Env = append(tmpl.Spec.Containers[0].Env, corev1.EnvVar{Name: fmt.Sprintf("V%d", i), Value: "${" + v + "}"})
	}
	rj := testJob(jobName, ns, nil)
	var pod *corev1.Pod
	pout := Guard(func() string {
		var err error
		pod, err = podtaskexecutor.NewPod(rj, tmpl, ti)
		if err != nil {
			return "err"
		}
		var ann execution.ParallelIndex
		if err := json.Unmarshal([]byte(pod.Annotations[podtaskexecutor.AnnotationKeyTaskParallelIndex]), &ann); err != nil {
			return "err-annotation"
		}
		var env []string
		for _, e := range pod.Spec.Containers[0].Env {
			env = append(env, e.Value)
		}
		return fmt.Sprintf("%s %s %s %s %s", ex(pod.Name), pod.Labels[podtaskexecutor.LabelKeyTaskParallelIndexHash],
			pod.Labels[podtaskexecutor.LabelKeyTaskRetryIndex], showIdx(ann), exList(env, ";"))
	})
	c.Emit(fmt.Sprintf("idx.pod %s %s %d %s %s %s", ex(jobName), ex(ns), retry, showIdx(ix), hash, exList(envVars, ";")), pout)
	c.Count("op.pod")
	if pod == nil || strings.HasPrefix(pout, "err") || pout == "panic" {
		c.Violate("C14", "pod-carries-index", "NewPod failed for index %s: %s", showIdx(ix), pout)
		return
	}
	var ann execution.ParallelIndex
	_ = json.Unmarshal([]byte(pod.Annotations[podtaskexecutor.AnnotationKeyTaskParallelIndex]), &ann)
	if pod.Name != name || pod.Labels[podtaskexecutor.LabelKeyTaskParallelIndexHash] != hash ||
		pod.Labels[podtaskexecutor.LabelKeyTaskRetryIndex] != strconv.FormatInt(retry, 10) || !idxEqual(ann, ix) {
		c.Violate("C14", "pod-carries-index", "pod %s labels %v annotation %s: expected name %s hash %s retry %d index %s",
			pod.Name, pod.Labels, showIdx(ann), name, hash, retry, showIdx(ix))
	}
	for i, v := range envVars {
		got := pod.Spec.Containers[0].Env[i].Value
		wantV := ""
		switch {
		case v == "task.retry_index":
			wantV = strconv.FormatInt(retry, 10)
		default:
			wantV = want[v] // "" when the index does not define it
		}
		if got != wantV && carried {
			c.Violate("C14", "pod-carries-index", "pod env ${%s} = %q for index %s, expected %q", v, got, showIdx(src), wantV)
		}
	}
}

// podsFromSharedJob: what PodTaskClient.CreateIndex does for each index of one sync — the pod
// template is taken (shallowly converted) from the same Job object every time.  Monitors only
// (C14 "the task created for an index receives that index's values"; the op stream of idx.pod
// already ties NewPod to the model).
func (r *idxRun) podsFromSharedJob(jobName string, ixs []execution.ParallelIndex, positions []int) {
	c := r.c
	rj := testJob(jobName, "ns1", nil)
	cont := corev1.Container{Name: "c", Image: "img:${task.index_num}", Args: []string{"--key=${task.index_key}", "--name=${task.name}"}}
	keys := map[string]bool{}
	for _, p := range positions {
		for k := range ixs[p].MatrixValues {
			keys[k] = true
		}
	}
	for _, k := range SortedKeys(keys) {
		if strings.ContainsAny(k, "$}") {
			return
		}
		cont.Env = append(cont.Env, corev1.EnvVar{Name: "M", Value: "${task.index_matrix." + k + "}"})
	}
	// the same template as init container and as second main container: every container list that
	// SubstitutePodSpec rewrites is shared by all tasks of the Job (seed C14w4-2: the init containers were
	// substituted in place, later indexes received the first index's values)
	initc := *cont.DeepCopy()
	initc.Name = "init"
	side := *cont.DeepCopy()
	side.Name = "side"
	rj.Spec.Template.TaskTemplate.Pod = &execution.PodTemplateSpec{Spec: corev1.PodSpec{
		InitContainers: []corev1.Container{initc}, Containers: []corev1.Container{cont, side}}}
	before := rj.DeepCopy()
	for _, p := range positions {
		ix := ixs[p]
		if strings.ContainsAny(ix.IndexKey, "$}") {
			continue
		}
		bad := false
		for _, v := range ix.MatrixValues {
			bad = bad || strings.ContainsAny(v, "$}")
		}
		if bad {
			continue
		}
		var pod *corev1.Pod
		out := Guard(func() string {
			var err error
			pod, err = podtaskexecutor.NewPod(rj, rj.Spec.Template.TaskTemplate.Pod.ConvertToCoreSpec(), tasks.TaskIndex{Retry: 0, Parallel: ix})
			if err != nil {
				return "err"
			}
			return "ok"
		})
		c.Count("op.pod-shared-job")
		if out != "ok" || pod == nil {
			continue
		}
		wantNum, wantKey := "", ix.IndexKey
		if ix.IndexNumber != nil {
			wantNum = strconv.FormatInt(*ix.IndexNumber, 10)
		}
		if len(pod.Spec.Containers) != 2 || len(pod.Spec.InitContainers) != 1 {
			c.Violate("C14", "pod-carries-index", "pod %s for index %s has %d containers and %d init containers, the template 2 and 1", pod.Name, showIdx(ix), len(pod.Spec.Containers), len(pod.Spec.InitContainers))
			continue
		}
		for _, got := range []corev1.Container{pod.Spec.Containers[0], pod.Spec.Containers[1], pod.Spec.InitContainers[0]} {
			if got.Image != "img:"+wantNum || len(got.Args) != 2 || got.Args[0] != "--key="+wantKey || got.Args[1] != "--name="+pod.Name {
				c.Violate("C14", "pod-carries-index", "pod %s created for index %s from a shared Job object: container %s received image %q args %q", pod.Name, showIdx(ix), got.Name, got.Image, got.Args)
			}
			for i, k := range SortedKeys(keys) {
				if i < len(got.Env) && got.Env[i].Value != ix.MatrixValues[k] {
					c.Violate("C14", "pod-carries-index", "pod %s for index %s, container %s: ${task.index_matrix.%s} = %q", pod.Name, showIdx(ix), got.Name, k, got.Env[i].Value)
				}
			}
		}
		if !reflect.DeepEqual(before, rj) {
			// reported once; the Job is NOT restored: the following indexes show what later tasks receive
			c.Violate("C14", "pod-carries-index", "NewPod for index %s modified the Job object it was given (the pod template is shared by all tasks of the Job)", showIdx(ix))
			before = rj.DeepCopy()
		}
	}
}

// ---------------------------------------------------------------- generators

var (
	idxWordsAny = []string{"a", "ab", "abc", "ba", "b", "c", "aa", "bab", "a-b", "a_b", "a b", "A", "Ab", "0", "1", "01", "10", "007",
		"ä", "äb", "日本", "本日", "é", "x=y", "a,b", "a;b", "a/b", "a|b", "a&b", "~", "-", "%", "%-", "a.b", "key", "keys", "k", "\t", "a\"b", "<a>"}
	idxMatrixKeysOK  = []string{"a", "ab", "abc", "ba", "b", "c", "a-b", "a_b", "0", "1", "10", "-", "_", "os", "arch", "go-version", "z9"}
	idxMatrixKeysBad = []string{"A", "a.b", "ä", "a b", "a/b", "aB", "a=b"}
	idxStrategies    = []string{"AllSuccessful", "AllSuccessful", "AllSuccessful", "AllSuccessful", "AllSuccessful", "AllSuccessful",
		"AnySuccessful", "AnySuccessful", "", "Other", "allsuccessful"}
)

func idxWord(rng *rand.Rand) string {
	switch r := rng.Intn(100); {
	case r < 45: // words over a tiny alphabet: many prefixes and permutations of each other
		n := 1 + rng.Intn(4)
		b := make([]byte, n)
		for i := range b {
			b[i] = "abc"[rng.Intn(3)]
		}
		return string(b)
	case r < 50:
		return ""
	case r < 60:
		return fmt.Sprintf("k%d", rng.Intn(400))
	default:
		return idxPick(rng, idxWordsAny)
	}
}

func idxWords(rng *rand.Rand, n int, distinct bool, allowEmpty bool) []string {
	out := make([]string, 0, n)
	seen := map[string]bool{}
	for tries := 0; len(out) < n && tries < 50*n+50; tries++ {
		w := idxWord(rng)
		if w == "" && !allowEmpty {
			continue
		}
		if distinct && seen[w] {
			continue
		}
		seen[w] = true
		out = append(out, w)
	}
	return out
}

func genCount(rng *rand.Rand, thorough bool) int64 {
	switch r := rng.Intn(100); {
	case r < 20:
		return idxPick(rng, []int64{0, 1, 2, 3, 58, 59, 68, 69, 70, 71, -1, -7})
	case r < 65:
		return int64(rng.Intn(41))
	case r < 90:
		return int64(rng.Intn(301))
	case r < 97:
		return int64(rng.Intn(1501))
	case r < 99:
		return int64(rng.Intn(5001))
	default:
		return idxPick(rng, []int64{4999, 5000})
	}
}

func genKeys(rng *rand.Rand) []string {
	n := 1 + rng.Intn(8)
	if rng.Intn(6) == 0 {
		n = 20 + rng.Intn(120)
	}
	switch r := rng.Intn(100); {
	case r < 60: // distinct, non-empty: what a user means
		return idxWords(rng, n, true, false)
	case r < 75: // permutation / duplicate of an earlier entry
		ks := idxWords(rng, n, true, false)
		if len(ks) > 0 {
			ks = append(ks, ks[rng.Intn(len(ks))])
			rng.Shuffle(len(ks), func(i, j int) { ks[i], ks[j] = ks[j], ks[i] })
		}
		return ks
	case r < 85: // with empty strings
		return idxWords(rng, n, rng.Intn(2) == 0, true)
	case r < 90:
		return []string{}
	default:
		return idxWords(rng, n, false, true)
	}
}

func genMatrix(rng *rand.Rand) []mcol {
	nk := 1 + rng.Intn(3)
	if rng.Intn(5) == 0 {
		nk = 4 + rng.Intn(2)
	}
	pool := append([]string{}, idxMatrixKeysOK...)
	rng.Shuffle(len(pool), func(i, j int) { pool[i], pool[j] = pool[j], pool[i] })
	cols := make([]mcol, 0, nk)
	for i := 0; i < nk; i++ {
		key := pool[i]
		if rng.Intn(25) == 0 {
			key = idxPick(rng, idxMatrixKeysBad)
			dup := false
			for _, c := range cols {
				if c.key == key {
					dup = true
				}
			}
			if dup {
				key = pool[i]
			}
		}
		nv := 1 + rng.Intn(4)
		if rng.Intn(6) == 0 {
			nv = 5 + rng.Intn(2)
		}
		var vals []string
		switch r := rng.Intn(100); {
		case r < 70:
			vals = idxWords(rng, nv, true, false)
		case r < 82: // duplicate values
			vals = idxWords(rng, nv, true, false)
			if len(vals) > 0 {
				vals = append(vals, vals[rng.Intn(len(vals))])
			}
		case r < 90: // empty strings among the values
			vals = idxWords(rng, nv, false, true)
		case r < 96: // empty value list
			vals = []string{}
		default:
			vals = idxWords(rng, nv, false, true)
		}
		cols = append(cols, mcol{key: key, vals: vals})
	}
	return cols
}

func genSpec(rng *rand.Rand, thorough bool) *hspec {
	h := &hspec{strategy: idxPick(rng, idxStrategies)}
	switch r := rng.Intn(100); {
	case r < 3:
		h.isNil = true
	case r < 6: // nothing set
	case r < 38:
		n := genCount(rng, thorough)
		h.count = &n
	case r < 64:
		h.keys = genKeys(rng)
	case r < 92:
		h.matrix = genMatrix(rng)
	default: // several types at once
		if rng.Intn(3) > 0 {
			n := int64(rng.Intn(6)) - 1
			h.count = &n
		}
		if rng.Intn(3) > 0 {
			h.keys = genKeys(rng)
			if len(h.keys) > 6 {
				h.keys = h.keys[:6]
			}
		}
		if rng.Intn(3) > 0 || (h.count == nil && len(h.keys) == 0) {
			h.matrix = genMatrix(rng)
		}
	}
	return h
}

// ---------------------------------------------------------------- engine

func i64(n int64) *int64 { return &n }

func runIndexes(c *Ctx) {
	variant := validatorVariant()
	c.Count("validator-variant." + variant)
	thorough := c.Tier == "thorough"
	scen := func(name string, fn func(r *idxRun)) {
		c.RunScenario(name, func() { fn(&idxRun{c: c, variant: variant, scenario: true}) })
	}

	// ---- corpus: the F3 witnesses (known finding while the validator is unchanged; regression once fixed)
	scen("f3-withcount-70-collision", func(r *idxRun) {
		// ties the literal table behind Lean's `validation_accepts_colliding_witness` to the real HashIndex
		var hs []string
		for i := int64(0); i < 70; i++ {
			v := i
			hs = append(hs, hashOf(execution.ParallelIndex{IndexNumber: &v}))
		}
		c.Emit("idx.witness70 "+rawList(hs, ";"), "1")
		r.runSpec(&hspec{count: i64(70), strategy: "AllSuccessful"}, c.Rng)
	})
	scen("f3-withcount-69-no-collision", func(r *idxRun) {
		// guard: the known collision threshold must not get worse
		seen := map[string]int{}
		for i := int64(0); i < 69; i++ {
			v := i
			hs := hashOf(execution.ParallelIndex{IndexNumber: &v})
			if j, ok := seen[hs]; ok {
				c.Violate("C14", "hash-collision-below-known-threshold", "withCount=69: indexes %d and %d share hash %s", j, i, hs)
			}
			seen[hs] = int(i)
		}
		r.runSpec(&hspec{count: i64(69), strategy: "AllSuccessful"}, c.Rng)
	})
	scen("f3-withkeys-duplicate", func(r *idxRun) {
		r.runSpec(&hspec{keys: []string{"a", "b", "a"}, strategy: "AllSuccessful"}, c.Rng)
	})
	scen("f3-withmatrix-duplicate-values", func(r *idxRun) {
		r.runSpec(&hspec{matrix: []mcol{{"os", []string{"linux", "linux"}}, {"arch", []string{"amd64", "arm64"}}}, strategy: "AllSuccessful"}, c.Rng)
	})
	scen("f3-withmatrix-empty-values", func(r *idxRun) {
		r.runSpec(&hspec{matrix: []mcol{{"a", []string{}}, {"b", []string{"x"}}}, strategy: "AllSuccessful"}, c.Rng)
	})
	scen("f3-withkeys-collision", func(r *idxRun) {
		// distinct keys k0..k149: some pair shares a hash
		var ks []string
		for i := 0; i < 150; i++ {
			ks = append(ks, fmt.Sprintf("k%d", i))
		}
		r.runSpec(&hspec{keys: ks, strategy: "AllSuccessful"}, c.Rng)
	})
	scen("f3-withmatrix-collision", func(r *idxRun) {
		var a, b []string
		for i := 0; i < 12; i++ {
			a = append(a, fmt.Sprintf("a%d", i))
			b = append(b, fmt.Sprintf("b%d", i))
		}
		r.runSpec(&hspec{matrix: []mcol{{"x", a}, {"y", b}}, strategy: "AllSuccessful"}, c.Rng)
	})
	scen("f3-sweep-withcount", func(r *idxRun) {
		max := 5000
		if thorough {
			max = 20000
		}
		hashes := make([]string, max)
		seen := map[string]int{}
		firstBad := 0 // smallest N whose indexes 0..N-1 collide
		firstPair := ""
		for i := 0; i < max; i++ {
			v := int64(i)
			hashes[i] = hashOf(execution.ParallelIndex{IndexNumber: &v})
			if j, ok := seen[hashes[i]]; ok && firstBad == 0 {
				firstBad = i + 1
				firstPair = fmt.Sprintf("%d,%d", j, i)
			} else if !ok {
				seen[hashes[i]] = i
			}
		}
		if firstPair == "" {
			firstPair = "-"
		}
		c.Emit("idx.firstdup "+rawList(hashes, ";"), firstPair)
		c.Stats["sweep.max"] = int64(max)
		c.Stats["sweep.distinct-hashes"] = int64(len(seen))
		c.Stats["sweep.first-colliding-withCount"] = int64(firstBad)
		c.Nontrivial()
		acceptedBad := 0
		minAccepted := 0
		for n := 1; n <= max; n++ {
			if n > 300 && n%250 != 0 && n != max {
				continue
			}
			cnt := int64(n)
			verdict := validateSpec(&execution.ParallelismSpec{WithCount: &cnt, CompletionStrategy: execution.AllSuccessful})
			if n <= 150 || n%1000 == 0 {
				ht := rawList(hashes[:n], ";")
				c.Emit(fmt.Sprintf("idx.spec %s %d ~ ~ AllSuccessful %s", variant, n, ht), verdict)
			}
			if verdict == "ok" && firstBad != 0 && n >= firstBad {
				acceptedBad++
				if minAccepted == 0 {
					minAccepted = n
				}
			}
			if verdict != "ok" && (firstBad == 0 || n < firstBad) {
				c.Count("sweep.rejected-collision-free")
			}
		}
		c.Stats["sweep.accepted-colliding"] = int64(acceptedBad)
		if acceptedBad > 0 {
			r.admit("hash-collision", "withCount sweep 1..%d: validation accepts %d colliding values, smallest withCount=%d (indexes %s share a hash)", max, acceptedBad, minAccepted, firstPair)
		}
	})
	// ---- corpus: plain regression cases
	scen("nil-spec", func(r *idxRun) { r.runSpec(&hspec{isNil: true}, c.Rng) })
	scen("empty-spec", func(r *idxRun) { r.runSpec(&hspec{strategy: "AllSuccessful"}, c.Rng) })
	scen("matrix-3x2x2", func(r *idxRun) {
		r.runSpec(&hspec{matrix: []mcol{{"b", []string{"x", "y"}}, {"a", []string{"1", "2", "3"}}, {"c", []string{"p", "q"}}}, strategy: "AnySuccessful"}, c.Rng)
	})
	scen("f3-matrix-5x6-collision", func(r *idxRun) {
		var cols []mcol
		for _, k := range []string{"e", "d", "c", "b", "a"} {
			cols = append(cols, mcol{k, []string{"a", "ab", "abc", "ba", "b", "bab"}})
		}
		r.runSpec(&hspec{matrix: cols, strategy: "AllSuccessful"}, c.Rng)
	})
	scen("matrix-single-empty-values", func(r *idxRun) {
		r.runSpec(&hspec{matrix: []mcol{{"a", []string{}}}, strategy: "AllSuccessful"}, c.Rng)
	})
	scen("all-three-types", func(r *idxRun) {
		r.runSpec(&hspec{count: i64(2), keys: []string{"a"}, matrix: []mcol{{"a", []string{"x"}}}, strategy: "AllSuccessful"}, c.Rng)
	})
	scen("f3-withcount-5000", func(r *idxRun) { r.runSpec(&hspec{count: i64(5000), strategy: "AllSuccessful"}, c.Rng) })
	scen("withcount-negative", func(r *idxRun) { r.runSpec(&hspec{count: i64(-1), strategy: "AllSuccessful"}, c.Rng) })
	scen("withkeys-unicode-empty", func(r *idxRun) {
		r.runSpec(&hspec{keys: []string{"日本", "", "本日", "ä", "a b"}, strategy: "AllSuccessful"}, c.Rng)
	})

	// ---- generated cases
	c.ForCases(func(i int, rng *rand.Rand) {
		r := &idxRun{c: c, variant: variant}
		r.runSpec(genSpec(rng, thorough), rng)
	})
}
