package sim

import (
	"fmt"
	"strings"
	"testing"
	"time"

	corev1 "k8s.io/api/core/v1"
	metav1 "k8s.io/apimachinery/pkg/apis/meta/v1"
	fakeclock "k8s.io/utils/clock/testing"
)

// The watch events caused by the pod deletes of one pass must come out in the same order whatever
// order the goroutines of a concurrent batch reach the server in: pending-timeout batch {b}, then
// kill batch {a, b, c} (a superset computed from the same task list), then force batch {x, y}.
func TestSortDeleteRunsIndependentOfScheduling(t *testing.T) {
	perms := func(l []string) [][]string {
		var out [][]string
		var rec func(cur, rest []string)
		rec = func(cur, rest []string) {
			if len(rest) == 0 {
				out = append(out, append([]string(nil), cur...))
				return
			}
			for i := range rest {
				r := append(append([]string(nil), rest[:i]...), rest[i+1:]...)
				rec(append(cur, rest[i]), r)
			}
		}
		rec(nil, l)
		return out
	}
	want := ""
	for _, kill := range perms([]string{"a", "b", "c"}) {
		for _, force := range perms([]string{"x", "y"}) {
			clk := fakeclock.NewFakeClock(time.Unix(1000, 0))
			api := NewSimAPI(clk)
			for _, n := range []string{"a", "b", "c", "x", "y"} {
				p := &corev1.Pod{ObjectMeta: metav1.ObjectMeta{Namespace: "ns", Name: n}}
				if _, err := api.Create("pods", p, false); err != nil {
					t.Fatal(err)
				}
			}
			// x and y are already being deleted (an earlier pass)
			_ = api.Delete("pods", "ns/x", false, false)
			_ = api.Delete("pods", "ns/y", false, false)
			from := len(api.Pending["pods"])
			_ = api.Delete("pods", "ns/b", false, true) // pending-timeout batch
			for _, n := range kill {
				_ = api.Delete("pods", "ns/"+n, false, true) // kill batch, in this scheduling order
			}
			for _, n := range force {
				_ = api.Delete("pods", "ns/"+n, true, true) // force batch
			}
			api.SortDeleteRuns("pods", from)
			var got []string
			for _, ev := range api.Pending["pods"][from:] {
				got = append(got, fmt.Sprintf("%s:%s:%d", ev.Type, keyOf(ev.Obj), ev.Run))
			}
			g := strings.Join(got, " ")
			if want == "" {
				want = g
				if want != "update:ns/b:1 update:ns/a:2 update:ns/c:2 delete:ns/x:3 delete:ns/y:3" {
					t.Fatalf("unexpected canonical order: %s", want)
				}
			}
			if g != want {
				t.Errorf("kill order %v, force order %v: events %s, want %s", kill, force, g, want)
			}
		}
	}
}
