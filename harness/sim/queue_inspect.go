package sim

import "sort"

// Inspection helpers of DetQueue used by the retry / system engines (C20): the in-flight set,
// the dirty set and the requeue counters, all sorted.

// Processing returns the keys handed out by Get and not yet Done (sorted).
func (q *DetQueue) Processing() []string {
	out := make([]string, 0, len(q.processing))
	for k := range q.processing {
		out = append(out, k)
	}
	sort.Strings(out)
	return out
}

// Dirty returns the dirty set (sorted).
func (q *DetQueue) Dirty() []string {
	out := make([]string, 0, len(q.dirty))
	for k := range q.dirty {
		out = append(out, k)
	}
	sort.Strings(out)
	return out
}

// Requeue is one requeue counter.
type Requeue struct {
	Key string
	N   int
}

// Requeues returns the non-zero requeue counters (sorted by key).
func (q *DetQueue) Requeues() []Requeue {
	out := make([]Requeue, 0, len(q.requeues))
	for k, n := range q.requeues {
		out = append(out, Requeue{k, n})
	}
	sort.Slice(out, func(i, j int) bool { return out[i].Key < out[j].Key })
	return out
}

// IsDelayed reports whether key has a pending deadline.
func (q *DetQueue) IsDelayed(key string) bool { _, ok := q.delayed[key]; return ok }

// IsReady reports whether key is in the ready list.
func (q *DetQueue) IsReady(key string) bool {
	for _, k := range q.queue {
		if k == key {
			return true
		}
	}
	return false
}
