package sim

import (
	"sort"
	"time"

	"k8s.io/client-go/util/workqueue"
	"k8s.io/utils/clock"
)

// VirtualBase is the origin of virtual time.  It lies far ahead of the process clock on
// purpose: the controllers compute deferred re-sync durations with time.Until (process clock),
// and DetQueue recovers the absolute virtual deadline as time.Now()+d.
var VirtualBase = time.Date(2040, 1, 1, 0, 0, 0, 0, time.UTC)

// DetQueue is a deterministic workqueue.RateLimitingInterface with virtual time: same
// dirty/processing semantics as client-go's queue, no goroutines, Get never blocks.
type DetQueue struct {
	Clock      clock.PassiveClock
	queue      []string
	dirty      map[string]bool
	processing map[string]bool
	delayed    map[string]int64 // key -> virtual deadline (ns); earliest wins
	requeues   map[string]int
	shutdown   bool
	// log of AddAfter calls since last ClearLog (key, deadline ns)
	Timers []Timer
	// Candidates (optional) lists the absolute virtual instants (ns) the controller under test can
	// legitimately be waiting for (startAfter times, finish+delay, ...).  The duration handed to
	// AddAfter was computed from the PROCESS clock a moment before AddAfter reads it again, so the
	// recovered deadline is late by however long the process was stalled in between (GC, a busy
	// machine); snapping to the nearest candidate at or before the recovered instant makes the
	// recovery exact for stalls up to SnapTolerance instead of half a millisecond.
	Candidates    func() []int64
	SnapTolerance time.Duration
}

type Timer struct {
	Key      string
	Deadline int64
}

var _ workqueue.RateLimitingInterface = (*DetQueue)(nil)

func NewDetQueue(c clock.PassiveClock) *DetQueue {
	return &DetQueue{Clock: c, dirty: map[string]bool{}, processing: map[string]bool{}, delayed: map[string]int64{}, requeues: map[string]int{}}
}

func (q *DetQueue) Add(item interface{}) {
	k := item.(string)
	if q.shutdown || q.dirty[k] {
		return
	}
	q.dirty[k] = true
	if q.processing[k] {
		return
	}
	q.queue = append(q.queue, k)
}
func (q *DetQueue) Len() int { return len(q.queue) }

// Get pops the next ready key; on an empty queue it reports shutdown=true so that a single
// worker step returns instead of blocking.
func (q *DetQueue) Get() (interface{}, bool) {
	if len(q.queue) == 0 {
		return nil, true
	}
	k := q.queue[0]
	q.queue = q.queue[1:]
	q.processing[k] = true
	delete(q.dirty, k)
	return k, false
}
func (q *DetQueue) Done(item interface{}) {
	if item == nil {
		return
	}
	k := item.(string)
	delete(q.processing, k)
	if q.dirty[k] {
		q.queue = append(q.queue, k)
	}
}
func (q *DetQueue) ShutDown()          { q.shutdown = true }
func (q *DetQueue) ShutDownWithDrain() { q.shutdown = true }
func (q *DetQueue) ShuttingDown() bool { return q.shutdown }

// AddAfter: d is a process-clock duration; the absolute deadline is recovered as
// time.Now()+d, rounded to milliseconds.  A duration at the 1s clamp (or a deadline not after
// the virtual present + 1s) means "one second from now" in virtual time.
func (q *DetQueue) AddAfter(item interface{}, d time.Duration) {
	k := item.(string)
	now := q.Clock.Now().UnixNano()
	var deadline int64
	if d <= 0 {
		q.Add(item)
		return
	}
	raw := time.Now().Add(d)
	abs := raw.Round(time.Millisecond).UnixNano()
	if q.Candidates != nil {
		tol := int64(q.SnapTolerance)
		if tol == 0 {
			tol = int64(200 * time.Millisecond)
		}
		best, found := int64(0), false
		for _, c := range q.Candidates() {
			if c <= raw.UnixNano()+int64(time.Millisecond/2) && raw.UnixNano()-c < tol && (!found || c > best) {
				best, found = c, true
			}
		}
		if found {
			abs = best
		}
	}
	deadline = abs
	if d <= time.Second || deadline < now+int64(time.Second) {
		deadline = now + int64(time.Second)
	}
	q.Timers = append(q.Timers, Timer{k, deadline})
	if old, ok := q.delayed[k]; !ok || deadline < old {
		q.delayed[k] = deadline
	}
}

// AddRateLimited uses a deterministic exponential back-off in virtual time.
func (q *DetQueue) AddRateLimited(item interface{}) {
	k := item.(string)
	n := q.requeues[k]
	q.requeues[k] = n + 1
	if n > 6 {
		n = 6
	}
	deadline := q.Clock.Now().UnixNano() + int64(5*time.Millisecond)<<uint(n)
	if old, ok := q.delayed[k]; !ok || deadline < old {
		q.delayed[k] = deadline
	}
}
func (q *DetQueue) Forget(item interface{})          { delete(q.requeues, item.(string)) }
func (q *DetQueue) NumRequeues(item interface{}) int { return q.requeues[item.(string)] }

// Advance moves due delayed keys into the ready queue (in deadline, then key order).
func (q *DetQueue) Advance() {
	now := q.Clock.Now().UnixNano()
	var due []string
	for k, d := range q.delayed {
		if d <= now {
			due = append(due, k)
		}
	}
	sort.Slice(due, func(i, j int) bool {
		if q.delayed[due[i]] != q.delayed[due[j]] {
			return q.delayed[due[i]] < q.delayed[due[j]]
		}
		return due[i] < due[j]
	})
	for _, k := range due {
		delete(q.delayed, k)
		q.Add(k)
	}
}

// Ready returns the ready keys in order; Delayed the delayed keys with deadlines (sorted).
func (q *DetQueue) Ready() []string { return append([]string(nil), q.queue...) }
func (q *DetQueue) Delayed() []Timer {
	var out []Timer
	for k, d := range q.delayed {
		out = append(out, Timer{k, d})
	}
	sort.Slice(out, func(i, j int) bool {
		if out[i].Deadline != out[j].Deadline {
			return out[i].Deadline < out[j].Deadline
		}
		return out[i].Key < out[j].Key
	})
	return out
}

// NextDeadline returns the earliest delayed deadline, or 0.
func (q *DetQueue) NextDeadline() int64 {
	var m int64
	for _, d := range q.delayed {
		if m == 0 || d < m {
			m = d
		}
	}
	return m
}

// Reset drops everything (controller restart).
func (q *DetQueue) Reset() {
	q.queue = nil
	q.dirty = map[string]bool{}
	q.processing = map[string]bool{}
	q.delayed = map[string]int64{}
	q.requeues = map[string]int{}
	q.Timers = nil
}
